/-
C13 (round 2, "open items") — further property theorems: forwarded text, the Ctrl encodings as a total
description, Ctrl+Alt pinned to xterm's form, Shift / Alt+Shift letters of any script over the `unicode`
oracle, whole pastes (any payload, any interleaving of boundaries), the legacy X10 mouse report.
Property theorems only.
-/
import VaxisModel.Model.TermKey
import VaxisModel.Model.TermMouse
import VaxisModel.Spec.TermInput
import VaxisModel.Lemmas.TermInput
import VaxisModel.Props.C13

namespace VaxisModel.Props.C13Ext
open VaxisModel.Model.Key VaxisModel.Model.Mouse VaxisModel.Model.TermKey VaxisModel.Model.TermMouse
open VaxisModel.Spec.KeyEnc VaxisModel.Spec.TermInput VaxisModel.Gen.Keys VaxisModel.Gen.TermKeys
open VaxisModel.Lemmas.TermInput VaxisModel.Lemmas.KeyDecode

/-! ## Text -/

/-- **text_forwarded** (the "arrive intact" clause for typed and pasted text). Whenever the text clause
    applies (`textDue`: the event carries text, its key code is any code point — Tab / Enter / DEL
    included —, neither Alt nor Ctrl is held, and it is not Shift+Tab), the child receives exactly the
    event's text: every code point of a grapheme cluster, the character caps lock or an AltGr level
    produced — for every `unicode` table, every other field of the event, all four key modes.
    (False before 2a06572: without Shift only the first code point of the *key code* was written.) -/
theorem text_forwarded (u : Uni) (k : Key) (pam ckm : Bool) (h : textDue k = true) :
    encodeXterm u k pam ckm = k.text := by
  simp only [textDue, Bool.and_eq_true, decide_eq_true_eq, Bool.not_eq_true', Bool.and_eq_false_imp] at h
  obtain ⟨⟨⟨ht, hmax⟩, hm6⟩, htab⟩ := h
  have hx : xtermMods k = k.mods &&& 7 := rfl
  rw [hx] at hm6 htab
  have hlt : k.mods &&& 7 < 8 := Nat.and_lt_two_pow _ (by decide : 7 < 2 ^ 3)
  have hbits := mods_no_alt_ctrl ⟨k.mods &&& 7, hlt⟩ hm6
  have ha : k.mods &&& ModAlt = 0 := by rw [and7 k.mods ModAlt (by decide)]; exact hbits.1
  have hc : k.mods &&& ModCtrl = 0 := by rw [and7 k.mods ModCtrl (by decide)]; exact hbits.2.1
  have htab' : k.keycode ≠ KeyTab ∨ k.mods &&& 7 ≠ ModShift := by
    by_cases h9 : k.keycode = KeyTab
    · right; intro h1; have h2 := htab h9; simp only [decide_eq_false_iff_not] at h2; exact h2 h1
    · left; exact h9
  rw [encodeXterm_core_of_lt _ _ _ _ (by have := maxRune_lt_keypad; omega)]
  unfold encodeXtermCore
  simp only [xm_eq]
  rw [encodeTables_char' _ _ _ _ _ hmax htab']
  by_cases hz : k.mods &&& 7 = 0 ∧ k.keycode < maxRune
  · simp [hz, ht]
  · simp [hz, ht, ha, hc]

example : textDue { keycode := 101, text := [101, 769] } = true ∧ textDue { keycode := 97, mods := 64, text := [65] } = true ∧
    textDue { keycode := 113, text := [64] } = true ∧ textDue { keycode := 101, shifted := 69, mods := 1, text := [69, 769], event := 4 } = true := by decide

/-! ## Ctrl -/

/-- What xterm's legacy protocol and the widget send for Ctrl + a character key, as one table:
    the control code of `@ a–z [ \ ] ^ _`, the digit cases of the source (`Gen.TermKeys.ctrlCases`:
    2–8 ↦ NUL ESC FS GS RS US DEL, 1 ↦ itself, 9 ↦ nothing), every other key itself. -/
def ctrlWritten (kc : Int) : Str :=
  if 97 ≤ kc ∧ kc ≤ 122 then [kc - 96]
  else match lookup kc ctrlCases with
    | some out => out
    | none => if 64 ≤ kc ∧ kc < 96 then [kc - 64] else strOfRune kc

/-- **ctrl_char_total.** Total description of what is written for Ctrl (+Alt, +Shift) + any character
    key (any code point below MaxRune other than Shift+Tab's), any event shape, `unicode` table and key
    modes: an `ESC` iff Alt is held, followed by `ctrlWritten`.  In particular the key's own code point is
    written — not `key − 0x40` / `key − 0x60` — for every key that has no control code.
    (False before 0040837: U+FFFD for digits/space/punctuation, another character for `` ` { | } ~ `` and
    non-ASCII letters.) -/
theorem ctrl_char_total (u : Uni) (k : Key) (pam ckm : Bool)
    (hc : k.mods &&& ModCtrl ≠ 0) (hk : 0 ≤ k.keycode ∧ k.keycode < maxRune) :
    encodeXterm u k pam ckm = (if k.mods &&& ModAlt ≠ 0 then [27] else []) ++ ctrlWritten k.keycode := by
  obtain ⟨h0, hmax⟩ := hk
  have hc7 : (k.mods &&& 7) &&& ModCtrl ≠ 0 := by rw [← and7 k.mods ModCtrl (by decide)]; exact hc
  have ha7 : (k.mods &&& 7) &&& ModAlt = k.mods &&& ModAlt := (and7 k.mods ModAlt (by decide)).symm
  have hx0 : k.mods &&& 7 ≠ 0 := by intro h; rw [h] at hc7; exact hc7 (by decide)
  have hxs : k.mods &&& 7 ≠ ModShift := by intro h; rw [h] at hc7; exact hc7 (by decide)
  rw [encodeXterm_core_of_lt _ _ _ _ (by have := maxRune_lt_keypad; omega)]
  unfold encodeXtermCore
  simp only [xm_eq]
  rw [encodeTables_char _ _ _ _ _ hmax (Or.inr hxs)]
  simp only [hx0, if_false, hc, ha7, hmax, if_true, ne_eq, not_false_eq_true, false_and, and_false, hc7]
  unfold ctrlWritten
  by_cases hl : 97 ≤ k.keycode ∧ k.keycode ≤ 122
  · have hv : validRune (k.keycode - 96) = true := by
      have hmr : maxRune = 1114111 := rfl
      simp only [validRune, hmr, Bool.and_eq_true, Bool.not_eq_true', decide_eq_true_eq, Bool.and_eq_false_imp]
      omega
    simp [hl, strOfRune, hv]
  · simp only [hl, if_false]
    cases hlk : lookup k.keycode ctrlCases with
    | some out =>
      have hval : (out.map fun r => if validRune r = true then r else 65533) = out :=
        ctrlCases_valid _ _ hlk
      simp [hval]
    | none =>
      have hr : ctrlDefaultRange = (64, 96) := rfl
      simp only [hr]
      by_cases h64 : 64 ≤ k.keycode ∧ k.keycode < 96
      · have hv : validRune (k.keycode - 64) = true := by
          have hmr : maxRune = 1114111 := rfl
          simp only [validRune, hmr, Bool.and_eq_true, Bool.not_eq_true', decide_eq_true_eq, Bool.and_eq_false_imp]
          omega
        simp [h64, strOfRune, hv]
      · simp [h64]

/-- Ctrl + any printable ASCII key, with or without Alt and Shift: what is written is never U+FFFD and
    never a character other than the key or its control code; it is empty only for Ctrl+9 (the source's
    explicit empty case). Kernel-evaluated over the regenerated `ctrlCases` / `ctrlDefaultRange`. -/
theorem ctrl_ascii_never_junk :
    ((List.range 95).all fun (i : Nat) =>
      let kc : Int := 32 + Int.ofNat i
      let w := ctrlWritten kc
      !w.contains 0xFFFD && (w == [kc] || (w.length == 1 && w.all fun r => decide (r < 32 ∨ r = 127)) || (kc == 57 && w == []))) = true := by
  decide +kernel

/-- **alt_ctrl_letter_is_xterm.** Ctrl+Alt (+Shift) + a character with a control code (`@`, a–z,
    `[ \ ] ^ _`): the widget writes xterm's legacy form of the chord, `ESC` followed by the C0 byte
    (`Spec.altCtrlXterm`), for every `unicode` table, event shape and all four key modes.  (Vaxis's own
    parser has no single event for `ESC` + C0, which is why the chord is outside `XtermDomain`; the
    bytes are nevertheless the ones xterm sends.) -/
theorem alt_ctrl_letter_is_xterm (u : Uni) (k : Key) (pam ckm : Bool) (b : Int)
    (ha : k.mods &&& ModAlt ≠ 0) (hc : k.mods &&& ModCtrl ≠ 0) (hb : ctrlByte k.keycode = some b) :
    altCtrlXterm k.keycode = some [27, b] ∧ encodeXterm u k pam ckm = [27, b] := by
  constructor
  · simp [altCtrlXterm, hb]
  · have hmr : maxRune = 1114111 := rfl
    unfold ctrlByte at hb
    by_cases hl : 97 ≤ k.keycode ∧ k.keycode ≤ 122
    · rw [ctrl_char_total u k pam ckm hc ⟨by omega, by omega⟩]
      simp only [hl, if_true, and_self, Option.some.injEq] at hb
      simp [ha, ctrlWritten, hl, hb]
    · simp only [hl, if_false] at hb
      by_cases h2 : k.keycode = 64 ∨ (91 ≤ k.keycode ∧ k.keycode ≤ 95)
      · simp only [h2, if_true, Option.some.injEq] at hb
        rw [ctrl_char_total u k pam ckm hc ⟨by omega, by omega⟩]
        have hlk : lookup k.keycode ctrlCases = none := by
          rcases h2 with h | h
          · rw [h]; decide
          · have : k.keycode = 91 ∨ k.keycode = 92 ∨ k.keycode = 93 ∨ k.keycode = 94 ∨ k.keycode = 95 := by omega
            rcases this with h | h | h | h | h <;> rw [h] <;> decide
        have h64 : 64 ≤ k.keycode ∧ k.keycode < 96 := by omega
        simp [ha, ctrlWritten, hl, hlk, h64, hb]
      · simp [h2] at hb

example : ctrlByte 97 = some 1 ∧ ctrlByte 64 = some 0 ∧ ctrlByte 95 = some 31 := by decide

/-! ## Shift + letters of any script -/

/-- Hypotheses on the `unicode` tables for a cased letter pair `c` (the key) / `C` (what Shift
    produces): as Go's tables say for every letter with simple one-to-one case mappings; the harness
    checks them on Go's tables for every code point it uses (`hyp_ok` / `hyp_violated:*`). -/
structure CasedPair (u : Uni) (c C : Int) : Prop where
  upper : u.isUpper C = true
  lower : u.toLower C = c
  up : u.toUpper c = C
  valid : validRune C = true
  pos : 0 < C
  key : 32 ≤ c ∧ c < maxRune ∧ c ≠ 127

/-- The shapes of a Shift (+Alt) event for the key: the shifted code is the upper-case letter or absent
    (then the widget upper-cases the key), the text is absent or that letter. -/
def ShiftShape (k : Key) (c C : Int) : Prop :=
  k.keycode = c ∧ (k.shifted = C ∨ k.shifted ≤ 0) ∧ (k.text = [] ∨ k.text = [C])

/-- Core of `shift_letter_roundtrip`: `u.toUpper c = C` is only needed for the event shape without a
    shifted code and without text (the widget then upper-cases the key itself). -/
theorem shift_letter_core (u : Uni) (k : Key) (pam ckm : Bool) (c C : Int)
    (hm : xtermMods k = shiftBit)
    (hU : u.isUpper C = true) (hL : u.toLower C = c) (hV : validRune C = true) (hpos : 0 < C)
    (hkey : 32 ≤ c ∧ c < maxRune ∧ c ≠ 127)
    (hkc : k.keycode = c) (hsh : k.shifted = C ∨ (k.shifted ≤ 0 ∧ (k.text = [C] ∨ u.toUpper c = C)))
    (htx : k.text = [] ∨ k.text = [C]) :
    encodeXterm u k pam ckm = renderSeq (.print [C]) ∧ keyArrives u k (decodeKey u (.print [C])) := by
  obtain ⟨h32, hmax, h127⟩ := hkey
  have hm7 : k.mods &&& 7 = 1 := hm
  have ha : k.mods &&& ModAlt = 0 := by rw [and7 k.mods ModAlt (by decide), hm7]; decide
  have hc : k.mods &&& ModCtrl = 0 := by rw [and7 k.mods ModCtrl (by decide), hm7]; decide
  have htab : k.keycode ≠ KeyTab := by rw [hkc]; simp only [KeyTab]; omega
  constructor
  · rw [encodeXterm_core_of_lt _ _ _ _ (by have := maxRune_lt_keypad; omega)]
    unfold encodeXtermCore
    simp only [xm_eq, hm7]
    rw [encodeTables_char _ _ _ _ _ (by rw [hkc]; exact hmax) (Or.inl htab)]
    rcases htx with ht | ht
    · rcases hsh with hsc | ⟨hsc, hup⟩
      · simp [ht, hkc, hmax, ModShift, ModAlt, ModCtrl, hsc, hpos, strOfRune, hV, renderSeq]
      · have hns : ¬ k.shifted > 0 := by omega
        have hup' : u.toUpper c = C := by
          rcases hup with h | h
          · rw [ht] at h; simp at h
          · exact h
        simp [ht, hkc, hmax, ModShift, ModAlt, ModCtrl, hns, hup', strOfRune, hV, renderSeq]
    · simp [ht, ha, hc, renderSeq]
  · unfold keyArrives
    rw [hm, decodeKey_print u [C] (by simp) (by simp only [List.headD_cons]; intro _; rw [hL]; exact h127)]
    have e : printExpected u [C] = { keycode := c, shifted := C, mods := shiftBit, text := [C] } := by
      simp [printExpected, hU, hL]
    rw [e, hkc]; unfold matchSpec
    exact Or.inl ⟨rfl, rfl⟩

/-- **shift_letter_roundtrip.** Shift + a cased letter of any script (any code point; hypotheses on the
    `unicode` tables explicit in `CasedPair`), every event shape (`ShiftShape`), kitty-only modifiers
    and all four key modes: the upper-case letter is written and Vaxis decodes it as an event matching
    (key, Shift). -/
theorem shift_letter_roundtrip (u : Uni) (k : Key) (pam ckm : Bool) (c C : Int)
    (hm : xtermMods k = shiftBit) (hp : CasedPair u c C) (hs : ShiftShape k c C) :
    encodeXterm u k pam ckm = renderSeq (.print [C]) ∧ keyArrives u k (decodeKey u (.print [C])) := by
  obtain ⟨hkc, hsh, htx⟩ := hs
  exact shift_letter_core u k pam ckm c C hm hp.upper hp.lower hp.valid hp.pos hp.key hkc
    (by rcases hsh with h | h
        · exact Or.inl h
        · exact Or.inr ⟨h, Or.inr hp.up⟩) htx

/-- **alt_shift_letter_roundtrip.** Alt+Shift + a cased letter of any script: `ESC` + the upper-case
    letter is written (whatever text the event carries) and decodes to an event matching
    (key, Alt|Shift). -/
theorem alt_shift_letter_roundtrip (u : Uni) (k : Key) (pam ckm : Bool) (c C : Int)
    (hm : xtermMods k = altBit ||| shiftBit) (hp : CasedPair u c C)
    (hs : k.keycode = c ∧ (k.shifted = C ∨ k.shifted ≤ 0)) :
    encodeXterm u k pam ckm = renderSeq (.esc C) ∧ keyArrives u k (decodeKey u (.esc C)) := by
  obtain ⟨hkc, hsh⟩ := hs
  obtain ⟨h32, hmax, h127⟩ := hp.key
  have hm7 : k.mods &&& 7 = 3 := hm
  have ha : k.mods &&& ModAlt = 2 := by rw [and7 k.mods ModAlt (by decide), hm7]; decide
  have hc : k.mods &&& ModCtrl = 0 := by rw [and7 k.mods ModCtrl (by decide), hm7]; decide
  have htab : k.keycode ≠ KeyTab := by rw [hkc]; simp only [KeyTab]; omega
  constructor
  · rw [encodeXterm_core_of_lt _ _ _ _ (by have := maxRune_lt_keypad; omega)]
    unfold encodeXtermCore
    simp only [xm_eq, hm7]
    rw [encodeTables_char _ _ _ _ _ (by rw [hkc]; exact hmax) (Or.inl htab)]
    have ha' : k.mods &&& 2 = 2 := ha
    rcases hsh with hsc | hsc
    · have hpos := hp.pos
      simp [ha', hkc, hmax, ModShift, ModAlt, ModCtrl, hsc, hpos, strOfRune, hp.valid, renderSeq]
    · have : ¬ k.shifted > 0 := by omega
      simp [ha', hkc, hmax, ModShift, ModAlt, ModCtrl, this, hp.up, strOfRune, hp.valid, renderSeq]
  · unfold keyArrives
    rw [hm, decodeKey_esc]
    have e : escExpected u C = { keycode := c, shifted := C, mods := altBit ||| shiftBit } := by
      simp [escExpected, hp.upper, hp.lower]
    rw [e, hkc]; unfold matchSpec
    exact Or.inl ⟨rfl, rfl⟩

/-- Non-vacuity: Go's ASCII tables give a `CasedPair` for a / A (and the same shape holds for
    ф / Ф, é / É … on Go's full tables — checked at run time by the harness). -/
example : CasedPair asciiUni 97 65 := ⟨by decide, by decide, by decide, by decide, by decide, by decide⟩

/-- **nonascii_key_roundtrip** (the key clause on the non-ASCII part of `XtermDomainU`, exactly what the
    driver judges there). For every `unicode` table, every event whose key is a code point ≥ 128 and
    whose chord the legacy protocol expresses readably (`xtermLegacyU … = some s`: unmodified, or Shift
    with an upper-case shifted character whose lower case is the key) and which is a chord rather than
    a text production, and all four key modes: the widget writes exactly `s`, and `s` decoded by Vaxis
    matches the original key and modifiers. -/
theorem nonascii_key_roundtrip (u : Uni) (k : Key) (pam ckm : Bool) (s : Seq)
    (hd : xtermLegacyU u k.keycode (xtermMods k) (shiftedOf u k) = some s)
    (hl : k.text.length ≤ 1) (hch : textIsChord u k = true) :
    encodeXterm u k pam ckm = renderSeq s ∧ keyArrives u k (decodeKey u s) := by
  unfold xtermLegacyU at hd
  by_cases hr : 128 ≤ k.keycode ∧ k.keycode < maxRune ∧ validRune k.keycode = true
  · simp only [hr, and_self, not_true_eq_false, if_false] at hd
    obtain ⟨h128, hmax, hv⟩ := hr
    by_cases hm0 : xtermMods k = 0
    · simp only [hm0, if_true] at hd
      by_cases hdel : u.isUpper k.keycode = true ∧ u.toLower k.keycode = 127
      · simp [hdel] at hd
      · simp only [hdel, if_false, Option.some.injEq] at hd
        subst hd
        have htext : k.text = [] ∨ k.text = [k.keycode] := by
          simp only [textIsChord, producedChar, hm0, Bool.or_eq_true, decide_eq_true_eq] at hch
          rcases hch with (h | h) | h
          · exact absurd h (by decide)
          · exact Or.inl h
          · right; simpa using h
        exact VaxisModel.Props.C13.plain_char_roundtrip u k pam ckm hm0 ⟨by omega, hmax, hv⟩ htext
          (fun hu hl127 => hdel ⟨hu, hl127⟩)
    · simp only [hm0, if_false] at hd
      by_cases hms : xtermMods k = shiftBit
      · simp only [hms, if_true] at hd
        by_cases hS : u.isUpper (shiftedOf u k) = true ∧ u.toLower (shiftedOf u k) = k.keycode ∧
            validRune (shiftedOf u k) = true ∧ 0 < shiftedOf u k
        · simp only [hS, and_self, if_true, Option.some.injEq] at hd
          subst hd
          obtain ⟨hU, hL, hV, hpos⟩ := hS
          have hprod : producedChar u k = shiftedOf u k := by simp [producedChar, hms, shiftBit]
          have htext : k.text = [] ∨ k.text = [shiftedOf u k] := by
            simp only [textIsChord, hprod, hms, Bool.or_eq_true, decide_eq_true_eq] at hch
            rcases hch with (h | h) | h
            · exact absurd h (by decide)
            · exact Or.inl h
            · exact Or.inr h
          have hshape : k.shifted = shiftedOf u k ∨
              (k.shifted ≤ 0 ∧ (k.text = [shiftedOf u k] ∨ u.toUpper k.keycode = shiftedOf u k)) := by
            by_cases hsp : k.shifted > 0
            · left; simp [shiftedOf, hsp]
            · right
              refine ⟨by omega, ?_⟩
              cases htx : k.text with
              | nil =>
                right
                by_cases hlow : u.isLower k.keycode = true
                · simp [shiftedOf, hsp, htx, hlow]
                · have : shiftedOf u k = 0 := by simp [shiftedOf, hsp, htx, hlow]
                  omega
              | cons a t =>
                cases t with
                | nil => left; simp [shiftedOf, hsp, htx]
                | cons b t' => rw [htx] at hl; simp at hl
          exact shift_letter_core u k pam ckm k.keycode (shiftedOf u k) hms hU hL hV hpos
            ⟨by omega, hmax, by omega⟩ rfl hshape htext
        · simp [hS] at hd
      · simp [hms] at hd
  · simp [hr] at hd

example : xtermLegacyU asciiUni 1092 0 0 = some (.print [1092]) := by decide

/-! ## Paste: whole payloads, any interleaving of boundaries -/

/-- An unmodified key without text: the key code itself. -/
theorem enc_plain (u : Uni) (k : Key) (pam ckm : Bool) (hm : k.mods &&& 7 = 0) (ht : k.text = [])
    (hk : k.keycode < maxRune) (hv : validRune k.keycode = true) : encodeXterm u k pam ckm = [k.keycode] := by
  rw [encodeXterm_core_of_lt _ _ _ _ (by have := maxRune_lt_keypad; omega)]
  unfold encodeXtermCore
  simp only [xm_eq, hm]
  rw [encodeTables_char _ _ _ _ _ hk (Or.inr (by decide))]
  simp [ht, strOfRune, hv]

/-- The key each C0 byte other than BS decodes to is written back as that byte. -/
theorem c0_written : ∀ n : Fin 32, n.val ≠ 8 →
    let b : Int := n.val
    let e := c0Expected b
    (e.mods = 0 ∧ e.text = [] ∧ e.keycode = b ∧ e.keycode < maxRune ∧ validRune e.keycode = true) ∨
    (e.mods = ctrlBit ∧ 0 ≤ e.keycode ∧ e.keycode < maxRune ∧ ctrlWritten e.keycode = [b]) := by decide

/-- The events the host posts for a paste are presses or paste events, never releases. -/
theorem paste_event_not_release (p : Bool) : ((if p = true then EventPaste else EventPress) = EventRelease) = False := by
  cases p <;> simp [EventPaste, EventPress, EventRelease]

/-- One item: what `Model.Update` writes for the event the host posts for it is what is due. -/
theorem item_due (u : Uni) (md : Modes) (pending : Bool) (it : PasteItem) (h : it.ok u) :
    update u md (it.event u pending) = it.due md := by
  cases it with
  | start => simp only [PasteItem.event, PasteItem.due, update]; split <;> decide
  | stop => simp only [PasteItem.event, PasteItem.due, update]; split <;> decide
  | grapheme g =>
    obtain ⟨hg, h0, hmax, hdel, hup⟩ := h
    simp only [PasteItem.event, PasteItem.due, update, paste_event_not_release, if_false]
    rw [decodeKey_print u g hg (fun hu => (hup hu).2.2)]
    by_cases hu : u.isUpper (g.headD 0) = true
    · obtain ⟨hlmax, hl9, _⟩ := hup hu
      have e : printExpected u g = { keycode := u.toLower (g.headD 0), shifted := g.headD 0, mods := shiftBit, text := g } := by
        simp only [printExpected, hu, if_true]
      rw [e]; clear e
      generalize g.headD 0 = c at *
      rw [text_forwarded u _ _ _ (by simp [textDue, hg, xtermMods, shiftBit, altBit, ctrlBit, hlmax, KeyTab, hl9])]
    · by_cases hd : g.headD 0 = 127
      · have hg' := hdel hd
        rw [hg']
        have : printExpected u [127] = { keycode := 127 } := by
          rw [hg'] at hu; simp only [List.headD_cons] at hu
          simp [printExpected, hu, KeyBackspace]
        rw [this]
        exact enc_plain u _ _ _ (by simp) rfl (by simp [maxRune]) (by simp [validRune, maxRune])
      · have e : printExpected u g = { keycode := g.headD 0, text := g } := by
          simp only [printExpected, hu, hd, if_false]; rfl
        rw [e]; clear e
        generalize g.headD 0 = c at *
        rw [text_forwarded u _ _ _ (by simp [textDue, hg, xtermMods, shiftBit, altBit, ctrlBit, hmax])]
  | c0 b =>
    obtain ⟨h0, h32, h8⟩ := h
    simp only [PasteItem.event, PasteItem.due, update, paste_event_not_release, if_false]
    rw [decodeKey_c0 u b h0 h32]
    obtain ⟨n, rfl⟩ : ∃ n : Nat, b = n := ⟨b.toNat, by omega⟩
    have hn : n < 32 := by omega
    have := c0_written ⟨n, hn⟩ (by simp only; omega)
    simp only at this
    rcases this with ⟨hm, ht, hk, hlt, hv⟩ | ⟨hm, hk0, hlt, hw⟩
    · rw [enc_plain u _ _ _ (by simp [hm]) (by simpa using ht) (by simpa using hlt) (by simpa using hv)]
      simpa using hk
    · rw [ctrl_char_total u _ _ _ (by simp [hm, ctrlBit, ModCtrl]) ⟨by simpa using hk0, by simpa using hlt⟩]
      simp only [hm, ctrlBit, ModAlt]
      simpa using hw

/-- **forward_paste_items** (homomorphism). For every list of paste items — any interleaving of
    boundaries, grapheme clusters and C0 bytes, e.g. a payload whose source text contains `ESC[201~`
    — the bytes written for the events the host posts for them are the concatenation of what is due
    for each item: nothing is added, removed or reordered.  Every `unicode` table (hypotheses in
    `PasteItem.ok`), every mode state, either initial value of `pastePending`. -/
theorem forward_paste_items (u : Uni) (md : Modes) :
    ∀ (items : List PasteItem) (pending : Bool), (∀ it ∈ items, it.ok u) →
      forward u md (pasteEvents u pending items) = (items.map (PasteItem.due md)).flatten := by
  intro items
  induction items with
  | nil => intro _ _; rfl
  | cons it rest ih =>
    intro pending h
    have h1 := item_due u md pending it (h it (by simp))
    have h2 := ih (it.pendingAfter pending) (fun x hx => h x (by simp [hx]))
    simp only [pasteEvents, forward, List.map_cons, List.flatten_cons] at h2 ⊢
    rw [h1, h2]

/-- **paste_payload_intact.** A bracketed paste with an arbitrary payload (grapheme clusters of any
    length, C0 bytes other than BS): the child receives the payload byte-identical, preceded by
    `CSI 200 ~` and followed by `CSI 201 ~` exactly when it enabled bracketed paste (mode 2004). -/
theorem paste_payload_intact (u : Uni) (md : Modes) (payload : List PasteItem)
    (hp : ∀ it ∈ payload, it.isPayload = true) (hok : ∀ it ∈ payload, it.ok u) :
    forward u md (pasteEvents u false (.start :: payload ++ [.stop])) =
      (if md.paste then renderSeq pasteStartSeq else []) ++ (payload.map PasteItem.source).flatten ++
      (if md.paste then renderSeq pasteEndSeq else []) := by
  rw [forward_paste_items u md _ false (by
    intro it hit
    simp only [List.cons_append, List.mem_cons, List.mem_append, List.not_mem_nil, or_false] at hit
    rcases hit with rfl | hit | rfl
    · trivial
    · exact hok it hit
    · trivial)]
  have hsrc : payload.map (PasteItem.due md) = payload.map PasteItem.source := by
    apply List.map_congr_left
    intro it hit
    have := hp it hit
    cases it <;> simp_all [PasteItem.isPayload, PasteItem.due, PasteItem.source]
  simp [PasteItem.due, hsrc]

/-- **paste_enabled_identity / paste_disabled_strips.** With bracketed paste enabled the child receives
    the source text of any item list unchanged, inner markers included (a payload containing `ESC[201~`
    is parsed by the host as … end, keys, end and re-emitted as the same bytes); with it disabled it
    receives the source text with exactly the markers removed. -/
theorem paste_enabled_identity (u : Uni) (md : Modes) (items : List PasteItem) (pending : Bool)
    (hok : ∀ it ∈ items, it.ok u) (hm : md.paste = true) :
    forward u md (pasteEvents u pending items) = (items.map PasteItem.source).flatten := by
  rw [forward_paste_items u md items pending hok]
  congr 1
  apply List.map_congr_left
  intro it _
  cases it <;> simp [PasteItem.due, PasteItem.source, hm]

theorem paste_disabled_strips (u : Uni) (md : Modes) (items : List PasteItem) (pending : Bool)
    (hok : ∀ it ∈ items, it.ok u) (hm : md.paste = false) :
    forward u md (pasteEvents u pending items) = ((items.filter PasteItem.isPayload).map PasteItem.source).flatten := by
  rw [forward_paste_items u md items pending hok]
  clear hok
  induction items with
  | nil => rfl
  | cons it rest ih =>
    cases it <;> simp [PasteItem.due, PasteItem.source, PasteItem.isPayload, hm, List.filter_cons, ih]

/-- Non-vacuity: "é" as e + U+0301, an upper-case first rune, TAB, CR, DEL, NUL, ^A and a flag
    (two regional indicators) are items the theorems cover, on Go's ASCII tables. -/
example : ∀ it ∈ [PasteItem.grapheme [101, 769], .grapheme [69, 769], .c0 9, .c0 13, .grapheme [127], .c0 0, .c0 1,
    .grapheme [127465, 127466]], it.ok asciiUni := by
  intro it hit
  simp only [List.mem_cons, List.mem_nil_iff, or_false] at hit
  rcases hit with rfl | rfl | rfl | rfl | rfl | rfl | rfl | rfl <;> simp [PasteItem.ok, asciiUni, maxRune]

/-- The one C0 byte that does not arrive intact: BS (0x08) inside a paste is reported by the host's
    `decodeKey` as the BackSpace key — the same event as DEL — and is therefore forwarded as DEL. -/
theorem paste_bs_becomes_del (u : Uni) (md : Modes) (pending : Bool) :
    update u md ((PasteItem.c0 8).event u pending) = [127] := by
  simp only [PasteItem.event, update, paste_event_not_release, if_false]
  rw [decodeKey_c0 u 8 (by decide) (by decide)]
  have e : c0Expected 8 = { keycode := 127 } := by decide
  rw [e]
  exact enc_plain u _ _ _ (by simp) rfl (by simp [maxRune]) (by simp [validRune, maxRune])

/-! ## Key releases -/

/-- **release_not_forwarded.** A key *release* (kitty event type 3 — what a host started with
    `Options.ReportKeyboardEvents` receives after every press) handed to the terminal writes nothing: the
    xterm encoding has no releases, and writing the key would make the child see it pressed a second time
    (before the repair F313 every release was forwarded like a press: `a` arrived as `aa`, Enter twice, …).
    Every other event type (press, repeat, paste) is encoded by `encodeXterm` with the child's keypad and
    cursor-key modes.  Every key, `unicode` oracle and mode state. -/
theorem release_not_forwarded (u : Uni) (md : Modes) (k : Key) :
    (k.event = EventRelease → update u md (.key k) = []) ∧
    (k.event ≠ EventRelease → update u md (.key k) = encodeXterm u k md.deckpam md.decckm) := by
  constructor <;> intro h <;> simp [update, h]

example : update asciiUni {} (.key { keycode := 97, event := EventRelease }) = [] ∧
    update asciiUni {} (.key { keycode := 97, event := EventRepeat }) = [97] := by decide

/-! ## Mouse: the legacy (non-SGR) report -/

/-- **mouse_legacy_total.** Without SGR mode, an enabled press / release / motion event is written as
    `CSI M` followed by `%c` of button+32, 32+col+1 and 32+row+1 — whatever the event type (the release
    is not reported as button 3 and motion does not add 32), and as a multi-byte UTF-8 character from
    column / row 95 on.  The property's mouse round trip is stated "under SGR mouse mode" only; this pins
    what the other branch does. -/
theorem mouse_legacy_total (u : Uni) (md : Modes) (m : Mouse)
    (hsgr : md.mouseSGR = false) (hen : enabledFor md m = true) :
    update u md (.mouse m) =
      [27, 91, 77] ++ strOfRune (m.button + 32) ++ strOfRune (32 + m.col + 1) ++ strOfRune (32 + m.row + 1) := by
  obtain ⟨pam, ckm, paste, b, d, mo, sgr, alt, smcup⟩ := md
  simp only at hsgr
  subst hsgr
  unfold enabledFor at hen
  by_cases h1 : m.event = EventPress ∨ m.event = EventRelease
  · have hne : m.event ≠ EventMotion := by rcases h1 with h | h <;> rw [h] <;> decide
    simp only [h1, if_true] at hen
    simp only [update, handleMouse, hne]
    cases b <;> cases d <;> cases mo <;> simp_all
  · by_cases h2 : m.event = EventMotion
    · simp only [h2, if_true] at hen
      simp only [update, handleMouse, h2, VaxisModel.Gen.Mouse.MouseNoButton]
      by_cases h3 : m.button = 3 <;> simp [h3] at hen ⊢ <;> cases b <;> cases d <;> cases mo <;> simp_all
    · simp [h1, h2] at hen

example : enabledFor { mouseButtons := true } { button := 0, col := 200, row := 3, event := EventRelease } = true := by decide

end VaxisModel.Props.C13Ext
