/-
C13 — the keypad (F413 fixed, /repo 77b235a): "the child's cursor-key and keypad modes select the encoding it
asked for", "keys … arrive intact" for the keys a host whose terminal speaks the kitty keyboard protocol receives
with key codes of their own (`KeyKeyPad0` … `KeyKeyPadBegin`).

xterm (ctlseqs, "PC-Style Function Keys" / VT220 keypad; `numLock` resource): in application keypad mode (DECKPAM)
an unmodified digit / operator / Enter key of the keypad sends `SS3` + a final byte — unless Num Lock is on, which
overrides the mode; in numeric mode (DECKPNM) the key sends what its legend says (the character, CR, the cursor /
editing key's report, the latter following DECCKM).  Nothing on the legacy wire distinguishes a numeric-mode keypad
key from the key it stands for, so the round-trip clause for it is the clause for that key (`keypadJudgedAs`).
Only theorems + examples here; tables regenerated from widgets/term/key.go (`Gen/TermKeys.lean`).
-/
import VaxisModel.Props.C13

namespace VaxisModel.Props.C13Keypad
open VaxisModel.Model.Key VaxisModel.Model.TermKey
open VaxisModel.Spec.KeyEnc VaxisModel.Spec.TermInput VaxisModel.Gen.Keys VaxisModel.Gen.TermKeys
open VaxisModel.Lemmas.TermInput VaxisModel.Props.C13

/-- The regenerated application-mode table is xterm's (`SS3 p…y`, `n o j m k`, `M`, `X`, `l`): every row of the
    source is a row of the spec and every row of the spec is found by the look-up (order of the rows irrelevant). -/
theorem keypad_application_table_is_xterm :
    (∀ r ∈ keypadApplicationMode, r ∈ keypadChars.map fun e => (e.1, [27, 79, e.2.2.toNat])) ∧
    (∀ e ∈ keypadChars, lookup e.1 keypadApplicationMode = some [27, 79, e.2.2.toNat]) := by decide

/-- The regenerated numeric-mode table maps each keypad key to the key its legend names, and nothing else. -/
theorem keypad_numeric_table_is_legend :
    (∀ r ∈ keypadNumericMode, r ∈ (keypadChars.map fun e => (e.1, e.2.1)) ++ keypadNav) ∧
    (∀ e ∈ (keypadChars.map fun e => (e.1, e.2.1)) ++ keypadNav, lookup e.1 keypadNumericMode = some e.2) := by decide

/-- Row facts used below (kernel-evaluated over the regenerated tables). -/
theorem keypad_char_rows : ∀ e ∈ keypadChars,
    lookup e.1 keypadApplicationMode = some [27, 79, e.2.2.toNat] ∧ keypadLegend e.1 = e.2.1 ∧ e.2.1 < KeyKeyPad0 ∧
    0 ≤ e.2.2 ∧ ∀ md ∈ allModes, encodeTables e.2.1 0 md.1 md.2 [] = some [e.2.1] := by decide

theorem keypad_nav_rows : ∀ e ∈ keypadNav,
    lookup e.1 keypadApplicationMode = none ∧ keypadLegend e.1 = e.2 ∧ e.2 < KeyKeyPad0 ∧
    (keypadChars.find? (·.1 = e.1)) = none ∧
    ∀ md ∈ allModes, encodeTables e.2 0 md.1 md.2 [] = (xtermLegacy e.2 0 0 md.2).map renderSeq := by decide

theorem allModes_all (pam ckm : Bool) : (pam, ckm) ∈ allModes := by cases pam <;> cases ckm <;> decide

/-- **keypad_application_mode.** DECKPAM, a digit / operator / Enter key of the keypad, none of Shift / Alt / Ctrl /
    Num Lock: exactly `SS3` + xterm's final byte is written — whatever the event's text, codes, event type, the
    cursor-key mode and the `unicode` tables. -/
theorem keypad_application_mode (u : Uni) (k : Key) (ckm : Bool) (e : Int × Int × Int)
    (he : e ∈ keypadChars) (hk : k.keycode = e.1)
    (hm : k.mods &&& (shiftBit ||| altBit ||| ctrlBit ||| numBit) = 0) :
    encodeXterm u k true ckm = [27, 79, e.2.2] := by
  obtain ⟨h1, _, _, h0, _⟩ := keypad_char_rows e he
  unfold encodeXterm
  have hm' : k.mods &&& keypadMask = 0 := hm
  simp only [hm', hk, h1, and_self, reduceIte, bytesStr, List.map]
  have : ((e.2.2.toNat : Nat) : Int) = e.2.2 := Int.toNat_of_nonneg h0
  simp [this]

/-- **keypad_is_its_legend.** Whenever application mode does not apply (`Spec.keypadApplication` = none: DECKPNM,
    or Num Lock, or a modifier held, or a navigation legend), a keypad key is encoded exactly as the key it stands
    for (`Spec.keypadStandsFor`): every event shape, both modes, every `unicode` table.  So every theorem about the
    ordinary keys (`key_roundtrip`, `cursor_mode_selects`, `plain_char_roundtrip`, `text_forwarded`, …) applies to
    the keypad key through its legend. -/
theorem keypad_is_its_legend (u : Uni) (k : Key) (pam ckm : Bool) (l : Int)
    (hl : keypadStandsFor k.keycode = some l) (happ : keypadApplication k pam = none) :
    encodeXterm u k pam ckm = encodeXterm u { k with keycode := l } pam ckm := by
  unfold keypadStandsFor at hl
  unfold keypadApplication at happ
  have key : keypadLegend k.keycode = l ∧ l < KeyKeyPad0 ∧
      (if pam = true ∧ k.mods &&& keypadMask = 0 then lookup k.keycode keypadApplicationMode else none) = none := by
    cases hf : keypadChars.find? (·.1 = k.keycode) with
    | some e =>
      have he := List.mem_of_find?_eq_some hf
      have hp := List.find?_some hf
      simp only [decide_eq_true_eq] at hp
      obtain ⟨_, h2, h3, _, _⟩ := keypad_char_rows e he
      simp only [hf] at hl happ
      obtain ⟨_, ch, fin⟩ := e
      simp only [Option.some.injEq] at hl
      subst hl
      refine ⟨by rw [← hp]; exact h2, h3, ?_⟩
      have hmask : (shiftBit ||| altBit ||| ctrlBit ||| numBit) = keypadMask := by decide
      rw [hmask] at happ
      by_cases hc : pam = true ∧ k.mods &&& keypadMask = 0
      · simp [hc] at happ
      · simp [hc]
    | none =>
      simp only [hf] at hl
      cases hn : keypadNav.find? (·.1 = k.keycode) with
      | none => simp [hn] at hl
      | some e =>
        have he := List.mem_of_find?_eq_some hn
        have hp := List.find?_some hn
        simp only [decide_eq_true_eq] at hp
        obtain ⟨h1, h2, h3, _, _⟩ := keypad_nav_rows e he
        simp only [hn, Option.map_some, Option.some.injEq] at hl
        subst hl
        refine ⟨by rw [← hp]; exact h2, h3, ?_⟩
        rw [← hp, h1]; simp
  obtain ⟨h1, h2, h3⟩ := key
  rw [encodeXterm_core_of_lt u { k with keycode := l } pam ckm h2]
  unfold encodeXterm
  simp only [h3, h1]

/-- An unmodified event: the table part decides. -/
theorem encodeXtermCore_plain (u : Uni) (k : Key) (pam ckm : Bool) (s : Str)
    (hm : xtermMods k = 0) (ht : encodeTables k.keycode 0 pam ckm k.text = some s) :
    encodeXtermCore u k pam ckm = s := by
  have hm7 : k.mods &&& 7 = 0 := hm
  unfold encodeXtermCore
  simp only [xm_eq, hm7, ht]

/-- **keypad_mode_selects** (the statement `Witness.F413.keypad_mode_selects_full`, which was false before the fix,
    with xterm's Num Lock rule made explicit): an unmodified keypad key press without text, Num Lock off, is written
    as its xterm report for the child's keypad and cursor-key modes — `SS3` + final under DECKPAM, the character
    (Enter: CR) under DECKPNM, the cursor / editing key's report (SS3 or CSI by DECCKM) for the navigation legends. -/
theorem keypad_mode_selects (u : Uni) (k : Key) (pam ckm : Bool) (want : Str)
    (hdue : keypadDue k.keycode pam ckm = some want) (hm : xtermMods k = 0) (hnum : k.mods &&& numBit = 0)
    (ht : k.text = []) :
    encodeXterm u k pam ckm = want := by
  have hmask : k.mods &&& (shiftBit ||| altBit ||| ctrlBit ||| numBit) = 0 := by
    have hm7 : k.mods &&& 7 = 0 := hm
    have h128 : k.mods &&& 128 = 0 := hnum
    have e : (shiftBit ||| altBit ||| ctrlBit ||| numBit) = 7 ||| 128 := by decide
    rw [e, Nat.and_or_distrib_left, hm7, h128]; rfl
  unfold keypadDue at hdue
  cases hf : keypadChars.find? (·.1 = k.keycode) with
  | some e =>
    have he := List.mem_of_find?_eq_some hf
    have hp := List.find?_some hf
    simp only [decide_eq_true_eq] at hp
    obtain ⟨kc, ch, fin⟩ := e
    simp only [hf, Option.some.injEq] at hdue
    obtain ⟨_, _, h3, _, h5⟩ := keypad_char_rows _ he
    cases pam with
    | true =>
      simp only [reduceIte] at hdue
      rw [← hdue]
      exact keypad_application_mode u k ckm _ he hp.symm hmask
    | false =>
      simp only [Bool.false_eq_true, reduceIte] at hdue
      rw [← hdue]
      have hl : keypadStandsFor k.keycode = some ch := by unfold keypadStandsFor; simp [hf]
      have happ : keypadApplication k false = none := by unfold keypadApplication; simp
      rw [keypad_is_its_legend u k false ckm ch hl happ, encodeXterm_core_of_lt _ _ _ _ h3]
      exact encodeXtermCore_plain u _ false ckm _ hm (by simpa [ht] using h5 _ (allModes_all false ckm))
  | none =>
    simp only [hf] at hdue
    cases hn : keypadNav.find? (·.1 = k.keycode) with
    | none => simp [hn] at hdue
    | some e =>
      have he := List.mem_of_find?_eq_some hn
      obtain ⟨kc, nav⟩ := e
      simp only [hn] at hdue
      obtain ⟨_, _, h3, _, h5⟩ := keypad_nav_rows _ he
      have hl : keypadStandsFor k.keycode = some nav := by unfold keypadStandsFor; simp [hf, hn]
      have happ : keypadApplication k pam = none := by unfold keypadApplication; simp [hf]
      rw [keypad_is_its_legend u k pam ckm nav hl happ, encodeXterm_core_of_lt _ _ _ _ h3]
      refine encodeXtermCore_plain u _ pam ckm _ hm ?_
      have := h5 _ (allModes_all pam ckm)
      simp only [ht, this, hdue]

/-! ### The round trip, kernel-evaluated over the regenerated tables -/

/-- All keypad key codes. -/
def keypadKeys : List Int := (List.range 29).map fun (i : Nat) => KeyKeyPad0 + Int.ofNat i

/-- Event shapes of a keypad key with modifier mask `m`: bare, with the legend's character as text (what a host
    with the "associated text" flag delivers under Num Lock), a repeat with Caps Lock and a base-layout code. -/
def kpVariants (kc : Int) (m : Nat) : List Key :=
  let t : Str := match keypadChars.find? (·.1 = kc) with | some e => if e.2.1 = 13 then [] else [e.2.1] | none => []
  [ { keycode := kc, mods := m }, { keycode := kc, mods := m, text := t },
    { keycode := kc, mods := m + 64, base := 97, event := 1 } ]

/-- 29 keypad keys × 8 Shift/Alt/Ctrl sets × Num Lock off/on × 3 shapes. -/
def keypadDomain : List Key :=
  keypadKeys.flatMap fun kc => (List.range 8).flatMap fun m => kpVariants kc m ++ kpVariants kc (m + 128)

/-- The keypad clause for one event and one mode combination (`Spec.keypadJudgedAs`): application mode → exactly
    the `SS3` code; otherwise the bytes are those of the event of the key the keypad key stands for, and that event
    passes the ordinary round-trip check (`roundtripOK`: xterm's report of the chord, decoded by Vaxis, matches key
    and modifiers).  `KeyKeyPadBegin`: `CSI E` / `SS3 E` by DECCKM / `CSI 1;m E`, decoded back to Begin + modifiers
    (`SS3 E` is read back by Vaxis's decoder since the SS3 arm of `decodeKey` has the `E` case, F513). -/
def keypadOK (u : Uni) (k : Key) (pam ckm : Bool) : Bool :=
  match keypadJudgedAs k pam with
  | some (.inl b) => encodeXterm u k pam ckm == b
  | some (.inr k') => encodeXterm u k pam ckm == encodeXterm u k' pam ckm && roundtripOK u k' pam ckm
  | none =>
    if k.keycode = KeyKeyPadBegin then
      match keypadBeginLegacy (xtermMods k) ckm with
      | some s => encodeXterm u k pam ckm == renderSeq s && decide (keyArrives u k (decodeKey u s))
      | none => false
    else false

/-- **keypad_roundtrip.** Every keypad key × every combination of Shift/Alt/Ctrl × Num Lock × event shapes × all
    four (keypad, cursor-key) modes satisfies the keypad clause. -/
theorem keypad_roundtrip :
    (keypadDomain.all fun k => allModes.all fun md => keypadOK asciiUni k md.1 md.2) = true := by
  decide +kernel

/-- Non-vacuity: 1392 events; application mode applies to 54 of them under DECKPAM, and 654 of the legend events (DECKPNM)
    are chords the legacy protocol expresses. -/
theorem keypad_roundtrip_domain_size :
    keypadDomain.length = 1392 ∧
    (keypadDomain.filter fun k => (keypadApplication k true).isSome).length = 54 ∧
    (keypadDomain.filter fun k => match keypadJudgedAs k false with
      | some (.inr k') => XtermDomain asciiUni k' | _ => false).length = 654 := by
  decide +kernel

/-- The keypad mode really selects: the same key press is written differently under DECKPAM and DECKPNM. -/
example : encodeXterm asciiUni { keycode := KeyKeyPad5 } true false = [27, 79, 117] ∧
    encodeXterm asciiUni { keycode := KeyKeyPad5 } false false = [53] ∧
    encodeXterm asciiUni { keycode := KeyKeyPad5, mods := 128, text := [53] } true false = [53] ∧
    encodeXterm asciiUni { keycode := KeyKeyPadEnter } false false = [13] ∧
    encodeXterm asciiUni { keycode := KeyKeyPadLeft, mods := 1 } true true = [27, 91, 49, 59, 50, 68] := by decide +kernel

end VaxisModel.Props.C13Keypad
