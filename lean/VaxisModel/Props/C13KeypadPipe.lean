/-
C13 — the keypad clause composed with (a) the parser model of C02 (the bytes written for a keypad key parse back to
exactly the one sequence of xterm's report) and (b) the emulator model of C05 (the keypad and cursor-key modes are
the ones the child's own output stream last selected).  Only theorems + examples.
-/
import VaxisModel.Props.C13Keypad
import VaxisModel.Props.C13Parse
import VaxisModel.Props.C13Child

namespace VaxisModel.Props.C13KeypadPipe
open VaxisModel.Model.Key VaxisModel.Model.TermKey VaxisModel.Model.TermMouse
open VaxisModel.Spec VaxisModel.Spec.KeyEnc VaxisModel.Spec.TermInput VaxisModel.Gen.Keys
open VaxisModel.Props.C13 VaxisModel.Props.C13Parse VaxisModel.Props.C13Keypad
open VaxisModel.Model.Emu VaxisModel.Model.TermChild

/-- **keypad_application_reports_parse_back.** The 18 application-mode reports (`SS3 p` … `SS3 y`, `n o j m k M X l`),
    as bytes, are parsed by the parser model from the ground state into exactly one `SS3` item with that final. -/
theorem keypad_application_reports_parse_back :
    (keypadChars.all fun e => parsesBack (.ss3 e.2.2)) = true := by decide +kernel

/-- **keypad_begin_reports_parse_back.** `CSI E`, `SS3 E` and `CSI 1 ; m E` (7 modifier sets) parse back. -/
theorem keypad_begin_reports_parse_back :
    ((List.range 8).all fun m => [false, true].all fun ckm =>
      match keypadBeginLegacy m ckm with | some s => parsesBack s | none => false) = true := by decide +kernel

/-- **keypad_pipeline.** Bytes level, application mode: every digit / operator / Enter key of the keypad, DECKPAM, no
    Shift / Alt / Ctrl / Num Lock, either cursor-key mode: `encodeXterm`'s bytes → parser model → exactly one item,
    the `SS3` with xterm's final byte. -/
theorem keypad_pipeline :
    (keypadChars.all fun e => [false, true].all fun ckm =>
      (prun pinit (natsOf (encodeXterm asciiUni { keycode := e.1 } true ckm))).2 == [.ss3 e.2.2.toNat]) = true := by
  decide +kernel

/-- **key_pipeline.** The property's sentence as one statement over the whole kernel-evaluated key domain
    (`C13.domainKeys`: 27 special keys + 95 printable ASCII keys × 8 Shift/Alt/Ctrl sets × 5 event shapes) × 4 (keypad,
    cursor-key) modes: whenever the xterm legacy protocol expresses the chord, the BYTES `encodeXterm` writes are parsed by
    the parser model (C02, ground state) into exactly the one sequence of xterm's report, and `decodeKey` of that sequence
    matches the original key and modifiers.  (The lone `ESC` of the Escape key is delivered by the escape time-out, C08.) -/
theorem key_pipeline :
    (domainKeys.all fun k => allModes.all fun md =>
      match xtermLegacy k.keycode (xtermMods k) (shiftedOf asciiUni k) md.2 with
      | none => true
      | some s =>
        (s == .c0 27) ||
        ((prun pinit (natsOf (encodeXterm asciiUni k md.1 md.2))).2 == itemsOf s &&
         decide (keyArrives asciiUni k (decodeKey asciiUni s)))) = true := by
  decide +kernel

/-- **keypad_key_pipeline.** The same for the keypad domain (`C13Keypad.keypadDomain`, 1392 events × 4 modes): in
    application mode the bytes parse to exactly one `SS3` item with xterm's final; otherwise, when the legacy protocol
    expresses the chord of the key the keypad key stands for, the bytes parse to exactly that report and it decodes to an
    event matching that key and the modifiers; Begin likewise with its own reports. -/
theorem keypad_key_pipeline :
    (keypadDomain.all fun k => allModes.all fun md =>
      match keypadJudgedAs k md.1 with
      | some (.inl b) => (prun pinit (natsOf (encodeXterm asciiUni k md.1 md.2))).2 == [.ss3 (b.getD 2 0).toNat]
      | some (.inr k') =>
        (match xtermLegacy k'.keycode (xtermMods k') (shiftedOf asciiUni k') md.2 with
         | none => true
         | some s =>
           (prun pinit (natsOf (encodeXterm asciiUni k md.1 md.2))).2 == itemsOf s &&
           decide (keyArrives asciiUni k' (decodeKey asciiUni s)))
      | none =>
        (match keypadBeginLegacy (xtermMods k) md.2 with
         | none => decide (k.keycode ≠ KeyKeyPadBegin)
         | some s =>
           decide (k.keycode ≠ KeyKeyPadBegin) ||
           ((prun pinit (natsOf (encodeXterm asciiUni k md.1 md.2))).2 == itemsOf s &&
            decide (keyArrives asciiUni k (decodeKey asciiUni s))))) = true := by
  decide +kernel

/-- **keypad_follows_child_stream.** "The child's … keypad modes select the encoding it asked for", with the modes read
    off the child's own output: after ANY stream (from any emulator state) an unmodified keypad key press without text,
    Num Lock off, is written as `Spec.keypadDue` says for the keypad mode the stream last selected (`ESC =` not followed
    by `ESC >` or RIS) and, for the navigation legends, the cursor-key mode it last selected. -/
theorem keypad_follows_child_stream (u : Uni) {e0 e : Emu} {ops : List EOp} (h : runOps e0 ops = .ok e)
    (k : Key) (want : Str) (hev : k.event ≠ EventRelease)
    (hm : xtermMods k = 0) (hnum : k.mods &&& numBit = 0) (ht : k.text = [])
    (hdue : keypadDue k.keycode (specModesFrom (inputModes e0.mode) (ops.map seqOf)).deckpam
              (specModesFrom (inputModes e0.mode) (ops.map seqOf)).decckm = some want) :
    update u (inputModes e.mode) (.key k) = want := by
  rw [VaxisModel.Props.C13Child.child_stream_selects_modes h]
  simp only [update, hev, if_false]
  exact keypad_mode_selects u k _ _ want hdue hm hnum ht

/-- Non-vacuity: `ESC =` then keypad 5 → `SS3 u`; `ESC = ESC >` → `5`; `ESC = ESC c` → `5`. -/
example : keypadDue KeyKeyPad5 (specModesFrom {} [.esc [61]]).deckpam (specModesFrom {} [.esc [61]]).decckm = some [27, 79, 117] ∧
    keypadDue KeyKeyPad5 (specModesFrom {} [.esc [61], .esc [62]]).deckpam (specModesFrom {} [.esc [61], .esc [62]]).decckm = some [53] ∧
    keypadDue KeyKeyPad5 (specModesFrom {} [.esc [61], .esc [99]]).deckpam (specModesFrom {} [.esc [61], .esc [99]]).decckm = some [53] := by
  decide +kernel

end VaxisModel.Props.C13KeypadPipe
