/-
C13 ∘ C02: "written to the child in an encoding which, PARSED BY VAXIS'S OWN INPUT PIPELINE, yields an event …".
The other C13 theorems speak of parsed sequences (`Seq`) and their wire format `renderSeq`; the harness re-parses
the bytes with the real parser.  Here the wire format is run through the MODEL of the parser (`Model.Parser.run`,
C02: table regenerated from ansi/parser.go, `Props/C02`): the bytes of every report the forwarding code writes
are parsed back, from the ground state, to exactly that one sequence.
-/
import VaxisModel.Props.C13
import VaxisModel.Props.C02
import VaxisModel.Lemmas.TermParse

namespace VaxisModel.Props.C13Parse
open VaxisModel.Model.Key VaxisModel.Model.Mouse VaxisModel.Model.TermKey VaxisModel.Model.TermMouse
open VaxisModel.Spec VaxisModel.Spec.KeyEnc VaxisModel.Spec.TermInput VaxisModel.Gen.Keys
open VaxisModel.Props.C13

abbrev PSeq := VaxisModel.Model.Parser.Seq
abbrev prun := VaxisModel.Model.Parser.run
abbrev pinit := VaxisModel.Model.Parser.PState.init

/-- Code points as the parser's runes. -/
def natsOf (s : Str) : List Nat := s.map Int.toNat

/-- What the parser must deliver for a sequence of C09's vocabulary (a print is one item per rune at this
    level; clustering is the reader's job, C02). -/
def itemsOf : Seq → List PSeq
  | .print g => g.map fun r => .print r.toNat
  | .c0 b => [.c0 b.toNat]
  | .esc f => [.esc [] f.toNat]
  | .ss3 b => [.ss3 b.toNat]
  | .csi params fin => [.csi [] params fin.toNat]

/-- The bytes of `s` parse back, from the ground state, to exactly `s`. -/
def parsesBack (s : Seq) : Bool := (prun pinit (natsOf (renderSeq s))).2 == itemsOf s

/-- **special_key_reports_parse_back.** Every xterm legacy report of a special key (cursor / editing /
    function keys, Tab, Enter, Escape, BackSpace) × 8 Shift/Alt/Ctrl sets × both cursor-key modes — i.e. every
    byte string `special_keys_exact` says the encoder writes — is parsed by the parser model into exactly the
    one sequence it renders.  (A lone ESC for the Escape key stays pending in the parser; it is delivered by
    the escape time-out, C08 — the table has no such entry to judge: `xtermLegacy` of Escape is the C0.) -/
theorem special_key_reports_parse_back :
    (specialKeysD.all fun kc => (List.range 8).all fun m => [false, true].all fun ckm =>
      match xtermLegacy kc m 0 ckm with
      | none => true
      | some s => (s == .c0 27) || parsesBack s) = true := by
  decide +kernel

/-- The two paste markers parse back to `CSI 200 ~` / `CSI 201 ~`. -/
theorem paste_markers_parse_back : parsesBack pasteStartSeq = true ∧ parsesBack pasteEndSeq = true := by
  decide +kernel

example : parsesBack (.csi [[1], [5]] 65) = true ∧ parsesBack (.c0 9) = true ∧ parsesBack (.ss3 65) = true := by decide +kernel

open VaxisModel.Lemmas.ParserParams VaxisModel.Lemmas.Parser VaxisModel.Lemmas.TermParse in
/-- **sgr_mouse_report_parses_back.** The SGR mouse report `CSI < b ; c ; r M|m` for ANY button value and
    position (naturals below 2^63, Go's `int`): its bytes, as `renderCSI` lays them out with `%d`, are parsed by
    the parser model from the ground state into exactly one CSI with intermediate `<`, these three parameters and
    this final.  With `mouse_roundtrip` (the widget writes `renderCSI` of `sgrReport`, and `parseMouseEvent` of
    that sequence is the original event) this is the whole path bytes → parser → mouse event. -/
theorem sgr_mouse_report_parses_back (b c r : Nat) (fin : Nat) (hfin : 0x40 ≤ fin ∧ fin ≤ 0x7E)
    (hb : b < 2 ^ 63) (hc : c < 2 ^ 63) (hr : r < 2 ^ 63) :
    (prun pinit (natsOf (renderCSI [60] [[(b : Int)], [(c : Int)], [(r : Int)]] fin))).2 =
      [.csi [60] [[(b : Int)], [(c : Int)], [(r : Int)]] fin] := by
  have hbytes : natsOf (renderCSI [60] [[(b : Int)], [(c : Int)], [(r : Int)]] fin) =
      encodeCsi ⟨some 60, [[b], [c], [r]], [], fin⟩ := by
    simp only [natsOf, renderCSI, renderParams, encodeCsi, encParams, encSub, List.map_append, List.map_cons, List.map_nil,
      List.intersperse, List.flatten, List.append_nil, Option.toList, List.cons_append, List.nil_append, List.append_assoc,
      List.flatten_cons]
    simp [decimal_nats]
  rw [hbytes]
  show (VaxisModel.Model.Parser.run VaxisModel.Model.Parser.PState.init _).2 = _
  rw [VaxisModel.Props.C02.csi_roundtrip VaxisModel.Model.Parser.PState.init rfl ⟨some 60, [[b], [c], [r]], [], fin⟩ ?_]
  · simp
  · refine ⟨by simp, ?_, by simp, hfin.1, hfin.2⟩
    intro p hp
    simp only [List.mem_cons, List.mem_nil_iff, or_false] at hp
    rcases hp with rfl | rfl | rfl <;> constructor <;> simp <;> omega

/-- **text_parses_back.** Text the widget forwards (a key's `Text`, a pasted payload: `text_forwarded`,
    `paste_payload_intact`) — any runes ≥ 0x20, ASCII or not, any length — reaches the host-side pipeline as one
    print per rune, in order, nothing lost or altered (clustering into graphemes is the reader's, C02). -/
theorem text_parses_back (w : List Nat) (hw : ∀ b ∈ w, 0x20 ≤ b) :
    (prun pinit w).2 = w.map .print := by
  show (VaxisModel.Model.Parser.run VaxisModel.Model.Parser.PState.init w).2 = _
  rw [VaxisModel.Props.C02.text_in_order _ rfl w hw]

/-- **alt_char_parses_back.** `ESC c` (Alt + character) is delivered as one ESC item exactly for the finals the
    parser's escape state dispatches (`EscFinal`: 30–4E, 51–57, 59, 5A, 60–7F) … -/
theorem alt_char_parses_back (c : Nat) (hc : VaxisModel.Lemmas.Parser.EscFinal c) :
    (prun pinit [27, c]).2 = [.esc [] c] := by
  show (VaxisModel.Model.Parser.run VaxisModel.Model.Parser.PState.init (0x1B :: ([] ++ [c]))).2 = _
  rw [VaxisModel.Props.C02.esc_roundtrip _ rfl [] c (by simp) (by simpa using hc)]

instance : DecidablePred VaxisModel.Lemmas.Parser.EscFinal := fun r => by
  unfold VaxisModel.Lemmas.Parser.EscFinal; exact inferInstance

/-- … and those are exactly the printable ASCII characters for which `Spec.xtermLegacy` lists an Alt report: the
    exclusions of the key round-trip domain (Alt + 20–2F, `O P X [ \ ] ^ _`) are the bytes the parser reads as
    intermediates / introducers, no more and no fewer. -/
theorem alt_domain_is_parser_domain :
    ((List.range 95).all fun i =>
      let c : Nat := 32 + i
      (xtermLegacy (c : Int) 2 0 false == some (.esc (c : Int))) == decide (VaxisModel.Lemmas.Parser.EscFinal c)) = true := by
  decide +kernel

/-- **ascii_key_reports_parse_back.** Every xterm legacy report of a printable ASCII key × 8 modifier sets
    (plain and shifted characters, `ESC` + character, control codes) parses back to exactly that sequence. -/
theorem ascii_key_reports_parse_back :
    ((List.range 95).all fun i => (List.range 8).all fun m =>
      let c : Int := 32 + (i : Int)
      match xtermLegacy c m (asciiUni.toUpper c) false with
      | none => true
      | some s => (s == .c0 27) || parsesBack s) = true := by
  decide +kernel

/-- **special_key_pipeline.** The whole path in the model, at byte level, for the table-driven part of the
    encoder: for every special key × 8 Shift/Alt/Ctrl sets × all four (keypad, cursor-key) mode combinations the
    xterm legacy protocol expresses, the bytes `encodeXterm` writes are parsed by the parser model (ground state)
    into exactly one sequence, and `decodeKey` of that sequence matches the original key and modifiers. -/
theorem special_key_pipeline :
    (specialKeysD.all fun kc => (List.range 8).all fun m => allModes.all fun md =>
      match xtermLegacy kc m 0 md.2 with
      | none => true
      | some s =>
        let k : Key := { keycode := kc, mods := m }
        (s == .c0 27) ||
        ((prun pinit (natsOf (encodeXterm asciiUni k md.1 md.2))).2 == itemsOf s &&
         decide (keyArrives asciiUni k (decodeKey asciiUni s)))) = true := by
  decide +kernel

end VaxisModel.Props.C13Parse
