/-
C13 — `key_pipeline` (bytes of `encodeXterm` → parser model → one sequence → `decodeKey` matches; kernel-evaluated for
Go's ASCII tables) for EVERY `unicode` oracle that agrees with Go on ASCII and on the key codes (`AgreeOnKeys`).
Only theorems + examples.
-/
import VaxisModel.Props.C13KeypadPipe
import VaxisModel.Props.C13Uni

namespace VaxisModel.Props.C13PipeUni
open VaxisModel.Model.Key VaxisModel.Model.TermKey
open VaxisModel.Spec VaxisModel.Spec.KeyEnc VaxisModel.Spec.TermInput VaxisModel.Gen.Keys
open VaxisModel.Props.C13 VaxisModel.Props.C13Parse VaxisModel.Props.C13Uni VaxisModel.Lemmas.KeyCongr

/-- The body of `key_pipeline` for one event and one mode pair. -/
def pipeOK (u : Uni) (k : Key) (pam ckm : Bool) : Bool :=
  match xtermLegacy k.keycode (xtermMods k) (shiftedOf u k) ckm with
  | none => true
  | some s =>
    (s == .c0 27) ||
    ((prun pinit (natsOf (encodeXterm u k pam ckm))).2 == itemsOf s &&
     decide (keyArrives u k (decodeKey u s)))

theorem pipeOK_congr (u : Uni) (H : AgreeOnKeys u) (k : Key) (pam ckm : Bool) (hd : domOK k ckm = true) :
    pipeOK u k pam ckm = pipeOK asciiUni k pam ckm := by
  simp only [domOK, Bool.and_eq_true] at hd
  obtain ⟨⟨hk, hl⟩, hs⟩ := hd
  unfold pipeOK
  rw [shiftedOf_congr u asciiUni k (H _ hk)]
  cases hx : xtermLegacy k.keycode (xtermMods k) (shiftedOf asciiUni k) ckm with
  | none => rfl
  | some s =>
    simp only [hx, Bool.and_eq_true] at hs
    obtain ⟨⟨h1, h2⟩, h3⟩ := hs
    simp only []
    rw [encodeXterm_congr u asciiUni k pam ckm (H _ hl), decodeKey_congr u asciiUni s (H _ h1) (H _ h2) (H _ h3)]
    congr 2
    unfold keyArrives
    exact decide_eq_decide.mpr (matchSpec_congr_uni u asciiUni _ _ _ (H _ hk))

/-- **key_pipeline_any_uni.** For every oracle agreeing with Go on ASCII and the key codes: every event of the key
    domain × 4 modes — when the legacy protocol expresses the chord, the bytes `encodeXterm` writes parse (parser model,
    ground state) to exactly the one sequence of xterm's report and `decodeKey` of it matches key and modifiers. -/
theorem key_pipeline_any_uni (u : Uni) (H : AgreeOnKeys u) :
    (domainKeys.all fun k => allModes.all fun md => pipeOK u k md.1 md.2) = true := by
  have h0 := VaxisModel.Props.C13KeypadPipe.key_pipeline
  have hd := key_roundtrip_dom
  simp only [List.all_eq_true] at h0 hd ⊢
  intro k hk md hmd
  have hdk : domOK k md.2 = true := hd k hk md.2 (by cases md.2 <;> simp)
  rw [pipeOK_congr u H k md.1 md.2 hdk]
  exact h0 k hk md hmd

end VaxisModel.Props.C13PipeUni
