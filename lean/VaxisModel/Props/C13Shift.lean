/-
C13 — shifted-code chords (added after seeded mutant C13-m3: the Shift arm of `encodeXterm`
ignoring `key.ShiftedCode`).  Shift (optionally Alt) on an ASCII character key whose event reports
the character Shift produces: the widget writes the xterm legacy report of the chord — (ESC +) that
character — and Vaxis's own pipeline reads it back as an event matching the binding
(produced character, modifiers without Shift), which is the binding the original event matches
(`Key.Matches` rule 3).  See `Spec.TermInput.shiftedLegacy` for what is (not) expressible and why.
-/
import VaxisModel.Model.TermKey
import VaxisModel.Spec.TermInput
import VaxisModel.Lemmas.TermInput
import VaxisModel.Lemmas.KeyDecode

namespace VaxisModel.Props.C13Shift
open VaxisModel.Model.Key VaxisModel.Model.TermKey
open VaxisModel.Spec.KeyEnc VaxisModel.Spec.TermInput VaxisModel.Gen.Keys VaxisModel.Gen.TermKeys
open VaxisModel.Lemmas.TermInput VaxisModel.Lemmas.KeyDecode

/-- The original event itself matches the binding (produced character, modifiers without Shift):
    rule 3 of `Key.Matches`. So that binding is the chord's identity under both encodings. -/
theorem shifted_binding_matches_original (u : Uni) (k : Key) (hl : stripLocks k.mods = xtermMods k) :
    matchSpec u k k.shifted (unshift (xtermMods k)) := by
  unfold matchSpec
  refine Or.inr (Or.inr (Or.inl ⟨rfl, ?_⟩))
  rw [hl]
  have h7 : xtermMods k = k.mods &&& 7 := rfl
  have hlt : k.mods &&& 7 < 8 := Nat.lt_of_le_of_lt Nat.and_le_right (by decide)
  have key : ∀ x : Fin 8, stripLocks (unshift x.val) = unshift x.val := by decide
  rw [h7]
  exact key ⟨k.mods &&& 7, hlt⟩

/-- **shifted_code_roundtrip.** For every `unicode` table, every event in the shifted-code domain
    (`shiftedLegacy k = some s`: Shift, optionally Alt, no Ctrl, an ASCII character key, a reported
    printable-ASCII shifted code that — with Alt — does not start an escape sequence; text empty, the
    produced character, or anything when Alt is held), every other field of the event (kitty-only
    modifiers, base-layout code, event type) and all four key modes: the widget writes exactly the xterm
    legacy report `s` = (ESC +) the produced character, and `s` decoded by Vaxis matches the binding
    (produced character, modifiers without Shift). -/
theorem shifted_code_roundtrip (u : Uni) (k : Key) (pam ckm : Bool) (s : Seq)
    (hd : shiftedLegacy k = some s)
    (ht : k.text = [] ∨ k.text = [k.shifted] ∨ xtermMods k &&& altBit ≠ 0) :
    encodeXterm u k pam ckm = renderSeq s ∧ shiftedArrives u k (decodeKey u s) := by
  have h7 : xtermMods k = k.mods &&& 7 := rfl
  unfold shiftedLegacy at hd
  simp only [h7] at hd ht
  -- the xterm modifiers are Shift or Shift|Alt
  have hcases : k.mods &&& 7 = 1 ∨ k.mods &&& 7 = 3 ∨ ¬(k.mods &&& 7 = 1 ∨ k.mods &&& 7 = 3) := by omega
  have hlt : k.mods &&& 7 < 8 := Nat.lt_of_le_of_lt Nat.and_le_right (by decide)
  rcases hcases with hm7 | hm7 | hm7
  · -- Shift
    have ha : k.mods &&& ModAlt = 0 := by rw [and7 k.mods ModAlt (by decide), hm7]; decide
    have hc : k.mods &&& ModCtrl = 0 := by rw [and7 k.mods ModCtrl (by decide), hm7]; decide
    simp only [hm7, shiftBit, ctrlBit, altBit] at hd ht
    by_cases hk : 32 ≤ k.keycode ∧ k.keycode < 127
    · by_cases hs : 32 < k.shifted ∧ k.shifted < 127
      · simp [hk, hs] at hd
        subst hd
        have htab : k.keycode ≠ KeyTab := by have : KeyTab = 9 := rfl; omega
        have hmax : k.keycode < maxRune := by have : maxRune = 1114111 := rfl; omega
        have hv : validRune k.shifted = true := by
          have hmr : maxRune = 1114111 := rfl
          simp only [validRune, Bool.and_eq_true, decide_eq_true_eq, Bool.not_eq_true', Bool.and_eq_false_imp]
          refine ⟨⟨by omega, by omega⟩, ?_⟩; intro; omega
        have hpos : k.shifted > 0 := by omega
        constructor
        · rw [encodeXterm_core_of_lt _ _ _ _ (by have := maxRune_lt_keypad; omega)]
          unfold encodeXtermCore
          simp only [xm_eq, hm7]
          rw [encodeTables_char _ _ _ _ _ hmax (Or.inl htab)]
          rcases ht with ht | ht | ht
          · simp [ht, hmax, ModShift, ModAlt, ModCtrl, hpos, strOfRune, hv, renderSeq]
          · simp [ht, ha, hc, renderSeq]
          · exact absurd rfl ht
        · unfold shiftedArrives
          rw [h7, hm7, decodeKey_eq]
          by_cases hu : u.isUpper k.shifted = true
          · -- decoded as Shift + the lower-case letter with the shifted code: rule 3
            have : (decodeRaw u (.print [k.shifted])).shifted = k.shifted ∧ (decodeRaw u (.print [k.shifted])).mods = ModShift := by
              simp only [decodeRaw, List.headD_cons, hu, reduceIte]; split <;> exact ⟨rfl, rfl⟩
            unfold matchSpec shiftFix
            split <;> exact Or.inr (Or.inr (Or.inl ⟨this.1, by rw [this.2]; decide⟩))
          · have e : decodeRaw u (.print [k.shifted]) = { keycode := k.shifted, text := [k.shifted] } := by
              have h127 : k.shifted ≠ KeyBackspace := by have : KeyBackspace = 127 := rfl; omega
              simp [decodeRaw, hu, h127]
            rw [e, shiftFix_id _ _ (Or.inl (by simp))]
            unfold matchSpec
            exact Or.inl ⟨rfl, (by decide : stripLocks (unshift 1) = stripLocks 0)⟩
      · simp [hk, hs] at hd
    · simp [hk] at hd
  · -- Shift + Alt
    have ha : k.mods &&& 2 = 2 := by
      have := and7 k.mods 2 (by decide); rw [this, hm7]; decide
    have hc : k.mods &&& ModCtrl = 0 := by rw [and7 k.mods ModCtrl (by decide), hm7]; decide
    simp only [hm7, shiftBit, ctrlBit, altBit] at hd
    by_cases hk : 32 ≤ k.keycode ∧ k.keycode < 127
    · by_cases hs : 32 < k.shifted ∧ k.shifted < 127
      · by_cases hx : k.shifted < 48 ∨ k.shifted = 79 ∨ k.shifted = 80 ∨ k.shifted = 91 ∨ k.shifted = 93 ∨ k.shifted = 88 ∨ k.shifted = 94 ∨ k.shifted = 95 ∨ k.shifted = 92
        · simp [hk, hs, hx] at hd
        · simp [hk, hs, hx] at hd
          subst hd
          have htab : k.keycode ≠ KeyTab := by have : KeyTab = 9 := rfl; omega
          have hmax : k.keycode < maxRune := by have : maxRune = 1114111 := rfl; omega
          have hv : validRune k.shifted = true := by
            have hmr : maxRune = 1114111 := rfl
            simp only [validRune, Bool.and_eq_true, decide_eq_true_eq, Bool.not_eq_true', Bool.and_eq_false_imp]
            refine ⟨⟨by omega, by omega⟩, ?_⟩; intro; omega
          have hpos : k.shifted > 0 := by omega
          constructor
          · rw [encodeXterm_core_of_lt _ _ _ _ (by have := maxRune_lt_keypad; omega)]
            unfold encodeXtermCore
            simp only [xm_eq, hm7]
            rw [encodeTables_char _ _ _ _ _ hmax (Or.inl htab)]
            simp [ha, hmax, ModShift, ModAlt, ModCtrl, hpos, strOfRune, hv, renderSeq]
          · unfold shiftedArrives
            rw [h7, hm7, decodeKey_esc]
            unfold escExpected matchSpec
            split
            · exact Or.inr (Or.inr (Or.inl ⟨rfl, (by decide : stripLocks (unshift 3) = unshift (stripLocks (altBit ||| shiftBit)))⟩))
            · exact Or.inl ⟨rfl, (by decide : stripLocks (unshift 3) = stripLocks altBit)⟩
      · simp [hk, hs] at hd
    · simp [hk] at hd
  · -- no Shift, or Ctrl: not in the domain
    exfalso
    have : k.mods &&& 7 = 0 ∨ k.mods &&& 7 = 2 ∨ k.mods &&& 7 = 4 ∨ k.mods &&& 7 = 5 ∨ k.mods &&& 7 = 6 ∨ k.mods &&& 7 = 7 := by omega
    rcases this with h | h | h | h | h | h <;> simp [h, shiftBit, ctrlBit] at hd

/-- Non-vacuity: Shift+`;` reporting `:` (kitty alternate keys, no text), and Alt+Shift+`2` reporting `@`. -/
example : shiftedLegacy { keycode := 59, shifted := 58, mods := 1 } = some (.print [58]) ∧
    shiftedLegacy { keycode := 50, shifted := 64, mods := 3 ||| 64 } = some (.esc 64) := by decide

end VaxisModel.Props.C13Shift
