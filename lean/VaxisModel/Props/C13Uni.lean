/-
C13 — the kernel-evaluated round-trip tables (`key_roundtrip`, `keypad_roundtrip`), stated for Go's ASCII tables
(`asciiUni`), lifted to EVERY `unicode` oracle that agrees with Go on ASCII and on the key codes above the Unicode
range (`Lemmas.KeyCongr.AgreeOnKeys`): the encoder, the decoder and the matching rules consult the oracle only at
the runes of the event and of the report, and for the events of the two domains those are ASCII runes or key codes
(`*_dom`, kernel-evaluated).  Only theorems + examples.
-/
import VaxisModel.Props.C13Keypad
import VaxisModel.Lemmas.TermKeyCongr

namespace VaxisModel.Props.C13Uni
open VaxisModel.Model.Key VaxisModel.Model.TermKey
open VaxisModel.Spec.KeyEnc VaxisModel.Spec.TermInput VaxisModel.Gen.Keys VaxisModel.Gen.TermKeys
open VaxisModel.Props.C13 VaxisModel.Props.C13Keypad VaxisModel.Lemmas.KeyCongr

/-- The runes an event of `key_roundtrip`'s domain makes the model ask the oracle about. -/
def domOK (k : Key) (ckm : Bool) : Bool :=
  inKeyDom k.keycode && inKeyDom (keypadLegend k.keycode) &&
  match xtermLegacy k.keycode (xtermMods k) (shiftedOf asciiUni k) ckm with
  | none => true
  | some s => inKeyDom (seqHead s) && inKeyDom (decodeRaw asciiUni s).keycode && inKeyDom (decodeRaw asciiUni s).shifted

/-- `roundtripOK` does not depend on the oracle beyond the runes `domOK` lists. -/
theorem roundtripOK_congr (u : Uni) (H : AgreeOnKeys u) (k : Key) (pam ckm : Bool) (hd : domOK k ckm = true) :
    roundtripOK u k pam ckm = roundtripOK asciiUni k pam ckm := by
  simp only [domOK, Bool.and_eq_true] at hd
  obtain ⟨⟨hk, hl⟩, hs⟩ := hd
  unfold roundtripOK
  rw [shiftedOf_congr u asciiUni k (H _ hk)]
  cases hx : xtermLegacy k.keycode (xtermMods k) (shiftedOf asciiUni k) ckm with
  | none => rfl
  | some s =>
    simp only [hx, Bool.and_eq_true] at hs
    obtain ⟨⟨h1, h2⟩, h3⟩ := hs
    simp only []
    rw [encodeXterm_congr u asciiUni k pam ckm (H _ hl), decodeKey_congr u asciiUni s (H _ h1) (H _ h2) (H _ h3)]
    congr 1
    unfold keyArrives
    exact decide_eq_decide.mpr (matchSpec_congr_uni u asciiUni _ _ _ (H _ hk))

/-- Every event of `key_roundtrip`'s domain, in both cursor-key modes, only involves ASCII runes and key codes. -/
theorem key_roundtrip_dom : (domainKeys.all fun k => [false, true].all fun ckm => domOK k ckm) = true := by
  decide +kernel

/-- **key_roundtrip_any_uni.** `key_roundtrip` for every `unicode` oracle that agrees with Go on ASCII and on the key
    codes: 4880 events × 4 (keypad, cursor-key) modes — if the chord is in the xterm legacy domain, the encoder writes
    exactly xterm's report and `decodeKey` of it matches the original key and modifiers. -/
theorem key_roundtrip_any_uni (u : Uni) (H : AgreeOnKeys u) :
    (domainKeys.all fun k => allModes.all fun md => roundtripOK u k md.1 md.2) = true := by
  have h0 := key_roundtrip
  have hd := key_roundtrip_dom
  simp only [List.all_eq_true] at h0 hd ⊢
  intro k hk md hmd
  have hdk : domOK k md.2 = true := hd k hk md.2 (by cases md.2 <;> simp)
  rw [roundtripOK_congr u H k md.1 md.2 hdk]
  exact h0 k hk md hmd

/-! ### The keypad table -/

def kpDomOK (k : Key) (pam ckm : Bool) : Bool :=
  inKeyDom k.keycode && inKeyDom (keypadLegend k.keycode) &&
  match keypadJudgedAs k pam with
  | some (.inl _) => true
  | some (.inr k') => domOK k' ckm
  | none =>
    match keypadBeginLegacy (xtermMods k) ckm with
    | some s => inKeyDom (seqHead s) && inKeyDom (decodeRaw asciiUni s).keycode && inKeyDom (decodeRaw asciiUni s).shifted
    | none => true

theorem keypadOK_congr (u : Uni) (H : AgreeOnKeys u) (k : Key) (pam ckm : Bool) (hd : kpDomOK k pam ckm = true) :
    keypadOK u k pam ckm = keypadOK asciiUni k pam ckm := by
  simp only [kpDomOK, Bool.and_eq_true] at hd
  obtain ⟨⟨hk, hl⟩, hj⟩ := hd
  unfold keypadOK
  have e1 := encodeXterm_congr u asciiUni k pam ckm (H _ hl)
  cases hjd : keypadJudgedAs k pam with
  | none =>
    simp only [hjd] at hj ⊢
    split
    · cases hb : keypadBeginLegacy (xtermMods k) ckm with
      | none => rfl
      | some s =>
        simp only [hb, Bool.and_eq_true] at hj
        obtain ⟨⟨h1, h2⟩, h3⟩ := hj
        simp only []
        rw [e1, decodeKey_congr u asciiUni s (H _ h1) (H _ h2) (H _ h3)]
        congr 1
        unfold keyArrives
        exact decide_eq_decide.mpr (matchSpec_congr_uni u asciiUni _ _ _ (H _ hk))
    · rfl
  | some j =>
    cases j with
    | inl b => simp only [e1]
    | inr k' =>
      simp only [hjd] at hj
      have hd' : domOK k' ckm = true := hj
      have hl' : inKeyDom (keypadLegend k'.keycode) = true := by
        simp only [domOK, Bool.and_eq_true] at hd'; exact hd'.1.2
      simp only []
      rw [e1, encodeXterm_congr u asciiUni k' pam ckm (H _ hl'), roundtripOK_congr u H k' pam ckm hd']

theorem keypad_roundtrip_dom :
    (keypadDomain.all fun k => allModes.all fun md => kpDomOK k md.1 md.2) = true := by decide +kernel

/-- **keypad_roundtrip_any_uni.** `keypad_roundtrip` for every oracle that agrees with Go on ASCII and the key codes. -/
theorem keypad_roundtrip_any_uni (u : Uni) (H : AgreeOnKeys u) :
    (keypadDomain.all fun k => allModes.all fun md => keypadOK u k md.1 md.2) = true := by
  have h0 := keypad_roundtrip
  have hd := keypad_roundtrip_dom
  simp only [List.all_eq_true] at h0 hd ⊢
  intro k hk md hmd
  rw [keypadOK_congr u H k md.1 md.2 (hd k hk md hmd)]
  exact h0 k hk md hmd

/-- Go's tables restricted to ASCII agree with themselves (non-vacuity), and an oracle that knows more scripts
    (`latinUni`-style: é / É) still qualifies as long as it is Go's on ASCII and on the key codes. -/
example : AgreeOnKeys asciiUni := fun _ _ => ⟨rfl, rfl, rfl, rfl, rfl, rfl, rfl⟩

end VaxisModel.Props.C13Uni
