/-
C14 — vxfw layout contract and surface addressing hold for every constraint.
Theorems over `Model.Surface` / `Model.Layout` (vxfw.go, text.go, richtext.go, center.go,
button.go, textfield.go) for ALL uint16 constraints (0 … 65535), all contents (any list of scanned
lines, any widths) and all surface sizes (W·H > 65535 included).

Each theorem is first proved for the arithmetic a reader expects (`exact`, strict height guards)
and then transferred to the model of the *current source* through the facts the extractor
regenerates on every run (`src_arith_exact`, `src_guards_strict`): when the source computes in
uint16 again, or guards with `>` again, these stop compiling and the check says so.
-/
import VaxisModel.Lemmas.Surface
import VaxisModel.Lemmas.Layout
import VaxisModel.Lemmas.SurfacePaint
import VaxisModel.Lemmas.SurfacePaintSpec
import VaxisModel.Lemmas.SurfaceSized

namespace VaxisModel.Props.C14
open VaxisModel.Model.Window VaxisModel.Model.Surface VaxisModel.Model.Layout
open VaxisModel.Lemmas.Surface VaxisModel.Lemmas.Layout VaxisModel.Lemmas.SurfacePaint VaxisModel.Spec.Window

/-! ## The source computes as the theorems assume -/

/-- NewSurface's length and WriteCell's index are computed in `int`, the row guard is `>=`. -/
theorem src_arith_exact : srcArith = exact := by decide

/-- Every height guard of Text / RichText `findContainerSize` is `size.Height >= ctx.Max.Height`, and
each of the four Draw functions allocates `vxfw.NewSurface(size.Width, size.Height, …)` with the size
findContainerSize returned (the argument expressions are read from the source and evaluated by the
model: `TextMode.sz`, `Layout.evalSz`). -/
theorem src_guards_strict :
    (∀ hard st, (textMode hard st).sizeOK) ∧ (∀ hard, (richMode hard).sizeOK) := by
  refine ⟨fun hard st => ?_, fun hard => ?_⟩ <;> cases hard <;> exact ⟨rfl, by simp only [textMode, richMode]; decide⟩

/-! Round 4: the string pins of NewSurface, WriteCell, render, Center.Draw and TextField.Draw that stood here (`facts_surface`) are
replaced by the executed bodies of `Props/C14Body.lean` (`*_body_eq_model`). -/

/-- The extractor recognised every shape it looks for in the vxfw sources. -/
theorem facts_extractor_clean : VaxisModel.Gen.SurfaceFacts.extractErrors = [] := by decide

/-! ## Surface addressing -/

/-- A new surface holds exactly W·H cells — as natural numbers, also when W·H > 65535. -/
theorem newSurface_len (w h : UInt16) :
    (newSurface srcArith w h).buf.length = w.toNat * h.toNat ∧
    (newSurface srcArith w h).w = w ∧ (newSurface srcArith w h).h = h := by
  rw [src_arith_exact]
  have := newSurface_sized w h
  have d := newSurface_dims exact w h
  simp only [Sized, d.1, d.2.1] at this
  exact ⟨by rw [this, Nat.mul_comm], d.1, d.2.1⟩

/-- **writeCell_exact.** On a surface that holds W·H cells: a write inside the surface
(`col < W ∧ row < H`) does not panic and changes exactly buffer cell `row·W + col` (natural-number
arithmetic); a write outside changes nothing and does not panic. -/
theorem writeCell_exact (s : Surface) (hs : s.buf.length = s.w.toNat * s.h.toNat)
    (col row : UInt16) (c : Cell) :
    ∃ s', writeCell srcArith s col row c = .ok s' ∧ s'.w = s.w ∧ s'.h = s.h ∧
      ∀ i, s'.buf[i]? =
        if col < s.w ∧ row < s.h ∧ i = Spec.Surface.cellIndex s.w.toNat col.toNat row.toNat
        then some c else s.buf[i]? := by
  rw [src_arith_exact]
  have hs' : Sized s := by rw [Sized, hs, Nat.mul_comm]
  by_cases h : col < s.w ∧ row < s.h
  · obtain ⟨he, hlt⟩ := writeCell_inside s hs' col row c h.1 h.2
    have d := setBuf_dims s (s.buf.set (row.toNat * s.w.toNat + col.toNat) c)
    refine ⟨_, he, d.1, d.2.1, ?_⟩
    intro i
    rw [d.2.2.2]
    simp only [Spec.Surface.cellIndex, h.1, h.2, true_and]
    by_cases hi : row.toNat * s.w.toNat + col.toNat = i
    · subst hi
      rw [List.getElem?_set_self hlt, if_pos rfl]
    · have : ¬ i = row.toNat * s.w.toNat + col.toNat := fun e => hi e.symm
      rw [List.getElem?_set_ne hi, if_neg this]
  · refine ⟨s, writeCell_outside s col row c h, rfl, rfl, ?_⟩
    intro i
    have : ¬ (col < s.w ∧ row < s.h ∧ i = Spec.Surface.cellIndex s.w.toNat col.toNat row.toNat) :=
      fun hh => h ⟨hh.1, hh.2.1⟩
    simp [this]

/-- In particular on every surface NewSurface returns, for every size and every coordinate. -/
theorem writeCell_exact_new (w h col row : UInt16) (c : Cell) :
    ∃ s', writeCell srcArith (newSurface srcArith w h) col row c = .ok s' ∧
      ∀ i, s'.buf[i]? =
        if col < w ∧ row < h ∧ i = row.toNat * w.toNat + col.toNat then some c
        else (newSurface srcArith w h).buf[i]? := by
  have hl := newSurface_len w h
  obtain ⟨s', h1, _, _, h4⟩ := writeCell_exact (newSurface srcArith w h) (by rw [hl.1, hl.2.1, hl.2.2]) col row c
  refine ⟨s', h1, ?_⟩
  intro i
  rw [h4 i, hl.2.1, hl.2.2]
  rfl

/-! ## Layout contract -/

open VaxisModel.Gen.SurfaceFacts in
/-- **The inventory of built-in widgets is complete.** Every type in a sub-package of vxfw with a
method `Draw(vxfw.DrawContext) (vxfw.Surface, error)` (enumerated from the source on every run) is
one the model's `Widget` covers, and every constructor of `Widget` models one of them. -/
theorem widget_inventory_complete :
    drawWidgets = modelledWidgets ∧ (∀ w : Widget, w.goName ∈ drawWidgets) := by
  refine ⟨by decide, fun w => ?_⟩
  cases w <;> (simp only [Widget.goName]; decide)

open VaxisModel.Gen.SurfaceFacts in
/-- Which widgets start their Draw with the bounded-constraint panic, with which condition and
message; what every `vxfw.NewSurface` call of a widget passes as size; what Dynamic hands to its
children; the field types the size arithmetic runs in. -/
theorem facts_layout :
    boundedPanicWidgets = ["button.Button", "center.Center", "list.Dynamic"] ∧
    boundedGuards = [
      ("button.Button", "(P0.Max.HasUnboundedHeight()||P0.Max.HasUnboundedWidth()) => Button must have bounded constraints"),
      ("center.Center", "(P0.Max.HasUnboundedHeight()||P0.Max.HasUnboundedWidth()) => Center must have bounded constraints"),
      ("list.Dynamic", "(P0.Max.HasUnboundedHeight()||P0.Max.HasUnboundedWidth()) => Dynamic cannot have unbounded height or width")] ∧
    newSurfaceArgs = [
      ("center.Center.Draw", "P0.Max.Width x P0.Max.Height"),
      ("list.Dynamic.Draw", "P0.Max.Width x P0.Max.Height"),
      ("list.Dynamic.Draw", "P0.Max.Width x ch.Surface.Size.Height"),
      ("richtext.RichText.Draw", "L1.Width x L1.Height"),
      ("richtext.RichText.drawSoftwrap", "L1.Width x L1.Height"),
      ("text.Text.Draw", "L0.Width x L0.Height"),
      ("text.Text.drawSoftwrap", "L0.Width x L0.Height"),
      ("textfield.TextField.Draw", "P0.Max.Width x 1")] ∧
    dynamicChildCtx = [
      "Draw: if R.DrawCursor colOffset=2",
      "Draw: child ctx Max:vxfw.Size{Width:(P0.Max.Width-uint16(colOffset)),Height:math.MaxUint16}",
      "insertChildren: if R.DrawCursor colOffset=2",
      "insertChildren: child ctx Max:vxfw.Size{Width:(P0.Max.Width-uint16(colOffset)),Height:math.MaxUint16}"] ∧
    sizeFields = ["Width:uint16", "Height:uint16"] ∧
    relativePointFields = ["Row:int", "Col:int"] ∧
    subSurfaceFields = ["Origin:RelativePoint", "Surface:Surface", "ZIndex:int"] := by
  decide +kernel

open VaxisModel.Gen.SurfaceFacts in
/-- The size arguments of every `vxfw.NewSurface` call of a widget, as terms.  The model *evaluates*
all of them: Center, TextField and Dynamic through `newSurfaceFor` (`Lemmas.Surface.surface_center`,
`…_field`, `…_dynamic`, `…_dynamic_cursor`), the four Text / RichText functions through `TextMode.sz`
(`Layout.drawText` allocates `evalSz … m.sz`; `src_guards_strict` shows they are `size.Width, size.Height`,
which `size_le_max` needs: `NewSurface(size.Width+1, …)` in the source breaks that theorem, not only this pin). -/
theorem facts_surface_sizes :
    surfaceSizes = [
      ("center.Center.Draw", .maxW, .maxH),
      ("list.Dynamic.Draw", .maxW, .maxH),
      ("list.Dynamic.Draw", .maxW, .childH),
      ("richtext.RichText.Draw", .sizeW, .sizeH),
      ("richtext.RichText.drawSoftwrap", .sizeW, .sizeH),
      ("text.Text.Draw", .sizeW, .sizeH),
      ("text.Text.drawSoftwrap", .sizeW, .sizeH),
      ("textfield.TextField.Draw", .maxW, .lit 1)] := by
  decide

open VaxisModel.Gen.SurfaceFacts in
/-- The condition of the ellipsis branch of the two hard-wrap `Draw` loops, as the model interprets it
(`Layout.evalEll`): `truncate && col+uint16(char.Width) >= ctx.Max.Width`, `truncate` = the int sum of
the widths of the line exceeds `Max.Width` (since /repo 65842f0, finding F316 of C16; before:
`[.reach, .idxLtLen]`).  The model follows whatever conjuncts the source has; C16's content theorems
(`Props.C16Draw.hard_draw_rows`) need exactly these. -/
theorem facts_ellipsis_cond :
    textEllipsisCond = [.lineTooWide, .reach] ∧ richEllipsisCond = [.lineTooWide, .reach] := by
  decide

/-- Text / RichText (either wrap mode), any scanned lines, any constraint: the surface is no
larger than the maximum and Draw does not panic. -/
theorem size_le_max_text (m : TextMode) (hm : m.sizeOK) (c : Ctx) (lines : List (List Cell)) :
    ∃ s, drawText exact m c lines = .ok s ∧ s.w ≤ c.maxW ∧ s.h ≤ c.maxH ∧
      s.buf.length = s.w.toNat * s.h.toNat :=
  text_size_le m hm c lines

/-- TextField: `Max.Width × 1`, or the zero surface for a zero constraint; never a panic. -/
theorem size_le_max_field (c : Ctx) (chars : List Cell) :
    ∃ s, drawField exact c chars = .ok s ∧ s.w ≤ c.maxW ∧ s.h ≤ c.maxH :=
  field_size_le c chars

/-- **size_le_max.** Every built-in widget (Text, RichText, TextField, Center, Button, list.Dynamic)
and every nesting of them, every constraint (0 … 65535), every content, every choice of children a
Dynamic draws: Draw returns a surface no larger than the maximum — or stops with the documented
`panic("… bounded constraints")`, and that exactly when some Center / Button / Dynamic of the tree
receives an unbounded constraint (`accepts w c = false`, characterised below).  No other panic. -/
theorem size_le_max (tm : Bool → Nat → TextMode) (rm : Bool → TextMode)
    (htm : ∀ hard st, (tm hard st).sizeOK) (hrm : ∀ hard, (rm hard).sizeOK)
    (w : Widget) (c : Ctx) :
    (accepts w c = true ∧ ∃ s, drawWith exact tm rm w c = .ok s ∧ s.w ≤ c.maxW ∧ s.h ≤ c.maxH) ∨
    (accepts w c = false ∧ drawWith exact tm rm w c = .error .explicit) :=
  draw_spec tm rm htm hrm w c

/-- The same for the model of the current source. -/
theorem size_le_max_src (w : Widget) (c : Ctx) :
    (accepts w c = true ∧ ∃ s, draw w c = .ok s ∧ s.w ≤ c.maxW ∧ s.h ≤ c.maxH) ∨
    (accepts w c = false ∧ draw w c = .error .explicit) := by
  unfold draw
  rw [src_arith_exact]
  exact size_le_max textMode richMode src_guards_strict.1 src_guards_strict.2 w c

/-- The children a Dynamic draws (any sub-list of what its Builder offers), all with the constraint
`Max.Width − colOffset` × unbounded: each is no larger than that constraint. -/
theorem size_le_max_dynamic_children (cursor : Bool) (gap : Int) (kids : Widgets) (c : Ctx)
    (ha : accepts (.dynamic cursor gap kids) c = true) :
    ∃ l, drawKids srcArith textMode richMode kids (dynChildCtx cursor c) = .ok l ∧
      l.length = kids.toList.length ∧ ∀ s ∈ l, s.w ≤ c.maxW - dynOff cursor := by
  rw [src_arith_exact]
  have ha' : acceptsAll kids (dynChildCtx cursor c) = true := by
    simp only [accepts, Bool.and_eq_true] at ha; exact ha.2
  rcases drawKids_spec textMode richMode src_guards_strict.1 src_guards_strict.2 kids (dynChildCtx cursor c) with
    ⟨_, l, hl, hlen, hall⟩ | ⟨hf, _⟩
  · exact ⟨l, hl, hlen, fun s hs => (hall s hs).1⟩
  · rw [ha'] at hf; cases hf

/-! ### Which constraints and nestings are accepted -/

/-- Text, RichText and TextField accept every constraint, the unbounded ones included. -/
theorem accepts_plain (w : Widget) (c : Ctx) (hn : needsBounded w = false) : accepts w c = true :=
  accepts_of_not_needsBounded w c hn

/-- Center, Button and Dynamic do not accept an unbounded constraint. -/
theorem rejects_unbounded (w : Widget) (c : Ctx) (hn : needsBounded w = true) (hb : ¬ bounded c) :
    draw w c = .error .explicit := by
  have hb' : boundedB c = false := by
    cases h : boundedB c with
    | false => rfl
    | true => exact absurd ((boundedB_iff c).1 h) hb
  rcases size_le_max_src w c with ⟨ha, _⟩ | ⟨_, he⟩
  · rw [not_accepts_of_needsBounded w c hn hb'] at ha; cases ha
  · exact he

/-- A tree without a Dynamic (Text, RichText, TextField, Button and Centers around them) is accepted
iff its root needs no bounded constraint or gets one: Center hands its own Max on. -/
def noDynamic : Widget → Bool
  | .center child => noDynamic child
  | .dynamic .. => false
  | _ => true

theorem accepts_noDynamic : ∀ (w : Widget) (c : Ctx), noDynamic w = true →
    accepts w c = (!needsBounded w || boundedB c)
  | .text .., _, _ => rfl
  | .rich .., _, _ => rfl
  | .field .., _, _ => rfl
  | .button .., c, _ => by
    have : needsBounded (.button ‹_› ‹_›) = true := by simp only [needsBounded, Widget.goName]; decide
    simp [accepts, this]
  | .center child, c, h => by
    have hn : needsBounded (.center child) = true := by simp only [needsBounded, Widget.goName]; decide
    have ih := accepts_noDynamic child { minW := 0, minH := 0, maxW := c.maxW, maxH := c.maxH } h
    have hb : boundedB { minW := 0, minH := 0, maxW := c.maxW, maxH := c.maxH } = boundedB c := rfl
    simp only [accepts, ih, hb, hn]
    cases boundedB c <;> cases needsBounded child <;> rfl
  | .dynamic .., _, h => by simp [noDynamic] at h

/-- **dynamic_child_needs_unbounded_ok.** Dynamic hands every child an unbounded height, so a Dynamic
is accepted iff its own constraint is bounded and no child it draws is a Center, a Button or another
Dynamic: those always stop with their bounded-constraint panic inside a list. -/
theorem dynamic_child_needs_unbounded_ok (cursor : Bool) (gap : Int) (kids : Widgets) (c : Ctx) :
    accepts (.dynamic cursor gap kids) c = (boundedB c && kids.toList.all (fun w => !needsBounded w)) := by
  simp only [accepts, acceptsAll_dyn]

/-- In particular a Center / Button / Dynamic drawn as an item of a Dynamic panics for *every*
constraint of the list. -/
theorem dynamic_with_bounded_only_child_panics (cursor : Bool) (gap : Int) (kids : Widgets) (c : Ctx)
    (k : Widget) (hk : k ∈ kids.toList) (hn : needsBounded k = true) :
    draw (.dynamic cursor gap kids) c = .error .explicit := by
  rcases size_le_max_src (.dynamic cursor gap kids) c with ⟨ha, _⟩ | ⟨_, he⟩
  · rw [dynamic_child_needs_unbounded_ok] at ha
    simp only [Bool.and_eq_true, List.all_eq_true] at ha
    have := ha.2 k hk
    rw [hn] at this; cases this
  · exact he

/-- **center_fits.** Center places a child that fits (`child ≤ Max` in both dimensions) fully
inside its own `Max.Width × Max.Height` surface with left/right and top/bottom margins that differ
by at most one cell; it is the only child, at z-index 0. -/
theorem center_fits (a : Arith) (c : Ctx) (ch : Surface) (hw : ch.w ≤ c.maxW) (hh : ch.h ≤ c.maxH) :
    ∃ col row, (centerAround a c ch).kids = .cons col row 0 ch .nil ∧
      (centerAround a c ch).w = c.maxW ∧ (centerAround a c ch).h = c.maxH ∧
      Spec.Surface.centred c.maxW.toNat c.maxH.toNat ch.w.toNat ch.h.toNat col row := by
  have p := centerAround_props a c ch
  refine ⟨_, _, p.2.2, p.1, p.2.1, ?_⟩
  have hx := half_margin c.maxW ch.w hw
  have hy := half_margin c.maxH ch.h hh
  have hw' := UInt16.le_iff_toNat_le.1 hw
  have hh' := UInt16.le_iff_toNat_le.1 hh
  simp only [Spec.Surface.centred, hx, hy, Int.ofNat_eq_natCast]
  refine ⟨by omega, by omega, by omega, by omega, by omega, by omega⟩

/-- Every built-in child that draws at all (no Dynamic in it that draws a Center / Button / Dynamic
item) fits, so Center always centres it (current source). -/
theorem center_fits_src (child : Widget) (c : Ctx) (hb : bounded c)
    (ha : accepts child { minW := 0, minH := 0, maxW := c.maxW, maxH := c.maxH } = true) :
    ∃ ch s col row, draw child { minW := 0, minH := 0, maxW := c.maxW, maxH := c.maxH } = .ok ch ∧
      draw (.center child) c = .ok s ∧ s.kids = .cons col row 0 ch .nil ∧
      Spec.Surface.centred s.w.toNat s.h.toNat ch.w.toNat ch.h.toNat col row := by
  have hbB : boundedB c = true := (boundedB_iff c).2 hb
  rcases size_le_max_src child { minW := 0, minH := 0, maxW := c.maxW, maxH := c.maxH } with ⟨_, ch, hch, hw, hh⟩ | ⟨hna, _⟩
  · obtain ⟨col, row, hk, hsw, hsh, hcen⟩ := center_fits srcArith c ch hw hh
    refine ⟨ch, centerAround srcArith c ch, col, row, hch, ?_, hk, by rw [hsw, hsh]; exact hcen⟩
    simp only [draw] at hch ⊢
    simp only [drawWith, guard_center, hbB, hch]
    rfl
  · exact absurd hna (by rw [ha]; simp)

/-- Button is a Center around its soft-wrapped label: for every bounded constraint and every label
the label surface lies inside the button's `Max.Width × Max.Height` surface, margins within one, and
is its only child (current source). -/
theorem button_fits_src (st : Nat) (lines : List (List Cell)) (c : Ctx) (hb : bounded c) :
    ∃ ch s col row,
      drawText srcArith (textMode false st) { minW := 0, minH := 0, maxW := c.maxW, maxH := c.maxH } lines = .ok ch ∧
      draw (.button st lines) c = .ok s ∧ s.kids = .cons col row 0 ch .nil ∧
      s.w = c.maxW ∧ s.h = c.maxH ∧
      Spec.Surface.centred s.w.toNat s.h.toNat ch.w.toNat ch.h.toNat col row := by
  have hbB : boundedB c = true := (boundedB_iff c).2 hb
  rw [src_arith_exact]
  obtain ⟨ch, hch, hw, hh, _⟩ := size_le_max_text (textMode false st) (src_guards_strict.1 false st)
    { minW := 0, minH := 0, maxW := c.maxW, maxH := c.maxH } lines
  obtain ⟨col, row, hk, hsw, hsh, hcen⟩ := center_fits exact c ch hw hh
  have q := setBuf_dims (centerAround exact c ch) ((centerAround exact c ch).buf.map fun x => { x with st := st })
  refine ⟨ch, fillStyle (centerAround exact c ch) st, col, row, hch, ?_, ?_, ?_, ?_, ?_⟩
  · simp only [draw, src_arith_exact, drawWith, guard_button, hbB, hch]
    rfl
  · simp only [fillStyle, q.2.2.1, hk]
  · simp only [fillStyle, q.1, hsw]
  · simp only [fillStyle, q.2.1, hsh]
  · simp only [fillStyle, q.1, q.2.1, hsw, hsh]; exact hcen

/-! ## Painting -/

/-- A surface tree whose every node came from NewSurface (buffer of W·H cells) never makes render
divide by zero. -/
theorem render_no_panic (s : Surface) (win : Win) (scr : Screen) (h : s.divZero = false) :
    render s win scr = .ok (applyPaint scr (s.paint win)) := by
  simp [render, h]

/-- **render_paints (clipping).** A cell changed by rendering a surface tree into `win` lies in
`win`, in every ancestor of `win`, and in the screen. -/
theorem render_clip (s : Surface) (win : Win) (scr scr' : Screen) (hr : render s win scr = .ok scr')
    (x y : Int) (hne : scr'.get x y ≠ scr.get x y) : covers win x y ∧ inScreen scr x y := by
  unfold render at hr
  split at hr
  · cases hr
  · cases hr
    rw [applyPaint_get] at hne
    cases hl : lastHit scr x y (s.paint win) with
    | none => rw [hl] at hne; exact absurd rfl hne
    | some v =>
      obtain ⟨c, hc, hh, _⟩ := lastHit_some scr x y _ v hl
      exact ⟨covers_of_desc (paint_desc s win c hc) x y hh.2.2.1, hh.2.2.2⟩

/-- **render_paints (z-order: last painter wins).** After render every cell shows the last
`SetCell` of the paint sequence that was accepted there (each call clipped by the window it is made
on and all that window's ancestors), and is unchanged if there was none. -/
theorem render_last_wins (s : Surface) (win : Win) (scr scr' : Screen) (hr : render s win scr = .ok scr')
    (x y : Int) :
    scr'.get x y =
      match lastHit scr x y (s.paint win) with
      | some v => (scr.get x y).map (fun _ => v)
      | none => scr.get x y := by
  unfold render at hr
  split at hr
  · cases hr
  · cases hr; exact applyPaint_get _ _ _ _

/-- **render_paints (order and offsets).** The paint sequence is: the surface's own buffer, cell `i`
at `(i mod W, i div W)` of the given window; then the children in non-decreasing z-index, each
painted (recursively) in the child window `win.New(col,row,W,H)`, whose origin is the parent's
origin plus the child's offset. -/
theorem paint_structure (w h : UInt16) (buf : List Cell) (kids : Kids) (win : Win) :
    (Surface.mk w h buf kids).paint win =
      (cellOps w buf).map (fun o => (win, o)) ++ ((sortByZ (kids.layers win)).flatMap (·.2)) ∧
    List.Pairwise (fun a b => a.1 ≤ b.1) (sortByZ (kids.layers win)) ∧
    (∀ l, l ∈ sortByZ (kids.layers win) ↔ l ∈ kids.layers win) :=
  ⟨by simp [Surface.paint], sortByZ_sorted _, fun l => mem_sortByZ l _⟩

theorem child_window_origin (win : Win) (col row cols rows : Int) :
    (win.new col row cols rows).origin = ((win.origin).1 + col, (win.origin).2 + row) := by
  simp [Win.new, Win.origin]

/-- **render_paints (clipping to the parent).** The window a child surface is painted in covers
exactly the child's own `W×H` rectangle at parent origin + offset, intersected with everything
that already clipped the parent. -/
theorem child_window_clip (win : Win) (col row : Int) (s : Surface) (x y : Int) :
    covers (win.new col row (Int.ofNat s.w.toNat) (Int.ofNat s.h.toNat)) x y ↔
      (((win.origin).1 + col ≤ x ∧ x < (win.origin).1 + col + s.w.toNat ∧
        (win.origin).2 + row ≤ y ∧ y < (win.origin).2 + row + s.h.toNat) ∧ covers win x y) := by
  rw [VaxisModel.Lemmas.Window.origin_eq_absOrigin]
  exact VaxisModel.Lemmas.Window.covers_new win col row _ _ (Int.natCast_nonneg _) (Int.natCast_nonneg _) x y

theorem cellOpsFrom_positions (w : UInt16) (buf : List Cell) (i0 i : Nat) (hi : i < buf.length) :
    (cellOpsFrom w i0 buf)[i]? =
      some { col := Int.ofNat ((i0 + i) % w.toNat), row := Int.ofNat ((i0 + i) / w.toNat), cell := buf[i] } := by
  induction buf generalizing i0 i with
  | nil => simp at hi
  | cons c rest ih =>
    cases i with
    | zero => simp [cellOpsFrom]
    | succ j =>
      simp only [cellOpsFrom, List.getElem?_cons_succ, List.getElem_cons_succ]
      have := ih (i0 + 1) j (by simpa using hi)
      rw [this]
      have e : i0 + 1 + j = i0 + (j + 1) := by omega
      rw [e]

theorem cellOps_positions (w : UInt16) (buf : List Cell) (i : Nat) (hi : i < buf.length) :
    (cellOps w buf)[i]? = some { col := Int.ofNat (i % w.toNat), row := Int.ofNat (i / w.toNat), cell := buf[i] } := by
  have := cellOpsFrom_positions w buf 0 i hi
  simpa [cellOps] using this

open VaxisModel.Gen.SurfaceFacts in
/-- App.Run renders the root surface into `win.New(0, 0, int(s.Size.Width), int(s.Size.Height))` of
the screen window — the root clips its children like every other surface (F114 fixed) — and the
harness hook `VerifC14RenderRoot` evaluates the same expression; `VerifC14Render` is the bare
recursive render. -/
theorem facts_run_render :
    runRenderWin = "WIN.New(0,0,int(S.Size.Width),int(S.Size.Height))" ∧ runRenderClipsRoot = true ∧
    hookRenderRootWin = runRenderWin ∧ hookRenderWin = "WIN" := by decide

/-- The model's Run entry is the root-clipping render. -/
theorem renderRoot_clips (s : Surface) (win : Win) (scr : Screen) :
    renderRoot s win scr = render s (rootWin s win) scr := by
  unfold renderRoot renderRootWith renderClipped
  rw [facts_run_render.2.1]; rfl

open VaxisModel.Lemmas.SurfacePaintSpec in
/-- **render_paints.** The render call of App.Run — the root surface of a frame rendered into the
screen of a well-formed Vaxis (no zero-width surface with a non-empty buffer in the tree) — leaves
every screen cell showing the top layer of the painter's algorithm of `Spec.Surface`: each surface
at its parent's origin plus its offset, clipped to its own rectangle and to the rectangle of
*every* ancestor, the root included, and to the screen; children after their parent in z-order
with ties in child order; unchanged where no layer reaches.  Full strength: `layers true`, no
exclusion (the root-clip exception F114 is fixed in the source; `Witness/F114` shows the old entry
fails this statement). -/
theorem render_paints (s : Surface) (scr scr' : Screen) (hwf : scr.WF) (hd : s.divZero = false)
    (hr : renderRoot s (Win.ofScreen scr) scr = .ok scr') (x y : Int) (hin : inScreen scr x y) :
    scr'.get x y =
      match Spec.Surface.topAt (Spec.Surface.layers true (toTree 0 0 0 s) 0 0
          { x0 := 0, y0 := 0, x1 := scr.cols, y1 := scr.rows }) x y with
      | some c => some c
      | none => scr.get x y := by
  rw [renderRoot_clips] at hr
  rw [render_last_wins s _ scr scr' hr x y, paint_spec scr s _ _ _ _ (tied_rootWin scr s) hd x y,
    layers_toTree, if_pos rfl]
  obtain ⟨v, hv⟩ := VaxisModel.Lemmas.Window.get_some_of_inScreen scr hwf x y hin
  generalize Spec.Surface.topAt _ x y = r
  cases r with
  | none => rfl
  | some c => simp [hv]

open VaxisModel.Lemmas.SurfacePaintSpec in
/-- **render_paints, whole frame.** A frame of App.Run (`win.Clear()`, then the render call) shows at
every screen cell the top layer of the painter's algorithm, and a blank cell where no layer
reaches — nothing of the previous frame survives. -/
theorem run_frame_paints (s : Surface) (scr scr' : Screen) (hwf : scr.WF) (hd : s.divZero = false)
    (hr : runFrame s scr = .ok scr') (x y : Int) (hin : inScreen scr x y) :
    scr'.get x y =
      match Spec.Surface.topAt (Spec.Surface.layers true (toTree 0 0 0 s) 0 0
          { x0 := 0, y0 := 0, x1 := scr.cols, y1 := scr.rows }) x y with
      | some c => some c
      | none => some clearCell := by
  obtain ⟨hwf0, hc0, hr0, hg0⟩ := clear_screen scr hwf
  generalize hs0 : clear (Win.ofScreen scr) scr = scr0 at hwf0 hc0 hr0 hg0
  have hw : Win.ofScreen scr = Win.ofScreen scr0 := by
    unfold Win.ofScreen; rw [hc0, hr0]
  have hr1 : renderRoot s (Win.ofScreen scr0) scr0 = .ok scr' := by
    rw [← hw, ← hs0]; exact hr
  have hin0 : inScreen scr0 x y := by
    unfold inScreen at hin ⊢; rw [hc0, hr0]; exact hin
  rw [render_paints s scr0 scr' hwf0 hd hr1 x y hin0, hc0, hr0, hg0 x y hin]

open VaxisModel.Lemmas.SurfacePaintSpec in
/-- **The bare recursive render** (`s.render(win, …)` into the whole screen window, as App.Run called
it before the fix of F114 and as `render` calls itself for children): the same painter's algorithm
except that the surface's own rectangle does not clip its children (`layers false`) — clipping the
surface passed in is the caller's job, done through the window. -/
theorem render_bare_paints (s : Surface) (scr scr' : Screen) (hwf : scr.WF) (hd : s.divZero = false)
    (hr : render s (Win.ofScreen scr) scr = .ok scr') (x y : Int) (hin : inScreen scr x y) :
    scr'.get x y =
      match Spec.Surface.topAt (Spec.Surface.layers false (toTree 0 0 0 s) 0 0
          { x0 := 0, y0 := 0, x1 := scr.cols, y1 := scr.rows }) x y with
      | some c => some c
      | none => scr.get x y := by
  rw [render_last_wins s _ scr scr' hr x y, paint_spec scr s _ 0 0 _ (tied_root scr) hd x y,
    layers_toTree, if_neg (by simp)]
  simp only [Int.add_zero]
  obtain ⟨v, hv⟩ := VaxisModel.Lemmas.Window.get_some_of_inScreen scr hwf x y hin
  cases Spec.Surface.topAt (bodyOf s 0 0 { x0 := 0, y0 := 0, x1 := scr.cols, y1 := scr.rows }) x y with
  | none => rfl
  | some c => simp [hv]

/-! ## Layout and painting compose: a frame of built-in widgets -/

open VaxisModel.Lemmas.SurfaceSized in
/-- Every surface of the tree a built-in widget's Draw returns holds exactly Width·Height cells
(all widgets and nestings, every constraint and content). -/
theorem draw_well_sized (w : Widget) (c : Ctx) (s : Surface) (h : draw w c = .ok s) : WellSized s := by
  unfold draw at h
  rw [src_arith_exact] at h
  exact wellSized_draw textMode richMode w c s h

open VaxisModel.Lemmas.SurfaceSized in
/-- **A frame of App.Run over any tree of built-in widgets cannot panic in render**: `i / int(Width)`
only runs for cells of a buffer, and a surface of width 0 built by a widget has no cells. -/
theorem frame_never_panics (w : Widget) (c : Ctx) (s : Surface) (h : draw w c = .ok s) (scr : Screen) :
    ∃ scr', runFrame s scr = .ok scr' := by
  have hd := divZero_of_wellSized s (draw_well_sized w c s h)
  unfold runFrame
  rw [renderRoot_clips]
  exact ⟨_, render_no_panic s _ _ hd⟩

open VaxisModel.Lemmas.SurfaceSized VaxisModel.Lemmas.SurfacePaintSpec in
/-- … and shows exactly the painter's algorithm of the surface tree Draw returned (layout contract
and paint contract together, for the model of the current source). -/
theorem frame_of_widgets_paints (w : Widget) (c : Ctx) (s : Surface) (h : draw w c = .ok s)
    (scr : Screen) (hwf : scr.WF) :
    ∃ scr', runFrame s scr = .ok scr' ∧ ∀ x y, inScreen scr x y →
      scr'.get x y =
        match Spec.Surface.topAt (Spec.Surface.layers true (toTree 0 0 0 s) 0 0
            { x0 := 0, y0 := 0, x1 := scr.cols, y1 := scr.rows }) x y with
        | some c => some c
        | none => some clearCell := by
  obtain ⟨scr', hr⟩ := frame_never_panics w c s h scr
  exact ⟨scr', hr, fun x y hin =>
    run_frame_paints s scr scr' hwf (divZero_of_wellSized s (draw_well_sized w c s h)) hr x y hin⟩

/-- The model's stable insertion sort by z-index is the spec's "z-order, ties in child order". -/
theorem zorder_is_spec {α : Type} (l : List (Int × α)) : sortByZ l = Spec.Surface.orderByKey l :=
  VaxisModel.Lemmas.SurfaceOrder.sortByZ_eq_orderByKey l

/-! ### Non-vacuity -/

example : (newSurface exact 300 300).buf.length = 90000 := by decide +kernel

example : ∃ s, draw (.center (.text false 5 [[⟨104, 1, 5⟩, ⟨105, 1, 5⟩]])) ⟨0, 0, 80, 24⟩ = .ok s ∧
    s.kids.length = 1 := by
  obtain ⟨ch, s', col, row, _, h2, hk, _⟩ :=
    center_fits_src (.text false 5 [[⟨104, 1, 5⟩, ⟨105, 1, 5⟩]]) ⟨0, 0, 80, 24⟩ ⟨by decide, by decide⟩ rfl
  exact ⟨s', h2, by rw [hk]; rfl⟩

/-- A Dynamic with two text items and its cursor gutter on a 10×4 constraint is accepted and draws;
with a Button item it is not. -/
example : accepts (.dynamic true 0 (.cons (.text false 0 [[⟨104, 1, 0⟩]]) (.cons (.field []) .nil))) ⟨0, 0, 10, 4⟩ = true := by
  decide
example : accepts (.dynamic false 0 (.cons (.button 0 []) .nil)) ⟨0, 0, 10, 4⟩ = false := by decide

end VaxisModel.Props.C14
