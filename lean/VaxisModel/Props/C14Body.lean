/-
C14, round 4: `*_body_eq_model` — the bodies of the vxfw Surface functions and of the built-in
widgets' Draw functions, as REGENERATED from /repo on every run (`Gen/SurfaceBodies.lean`) and EXECUTED
by the statement interpreter `Model/SurfExec.lean`, compute what the hand-written model
(`Model/Surface.lean`, `Model/Layout.lean`) computes — for ALL inputs.  The theorems of `Props/C14.lean`
(size contract, exact addressing, centring, painting) are thereby theorems about the executed source:
a rewrite of a body that keeps its meaning keeps these theorems; one that changes it fails exactly the
theorem of that function (and no syntactic pin is involved).
-/
import VaxisModel.Model.SurfExec
import VaxisModel.Gen.SurfaceBodies
import VaxisModel.Lemmas.SurfExec

namespace VaxisModel.Props.C14Body
open VaxisModel.Model.SurfLang VaxisModel.Model.Window VaxisModel.Model.Surface VaxisModel.Model.Layout VaxisModel.Model.SurfExec
open VaxisModel.Gen VaxisModel.Lemmas.SurfExec

attribute [local simp] run exec evalE mkEnv Env.get Env.set applyFn getFld fldInt fldU16 Except.map assignTo setField evalSel
  bindLoopVar binop arithU arithI isLit leave evalCon callStmt callHead asU16 zeroOf u16OfLit rangeItems bindIt

/-- The translator recognised every statement and expression of the bodies the theorems below execute. -/
theorem bodies_fully_recognised :
    [SurfaceBodies.newSurface, SurfaceBodies.newSubSurface, SurfaceBodies.addChild, SurfaceBodies.writeCell, SurfaceBodies.fill,
     SurfaceBodies.render, SurfaceBodies.hasUnboundedWidth, SurfaceBodies.hasUnboundedHeight, SurfaceBodies.centerDraw,
     SurfaceBodies.textFindContainerSize, SurfaceBodies.richFindContainerSize, SurfaceBodies.textDrawSoftwrap,
     SurfaceBodies.richDrawSoftwrap, SurfaceBodies.textDraw, SurfaceBodies.richDraw, SurfaceBodies.buttonDraw, SurfaceBodies.textfieldDraw].all (fun b => !b.hasUnknown) = true := by
  decide +kernel

/-- **NewSurface**: `Surface{Size{width,height}, Widget, Buffer: make([]Cell, int(height)*int(width))}` is the model's
`newSurface` with the length computed in `int` — W·H cells for every W, H, also beyond 65 535. -/
theorem newSurface_body_eq_model (R : Ro) (w h : UInt16) (wd : Val) (scr : Screen) :
    (run R SurfaceBodies.newSurface SurfaceBodies.newSurfaceParams [.u16 w, .u16 h, wd] scr).map (·.1)
      = .ok (.surf (newSurface exactA w h)) := by
  simp [SurfaceBodies.newSurface, SurfaceBodies.newSurfaceParams, newSurface, bufLen, VaxisModel.Model.Surface.exact,
    mul_toNat_nonneg, toNat_mul_cast] <;> try (rw [Nat.mul_comm])

/-- **NewSubSurface**: origin (col,row), ZIndex 0. -/
theorem newSubSurface_body_eq_model (R : Ro) (c r : Int) (s : Surface) (scr : Screen) :
    (run R SurfaceBodies.newSubSurface SurfaceBodies.newSubSurfaceParams [.int c, .int r, .surf s] scr).map (·.1)
      = .ok (.sub c r 0 s) := by
  simp [SurfaceBodies.newSubSurface, SurfaceBodies.newSubSurfaceParams]

/-- **AddChild**: the receiver afterwards is the model's `addChild` (appended, ZIndex 0). -/
theorem addChild_body_eq_model (R : Ro) (c r : Int) (s ch : Surface) (scr : Screen) :
    (run R SurfaceBodies.addChild SurfaceBodies.addChildParams [.surf s, .int c, .int r, .surf ch] scr).map (·.2.1)
      = .ok (some (.surf (addChild s c r ch))) := by
  cases s with
  | mk w h b k =>
  simp [SurfaceBodies.addChild, SurfaceBodies.addChildParams, addChild, Surface.kids]

/-- **WriteCell**: the receiver afterwards is the model's `writeCell` under the exact arithmetic — index
`int(row)*int(Width)+int(col)` in `int`, guards `>=`; the store is a CHECKED index expression on both sides. -/
theorem writeCell_body_eq_model (R : Ro) (s : Surface) (col row : UInt16) (c : Cell) (scr : Screen) :
    (run R SurfaceBodies.writeCell SurfaceBodies.writeCellParams [.surf s, .u16 col, .u16 row, .cell c] scr).map (·.2.1)
      = (match writeCell exactA s col row c with
         | .ok s' => .ok (some (.surf s'))
         | .error p => .error (.panic p)) := by
  cases s with
  | mk w h b k =>
  by_cases h1 : w ≤ col <;> by_cases h2 : h ≤ row
  · simp [SurfaceBodies.writeCell, SurfaceBodies.writeCellParams, writeCell, wcReject, VaxisModel.Model.Surface.exact, Surface.w, Surface.h, h1, h2]
  · simp [SurfaceBodies.writeCell, SurfaceBodies.writeCellParams, writeCell, wcReject, VaxisModel.Model.Surface.exact, Surface.w, Surface.h, h1, h2]
  · simp [SurfaceBodies.writeCell, SurfaceBodies.writeCellParams, writeCell, wcReject, VaxisModel.Model.Surface.exact, Surface.w, Surface.h, h1, h2]
  · -- inside: the index, whichever way the sum and the product are written
    simp [SurfaceBodies.writeCell, SurfaceBodies.writeCellParams, writeCell, wcReject, wcIndex, VaxisModel.Model.Surface.exact,
      Surface.w, Surface.h, Surface.buf, Surface.setBuf, h1, h2, ← Int.natCast_mul, ← Int.natCast_add, Nat.mul_comm, Nat.add_comm]
    by_cases hb : col.toNat + row.toNat * w.toNat < b.length <;> simp [hb]

/-- **Center.Draw**, executed: the bounded-constraint panic first; the child drawn with `Max` handed on;
`NewSurface(Max.Width, Max.Height)`; offsets `(Max − child)/2` in uint16; `AddChild(int(offX), int(offY), child)`. -/
theorem centerDraw_body_eq (R : Ro) (c : Ctx) (scr : Screen) (kid : Nat) (hf : R.fields "Child" = some (.wid kid)) :
    (run R SurfaceBodies.centerDraw SurfaceBodies.centerDrawParams [.wid 0, .ctx c] scr).map (·.1)
      = (if c.maxH == unbounded || c.maxW == unbounded then .error (.panic .explicit)
         else match R.childDraw { minW := 0, minH := 0, maxW := c.maxW, maxH := c.maxH } with
           | .error p => .error (.panic p)
           | .ok ch => .ok (.tup (.surf (addChild (newSurface exactA c.maxW c.maxH)
                          (Int.ofNat ((c.maxW - ch.w) / 2).toNat) (Int.ofNat ((c.maxH - ch.h) / 2).toNat) ch)) .nil)) := by
  by_cases h1 : (c.maxH == unbounded) = true
  · simp [SurfaceBodies.centerDraw, SurfaceBodies.centerDrawParams, h1]
  · by_cases h2 : (c.maxW == unbounded) = true
    · simp [SurfaceBodies.centerDraw, SurfaceBodies.centerDrawParams, h1, h2]
    · simp only [Bool.not_eq_true] at h1 h2
      cases hd : R.childDraw { minW := 0, minH := 0, maxW := c.maxW, maxH := c.maxH } with
      | error p => simp [SurfaceBodies.centerDraw, SurfaceBodies.centerDrawParams, h1, h2, hd, hf]
      | ok ch =>
        cases ch with
        | mk w h b k =>
        simp [SurfaceBodies.centerDraw, SurfaceBodies.centerDrawParams, h1, h2, hd, hf, ofInt_two, two_ne_zero16, Surface.w, Surface.h]

/-- **centerDraw_body_eq_model**: the executed body of `Center.Draw`, with the child's `Draw` being the model's
`drawWith … child`, IS the model's `drawWith … (.center child)` — for every child widget, constraint and text mode. -/
theorem centerDraw_body_eq_model (R : Ro) (tm : Bool → Nat → TextMode) (rm : Bool → TextMode) (child : Widget)
    (c : Ctx) (scr : Screen) (kid : Nat) (hf : R.fields "Child" = some (.wid kid))
    (hR : R.childDraw = drawWith exactA tm rm child) :
    (run R SurfaceBodies.centerDraw SurfaceBodies.centerDrawParams [.wid 0, .ctx c] scr).map (·.1)
      = (match drawWith exactA tm rm (.center child) c with
         | .ok s => .ok (.tup (.surf s) .nil)
         | .error p => .error (.panic p)) := by
  rw [centerDraw_body_eq R c scr kid hf, hR]
  have hb : Gen.SurfaceFacts.boundedPanicWidgets.contains "center.Center" = true := by decide
  have hs : surfaceArgs "center.Center.Draw" 0 = (.maxW, .maxH) := by decide
  simp only [drawWith, boundedPanic, hb, Bool.true_and, centerAround, newSurfaceFor, hs, evalSz]
  by_cases h1 : (c.maxH == unbounded || c.maxW == unbounded) = true
  · simp [h1]
  · simp only [h1]
    cases drawWith exactA tm rm child { minW := 0, minH := 0, maxW := c.maxW, maxH := c.maxH } <;> simp

/-! ### findContainerSize (Text and RichText, soft and hard wrap)

`R.soft` / `R.hard` are the lines the real scanners yield (parameters, C16); `R.wrapW` the width the soft scanner was
built for — the body must pass `ctx.Max.Width`, or the interpreter is stuck.  The result is the model's
`findContainerSize` with the `>=` height guard: the loop with its early `return size`, `size.Height += 1`, the uint16
line width, the maximum and the clamp to `Max.Width`, executed statement by statement. -/

theorem textFindContainerSize_soft_body_eq_model (R : Ro) (c : Ctx) (scr : Screen)
    (hs : R.fields "Softwrap" = some (.bool true)) (hc : R.fields "Content" = some .text) (hw : R.wrapW = c.maxW) :
    (run R SurfaceBodies.textFindContainerSize SurfaceBodies.textFindContainerSizeParams [.wid 0, .ctx c] scr).map (·.1)
      = .ok (.size (findContainerSize true c R.soft).1 (findContainerSize true c R.soft).2) := by
  simp [SurfaceBodies.textFindContainerSize, SurfaceBodies.textFindContainerSizeParams, hs, hc, hw]
  rw [show scanStates true R.soft = (scanPairs R.soft).map (fun p => Val.scanner true p.2 p.1) from rfl]
  rw [loopS_foldS R _ 4 (.scan "v2")
    (fun (a : Val × UInt16 × UInt16) => { ρ := [("r", .wid 0), ("v0", .ctx c), ("v1", .size a.2.1 a.2.2), ("v2", a.1)], scr := scr })
    (fun p => Val.scanner true p.2 p.1)
    (fun a p => liftStep (fun x => (Val.scanner true p.2 p.1, x)) (sizeStep c.maxW c.maxH a.2 p.1))
    ?_ (scanPairs R.soft) 0 (Val.scanner true R.soft [], 0, 0)]
  · obtain ⟨sc', h | h⟩ := foldS_sizeScan true c.maxW c.maxH R.soft (Val.scanner true R.soft []) 0 0
    · rw [h]; simp [Step.toRes, findContainerSize]
    · rw [h]; simp [Step.toRes, findContainerSize]
  · intro a b i
    obtain ⟨sc, w, h⟩ := a
    obtain ⟨line, rest⟩ := b
    by_cases hg : c.maxH ≤ h
    · simp [sizeStep, hg, Step.toRes, liftStep]
    · simp [sizeStep, hg, Step.toRes, liftStep]
      rw [loopS_foldS R _ 6 (.range "_" "v5")
        (fun (acc : UInt16) => { ρ := [("r", Val.wid 0), ("v0", Val.ctx c), ("v1", Val.size w (h + 1)), ("v2", Val.scanner true rest line),
                ("v3", Val.cells line), ("v4", Val.u16 acc)], scr := scr })
        Val.cell (fun acc ch => Step.next (acc + u16 ch.w)) ?_ line 0 0, foldS_width]
      · by_cases h1 : w < lineWidth line
        · by_cases h2 : c.maxW < lineWidth line <;> simp [Step.toRes, h1, h2]
        · by_cases h2 : c.maxW < w <;> simp [Step.toRes, h1, h2]
      · intro a ch i
        simp [Step.toRes, u16]

theorem textFindContainerSize_hard_body_eq_model (R : Ro) (c : Ctx) (scr : Screen)
    (hs : R.fields "Softwrap" = some (.bool false)) (hc : R.fields "Content" = some .text) :
    (run R SurfaceBodies.textFindContainerSize SurfaceBodies.textFindContainerSizeParams [.wid 0, .ctx c] scr).map (·.1)
      = .ok (.size (findContainerSize true c R.hard).1 (findContainerSize true c R.hard).2) := by
  simp [SurfaceBodies.textFindContainerSize, SurfaceBodies.textFindContainerSizeParams, hs, hc]
  rw [loopS_foldS R _ 3 (.range "_" "v6")
    (fun (a : UInt16 × UInt16) => { ρ := [("r", .wid 0), ("v0", .ctx c), ("v1", .size a.1 a.2)], scr := scr })
    Val.strOf (sizeStep c.maxW c.maxH) ?_ R.hard 0 (0, 0)]
  · rcases foldS_sizeStep c.maxW c.maxH R.hard 0 0 with h | h
    · rw [h]; simp [Step.toRes, findContainerSize]
    · rw [h]; simp [Step.toRes, findContainerSize]
  · intro a line i
    obtain ⟨w, h⟩ := a
    by_cases hg : c.maxH ≤ h
    · simp [sizeStep, hg, Step.toRes]
    · simp [sizeStep, hg, Step.toRes]
      rw [loopS_foldS R _ 6 (.range "_" "v9")
        (fun (acc : UInt16) => { ρ := [("r", Val.wid 0), ("v0", Val.ctx c), ("v1", Val.size w (h + 1)), ("v6", Val.strOf line),
                ("v7", Val.cells line), ("v8", Val.u16 acc)], scr := scr })
        Val.cell (fun acc ch => Step.next (acc + u16 ch.w)) ?_ line 0 0, foldS_width]
      · by_cases h1 : w < lineWidth line
        · by_cases h2 : c.maxW < lineWidth line <;> simp [Step.toRes, h1, h2]
        · by_cases h2 : c.maxW < w <;> simp [Step.toRes, h1, h2]
      · intro a ch i
        simp [Step.toRes, u16]

theorem richFindContainerSize_soft_body_eq_model (R : Ro) (c : Ctx) (cells : List Cell) (scr : Screen)
    (hs : R.fields "Softwrap" = some (.bool true)) (hw : R.wrapW = c.maxW) :
    (run R SurfaceBodies.richFindContainerSize SurfaceBodies.richFindContainerSizeParams [.wid 0, .cells cells, .ctx c] scr).map (·.1)
      = .ok (.size (findContainerSize true c R.soft).1 (findContainerSize true c R.soft).2) := by
  simp [SurfaceBodies.richFindContainerSize, SurfaceBodies.richFindContainerSizeParams, hs, hw]
  rw [show scanStates false R.soft = (scanPairs R.soft).map (fun p => Val.scanner false p.2 p.1) from rfl]
  rw [loopS_foldS R _ 5 (.scan "v3")
    (fun (a : Val × UInt16 × UInt16) => { ρ := [("r", .wid 0), ("v0", .cells cells), ("v1", .ctx c), ("v2", .size a.2.1 a.2.2), ("v3", a.1)], scr := scr })
    (fun p => Val.scanner false p.2 p.1)
    (fun a p => liftStep (fun x => (Val.scanner false p.2 p.1, x)) (sizeStep c.maxW c.maxH a.2 p.1))
    ?_ (scanPairs R.soft) 0 (Val.scanner false R.soft [], 0, 0)]
  · obtain ⟨sc', h | h⟩ := foldS_sizeScan false c.maxW c.maxH R.soft (Val.scanner false R.soft []) 0 0
    · rw [h]; simp [Step.toRes, findContainerSize]
    · rw [h]; simp [Step.toRes, findContainerSize]
  · intro a b i
    obtain ⟨sc, w, h⟩ := a
    obtain ⟨line, rest⟩ := b
    by_cases hg : c.maxH ≤ h
    · simp [sizeStep, hg, Step.toRes, liftStep]
    · simp [sizeStep, hg, Step.toRes, liftStep]
      rw [loopS_foldS R _ 7 (.range "_" "v6")
        (fun (acc : UInt16) => { ρ := [("r", Val.wid 0), ("v0", .cells cells), ("v1", Val.ctx c), ("v2", Val.size w (h + 1)), ("v3", Val.scanner false rest line),
                ("v4", Val.cells line), ("v5", Val.u16 acc)], scr := scr })
        Val.cell (fun acc ch => Step.next (acc + u16 ch.w)) ?_ line 0 0, foldS_width]
      · by_cases h1 : w < lineWidth line
        · by_cases h2 : c.maxW < lineWidth line <;> simp [Step.toRes, h1, h2]
        · by_cases h2 : c.maxW < w <;> simp [Step.toRes, h1, h2]
      · intro a ch i
        simp [Step.toRes, u16]

theorem richFindContainerSize_hard_body_eq_model (R : Ro) (c : Ctx) (cells : List Cell) (scr : Screen)
    (hs : R.fields "Softwrap" = some (.bool false)) :
    (run R SurfaceBodies.richFindContainerSize SurfaceBodies.richFindContainerSizeParams [.wid 0, .cells cells, .ctx c] scr).map (·.1)
      = .ok (.size (findContainerSize true c R.hard).1 (findContainerSize true c R.hard).2) := by
  simp [SurfaceBodies.richFindContainerSize, SurfaceBodies.richFindContainerSizeParams, hs]
  rw [show scanStates false R.hard = (scanPairs R.hard).map (fun p => Val.scanner false p.2 p.1) from rfl]
  rw [loopS_foldS R _ 5 (.scan "v7")
    (fun (a : Val × UInt16 × UInt16) => { ρ := [("r", .wid 0), ("v0", .cells cells), ("v1", .ctx c), ("v2", .size a.2.1 a.2.2), ("v7", a.1)], scr := scr })
    (fun p => Val.scanner false p.2 p.1)
    (fun a p => liftStep (fun x => (Val.scanner false p.2 p.1, x)) (sizeStep c.maxW c.maxH a.2 p.1))
    ?_ (scanPairs R.hard) 0 (Val.scanner false R.hard [], 0, 0)]
  · obtain ⟨sc', h | h⟩ := foldS_sizeScan false c.maxW c.maxH R.hard (Val.scanner false R.hard []) 0 0
    · rw [h]; simp [Step.toRes, findContainerSize]
    · rw [h]; simp [Step.toRes, findContainerSize]
  · intro a b i
    obtain ⟨sc, w, h⟩ := a
    obtain ⟨line, rest⟩ := b
    by_cases hg : c.maxH ≤ h
    · simp [sizeStep, hg, Step.toRes, liftStep]
    · simp [sizeStep, hg, Step.toRes, liftStep]
      rw [loopS_foldS R _ 7 (.range "_" "v10")
        (fun (acc : UInt16) => { ρ := [("r", Val.wid 0), ("v0", .cells cells), ("v1", Val.ctx c), ("v2", Val.size w (h + 1)), ("v7", Val.scanner false rest line),
                ("v8", Val.cells line), ("v9", Val.u16 acc)], scr := scr })
        Val.cell (fun acc ch => Step.next (acc + u16 ch.w)) ?_ line 0 0, foldS_width]
      · by_cases h1 : w < lineWidth line
        · by_cases h2 : c.maxW < lineWidth line <;> simp [Step.toRes, h1, h2]
        · by_cases h2 : c.maxW < w <;> simp [Step.toRes, h1, h2]
      · intro a ch i
        simp [Step.toRes, u16]

/-! ### Surface.render -/

/-- **render_body_eq_model**: the executed body of `Surface.render` — the own-buffer loop (`row := i / int(W)`, `col := i %
int(W)`, `win.SetCell`: a division by zero for a surface of width 0 with cells), the cursor branch, `sort.Slice` of the
children by ZIndex, and the loop that renders every child into `win.New(col, row, int(W), int(H))` — with the recursive calls
being the model's `render`, IS the model's `render`: same screen, same panic.  (The model is the fixed point of the body.)
EVERY cell of the buffer is handed to `SetCell`, blank or not; the children are painted in the sorted order; and the receiver's
`Children` are left sorted in place (`sortedInPlace`: the slice shares its array with the caller's surface — what hit-testing
sees afterwards). -/
theorem render_body_eq_model (R : Ro) (s : Surface) (win : Win) (scr : Screen) (foc : Nat)
    (hR : R.render = render) :
    (run R SurfaceBodies.render SurfaceBodies.renderParams [.surf s, .win win, .wid foc] scr).map (·.2)
      = (match render s win scr with
         | .ok scr' => .ok (some (.surf (sortedInPlace s)), scr')
         | .error p => .error (.panic p)) := by
  cases s with
  | mk w h buf kids =>
  simp [SurfaceBodies.render, SurfaceBodies.renderParams, Surface.buf]
  rw [loopS_foldSI R _ 3 (.range "v2" "v3")
    (fun (sc : Screen) => { ρ := [("r", .surf (.mk w h buf kids)), ("v0", .win win), ("v1", .wid foc)], scr := sc })
    Val.cell (cellStep w win) ?_ buf 0 scr, foldSI_cells]
  · by_cases hz : w = 0 ∧ buf ≠ []
    · have hz' : (w == 0 && !buf.isEmpty) = true := by
        obtain ⟨h1, h2⟩ := hz
        subst h1
        cases buf with
        | nil => exact absurd rfl h2
        | cons a b => simp
      simp [hz, Step.toRes, render, Surface.divZero]
    · simp only [hz, if_false, Step.toRes]
      simp [Surface.kids]
      rw [toVals_eq, Kids.sortZ, toL_ofL]
      rw [loopS_foldS R _ 3 (.range "_" "v8")
        (fun (sc : Screen) => { ρ := [("r", .surf (.mk w h buf (Kids.ofL (sortByZ (Kids.toL kids))))), ("v0", .win win), ("v1", .wid foc)], scr := sc })
        subOf (kidStep win) ?_ (sortByZ (Kids.toL kids)) 0 _, foldS_kids, any_sortByZ]
      · have hz' : (w == 0 && !buf.isEmpty) = false := by
          cases buf with
          | nil => simp
          | cons a b => simp at hz; simp [hz]
        by_cases hk : ((Kids.toL kids).any fun p => p.2.2.2.divZero) = true
        · simp [hk, Step.toRes, render, Surface.divZero, divZero_eq]
        · simp only [Bool.not_eq_true] at hk
          simp [hk, Step.toRes, render, Surface.divZero, divZero_eq, hz', Surface.paint, cellOps, applyPaint_append, layers_eq, sortedInPlace, Kids.sortZ,
            sortByZ_map (kidPaint win)]
      · intro sc p i
        obtain ⟨z, c, r, ch⟩ := p
        cases ch with
        | mk cw chh cb ck =>
        simp [subOf, kidStep, kidWin, kidWinP, hR, Step.toRes, Surface.w, Surface.h]
        cases render (Surface.mk cw chh cb ck) (win.new c r (↑cw.toNat) (↑chh.toNat)) sc <;> simp
  · intro sc c i
    by_cases hw : w = 0
    · simp [cellStep, hw, Step.toRes, Surface.w]
    · have hw' : ¬ (w.toNat = 0) := by
        intro h; apply hw; apply UInt16.toNat_inj.1; simpa using h
      simp [cellStep, hw, hw', Step.toRes, Surface.w]
      rw [Int.tmod_eq_emod_of_nonneg (Int.natCast_nonneg i)]

/-! ### drawSoftwrap (RichText and Text)

The row loop `for scanner.Scan() { var col uint16; if row >= Max.Height { return s, nil }; chars := …; for _, char := range chars
{ if col >= Max.Width { break }; s.WriteCell(col, row, cell); col += uint16(char.Width) }; row += 1 }` executed on the lines the
scanner yields, on the surface `NewSurface(size.Width, size.Height)` (Text: after `Fill(t.Style)`, every cell restyled
`Cell{Character: char, Style: t.Style}`), is the model's `drawLines` — the function `Props/C14` (no panic, sizes) and
`Props/C16Draw` (every emitted line on its row) are about.  `R.self` gives the results of the sibling methods
(`cells`, `findContainerSize`: the latter is `*FindContainerSize_*_body_eq_model` above). -/

theorem richDrawSoftwrap_body_eq_model (R : Ro) (c : Ctx) (cells : List Cell) (sw sh : UInt16) (scr : Screen)
    (hcells : R.self "meth:cells" [.wid 0, .ctx c] = some (.ok (.cells cells)))
    (hsize : R.self "meth:findContainerSize" [.wid 0, .cells cells, .ctx c] = some (.ok (.size sw sh)))
    (hw : R.wrapW = c.maxW) :
    (run R SurfaceBodies.richDrawSoftwrap SurfaceBodies.richDrawSoftwrapParams [.wid 0, .ctx c] scr).map (·.1)
      = (match drawLines exactA softM c.maxW c.maxH R.soft 0 (newSurface exactA sw sh) with
         | .ok s => .ok (.tup (.surf s) .nil)
         | .error p => .error (.panic p)) := by
  simp [SurfaceBodies.richDrawSoftwrap, SurfaceBodies.richDrawSoftwrapParams, hcells, hsize, hw]
  rw [show scanStates false R.soft = (scanPairs R.soft).map (fun p => Val.scanner false p.2 p.1) from rfl]
  rw [loopS_foldS R _ 7 (.scan "v4")
    (fun (a : Val × UInt16 × Surface) => { ρ := [("r", .wid 0), ("v0", .ctx c), ("v1", .cells cells), ("v2", .size sw sh),
        ("v3", .surf a.2.2), ("v4", a.1), ("v5", .u16 a.2.1)], scr := scr })
    (fun p => Val.scanner false p.2 p.1) (rowStep id false c.maxW c.maxH)
    ?_ (scanPairs R.soft) 0 (Val.scanner false R.soft [], 0, newSurface exactA sw sh)]
  · rcases foldS_rowStep id false c.maxW c.maxH R.soft (Val.scanner false R.soft []) 0 (newSurface exactA sw sh) with
      ⟨sc', row', s', h1 | h1, h2⟩ | ⟨p, h1, h2⟩
    · rw [List.map_id] at h2; rw [h1, h2]; simp [Step.toRes]
    · rw [List.map_id] at h2; rw [h1, h2]; simp [Step.toRes]
    · rw [List.map_id] at h2; rw [h1, h2]; simp [Step.toRes]
  · intro a b i
    obtain ⟨sc, row, s⟩ := a
    obtain ⟨line, rest⟩ := b
    by_cases hg : c.maxH ≤ row
    · simp [rowStep, hg, Step.toRes]
    · simp [rowStep, hg, Step.toRes]
      rw [loopS_foldS R _ 9 (.range "_" "v8")
        (fun (a : UInt16 × Surface) => { ρ := [("r", .wid 0), ("v0", .ctx c), ("v1", .cells cells), ("v2", .size sw sh),
            ("v3", .surf a.2), ("v4", Val.scanner false rest line), ("v5", .u16 row), ("v6", .u16 a.1), ("v7", .cells line)], scr := scr })
        Val.cell (colStep c.maxW row) ?_ line 0 (0, s)]
      · rcases foldS_colStep c.maxW row (tooWide c.maxW line) line 0 s with ⟨c', s', h1, h2⟩ | ⟨p, h1, h2⟩
        · rw [h1, h2]; simp [Step.toRes, ofInt_one]
        · rw [h1, h2]; simp [Step.toRes]
      · intro a ch i
        obtain ⟨col, s0⟩ := a
        by_cases hc : c.maxW ≤ col
        · simp [colStep, hc, Step.toRes]
        · simp [colStep, hc, Step.toRes]
          cases writeCell exactA s0 col row ch <;> simp [Step.toRes, u16]

theorem textDrawSoftwrap_body_eq_model (R : Ro) (c : Ctx) (st : Nat) (sw sh : UInt16) (scr : Screen)
    (hsty : R.fields "Style" = some (.sty st)) (hcont : R.fields "Content" = some .text)
    (hsize : R.self "meth:findContainerSize" [.wid 0, .ctx c] = some (.ok (.size sw sh)))
    (hw : R.wrapW = c.maxW) :
    (run R SurfaceBodies.textDrawSoftwrap SurfaceBodies.textDrawSoftwrapParams [.wid 0, .ctx c] scr).map (·.1)
      = (match drawLines exactA softM c.maxW c.maxH (R.soft.map (List.map (restyle st))) 0 (fillStyle (newSurface exactA sw sh) st) with
         | .ok s => .ok (.tup (.surf s) .nil)
         | .error p => .error (.panic p)) := by
  simp [SurfaceBodies.textDrawSoftwrap, SurfaceBodies.textDrawSoftwrapParams, hsty, hcont, hsize, hw]
  rw [show scanStates true R.soft = (scanPairs R.soft).map (fun p => Val.scanner true p.2 p.1) from rfl]
  rw [loopS_foldS R _ 6 (.scan "v3")
    (fun (a : Val × UInt16 × Surface) => { ρ := [("r", .wid 0), ("v0", .ctx c), ("v1", .size sw sh),
        ("v2", .surf a.2.2), ("v3", a.1), ("v4", .u16 a.2.1)], scr := scr })
    (fun p => Val.scanner true p.2 p.1) (rowStep (List.map (restyle st)) true c.maxW c.maxH)
    ?_ (scanPairs R.soft) 0 (Val.scanner true R.soft [], 0, fillStyle (newSurface exactA sw sh) st)]
  · rcases foldS_rowStep (List.map (restyle st)) true c.maxW c.maxH R.soft (Val.scanner true R.soft []) 0 (fillStyle (newSurface exactA sw sh) st) with
      ⟨sc', row', s', h1 | h1, h2⟩ | ⟨p, h1, h2⟩
    · rw [h1, h2]; simp [Step.toRes]
    · rw [h1, h2]; simp [Step.toRes]
    · rw [h1, h2]; simp [Step.toRes]
  · intro a b i
    obtain ⟨sc, row, s⟩ := a
    obtain ⟨line, rest⟩ := b
    by_cases hg : c.maxH ≤ row
    · simp [rowStep, hg, Step.toRes]
    · simp [rowStep, hg, Step.toRes]
      rw [loopS_foldS R _ 8 (.range "_" "v7")
        (fun (a : UInt16 × Surface) => { ρ := [("r", .wid 0), ("v0", .ctx c), ("v1", .size sw sh),
            ("v2", .surf a.2), ("v3", Val.scanner true rest line), ("v4", .u16 row), ("v5", .u16 a.1), ("v6", .cells line)], scr := scr })
        Val.cell (fun a ch => colStep c.maxW row a (restyle st ch)) ?_ line 0 (0, s), foldS_map]
      · rcases foldS_colStep c.maxW row (tooWide c.maxW (line.map (restyle st))) (line.map (restyle st)) 0 s with ⟨c', s', h1, h2⟩ | ⟨p, h1, h2⟩
        · rw [h1, h2]; simp [Step.toRes]
        · rw [h1, h2]; simp [Step.toRes]
      · intro a ch i
        obtain ⟨col, s0⟩ := a
        by_cases hc : c.maxW ≤ col
        · simp [colStep, hc, Step.toRes]
        · simp [colStep, hc, Step.toRes, hsty, restyle]
          cases writeCell exactA s0 col row { g := ch.g, w := ch.w, st := st } <;> simp [Step.toRes, u16]

/-- **RichText.drawSoftwrap = the model**: with `findContainerSize` returning what its own executed body returns
(`richFindContainerSize_soft_body_eq_model`), the executed body of `RichText.drawSoftwrap` is `Layout.drawText` in the
soft-wrap mode of the current source — the very function `Props.C14.size_le_max_src` and `Props.C16Draw` are about. -/
theorem richDrawSoftwrap_is_drawText (R : Ro) (c : Ctx) (cells : List Cell) (scr : Screen)
    (hcells : R.self "meth:cells" [.wid 0, .ctx c] = some (.ok (.cells cells)))
    (hsize : R.self "meth:findContainerSize" [.wid 0, .cells cells, .ctx c]
      = some (.ok (.size (findContainerSize true c R.soft).1 (findContainerSize true c R.soft).2)))
    (hw : R.wrapW = c.maxW) :
    (run R SurfaceBodies.richDrawSoftwrap SurfaceBodies.richDrawSoftwrapParams [.wid 0, .ctx c] scr).map (·.1)
      = (match drawText exactA (richMode false) c R.soft with
         | .ok s => .ok (.tup (.surf s) .nil)
         | .error p => .error (.panic p)) := by
  rw [richDrawSoftwrap_body_eq_model R c cells _ _ scr hcells hsize hw]
  have h1 : (richMode false).sizeStrict = true := by decide
  have h2 : (richMode false).sz = (.sizeW, .sizeH) := by decide
  have h3 : (richMode false).drawStrict = true := by decide
  have h4 : (richMode false).fill = none := rfl
  simp only [drawText, h1, h2, h4, evalSz]
  rw [drawLines_soft_congr softM (richMode false) rfl rfl (by rw [h3]; rfl)]

/-- **Text.drawSoftwrap = the model** (`Layout.drawText` in Text's soft-wrap mode, on the restyled lines). -/
theorem textDrawSoftwrap_is_drawText (R : Ro) (c : Ctx) (st : Nat) (scr : Screen)
    (hsty : R.fields "Style" = some (.sty st)) (hcont : R.fields "Content" = some .text)
    (hsize : R.self "meth:findContainerSize" [.wid 0, .ctx c]
      = some (.ok (.size (findContainerSize true c (R.soft.map (List.map (restyle st)))).1
                         (findContainerSize true c (R.soft.map (List.map (restyle st)))).2)))
    (hw : R.wrapW = c.maxW) :
    (run R SurfaceBodies.textDrawSoftwrap SurfaceBodies.textDrawSoftwrapParams [.wid 0, .ctx c] scr).map (·.1)
      = (match drawText exactA (textMode false st) c (R.soft.map (List.map (restyle st))) with
         | .ok s => .ok (.tup (.surf s) .nil)
         | .error p => .error (.panic p)) := by
  rw [textDrawSoftwrap_body_eq_model R c st _ _ scr hsty hcont hsize hw]
  have h1 : (textMode false st).sizeStrict = true := by simp only [textMode]; decide
  have h2 : (textMode false st).sz = (.sizeW, .sizeH) := by simp only [textMode]; decide
  have h3 : (textMode false st).drawStrict = true := by simp only [textMode]; decide
  have h4 : (textMode false st).fill = some st := rfl
  simp only [drawText, h1, h2, h4, evalSz]
  rw [drawLines_soft_congr softM (textMode false st) rfl rfl (by rw [h3]; rfl)]

/-- restyling changes no width: `findContainerSize` of the restyled lines is that of the lines -/
theorem findContainerSize_restyle (st : Nat) (c : Ctx) (lines : List (List Cell)) :
    findContainerSize true c (lines.map (List.map (restyle st))) = findContainerSize true c lines := by
  have hl : ∀ l : List Cell, lineWidth (l.map (restyle st)) = lineWidth l := by
    intro l; induction l with
    | nil => rfl
    | cons ch r ih => simp [lineWidth, restyle, ih]
  have : ∀ (ls : List (List Cell)) (w h : UInt16),
      sizeLoop true c.maxW c.maxH (ls.map (List.map (restyle st))) w h = sizeLoop true c.maxW c.maxH ls w h := by
    intro ls; induction ls with
    | nil => intro w h; rfl
    | cons l r ih => intro w h; simp only [List.map_cons, sizeLoop, hl, ih]
  exact this lines 0 0

/-! ### Fill, HasUnboundedWidth / HasUnboundedHeight -/

/-- **Fill**: `for i := range s.Buffer { s.Buffer[i].Style = style }` (each store a CHECKED index expression) is the model's
`fillStyle`: every cell keeps its grapheme and width and gets the style; never a panic. -/
theorem fill_body_eq_model (R : Ro) (s : Surface) (st : Nat) (scr : Screen) :
    (run R SurfaceBodies.fill SurfaceBodies.fillParams [.surf s, .sty st] scr).map (·.2.1)
      = .ok (some (.surf (fillStyle s st))) := by
  cases s with
  | mk w h buf kids =>
  simp [SurfaceBodies.fill, SurfaceBodies.fillParams, Surface.buf]
  rw [loopS_foldSI R _ 2 (.range "v1" "_")
    (fun (b : List Cell) => { ρ := [("r", .surf (.mk w h b kids)), ("v0", .sty st)], scr := scr })
    Val.cell (fillStep st) ?_ buf 0 buf]
  · have := foldSI_fill st buf [] buf rfl
    simp only [List.length_nil, List.nil_append] at this
    rw [this]; simp [Step.toRes, fillStyle, Surface.setBuf, Surface.buf]
  · intro b c i
    simp [fillStep, Surface.buf, Surface.setBuf, Step.toRes]
    cases hb : b[i]? with
    | none => simp [Step.toRes]
    | some c' => simp [Step.toRes]

/-- `Size.HasUnboundedWidth` / `HasUnboundedHeight`: the dimension equals `math.MaxUint16` = 65535 (`Layout.unbounded`). -/
theorem hasUnbounded_body_eq_model (R : Ro) (w h : UInt16) (scr : Screen) :
    (run R SurfaceBodies.hasUnboundedWidth SurfaceBodies.hasUnboundedWidthParams [.size w h] scr).map (·.1)
        = .ok (.bool (decide (w = unbounded))) ∧
    (run R SurfaceBodies.hasUnboundedHeight SurfaceBodies.hasUnboundedHeightParams [.size w h] scr).map (·.1)
        = .ok (.bool (decide (h = unbounded))) := by
  have h65 : UInt16.ofInt 65535 = unbounded := by decide
  constructor <;>
    simp [SurfaceBodies.hasUnboundedWidth, SurfaceBodies.hasUnboundedWidthParams, SurfaceBodies.hasUnboundedHeight,
      SurfaceBodies.hasUnboundedHeightParams, h65]

/-! ### Draw with `Softwrap = false` (RichText and Text): the row loop with the ellipsis branch

`var lineWidth int; for … { lineWidth += char.Width }; truncate := lineWidth > int(ctx.Max.Width)`, then per character: `break` at
`col >= Max.Width`; when `truncate && col+uint16(char.Width) >= Max.Width` the "…" cell (RichText: in the style of the character it
replaces, Text: in the widget's style) is written and the row ends (`break cols`); otherwise the character is written and
`col += uint16(char.Width)` — executed, this is the model's `drawLines` in the hard mode (`hardM`: `hard = true`, ellipsis conjuncts
`[lineTooWide, reach]`). -/

theorem richDraw_hard_body_eq_model (R : Ro) (c : Ctx) (cells : List Cell) (sw sh : UInt16) (scr : Screen)
    (hs : R.fields "Softwrap" = some (.bool false))
    (hcells : R.self "meth:cells" [.wid 0, .ctx c] = some (.ok (.cells cells)))
    (hsize : R.self "meth:findContainerSize" [.wid 0, .cells cells, .ctx c] = some (.ok (.size sw sh))) :
    (run R SurfaceBodies.richDraw SurfaceBodies.richDrawParams [.wid 0, .ctx c] scr).map (·.1)
      = (match drawLines exactA (hardM none) c.maxW c.maxH R.hard 0 (newSurface exactA sw sh) with
         | .ok s => .ok (.tup (.surf s) .nil)
         | .error p => .error (.panic p)) := by
  simp [SurfaceBodies.richDraw, SurfaceBodies.richDrawParams, hs, hcells, hsize]
  rw [show scanStates false R.hard = (scanPairs R.hard).map (fun p => Val.scanner false p.2 p.1) from rfl]
  rw [loopS_foldS R _ 7 (.scan "v4")
    (fun (a : Val × UInt16 × Surface) => { ρ := [("r", .wid 0), ("v0", .ctx c), ("v1", .cells cells), ("v2", .size sw sh),
        ("v3", .surf a.2.2), ("v4", a.1), ("v5", .u16 a.2.1)], scr := scr })
    (fun p => Val.scanner false p.2 p.1) (rowStepH id false c.maxW c.maxH none)
    ?_ (scanPairs R.hard) 0 (Val.scanner false R.hard [], 0, newSurface exactA sw sh)]
  · rcases foldS_rowStepH id false c.maxW c.maxH none R.hard (Val.scanner false R.hard []) 0 (newSurface exactA sw sh) with
      ⟨sc', row', s', h1 | h1, h2⟩ | ⟨p, h1, h2⟩
    · rw [List.map_id] at h2; rw [h1, h2]; simp [Step.toRes]
    · rw [List.map_id] at h2; rw [h1, h2]; simp [Step.toRes]
    · rw [List.map_id] at h2; rw [h1, h2]; simp [Step.toRes]
  · intro a b i
    obtain ⟨sc, row, s⟩ := a
    obtain ⟨line, rest⟩ := b
    by_cases hg : c.maxH ≤ row
    · simp [rowStepH, hg, Step.toRes]
    · simp [rowStepH, hg, Step.toRes]
      rw [loopS_foldS R _ 10 (.range "_" "v9")
        (fun (acc : Int) => { ρ := [("r", .wid 0), ("v0", .ctx c), ("v1", .cells cells), ("v2", .size sw sh), ("v3", .surf s),
            ("v4", Val.scanner false rest line), ("v5", .u16 row), ("v6", .u16 0), ("v7", .cells line), ("v8", .int acc)], scr := scr })
        Val.cell (fun acc ch => Step.next (acc + ch.w)) ?_ line 0 0, foldS_widthInt]
      · simp [Step.toRes]
        rw [show decide ((c.maxW.toNat : Int) < lineWidthInt line) = tooWide c.maxW line from rfl]
        rw [loopS_foldS R _ 11 (.range "_" "v11")
          (fun (a : UInt16 × Surface) => { ρ := [("r", .wid 0), ("v0", .ctx c), ("v1", .cells cells), ("v2", .size sw sh), ("v3", .surf a.2),
              ("v4", Val.scanner false rest line), ("v5", .u16 row), ("v6", .u16 a.1), ("v7", .cells line), ("v8", .int (lineWidthInt line)),
              ("v10", .bool (tooWide c.maxW line))], scr := scr })
          Val.cell (colStepH c.maxW row (tooWide c.maxW line) none) ?_ line 0 (0, s)]
        · rcases foldS_colStepH c.maxW row (tooWide c.maxW line) none line 0 s with ⟨c', s', h1, h2⟩ | ⟨p, h1, h2⟩
          · rw [h1, h2]; simp [Step.toRes]
          · rw [h1, h2]; simp [Step.toRes]
        · intro a ch i
          obtain ⟨col, s0⟩ := a
          by_cases hc : c.maxW ≤ col
          · simp [colStepH, hc, Step.toRes]
          · cases htw : tooWide c.maxW line
            · simp [colStepH, hc, htw, Step.toRes]
              cases writeCell exactA s0 col row ch <;> simp [Step.toRes, u16]
            · by_cases hr : c.maxW ≤ col + u16 ch.w
              · have hr' : c.maxW ≤ col + UInt16.ofInt ch.w := hr
                simp [colStepH, hc, htw, hr, hr', Step.toRes, gEllipsis]
                cases writeCell exactA s0 col row { g := 2, w := 1, st := ch.st } <;> simp [Step.toRes]
              · have hr' : ¬ c.maxW ≤ col + UInt16.ofInt ch.w := hr
                simp [colStepH, hc, htw, hr, hr', Step.toRes]
                cases writeCell exactA s0 col row ch <;> simp [Step.toRes, u16]
      · intro a ch i
        simp [Step.toRes]

theorem textDraw_hard_body_eq_model (R : Ro) (c : Ctx) (st : Nat) (sw sh : UInt16) (scr : Screen)
    (hs : R.fields "Softwrap" = some (.bool false))
    (hsty : R.fields "Style" = some (.sty st)) (hcont : R.fields "Content" = some .text)
    (hsize : R.self "meth:findContainerSize" [.wid 0, .ctx c] = some (.ok (.size sw sh))) :
    (run R SurfaceBodies.textDraw SurfaceBodies.textDrawParams [.wid 0, .ctx c] scr).map (·.1)
      = (match drawLines exactA (hardM (some st)) c.maxW c.maxH (R.hard.map (List.map (restyle st))) 0 (fillStyle (newSurface exactA sw sh) st) with
         | .ok s => .ok (.tup (.surf s) .nil)
         | .error p => .error (.panic p)) := by
  simp [SurfaceBodies.textDraw, SurfaceBodies.textDrawParams, hs, hsty, hcont, hsize]
  rw [loopS_foldS R _ 5 (.range "_" "v4")
    (fun (a : UInt16 × Surface) => { ρ := [("r", .wid 0), ("v0", .ctx c), ("v1", .size sw sh),
        ("v2", .surf a.2), ("v3", .u16 a.1)], scr := scr })
    Val.strOf (rowStepHL (List.map (restyle st)) c.maxW c.maxH (some st))
    ?_ R.hard 0 (0, fillStyle (newSurface exactA sw sh) st)]
  · rcases foldS_rowStepHL (List.map (restyle st)) c.maxW c.maxH (some st) R.hard 0 (fillStyle (newSurface exactA sw sh) st) with
      ⟨row', s', h1 | h1, h2⟩ | ⟨p, h1, h2⟩
    · rw [h1, h2]; simp [Step.toRes]
    · rw [h1, h2]; simp [Step.toRes]
    · rw [h1, h2]; simp [Step.toRes]
  · intro a line i
    obtain ⟨row, s⟩ := a
    by_cases hg : c.maxH ≤ row
    · simp [rowStepHL, hg, Step.toRes]
    · simp [rowStepHL, hg, Step.toRes]
      rw [loopS_foldS R _ 9 (.range "_" "v8")
        (fun (acc : Int) => { ρ := [("r", .wid 0), ("v0", .ctx c), ("v1", .size sw sh), ("v2", .surf s), ("v3", .u16 row),
            ("v4", .strOf line), ("v5", .u16 0), ("v6", .cells line), ("v7", .int acc)], scr := scr })
        Val.cell (fun acc ch => Step.next (acc + ch.w)) ?_ line 0 0, foldS_widthInt]
      · simp [Step.toRes]
        rw [show decide ((c.maxW.toNat : Int) < lineWidthInt line) = tooWide c.maxW line from rfl]
        rw [loopS_foldS R _ 10 (.range "_" "v10")
          (fun (a : UInt16 × Surface) => { ρ := [("r", .wid 0), ("v0", .ctx c), ("v1", .size sw sh), ("v2", .surf a.2), ("v3", .u16 row),
              ("v4", .strOf line), ("v5", .u16 a.1), ("v6", .cells line), ("v7", .int (lineWidthInt line)),
              ("v9", .bool (tooWide c.maxW line))], scr := scr })
          Val.cell (fun a ch => colStepH c.maxW row (tooWide c.maxW line) (some st) a (restyle st ch)) ?_ line 0 (0, s), foldS_map]
        · rw [tooWide_restyle]
          rcases foldS_colStepH c.maxW row (tooWide c.maxW line) (some st) (line.map (restyle st)) 0 s with ⟨c', s', h1, h2⟩ | ⟨p, h1, h2⟩
          · rw [h1, h2]; simp [Step.toRes]
          · rw [h1, h2]; simp [Step.toRes]
        · intro a ch i
          obtain ⟨col, s0⟩ := a
          by_cases hc : c.maxW ≤ col
          · simp [colStepH, hc, Step.toRes]
          · cases htw : tooWide c.maxW line
            · simp [colStepH, hc, htw, Step.toRes, hsty, restyle]
              cases writeCell exactA s0 col row { g := ch.g, w := ch.w, st := st } <;> simp [Step.toRes, u16]
            · by_cases hr : c.maxW ≤ col + u16 ch.w
              · have hr' : c.maxW ≤ col + UInt16.ofInt ch.w := hr
                simp [colStepH, hc, htw, hr, hr', Step.toRes, gEllipsis, hsty, restyle]
                cases writeCell exactA s0 col row { g := 2, w := 1, st := st } <;> simp [Step.toRes]
              · have hr' : ¬ c.maxW ≤ col + UInt16.ofInt ch.w := hr
                simp [colStepH, hc, htw, hr, hr', Step.toRes, hsty, restyle]
                cases writeCell exactA s0 col row { g := ch.g, w := ch.w, st := st } <;> simp [Step.toRes, u16]
      · intro a ch i
        simp [Step.toRes]

/-- `Draw` with `Softwrap = true` hands over to `drawSoftwrap` (both widgets). -/
theorem draw_soft_delegates (R : Ro) (c : Ctx) (scr : Screen) (v : Val)
    (hs : R.fields "Softwrap" = some (.bool true)) (hd : R.self "meth:drawSoftwrap" [.wid 0, .ctx c] = some (.ok v)) :
    (run R SurfaceBodies.richDraw SurfaceBodies.richDrawParams [.wid 0, .ctx c] scr).map (·.1) = .ok v ∧
    (run R SurfaceBodies.textDraw SurfaceBodies.textDrawParams [.wid 0, .ctx c] scr).map (·.1) = .ok v := by
  constructor <;> simp [SurfaceBodies.richDraw, SurfaceBodies.richDrawParams, SurfaceBodies.textDraw, SurfaceBodies.textDrawParams, hs, hd]

/-- **RichText.Draw (hard wrap) = the model**: with `findContainerSize` returning what its executed body returns, the executed
body is `Layout.drawText` in the hard-wrap mode of the current source (`richMode true`: its ellipsis conjuncts are read from the
source and are `[lineTooWide, reach]`, `Props.C14.facts_ellipsis_cond`). -/
theorem richDraw_hard_is_drawText (R : Ro) (c : Ctx) (cells : List Cell) (scr : Screen)
    (hs : R.fields "Softwrap" = some (.bool false))
    (hcells : R.self "meth:cells" [.wid 0, .ctx c] = some (.ok (.cells cells)))
    (hsize : R.self "meth:findContainerSize" [.wid 0, .cells cells, .ctx c]
      = some (.ok (.size (findContainerSize true c R.hard).1 (findContainerSize true c R.hard).2))) :
    (run R SurfaceBodies.richDraw SurfaceBodies.richDrawParams [.wid 0, .ctx c] scr).map (·.1)
      = (match drawText exactA (richMode true) c R.hard with
         | .ok s => .ok (.tup (.surf s) .nil)
         | .error p => .error (.panic p)) := by
  rw [richDraw_hard_body_eq_model R c cells _ _ scr hs hcells hsize]
  have h1 : (richMode true).sizeStrict = true := by decide
  have h2 : (richMode true).sz = (.sizeW, .sizeH) := by decide
  have h3 : (richMode true).drawStrict = true := by decide
  have h4 : (richMode true).fill = none := rfl
  have h5 : (richMode true).ell = [.lineTooWide, .reach] := by decide
  simp only [drawText, h1, h2, h4, evalSz]
  rw [drawLines_congr (hardM none) (richMode true) rfl (by rw [h5]; rfl) rfl (by rw [h3]; rfl)]

/-- **Text.Draw (hard wrap) = the model** (`textMode true st`, on the restyled lines). -/
theorem textDraw_hard_is_drawText (R : Ro) (c : Ctx) (st : Nat) (scr : Screen)
    (hs : R.fields "Softwrap" = some (.bool false))
    (hsty : R.fields "Style" = some (.sty st)) (hcont : R.fields "Content" = some .text)
    (hsize : R.self "meth:findContainerSize" [.wid 0, .ctx c]
      = some (.ok (.size (findContainerSize true c (R.hard.map (List.map (restyle st)))).1
                         (findContainerSize true c (R.hard.map (List.map (restyle st)))).2))) :
    (run R SurfaceBodies.textDraw SurfaceBodies.textDrawParams [.wid 0, .ctx c] scr).map (·.1)
      = (match drawText exactA (textMode true st) c (R.hard.map (List.map (restyle st))) with
         | .ok s => .ok (.tup (.surf s) .nil)
         | .error p => .error (.panic p)) := by
  rw [textDraw_hard_body_eq_model R c st _ _ scr hs hsty hcont hsize]
  have h1 : (textMode true st).sizeStrict = true := by simp only [textMode]; decide
  have h2 : (textMode true st).sz = (.sizeW, .sizeH) := by simp only [textMode]; decide
  have h3 : (textMode true st).drawStrict = true := by simp only [textMode]; decide
  have h4 : (textMode true st).fill = some st := rfl
  have h5 : (textMode true st).ell = [.lineTooWide, .reach] := by simp only [textMode]; decide
  simp only [drawText, h1, h2, h4, evalSz]
  rw [drawLines_congr (hardM (some st)) (textMode true st) rfl (by rw [h5]; rfl) rfl (by rw [h3]; rfl)]

/-! ### Button.Draw

The bounded-constraint panic; the style chosen by the tagless `switch` (translated as the if / else-if chain it is): mouseDown,
else hover, else focused, else default; `l := text.New(b.Label); l.Style = style; center := center.Center{Child: l};
s, err := center.Draw(ctx)`; `s.Widget = b; s.Fill(style)`.  `R.labelDraw st ctx` is that Center-around-the-label draw; with it
being the model's (soft-wrapped Text in style `st`, centred: `centerDraw_body_eq_model` + `textDrawSoftwrap_is_drawText`), the
executed body is the model's `drawWith … (.button st lines)`. -/

theorem buttonDraw_body_eq (R : Ro) (c : Ctx) (scr : Screen) (md hv fc : Bool) (sa sb sc sd : Nat) (sid : Nat)
    (h1 : R.fields "mouseDown" = some (.bool md)) (h2 : R.fields "hover" = some (.bool hv)) (h3 : R.fields "focused" = some (.bool fc))
    (h4 : R.fields "Style" = some (.wid sid))
    (h5 : R.fields "MouseDown" = some (.sty sa)) (h6 : R.fields "Hover" = some (.sty sb)) (h7 : R.fields "Focus" = some (.sty sc))
    (h8 : R.fields "Default" = some (.sty sd)) (h9 : R.fields "Label" = some .text) :
    (run R SurfaceBodies.buttonDraw SurfaceBodies.buttonDrawParams [.wid 0, .ctx c] scr).map (·.1)
      = (if c.maxH == unbounded || c.maxW == unbounded then .error (.panic .explicit)
         else match R.labelDraw (buttonStyle md hv fc sa sb sc sd) c with
           | .error p => .error (.panic p)
           | .ok s => .ok (.tup (.surf (fillStyle s (buttonStyle md hv fc sa sb sc sd))) .nil)) := by
  by_cases g1 : (c.maxH == unbounded) = true
  · simp [SurfaceBodies.buttonDraw, SurfaceBodies.buttonDrawParams, g1]
  · by_cases g2 : (c.maxW == unbounded) = true
    · simp [SurfaceBodies.buttonDraw, SurfaceBodies.buttonDrawParams, g1, g2]
    · simp only [Bool.not_eq_true] at g1 g2
      cases md <;> cases hv <;> cases fc <;>
        (simp [SurfaceBodies.buttonDraw, SurfaceBodies.buttonDrawParams, g1, g2, h1, h2, h3, h4, h5, h6, h7, h8, h9, buttonStyle]
         <;> (first | (cases R.labelDraw sa c <;> simp) | (cases R.labelDraw sb c <;> simp) | (cases R.labelDraw sc c <;> simp) | (cases R.labelDraw sd c <;> simp)))

theorem buttonDraw_body_eq_model (R : Ro) (tm : Bool → Nat → TextMode) (rm : Bool → TextMode) (lines : List (List Cell))
    (c : Ctx) (scr : Screen) (md hv fc : Bool) (sa sb sc sd : Nat) (sid : Nat)
    (h1 : R.fields "mouseDown" = some (.bool md)) (h2 : R.fields "hover" = some (.bool hv)) (h3 : R.fields "focused" = some (.bool fc))
    (h4 : R.fields "Style" = some (.wid sid))
    (h5 : R.fields "MouseDown" = some (.sty sa)) (h6 : R.fields "Hover" = some (.sty sb)) (h7 : R.fields "Focus" = some (.sty sc))
    (h8 : R.fields "Default" = some (.sty sd)) (h9 : R.fields "Label" = some .text)
    (hL : R.labelDraw = fun st' c' =>
      match drawText exactA (tm false st') { minW := 0, minH := 0, maxW := c'.maxW, maxH := c'.maxH } lines with
      | .error e => .error e
      | .ok ch => .ok (centerAround exactA c' ch)) :
    (run R SurfaceBodies.buttonDraw SurfaceBodies.buttonDrawParams [.wid 0, .ctx c] scr).map (·.1)
      = (match drawWith exactA tm rm (.button (buttonStyle md hv fc sa sb sc sd) lines) c with
         | .ok s => .ok (.tup (.surf s) .nil)
         | .error p => .error (.panic p)) := by
  rw [buttonDraw_body_eq R c scr md hv fc sa sb sc sd sid h1 h2 h3 h4 h5 h6 h7 h8 h9, hL]
  have hb : VaxisModel.Gen.SurfaceFacts.boundedPanicWidgets.contains "button.Button" = true := by decide
  simp only [drawWith, boundedPanic, hb, Bool.true_and]
  by_cases g : (c.maxH == unbounded || c.maxW == unbounded) = true
  · simp [g]
  · simp only [g]
    cases drawText exactA (tm false (buttonStyle md hv fc sa sb sc sd)) { minW := 0, minH := 0, maxW := c.maxW, maxH := c.maxH } lines <;> simp

/-! ### TextField.Draw

The zero-constraint return (`vxfw.Surface{}`), `NewSurface(Max.Width, 1)`, the cursor state (not modelled: the stores are
accepted and change nothing), the `var (…)` block, the grapheme loop `for len(rest) > 0 { cluster, rest, _, state =
uniseg.FirstGraphemeClusterInString(rest, state); for _, char := range ctx.Characters(cluster) { WriteCell(col, 0, Cell{char,
tf.Style}); col += uint16(char.Width) }; i += 1; if i == tf.cursor { … } }` (the value = its grapheme clusters, each known by
its characters: a parameter; at most one iteration per cluster, more would be a loop that does not end), the trailing cursor
fix-up.  Executed, this is the model's `drawField` (= `drawWith … (.field chars)`) on the characters of the value in the
field's style. -/

theorem textfieldDraw_body_eq_model (R : Ro) (c : Ctx) (st : Nat) (value : List (List Cell)) (cur : Int) (scr : Screen)
    (hv : R.fields "Value" = some (.clusters value)) (hsty : R.fields "Style" = some (.sty st))
    (hcur : R.fields "cursor" = some (.int cur)) :
    (run R SurfaceBodies.textfieldDraw SurfaceBodies.textfieldDrawParams [.wid 0, .ctx c] scr).map (·.1)
      = (match drawField exactA c (value.flatten.map (restyle st)) with
         | .ok s => .ok (.tup (.surf s) .nil)
         | .error p => .error (.panic p)) := by
  have hsz : surfaceArgs "textfield.TextField.Draw" 0 = (.maxW, .lit 1) := by decide
  -- whichever way round the comparisons with 0 are written
  have g0 : ((0 : UInt16) = c.maxW) ↔ (c.maxW = 0) := eq_comm
  have g1 : ((0 : UInt16) = c.maxH) ↔ (c.maxH = 0) := eq_comm
  by_cases h0 : c.maxW = 0 <;> by_cases h1 : c.maxH = 0
  · simp [SurfaceBodies.textfieldDraw, SurfaceBodies.textfieldDrawParams, drawField, g0, g1, h0, h1, ofInt_zero]
  · simp [SurfaceBodies.textfieldDraw, SurfaceBodies.textfieldDrawParams, drawField, g0, g1, h0, h1, ofInt_zero]
  · simp [SurfaceBodies.textfieldDraw, SurfaceBodies.textfieldDrawParams, drawField, g0, g1, h0, h1, ofInt_zero]
  · simp [SurfaceBodies.textfieldDraw, SurfaceBodies.textfieldDrawParams, drawField, g0, g1, h0, h1, ofInt_zero, ofInt_one, hv, hsty, hcur,
      newSurfaceFor, hsz, evalSz]
    rw [loopW_iterW R _ 8 _
      (fun (a : TFSt) => { ρ := [("r", .wid 0), ("v0", .ctx c), ("v1", .surf a.2.2.2.2.1), ("v2", .int a.2.2.1), ("v3", .u16 a.2.2.2.1),
          ("v4", a.1), ("v5", .clusters a.2.1), ("v6", .int a.2.2.2.2.2)], scr := scr })
      tfMore (tfStep st) ?_ ?_ (value.length + 1) (Val.str "", value, 0, 0, newSurface exactA c.maxW 1, -1)]
    · rcases iterW_tf st value (value.length + 1) (Val.str "") 0 0 (newSurface exactA c.maxW 1) (-1) (Nat.lt_succ_self _) with
        ⟨a1, a2, a3, a4, a5, g1, g2⟩ | ⟨p, g1, g2⟩
      · rw [List.map_flatten] at g2
        rw [g1, g2]
        simp [resW, Step.toRes]
        by_cases hlt : a2 < cur <;> simp [hlt]
      · rw [List.map_flatten] at g2
        rw [g1, g2]; simp [resW, Step.toRes]
    · intro a
      obtain ⟨v4, rest, i, col, s, s6⟩ := a
      cases rest with
      | nil => simp [tfMore]
      | cons cl r => simp [tfMore]
    · intro a hp
      obtain ⟨v4, rest, i, col, s, s6⟩ := a
      cases rest with
      | nil => simp [tfMore] at hp
      | cons cl r =>
        simp [tfStep]
        rw [loopS_foldS R _ 8 (.range "_" "v7")
          (fun (a : UInt16 × Surface) => { ρ := [("r", .wid 0), ("v0", .ctx c), ("v1", .surf a.2), ("v2", .int i), ("v3", .u16 a.1),
              ("v4", Val.strOf cl), ("v5", Val.clusters r), ("v6", Val.int 0)], scr := scr })
          Val.cell (fieldStep st) ?_ cl 0 (col, s)]
        · rcases foldS_fieldStep st cl col s with ⟨s', g1, _⟩ | ⟨p, g1, _⟩
          · rw [g1]
            simp [Step.toRes, hcur]
            by_cases he : i + 1 = cur <;> simp [he]
          · rw [g1]; simp [Step.toRes]
        · intro a ch j
          obtain ⟨col0, s0⟩ := a
          simp [fieldStep, hsty, restyle, Step.toRes, ofInt_zero]
          cases writeCell exactA s0 col0 0 { g := ch.g, w := ch.w, st := st } <;> simp [Step.toRes, u16]

/-! ### non-vacuity: the hypotheses on `R` are met by the obvious instances -/

/-- a soft-wrapped Text of three lines, scanned for width 5 (`textFindContainerSize_soft_body_eq_model`, `textDrawSoftwrap_*`) -/
example : ∃ R : Ro, R.fields "Softwrap" = some (.bool true) ∧ R.fields "Content" = some .text ∧ R.fields "Style" = some (.sty 3) ∧
    R.wrapW = (5 : UInt16) ∧ R.soft.length = 3 :=
  ⟨{ noRo with
      fields := fun f => if f = "Softwrap" then some (.bool true) else if f = "Content" then some .text
                         else if f = "Style" then some (.sty 3) else none,
      wrapW := 5, soft := [[{ g := 7, w := 1, st := 3 }], [], [{ g := 8, w := 2, st := 3 }]] },
   by simp, by simp, by simp, rfl, rfl⟩

/-- a Center around a soft-wrapped Text (`centerDraw_body_eq_model`): the child's Draw is the model's -/
example : ∃ R : Ro, R.fields "Child" = some (.wid 1) ∧
    R.childDraw = drawWith exactA textMode richMode (.text false 0 [[{ g := 7, w := 1, st := 0 }]]) :=
  ⟨{ noRo with fields := fun f => if f = "Child" then some (.wid 1) else none,
               childDraw := drawWith exactA textMode richMode (.text false 0 [[{ g := 7, w := 1, st := 0 }]]) },
   by simp, rfl⟩

/-- `render` with the recursive calls being the model (`render_body_eq_model`) -/
example : ∃ R : Ro, R.render = render := ⟨{ noRo with render := render }, rfl⟩

/-- a TextField holding two grapheme clusters with the cursor behind the first (`textfieldDraw_body_eq_model`) -/
example : ∃ R : Ro, R.fields "Value" = some (.clusters [[{ g := 7, w := 1, st := 0 }], [{ g := 8, w := 2, st := 0 }]]) ∧
    R.fields "Style" = some (.sty 2) ∧ R.fields "cursor" = some (.int 1) :=
  ⟨{ noRo with fields := fun f =>
        if f = "Value" then some (.clusters [[{ g := 7, w := 1, st := 0 }], [{ g := 8, w := 2, st := 0 }]])
        else if f = "Style" then some (.sty 2) else if f = "cursor" then some (.int 1) else none },
   by simp, by simp, by simp⟩

end VaxisModel.Props.C14Body
