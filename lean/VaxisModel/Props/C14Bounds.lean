/-
C14, round 4: the uint16 boundaries of every size computation, for ALL constraints (0 … 65535 = unbounded),
and the painter's algorithm of `render` over the z-SORTED children, blank cells included.

Size computations of the built-in widgets and what happens at the 16-bit boundary:
  * `size.Height += 1` (findContainerSize ×4): never wraps — `size_height_exact`;
  * `w += uint16(char.Width)` (line width): the true width modulo 65 536 — `line_width_mod`; exact below 65 536
    columns; either way clamped to Max.Width (`size_le_max` has no hypothesis);
  * `int(height)*int(width)` (NewSurface), `int(row)*int(Width)+int(col)` (WriteCell): computed in `int`, exact
    (`Props.C14.newSurface_len`, `writeCell_exact`, and `Props.C14Body` for the executed bodies);
  * `(Max − child)/2` (Center, Button): no underflow for a child that fits, and EVERY built-in child fits
    (`Props.C14.center_fits_src`); what the unsigned subtraction gives otherwise: `center_offset_wraps`;
  * `ctx.Max.Width - uint16(colOffset)` (list.Dynamic): wraps for `Max.Width < 2` with DrawCursor —
    `dynamic_child_width`;
  * `row += 1`, `col += uint16(char.Width)` in the Draw loops: guarded by `row >= Max.Height` (F216) resp. only
    used as a WriteCell coordinate (a write outside is ignored: `writeCell_exact`).
-/
import VaxisModel.Model.Layout
import VaxisModel.Lemmas.SurfExec
import VaxisModel.Lemmas.SurfacePaint

namespace VaxisModel.Props.C14Bounds
open VaxisModel.Model.Window VaxisModel.Model.Surface VaxisModel.Model.Layout VaxisModel.Model.SurfExec
open VaxisModel.Lemmas.SurfExec

/-- `size.Height += 1` never wraps: the height findContainerSize returns is exactly the number of lines, capped
by Max.Height — for every Max.Height including 65535 (unbounded) and texts of more than 65 535 lines. -/
theorem sizeLoop_height_exact (maxW maxH : UInt16) : ∀ (lines : List (List Cell)) (w h : UInt16), h ≤ maxH →
    (sizeLoop true maxW maxH lines w h).2.toNat = min (h.toNat + lines.length) maxH.toNat := by
  intro lines
  induction lines with
  | nil =>
    intro w h hle
    have := UInt16.le_iff_toNat_le.1 hle
    simp [sizeLoop]; omega
  | cons l r ih =>
    intro w h hle
    have hle' := UInt16.le_iff_toNat_le.1 hle
    by_cases hg : h ≥ maxH
    · have := UInt16.le_iff_toNat_le.1 hg
      simp [sizeLoop, hGuard, hg]; omega
    · have hlt : h.toNat < maxH.toNat := by
        have := UInt16.lt_iff_toNat_lt.1 (UInt16.not_le.1 hg); exact this
      have hm := maxH.toNat_lt
      have h1 : (h + 1).toNat = h.toNat + 1 := by
        rw [UInt16.toNat_add]; simp; omega
      have hle2 : h + 1 ≤ maxH := UInt16.le_iff_toNat_le.2 (by omega)
      simp only [sizeLoop, hGuard, hg, if_true, decide_false, Bool.false_eq_true, if_false]
      rw [ih _ _ hle2, h1, List.length_cons]; omega

theorem size_height_exact (c : Ctx) (lines : List (List Cell)) :
    (findContainerSize true c lines).2.toNat = min lines.length c.maxH.toNat := by
  have := sizeLoop_height_exact c.maxW c.maxH lines 0 0 (UInt16.le_iff_toNat_le.2 (Nat.zero_le _))
  simpa [findContainerSize] using this

theorem lineWidthInt_nonneg : ∀ (l : List Cell), (∀ c ∈ l, 0 ≤ c.w) → 0 ≤ lineWidthInt l := by
  intro l
  induction l with
  | nil => intro _; simp [lineWidthInt]
  | cons d r ih =>
    intro h
    have h1 := h d (by simp)
    have h2 := ih (fun x hx => h x (by simp [hx]))
    simp [lineWidthInt]; omega

/-- The uint16 line width `w += uint16(char.Width)` is the true width modulo 65 536. -/
theorem line_width_mod : ∀ (l : List Cell), (∀ c ∈ l, 0 ≤ c.w) →
    (lineWidth l).toNat = (lineWidthInt l).toNat % 65536 := by
  intro l
  induction l with
  | nil => intro _; simp [lineWidth, lineWidthInt]
  | cons c r ih =>
    intro h
    have hc := h c (by simp)
    have hr := ih (fun x hx => h x (by simp [hx]))
    have hs := lineWidthInt_nonneg r (fun x hx => h x (by simp [hx]))
    simp only [lineWidth, lineWidthInt, UInt16.toNat_add, hr, u16]
    have hu : (UInt16.ofInt c.w).toNat = c.w.toNat % 65536 := by
      simp only [UInt16.ofInt, UInt16.toNat_ofNat']
      have h2 : (c.w % 2 ^ 16).toNat = c.w.toNat % 65536 := by omega
      rw [h2]; omega
    rw [hu]
    omega

/-- … hence exact for every line narrower than 65 536 columns. -/
theorem line_width_exact (l : List Cell) (h : ∀ c ∈ l, 0 ≤ c.w) (hlt : lineWidthInt l < 65536) :
    ((lineWidth l).toNat : Int) = lineWidthInt l := by
  have := line_width_mod l h
  have := lineWidthInt_nonneg l h
  omega

/-- `ctx.Max.Width - uint16(colOffset)`: the width list.Dynamic hands its items, for EVERY Max.Width — it wraps to
65534 / 65535 (= unbounded) for a 0- or 1-column list that draws its cursor. -/
theorem dynamic_child_width (cursor : Bool) (c : Ctx) :
    (dynChildCtx cursor c).maxW.toNat =
      if (dynOff cursor).toNat ≤ c.maxW.toNat then c.maxW.toNat - (dynOff cursor).toNat
      else 65536 + c.maxW.toNat - (dynOff cursor).toNat := by
  have hm := c.maxW.toNat_lt
  cases cursor
  · simp [dynChildCtx, dynOff]
  · simp only [dynChildCtx, dynOff, if_true, UInt16.toNat_sub]
    have : (2 : UInt16).toNat = 2 := rfl
    rw [this]
    split <;> omega

/-- `(Max − child)/2` in uint16, for EVERY pair: half the free space when the child fits, half of the wrapped
difference (at least 32 768 − child/2 … outside every parent) when it does not. -/
theorem center_offset (maxW cw : UInt16) :
    ((maxW - cw) / 2).toNat =
      if cw.toNat ≤ maxW.toNat then (maxW.toNat - cw.toNat) / 2 else (65536 + maxW.toNat - cw.toNat) / 2 := by
  have hm := maxW.toNat_lt
  have hc := cw.toNat_lt
  rw [UInt16.toNat_div, UInt16.toNat_sub]
  have : (2 : UInt16).toNat = 2 := rfl
  rw [this]
  split <;> omega

/-- A child that fits is placed inside with margins within one, in both dimensions, for every constraint. -/
theorem center_offset_fits (maxW cw : UInt16) (h : cw ≤ maxW) :
    ((maxW - cw) / 2).toNat + cw.toNat ≤ maxW.toNat ∧
    (maxW.toNat - cw.toNat - ((maxW - cw) / 2).toNat) - ((maxW - cw) / 2).toNat ≤ 1 := by
  have := UInt16.le_iff_toNat_le.1 h
  rw [center_offset, if_pos this]
  omega

/-! ### painter's algorithm over the z-sorted children -/

/-- **paint_is_painters_algorithm.** The SetCell calls of `render`, in order: EVERY cell of the surface's own
buffer (cell i at column `i mod W`, row `i div W` — blank or not, none is skipped), then, for the children SORTED
by ZIndex (`Kids.sortZ` = what `sort.Slice` leaves in `s.Children`), all the calls of each child in its window
`win.New(col, row, W, H)`.  This is the order the code has (sort, then paint); the model's definition paints each
child and sorts the per-child call lists — the two are equal. -/
theorem paint_is_painters_algorithm (w h : UInt16) (buf : List Cell) (kids : Kids) (win : Win) :
    (Surface.mk w h buf kids).paint win =
      (cellOps w buf).map (fun o => (win, o)) ++ (Kids.toL (Kids.sortZ kids)).flatMap (fun p => kidPaint win p.2) := by
  simp [Surface.paint, layers_eq, sortByZ_map (kidPaint win), Kids.sortZ, toL_ofL, List.flatMap_map]

/-- one SetCell call per buffer cell, none skipped -/
theorem own_cells_all_painted (w : UInt16) : ∀ (buf : List Cell) (i : Nat),
    (cellOpsFrom w i buf).length = buf.length ∧
    ∀ k (hk : k < buf.length), (cellOpsFrom w i buf)[k]? =
      some { col := Int.ofNat ((i + k) % w.toNat), row := Int.ofNat ((i + k) / w.toNat), cell := buf[k] } := by
  intro buf
  induction buf with
  | nil => intro i; simp [cellOpsFrom]
  | cons c r ih =>
    intro i
    refine ⟨by simp [cellOpsFrom, (ih (i + 1)).1], fun k hk => ?_⟩
    cases k with
    | zero => simp [cellOpsFrom]
    | succ k =>
      have := (ih (i + 1)).2 k (by simpa using hk)
      have he : i + 1 + k = i + (k + 1) := by omega
      simp only [cellOpsFrom, List.getElem?_cons_succ, this, List.getElem_cons_succ, he]

/-- The sorted children are the children (nothing lost, nothing added), in non-decreasing ZIndex. -/
theorem sorted_children (kids : Kids) :
    (∀ p, p ∈ Kids.toL (Kids.sortZ kids) ↔ p ∈ Kids.toL kids) ∧
    List.Pairwise (fun a b => a.1 ≤ b.1) (Kids.toL (Kids.sortZ kids)) := by
  refine ⟨fun p => ?_, ?_⟩
  · rw [Kids.sortZ, toL_ofL]; exact VaxisModel.Lemmas.SurfacePaint.mem_sortByZ p _
  · rw [Kids.sortZ, toL_ofL]; exact VaxisModel.Lemmas.SurfacePaint.sortByZ_sorted _

/-- **later_call_covers.** A SetCell call the screen accepts decides the cell, whatever was painted before and
whatever the cell is — a blank (zero) cell of a later surface covers what is below it. -/
theorem later_call_covers (scr : Screen) (calls : List (Win × Op)) (c : Win × Op) :
    applyPaint scr (calls ++ [c]) = c.1.setCell (applyPaint scr calls) c.2.col c.2.row c.2.cell := by
  simp [applyPaint, List.foldl_append]

end VaxisModel.Props.C14Bounds
