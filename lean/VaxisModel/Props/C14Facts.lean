/-
C14 — the hand-transcribed function bodies are the ones in /repo now.

`Gen.SurfaceFacts.*Body` are the statement skeletons `extract/cmd/C14` prints from the current
source on every run; `Model.SurfaceSource.*` are the skeletons the model was transcribed from.
Each theorem fails to compile when its function changed in any way other than the names of
variables and the rewrites the printer normalises (`a < b` / `b > a`, `x++` / `x += 1` / `x = x + 1`, the
order of the operands of `==` and of `&&` / `||` between operands that can neither panic nor have an effect) (then the transcription in Model/Surface.lean or Model/Layout.lean has to be compared
with the new body, and the correspondence run looks for a concrete difference meanwhile).
-/
import VaxisModel.Gen.SurfaceFacts
import VaxisModel.Model.SurfaceSource

/-! Round 4: `Surface.render`, `Center.Draw`, both `findContainerSize`, both `drawSoftwrap`, both `Draw`, `Button.Draw` and `TextField.Draw` are no longer pinned here: their regenerated
bodies are executed by `Model/SurfExec.lean` and proved equal to the model for all inputs (`Props/C14Body.lean`), so a
rewrite that keeps their meaning does not alarm and one that changes it fails that function's `body_eq_model`. -/

namespace VaxisModel.Props.C14Facts
open VaxisModel

theorem facts_runFrame : Gen.SurfaceFacts.runFrame = Model.SurfaceSource.runFrame := by decide +kernel

theorem facts_textHardLinesBody : Gen.SurfaceFacts.textHardLinesBody = Model.SurfaceSource.textHardLinesBody := by decide +kernel

end VaxisModel.Props.C14Facts
