/-
C14 — the hand-transcribed function bodies are the ones in /repo now.

`Gen.SurfaceFacts.*Body` are the statement skeletons `extract/cmd/C14` prints from the current
source on every run; `Model.SurfaceSource.*` are the skeletons the model was transcribed from.
Each theorem fails to compile when its function changed in any way other than the names of
variables and the rewrites the printer normalises (`a < b` / `b > a`, `x++` / `x += 1` / `x = x + 1`, the
order of the operands of `==` and of `&&` / `||` between operands that can neither panic nor have an effect) (then the transcription in Model/Surface.lean or Model/Layout.lean has to be compared
with the new body, and the correspondence run looks for a concrete difference meanwhile).
-/
import VaxisModel.Gen.SurfaceFacts
import VaxisModel.Model.SurfaceSource

namespace VaxisModel.Props.C14Facts
open VaxisModel

theorem facts_renderBody : Gen.SurfaceFacts.renderBody = Model.SurfaceSource.renderBody := by decide +kernel

theorem facts_runFrame : Gen.SurfaceFacts.runFrame = Model.SurfaceSource.runFrame := by decide +kernel

theorem facts_buttonDrawBody : Gen.SurfaceFacts.buttonDrawBody = Model.SurfaceSource.buttonDrawBody := by decide +kernel

theorem facts_centerDrawBody : Gen.SurfaceFacts.centerDrawBody = Model.SurfaceSource.centerDrawBody := by decide +kernel

theorem facts_richtextDrawBody : Gen.SurfaceFacts.richtextDrawBody = Model.SurfaceSource.richtextDrawBody := by decide +kernel

theorem facts_richtextDrawSoftwrapBody : Gen.SurfaceFacts.richtextDrawSoftwrapBody = Model.SurfaceSource.richtextDrawSoftwrapBody := by decide +kernel

theorem facts_richtextFindContainerSizeBody : Gen.SurfaceFacts.richtextFindContainerSizeBody = Model.SurfaceSource.richtextFindContainerSizeBody := by decide +kernel

theorem facts_textDrawBody : Gen.SurfaceFacts.textDrawBody = Model.SurfaceSource.textDrawBody := by decide +kernel

theorem facts_textDrawSoftwrapBody : Gen.SurfaceFacts.textDrawSoftwrapBody = Model.SurfaceSource.textDrawSoftwrapBody := by decide +kernel

theorem facts_textFindContainerSizeBody : Gen.SurfaceFacts.textFindContainerSizeBody = Model.SurfaceSource.textFindContainerSizeBody := by decide +kernel

theorem facts_textfieldDrawBody : Gen.SurfaceFacts.textfieldDrawBody = Model.SurfaceSource.textfieldDrawBody := by decide +kernel

theorem facts_textHardLinesBody : Gen.SurfaceFacts.textHardLinesBody = Model.SurfaceSource.textHardLinesBody := by decide +kernel

end VaxisModel.Props.C14Facts
