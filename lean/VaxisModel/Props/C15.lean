import VaxisModel.Lemmas.VxfwNoStuck
import VaxisModel.Lemmas.VxfwRank
import VaxisModel.Model.Vxfw
import VaxisModel.Spec.Routing
import VaxisModel.Lemmas.Vxfw
import VaxisModel.Lemmas.VxfwHover
import VaxisModel.Lemmas.VxfwOnce
import VaxisModel.Lemmas.VxfwFocus

/-!
# C15 — vxfw routes events capture-target-bubble and keeps focus and hover consistent

Every theorem quantifies over the oracle `o` (what each widget answers to each call, and which
widgets capture), the fuel (nesting depth allowed to re-entrant focus changes), and the state.
-/
namespace VaxisModel.Props.C15
open VaxisModel.Model.Vxfw VaxisModel.Spec.Routing VaxisModel.Lemmas.Vxfw

/-- **key_routing.** For every oracle, state and dispatchable event, the entries that
`focusHandler.handleEvent` appends to the trace follow the plan
capture (capturing widgets of `path`, root first) — target (the focused widget) — bubble
(`path` without its last element, nearest first), each offer followed only by effects of the
returned command and nested focus notifications, and nothing is offered after the first offer
during whose command processing `consume` took effect. -/
theorem key_routing (o : Oracle) (fuel : Nat) (s : St) (ev : Ev) (hev : Routable ev) :
    ∃ t, (handleEvent o fuel s ev).trace = s.trace ++ t ∧
      conforms ev s.focused (planOf o.captures s.path .focusTgt) t = true := by
  obtain ⟨t, ht, _, _, hc⟩ :=
    dispatch_conforms hev o fuel s.path (fun s => s.focused) .focusTgt (fun _ => rfl) s
  exact ⟨t, ht, hc⟩


/-- **key_routing**, explicit form. If no handler answers with a focus command, the trace of
`focusHandler.handleEvent` is literally: walk `route captures path focused` = capture calls
(capturing widgets of `path`, root first) ++ [target call to the focused widget] ++ bubble calls
(`path` without its last element, reversed); the k-th call overall is answered by `h … k`, its
commands take effect once, in order, right after the call; the walk stops after the first call
whose (flattened) answer contains `consume`. No hypothesis on the event, state or fuel. -/
theorem key_routing_explicit (o : Oracle) (hnf : FocusFree o) (fuel : Nat) (s : St) (ev : Ev) :
    (handleEvent o (fuel + 1) s ev).trace =
      s.trace ++ specRun o.h ev s.calls (route o.captures s.path s.focused) :=
  handleEvent_plain o hnf fuel s ev

example : route (fun w => w == 1) [0, 1, 2] 2 =
    [(1, .capture), (2, .target), (1, .bubble), (0, .bubble)] := by decide

example :
    callsOf (specRun (fun w _ ph _ => if w = 1 ∧ ph = .bubble then .batch [.redraw, .consume] else .nil) (.key 9) 0
      (route (fun w => w == 1) [0, 1, 2] 2)) =
    [(1, .key 9, .capture), (2, .key 9, .target), (1, .key 9, .bubble)] := by decide

/-- Non-vacuity / sanity: a three-level path, the middle widget captures and the target
consumes: capture 1, target 2, no bubbling. -/
example :
    (handleEvent ⟨fun w _ ph _ => if w = 2 ∧ ph = .target then .batch [.redraw, .consume] else .nil,
                  fun w => w == 1⟩ 4
      { St.init 0 with path := [0, 1, 2], focused := 2 } (.key 65)).trace
    = [.call 1 (.key 65) .capture, .call 2 (.key 65) .target, .eff .redraw, .eff .consume] := by
  decide


/-- **path_correct** (focused widget drawn). After a frame that drew `t`, `updatePath` calls no
handler and leaves `path` = the root-to-focused chain of the first (pre-order) surface of the
focused widget, prefixed by the root widget when the root surface belongs to another widget; the
frame is remembered for later focus changes. -/
theorem path_correct (o : Oracle) (fuel : Nat) (s : St) (t : STree) (p : List Id)
    (h : chain s.focused t = some p) :
    updatePath o fuel s t = { s with fhFrame := some t, path := expectedPath s.root t s.focused } :=
  updatePath_found o fuel s t p h

/-- **path_correct** (focused widget not drawn): `path := [root]`, then the best-effort refocus
of the root widget — which recomputes the path like every focus change. -/
theorem path_correct_refocus (o : Oracle) (fuel : Nat) (s : St) (t : STree)
    (h : chain s.focused t = none) :
    updatePath o fuel s t = focusWidget o fuel { s with fhFrame := some t, path := [s.root] } s.root :=
  updatePath_notfound o fuel s t h

/-- **path_correct**, all cases: after `updatePath` the path is the drawn chain (in the frame just
drawn) of the widget that is focused *then* — also when the best-effort refocus or a FocusIn /
FocusOut handler called by it moved the focus again — or `[root]` if that widget is not drawn. -/
theorem path_correct_always (o : Oracle) (fuel : Nat) (s : St) (t : STree) :
    (updatePath o fuel s t).path = expectedPath s.root t (updatePath o fuel s t).focused := by
  obtain ⟨h1, h2⟩ := pathInv_updatePath o fuel s t
  have h3 := updatePath_root o fuel s t
  unfold PathInv drawnPath at h1
  rw [h2, h3] at h1
  exact h1

/-- Routing right after a frame: over the drawn chain of the focused widget. -/
theorem key_routing_after_frame (o o' : Oracle) (fuel : Nat) (s : St) (t : STree) (p : List Id)
    (h : chain s.focused t = some p) (ev : Ev) (hev : Routable ev) :
    ∃ tr, (handleEvent o fuel (updatePath o' fuel s t) ev).trace = s.trace ++ tr ∧
      conforms ev s.focused (planOf o.captures (expectedPath s.root t s.focused) .focusTgt) tr = true := by
  rw [path_correct o' fuel s t p h]
  exact key_routing o fuel _ ev hev

example : chain 2 (.node 0 9 9 [(0, 0, 0, .node 1 3 3 [(0, 0, 0, .node 2 1 1 [])])]) = some [0, 1, 2] := by decide


/-- The reading of the property over *drawn* trees: after a frame that drew `t` and any command,
a dispatchable event is routed along the drawn chain of the widget that is focused now. (False
before the repair of F115a: `Witness/F115a.lean` shows the pre-fix `focusWidget` violating it.) -/
def key_routing_drawn_full : Prop :=
  ∀ (o : Oracle) (fuel : Nat) (s : St) (t : STree) (c : Cmd) (ev : Ev), Routable ev →
    ∀ p, chain (handleCommand o fuel (updatePath o fuel s t) c).focused t = some p →
      ∃ tr, (handleEvent o fuel (handleCommand o fuel (updatePath o fuel s t) c) ev).trace =
          (handleCommand o fuel (updatePath o fuel s t) c).trace ++ tr ∧
        conforms ev (handleCommand o fuel (updatePath o fuel s t) c).focused
          (planOf o.captures (expectedPath s.root t (handleCommand o fuel (updatePath o fuel s t) c).focused) .focusTgt)
          tr = true

/-- **key_routing over the drawn chain** (frame, then any command — focus changes included). -/
theorem key_routing_drawn_cmd : key_routing_drawn_full := by
  intro o fuel s t c ev hev p _
  obtain ⟨h1, h2⟩ := pathInv_updatePath o fuel s t
  have h3 := updatePath_root o fuel s t
  have hx := ext_handleCommand hev o fuel (updatePath o fuel s t) c
  have hp := hx.pinv h1
  unfold PathInv drawnPath at hp
  rw [hx.fhFrame, h2, hx.root, h3] at hp
  have := key_routing o fuel (handleCommand o fuel (updatePath o fuel s t) c) ev hev
  rw [hp] at this
  exact this

/-- **path invariant.** At every point of every history of the Run loop (Init, any events, any
frames, any widget behaviour) `path` is the drawn chain — in the last frame rendered — of the
widget that is focused now, or `[root]` if that widget is not in the last frame (or there is no
frame yet). -/
theorem path_is_drawn_chain (o : Oracle) (fuel : Nat) (root : Id) (t0 : STree) (steps : List Step) :
    (runSteps o fuel (runInit o fuel root t0) steps).path =
      drawnPath (runSteps o fuel (runInit o fuel root t0) steps) :=
  pinv_runSteps o fuel steps _ (pinv_runInit o fuel root t0)

/-- **key_routing over the drawn chain, at all times.** After any history of the Run loop, the
next key / custom event is offered: capture along the drawn chain (last frame) of the focused
widget root first, target = the focused widget, bubble along the chain nearest first, stopping
at the first consumed offer. No hypothesis on the history, the trees or the handlers. -/
theorem key_routing_drawn (o : Oracle) (fuel : Nat) (root : Id) (t0 : STree) (steps : List Step)
    (ev : Ev) (hev : Routable ev) :
    ∃ tr, (handleEvent o fuel (runSteps o fuel (runInit o fuel root t0) steps) ev).trace =
        (runSteps o fuel (runInit o fuel root t0) steps).trace ++ tr ∧
      conforms ev (runSteps o fuel (runInit o fuel root t0) steps).focused
        (planOf o.captures (drawnPath (runSteps o fuel (runInit o fuel root t0) steps)) .focusTgt) tr = true := by
  have := key_routing o fuel (runSteps o fuel (runInit o fuel root t0) steps) ev hev
  rw [path_is_drawn_chain] at this
  exact this

/-- Non-vacuity: frame 0→{1,2}, a key handler answers `focus 1`; the next key is captured by /
bubbles to 0 although no frame was drawn in between (the F115a scenario). -/
example :
    ((runSteps ⟨fun _ ev ph _ => if ev = .key 1 ∧ ph = .target then .focus 1 else .nil, fun _ => true⟩ 5
      (runInit ⟨fun _ _ _ _ => .nil, fun _ => true⟩ 5 0 (.node 0 9 9 []))
      [.ev .resize, .frame (.node 0 9 9 [(0, 0, 0, .node 1 3 3 []), (4, 0, 0, .node 2 3 3 [])]) (.node 0 0 0 []),
       .ev (.key 1), .ev (.key 2)]).trace.filter (fun e => isRouted (.key 2) e)) =
    [.call 0 (.key 2) .capture, .call 1 (.key 2) .capture, .call 1 (.key 2) .target, .call 0 (.key 2) .bubble] := by
  decide

/-- **focus_change_once** (history form, every handler behaviour). Whatever a command does —
including focus changes nested in FocusOut or FocusIn handlers — the focus notifications it
produces come in pairs FocusOut(current) … FocusIn(new), and the focused widget at the end is
the receiver of the last FocusIn. (False before the repair of F115b, `Witness/F115b.lean`.) -/
def focus_change_once_full : Prop :=
  ∀ (o : Oracle) (fuel : Nat) (s : St) (c : Cmd),
    ∃ t, (handleCommand o fuel s c).trace = s.trace ++ t ∧
      focusRun s.focused false t = some (handleCommand o fuel s c).focused

theorem focus_change_once : focus_change_once_full :=
  fun o fuel s c => (focusGood_handleCommand o fuel).pairs s c

/-- **focus_change_once** over whole histories of the Run loop (Init, any events, any frames, any
handler behaviour): all FocusOut / FocusIn notifications pair up — FocusOut to the widget focused
at that moment, then FocusIn to the new one, nothing in between — starting from the root widget,
and the focused widget is the receiver of the last FocusIn. -/
theorem focus_change_once_history (o : Oracle) (fuel : Nat) (root : Id) (t0 : STree) (steps : List Step) :
    focusRun root false (runSteps o fuel (runInit o fuel root t0) steps).trace =
      some (runSteps o fuel (runInit o fuel root t0) steps).focused :=
  focusPairs_run o fuel root t0 steps

/-- **focus_change_once** (single change). A focus command to a different widget whose two
notifications are not answered with further focus commands: exactly one FocusOut to the old
widget, `focused := w`, exactly one FocusIn to the new one, then the effects of the FocusOut
answer and of the FocusIn answer, once each, in that order. -/
theorem focus_change_single (o : Oracle) (fuel : Nat) (s : St) (w : Id) (hne : s.focused ≠ w)
    (h1 : NoFocusAtoms (o.h s.focused .focusOut .target s.calls))
    (h2 : NoFocusAtoms (o.h w .focusIn .target (s.calls + 1))) :
    (handleCommand o (fuel + 2) s (.focus w)).trace =
      s.trace ++ [.call s.focused .focusOut .target, .eff (.focusSet w), .call w .focusIn .target] ++
        effsOf (o.h s.focused .focusOut .target s.calls).flatten ++
        effsOf (o.h w .focusIn .target (s.calls + 1)).flatten ∧
    (handleCommand o (fuel + 2) s (.focus w)).focused = w := by
  simp only [handleCommand, Cmd.flatten, List.foldl_cons, List.foldl_nil, execAtom, focusWidgetWith,
    if_neg hne, Model.Vxfw.call, findPath]
  rw [foldl_nofocus _ o _ h1]
  simp only []
  rw [foldl_nofocus _ o _ h2]
  simp

/-- Non-vacuity: refocus inside FocusIn, and inside FocusOut (the F115b scenario: the old widget
answers FocusOut with `focus 2`; it gets one FocusOut, 1 gets FocusIn and FocusOut, 2 ends focused). -/
example :
    (handleCommand ⟨fun w ev _ _ => if w = 1 ∧ ev = .focusIn then .focus 2 else .nil, fun _ => false⟩ 5
      (St.init 0) (.focus 1)).trace =
    [.call 0 .focusOut .target, .eff (.focusSet 1), .call 1 .focusIn .target,
     .call 1 .focusOut .target, .eff (.focusSet 2), .call 2 .focusIn .target] := by decide

example :
    (handleCommand ⟨fun w ev _ _ => if w = 0 ∧ ev = .focusOut then .focus 2 else .nil, fun _ => false⟩ 5
      (St.init 0) (.focus 1)).trace =
    [.call 0 .focusOut .target, .eff (.focusSet 1), .call 1 .focusIn .target,
     .call 1 .focusOut .target, .eff (.focusSet 2), .call 2 .focusIn .target] := by decide

/-- **mouse_routing.** `mouseHandler.handleEvent` first updates the hit list against the last
frame (enter/leave notifications), then — if anything is under the pointer — offers the event
along the hit list exactly like a key event along the focus path, the last hit being the target. -/
theorem mouse_routing (o : Oracle) (fuel : Nat) (s : St) (col row : Int) :
    let s1 := mouseUpdate o fuel { s with mouse := some (col, row) } s.lastFrame
    s1.lastHits = hitsAt s.lastFrame col row ∧
    ∃ t, (mouseHandleEvent o fuel s col row).trace = s1.trace ++ t ∧
      (match s1.lastHits.getLast? with
       | none => t = []
       | some tg => conforms (.mouse col row) s1.focused
           (planOf o.captures (s1.lastHits.map (·.w)) (.tgt tg.w)) t = true) := by
  intro s1
  refine ⟨by simp [s1, mouseUpdate], ?_⟩
  simp only [mouseHandleEvent]
  change ∃ t, (match s1.lastHits.getLast? with
      | none => s1
      | some tg => dispatch o fuel (s1.lastHits.map Hit.w) (fun _ => tg.w) (.mouse col row) s1).trace = _ ∧ _
  cases hl : s1.lastHits.getLast? with
  | none => exact ⟨[], by simp, rfl⟩
  | some tg =>
    obtain ⟨t, ht, _, _, hc⟩ := dispatch_conforms (ev := .mouse col row) ⟨by simp, by simp⟩ o fuel
      (s1.lastHits.map (·.w)) (fun _ => tg.w) (.tgt tg.w) (fun _ => rfl) s1
    exact ⟨t, ht, hc⟩


/-- **hit_chain** (what the code guarantees in general, overlapping siblings included). With
sizes that fit `uint16`, the hit list computed by `mouseHandler.update` is the pre-order list of
all surfaces that contain the pointer and all of whose ancestors contain it (children in slice
order, i.e. ascending z after a render), with local coordinates; so the last element — the
target — is the deepest surface along the *last* (topmost) containing child at each level. -/
theorem hit_list_is_under (t : STree) (hs : sizesOk t = true) (col row : Int) :
    hitsAt t col row = underRoot t col row :=
  hitsAt_eq_underRoot t hs col row

/-- **hit_chain.** If at every surface on the way down at most one child contains the pointer
(no overlapping siblings at the point), the hit list is the ancestor chain, root first, of the
deepest surface containing the pointer, which is therefore the target. -/
theorem hit_chain (t : STree) (hs : sizesOk t = true) (col row : Int)
    (hin : inRect 0 0 t.w t.h col row = true) (hno : noOverlapAt 0 0 t col row = true) :
    hitsAt t col row = descend 0 0 t col row := by
  rw [hit_list_is_under t hs, underRoot, if_pos hin]
  exact under_eq_descend col row t 0 0 hno

/-- **mouse_routing over the chain under the pointer** (`mouse_routing` and `hit_chain` composed).
In any state whose last frame has `uint16` sizes, for a pointer inside the root surface with no
overlapping siblings under it: the mouse event is offered capture – target – bubble along the
ancestor chain (root first) of the deepest surface containing the pointer, and that surface's
widget is the target. -/
theorem mouse_routing_chain (o : Oracle) (fuel : Nat) (s : St) (col row : Int)
    (hs : sizesOk s.lastFrame = true)
    (hin : inRect 0 0 s.lastFrame.w s.lastFrame.h col row = true)
    (hno : noOverlapAt 0 0 s.lastFrame col row = true) :
    ∃ t tg, (descend 0 0 s.lastFrame col row).getLast? = some tg ∧
      (mouseHandleEvent o fuel s col row).trace =
        (mouseUpdate o fuel { s with mouse := some (col, row) } s.lastFrame).trace ++ t ∧
      conforms (.mouse col row) (mouseUpdate o fuel { s with mouse := some (col, row) } s.lastFrame).focused
        (planOf o.captures ((descend 0 0 s.lastFrame col row).map (·.w)) (.tgt tg.w)) t = true := by
  obtain ⟨hl, t, ht, hc⟩ := mouse_routing o fuel s col row
  rw [hit_chain s.lastFrame hs col row hin hno] at hl
  rw [hl] at hc
  cases hd : (descend 0 0 s.lastFrame col row).getLast? with
  | none =>
    have : descend 0 0 s.lastFrame col row = [] := List.getLast?_eq_none_iff.mp hd
    cases hf : s.lastFrame with
    | node i w h ch => rw [hf] at this; simp [descend] at this
  | some tg =>
    rw [hd] at hc
    exact ⟨t, tg, rfl, ht, hc⟩

/-- Non-vacuity, and what overlap does: children 1 (z 0) and 2 (z 1) overlap at (1,1); both are
hit, 2 (drawn on top) is the target. -/
example :
    hitsAt (sortTree (.node 0 9 9 [(0, 0, 1, .node 2 4 4 []), (1, 1, 0, .node 1 4 4 [])])) 1 1 =
      [⟨1, 1, 0⟩, ⟨0, 0, 1⟩, ⟨1, 1, 2⟩] := by decide

example : noOverlapAt 0 0 (.node 0 9 9 [(0, 0, 0, .node 1 2 2 []), (3, 3, 0, .node 2 4 4 [])]) 4 4 = true ∧
    descend 0 0 (.node 0 9 9 [(0, 0, 0, .node 1 2 2 []), (3, 3, 0, .node 2 4 4 [])]) 4 4 =
      [⟨4, 4, 0⟩, ⟨1, 1, 2⟩] := by decide


/-- After `render`, the children of every surface are in ascending z order (so among overlapping
siblings under the pointer the one drawn on top is hit last and becomes the mouse target);
`ids_sortTree` (Lemmas) shows the sort only permutes. -/
theorem render_sorts_children_by_z (i : Id) (w h : Nat) (ch : List Kid) :
    (sortTree (.node i w h ch)).ch.Pairwise (fun a b => a.2.2.1 ≤ b.2.2.1) := by
  simp only [sortTree, STree.ch]
  exact sortKids_sorted _

/-- **commands_once** (commands without focus). Running a returned command value that contains no
focus command — however deeply batched — appends exactly the effects of its non-batch commands,
in order, once each; flags are set accordingly and nothing else changes. -/
theorem commands_once_plain (o : Oracle) (fuel : Nat) (s : St) (c : Cmd) (hnf : NoFocusAtoms c) :
    handleCommand o (fuel + 1) s c =
      { s with
        redraw := s.redraw || c.flatten.any (fun a => a == .redraw || a == .debug)
        refresh := s.refresh || c.flatten.any (· == .refresh)
        quit := s.quit || c.flatten.any (· == .quit)
        consume := s.consume || c.flatten.any (· == .consume)
        debug := s.debug || c.flatten.any (· == .debug)
        trace := s.trace ++ effsOf c.flatten } := by
  simp only [handleCommand]
  exact foldl_nofocus _ o _ hnf s

/-- **commands_once.** For every command value, oracle and state: the trace appended by
`handleCommand` is the concatenation of one stretch per non-batch command of the flattened
value, in order: a single effect entry for redraw/refresh/quit/consume/debug/other, and for a
focus command either nothing (already focused) or one FocusOut … `focused := w`, FocusIn …
stretch. -/
theorem commands_once (o : Oracle) (fuel : Nat) (s : St) (c : Cmd) :
    ∃ segs : List (List Entry),
      (handleCommand o (fuel + 1) s c).trace = s.trace ++ segs.flatten ∧ SegsOf c.flatten segs := by
  simp only [handleCommand]
  refine atomSeg_foldl o _ (fun s c => ?_) _ s
  obtain ⟨⟨t, ht, _⟩, _⟩ := ext_handleCommand (ev := .init) ⟨by simp, by simp⟩ o fuel s c
  exact ⟨t, ht⟩

/-- **commands_once** over whole histories of the Run loop. Every command returned by any handler
call — capture, target or bubble phase of a key / custom / mouse event, `Init`, a FocusIn /
FocusOut notification (also of the best-effort refocus after a frame), a MouseEnter / MouseLeave
notification of an event or of a frame, however deeply batched — takes effect exactly once: the
command effects recorded in the trace are a permutation of the effects the handler calls of the
trace asked for (the `k`-th call overall answered `h w ev phase k`). Only a permutation: the
command of a FocusOut handler is processed after the FocusIn call. Hypothesis: the nesting budget
(`fuel`, Go's stack) did not run out. Focus commands themselves: `commands_once` + `focus_change_once`. -/
theorem commands_once_history (o : Oracle) (fuel : Nat) (root : Id) (t0 : STree) (steps : List Step)
    (hs : (runSteps o fuel (runInit o fuel root t0) steps).stuck = false) :
    (effectsIn (runSteps o fuel (runInit o fuel root t0) steps).trace).Perm
      (owed o.h 0 (runSteps o fuel (runInit o fuel root t0) steps).trace) := by
  obtain ⟨t, ht, _, hb⟩ := (bal_runInit o fuel root t0).trans0 (bal_runSteps o fuel steps _)
  obtain ⟨_, hc⟩ := hb hs
  have ht' : (runSteps o fuel (runInit o fuel root t0) steps).trace = t := by simpa [St.init] using ht
  rw [ht']
  apply List.perm_iff_count.mpr
  intro e
  have := hc e
  simpa [St.init] using this

/-- **commands_once over whole histories, without the budget hypothesis**, for handlers that do not answer a
FocusIn / FocusOut notification with a command containing a focus command (`NotifFF`; answers to every other
call — key, mouse, custom events in all phases, MouseEnter / MouseLeave, Init — are arbitrary, focus commands and
nested batches included): the nesting `handleCommand → focusWidget → handler → handleCommand` is then at most
two deep, so with any budget ≥ 2 (Go: any stack) `stuck` never becomes true (`run_never_stuck`) and every command
returned anywhere in the history takes effect exactly once. `Witness.F115c` shows the condition cannot simply
be dropped: handlers that refocus each other from FocusIn exhaust every budget (a stack overflow in Go). -/
theorem commands_once_history_wf (o : Oracle) (hff : NotifFF o) (fuel : Nat) (hf : 2 ≤ fuel) (root : Id) (t0 : STree)
    (steps : List Step) :
    (runSteps o fuel (runInit o fuel root t0) steps).stuck = false ∧
    (effectsIn (runSteps o fuel (runInit o fuel root t0) steps).trace).Perm
      (owed o.h 0 (runSteps o fuel (runInit o fuel root t0) steps).trace) :=
  ⟨run_never_stuck o hff fuel hf root t0 steps,
   commands_once_history o fuel root t0 steps (run_never_stuck o hff fuel hf root t0 steps)⟩

/-- Non-vacuity: an oracle that answers key events with focus commands (and notifications with redraw) meets
`NotifFF`. -/
example : NotifFF ⟨fun w ev _ _ => match ev with | .key _ => .batch [.focus (w + 1), .consume] | _ => .redraw, fun _ => true⟩ := by
  intro w ph k
  constructor <;> intro a ha <;> simp [Cmd.flatten] at ha <;> subst ha <;> intro w' h <;> cases h

/-- Non-vacuity: Init, a key whose capture handler answers a batch with a focus command, FocusOut
answering a batch, a mouse event, a terminal FocusIn: ten effects, each once, in another order. -/
example :
    let o : Oracle := ⟨fun _ ev ph _ => if ev = .focusOut then .batch [.redraw, .other 3] else
      if ev = .key 1 ∧ ph = .capture then .batch [.focus 1, .slice [.refresh, .consume]] else .other 9, fun _ => true⟩
    let s := runSteps o 5 (runInit o 5 0 (.node 0 9 9 [])) [.ev (.key 1), .ev (.mouse 1 1), .ev .focusIn]
    s.stuck = false ∧
    effectsIn s.trace = [.other 9, .other 9, .redraw, .other 3, .other 9, .refresh, .consume, .other 9, .other 9, .other 9] ∧
    owed o.h 0 s.trace = [.other 9, .other 9, .refresh, .consume, .redraw, .other 3, .other 9, .other 9, .other 9, .other 9] := by
  decide

/-- **commands_once over whole histories for refocus chains that terminate** (round 4; generalises
`commands_once_history_wf`).  Hypothesis: a rank on widgets, bounded by `R`, such that every focus command in an answer
to a FocusIn / FocusOut NOTIFICATION of a widget `w` (however deeply batched) targets a widget of strictly lower rank
than `w` (`NotifRanked`; the answers to all other calls — key, mouse, custom events in every phase, Init, MouseEnter /
MouseLeave — are arbitrary, focus commands to any widget included).  Then the nesting
`handleCommand → focusWidget → handler → handleCommand` is at most `3 * R + 4` deep: with any budget that large (Go: a
stack that deep) `stuck` never becomes true, over every history of the Run loop, and every command returned by any handler
call of the history takes effect exactly once.  `Witness.F115c` (two widgets focusing each other from FocusIn: no such rank
exists) shows that some well-foundedness condition is necessary. -/
theorem commands_once_history_ranked (o : Oracle) (rk : Id → Nat) (R : Nat) (hR : ∀ w, rk w ≤ R) (hrk : NotifRanked o rk)
    (fuel : Nat) (hf : 3 * R + 4 ≤ fuel) (root : Id) (t0 : STree) (steps : List Step) :
    (runSteps o fuel (runInit o fuel root t0) steps).stuck = false ∧
    (effectsIn (runSteps o fuel (runInit o fuel root t0) steps).trace).Perm
      (owed o.h 0 (runSteps o fuel (runInit o fuel root t0) steps).trace) :=
  have hns := run_never_stuck_of o fuel (hc_ranked o rk R hR hrk fuel hf) (focusWidget_ranked o rk R hR hrk fuel hf) root t0 steps
  ⟨hns, commands_once_history o fuel root t0 steps hns⟩

/-- `commands_once_history_ranked` covers the class of `commands_once_history_wf`: handlers that never answer a focus
notification with a focus command are ranked by the constant rank 0 (budget 4 instead of 2). -/
theorem notifFF_is_ranked (o : Oracle) (hff : NotifFF o) : NotifRanked o (fun _ => 0) := by
  intro w ph k
  exact ⟨fun a ha w' hw' => absurd hw' ((hff w ph k).1 a ha w'), fun a ha w' hw' => absurd hw' ((hff w ph k).2 a ha w')⟩

/-- The budget bound behind it: a command all of whose focus targets have rank `< b`, handled while a widget of rank `r`
is focused, needs a nesting budget of at most `3 * max b r + 2`. -/
theorem refocus_budget (o : Oracle) (rk : Id → Nat) (hrk : NotifRanked o rk) (fuel : Nat) (s : St) (c : Cmd) (b : Nat)
    (hb : Below rk b c) (hf : 3 * max b (rk s.focused) + 2 ≤ fuel) : (handleCommand o fuel s c).stuck = s.stuck :=
  (hc_good o rk hrk fuel s c b hb (by unfold pot; split <;> omega)).1

/-- The oracle of the non-vacuity examples: widget 1's FocusIn handler focuses widget 2 (and widget 2's FocusOut handler
asks for a redraw), widget 2's FocusIn handler answers nil; key events ask for the focus to go to widget 1. -/
def chainOracle : Oracle :=
  ⟨fun w ev _ _ => match ev with
    | .focusIn => if w = 1 then .batch [.focus 2, .redraw] else .nil
    | .focusOut => if w = 2 then .redraw else .nil
    | .key _ => .batch [.focus 1, .consume]
    | _ => .nil, fun _ => false⟩

/-- Non-vacuity: the chain oracle is ranked (rank 1 for widget 1, 0 elsewhere), … -/
theorem chainOracle_ranked : NotifRanked chainOracle (fun w => if w = 1 then 1 else 0) := by
  intro w ph k
  constructor
  · intro a ha w' hw'
    by_cases h1 : w = 1
    · subst h1
      simp [chainOracle, Cmd.flatten, Cmd.flattenL] at ha
      rcases ha with rfl | rfl
      · cases hw'; decide
      · cases hw'
    · simp [chainOracle, h1, Cmd.flatten] at ha
  · intro a ha w' hw'
    by_cases h2 : w = 2
    · subst h2
      simp [chainOracle, Cmd.flatten] at ha
      subst ha
      cases hw'
    · simp [chainOracle, h2, Cmd.flatten] at ha

/-- … it is NOT covered by `commands_once_history_wf` (a FocusIn answer contains a focus command), … -/
example : ¬ NotifFF chainOracle := by
  intro h
  exact (h 1 .target 0).1 (.focus 2) (by simp [chainOracle, Cmd.flatten, Cmd.flattenL]) 2 rfl

/-- … and a history with it: a key (focus 1 → its FocusIn handler focuses 2), a second key (focus back to 1, then 2 again):
the budget 7 = 3·1 + 4 is not exhausted, the focus ends on widget 2, FocusOut / FocusIn came in pairs. -/
example :
    let s := runSteps chainOracle 7 (runInit chainOracle 7 0 (.node 0 9 9 [(0, 0, 0, .node 1 2 2 []), (3, 3, 0, .node 2 2 2 [])]))
      [.ev (.key 1), .ev (.key 2)]
    s.stuck = false ∧ s.focused = 2 ∧ focusRun 0 false s.trace = some 2 := by
  decide +kernel

example : Cmd.flatten (.batch [.redraw, .slice [.consume, .batch [.other 3]], .focus 2]) =
    [.redraw, .consume, .other 3, .focus 2] := by decide


/-- The full hover statement: for every history of the Run loop — terminal FocusIn / FocusOut
events included — the MouseEnter / MouseLeave notifications alternate per widget. (False before
the repair of F43, `Witness/F43.lean`.) The hypothesis on the trees is a precondition of the
property ("widget trees": a widget is drawn once); `hover_needs_distinct` shows what happens
otherwise. -/
def hover_alternates_full : Prop :=
  ∀ (o : Oracle) (fuel : Nat) (root : Id) (t0 : STree) (steps : List Step),
    HitsNodup t0 → (∀ st ∈ steps, match st with
      | .ev _ => True
      | .frame t1 t2 => HitsNodup t1 ∧ HitsNodup (sortTree t1) ∧ HitsNodup (sortTree t2)) →
    (hoverRun [] (runSteps o fuel (runInit o fuel root t0) steps).trace).isSome

/-- **hover_alternates** (every drawn tree shows each widget at most once under any point; any
events — terminal FocusIn and FocusOut included). Over the whole history of the Run loop — Init,
any events, any frames, any widget behaviour — the MouseEnter/MouseLeave notifications of each
widget alternate starting with Enter, and the widgets whose last notification is Enter are
exactly the widgets of the mouse handler's hit list. -/
theorem hover_alternates (o : Oracle) (fuel : Nat) (root : Id) (t0 : STree) (steps : List Step)
    (h0 : HitsNodup t0) (hs : ∀ st ∈ steps, StepOk st) :
    ∃ hs, hoverRun [] (runSteps o fuel (runInit o fuel root t0) steps).trace = some hs ∧
      ∀ w, w ∈ hs ↔ w ∈ (runSteps o fuel (runInit o fuel root t0) steps).lastHits.map Hit.w := by
  obtain ⟨hi, hf⟩ := hov_runInit o fuel root t0 h0
  obtain ⟨⟨hs', hr, _, _, hm⟩, _⟩ := hov_runSteps o fuel steps hs _ hf hi
  exact ⟨hs', hr, hm⟩

theorem hover_alternates_full_holds : hover_alternates_full := by
  intro o fuel root t0 steps h0 hs
  obtain ⟨hs', hr, _⟩ := hover_alternates o fuel root t0 steps h0
    (fun st hst => by
      have := hs st hst
      cases st with
      | ev e => trivial
      | frame t1 t2 => exact this)
  rw [hr]; rfl

/-- … and are all closed when terminal focus leaves: after a FocusOut event every widget's last
hover notification is MouseLeave. -/
theorem hover_closed_on_focus_out (o : Oracle) (fuel : Nat) (root : Id) (t0 : STree) (steps : List Step)
    (h0 : HitsNodup t0) (hs : ∀ st ∈ steps, StepOk st) :
    hoverRun [] (runEvent o fuel (runSteps o fuel (runInit o fuel root t0) steps) .focusOut).trace = some [] := by
  obtain ⟨hi, hf⟩ := hov_runInit o fuel root t0 h0
  obtain ⟨hi', _⟩ := hov_runSteps o fuel steps hs _ hf hi
  have hi0 : HovInv { runSteps o fuel (runInit o fuel root t0) steps with mouse := none } := hi'
  exact (mouseExit_inv o fuel _ hi0).1

/-- … and when the pointer leaves: after a mouse event outside the root surface every widget's
last hover notification is MouseLeave. -/
theorem hover_closed_on_pointer_leave (o : Oracle) (fuel : Nat) (root : Id) (t0 : STree) (steps : List Step)
    (h0 : HitsNodup t0) (hs : ∀ st ∈ steps, StepOk st) (c r : Int)
    (hout : containsPoint 0 0 (runSteps o fuel (runInit o fuel root t0) steps).lastFrame.w
      (runSteps o fuel (runInit o fuel root t0) steps).lastFrame.h c r = false) :
    hoverRun [] (runEvent o fuel (runSteps o fuel (runInit o fuel root t0) steps) (.mouse c r)).trace = some [] := by
  obtain ⟨hi, hf⟩ := hov_runInit o fuel root t0 h0
  obtain ⟨hi', hf'⟩ := hov_runSteps o fuel steps hs _ hf hi
  generalize runSteps o fuel (runInit o fuel root t0) steps = s at *
  have hi0 : HovInv { s with mouse := some (c, r) } := hi'
  have hu := (mouseUpdate_inv o fuel { s with mouse := some (c, r) } s.lastFrame hf' hi0).1
  have hl : (mouseUpdate o fuel { s with mouse := some (c, r) } s.lastFrame).lastHits = [] := by
    rw [mouseUpdate_lastHits o fuel _ _ c r rfl]
    simp [hitsAt, hout]
  simp only [runEvent, mouseHandleEvent, hl, List.getLast?_nil]
  obtain ⟨hs', hr, _, _, hm⟩ := hu
  rw [hl] at hm
  have : hs' = [] := List.eq_nil_iff_forall_not_mem.mpr (fun w hw => by simpa using (hm w).mp hw)
  rw [hr, this]

/-- Non-vacuity of the hypotheses: a tree with distinct widgets meets `HitsNodup`-style
requirements at a sample point, and hover notifications really occur. -/
example :
    (runSteps ⟨fun _ _ _ _ => .redraw, fun _ => false⟩ 4
      (runInit ⟨fun _ _ _ _ => .redraw, fun _ => false⟩ 4 0 (.node 0 9 9 [(1, 1, 0, .node 1 3 3 [])]))
      [.ev (.mouse 2 2), .ev (.mouse 7 7), .ev .focusOut, .ev .focusIn, .ev (.mouse 0 0), .ev .focusOut]).trace.filter
        (fun e => isRouted .mouseEnter e || isRouted .mouseLeave e) =
    [.call 0 .mouseEnter .target, .call 1 .mouseEnter .target,
     .call 0 .mouseLeave .target, .call 1 .mouseLeave .target, .call 0 .mouseEnter .target,
     .call 0 .mouseLeave .target, .call 0 .mouseEnter .target, .call 0 .mouseLeave .target] := by decide


/-- **hover_alternates** in terms of the trees themselves: it suffices that every drawn tree shows
each widget at most once (render's child sort keeps that). -/
theorem hover_alternates_distinct (o : Oracle) (fuel : Nat) (root : Id) (t0 : STree) (steps : List Step)
    (h0 : (ids t0).Nodup) (hs : ∀ st ∈ steps, StepDistinct st) :
    (∃ hs, hoverRun [] (runSteps o fuel (runInit o fuel root t0) steps).trace = some hs ∧
      ∀ w, w ∈ hs ↔ w ∈ (runSteps o fuel (runInit o fuel root t0) steps).lastHits.map Hit.w) ∧
    hoverRun [] (runEvent o fuel (runSteps o fuel (runInit o fuel root t0) steps) .focusOut).trace = some [] :=
  ⟨hover_alternates o fuel root t0 steps (hitsNodup_of_ids t0 h0) (fun st h => StepOk.of_distinct (hs st h)),
   hover_closed_on_focus_out o fuel root t0 steps (hitsNodup_of_ids t0 h0) (fun st h => StepOk.of_distinct (hs st h))⟩

example : (ids (.node 0 9 9 [(1, 1, 0, .node 1 3 3 []), (0, 0, 1, .node 2 3 3 [(0, 0, 0, .node 3 1 1 [])])])).Nodup := by
  decide


/-- Why the hover theorems need "each widget at most once under a point" (the precondition the
drivers check on every generated tree, `treeDistinct`): a widget drawn inside its own surface is
hit twice and gets MouseEnter twice in a row — notifications are per hit result, not per widget. -/
theorem hover_needs_distinct :
    ¬ HitsNodup (.node 0 9 9 [(0, 0, 0, .node 0 3 3 [])]) ∧
    hoverRun [] (runSteps ⟨fun _ _ _ _ => .nil, fun _ => false⟩ 4
      (runInit ⟨fun _ _ _ _ => .nil, fun _ => false⟩ 4 0 (.node 0 9 9 [(0, 0, 0, .node 0 3 3 [])]))
      [.ev (.mouse 1 1)]).trace = none := by
  refine ⟨fun h => ?_, by decide⟩
  have := h 1 1
  revert this
  decide

end VaxisModel.Props.C15
