import VaxisModel.Model.Vxfw
import VaxisModel.Spec.Routing
import VaxisModel.Lemmas.Vxfw

/-!
# C15 — vxfw routes events capture-target-bubble and keeps focus and hover consistent

Every theorem quantifies over the oracle `o` (what each widget answers to each call, and which
widgets capture), the fuel (nesting depth allowed to re-entrant focus changes), and the state.
-/
namespace VaxisModel.Props.C15
open VaxisModel.Model.Vxfw VaxisModel.Spec.Routing VaxisModel.Lemmas.Vxfw

/-- **key_routing.** For every oracle, state and dispatchable event, the entries that
`focusHandler.handleEvent` appends to the trace follow the plan
capture (capturing widgets of `path`, root first) — target (the focused widget) — bubble
(`path` without its last element, nearest first), each offer followed only by effects of the
returned command and nested focus notifications, and nothing is offered after the first offer
during whose command processing `consume` took effect. -/
theorem key_routing (o : Oracle) (fuel : Nat) (s : St) (ev : Ev) (hev : Routable ev) :
    ∃ t, (handleEvent o fuel s ev).trace = s.trace ++ t ∧
      conforms ev s.focused (planOf o.captures s.path .focusTgt) t = true := by
  obtain ⟨t, ht, _, _, _, hc⟩ :=
    dispatch_conforms hev o fuel s.path (fun s => s.focused) .focusTgt (fun _ => rfl) s
  exact ⟨t, ht, hc⟩

/-- Non-vacuity / sanity: a three-level path, the middle widget captures and the target
consumes: capture 1, target 2, no bubbling. -/
example :
    (handleEvent ⟨fun w _ ph _ => if w = 2 ∧ ph = .target then .batch [.redraw, .consume] else .nil,
                  fun w => w == 1⟩ 4
      { St.init 0 with path := [0, 1, 2], focused := 2 } (.key 65)).trace
    = [.call 1 (.key 65) .capture, .call 2 (.key 65) .target, .eff .redraw, .eff .consume] := by
  decide


/-- **path_correct** (focused widget drawn). After a frame that drew `t`, `updatePath` calls no
handler and leaves `path` = the root-to-focused chain of the first (pre-order) surface of the
focused widget, prefixed by the root widget when the root surface belongs to another widget. -/
theorem path_correct (o : Oracle) (fuel : Nat) (s : St) (t : STree) (p : List Id)
    (h : chain s.focused t = some p) :
    updatePath o fuel s t = { s with path := expectedPath s.root t s.focused } :=
  updatePath_found o fuel s t p h

/-- **path_correct** (focused widget not drawn): best-effort refocus of the root widget, and
`path = [root]`. -/
theorem path_correct_refocus (o : Oracle) (fuel : Nat) (s : St) (t : STree)
    (h : chain s.focused t = none) :
    (updatePath o fuel s t).path = expectedPath s.root t s.focused ∧
    (updatePath o fuel s t).trace = (focusWidget o fuel { s with path := [] } s.root).trace ∧
    (updatePath o fuel s t).focused = (focusWidget o fuel { s with path := [] } s.root).focused := by
  have := updatePath_notfound o fuel s t h
  simpa [expectedPath, h] using this

/-- Routing right after a frame: over the drawn chain of the focused widget. -/
theorem key_routing_after_frame (o o' : Oracle) (fuel : Nat) (s : St) (t : STree) (p : List Id)
    (h : chain s.focused t = some p) (ev : Ev) (hev : Routable ev) :
    ∃ tr, (handleEvent o fuel (updatePath o' fuel s t) ev).trace = s.trace ++ tr ∧
      conforms ev s.focused (planOf o.captures (expectedPath s.root t s.focused) .focusTgt) tr = true := by
  rw [path_correct o' fuel s t p h]
  exact key_routing o fuel _ ev hev

example : chain 2 (.node 0 9 9 [(0, 0, 0, .node 1 3 3 [(0, 0, 0, .node 2 1 1 [])])]) = some [0, 1, 2] := by decide

/-- **focus_change_once** (history form). If no widget answers a FocusOut notification with a
focus command, then whatever a command does — including focus changes nested in FocusIn
handlers — the focus notifications it produces come in pairs FocusOut(current) … FocusIn(new),
and the focused widget at the end is the receiver of the last FocusIn. -/
theorem focus_change_once (o : Oracle) (hno : NoRefocusOnOut o) (fuel : Nat) (s : St) (c : Cmd) :
    ∃ t, (handleCommand o fuel s c).trace = s.trace ++ t ∧
      focusRun s.focused false t = some (handleCommand o fuel s c).focused :=
  (focusGood_handleCommand o hno fuel).pairs s c

/-- **focus_change_once** (single change). A focus command to a different widget whose two
notifications are not answered with further focus commands: exactly one FocusOut to the old
widget, then `focused := w`, then exactly one FocusIn to the new one; the effects of both
answers happen exactly once, in place. -/
theorem focus_change_single (o : Oracle) (fuel : Nat) (s : St) (w : Id) (hne : s.focused ≠ w)
    (h1 : NoFocusAtoms (o.h s.focused .focusOut .target s.calls))
    (h2 : NoFocusAtoms (o.h w .focusIn .target (s.calls + 1))) :
    (handleCommand o (fuel + 2) s (.focus w)).trace =
      s.trace ++ [.call s.focused .focusOut .target] ++
        effsOf (o.h s.focused .focusOut .target s.calls).flatten ++
        [.eff (.focusSet w), .call w .focusIn .target] ++
        effsOf (o.h w .focusIn .target (s.calls + 1)).flatten ∧
    (handleCommand o (fuel + 2) s (.focus w)).focused = w := by
  simp only [handleCommand, Cmd.flatten, List.foldl_cons, List.foldl_nil, execAtom, focusWidgetWith,
    if_neg hne, Model.Vxfw.call]
  rw [foldl_nofocus _ o _ h1]
  simp only []
  rw [foldl_nofocus _ o _ h2]
  simp

/-- The full statement (no hypothesis on the oracle) is false of the code: see
`Witness/F116.lean` (a FocusOut handler that returns a focus command). -/
def focus_change_once_full : Prop :=
  ∀ (o : Oracle) (fuel : Nat) (s : St) (c : Cmd),
    ∃ t, (handleCommand o fuel s c).trace = s.trace ++ t ∧
      focusRun s.focused false t = some (handleCommand o fuel s c).focused

/-- Non-vacuity: an oracle meeting `NoRefocusOnOut` that does refocus inside FocusIn. -/
example :
    (handleCommand ⟨fun w ev _ _ => if w = 1 ∧ ev = .focusIn then .focus 2 else .nil, fun _ => false⟩ 5
      (St.init 0) (.focus 1)).trace =
    [.call 0 .focusOut .target, .eff (.focusSet 1), .call 1 .focusIn .target,
     .call 1 .focusOut .target, .eff (.focusSet 2), .call 2 .focusIn .target] := by decide

/-- **mouse_routing.** `mouseHandler.handleEvent` first updates the hit list against the last
frame (enter/leave notifications), then — if anything is under the pointer — offers the event
along the hit list exactly like a key event along the focus path, the last hit being the target. -/
theorem mouse_routing (o : Oracle) (fuel : Nat) (s : St) (col row : Int) :
    let s1 := mouseUpdate o fuel { s with mouse := some (col, row) } s.lastFrame
    s1.lastHits = hitsAt s.lastFrame col row ∧
    ∃ t, (mouseHandleEvent o fuel s col row).trace = s1.trace ++ t ∧
      (match s1.lastHits.getLast? with
       | none => t = []
       | some tg => conforms (.mouse col row) s1.focused
           (planOf o.captures (s1.lastHits.map (·.w)) (.tgt tg.w)) t = true) := by
  intro s1
  refine ⟨by simp [s1, mouseUpdate], ?_⟩
  simp only [mouseHandleEvent]
  change ∃ t, (match s1.lastHits.getLast? with
      | none => s1
      | some tg => dispatch o fuel (s1.lastHits.map Hit.w) (fun _ => tg.w) (.mouse col row) s1).trace = _ ∧ _
  cases hl : s1.lastHits.getLast? with
  | none => exact ⟨[], by simp, rfl⟩
  | some tg =>
    obtain ⟨t, ht, _, _, _, hc⟩ := dispatch_conforms (ev := .mouse col row) ⟨by simp, by simp⟩ o fuel
      (s1.lastHits.map (·.w)) (fun _ => tg.w) (.tgt tg.w) (fun _ => rfl) s1
    exact ⟨t, ht, hc⟩

end VaxisModel.Props.C15
