import VaxisModel.Model.Vxfw
import VaxisModel.Spec.Routing
import VaxisModel.Lemmas.Vxfw

/-!
# C15 — vxfw routes events capture-target-bubble and keeps focus and hover consistent

Every theorem quantifies over the oracle `o` (what each widget answers to each call, and which
widgets capture), the fuel (nesting depth allowed to re-entrant focus changes), and the state.
-/
namespace VaxisModel.Props.C15
open VaxisModel.Model.Vxfw VaxisModel.Spec.Routing VaxisModel.Lemmas.Vxfw

/-- **key_routing.** For every oracle, state and dispatchable event, the entries that
`focusHandler.handleEvent` appends to the trace follow the plan
capture (capturing widgets of `path`, root first) — target (the focused widget) — bubble
(`path` without its last element, nearest first), each offer followed only by effects of the
returned command and nested focus notifications, and nothing is offered after the first offer
during whose command processing `consume` took effect. -/
theorem key_routing (o : Oracle) (fuel : Nat) (s : St) (ev : Ev) (hev : Routable ev) :
    ∃ t, (handleEvent o fuel s ev).trace = s.trace ++ t ∧
      conforms ev s.focused (planOf o.captures s.path .focusTgt) t = true := by
  obtain ⟨t, ht, _, _, _, hc⟩ :=
    dispatch_conforms hev o fuel s.path (fun s => s.focused) .focusTgt (fun _ => rfl) s
  exact ⟨t, ht, hc⟩

/-- Non-vacuity / sanity: a three-level path, the middle widget captures and the target
consumes: capture 1, target 2, no bubbling. -/
example :
    (handleEvent ⟨fun w _ ph _ => if w = 2 ∧ ph = .target then .batch [.redraw, .consume] else .nil,
                  fun w => w == 1⟩ 4
      { St.init 0 with path := [0, 1, 2], focused := 2 } (.key 65)).trace
    = [.call 1 (.key 65) .capture, .call 2 (.key 65) .target, .eff .redraw, .eff .consume] := by
  decide

end VaxisModel.Props.C15
