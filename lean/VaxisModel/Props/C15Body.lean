/-
C15 — the regenerated bodies of `focusHandler.handleEvent` and `mouseHandler.handleEvent`, EXECUTED, are
the model's three-phase dispatch, returned error included.

`Gen/VxfwBodies.lean` (regenerated from /repo/vxfw/vxfw.go on every run by `extract/cmd/C15/skel.go`)
holds the bodies of the dispatchers as syntax.  `Model/VxfwInterp.lean` interprets the body of
`focusHandler.handleEvent`: the `range` loop over the path snapshot with the type assertion
`w.(EventCapturer)`, the three kinds of handler calls with `if err != nil { return err }`,
`app.handleCommand(cmd)`, the consume test with its `return nil`, the index loop of the bubble
phase with a checked `path[i]`.  The theorems say that the interpreted body is `eHandleEvent` (capture
from the root down → target = the widget focused when the target phase starts → bubble from the
nearest ancestor up, stop at the first consumed offer, an error returned exactly by a failing call
and nothing after it), for every oracle, state, event and nesting budget — so the routing theorems
of `Props/C15.lean` (stated for `handleEvent`) hold of the interpreted body.
-/
import VaxisModel.Gen.VxfwBodies
import VaxisModel.Lemmas.VxfwBody
import VaxisModel.Lemmas.VxfwBodyMouse
import VaxisModel.Lemmas.VxfwBodyFocus
import VaxisModel.Lemmas.VxfwBodyHover
import VaxisModel.Lemmas.VxfwBodyX
import VaxisModel.Lemmas.VxfwBodyRun
import VaxisModel.Lemmas.VxfwBodyTree
import VaxisModel.Lemmas.VxfwBodyAll
import VaxisModel.Lemmas.VxfwBodySel
import VaxisModel.Lemmas.VxfwBodyKnot
import VaxisModel.Props.C15
import VaxisModel.Props.C15Err

namespace VaxisModel.Props.C15Body
open VaxisModel.Model VaxisModel.Model.GoSyn VaxisModel.Model.Vxfw VaxisModel.Model.VxfwInterp
open VaxisModel.Model.DynExec (parseBody)
open VaxisModel.Spec.Routing VaxisModel.Lemmas.Vxfw

/-- The translator recognised every statement and expression of the twelve translated bodies (round 4: also
    `mouseHandler.update` with its labelled `continue`s, `App.handleCommand` with its type switch, and the tree walks
    `hitTest`, `containsPoint`, `childHasFocus`, `findPath`) and of the two arms of the `select` in `App.Run` that are executed
    (`runEventBlock`, `runFrameBlock`; the `select` itself, the channel receive, the timer, `defer` and the prologue of `Run` are
    outside the translated subset and not claimed here). -/
theorem fully_recognised :
    (fullyRecognised Gen.VxfwBodies.focusHandleEvent && fullyRecognised Gen.VxfwBodies.mouseHandleEvent &&
     fullyRecognised Gen.VxfwBodies.focusWidget && fullyRecognised Gen.VxfwBodies.updatePath &&
     fullyRecognised Gen.VxfwBodies.mouseExit && fullyRecognised Gen.VxfwBodies.mouseEnter &&
     fullyRecognised Gen.VxfwBodies.mouseUpdate && fullyRecognised Gen.VxfwBodies.handleCommand &&
     fullyRecognised Gen.VxfwBodies.hitTest && fullyRecognised Gen.VxfwBodies.containsPoint &&
     fullyRecognised Gen.VxfwBodies.childHasFocus && fullyRecognised Gen.VxfwBodies.findPath &&
     fullyRecognised Gen.VxfwBodies.runEventBlock && fullyRecognised Gen.VxfwBodies.runFrameBlock) = true := by decide

/-- The regenerated body of `focusHandler.handleEvent` is the one the execution lemmas are about. -/
theorem body_as_expected : Gen.VxfwBodies.focusHandleEvent = Lemmas.VxfwBodyExpected.focusHandleEvent := by decide +kernel

/-- **`focusHandler.handleEvent`, executed from its regenerated body, IS `eHandleEvent`**: the new state
    (trace of handler calls and command effects, flags, focus, path) and the returned error, for every
    oracle (answers, which widgets capture, which calls fail), every nesting budget `fuel`, every state
    and event; the index loop of the bubble phase needs one unit of loop fuel per path element. -/
theorem handle_event_body_eq_model (e : EOracle) (fuel : Nat) (s : St) (ev : Ev) (lf : Nat) (hlf : s.path.length + 1 ≤ lf) :
    runFocusHandleEvent (parseBody Gen.VxfwBodies.focusHandleEvent) e fuel s ev lf = some (eHandleEvent e fuel s ev) := by
  rw [body_as_expected, Lemmas.VxfwBody.parse_fhe]
  exact Lemmas.VxfwBody.fhe_exec e fuel s ev lf hlf

/-- **What is returned where**: the interpreted body returns a non-nil error iff the model's dispatch
    ends in a failing offer — `return err` sits behind each of the three calls, every other `return`
    returns nil. -/
theorem handle_event_body_error (e : EOracle) (fuel : Nat) (s : St) (ev : Ev) :
    (runFocusHandleEvent (parseBody Gen.VxfwBodies.focusHandleEvent) e fuel s ev (s.path.length + 1)).map (·.2) =
      some (eHandleEvent e fuel s ev).2 := by
  rw [handle_event_body_eq_model e fuel s ev _ (Nat.le_refl _)]; rfl

/-- **Routing of the interpreted body** (capture → target → bubble, stop on consume): with handlers
    that do not fail, the trace the regenerated body of `handleEvent` produces conforms to the plan
    over the path and the focused widget — `key_routing`, for the body that was executed. -/
theorem key_routing_body (o : Oracle) (fuel : Nat) (s : St) (ev : Ev) (hev : Routable ev) :
    ∃ s' t, runFocusHandleEvent (parseBody Gen.VxfwBodies.focusHandleEvent) (e0 o) fuel s ev (s.path.length + 1) = some (s', false) ∧
      s'.trace = s.trace ++ t ∧ conforms ev s.focused (planOf o.captures s.path .focusTgt) t = true := by
  obtain ⟨t, ht, hc⟩ := C15.key_routing o fuel s ev hev
  refine ⟨handleEvent o fuel s ev, t, ?_, ht, hc⟩
  rw [handle_event_body_eq_model (e0 o) fuel s ev _ (Nat.le_refl _), (C15Err.no_error_agrees_handlers o fuel s).2.1 ev]

/-- The regenerated body of `mouseHandler.handleEvent` is the one the execution lemmas are about. -/
theorem mouse_body_as_expected : Gen.VxfwBodies.mouseHandleEvent = Lemmas.VxfwBodyExpected.mouseHandleEvent := by decide +kernel

/-- **`mouseHandler.handleEvent`, executed from its regenerated body, IS `eMouseHandleEvent`**: `m.mouse = &mouse`,
    `err := m.update(app, m.lastFrame)` (the model's hit-list update with its enter/leave notifications)
    with `return err`, `return nil` when nothing is under the pointer, then the capture loop over
    `m.lastHits` (type assertion on `h.w`), the target call on the LAST hit `m.lastHits[len-1].w`, and the
    index loop over `m.lastHits[i].w` from the second-last hit down — `m.lastHits` is read live in the
    target and bubble phases (the dispatch never changes it: `eOffer_hits`) — with every
    `if err != nil { return err }` and consume test.  New state and returned error, for every oracle,
    failing-call set, nesting budget, state and pointer position. -/
theorem mouse_handle_event_body_eq_model (e : EOracle) (fuel : Nat) (s : St) (col row : Int) (lf : Nat)
    (hlf : (eMouseUpdate e fuel { s with mouse := some (col, row) } s.lastFrame).1.lastHits.length + 1 ≤ lf) :
    runMouseHandleEvent (parseBody Gen.VxfwBodies.mouseHandleEvent) e fuel s col row lf =
      some (eMouseHandleEvent e fuel s col row) := by
  rw [mouse_body_as_expected, Lemmas.VxfwBody.parse_mhe]
  exact Lemmas.VxfwBody.mhe_exec e fuel s col row lf hlf

/-- **Mouse routing of the interpreted body**: with handlers that do not fail, the executed body of
    `mouseHandler.handleEvent` ends in the state of the model's `mouseHandleEvent` and returns nil — so
    `mouse_routing` (hit list = the widgets under the pointer, then capture → target = deepest hit → bubble
    along the hit list, stop on consume) holds of the body that was executed. -/
theorem mouse_routing_body (o : Oracle) (fuel : Nat) (s : St) (col row : Int) :
    let s1 := mouseUpdate o fuel { s with mouse := some (col, row) } s.lastFrame
    ∃ s' t, runMouseHandleEvent (parseBody Gen.VxfwBodies.mouseHandleEvent) (e0 o) fuel s col row
        ((eMouseUpdate (e0 o) fuel { s with mouse := some (col, row) } s.lastFrame).1.lastHits.length + 1) = some (s', false) ∧
      s'.trace = s1.trace ++ t ∧
      (match s1.lastHits.getLast? with
       | none => t = []
       | some tg => conforms (.mouse col row) s1.focused (planOf o.captures (s1.lastHits.map (·.w)) (.tgt tg.w)) t = true) := by
  intro s1
  obtain ⟨_, t, ht, hc⟩ := C15.mouse_routing o fuel s col row
  refine ⟨mouseHandleEvent o fuel s col row, t, ?_, ht, hc⟩
  rw [mouse_handle_event_body_eq_model (e0 o) fuel s col row _ (Nat.le_refl _),
    (C15Err.no_error_agrees_handlers o fuel s).2.2 col row]

/-- The regenerated body of `focusHandler.focusWidget` is the one the execution lemma is about. -/
theorem focus_widget_body_as_expected : Gen.VxfwBodies.focusWidget = Lemmas.VxfwBodyExpected.focusWidget := by decide +kernel

/-- **`focusHandler.focusWidget`, executed from its regenerated body, IS `eFocusWidgetWith`** (what is
    returned where): nothing and nil when the widget is focused already; the FocusOut handler's error is
    returned BEFORE `f.focused = w` (focus, path and trace unchanged but for the call); then `f.focused = w`,
    `f.findPath()`, the FocusIn call; the FocusOut handler's command is handled, THEN the FocusIn handler's
    error is returned (its command dropped), else its command is handled and nil returned — the order of
    the repairs F115b / F115a.  Every oracle, failing-call set, state, widget; `fuel` is the nesting budget of the
    two `app.handleCommand` calls, so this is `eFocusWidget e (fuel + 1)`. -/
theorem focus_widget_body_eq_model (e : EOracle) (fuel : Nat) (s : St) (w : Id) :
    runFocusWidget (parseBody Gen.VxfwBodies.focusWidget) e fuel s w = some (eFocusWidget e (fuel + 1) s w) := by
  rw [focus_widget_body_as_expected, Lemmas.VxfwBody.parse_fw]
  exact Lemmas.VxfwBody.fw_exec e fuel s w

/-- Non-vacuity: focus on 0, `focusWidget(1)` with a FocusIn handler that fails: the body returns the error,
    the focus has moved (3 trace entries: FocusOut call, `focused = 1`, FocusIn call). -/
example :
    let o : Oracle := ⟨fun _ _ _ _ => .redraw, fun _ => false⟩
    (runFocusWidget (parseBody Lemmas.VxfwBodyExpected.focusWidget) ⟨o, fun w ev _ _ => w = 1 ∧ ev = .focusIn⟩ 2 (St.init 0) 1).map
      (fun r => (r.1.focused, r.1.trace.length, r.1.redraw, r.2)) = some (1, 4, true, true) := by decide +kernel

/-- The regenerated bodies of `mouseHandler.mouseExit` / `mouseEnter` are the ones the execution lemmas are about. -/
theorem hover_bodies_as_expected : Gen.VxfwBodies.mouseExit = Lemmas.VxfwBodyExpected.mouseExit ∧
    Gen.VxfwBodies.mouseEnter = Lemmas.VxfwBodyExpected.mouseEnter := by decide +kernel

/-- **`mouseHandler.mouseExit`, executed from its regenerated body, IS `eMouseExit`** (what closes the hovers when the
    terminal loses focus or the pointer leaves): every widget of the hit list is told `MouseLeave` in order (a failing
    handler's error is returned at once, the list kept), its command handled, then `m.lastHits = []`, nil returned. -/
theorem mouse_exit_body_eq_model (e : EOracle) (fuel : Nat) (s : St) :
    runMouseExit (parseBody Gen.VxfwBodies.mouseExit) e fuel s = some (eMouseExit e fuel s) := by
  rw [hover_bodies_as_expected.1, Lemmas.VxfwBody.parse_mx]
  exact Lemmas.VxfwBody.mx_exec e fuel s

/-- **`mouseHandler.mouseEnter`, executed from its regenerated body, IS `eMouseEnter`** (the repair of F43): nothing and nil
    if the widget is in the hit list (`h.w == w` for some hit); else the hit `{w: w}` is appended FIRST, then the widget is
    told `MouseEnter`, its error returned or its command handled. -/
theorem mouse_enter_body_eq_model (e : EOracle) (fuel : Nat) (s : St) (w : Id) :
    runMouseEnter (parseBody Gen.VxfwBodies.mouseEnter) e fuel s w = some (eMouseEnter e fuel s w) := by
  rw [hover_bodies_as_expected.2, Lemmas.VxfwBody.parse_me]
  exact Lemmas.VxfwBody.me_exec e fuel s w

/-- **Closed when the terminal focus leaves, for the executed body**: after the interpreted `mouseExit` (no failing
    handler) the hit list is empty — nothing is entered any more. -/
theorem mouse_exit_body_closes (o : Oracle) (fuel : Nat) (s : St) :
    ∃ s', runMouseExit (parseBody Gen.VxfwBodies.mouseExit) (e0 o) fuel s = some (s', false) ∧ s'.lastHits = [] := by
  rw [mouse_exit_body_eq_model]
  have h : ∀ (hits : List Hit) (s : St), (eNotifyLoop (e0 o) fuel .mouseLeave (fun _ => false) hits s).2 = false := by
    intro hits
    induction hits with
    | nil => intro s; rfl
    | cons h hits ih =>
      intro s
      simp only [eNotifyLoop, Bool.false_eq_true, ↓reduceIte, eNotify, e0_failsAt]
      exact ih _
  unfold eMouseExit
  simp only [h, Bool.false_eq_true, ↓reduceIte]
  exact ⟨_, rfl, rfl⟩

/-- Non-vacuity: widgets 0 and 1 capture, 2 consumes in the bubble phase, 3 is focused; the run of the
    regenerated body calls 0c 1c 3t 2b and returns nil; with a failing target call it stops there and
    returns the error. -/
example :
    let o : Oracle := ⟨fun w _ ph _ => if w = 2 ∧ ph = .bubble then .consume else .nil, fun w => w ≤ 1⟩
    let s0 : St := { focused := 3, root := 0, path := [0, 1, 2, 3] }
    ((runFocusHandleEvent (parseBody Lemmas.VxfwBodyExpected.focusHandleEvent) ⟨o, fun _ _ _ _ => false⟩ 3 s0 (.key 1) 5).map
        (fun r => (r.1.calls, r.2)) = some (4, false)) ∧
    ((runFocusHandleEvent (parseBody Lemmas.VxfwBodyExpected.focusHandleEvent) ⟨o, fun w _ ph _ => w = 3 ∧ ph = .target⟩ 3 s0 (.key 1) 5).map
        (fun r => (r.1.calls, r.2)) = some (3, true)) := by decide +kernel

/-! The non-vacuity `example`s of this file run the interpreters on the EXPECTED copies of the bodies (`Lemmas/VxfwBodyExpected.lean`), not on
    the regenerated ones: a source change must show up as a failing `*_as_expected` theorem, not as a kernel evaluation of unknown cost
    (a reversed batch loop in `handleCommand` once made the knot example use 40 GB). -/

/-! ## Round 4: `updatePath`, `mouseHandler.update`, `App.handleCommand` executed from their bodies; the `Run` loop over
    the executed bodies; hover balance for it -/

/-- The regenerated bodies of `focusHandler.updatePath`, `mouseHandler.update` and `App.handleCommand` are the ones the
    execution lemmas are about (fails when vxfw.go changes there). -/
theorem update_path_body_as_expected : Gen.VxfwBodies.updatePath = Lemmas.VxfwBodyExpected.updatePath := by decide +kernel
theorem mouse_update_body_as_expected : Gen.VxfwBodies.mouseUpdate = Lemmas.VxfwBodyExpected.mouseUpdate := by decide +kernel
theorem handle_command_body_as_expected : Gen.VxfwBodies.handleCommand = Lemmas.VxfwBodyExpected.handleCommand := by decide +kernel

/-- **`focusHandler.updatePath`, executed from its regenerated body, IS `eUpdatePath`**: `f.lastFrame = root`, then
    `if !f.findPath() { _ = f.focusWidget(app, f.root) }` — the path is recomputed from the new frame BEFORE the
    best-effort refocus, whose error is dropped.  Every oracle, failing-call set, state, frame; `fuel` = the nesting budget
    of the `handleCommand` calls inside the refocus, so this is `eUpdatePath e (fuel + 1)`. -/
theorem update_path_body_eq_model (e : EOracle) (fuel : Nat) (s : St) (t : STree) :
    runUpdatePath (parseBody Gen.VxfwBodies.updatePath) e fuel s t = some (eUpdatePath e (fuel + 1) s t) := by
  rw [update_path_body_as_expected, Lemmas.VxfwBodyX.parse_up]
  exact Lemmas.VxfwBodyX.up_exec e fuel s t

/-- **`mouseHandler.update`, executed from its regenerated body, IS `eMouseUpdate`** — the hit-list diff that produces the
    hover notifications: nothing without a mouse position; `hits` = `hitTest` of the surface if the point is inside it (else
    empty); the EXIT loop over the OLD hit list tells `MouseLeave` to every hit result that is not (as a whole struct: column,
    row, widget) among the new ones, in the old order — the inner loop's `continue outer_exit` skips the others —; then the
    ENTER loop over the NEW hits tells `MouseEnter` to every one not among the old ones (`m.lastHits`, read live: nothing in the
    loops changes it), in the new order; a failing handler's error is returned at once and the hit list is NOT replaced; else
    `m.lastHits = hits`.  State (trace, flags, hit list) and returned error, for every oracle, failing-call set, nesting
    budget, state, surface. -/
theorem mouse_update_body_eq_model (e : EOracle) (fuel : Nat) (s : St) (t : STree) :
    runMouseUpdate (parseBody Gen.VxfwBodies.mouseUpdate) e fuel s t = some (eMouseUpdate e fuel s t) := by
  rw [mouse_update_body_as_expected, Lemmas.VxfwBodyX.parse_mu]
  exact Lemmas.VxfwBodyX.mu_exec e fuel s t

/-- **`App.handleCommand`, executed from its regenerated body, IS `eHandleCommand`** — the command interpreter: the type
    switch over the dynamic type of the command (`nil` matches no arm), the two batch arms `for _, c := range cmd {
    a.handleCommand(c) }` with the RECURSIVE call running the body again (so the pre-order flattening `Cmd.flatten` of the
    model is what the recursion does, to any nesting depth), one flag assignment per flag command (two for `DebugCmd`),
    `a.fh.focusWidget(a, cmd)` with its error logged and dropped, one call into vaxis per `other` command.  For every
    oracle, failing-call set, state, command value; `fuel` = the nesting budget inside `focusWidget`. -/
theorem handle_command_body_eq_model (e : EOracle) (fuel : Nat) (s : St) (c : Cmd) :
    runHandleCommand (parseBody Gen.VxfwBodies.handleCommand) e fuel s c = some (eHandleCommand e (fuel + 1) s c) := by
  rw [handle_command_body_as_expected, Lemmas.VxfwBodyX.parse_hc]
  exact Lemmas.VxfwBodyX.hc_run e fuel s c

/-- Non-vacuity (`handleCommand`): a batch inside a `[]Command` inside a batch, with a focus command in the middle — the
    executed body sets the flags, moves the focus (FocusOut, `focused = 2`, FocusIn: 3 entries + 4 effects) and stops
    nowhere; `nil` elements are skipped. -/
example :
    let o : Oracle := ⟨fun _ _ _ _ => .nil, fun _ => false⟩
    (runHandleCommand (parseBody Lemmas.VxfwBodyExpected.handleCommand) ⟨o, fun _ _ _ _ => false⟩ 2 (St.init 0)
        (.batch [.redraw, .nil, .slice [.other 5, .batch [.focus 2, .quit]], .consume])).map
      (fun s => (s.redraw, s.quit, s.consume, s.focused, s.trace.length)) = some (true, true, true, 2, 7) := by decide +kernel

/-- Non-vacuity (`update`): the pointer moves from widget 1 (old hits 0,1 at other local coordinates) onto widget 3: the
    executed body sends MouseLeave to 0 and 1 (their hit results differ in the coordinates), then MouseEnter to 0 and 3, and
    stores the new hit list; with a failing MouseLeave handler it returns the error after the first call and keeps the old
    list. -/
example :
    let o : Oracle := ⟨fun _ _ _ _ => .nil, fun _ => false⟩
    let t : STree := .node 0 10 10 [(1, 1, 0, .node 1 2 2 []), (5, 5, 0, .node 3 3 3 [])]
    let s0 : St := { St.init 0 with mouse := some (6, 6), lastHits := [⟨1, 1, 0⟩, ⟨0, 0, 1⟩] }
    ((runMouseUpdate (parseBody Lemmas.VxfwBodyExpected.mouseUpdate) ⟨o, fun _ _ _ _ => false⟩ 2 s0 t).map
        (fun r => (r.1.calls, r.1.lastHits.map (·.w), r.2)) = some (4, [0, 3], false)) ∧
    ((runMouseUpdate (parseBody Lemmas.VxfwBodyExpected.mouseUpdate) ⟨o, fun _ ev _ _ => ev = .mouseLeave⟩ 2 s0 t).map
        (fun r => (r.1.calls, r.1.lastHits.map (·.w), r.2)) = some (1, [0, 1], true)) := by decide +kernel

/-- The regenerated bodies, parsed: what `bRun` executes. -/
def genBodies : Bodies :=
  ⟨parseBody Gen.VxfwBodies.focusHandleEvent, parseBody Gen.VxfwBodies.mouseHandleEvent, parseBody Gen.VxfwBodies.mouseUpdate,
   parseBody Gen.VxfwBodies.mouseExit, parseBody Gen.VxfwBodies.mouseEnter, parseBody Gen.VxfwBodies.updatePath⟩

/-- **The `Run` loop over the EXECUTED bodies is the model's `eRun`**: `bRun` = the event switch and the frame step of
    `App.Run` (transcribed) calling `focusHandler.handleEvent`, `mouseHandler.handleEvent`, `mouseHandler.update`, `mouseExit`,
    `mouseEnter`, `focusHandler.updatePath` as interpreted from their regenerated bodies.  Over every history (Init, key, custom,
    mouse, terminal FocusIn / FocusOut, resize, redraw events, frames with arbitrary new trees), every oracle and failing-call
    set, nesting budget `fuel + 1`: the final state (whole trace included) and the returned error are those of `eRun`.  So
    every history theorem of `Props/C15.lean` / `Props/C15Err.lean` speaks about the loop over the executed bodies.  (Inside
    the bodies `app.handleCommand`, `m.update`, `f.focusWidget` are the model functions, which `handle_command_body_eq_model`,
    `mouse_update_body_eq_model`, `focus_widget_body_eq_model` identify with their own executed bodies.) -/
theorem run_bodies_eq_model (e : EOracle) (fuel : Nat) (root : Id) (t0 : STree) (steps : List Step) :
    bRun genBodies e fuel root t0 steps = some (eRun e (fuel + 1) root t0 steps) := by
  have hB : genBodies = Lemmas.VxfwBodyRun.expB := by
    unfold genBodies Lemmas.VxfwBodyRun.expB
    rw [body_as_expected, mouse_body_as_expected, mouse_update_body_as_expected, hover_bodies_as_expected.1,
      hover_bodies_as_expected.2, update_path_body_as_expected, Lemmas.VxfwBody.parse_fhe, Lemmas.VxfwBody.parse_mhe,
      Lemmas.VxfwBodyX.parse_mu, Lemmas.VxfwBody.parse_mx, Lemmas.VxfwBody.parse_me, Lemmas.VxfwBodyX.parse_up]
  rw [hB]
  exact Lemmas.VxfwBodyRun.bRun_eq e fuel root t0 steps

/-- **Hover balance for the loop over the executed bodies** (`hover_alternates` restated): over every history of `bRun` with
    handlers that return no error — mouse events, frames that REMOVE or move hovered widgets (the frame's `update` diffs the old
    hit list against the new tree), terminal FocusIn (`mouseEnter(root)`) and FocusOut (`mouseExit`), focus changes in between —
    the MouseEnter / MouseLeave notifications in the trace alternate for every widget starting with MouseEnter, and the
    widgets currently entered are exactly the widgets of the hit list.  Precondition as for `hover_alternates`: every drawn tree
    shows a widget at most once under a point. -/
theorem hover_alternates_bodies (o : Oracle) (fuel : Nat) (root : Id) (t0 : STree) (steps : List Step)
    (h0 : HitsNodup t0) (hs : ∀ st ∈ steps, StepOk st) :
    ∃ s' ent, bRun genBodies (e0 o) fuel root t0 steps = some (s', false) ∧
      hoverRun [] s'.trace = some ent ∧ ∀ w, w ∈ ent ↔ w ∈ s'.lastHits.map Hit.w := by
  obtain ⟨ent, hr, hm⟩ := C15.hover_alternates o (fuel + 1) root t0 steps h0 hs
  refine ⟨_, ent, ?_, hr, hm⟩
  rw [run_bodies_eq_model, C15Err.no_error_agrees]

/-- **… and all closed when the terminal focus leaves, for the executed bodies**: after any such history, the FocusOut arm
    (`mh.mouse = nil; mh.mouseExit(app)` run from its body) leaves every widget's last hover notification a MouseLeave. -/
theorem hover_closed_bodies (o : Oracle) (fuel : Nat) (root : Id) (t0 : STree) (steps : List Step)
    (h0 : HitsNodup t0) (hs : ∀ st ∈ steps, StepOk st) :
    ∃ s1 s', bRun genBodies (e0 o) fuel root t0 steps = some (s1, false) ∧
      bRunEvent genBodies (e0 o) fuel s1 .focusOut = some (s', false) ∧ hoverRun [] s'.trace = some [] := by
  have hc := C15.hover_closed_on_focus_out o (fuel + 1) root t0 steps h0 hs
  refine ⟨runSteps o (fuel + 1) (runInit o (fuel + 1) root t0) steps, _, ?_, ?_, hc⟩
  · rw [run_bodies_eq_model, C15Err.no_error_agrees]
  · show runMouseExit (parseBody Gen.VxfwBodies.mouseExit) (e0 o) (fuel + 1) _ = _
    rw [mouse_exit_body_eq_model]
    exact congrArg some (Lemmas.Vxfw.eRunEvent_noerr o (fuel + 1) _ .focusOut)

/-! ## Round 4: the tree walks `hitTest`, `containsPoint`, `childHasFocus` executed from their bodies -/

/-- The regenerated bodies of `hitTest`, `SubSurface.containsPoint`, `focusHandler.childHasFocus` are the ones the execution
    lemmas are about. -/
theorem tree_bodies_as_expected : Gen.VxfwBodies.hitTest = Lemmas.VxfwBodyExpected.hitTest ∧
    Gen.VxfwBodies.containsPoint = Lemmas.VxfwBodyExpected.containsPoint ∧
    Gen.VxfwBodies.childHasFocus = Lemmas.VxfwBodyExpected.childHasFocus := by decide +kernel

/-- **`SubSurface.containsPoint`, executed from its regenerated body** (one boolean expression over the receiver's origin and
    size and the two arguments) **is the model's `containsPoint`**, for every sub-surface and point. -/
theorem contains_point_body_eq_model (k : Kid) (col row : Int) :
    VxfwInterpTree.runContainsPoint Gen.VxfwBodies.containsPoint k col row =
      some (containsPoint k.1 k.2.1 k.2.2.2.w k.2.2.2.h col row) := by
  rw [tree_bodies_as_expected.2.1]
  exact Lemmas.VxfwBodyTree.cp_run k col row

/-- **`hitTest`, executed from its regenerated body, IS the model's `hitTest`** (appended to the `hits` argument): the hit
    result `{col, row, s.Widget}` first, then for every child IN SLICE ORDER whose sub-surface contains the point (the executed
    `containsPoint` body) the hits of the child's surface at the local coordinates `col - uint16(origin.Col)`,
    `row - uint16(origin.Row)` computed in `uint16` (wrap-around at 65536 — also for negative origins), recursively to any depth.
    Every surface tree, point and accumulated list.  So `hit_list_is_under` / `hit_chain` / `mouse_routing` (deepest widget
    containing the point = last hit = target) speak about the executed hit test. -/
theorem hit_test_body_eq_model (t : STree) (hits : List Hit) (col row : Int) :
    VxfwInterpTree.runHitTest (parseBody Gen.VxfwBodies.hitTest) Gen.VxfwBodies.containsPoint t hits col row =
      some (hits ++ hitTest t col row) := by
  rw [tree_bodies_as_expected.1, tree_bodies_as_expected.2.1, Lemmas.VxfwBodyTree.parse_ht]
  exact Lemmas.VxfwBodyTree.ht_run t hits col row

/-- **`focusHandler.childHasFocus`, executed from its regenerated body, IS the model's `childHasFocus`**: it returns true iff
    the focused widget is drawn in the surface tree, and then has appended to `f.path` the chain from the FIRST surface (depth
    first, children in slice order) of the focused widget up to the surface it was called on (target first — `findPath`
    reverses it); it appends nothing when it returns false.  Every tree, focused widget and initial path. -/
theorem child_has_focus_body_eq_model (f : Id) (path : List Id) (t : STree) :
    VxfwInterpTree.runChildHasFocus (parseBody Gen.VxfwBodies.childHasFocus) f path t =
      some (path ++ (childHasFocus f t).getD [], (childHasFocus f t).isSome) := by
  rw [tree_bodies_as_expected.2.2, Lemmas.VxfwBodyTree.parse_ch]
  exact Lemmas.VxfwBodyTree.ch_run f path t

/-- Non-vacuity: a child at a NEGATIVE origin (-3,-3) containing the point (1,1): the executed body computes the local
    coordinates in `uint16` (1 - 65533 wraps to 4); a grandchild; a child not containing the point is skipped; and the focus
    path of widget 2 (drawn inside 1 inside 0), appended target first. -/
example :
    let t : STree := .node 0 10 10 [(1, 1, 0, .node 1 5 5 [(0, 0, 0, .node 2 2 2 [])]), (5, 5, 1, .node 3 3 3 []), (-3, -3, 0, .node 4 5 5 [])]
    (VxfwInterpTree.runHitTest (parseBody Lemmas.VxfwBodyExpected.hitTest) Lemmas.VxfwBodyExpected.containsPoint t [] 1 1).map
        (·.map (fun h => (h.col, h.row, h.w))) = some [(1, 1, 0), (0, 0, 1), (0, 0, 2), (4, 4, 4)] ∧
    VxfwInterpTree.runChildHasFocus (parseBody Lemmas.VxfwBodyExpected.childHasFocus) 2 [] t = some ([2, 1, 0], true) ∧
    VxfwInterpTree.runChildHasFocus (parseBody Lemmas.VxfwBodyExpected.childHasFocus) 9 [7] t = some ([7], false) := by decide +kernel

/-- The regenerated body of `focusHandler.findPath` is the one the execution lemma is about. -/
theorem find_path_body_as_expected : Gen.VxfwBodies.findPath = Lemmas.VxfwBodyExpected.findPath := by decide +kernel

/-- **`focusHandler.findPath`, executed from its regenerated body (calling the executed body of `childHasFocus`), IS the model's
    `findPath`**: `f.path = []`, `ok := f.childHasFocus(f.lastFrame)` (target-first chain appended), the root widget appended if the
    root surface belongs to another widget or nothing was found, then the IN-PLACE reversal loop
    `for i := 0; i < len/2; i++ { path[i], path[len-1-i] = path[len-1-i], path[i] }` — proved to be `List.reverse` for every length by
    the invariant "the outer `i` positions at both ends hold the reversed list", with checked index expressions (never out of range) —
    and `return ok`.  For every state (focused widget, root widget, last frame incl. the zero `Surface` before the first frame): the new
    `f.path` and the returned bool are those of `Model.Vxfw.findPath`, the function `path_correct` / `path_is_drawn_chain` /
    `key_routing_drawn` are about. -/
theorem find_path_body_eq_model (s : St) :
    VxfwInterpTree.runFindPath (parseBody Gen.VxfwBodies.findPath) (parseBody Gen.VxfwBodies.childHasFocus) s.focused s.root s.fhFrame =
      some ((findPath s).1.path, (findPath s).2) := by
  rw [find_path_body_as_expected, tree_bodies_as_expected.2.2, Lemmas.VxfwBodyTree.parse_fp, Lemmas.VxfwBodyTree.parse_ch]
  exact Lemmas.VxfwBodyTree.fp_exec s

/-- Non-vacuity: widget 5 focused, drawn at depth 3 under a root surface owned by widget 0 while the root widget is 7: the executed
    `findPath` appends 7 and reverses five elements in place; an undrawn focus gives `[root]` and false. -/
example :
    let t : STree := .node 0 10 10 [(1, 1, 0, .node 1 5 5 [(0, 0, 0, .node 2 2 2 [(0, 0, 0, .node 5 1 1 [])])]), (5, 5, 1, .node 3 3 3 [])]
    VxfwInterpTree.runFindPath (parseBody Lemmas.VxfwBodyExpected.findPath) (parseBody Lemmas.VxfwBodyExpected.childHasFocus) 5 7 (some t) = some ([7, 0, 1, 2, 5], true) ∧
    VxfwInterpTree.runFindPath (parseBody Lemmas.VxfwBodyExpected.findPath) (parseBody Lemmas.VxfwBodyExpected.childHasFocus) 9 0 (some t) = some ([0], false) ∧
    VxfwInterpTree.runFindPath (parseBody Lemmas.VxfwBodyExpected.findPath) (parseBody Lemmas.VxfwBodyExpected.childHasFocus) 9 0 none = some ([0], false) := by decide +kernel

/-- **C15 over the executed bodies, in one statement.**  For every widget behaviour `o` whose refocus chains from focus
    notifications terminate (`NotifRanked`, ranks ≤ `R`), every history of the Run loop over the EXECUTED bodies (`bRun`: Init,
    key / custom / mouse events, terminal FocusIn / FocusOut, resize, redraw, frames with arbitrary trees each showing a widget at
    most once under a point), any nesting budget `≥ 3R+3` (+1 inside): the loop returns no error and in the state it reaches
    * the budget was never exhausted,
    * `f.path` is the drawn chain of the widget focused NOW (so the next key event is routed over it),
    * all FocusOut / FocusIn notifications of the history pair up, ending with the focused widget,
    * MouseEnter / MouseLeave alternate for every widget and the entered widgets are those of the hit list,
    * every command returned by any handler call of the history took effect exactly once,
    * and the next key / custom event, dispatched by the EXECUTED body of `focusHandler.handleEvent`, is offered capture → target →
      bubble over that drawn chain, stopping at the first consumed offer.
    (Each clause is a theorem of `Props/C15.lean` transported along `run_bodies_eq_model`.) -/
theorem c15_over_executed_bodies (o : Oracle) (rk : Id → Nat) (R : Nat) (hR : ∀ w, rk w ≤ R) (hrk : NotifRanked o rk)
    (fuel : Nat) (hf : 3 * R + 3 ≤ fuel) (root : Id) (t0 : STree) (steps : List Step)
    (h0 : HitsNodup t0) (hs : ∀ st ∈ steps, StepOk st) :
    ∃ s', bRun genBodies (e0 o) fuel root t0 steps = some (s', false) ∧
      s'.stuck = false ∧
      s'.path = drawnPath s' ∧
      focusRun root false s'.trace = some s'.focused ∧
      (∃ ent, hoverRun [] s'.trace = some ent ∧ ∀ w, w ∈ ent ↔ w ∈ s'.lastHits.map Hit.w) ∧
      (effectsIn s'.trace).Perm (owed o.h 0 s'.trace) ∧
      (∀ ev, Routable ev → ∃ s'' tr,
        runFocusHandleEvent (parseBody Gen.VxfwBodies.focusHandleEvent) (e0 o) (fuel + 1) s' ev (s'.path.length + 1) = some (s'', false) ∧
        s''.trace = s'.trace ++ tr ∧ conforms ev s'.focused (planOf o.captures (drawnPath s') .focusTgt) tr = true) := by
  obtain ⟨hst, hperm⟩ := C15.commands_once_history_ranked o rk R hR hrk (fuel + 1) (by omega) root t0 steps
  have hpath := C15.path_is_drawn_chain o (fuel + 1) root t0 steps
  refine ⟨runSteps o (fuel + 1) (runInit o (fuel + 1) root t0) steps, ?_, hst, hpath,
    C15.focus_change_once_history o (fuel + 1) root t0 steps, C15.hover_alternates o (fuel + 1) root t0 steps h0 hs, hperm, ?_⟩
  · rw [run_bodies_eq_model, C15Err.no_error_agrees]
  · intro ev hev
    obtain ⟨s'', tr, h1, h2, h3⟩ := key_routing_body o (fuel + 1) (runSteps o (fuel + 1) (runInit o (fuel + 1) root t0) steps) ev hev
    rw [hpath] at h3
    exact ⟨s'', tr, h1, h2, h3⟩

/-- Non-vacuity of `c15_over_executed_bodies`: the chain oracle of `Props/C15.lean` (widget 1's FocusIn handler focuses widget 2)
    with rank 1 for widget 1, `R = 1`, budget 6, a tree drawing 0, 1, 2 once each, and a history with a key (focus 1 → 2), a frame,
    a mouse event and a terminal FocusOut: all hypotheses hold, so all seven clauses do. -/
example :
    let t : STree := .node 0 9 9 [(0, 0, 0, .node 1 2 2 []), (3, 3, 0, .node 2 2 2 [])]
    ∃ s', bRun Lemmas.VxfwBodyRun.expB (e0 C15.chainOracle) 6 0 t [.ev (.key 1), .frame t t, .ev (.mouse 1 1), .ev .focusOut] = some (s', false) ∧
      s'.stuck = false ∧ s'.path = drawnPath s' ∧ (effectsIn s'.trace).Perm (owed C15.chainOracle.h 0 s'.trace) := by
  intro t
  have hn : HitsNodup t := hitsNodup_of_ids t (by decide)
  have hn' : HitsNodup (sortTree t) := hitsNodup_of_ids _ (by decide)
  obtain ⟨s', h1, h2, h3, _, _, h6, _⟩ := c15_over_executed_bodies C15.chainOracle (fun w => if w = 1 then 1 else 0) 1
    (by intro w; by_cases h : w = 1 <;> simp [h]) C15.chainOracle_ranked 6 (by decide) 0 t
    [.ev (.key 1), .frame t t, .ev (.mouse 1 1), .ev .focusOut] hn
    (by
      intro st hst
      simp only [List.mem_cons, List.mem_nil_iff, or_false] at hst
      rcases hst with rfl | rfl | rfl | rfl
      · trivial
      · exact ⟨hn, hn', hn'⟩
      · trivial
      · trivial)
  exact ⟨s', h1, h2, h3, h6⟩

/-! ## Round 4: callers executed WITH their callees executed -/

/-- The regenerated bodies of the callees, parsed. -/
def genCallees : Callees :=
  ⟨parseBody Gen.VxfwBodies.hitTest, Gen.VxfwBodies.containsPoint, parseBody Gen.VxfwBodies.findPath,
   parseBody Gen.VxfwBodies.childHasFocus, parseBody Gen.VxfwBodies.focusWidget⟩

theorem genCallees_eq : genCallees = Lemmas.VxfwBodyAll.expC := by
  unfold genCallees Lemmas.VxfwBodyAll.expC
  rw [tree_bodies_as_expected.1, tree_bodies_as_expected.2.1, tree_bodies_as_expected.2.2, find_path_body_as_expected,
    focus_widget_body_as_expected, Lemmas.VxfwBodyTree.parse_ht, Lemmas.VxfwBodyTree.parse_fp, Lemmas.VxfwBodyTree.parse_ch,
    Lemmas.VxfwBody.parse_fw]

/-- **`mouseHandler.update` executed from its body, with `hitTest` and `containsPoint` executed from THEIR bodies inside it**, is
    `eMouseUpdate`: the whole hover diff — hit testing with its `uint16` arithmetic included — runs from regenerated syntax. -/
theorem mouse_update_bodies_eq_model (e : EOracle) (fuel : Nat) (s : St) (t : STree) :
    runMouseUpdateAll (parseBody Gen.VxfwBodies.mouseUpdate) genCallees e fuel s t = some (eMouseUpdate e fuel s t) := by
  rw [mouse_update_body_as_expected, Lemmas.VxfwBodyX.parse_mu, genCallees_eq]
  exact Lemmas.VxfwBodyAll.mu_all e fuel s t

/-- **`focusHandler.updatePath` executed from its body, with `findPath` (→ `childHasFocus`) and the best-effort `focusWidget`
    executed from THEIR bodies inside it**, is `eUpdatePath`: the path recomputation after a frame runs from regenerated syntax down
    to the handler calls (inside the `focusWidget` body `app.handleCommand` is `eHandleCommand e fuel`, see
    `handle_command_bodies_eq_model`). -/
theorem update_path_bodies_eq_model (e : EOracle) (fuel : Nat) (s : St) (t : STree) :
    runUpdatePathAll (parseBody Gen.VxfwBodies.updatePath) genCallees e fuel s t = some (eUpdatePath e (fuel + 1) s t) := by
  rw [update_path_body_as_expected, Lemmas.VxfwBodyX.parse_up, genCallees_eq]
  exact Lemmas.VxfwBodyAll.up_all e fuel s t

/-- **`App.handleCommand` executed from its body, with `a.fh.focusWidget(a, cmd)` executed from ITS body inside it**, is
    `eHandleCommand e (fuel + 1)`; the two `app.handleCommand(cmd)` calls inside that `focusWidget` body are `eHandleCommand e fuel`,
    which by this very theorem at `fuel - 1` is again the executed body — so for every budget the model's command interpreter IS
    the unrolling of the two executed bodies calling each other, down to the budget. -/
theorem handle_command_bodies_eq_model (e : EOracle) (fuel : Nat) (s : St) (c : Cmd) :
    runHandleCommandAll (parseBody Gen.VxfwBodies.handleCommand) genCallees e fuel s c = some (eHandleCommand e (fuel + 1) s c) := by
  rw [handle_command_body_as_expected, Lemmas.VxfwBodyX.parse_hc, genCallees_eq]
  exact Lemmas.VxfwBodyAll.hc_all e fuel s c

/-- Non-vacuity: `handleCommand(FocusWidgetCmd(1))` through both executed bodies with the chain oracle (1's FocusIn handler
    focuses 2 and asks for a redraw): the focus ends on 2, redraw is set, 4 handler calls (FocusOut 0, FocusIn 1, FocusOut 1,
    FocusIn 2), budget not exhausted. -/
example :
    (runHandleCommandAll (parseBody Lemmas.VxfwBodyExpected.handleCommand) Lemmas.VxfwBodyAll.expC (e0 C15.chainOracle) 3 (St.init 0) (.focus 1)).map
      (fun s => (s.focused, s.redraw, s.calls, s.stuck)) = some (2, true, 4, false) := by decide +kernel

/-! ## The order of the hover notifications of one `update`, explicitly -/

/-- **The hit-list diff, explicitly** (handlers that answer nil, so that nothing but the notifications is in the trace): the
    executed body of `mouseHandler.update` appends to the trace FIRST one `MouseLeave` call for every hit result of the OLD list
    that is not (as a struct) in the new one, in the old order, THEN one `MouseEnter` call for every hit result of the NEW list
    (`hitsAt` of the surface at the pointer) that is not in the old one, in the new order — nothing else —, returns nil and
    stores the new list.  (For arbitrary answers the same two loops run with each answer's command handled in between:
    `mouse_update_body_eq_model`.) -/
theorem mouse_update_body_explicit (o : Oracle) (hq : ∀ w ev ph k, o.h w ev ph k = .nil) (fuel : Nat) (s : St) (t : STree)
    (c r : Int) (hm : s.mouse = some (c, r)) :
    ∃ s', runMouseUpdate (parseBody Gen.VxfwBodies.mouseUpdate) (e0 o) (fuel + 1) s t = some (s', false) ∧
      s'.trace = s.trace ++
        (s.lastHits.filter (fun h => !(hitsAt t c r).contains h)).map (fun h => Entry.call h.w .mouseLeave .target) ++
        ((hitsAt t c r).filter (fun h => !s.lastHits.contains h)).map (fun h => Entry.call h.w .mouseEnter .target) ∧
      s'.lastHits = hitsAt t c r := by
  refine ⟨mouseUpdate o (fuel + 1) s t, ?_, ?_, ?_⟩
  · rw [mouse_update_body_eq_model, Lemmas.Vxfw.eMouseUpdate_noerr]
  · simp only [mouseUpdate, hm]
    obtain ⟨h1, h1'⟩ := Lemmas.VxfwBodyRun.foldl_notify_quiet o hq fuel .mouseLeave (fun h => (hitsAt t c r).contains h) s.lastHits s
    obtain ⟨h2, _⟩ := Lemmas.VxfwBodyRun.foldl_notify_quiet o hq fuel .mouseEnter (fun h => s.lastHits.contains h) (hitsAt t c r)
      (s.lastHits.foldl (fun s h1 => if (hitsAt t c r).contains h1 then s else notify o (fuel + 1) s h1.w .mouseLeave) s)
    rw [h2, h1]
  · simp [mouseUpdate, hm]

/-- **An error from a hover handler keeps the hit list**: when the executed `mouseHandler.update` returns an error (a MouseLeave
    or MouseEnter handler failed), `m.lastHits` is what it was — the new list is NOT stored, so the widgets already told MouseLeave
    are still recorded as entered when `Run` returns the error. -/
theorem mouse_update_body_error_keeps_hits (e : EOracle) (fuel : Nat) (s : St) (t : STree) (s' : St)
    (h : runMouseUpdate (parseBody Gen.VxfwBodies.mouseUpdate) e fuel s t = some (s', true)) : s'.lastHits = s.lastHits := by
  rw [mouse_update_body_eq_model] at h
  have h1 : (eMouseUpdate e fuel s t).2 = true := by
    have := congrArg (fun x => x.map (·.2)) h
    simpa using this
  have h2 : (eMouseUpdate e fuel s t).1 = s' := by
    have := congrArg (fun x => x.map (·.1)) h
    simpa using this
  rw [← h2]
  exact Lemmas.VxfwBodyRun.eMouseUpdate_err_hits e fuel s t h1

/-- **The `Run` loop with the frame step interpreted down to the handler calls**: `bRunAll` = `bRun` whose frame step runs
    `mh.update` with `hitTest` / `containsPoint` from their bodies and `a.fh.updatePath` with `findPath` → `childHasFocus` and the
    best-effort `focusWidget` from theirs.  It too is the model's `eRun`, over every history, oracle, failing-call set … -/
theorem run_all_bodies_eq_model (e : EOracle) (fuel : Nat) (root : Id) (t0 : STree) (steps : List Step) :
    bRunAll genBodies genCallees e fuel root t0 steps = some (eRun e (fuel + 1) root t0 steps) := by
  have hB : genBodies = Lemmas.VxfwBodyRun.expB := by
    unfold genBodies Lemmas.VxfwBodyRun.expB
    rw [body_as_expected, mouse_body_as_expected, mouse_update_body_as_expected, hover_bodies_as_expected.1,
      hover_bodies_as_expected.2, update_path_body_as_expected, Lemmas.VxfwBody.parse_fhe, Lemmas.VxfwBody.parse_mhe,
      Lemmas.VxfwBodyX.parse_mu, Lemmas.VxfwBody.parse_mx, Lemmas.VxfwBody.parse_me, Lemmas.VxfwBodyX.parse_up]
  rw [hB, genCallees_eq]
  exact Lemmas.VxfwBodyAll.bRunAll_eq e fuel root t0 steps

/-- … hence equal to the loop `c15_over_executed_bodies` speaks about: every clause proved there holds of the deeper loop. -/
theorem run_all_bodies_eq_run_bodies (e : EOracle) (fuel : Nat) (root : Id) (t0 : STree) (steps : List Step) :
    bRunAll genBodies genCallees e fuel root t0 steps = bRun genBodies e fuel root t0 steps := by
  rw [run_all_bodies_eq_model, run_bodies_eq_model]

/-! ## Round 4: the two arms of the `select` in `App.Run` executed from their statement lists -/

/-- The regenerated statement lists of the two arms are the ones the execution lemmas are about. -/
theorem run_blocks_as_expected : Gen.VxfwBodies.runEventBlock = Lemmas.VxfwBodyExpected.runEventBlock ∧
    Gen.VxfwBodies.runFrameBlock = Lemmas.VxfwBodyExpected.runFrameBlock := by decide +kernel

theorem genBodies_eq : genBodies = Lemmas.VxfwBodyRun.expB := by
  unfold genBodies Lemmas.VxfwBodyRun.expB
  rw [body_as_expected, mouse_body_as_expected, mouse_update_body_as_expected, hover_bodies_as_expected.1,
    hover_bodies_as_expected.2, update_path_body_as_expected, Lemmas.VxfwBody.parse_fhe, Lemmas.VxfwBody.parse_mhe,
    Lemmas.VxfwBodyX.parse_mu, Lemmas.VxfwBody.parse_mx, Lemmas.VxfwBody.parse_me, Lemmas.VxfwBodyX.parse_up]

/-- **The event arm of `Run`, executed from its regenerated statement list, IS `eRunEvent` followed by the `shouldQuit` test**:
    the type switch over the event (Resize / Redraw set `redraw`; Mouse → `mh.handleEvent`; FocusIn → `mh.mouseEnter(a, w)`;
    FocusOut → `mh.mouse = nil` then `mh.mouseExit`; Key and every other event (`default`) → `a.fh.handleEvent`), every callee run
    from ITS body, `if err != nil { return err }` in each arm, then `if a.shouldQuit { return nil }`.  The arm ends with
    `ret true` iff the model returns the error, `ret false` iff `shouldQuit` is set, else the loop goes on.  Every oracle,
    failing-call set, state, event. -/
theorem run_event_body_eq_model (e : EOracle) (fuel : Nat) (s : St) (ev : RunEv) :
    runEventBlock (parseBody Gen.VxfwBodies.runEventBlock) (rCallees genBodies genCallees e fuel) s ev =
      some ((eRunEvent e (fuel + 1) s ev).1, Lemmas.VxfwBodySel.evCtl (eRunEvent e (fuel + 1) s ev)) := by
  rw [run_blocks_as_expected.1, Lemmas.VxfwBodySel.parse_re, genBodies_eq, genCallees_eq]
  exact Lemmas.VxfwBodySel.re_exec e (fuel + 1) _ (Lemmas.VxfwBodySel.good_rcallees e fuel) s ev

/-- **The frame arm of `Run`, executed from its regenerated statement list, IS `eRunFrame`**: `if !a.redraw { continue }`,
    `a.redraw = false`, layout (the widget's `Draw` is the oracle `t1`), `mh.update(a, s)` with its error returned, a second
    layout (`t2`) iff a hover handler asked for a redraw, `s.render` (the children sorted in place), `a.refresh` / `a.debug` reset,
    `a.fh.updatePath(a, s)` on the SORTED tree, and last `mh.lastFrame = s` — callees run from their bodies with THEIR callees run
    from theirs.  State and returned error for every oracle, failing-call set, state and pair of trees; the arm ends with `cont` iff
    nothing was to redraw. -/
theorem run_frame_body_eq_model (e : EOracle) (fuel : Nat) (s : St) (t1 t2 : STree) :
    runFrameBlock (parseBody Gen.VxfwBodies.runFrameBlock) (rCallees genBodies genCallees e fuel) s t1 t2 =
      some ((eRunFrame e (fuel + 1) s t1 t2).1, Lemmas.VxfwBodySel.frCtl s (eRunFrame e (fuel + 1) s t1 t2)) := by
  rw [run_blocks_as_expected.2, Lemmas.VxfwBodySel.parse_rf, genBodies_eq, genCallees_eq]
  exact Lemmas.VxfwBodySel.rf_exec e (fuel + 1) _ (Lemmas.VxfwBodySel.good_rcallees e fuel) s t1 t2

/-- **The `Run` loop over the EXECUTED arms** (`rRun`: the transcribed prologue — focus handler init, Init dispatch by the executed
    `handleEvent` body, first layout —, then for every step the executed event arm or the executed frame arm) **is `eRun`**, over
    every history, oracle and failing-call set: no transcribed dispatcher code is left in the loop.  Hence equal to `bRun` /
    `bRunAll`, and every clause of `c15_over_executed_bodies` holds of it. -/
theorem run_select_bodies_eq_model (e : EOracle) (fuel : Nat) (root : Id) (t0 : STree) (steps : List Step) :
    rRun (parseBody Gen.VxfwBodies.runEventBlock) (parseBody Gen.VxfwBodies.runFrameBlock) genBodies genCallees e fuel root t0 steps =
      some (eRun e (fuel + 1) root t0 steps) := by
  rw [run_blocks_as_expected.1, run_blocks_as_expected.2, Lemmas.VxfwBodySel.parse_re, Lemmas.VxfwBodySel.parse_rf, genBodies_eq,
    genCallees_eq]
  exact Lemmas.VxfwBodySel.rRun_eq e fuel root t0 steps

/-- Non-vacuity: a key whose handler quits ends the executed event arm with `return nil`; a frame with nothing to redraw is a
    `continue`; a frame after a Resize draws once and stores the sorted tree. -/
example :
    let o : Oracle := ⟨fun _ ev _ _ => if ev = .key 1 then .quit else .nil, fun _ => false⟩
    let t : STree := .node 0 9 9 [(0, 0, 1, .node 1 2 2 []), (3, 3, 0, .node 2 2 2 [])]
    let C := rCallees Lemmas.VxfwBodyRun.expB Lemmas.VxfwBodyAll.expC (e0 o) 2
    ((runEventBlock (parseBody Lemmas.VxfwBodyExpected.runEventBlock) C (St.init 0) (.key 1)).map (fun r => (r.1.quit, r.2)) = some (true, .ret false)) ∧
    ((runFrameBlock (parseBody Lemmas.VxfwBodyExpected.runFrameBlock) C (St.init 0) t t).map (·.2) = some .cont) ∧
    ((runFrameBlock (parseBody Lemmas.VxfwBodyExpected.runFrameBlock) C { St.init 0 with redraw := true } t t).map
        (fun r => (r.1.redraw, r.1.lastFrame.ch.map (·.2.2.2.id), r.2)) = some (false, [2, 1], .norm)) := by decide +kernel

/-! ## Round 4: the knot `handleCommand ↔ focusWidget` and the Run loop with no model function of the dispatch inside -/

/-- All the regenerated bodies, parsed. -/
def genAll : AllBodies :=
  ⟨genBodies, genCallees, parseBody Gen.VxfwBodies.handleCommand, parseBody Gen.VxfwBodies.runEventBlock,
   parseBody Gen.VxfwBodies.runFrameBlock⟩

theorem genAll_eq : genAll = Lemmas.VxfwBodyKnot.expA := by
  unfold genAll Lemmas.VxfwBodyKnot.expA
  rw [genBodies_eq, genCallees_eq, handle_command_body_as_expected, run_blocks_as_expected.1, run_blocks_as_expected.2,
    Lemmas.VxfwBodyX.parse_hc, Lemmas.VxfwBodySel.parse_re, Lemmas.VxfwBodySel.parse_rf]

/-- **The knot is the model's command interpreter.**  `kHandleCommand` = the body of `App.handleCommand` executed with
    `a.fh.focusWidget(a, cmd)` = the body of `focusWidget` executed with `app.handleCommand(cmd)` = the knot again one budget lower
    (and `f.findPath()` = the body of `findPath` → `childHasFocus`), down to budget 0 where the model gives up (`stuck`; in Go only
    the stack bounds the recursion — F115c).  For EVERY budget, oracle, failing-call set, state and command value it computes
    `eHandleCommand` — no model function inside. -/
theorem knot_eq_model (e : EOracle) (n : Nat) (s : St) (c : Cmd) :
    kHandleCommand genAll e n s c = some (eHandleCommand e n s c) := by
  rw [genAll_eq]
  exact Lemmas.VxfwBodyKnot.knot_hc e n s c

/-- … and the `focusWidget` half of the knot is `eFocusWidget`. -/
theorem knot_focus_widget_eq_model (e : EOracle) (n : Nat) (s : St) (w : Id) :
    kFocusWidget genAll e n s w = some (eFocusWidget e (n + 1) s w) := by
  rw [genAll_eq]
  exact Lemmas.VxfwBodyKnot.knot_fw e n s w

/-- **`App.Run` with the knot inside is `eRun`.**  `kRun`: the prologue (transcribed: focus handler init, `Init{}` dispatched,
    first layout), then the loop over the two EXECUTED arms of the `select`, which call the EXECUTED bodies of
    `focusHandler.handleEvent`, `mouseHandler.handleEvent`, `mouseEnter`, `mouseExit`, `update`, `updatePath`, whose callees
    `app.handleCommand` (= the knot), `m.update`, `f.findPath`, `f.focusWidget`, `hitTest`, `containsPoint`, `childHasFocus` are
    executed bodies too.  Not executed syntax: `select` / channel / timer, the three statements of the prologue, the widgets' `Draw`
    (oracle trees) and `sort.Slice` (`sortTree`) — no model function of the dispatch is left (the `app.handleCommand` calls of the
    hover notifications inside `mouseHandler.update` are the knot too).  Every history, oracle, failing-call set; final state
    (whole trace) and returned error. -/
theorem run_knot_eq_model (e : EOracle) (fuel : Nat) (root : Id) (t0 : STree) (steps : List Step) :
    kRun genAll e fuel root t0 steps = some (eRun e (fuel + 1) root t0 steps) := by
  rw [genAll_eq]
  exact Lemmas.VxfwBodyKnot.kRun_eq e fuel root t0 steps

/-- Non-vacuity: the chain oracle through the knot — `focus 1` at budget 3: widget 1's FocusIn handler focuses 2 (nested
    `handleCommand` at budget 2 → `focusWidget` → …); at budget 1 the nested command finds the budget exhausted. -/
example :
    (kHandleCommand Lemmas.VxfwBodyKnot.expA (e0 C15.chainOracle) 3 (St.init 0) (.focus 1)).map (fun s => (s.focused, s.calls, s.stuck)) = some (2, 4, false) ∧
    (kHandleCommand Lemmas.VxfwBodyKnot.expA (e0 C15.chainOracle) 1 (St.init 0) (.focus 1)).map (fun s => (s.focused, s.stuck)) = some (1, true) := by
  decide +kernel

/-- **Hover under failing handlers, for the loop with no model function inside**: whatever calls fail, `kRun` ends in a state whose
    trace has alternating MouseEnter / MouseLeave notifications per widget, and if it returns no error the entered widgets are
    exactly those of the hit list (`C15Err.hover_after_error` transported along `run_knot_eq_model`). -/
theorem hover_after_error_bodies (e : EOracle) (fuel : Nat) (root : Id) (t0 : STree) (steps : List Step)
    (h0 : HitsNodup t0) (hs : ∀ st ∈ steps, StepOk st) :
    ∃ s' b, kRun genAll e fuel root t0 steps = some (s', b) ∧ (hoverRun [] s'.trace).isSome = true ∧
      (b = false → ∃ ent, hoverRun [] s'.trace = some ent ∧ ∀ w, w ∈ ent ↔ w ∈ s'.lastHits.map Hit.w) := by
  obtain ⟨h1, h2⟩ := C15Err.hover_after_error e (fuel + 1) root t0 steps h0 hs
  exact ⟨_, _, run_knot_eq_model e fuel root t0 steps, h1, h2⟩

end VaxisModel.Props.C15Body
