import VaxisModel.Lemmas.VxfwErr
import VaxisModel.Lemmas.VxfwHover
import VaxisModel.Lemmas.VxfwHoverErr
import VaxisModel.Lemmas.VxfwFocusErr
import VaxisModel.Lemmas.VxfwOnceErr

/-!
# C15 — handlers that return an error

What `App.Run` does when a `HandleEvent` / `CaptureEvent` call returns a non-nil `error`
(`Model/VxfwErr.lean`, tied to the code by the correspondence streams: scripted answers may be
errors). For every widget behaviour, every choice of failing calls, state and history.
-/
namespace VaxisModel.Props.C15Err
open VaxisModel.Model.Vxfw VaxisModel.Spec.Routing VaxisModel.Lemmas.Vxfw

/-- If no call fails, the error-aware Run loop is the Run loop of `Model/Vxfw.lean` and returns no
error: every theorem of `Props/C15.lean` speaks about it. -/
theorem no_error_agrees (o : Oracle) (fuel : Nat) (root : Id) (t0 : STree) (steps : List Step) :
    eRun (e0 o) fuel root t0 steps = (runSteps o fuel (runInit o fuel root t0) steps, false) :=
  eRun_noerr o fuel root t0 steps

/-- … and so are the command interpreter and the two dispatchers. -/
theorem no_error_agrees_handlers (o : Oracle) (fuel : Nat) (s : St) :
    (∀ c, eHandleCommand (e0 o) fuel s c = handleCommand o fuel s c) ∧
    (∀ ev, eHandleEvent (e0 o) fuel s ev = (handleEvent o fuel s ev, false)) ∧
    (∀ c r, eMouseHandleEvent (e0 o) fuel s c r = (mouseHandleEvent o fuel s c r, false)) :=
  ⟨fun c => by rw [eHandleCommand_noerr], fun ev => eDispatch_noerr o fuel _ _ ev s,
   fun c r => eMouseHandleEvent_noerr o fuel s c r⟩

/-- **An offer that fails** (capture, target or bubble phase; key or mouse event): the handler
was called, its command is not executed, nothing else changes. -/
theorem failing_offer (e : EOracle) (fuel : Nat) (s : St) (w : Id) (ev : Ev) (ph : Phase)
    (h : e.failsAt s w ev ph = true) :
    eOffer e fuel s w ev ph = ((call e.o s w ev ph).1, .fail) := by
  simp [eOffer, h]

/-- **Run returns the error at once.** When `App.Run` returns a handler's error — from the Init
dispatch, a key / custom / mouse dispatch, a MouseEnter / MouseLeave notification of an event or
of a frame — the last thing that happened is that handler call: its command was not executed, no
other handler was called afterwards, no event was delivered a second time. -/
theorem error_ends_run_at_failing_call (e : EOracle) (fuel : Nat) (root : Id) (t0 : STree) (steps : List Step)
    (h : (eRun e fuel root t0 steps).2 = true) : EndsWithCall (eRun e fuel root t0 steps).1 := by
  simp only [eRun] at h ⊢
  split
  · rename_i h1
    simp only [eRunInit] at h1 ⊢
    split
    · rename_i h2; exact eDispatch_fail e fuel _ _ _ _ h2
    · rename_i h2; rw [if_neg h2] at h1; cases h1
  · rename_i h1; rw [if_neg h1] at h; exact eRunSteps_fail e fuel steps _ h

/-- **Steps after the failing one are not run**: the result of a history is the result of its
prefix up to the step that returned the error. -/
theorem error_stops_history (e : EOracle) (fuel : Nat) (s : St) (pre post : List Step)
    (h : (eRunSteps e fuel s pre).2 = true) :
    eRunSteps e fuel s (pre ++ post) = eRunSteps e fuel s pre := by
  induction pre generalizing s with
  | nil => cases h
  | cons st rest ih =>
    simp only [List.cons_append, eRunSteps] at h ⊢
    by_cases h1 : (eRunStep e fuel s st).2 = true
    · simp only [h1, if_true]
    · rw [if_neg h1] at h
      simp only [h1]
      cases st with
      | ev ev =>
        simp only at h ⊢
        by_cases hq : (eRunStep e fuel s (.ev ev)).1.quit = true
        · rw [if_pos hq] at h; exact absurd h h1
        · rw [if_neg hq] at h; rw [if_neg hq, if_neg hq]; exact ih _ h
      | frame t1 t2 => exact ih _ h

/-- **A failing FocusOut handler inside a focus command** (the error is logged by
`handleCommand`, not returned): the old widget got FocusOut, the focus stays on it, nobody gets
FocusIn, the command interpreter goes on with the rest of the batch. -/
theorem focus_out_error_keeps_focus (e : EOracle) (fuel : Nat) (s : St) (w : Id) (hne : s.focused ≠ w)
    (h : e.failsAt s s.focused .focusOut .target = true) :
    eHandleCommand e (fuel + 1) s (.focus w) = (call e.o s s.focused .focusOut .target).1 := by
  simp [eHandleCommand, Cmd.flatten, eExecAtom, eFocusWidgetWith, hne, h]

/-- **A failing FocusIn handler inside a focus command**: the focus and the path have changed,
the FocusOut handler's command is executed (once), the FocusIn handler's command is dropped. -/
theorem focus_in_error_drops_its_command (e : EOracle) (fuel : Nat) (s : St) (w : Id) (hne : s.focused ≠ w)
    (h1 : e.failsAt s s.focused .focusOut .target = false)
    (h2 : e.fails w .focusIn .target (s.calls + 1) = true) :
    eHandleCommand e (fuel + 1) s (.focus w) =
      eHandleCommand e fuel
        (call e.o (findPath { (call e.o s s.focused .focusOut .target).1 with
            focused := w,
            trace := (call e.o s s.focused .focusOut .target).1.trace ++ [.eff (.focusSet w)] }).1
          w .focusIn .target).1
        (e.o.h s.focused .focusOut .target s.calls) := by
  have h2' : e.failsAt (findPath { (call e.o s s.focused .focusOut .target).1 with
      focused := w, trace := (call e.o s s.focused .focusOut .target).1.trace ++ [.eff (.focusSet w)] }).1
      w .focusIn .target = true := by
    simpa [EOracle.failsAt, findPath, Model.Vxfw.call] using h2
  simp only [eHandleCommand, Cmd.flatten, List.foldl_cons, List.foldl_nil, eExecAtom, eFocusWidgetWith,
    if_neg hne, h1, h2', Bool.false_eq_true, if_false, if_true]
  rfl

/-- Non-vacuity: root 0 captures and fails on key 7: Run returns the error, the target never
sees the key; and a failing FocusOut handler: focus stays, the batch goes on. -/
example :
    (eRun ⟨⟨fun _ _ _ _ => .redraw, fun _ => true⟩, fun w ev ph _ => w == 0 && ev == .key 7 && ph == .capture⟩ 4 0
      (.node 0 9 9 []) [.ev (.key 7), .ev (.key 8)]).2 = true := by decide

example :
    ((eHandleCommand ⟨⟨fun _ _ _ _ => .nil, fun _ => false⟩, fun _ ev _ _ => ev == .focusOut⟩ 4 (St.init 0)
      (.batch [.focus 1, .redraw])).focused,
     (eHandleCommand ⟨⟨fun _ _ _ _ => .nil, fun _ => false⟩, fun _ ev _ _ => ev == .focusOut⟩ 4 (St.init 0)
      (.batch [.focus 1, .redraw])).trace) =
    (0, [.call 0 .focusOut .target, .eff .redraw]) := by decide

/-- **Hover state when `Run` ends at a failing handler call — the full statement** (proved below: `hover_after_error`).  For
every behaviour with failing calls (returned errors AND the failures inside `focusWidget` that are only logged), every history of
trees showing a widget at most once under a point: the MouseEnter / MouseLeave notifications delivered so far alternate per widget,
and if no error was returned the entered widgets are exactly those of the hit list. -/
def hover_after_error_full : Prop :=
  ∀ (e : EOracle) (fuel : Nat) (root : Id) (t0 : STree) (steps : List Step),
    HitsNodup t0 → (∀ st ∈ steps, StepOk st) →
    (hoverRun [] (eRun e fuel root t0 steps).1.trace).isSome ∧
    ((eRun e fuel root t0 steps).2 = false →
      ∃ ent, hoverRun [] (eRun e fuel root t0 steps).1.trace = some ent ∧
        ∀ w, w ∈ ent ↔ w ∈ (eRun e fuel root t0 steps).1.lastHits.map Hit.w)

/-- **`hover_after_error`**: the statement above holds.  With handlers that fail anywhere — in a capture / target / bubble offer, in
a MouseEnter / MouseLeave notification of `update`, `mouseExit`, `mouseEnter` (the loop returns at once, the hit list is NOT
replaced), or silently inside `focusWidget` — the hover notifications in the trace alternate per widget at every point where `Run`
can end, and as long as no error is returned the entered widgets are exactly the widgets of the hit list.  (When `update` returns
an error the entered set is only a subset of the recorded hit list: the widgets already told MouseLeave are still recorded —
`C15Body.mouse_update_body_error_keeps_hits` — which is harmless because `Run` returns.)  Proof: `Lemmas/VxfwHoverErr.lean` — the
error-aware `handleCommand` extends the trace by non-hover entries only (`eq_eHandleCommand`), the two notification loops with
their early return (`leave_loop_e`, `enter_loop_e`), then the invariant through every arm of the Run loop. -/
theorem hover_after_error : hover_after_error_full := by
  intro e fuel root t0 steps h0 hs
  obtain ⟨⟨ent, h1⟩, h2⟩ := hov_eRun e fuel root t0 steps h0 hs
  refine ⟨by rw [h1]; rfl, fun hb => ?_⟩
  obtain ⟨ent', hr, _, _, hm⟩ := h2 hb
  exact ⟨ent', hr, hm⟩

/-- Non-vacuity: widget 1's MouseLeave handler fails when the pointer moves from widget 1 to widget 2: `Run` returns the error, the
trace so far (Enter 0, Enter 1, Leave 0, Leave 1 = the failing call) alternates, and the recorded hit list is still the old one
`[0, 1]` although both widgets have been told MouseLeave. -/
example :
    let o : Oracle := ⟨fun _ _ _ _ => .nil, fun _ => false⟩
    let e : EOracle := ⟨o, fun w ev _ _ => w = 1 ∧ ev = .mouseLeave⟩
    let t : STree := .node 0 9 9 [(0, 0, 0, .node 1 2 2 []), (4, 4, 0, .node 2 2 2 [])]
    let r := eRun e 3 0 t [.ev (.mouse 1 1), .ev (.mouse 5 5)]
    r.2 = true ∧ (hoverRun [] r.1.trace).isSome = true ∧ r.1.lastHits.map Hit.w = [0, 1] := by decide

/-! ### focus pairing and commands-once with failing handlers (both proved), and why the error-free forms are false -/

/-- The effects owed by the calls that did NOT fail (the command returned together with an error is dropped at every call site):
`owed` for the oracle `Lemmas.Vxfw.eo e` whose failing calls answer nil. -/
def owedE (e : EOracle) : Nat → List Entry → List Eff := owed (eo e).h

/-- **Focus pairing over whole histories with failing handlers — full statement** (proved: `focus_pairs_err`).  Apart from the FocusOut
calls whose handler failed (`Lemmas.Vxfw.dropFailedOut`: a failing FocusOut handler cancels the focus change — the focus stays, no
FocusIn is sent), all FocusOut / FocusIn notifications pair up from the root widget and end with the widget focused now, wherever `Run`
ends. -/
def focus_pairs_err_full : Prop :=
  ∀ (e : EOracle) (fuel : Nat) (root : Id) (t0 : STree) (steps : List Step),
    focusRun root false (dropFailedOut e 0 (eRun e fuel root t0 steps).1.trace) = some (eRun e fuel root t0 steps).1.focused

/-- **Commands-once over whole histories with failing handlers — full statement** (proved: `commands_once_err`): the command effects in
the trace are a permutation of the effects asked for by the calls that did not fail (budget not exhausted). -/
def commands_once_err_full : Prop :=
  ∀ (e : EOracle) (fuel : Nat) (root : Id) (t0 : STree) (steps : List Step),
    (eRun e fuel root t0 steps).1.stuck = false →
    (effectsIn (eRun e fuel root t0 steps).1.trace).Perm (owedE e 0 (eRun e fuel root t0 steps).1.trace)

/-- Why the failed calls must be excluded (the statements of `Props/C15.lean` read literally are FALSE with failing handlers): widget 0's
FocusOut handler fails when a key handler asks for the focus to go to widget 1 — the raw trace has a FocusOut without a FocusIn (no
pairing), the focus is still on 0; and a failing key handler's `redraw` is owed by the literal `owed` but never executed.  The
statements above hold on both histories. -/
theorem raw_statements_fail_with_errors :
    let o : Oracle := ⟨fun _ ev _ _ => match ev with | .key 1 => .focus 1 | .key 2 => .redraw | _ => .nil, fun _ => false⟩
    let t : STree := .node 0 9 9 [(0, 0, 0, .node 1 2 2 [])]
    let e1 : EOracle := ⟨o, fun _ ev _ _ => ev == .focusOut⟩
    let e2 : EOracle := ⟨o, fun _ ev _ _ => ev == .key 2⟩
    let r1 := eRun e1 3 0 t [.ev (.key 1)]
    let r2 := eRun e2 3 0 t [.ev (.key 2)]
    focusRun 0 false r1.1.trace = none ∧ r1.1.focused = 0 ∧ r1.2 = false ∧
    focusRun 0 false (dropFailedOut e1 0 r1.1.trace) = some 0 ∧
    r2.2 = true ∧ effectsIn r2.1.trace = [] ∧ owed o.h 0 r2.1.trace = [.redraw] ∧ owedE e2 0 r2.1.trace = [] := by
  decide

/-- **`focus_pairs_err`**: for EVERY set of failing calls and every history, the focus notifications — the failed FocusOut calls
dropped — pair up (FocusOut to the widget focused then, FocusIn to the new one) and the focused widget is the last FocusIn receiver
(or the root).  A failing FocusIn handler does not disturb the pairing (the focus has moved, only its command is dropped).
`Lemmas/VxfwFocusErr.lean`: the relation `FPe` (pairing of the trace stretch with the call counter threaded through) through every
error-aware function. -/
theorem focus_pairs_err : focus_pairs_err_full :=
  fun e fuel root t0 steps => focusPairs_eRun e fuel root t0 steps

/-- **`commands_once_err`**: for EVERY set of failing calls and every history in which the nesting budget did not run out, every command
returned by a handler call that did NOT fail takes effect exactly once, and nothing else does — the command returned together with an
error is never executed (capture / target / bubble offers, hover notifications, FocusOut / FocusIn notifications inside `focusWidget`).
`Lemmas/VxfwOnceErr.lean`: the relation `Bal` of `commands_once_history` for the oracle whose failing calls answer nil, through every
error-aware function. -/
theorem commands_once_err : commands_once_err_full :=
  fun e fuel root t0 steps hs => commandsOnce_eRun e fuel root t0 steps hs

end VaxisModel.Props.C15Err
