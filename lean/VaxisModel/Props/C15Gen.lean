import VaxisModel.Gen.VxfwCases
import VaxisModel.Model.Vxfw

/-!
# C15 — the model covers the switch arms that are in the source now

`Gen/VxfwCases.lean` is regenerated from `vxfw/vxfw.go` on every check run. The theorems below
state that the arms of `App.Run`'s event switch and of `App.handleCommand` are exactly the ones
the model's `runEvent` / `execAtom` + `Cmd.flatten` were transcribed from: adding, removing or
re-wiring a case makes one of them fail.
-/
namespace VaxisModel.Props.C15Gen
open VaxisModel.Model.Vxfw

/-- Which constructor of the model's `RunEv` (and which model function) an arm of the Run switch
is transcribed as. -/
def runArmModel : List (String × String × List String) := [
  ("vaxis.Resize",   "RunEv.resize   : redraw := true",               ["set redraw"]),
  ("vaxis.Mouse",    "RunEv.mouse    : mouseHandleEvent",             ["call handleEvent"]),
  ("vaxis.FocusIn",  "RunEv.focusIn  : notify root MouseEnter",       ["call HandleEvent", "call handleCommand"]),
  ("vaxis.FocusOut", "RunEv.focusOut : mouse := none; mouseExit",     ["set mouse", "call mouseExit"]),
  ("vaxis.Key",      "RunEv.key      : handleEvent",                  ["call handleEvent"]),
  ("vaxis.Redraw",   "RunEv.redraw   : redraw := true",               ["set redraw"]),
  ("default",        "RunEv.other    : handleEvent",                  ["call handleEvent"])]

/-- Which constructor of `Cmd` / `Atom` an arm of `handleCommand` is transcribed as. -/
def commandArmModel : List (String × String × List String) := [
  ("BatchCmd",            "Cmd.batch : flatten",          ["range", "call handleCommand"]),
  ("[]Command",           "Cmd.slice : flatten",          ["range", "call handleCommand"]),
  ("RedrawCmd",           "Atom.redraw",                  ["set redraw"]),
  ("RefreshCmd",          "Atom.refresh",                 ["set refresh"]),
  ("QuitCmd",             "Atom.quit",                    ["set shouldQuit"]),
  ("ConsumeEventCmd",     "Atom.consume",                 ["set consumeEvent"]),
  ("FocusWidgetCmd",      "Atom.focus : focusWidgetWith", ["call focusWidget", "call Error"]),
  ("SetMouseShapeCmd",    "Atom.other",                   ["call SetMouseShape", "call MouseShape"]),
  ("SetTitleCmd",         "Atom.other",                   ["call SetTitle"]),
  ("CopyToClipboardCmd",  "Atom.other",                   ["call ClipboardPush"]),
  ("SendNotificationCmd", "Atom.other",                   ["call Notify"]),
  ("DebugCmd",            "Atom.debug",                   ["set debug", "set redraw"])]

/-- Same arms, in any order (the order of type-switch arms over distinct types does not matter). -/
def sameArms (a b : List (String × List String)) : Bool :=
  a.length == b.length && a.all (b.contains ·) && b.all (a.contains ·)

/-- The Run loop's event switch has exactly the arms the model's `runEvent` transcribes. -/
theorem run_switch_covered :
    sameArms Gen.VxfwCases.runArms (runArmModel.map (fun x => (x.1, x.2.2))) = true := by decide

/-- `handleCommand` has exactly the arms the model's `Cmd.flatten` / `execAtom` transcribe. -/
theorem handle_command_covered :
    sameArms Gen.VxfwCases.handleCommandArms (commandArmModel.map (fun x => (x.1, x.2.2))) = true := by decide

/-- `render` sorts the children with `sort.Slice` (one call), which for ≤ 12 elements is the
stable insertion sort modelled by `sortKids`. -/
theorem render_sort_call : Gen.VxfwCases.renderSorts = ["sort.Slice"] := by decide

/-- One arm per constructor of the model's `RunEv` (7). -/
theorem run_arm_count : Gen.VxfwCases.runArms.length = 7 := by decide

end VaxisModel.Props.C15Gen
