import VaxisModel.Gen.VxfwCases
import VaxisModel.Model.Vxfw

/-!
# C15 — the model covers the switch arms that are in the source now

`Gen/VxfwCases.lean` is regenerated from `vxfw/vxfw.go` on every check run. The theorems below
state that the arms of `App.Run`'s event switch and of `App.handleCommand` are exactly the ones
the model's `runEvent` / `execAtom` + `Cmd.flatten` were transcribed from: adding, removing or
re-wiring a case makes one of them fail.
-/
namespace VaxisModel.Props.C15Gen
open VaxisModel.Model.Vxfw

/-- Which constructor of the model's `RunEv` (and which model function) an arm of the Run switch
is transcribed as. -/
def runArmModel : List (String × String × List String) := [
  ("vaxis.Resize",   "RunEv.resize   : redraw := true",               ["set redraw"]),
  ("vaxis.Mouse",    "RunEv.mouse    : mouseHandleEvent",             ["call handleEvent"]),
  ("vaxis.FocusIn",  "RunEv.focusIn  : mouseEnter root",              ["call mouseEnter"]),
  ("vaxis.FocusOut", "RunEv.focusOut : mouse := none; mouseExit",     ["set mouse", "call mouseExit"]),
  ("vaxis.Key",      "RunEv.key      : handleEvent",                  ["call handleEvent"]),
  ("vaxis.Redraw",   "RunEv.redraw   : redraw := true",               ["set redraw"]),
  ("default",        "RunEv.other    : handleEvent",                  ["call handleEvent"])]

/-- Which constructor of `Cmd` / `Atom` an arm of `handleCommand` is transcribed as. -/
def commandArmModel : List (String × String × List String) := [
  ("BatchCmd",            "Cmd.batch : flatten",          ["range", "call handleCommand"]),
  ("[]Command",           "Cmd.slice : flatten",          ["range", "call handleCommand"]),
  ("RedrawCmd",           "Atom.redraw",                  ["set redraw"]),
  ("RefreshCmd",          "Atom.refresh",                 ["set refresh"]),
  ("QuitCmd",             "Atom.quit",                    ["set shouldQuit"]),
  ("ConsumeEventCmd",     "Atom.consume",                 ["set consumeEvent"]),
  ("FocusWidgetCmd",      "Atom.focus : focusWidgetWith", ["call focusWidget", "call Error"]),
  ("SetMouseShapeCmd",    "Atom.other",                   ["call SetMouseShape", "call MouseShape"]),
  ("SetTitleCmd",         "Atom.other",                   ["call SetTitle"]),
  ("CopyToClipboardCmd",  "Atom.other",                   ["call ClipboardPush"]),
  ("SendNotificationCmd", "Atom.other",                   ["call Notify"]),
  ("DebugCmd",            "Atom.debug",                   ["set debug", "set redraw"])]

/-- Same arms, in any order (the order of type-switch arms over distinct types does not matter). -/
def sameArms (a b : List (String × List String)) : Bool :=
  a.length == b.length && a.all (b.contains ·) && b.all (a.contains ·)

/-- The Run loop's event switch has exactly the arms the model's `runEvent` transcribes. -/
theorem run_switch_covered :
    sameArms Gen.VxfwCases.runArms (runArmModel.map (fun x => (x.1, x.2.2))) = true := by decide

/-- `handleCommand` has exactly the arms the model's `Cmd.flatten` / `execAtom` transcribe. -/
theorem handle_command_covered :
    sameArms Gen.VxfwCases.handleCommandArms (commandArmModel.map (fun x => (x.1, x.2.2))) = true := by decide

/-- `render` sorts the children with `sort.Slice` (one call), which for ≤ 12 elements is the
stable insertion sort modelled by `sortKids`. -/
theorem render_sort_call : Gen.VxfwCases.renderSorts = ["sort.Slice"] := by decide

/-- One arm per constructor of the model's `RunEv` (7). -/
theorem run_arm_count : Gen.VxfwCases.runArms.length = 7 := by decide

/-! ### statement skeletons of the handlers

`Gen.VxfwCases.skeletons` lists, per function, its statements in source order (see
`extract/cmd/C15`). The theorems keep, per function, the entries that decide the order of
handler calls, command processing and state updates the model transcribes; local variable names,
error plumbing and `len` calls are not part of the tie. -/

def skel (fn : String) (keep : List String) : List String :=
  ((Gen.VxfwCases.skeletons.lookup fn).getD ["?missing"]).filter (fun x => keep.contains x)

/-- `focusWidget` (repairs of F115b and F115a): FocusOut handler, `focused = w`, `findPath`,
FocusIn handler, and only then the two commands — as in `Model.Vxfw.focusWidgetWith`. -/
theorem focus_widget_order :
    skel "focusHandler.focusWidget" ["call HandleEvent", "set focused", "call findPath", "call handleCommand"] =
      ["call HandleEvent", "set focused", "call findPath", "call HandleEvent", "call handleCommand", "call handleCommand"] := by
  decide

/-- `focusHandler.handleEvent` iterates over a local snapshot of the path in both loops (the
model's `dispatch` takes the chain as an argument), capture – target – bubble. -/
theorem handle_event_snapshot :
    skel "focusHandler.handleEvent" ["range local", "range field path", "index local", "index field path"] =
      ["range local", "index local"] ∧
    skel "focusHandler.handleEvent" ["call CaptureEvent", "call HandleEvent", "call handleCommand"] =
      ["call CaptureEvent", "call handleCommand", "call HandleEvent", "call handleCommand",
       "call HandleEvent", "call handleCommand"] := by decide

/-- `updatePath` stores the frame, calls `findPath`, refocuses the root; `findPath` clears the
path, runs `childHasFocus`, appends the root. -/
theorem update_path_shape :
    skel "focusHandler.updatePath" ["set lastFrame", "call findPath", "call focusWidget"] =
      ["set lastFrame", "call findPath", "call focusWidget"] ∧
    skel "focusHandler.findPath" ["set path", "call childHasFocus", "call append"] =
      ["set path", "call childHasFocus", "set path", "call append"] := by decide

/-- `mouseEnter` (repair of F43): look the widget up in the hit list, record it, notify it. -/
theorem mouse_enter_recorded :
    skel "mouseHandler.mouseEnter" ["range field lastHits", "set lastHits", "call HandleEvent", "call handleCommand"] =
      ["range field lastHits", "set lastHits", "call HandleEvent", "call handleCommand"] := by decide

/-- `mouseHandler.update` / `mouseExit` / `handleEvent`: hit test, leave loop over the old list,
enter loop over the new one, store; three-phase dispatch over the stored hit list. -/
theorem mouse_handler_shape :
    skel "mouseHandler.update" ["call containsPoint", "call hitTest", "range field lastHits", "range local",
        "call HandleEvent", "call handleCommand", "set lastHits"] =
      ["call containsPoint", "call hitTest", "range field lastHits", "range local", "call HandleEvent",
       "call handleCommand", "range local", "range field lastHits", "call HandleEvent", "call handleCommand",
       "set lastHits"] ∧
    skel "mouseHandler.mouseExit" ["range field lastHits", "call HandleEvent", "call handleCommand", "set lastHits"] =
      ["range field lastHits", "call HandleEvent", "call handleCommand", "set lastHits"] ∧
    skel "mouseHandler.handleEvent" ["set mouse", "call update", "range field lastHits", "index field lastHits",
        "call CaptureEvent", "call HandleEvent", "call handleCommand"] =
      ["set mouse", "call update", "range field lastHits", "call CaptureEvent", "call handleCommand",
       "index field lastHits", "call HandleEvent", "call handleCommand",
       "index field lastHits", "call HandleEvent", "call handleCommand"] := by decide

/-- Error plumbing of `focusWidget` as `Model.Vxfw.eFocusWidgetWith` transcribes it: a failing
FocusOut handler returns before anything changes; after the FocusIn call the FocusOut handler's
command is handled *before* the error test, the FocusIn handler's command after it. -/
theorem focus_widget_error_plumbing :
    skel "focusHandler.focusWidget" ["if", "return", "call HandleEvent", "set focused", "call findPath", "call handleCommand"] =
      ["if", "return", "call HandleEvent", "if", "return", "set focused", "call findPath", "call HandleEvent",
       "call handleCommand", "if", "return", "call handleCommand", "return"] := by decide

/-- Every handler call of the two dispatchers and of the notification loops is followed by
`if err != nil { return err }` before its command is handled (`eOffer`, `eNotify`). -/
theorem dispatch_error_plumbing :
    skel "focusHandler.handleEvent" ["call CaptureEvent", "call HandleEvent", "call handleCommand", "return"] =
      ["call CaptureEvent", "return", "call handleCommand", "return", "call HandleEvent", "return", "call handleCommand",
       "return", "call HandleEvent", "return", "call handleCommand", "return", "return"] ∧
    skel "mouseHandler.mouseExit" ["call HandleEvent", "call handleCommand", "return"] =
      ["call HandleEvent", "return", "call handleCommand", "return"] ∧
    skel "mouseHandler.mouseEnter" ["call HandleEvent", "call handleCommand", "return"] =
      ["return", "call HandleEvent", "return", "call handleCommand", "return"] := by decide

/-- Every function the skeleton facts speak about was found in the source. -/
theorem skeletons_found :
    Gen.VxfwCases.skeletons.all (fun x => !x.2.contains "?missing") = true ∧
    Gen.VxfwCases.skeletons.length = 10 := by decide

/-! ### `App.Run` outside the event switch (round 4) -/

/-- **The frame step** (the `time.After` arm of `Run`'s select) does, in this order, what `Model.Vxfw.eRunFrame`
transcribes: `a.redraw = false`, `a.layout`, `mh.update` (hover diff against the NEW tree, before anything is
rendered), a second `a.redraw = false` + `a.layout` (inside `if a.redraw`), `render` (which sorts the children),
`a.refresh = false`, `a.debug = false`, `a.fh.updatePath` (path from the rendered, sorted tree), and LAST
`mh.lastFrame = s`.  Other calls in the arm (window, cursor, `vx.Render`) are not part of the tie. -/
theorem run_frame_order :
    Gen.VxfwCases.runFrameActs.filter (fun x => ["set redraw", "call layout", "call update", "call render", "set refresh",
        "set debug", "call updatePath", "set lastFrame"].contains x) =
      ["set redraw", "call layout", "call update", "set redraw", "call layout", "call render", "set refresh", "set debug",
       "call updatePath", "set lastFrame"] := by decide

/-- **Before the loop** `Run` initialises the focus handler, dispatches `Init{}` through it, and lays out once
(`Model.Vxfw.eRunInit`; the mouse handler's first `lastFrame` is that layout, unrendered). -/
theorem run_prologue_order :
    Gen.VxfwCases.runPrologueActs.filter (fun x => ["set fh", "call handleEvent", "call layout", "call update", "call updatePath"].contains x) =
      ["set fh", "call handleEvent", "call layout"] := by decide

end VaxisModel.Props.C15Gen
