import VaxisModel.Model.Wrap
import VaxisModel.Spec.Wrap
import VaxisModel.Lemmas.Wrap

/-! C16 — soft-wrapping preserves the text and respects the width.

Theorems are about `Model.Wrap` (the two `SoftwrapScanner.Scan` loops, `firstLineSegment`,
`HardwrapScanner`, the row loops) and hold for **every** segmentation oracle satisfying `OracleOK`
(non-empty first segment; must-break at the end of the text) — for richtext the oracle is the
transcribed `firstLineSegment` over an arbitrary pairwise break function, for which `OracleOK` is
proved (`rich_oracle_ok`), so the richtext statements have no hypothesis about Unicode at all. -/
namespace VaxisModel.Props.C16
open VaxisModel.Model.Wrap VaxisModel.Lemmas.Wrap
open VaxisModel.Spec.Wrap (nonWs content conserved lineWidthOK natWidth trimTrailing)

/-- `Scan` returns false at once for width 0 (any oracle, any text). -/
theorem scan_width_zero {σ : Type} (o : σ → List Cell → Nat × Bool × σ) (ini : σ) (rest : List Cell) (st : σ) :
    scan o ini 0 rest st = .stop := by
  unfold scan
  simp

/-- `scan_terminates`: a `Scan` call never hangs; it returns false exactly when nothing is left (or
the width is 0), and otherwise returns true with a strictly shorter `rest`. -/
theorem scan_terminates {σ : Type} (o : σ → List Cell → Nat × Bool × σ) (ini : σ) (hok : OracleOK o)
    (width : Nat) (rest : List Cell) (st : σ) :
    (scan o ini width rest st = .stop ∧ (rest = [] ∨ width = 0)) ∨
    (∃ rest' st' tok, scan o ini width rest st = .line rest' st' tok ∧ rest'.length < rest.length) := by
  rcases scan_cases o ini width hok rest st with h | ⟨_, r, s, t, h1, h2, _⟩
  · exact Or.inl h
  · exact Or.inr ⟨r, s, t, h1, h2⟩

/-- The scanning loop `for scanner.Scan() { … }` terminates on every text and every width. -/
theorem lines_terminate {σ : Type} (o : σ → List Cell → Nat × Bool × σ) (ini : σ) (hok : OracleOK o)
    (width : Nat) (cells : List Cell) (st0 : σ) :
    ∃ ls, lines o ini width cells st0 = .ok ls := by
  obtain ⟨ls, h, _⟩ := scanAll_ok o ini width hok (cells.length + 1) cells st0 (Nat.lt_succ_self _)
  exact ⟨ls, h⟩

/-- `conservation`: for every positive width the non-whitespace graphemes of the emitted lines,
concatenated, are those of the input, in order and with their styles (`Cell` equality includes the
style). -/
theorem conservation {σ : Type} (o : σ → List Cell → Nat × Bool × σ) (ini : σ) (hok : OracleOK o)
    (width : Nat) (hw : 0 < width) (cells : List Cell) (st0 : σ) (ls : List (List Cell))
    (h : lines o ini width cells st0 = .ok ls) : conserved cells ls = true := by
  obtain ⟨ls', h', hc⟩ := scanAll_ok o ini width hok (cells.length + 1) cells st0 (Nat.lt_succ_self _)
  unfold lines at h
  rw [h'] at h
  cases h
  simp [conserved, hc hw]

/-- One `Scan`: what it returns plus what it leaves is what it was given (non-whitespace part). -/
theorem scan_conserves {σ : Type} (o : σ → List Cell → Nat × Bool × σ) (ini : σ) (hok : OracleOK o)
    (width : Nat) (rest : List Cell) (st : σ) (rest' : List Cell) (st' : σ) (tok : List Cell)
    (h : scan o ini width rest st = .line rest' st' tok) :
    content tok ++ content rest' = content rest := by
  rcases scan_cases o ini width hok rest st with ⟨hs, _⟩ | ⟨_, r, s, t, h1, _, h3⟩
  · rw [hs] at h; cases h
  · rw [h1] at h; cases h; exact h3

/-- `line_width`: every emitted line, ignoring trailing whitespace, is at most `width` columns wide,
unless it consists of a single grapheme wider than the line.  Holds for every oracle (no
hypothesis at all) and every width; true of the code since the F44 and F45 fixes. -/
theorem line_width {σ : Type} (o : σ → List Cell → Nat × Bool × σ) (ini : σ)
    (width : Nat) (cells : List Cell) (st0 : σ) (ls : List (List Cell))
    (h : lines o ini width cells st0 = .ok ls) : ∀ l ∈ ls, lineWidthOK width l = true :=
  scanAll_width o ini width _ cells st0 ls h

/-- `line_width` for a single `Scan`. -/
theorem scan_line_width {σ : Type} (o : σ → List Cell → Nat × Bool × σ) (ini : σ)
    (width : Nat) (rest : List Cell) (st : σ) (rest' : List Cell) (st' : σ) (tok : List Cell)
    (h : scan o ini width rest st = .line rest' st' tok) : lineWidthOK width tok = true :=
  scan_width o ini width rest st rest' st' tok h

/-- `hard_break_ends_line` (structure of a line): a `Scan` takes zero or more whole segments, *none
of them with the must-break flag* (`Taken`: every step has `br = false`), and then ends in exactly
one of three ways (`Ending`): the next segment is left untouched for the next line; or it is taken
whole as the last segment of the line and the next `Scan` starts right behind it; or it is divided.
Hence a segment with a hard break can only be the last one of its line: the line ends with it.
With `rich_segment_terminator` (a rich-text segment contains a terminator only as its last cell and
then has the flag) this says that a line terminator always ends the current line. -/
theorem hard_break_ends_line {σ : Type} (o : σ → List Cell → Nat × Bool × σ) (ini : σ) (width : Nat)
    (rest : List Cell) (st : σ) (rest' : List Cell) (st' : σ) (tok : List Cell)
    (h : scan o ini width rest st = .line rest' st' tok) :
    ∃ st1 rest1, Taken o st rest st1 rest1 ∧ Ending o ini width st1 rest1 st' rest' :=
  VaxisModel.Lemmas.Wrap.scan_structure o ini width rest st rest' st' tok h

/-- `no_needless_split`: a segment whose word part fits on a line of its own (`≤ width`) is never
divided between two lines: whenever a `Scan` stops inside a segment (the new `rest` is neither the
start of that segment nor what follows it), that segment's word part is wider than `width`. -/
theorem no_needless_split {σ : Type} (o : σ → List Cell → Nat × Bool × σ) (ini : σ) (width : Nat)
    (rest : List Cell) (st : σ) (rest' : List Cell) (st' : σ) (tok : List Cell)
    (h : scan o ini width rest st = .line rest' st' tok) :
    ∃ st1 rest1, Taken o st rest st1 rest1 ∧
      (sumW (trimRight (rest1.take (o st1 rest1).1)) ≤ width →
        rest' = rest1 ∨ rest' = rest1.drop (o st1 rest1).1) := by
  obtain ⟨st1, rest1, htk, hend⟩ := VaxisModel.Lemmas.Wrap.scan_structure o ini width rest st rest' st' tok h
  refine ⟨st1, rest1, htk, ?_⟩
  intro hfit
  cases hend with
  | left h1 _ _ => exact Or.inl h1
  | last h1 _ _ => exact Or.inr h1
  | split hw _ _ => omega

/-- richtext: a segment of `firstLineSegment` contains a line terminator only as its last cell, and
then it has the must-break flag. -/
theorem rich_segment_terminator (lb : Nat → Nat → Bool) (l : List Cell) :
    (∀ c ∈ (l.take (firstLineSegment lb true l).1).dropLast, c.term = false) ∧
    (∀ c, (l.take (firstLineSegment lb true l).1).getLast? = some c → c.term = true →
      (firstLineSegment lb true l).2 = true) :=
  firstLineSegment_term lb l true (by intro h; cases h)

/-- `draw_one_line_per_row` (row loop of `Text.drawSoftwrap` / `RichText.drawSoftwrap`): as long as the
lines fit below `Max.Height` (`row + #lines ≤ Max.Height`, the bound the loop itself uses), line
`k` is written to row `row + k` — one line per row, none skipped, none merged — and the cells written
in that row are `drawRow` of exactly that line. -/
theorem draw_one_line_per_row (maxW maxH : UInt16) (ls : List (List Cell)) (row : UInt16)
    (h : row.toNat + ls.length ≤ maxH.toNat) :
    (drawRows maxW maxH row ls).map (·.2) = ls.map (drawRow maxW 0) ∧
    (drawRows maxW maxH row ls).map (·.1.toNat) = List.range' row.toNat ls.length :=
  drawRows_spec maxW maxH ls row h

/-- Within a row, the cells of a line (positive widths, fitting the widget: by `line_width` this is
every emitted line without its trailing whitespace) are all written, each at the column equal to
the display width of the cells before it. -/
theorem draw_row_columns (maxW : UInt16) (l : List Cell) (col : UInt16)
    (hpos : ∀ c ∈ l, 0 < c.w) (hfit : col.toNat + sumW l ≤ maxW.toNat) :
    (drawRow maxW col l).map (·.2) = l ∧
    ∀ k, k < l.length → ((drawRow maxW col l).map (·.1.toNat))[k]? = some (col.toNat + sumW (l.take k)) :=
  drawRow_spec maxW l col hpos hfit

/-- `HardwrapScanner`: the scanning loop terminates on every input, and the lines hold exactly the
cells of the input that are not a "\n" grapheme, in order (with their styles). -/
theorem hardwrap_terminates_conserves (cells : List Cell) :
    ∃ ls, hardLines cells = .ok ls ∧ notNl ls.flatten = notNl cells :=
  hardAll_ok (cells.length + 1) cells (Nat.lt_succ_self _)

/-- richtext: the transcribed `firstLineSegment` meets the oracle hypotheses for every pairwise
line-break function, so the theorems above hold for `richLines` unconditionally. -/
theorem rich_oracle_ok (lb : Nat → Nat → Bool) : OracleOK (richOracle lb) := richOracle_ok lb

theorem rich_terminates (lb : Nat → Nat → Bool) (width : Nat) (cells : List Cell) :
    ∃ ls, richLines lb width cells = .ok ls :=
  lines_terminate _ () (richOracle_ok lb) width cells ()

theorem rich_conservation (lb : Nat → Nat → Bool) (width : Nat) (hw : 0 < width) (cells : List Cell)
    (ls : List (List Cell)) (h : richLines lb width cells = .ok ls) : conserved cells ls = true :=
  conservation _ () (richOracle_ok lb) width hw cells () ls h

/-- Non-vacuity: a concrete oracle (break after every space) meets `OracleOK`-style behaviour on a
concrete text, and the model wraps "ab cd" at width 2 into two lines. -/
example :
    let a : Cell := { g := 0, w := 1, style := 1, sp := false, term := false, nl := false }
    let s : Cell := { g := 1, w := 1, style := 0, sp := true, term := false, nl := false }
    richLines (fun x _ => x == 1) 2 [a, a, s, a, a] = .ok [[a, a], [a, a]] := by decide

end VaxisModel.Props.C16
