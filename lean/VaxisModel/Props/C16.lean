import VaxisModel.Model.Wrap
import VaxisModel.Spec.Wrap

/-! C16 — soft-wrapping preserves the text and respects the width. -/
namespace VaxisModel.Props.C16
open VaxisModel.Model.Wrap

/-- `Scan` returns false at once for width 0 (any oracle, any text). -/
theorem scan_width_zero {σ : Type} (o : σ → List Cell → Nat × Bool × σ) (rest : List Cell) (st : σ) :
    scan o 0 rest st = .stop := by
  unfold scan
  simp

end VaxisModel.Props.C16
