import VaxisModel.Model.WrapDraw
import VaxisModel.Spec.WrapDraw
import VaxisModel.Lemmas.WrapDraw
import VaxisModel.Lemmas.Wrap
import VaxisModel.Witness.F316

/-! C16 — "the text widgets draw exactly the emitted lines, one per row".

`Model.WrapDraw.richDraw` / `textDraw` / `richHardDraw` compose the scanner model (`Model.Wrap`) with
C14's model of the drawing code on a `vxfw.Surface` (`Model.Layout.drawText`: `findContainerSize`,
`NewSurface`, `Fill`, the row loop with its `Max.Width` / `Max.Height` guards, `WriteCell`), whose
arithmetic and guards are regenerated from the source on every run.  C14 proves that drawing does
not panic and stays within `Max`; here: what the surface shows, cell by cell. -/
namespace VaxisModel.Props.C16Draw
open VaxisModel.Model VaxisModel.Model.WrapDraw
open VaxisModel.Model.Wrap (Cell sumW richLines plainLines hardLines Lines)
open VaxisModel.Lemmas.WrapDraw
open VaxisModel.Spec.WrapDraw (over overHard hardLine width splitNl)

/-- What the current source says (extracted facts): surface arithmetic in `int`, `WriteCell` rejects
`row >= Height`; soft-wrap `findContainerSize` stops at `size.Height >= Max.Height`; the row loop of
`drawSoftwrap` stops at `row >= Max.Height` (since /repo 39d6880, finding F216); both widgets. -/
theorem facts_draw_modes :
    Surface.srcArith = Surface.exact ∧
    (Layout.richMode false).hard = false ∧ (Layout.richMode false).sizeStrict = true ∧
    (Layout.richMode false).drawStrict = true ∧ (Layout.richMode false).fill = none ∧
    (∀ st, (Layout.textMode false st).hard = false ∧ (Layout.textMode false st).sizeStrict = true ∧
      (Layout.textMode false st).drawStrict = true ∧ (Layout.textMode false st).fill = some st) := by
  refine ⟨by decide, rfl, rfl, rfl, rfl, fun st => ⟨rfl, rfl, rfl, rfl⟩⟩

/-- The `findContainerSize` guards are `>=` and each Draw allocates `NewSurface(size.Width, size.Height)`
(the argument expressions are read from the source and evaluated by the model), all four functions. -/
theorem facts_size_ok :
    (∀ hard, (Layout.richMode hard).sizeOK) ∧ (∀ hard st, (Layout.textMode hard st).sizeOK) := by
  refine ⟨fun hard => ?_, fun hard st => ?_⟩ <;> cases hard <;>
    exact ⟨rfl, by simp only [Layout.textMode, Layout.richMode]; decide⟩

theorem width_toWin (l : List Cell) : width (l.map toWin) = sumW l := by
  induction l with
  | nil => rfl
  | cons c cs ih =>
    simp only [width, List.map_cons, List.sum_cons, sumW] at ih ⊢
    rw [ih]; simp [toWin]

theorem width_toWinSt (st : Nat) (l : List Cell) : width (l.map (toWinSt st)) = sumW l := by
  induction l with
  | nil => rfl
  | cons c cs ih =>
    simp only [width, List.map_cons, List.sum_cons, sumW] at ih ⊢
    rw [ih]; simp [toWinSt]

/-- **`RichText.Draw` (soft wrap) draws exactly the emitted lines, one per row.**  For every text,
`Max.Width`, `Max.Height` and pairwise break function (`ls` = the lines of the scanner model, which
exist by `Props.C16.rich_terminates`; each narrower than 2^16 columns): Draw returns a surface — no
panic, no hang — with `min (#lines) Max.Height` rows (lines from index `Max.Height` on are dropped),
the width `findContainerSize` computes, a buffer of exactly width × height cells, and row `y` shows
line `y`: the cell at column `x` is `over line 0 zero x` — every grapheme with its own style at the
column equal to the display width of the graphemes before it (`draw_cell_at_column`), the zero cell
everywhere else (`draw_other_columns_blank`). -/
theorem rich_draw_rows (lb : Nat → Nat → Bool) (maxW maxH : UInt16) (cells : List Cell)
    (ls : List (List Cell)) (h : richLines lb maxW.toNat cells = .ok ls)
    (hw : ∀ l ∈ ls, sumW l < 65536) :
    ∃ s, richDraw lb maxW maxH cells = .ok s ∧
      s.h.toNat = min ls.length maxH.toNat ∧
      s.w = widthFold maxW ((ls.map (·.map toWin)).take maxH.toNat) 0 ∧
      s.buf.length = s.h.toNat * s.w.toNat ∧
      ∀ x y, x < s.w.toNat → y < s.h.toNat →
        cellAt s x y = over ((ls.getD y []).map toWin) 0 (fun _ => some default) x := by
  have hall : ∀ l ∈ ls.map (·.map toWin), (∀ c ∈ l, 0 ≤ c.w) ∧ width l < 65536 := by
    intro l hl
    obtain ⟨l0, hl0, rfl⟩ := List.mem_map.mp hl
    refine ⟨?_, by rw [width_toWin]; exact hw l0 hl0⟩
    intro c hc
    obtain ⟨c0, _, rfl⟩ := List.mem_map.mp hc
    simp [toWin]
  obtain ⟨s, h1, h2, h3, h4, h5⟩ := drawText_cells (Layout.richMode false) rfl (facts_size_ok.1 false) rfl (ctxOf maxW maxH) _ hall
  refine ⟨s, ?_, by simpa [ctxOf] using h3, h2, h4, ?_⟩
  · simp only [richDraw, h, facts_draw_modes.1, h1, WrapDraw.ofExcept]
  · intro x y hx hy
    rw [h5 x y hx hy]
    have : (ls.map (·.map toWin)).getD y [] = (ls.getD y []).map toWin := by
      simp only [List.getD_eq_getElem?_getD, List.getElem?_map]
      cases ls[y]? <;> rfl
    rw [this]; rfl

/-- The same with the scanner's result made explicit: for **every** text narrower than 2^16 columns
in total, every `Max` and every break function, `RichText.Draw` returns a surface showing exactly
the lines the scanner emits, one per row. -/
theorem rich_draw_exactly_the_lines (lb : Nat → Nat → Bool) (maxW maxH : UInt16) (cells : List Cell)
    (hw : sumW cells < 65536) :
    ∃ ls s, richLines lb maxW.toNat cells = .ok ls ∧ richDraw lb maxW maxH cells = .ok s ∧
      s.h.toNat = min ls.length maxH.toNat ∧
      s.buf.length = s.h.toNat * s.w.toNat ∧
      ∀ x y, x < s.w.toNat → y < s.h.toNat →
        cellAt s x y = over ((ls.getD y []).map toWin) 0 (fun _ => some default) x := by
  obtain ⟨ls, hls, _⟩ := VaxisModel.Lemmas.Wrap.scanAll_ok (Wrap.richOracle lb) () maxW.toNat
    (VaxisModel.Lemmas.Wrap.richOracle_ok lb) (cells.length + 1) cells () (Nat.lt_succ_self _)
  have hls' : richLines lb maxW.toNat cells = .ok ls := hls
  have hlw : ∀ l ∈ ls, sumW l < 65536 := by
    intro l hl
    have := scanAll_sumW (Wrap.richOracle lb) () maxW.toNat _ cells () ls hls l hl
    omega
  obtain ⟨s, h1, h2, _, h4, h5⟩ := rich_draw_rows lb maxW maxH cells ls hls' hlw
  exact ⟨ls, s, hls', h1, h2, h4, h5⟩

/-- **Nothing of an emitted line is clipped** (Draw ∘ scanner ∘ `line_width`): for every line `y`
below `Max.Height`, every grapheme of positive width of the line without its trailing whitespace is
on the surface, at the column equal to the display width of the graphemes before it — because the
scanner keeps every line (trailing whitespace aside) within `Max.Width`, or makes it a single
over-wide grapheme, and `findContainerSize` makes the surface as wide as the line or `Max.Width`. -/
theorem rich_draw_nothing_clipped (lb : Nat → Nat → Bool) (maxW maxH : UInt16) (cells : List Cell)
    (ls : List (List Cell)) (h : richLines lb maxW.toNat cells = .ok ls) (hw : ∀ l ∈ ls, sumW l < 65536) :
    ∃ s, richDraw lb maxW maxH cells = .ok s ∧
      ∀ y l, ls[y]? = some l → y < maxH.toNat →
        ∀ j c, (Wrap.trimRight l)[j]? = some c → 0 < c.w →
          cellAt s (sumW (l.take j)) y = some (toWin c) := by
  obtain ⟨s, h1, hH, hW, _, hcell⟩ := rich_draw_rows lb maxW maxH cells ls h hw
  refine ⟨s, h1, ?_⟩
  intro y l hy hyM j c hj hc
  have hyl : y < ls.length := by
    rcases Nat.lt_or_ge y ls.length with h' | h'
    · exact h'
    · rw [List.getElem?_eq_none h'] at hy; cases hy
  have hlmem : l ∈ ls := List.mem_of_getElem? hy
  have hys : y < s.h.toNat := by rw [hH]; omega
  have hmaxW : maxW.toNat ≠ 0 := by
    intro h0
    have : ls = [] := by
      have h' := h
      simp only [richLines, Wrap.lines, h0] at h'
      exact scanAll_width_zero _ _ _ _ _ _ h'
    rw [this] at hyl; simp at hyl
  have hlw : VaxisModel.Spec.Wrap.lineWidthOK maxW.toNat l = true :=
    VaxisModel.Lemmas.Wrap.scanAll_width (Wrap.richOracle lb) () maxW.toNat _ cells () ls h l hlmem
  -- the surface is at least min (width of the line) Max.Width wide
  have hall : ∀ l' ∈ (ls.map (·.map toWin)).take maxH.toNat, (∀ c ∈ l', 0 ≤ c.w) ∧ width l' < 65536 := by
    intro l' hl'
    obtain ⟨l0, hl0, rfl⟩ := List.mem_map.mp (List.mem_of_mem_take hl')
    refine ⟨?_, by rw [width_toWin]; exact hw l0 hl0⟩
    intro c hc
    obtain ⟨c0, _, rfl⟩ := List.mem_map.mp hc
    simp [toWin]
  have hmem' : l.map toWin ∈ (ls.map (·.map toWin)).take maxH.toNat := by
    apply List.mem_of_getElem? (i := y)
    rw [List.getElem?_take_of_lt hyM, List.getElem?_map, hy]; rfl
  have hWge := (widthFold_ge maxW _ 0 (by rw [UInt16.le_iff_toNat_le]; simp) hall).2.2 _ hmem'
  rw [← hW, width_toWin] at hWge
  obtain ⟨hlj, htake⟩ := trimRight_prefix l j c hj
  have hps := sumW_take_getElem (Wrap.trimRight l) j c hj
  have htl := VaxisModel.Lemmas.Wrap.sumW_trimRight_le l
  have hjlen : j < (Wrap.trimRight l).length := by
    rcases Nat.lt_or_ge j (Wrap.trimRight l).length with h' | h'
    · exact h'
    · rw [List.getElem?_eq_none h'] at hj; cases hj
  have hx : sumW (l.take j) < s.w.toNat := by
    rw [htake]
    simp only [VaxisModel.Spec.Wrap.lineWidthOK, Bool.or_eq_true, decide_eq_true_eq,
      VaxisModel.Lemmas.Wrap.trimTrailing_eq, VaxisModel.Lemmas.Wrap.natWidth_eq_sumW] at hlw
    rcases hlw with h' | h'
    · omega
    · split at h'
      · rename_i c' hc'
        rw [hc'] at hjlen hps ⊢
        simp only [List.length_singleton] at hjlen
        have hj0 : j = 0 := by omega
        subst hj0
        simp only [decide_eq_true_eq] at h'
        rw [hc'] at htl
        simp only [Wrap.sumW] at htl
        simp only [List.take_zero, Wrap.sumW]
        omega
      · cases h'
  rw [hcell _ y hx hys]
  have hgd : ls.getD y [] = l := by
    rw [List.getD_eq_getElem?_getD, hy]; rfl
  rw [hgd]
  have hjl : j < (l.map toWin).length := by
    rw [List.length_map]
    rcases Nat.lt_or_ge j l.length with h' | h'
    · exact h'
    · rw [List.getElem?_eq_none h'] at hlj; cases hlj
  have hget : (l.map toWin)[j] = toWin c := by
    have : (l.map toWin)[j]? = some (toWin c) := by rw [List.getElem?_map, hlj]; rfl
    rw [List.getElem?_eq_getElem hjl] at this
    exact Option.some.inj this
  have := over_hit (l.map toWin) 0 (fun _ => some default) j hjl (by rw [hget]; simp [toWin]; omega)
  rw [hget, ← List.map_take, width_toWin, Nat.zero_add] at this
  exact this

/-- **`Text.Draw` (soft wrap)**: the same, every cell in the widget's style, the surface filled with
that style (`s.Fill(t.Style)`), a tab of the line shown as `ctx.Characters` expands it (`expand`). -/
theorem text_draw_rows {σ : Type} (seg : σ → List Cell → Nat × Bool × σ) (st0 : σ)
    (expand : Cell → List Cell) (style : Nat) (maxW maxH : UInt16) (cells : List Cell)
    (ls : List (List Cell)) (h : plainLines seg maxW.toNat cells st0 = .ok ls)
    (hw : ∀ l ∈ ls, sumW (l.flatMap expand) < 65536) :
    ∃ s, textDraw seg st0 expand style maxW maxH cells = .ok s ∧
      s.h.toNat = min ls.length maxH.toNat ∧
      s.buf.length = s.h.toNat * s.w.toNat ∧
      ∀ x y, x < s.w.toNat → y < s.h.toNat →
        cellAt s x y = over (((ls.getD y []).flatMap expand).map (toWinSt style)) 0
          (fun _ => some { (default : Window.Cell) with st := style }) x := by
  have hall : ∀ l ∈ ls.map (fun l => (l.flatMap expand).map (toWinSt style)),
      (∀ c ∈ l, 0 ≤ c.w) ∧ width l < 65536 := by
    intro l hl
    obtain ⟨l0, hl0, rfl⟩ := List.mem_map.mp hl
    refine ⟨?_, by rw [width_toWinSt]; exact hw l0 hl0⟩
    intro c hc
    obtain ⟨c0, _, rfl⟩ := List.mem_map.mp hc
    simp [toWinSt]
  obtain ⟨s, h1, _, h3, h4, h5⟩ := drawText_cells (Layout.textMode false style) rfl (facts_size_ok.2 false style) rfl (ctxOf maxW maxH) _ hall
  refine ⟨s, ?_, by simpa [ctxOf] using h3, h4, ?_⟩
  · simp only [textDraw, h, facts_draw_modes.1, h1, WrapDraw.ofExcept]
  · intro x y hx hy
    rw [h5 x y hx hy]
    have : (ls.map (fun l => (l.flatMap expand).map (toWinSt style))).getD y [] =
        ((ls.getD y []).flatMap expand).map (toWinSt style) := by
      simp only [List.getD_eq_getElem?_getD, List.getElem?_map]
      cases ls[y]? <;> rfl
    rw [this]; rfl

/-- Within a row: the `j`-th grapheme of the line, if it has positive width, is shown at the column
equal to the display width of the graphemes before it — so a wide grapheme occupies its `width`
columns: the next grapheme starts `width` columns further, the columns in between show the
background.  (A zero-width grapheme is written at the column of its successor and overwritten by
it; the last one of a line stays — `over` keeps the later write.) -/
theorem draw_cell_at_column (line : List Window.Cell) (bg : Nat → Option Window.Cell) (j : Nat)
    (hj : j < line.length) (hpos : 0 < line[j].w) :
    over line 0 bg (width (line.take j)) = some line[j] := by
  have := over_hit line 0 bg j hj hpos
  simpa using this

/-- …and every column at which no grapheme of the line starts shows the background (the zero cell,
with the widget's style for `Text`): nothing else is drawn. -/
theorem draw_other_columns_blank (line : List Window.Cell) (bg : Nat → Option Window.Cell) (x : Nat)
    (h : ∀ j, j < line.length → x ≠ width (line.take j)) : over line 0 bg x = bg x :=
  over_miss line 0 bg x (by simpa using h)

/-- Size: when no drawn line is wider than `Max.Width` (true of soft-wrapped lines up to trailing
whitespace taken with a hard break), the surface is as wide as the widest of the lines shown. -/
theorem draw_width (maxW : UInt16) (lines : List (List Window.Cell))
    (hall : ∀ l ∈ lines, (∀ c ∈ l, 0 ≤ c.w) ∧ width l ≤ maxW.toNat) :
    (widthFold maxW lines 0).toNat = (lines.map width).foldl max 0 := by
  have := widthFold_max maxW lines 0 (by rw [UInt16.le_iff_toNat_le]; simp) hall
  simpa using this

/-- `HardwrapScanner` (the lines of `RichText.Draw` with `Softwrap = false`): the scanning loop
terminates on every input and returns **exactly** the split of the cells at the "\n" graphemes (a
final "\n" adds no empty line, the empty text has no line). -/
theorem hardwrap_is_split_at_newline (cells : List Cell) : hardLines cells = .ok (splitNl cells) :=
  hardLines_eq_split cells

/-- What the source says about the hard-wrap mode of `RichText.Draw` / `Text.Draw` (extracted guards;
the ellipsis condition is `truncate && col+uint16(char.Width) >= ctx.Max.Width` with `truncate` = the
int sum of the widths of the line exceeds `Max.Width` — since /repo 65842f0, finding F316). -/
theorem facts_hard_mode :
    (Layout.richMode true).hard = true ∧ (Layout.richMode true).sizeStrict = true ∧
    (Layout.richMode true).drawStrict = true ∧ (Layout.richMode true).fill = none ∧
    (Layout.richMode true).ellipsisStyle = none ∧
    (Layout.richMode true).ell = [.lineTooWide, .reach] ∧
    (∀ st, (Layout.textMode true st).ell = [.lineTooWide, .reach]) := ⟨rfl, rfl, rfl, rfl, rfl, rfl, fun _ => rfl⟩

/-- **`RichText.Draw` with `Softwrap = false`**, for every text and every `Max`: no panic, no hang;
`min (#lines) Max.Height` rows where the lines are the split of the cells at the hard line breaks
(`hardwrap_is_split_at_newline`); row `y` shows `Spec.WrapDraw.hardLine` of line `y`: **the line
unaltered when it fits `Max.Width`, else its longest prefix that leaves room for the ellipsis followed
by the ellipsis** (`hard_line_fits_unaltered`, `hard_line_truncated_longest_prefix`), every grapheme
at the column equal to the width of the graphemes before it (`over`), the ellipsis in the style of
the first grapheme it replaces. -/
theorem hard_draw_rows (maxW maxH : UInt16) (cells : List Cell)
    (hw : ∀ l ∈ splitNl cells, sumW l < 65536) :
    ∃ s, richHardDraw maxW maxH cells = .ok s ∧
      s.h.toNat = min (splitNl cells).length maxH.toNat ∧
      s.buf.length = s.h.toNat * s.w.toNat ∧
      ∀ x y, x < s.w.toNat → y < s.h.toNat →
        cellAt s x y = over (hardLine maxW.toNat none (((splitNl cells).getD y []).map toWin)) 0 (fun _ => some default) x := by
  have hall : ∀ l ∈ (splitNl cells).map (·.map toWin), (∀ c ∈ l, 0 ≤ c.w) ∧ width l < 65536 := by
    intro l hl
    obtain ⟨l0, hl0, rfl⟩ := List.mem_map.mp hl
    refine ⟨?_, by rw [width_toWin]; exact hw l0 hl0⟩
    intro c hc
    obtain ⟨c0, _, rfl⟩ := List.mem_map.mp hc
    simp [toWin]
  obtain ⟨s, h1, _, h3, h4, h5⟩ := drawText_cells_hard (Layout.richMode true) rfl rfl (facts_size_ok.1 true) rfl (ctxOf maxW maxH) _ hall
  refine ⟨s, ?_, by simpa [ctxOf] using h3, h4, ?_⟩
  · simp only [richHardDraw, hardwrap_is_split_at_newline, facts_draw_modes.1, h1, WrapDraw.ofExcept]
  · intro x y hx hy
    rw [h5 x y hx hy]
    have : ((splitNl cells).map (·.map toWin)).getD y [] = ((splitNl cells).getD y []).map toWin := by
      simp only [List.getD_eq_getElem?_getD, List.getElem?_map]
      cases (splitNl cells)[y]? <;> rfl
    rw [this]; rfl

/-- **`Text.Draw` with `Softwrap = false`** on the lines `bufio.Scanner` hands it (a parameter: any
list of lines, already passed through `ctx.Characters`): the same rows — `hardLine` of each line,
the ellipsis in the widget's style — on a surface filled with that style. -/
theorem text_hard_draw_rows (style : Nat) (maxW maxH : UInt16) (lines : List (List Cell))
    (hw : ∀ l ∈ lines, sumW l < 65536) :
    ∃ s, Layout.drawText Surface.srcArith (Layout.textMode true style) (ctxOf maxW maxH)
          (lines.map (·.map (toWinSt style))) = .ok s ∧
      s.h.toNat = min lines.length maxH.toNat ∧
      s.buf.length = s.h.toNat * s.w.toNat ∧
      ∀ x y, x < s.w.toNat → y < s.h.toNat →
        cellAt s x y = over (hardLine maxW.toNat (some style) ((lines.getD y []).map (toWinSt style))) 0
          (fun _ => some { (default : Window.Cell) with st := style }) x := by
  have hall : ∀ l ∈ lines.map (·.map (toWinSt style)), (∀ c ∈ l, 0 ≤ c.w) ∧ width l < 65536 := by
    intro l hl
    obtain ⟨l0, hl0, rfl⟩ := List.mem_map.mp hl
    refine ⟨?_, by rw [width_toWinSt]; exact hw l0 hl0⟩
    intro c hc
    obtain ⟨c0, _, rfl⟩ := List.mem_map.mp hc
    simp [toWinSt]
  obtain ⟨s, h1, _, h3, h4, h5⟩ := drawText_cells_hard (Layout.textMode true style) rfl rfl (facts_size_ok.2 true style) rfl (ctxOf maxW maxH) _ hall
  refine ⟨s, by rw [facts_draw_modes.1]; exact h1, by simpa [ctxOf] using h3, h4, ?_⟩
  intro x y hx hy
  rw [h5 x y hx hy]
  have : (lines.map (·.map (toWinSt style))).getD y [] = (lines.getD y []).map (toWinSt style) := by
    simp only [List.getD_eq_getElem?_getD, List.getElem?_map]
    cases lines[y]? <;> rfl
  rw [this]; rfl

/-- `text.hardLines` — the lines of a `Text` with `Softwrap = false` (since /repo 3fa26b1, finding F616;
before: `bufio.Scanner`, which stopped at a line longer than 64 KiB and did not break at a lone CR) —
returns **exactly** the split of the text at the hard line breaks: the lines `HardwrapScanner` gives
`RichText` (`hardwrap_is_split_at_newline`). -/
theorem text_hard_lines_are_split (cells : List Cell) : Wrap.textHardLines cells = splitNl cells :=
  textHardLines_eq_split cells

/-- **`Text.Draw` with `Softwrap = false`, end to end** (no line scanner left as a parameter): for every
text and every `Max`, no panic; `min (#lines) Max.Height` rows, the lines being the split of the text at
the hard line breaks; row `y` shows `hardLine` of line `y` in the widget's style on a surface filled
with that style — the line unaltered when it fits, else its longest prefix that leaves room for the
ellipsis followed by the ellipsis. -/
theorem text_hard_draw_exactly_the_lines (style : Nat) (maxW maxH : UInt16) (cells : List Cell)
    (hw : ∀ l ∈ splitNl cells, sumW l < 65536) :
    ∃ s, textHardDraw (fun c => [c]) style maxW maxH cells = .ok s ∧
      s.h.toNat = min (splitNl cells).length maxH.toNat ∧
      s.buf.length = s.h.toNat * s.w.toNat ∧
      ∀ x y, x < s.w.toNat → y < s.h.toNat →
        cellAt s x y = over (hardLine maxW.toNat (some style) (((splitNl cells).getD y []).map (toWinSt style))) 0
          (fun _ => some { (default : Window.Cell) with st := style }) x := by
  obtain ⟨s, h1, h2, h3, h4⟩ := text_hard_draw_rows style maxW maxH (splitNl cells) hw
  refine ⟨s, ?_, h2, h3, h4⟩
  simp only [textHardDraw, text_hard_lines_are_split, WrapDraw.ofExcept]
  have : (List.map (fun l => List.map (toWinSt style) (List.flatMap (fun c => [c]) l)) (splitNl cells)) =
      (splitNl cells).map (·.map (toWinSt style)) := by
    congr 1; funext l; simp
  rw [this, h1]

/-- **A line that fits is drawn unaltered** (`width ≤ Max.Width`, equality included — false before
/repo 65842f0, finding F316, `Witness.F316`): the row of `hard_draw_rows` / `text_hard_draw_rows` is
the row the soft-wrap mode shows for the same line. -/
theorem hard_line_fits_unaltered (maxW : Nat) (est : Option Nat) (line : List Window.Cell)
    (h : width line ≤ maxW) : hardLine maxW est line = line := by
  simp [hardLine, h]

theorem width_append (p q : List Window.Cell) : width (p ++ q) = width p + width q := by
  simp [width]

/-- `Spec.WrapDraw.truncated`, started with `col` columns used: the cut falls in front of a grapheme
`c`; what is kept leaves a column for the ellipsis; with `c` it would not. -/
theorem truncated_cut (maxW : Nat) (est : Option Nat) : ∀ (line : List Window.Cell) (col : Nat),
    col ≤ maxW → col + width line > maxW →
    ∃ p c rest, line = p ++ c :: rest ∧
      Spec.WrapDraw.truncated maxW est line col = p ++ [Spec.WrapDraw.ellipsisFor est c] ∧
      (col + 1 ≤ maxW → col + width p + 1 ≤ maxW) ∧ col + width (p ++ [c]) + 1 > maxW := by
  intro line
  induction line with
  | nil => intro col h1 h2; simp [width] at h2; omega
  | cons c cs ih =>
    intro col h1 h2
    simp only [width, List.map_cons, List.sum_cons] at h2
    by_cases hk : col + c.w.toNat + 1 ≤ maxW
    · obtain ⟨p, c', rest, e1, e2, e3, e4⟩ := ih (col + c.w.toNat) (by omega) (by simp only [width]; omega)
      refine ⟨c :: p, c', rest, by rw [e1]; rfl, by simp only [Spec.WrapDraw.truncated, hk, ↓reduceIte, e2]; rfl, ?_, ?_⟩
      · intro _
        have := e3 hk
        simp only [width, List.map_cons, List.sum_cons] at this ⊢; omega
      · simp only [width, List.cons_append, List.map_cons, List.sum_cons] at e4 ⊢; omega
    · refine ⟨[], c, cs, rfl, by simp only [Spec.WrapDraw.truncated, hk, ↓reduceIte]; rfl, by intro h; simpa [width] using h, ?_⟩
      simp only [width, List.nil_append, List.map_cons, List.map_nil, List.sum_cons, List.sum_nil]; omega

/-- **A line that does not fit is drawn as its longest prefix that leaves room for the ellipsis,
followed by the ellipsis**: `hardLine` is `line.take k ++ […]` where the "…" (width 1) has the style
of grapheme `k`, the first one dropped (or the widget's style); the `k` graphemes kept leave a column
free (whenever the widget has a column at all), and no longer prefix of the line does. -/
theorem hard_line_truncated_longest_prefix (maxW : Nat) (est : Option Nat) (line : List Window.Cell)
    (h : width line > maxW) :
    ∃ (k : Nat) (hk : k < line.length),
      hardLine maxW est line = line.take k ++ [Spec.WrapDraw.ellipsisFor est line[k]] ∧
      (0 < maxW → width (line.take k) + 1 ≤ maxW) ∧
      ∀ n, n ≤ line.length → width (line.take n) + 1 ≤ maxW → n ≤ k := by
  obtain ⟨p, c, rest, e1, e2, e3, e4⟩ := truncated_cut maxW est line 0 (by omega) (by omega)
  have hk : p.length < line.length := by rw [e1]; simp
  have htake : line.take p.length = p := by rw [e1]; simp
  have hget : line[p.length] = c := by simp [e1]
  refine ⟨p.length, hk, ?_, ?_, ?_⟩
  · rw [htake, hget]
    simp only [hardLine, show ¬ width line ≤ maxW by omega, ↓reduceIte, e2]
  · intro h0
    rw [htake]
    have := e3 (by omega); omega
  · intro n hn hw
    by_cases hle : n ≤ p.length
    · exact hle
    · exfalso
      obtain ⟨m, rfl⟩ : ∃ m, n = p.length + 1 + m := ⟨n - p.length - 1, by omega⟩
      have : line.take (p.length + 1 + m) = (p ++ [c]) ++ rest.take m := by
        rw [e1, List.take_append]
        have h1 : List.take (p.length + 1 + m) p = p := List.take_of_length_le (by omega)
        have h2 : p.length + 1 + m - p.length = m + 1 := by omega
        rw [h1, h2, List.take_succ_cons]
        simp
      rw [this, width_append] at hw
      omega

/-- Non-vacuity / the old statement: a line strictly narrower than `Max.Width` never met the ellipsis
branch at all (`overHard` = the loop of the code for a line with `truncate` set). -/
theorem hard_draw_exact_narrow (maxW : Nat) (est : Option Nat) (line : List Window.Cell)
    (f : Nat → Option Window.Cell) (h : width line < maxW) : overHard maxW est line 0 f = over line 0 f :=
  overHard_fits maxW est line 0 f (by simpa using h)

example : hardLine 3 none [⟨5, 1, 0⟩, ⟨6, 2, 0⟩] = [⟨5, 1, 0⟩, ⟨6, 2, 0⟩] ∧
    hardLine 2 none [⟨5, 1, 0⟩, ⟨6, 2, 7⟩] = [⟨5, 1, 0⟩, ⟨Window.gEllipsis, 1, 7⟩] := by decide

/-- Non-vacuity: "世a" drawn by RichText at Max 5×3 gives a 3×1 surface `世 _ a`. -/
example :
    let W : Cell := { g := 7, w := 2, style := 1, sp := false, term := false, nl := false }
    let a : Cell := { g := 8, w := 1, style := 2, sp := false, term := false, nl := false }
    (match richDraw (fun _ _ => false) 5 3 [W, a] with
     | .ok s => decide (s.w = 3 ∧ s.h = 1 ∧ s.buf = [toWin W, default, toWin a])
     | _ => false) = true := by decide

example : splitNl ([] : List Cell) = [] ∧
    (let n : Cell := { g := 1, w := 0, style := 0, sp := true, term := true, nl := true }
     let a : Cell := { g := 2, w := 1, style := 0, sp := false, term := false, nl := false }
     splitNl [a, n, n, a, n] = [[a], [], [a]]) := by decide

end VaxisModel.Props.C16Draw
