import VaxisModel.Props.C16Draw

/-! C16, round 4 — "the text widgets draw exactly the emitted lines, one per row" for ALL widths ≥ 1, the exception of the
property text included: a single grapheme WIDER than the line is emitted on a line of its own (`Props.C16.line_width`:
"a single grapheme wider than the line excepted"), `findContainerSize` counts a row for it, and Draw writes it at column 0
of that row — the surface is `min (line width) Max.Width ≥ 1` columns wide, so the cell exists.  (Seeded change C16-m6
replaced the guard `col >= Max.Width` by `col+uint16(char.Width) > Max.Width` and left that row empty.) -/
namespace VaxisModel.Props.C16DrawAll
open VaxisModel.Model VaxisModel.Model.WrapDraw
open VaxisModel.Model.Wrap (Cell sumW richLines plainLines Lines)
open VaxisModel.Lemmas.WrapDraw VaxisModel.Props.C16Draw
open VaxisModel.Spec.WrapDraw (over width)

/-- **The over-wide grapheme is drawn** (RichText, soft wrap): whenever line `y` of the scanner (below Max.Height) is a
single non-whitespace grapheme of positive width — in particular one WIDER than `Max.Width`, e.g. a 2-column grapheme at
`Max.Width = 1` — the surface shows it, with its style, at column 0 of row `y`.  Every text, every `Max.Width`, every
break function. -/
theorem rich_draw_wide_grapheme_exception (lb : Nat → Nat → Bool) (maxW maxH : UInt16) (cells : List Cell)
    (ls : List (List Cell)) (h : richLines lb maxW.toNat cells = .ok ls) (hw : ∀ l ∈ ls, sumW l < 65536)
    (y : Nat) (c : Cell) (hy : ls[y]? = some [c]) (hyM : y < maxH.toNat) (hsp : c.sp = false) (hc : 0 < c.w) :
    ∃ s, richDraw lb maxW maxH cells = .ok s ∧ cellAt s 0 y = some (toWin c) := by
  obtain ⟨s, h1, h2⟩ := rich_draw_nothing_clipped lb maxW maxH cells ls h hw
  refine ⟨s, h1, ?_⟩
  have ht : (Wrap.trimRight [c])[0]? = some c := by
    simp [Wrap.trimRight, hsp]
  have := h2 y [c] hy hyM 0 c ht hc
  simpa [sumW] using this

/-- **`Text.Draw` (soft wrap) draws exactly the emitted lines** — the scanner's result made explicit, as
`rich_draw_exactly_the_lines` does for RichText: for every segmenter answering with non-empty segments (`OracleOK`), every
text narrower than 2^16 columns, EVERY `Max.Width` (0 and 1 included) and `Max.Height`, with `ctx.Characters` expanding a
grapheme to cells of the same total width (`hexp`): the scanner terminates with lines `ls`, Draw returns a surface (no panic,
no hang) of `min #ls Max.Height` rows holding width × height cells, and row `y` shows line `y` — every grapheme in the widget's
style at the column equal to the width of the graphemes before it, the filled blank elsewhere. -/
theorem text_draw_exactly_the_lines {σ : Type} (seg : σ → List Cell → Nat × Bool × σ) (st0 : σ)
    (hok : VaxisModel.Lemmas.Wrap.OracleOK seg)
    (expand : Cell → List Cell) (hexp : ∀ c, sumW (expand c) = c.w)
    (style : Nat) (maxW maxH : UInt16) (cells : List Cell) (hw : sumW cells < 65536) :
    ∃ ls s, plainLines seg maxW.toNat cells st0 = .ok ls ∧ textDraw seg st0 expand style maxW maxH cells = .ok s ∧
      s.h.toNat = min ls.length maxH.toNat ∧
      s.buf.length = s.h.toNat * s.w.toNat ∧
      ∀ x y, x < s.w.toNat → y < s.h.toNat →
        cellAt s x y = over (((ls.getD y []).flatMap expand).map (toWinSt style)) 0
          (fun _ => some { (default : Window.Cell) with st := style }) x := by
  obtain ⟨ls, hls, _⟩ := VaxisModel.Lemmas.Wrap.scanAll_ok seg st0 maxW.toNat hok (cells.length + 1) cells st0 (Nat.lt_succ_self _)
  have hls' : plainLines seg maxW.toNat cells st0 = .ok ls := hls
  have hflat : ∀ l : List Cell, sumW (l.flatMap expand) = sumW l := by
    intro l
    induction l with
    | nil => rfl
    | cons c r ih =>
      have happ : ∀ a b : List Cell, sumW (a ++ b) = sumW a + sumW b := by
        intro a b; induction a with
        | nil => simp [sumW]
        | cons x xs ih' => simp [sumW, ih']; omega
      simp only [List.flatMap_cons, happ, hexp, ih, sumW]
  have hlw : ∀ l ∈ ls, sumW (l.flatMap expand) < 65536 := by
    intro l hl
    have := scanAll_sumW seg st0 maxW.toNat _ cells st0 ls hls l hl
    rw [hflat]; omega
  obtain ⟨s, h1, h2, h3, h4⟩ := text_draw_rows seg st0 expand style maxW maxH cells ls hls' hlw
  exact ⟨ls, s, hls', h1, h2, h3, h4⟩

/-- … and the over-wide grapheme is drawn by `Text.Draw` too: a line consisting of one grapheme that `ctx.Characters`
leaves as it is shows it at column 0 whenever the surface has a column — and it has one as soon as `Max.Width ≥ 1`
(`rich_draw_wide_grapheme_exception` gives the width argument; here the row content). -/
theorem text_draw_single_grapheme_row {σ : Type} (seg : σ → List Cell → Nat × Bool × σ) (st0 : σ)
    (expand : Cell → List Cell) (style : Nat) (maxW maxH : UInt16) (cells : List Cell)
    (ls : List (List Cell)) (h : plainLines seg maxW.toNat cells st0 = .ok ls)
    (hw : ∀ l ∈ ls, sumW (l.flatMap expand) < 65536)
    (y : Nat) (c : Cell) (hy : ls[y]? = some [c]) (hexp : expand c = [c]) :
    ∃ s, textDraw seg st0 expand style maxW maxH cells = .ok s ∧
      (0 < s.w.toNat → y < s.h.toNat → cellAt s 0 y = some (toWinSt style c)) := by
  obtain ⟨s, h1, _, _, h4⟩ := text_draw_rows seg st0 expand style maxW maxH cells ls h hw
  refine ⟨s, h1, fun hx hys => ?_⟩
  rw [h4 0 y hx hys]
  have hgd : ls.getD y [] = [c] := by rw [List.getD_eq_getElem?_getD, hy]; rfl
  rw [hgd]
  simp [hexp, over]

/-- Non-vacuity, and the case of seeded C16-m6: "世" (2 columns) drawn by RichText at `Max.Width = 1` gives a 1×1 surface
showing "世" at (0,0). -/
theorem wide_grapheme_at_width_one :
    (match richDraw (fun _ _ => true) 1 5 [{ g := 7, w := 2, style := 4, sp := false, term := false, nl := false }] with
     | .ok s => s.w == 1 && s.h == 1 && cellAt s 0 0 == some { g := 10, w := 2, st := 4 }
     | _ => false) = true := by decide

end VaxisModel.Props.C16DrawAll
