import VaxisModel.Model.Wrap
import VaxisModel.Spec.Wrap
import VaxisModel.Lemmas.Wrap
import VaxisModel.Lemmas.WrapE2E
import VaxisModel.Lemmas.WrapSplit
import VaxisModel.Lemmas.WrapSplitPlain

/-! C16, end-to-end statements: the position oracles of `Spec.Wrap` that the driver evaluates on the
real scanners' output (`hardBreakOK`, `noNeedlessSplit`, `conserved`) are *theorems* of the model of
the whole iteration `for scanner.Scan() { lines = append(lines, scanner.Text()) }`, for every text,
every positive width and every segmentation oracle meeting the stated hypotheses. -/
namespace VaxisModel.Props.C16E2E
open VaxisModel.Model.Wrap VaxisModel.Lemmas.Wrap
open VaxisModel.Spec.Wrap (nonWs content conserved hardBreakOK noNeedlessSplit noTermInLines segChain noNeedlessSplitRuns)

/-- "A hard line break always ends the current line", end to end: in the lines of the whole
iteration, two consecutive non-whitespace graphemes of the input that are separated by a line
terminator never share a line (`Spec.Wrap.hardBreakOK`, the oracle the driver evaluates on the real
output).  `OracleTermW o ini Fresh`: for every query whose state belongs to its position (`Fresh`:
the state returned with the remainder, or the state `ini` = -1 that text.go stores after splitting a
long word — F116 fix) a segment has a terminator only as its last cell, with the must-break flag. -/
theorem hard_break_end_to_end {σ : Type} (o : σ → List Cell → Nat × Bool × σ) (ini : σ) (hok : OracleOK o)
    (Fresh : σ → List Cell → Prop) (hot : OracleTermW o ini Fresh) (width : Nat) (hw : 0 < width)
    (cells : List Cell) (st0 : σ) (hf0 : Fresh st0 cells)
    (ls : List (List Cell)) (h : lines o ini width cells st0 = .ok ls) : hardBreakOK cells ls = true :=
  lines_hardBreakOK o ini hok hot width hw cells st0 hf0 ls h

/-- The transcribed `richtext.firstLineSegment` meets the strong form on every query, for every
pairwise break function. -/
theorem rich_oracle_term (lb : Nat → Nat → Bool) : OracleTerm (richOracle lb) := richOracle_term lb

/-- richtext: unconditional. -/
theorem rich_hard_break_end_to_end (lb : Nat → Nat → Bool) (width : Nat) (hw : 0 < width)
    (cells : List Cell) (ls : List (List Cell)) (h : richLines lb width cells = .ok ls) :
    hardBreakOK cells ls = true :=
  lines_hardBreakOK _ () (richOracle_ok lb) ((richOracle_term lb).toW ()) width hw cells () trivial ls h

/-- The whole iteration cuts the text into consecutive pieces, one per line: the input is the
concatenation of the pieces, line `i` holds exactly the non-whitespace graphemes (with styles) of
piece `i`, and a piece has a line terminator at most as its last cell.  (Whole-text conservation
`Props.C16.conservation` is the corollary `content ls.flatten = content cells`.) -/
theorem lines_are_pieces {σ : Type} (o : σ → List Cell → Nat × Bool × σ) (ini : σ) (hok : OracleOK o)
    (Fresh : σ → List Cell → Prop) (hot : OracleTermW o ini Fresh) (width : Nat) (hw : 0 < width)
    (cells : List Cell) (st0 : σ) (hf0 : Fresh st0 cells)
    (ls : List (List Cell)) (h : lines o ini width cells st0 = .ok ls) :
    ∃ ps, cells = ps.flatten ∧ (∀ k, lineIdxFrom k ls = lineIdxFrom k ps) ∧ ∀ p ∈ ps, TermLast p :=
  scanAll_pieces o ini hok hot width hw _ cells st0 ls hf0 h

/-- The literal reading of "a hard line break always ends the current line": no emitted line
contains a line terminator (`Spec.Wrap.noTermInLines`) — for every text whose terminators are
whitespace (true of Unicode: BK, CR, LF, NL are all `unicode.IsSpace`), every width, every oracle.
True of text.go since the F116 fix (before it the scanner queried uniseg with the state of another
position after a long-word split, and a terminator standing first in the remainder was emitted
inside the next line: " 世\nb" at width 1 gave " ", "世", "\nb"). -/
theorem lines_no_terminator {σ : Type} (o : σ → List Cell → Nat × Bool × σ) (ini : σ) (hok : OracleOK o)
    (Fresh : σ → List Cell → Prop) (hot : OracleTermW o ini Fresh) (width : Nat) (cells : List Cell)
    (hsp : ∀ c ∈ cells, c.term = true → c.sp = true) (st0 : σ) (hf0 : Fresh st0 cells)
    (ls : List (List Cell)) (h : lines o ini width cells st0 = .ok ls) : noTermInLines ls = true :=
  scanAll_noterm o ini hok hot width _ cells st0 ls hf0 hsp h

/-- richtext has no segmenter state: unconditional. -/
theorem rich_lines_no_terminator (lb : Nat → Nat → Bool) (width : Nat) (cells : List Cell)
    (hsp : ∀ c ∈ cells, c.term = true → c.sp = true)
    (ls : List (List Cell)) (h : richLines lb width cells = .ok ls) : noTermInLines ls = true :=
  scanAll_noterm _ () (richOracle_ok lb) ((richOracle_term lb).toW ()) width _ cells () ls trivial hsp h

/-- "never split a run of letters that would fit on a line of its own", end to end, richtext: in the
lines of the whole iteration, two neighbouring non-whitespace graphemes of one unbreakable run
(`Spec.Wrap.runs` under the pairwise break function `lb` that `firstLineSegment` consults) land on
different lines only if the run without its trailing whitespace is wider than the line
(`Spec.Wrap.noNeedlessSplit`, the oracle the driver evaluates on the real output).  For every
text whose line terminators are whitespace (true of Unicode), every positive width, every `lb`. -/
theorem rich_no_needless_split_end_to_end (lb : Nat → Nat → Bool) (width : Nat) (hw : 0 < width)
    (cells : List Cell) (hsp : ∀ c ∈ cells, c.term = true → c.sp = true)
    (ls : List (List Cell)) (h : richLines lb width cells = .ok ls) :
    noNeedlessSplit lb width cells ls = true :=
  richLines_noNeedlessSplit lb width hw cells hsp ls h

/-- "never split a run of letters that would fit on a line of its own", end to end, for a scanner
over **any** (stateful) segmentation oracle — the plain-text scanner over uniseg: the runs are the
segments of the segmenter's own segmentation of the whole text (`Spec.Wrap.segChain`: the chain of
queries from the start; for uniseg, the UAX #14 segmentation), and in the lines of the whole
iteration two neighbouring non-whitespace graphemes of one such segment land on different lines
only if the segment without its trailing whitespace is wider than the line
(`Spec.Wrap.noNeedlessSplitRuns`, evaluated by the driver on the real output).  `PosIndep o ini`:
queried with the unknown state inside a segment the segmenter returns the remainder of that segment,
and at a segment boundary it answers as with the carried state (asserted per query by the harness).
True of text.go since the F116 fix ("x （aa bbb" at width 3 used to give "x ", "（a", "a b", "bb"). -/
theorem plain_no_needless_split_end_to_end {σ : Type} (o : σ → List Cell → Nat × Bool × σ) (ini : σ)
    (hok : OracleOK o) (hp : PosIndep o ini) (width : Nat) (hw : 0 < width) (cells : List Cell) (st0 : σ)
    (ls : List (List Cell)) (h : lines o ini width cells st0 = .ok ls) :
    noNeedlessSplitRuns (segChain o (cells.length + 1) st0 cells) width ls = true :=
  lines_noNeedlessSplitRuns o ini hok hp width hw cells st0 ls h

/-- Non-vacuity: the transcribed `firstLineSegment` is position independent for every pairwise
break function (so the general theorem applies to richtext too, with its segments as runs). -/
theorem rich_pos_indep (lb : Nat → Nat → Bool) : PosIndep (richOracle lb) () := by
  refine ⟨fun st rest j hj hlt _ => ⟨?_, rfl⟩, fun st rest _ => rfl⟩
  simp only [richOracle] at hlt ⊢
  exact fls_drop lb rest true j hj hlt

/-- **The whole property for `richtext.SoftwrapScanner`, unconditionally** (no hypothesis on a
segmentation oracle: `firstLineSegment` is transcribed, the pairwise break function `lb` is arbitrary).
For every text whose line terminators are whitespace (true of Unicode), every positive width: the
iteration terminates with lines `ls`; nothing but whitespace is lost, order and styles kept; every
line fits the width (trailing whitespace and single over-wide graphemes aside); a hard line break
always ends the line (both readings); no run that fits a line of its own is split.  The same strength
as the plain scanner's theorems, which carry the oracle hypotheses `OracleOK`/`OracleTermW`/`PosIndep`. -/
theorem rich_wrap_property (lb : Nat → Nat → Bool) (width : Nat) (hw : 0 < width) (cells : List Cell)
    (hsp : ∀ c ∈ cells, c.term = true → c.sp = true) :
    ∃ ls, richLines lb width cells = .ok ls ∧
      conserved cells ls = true ∧
      (∀ l ∈ ls, VaxisModel.Spec.Wrap.lineWidthOK width l = true) ∧
      hardBreakOK cells ls = true ∧ noTermInLines ls = true ∧
      noNeedlessSplit lb width cells ls = true := by
  obtain ⟨ls, h, hc⟩ := scanAll_ok (richOracle lb) () width (richOracle_ok lb) (cells.length + 1) cells ()
    (Nat.lt_succ_self _)
  refine ⟨ls, h, by simp [conserved, hc hw], scanAll_width _ () width _ cells () ls h,
    rich_hard_break_end_to_end lb width hw cells ls h, rich_lines_no_terminator lb width cells hsp ls h,
    rich_no_needless_split_end_to_end lb width hw cells hsp ls h⟩

/-- **The whole property for `text.SoftwrapScanner`** over any segmenter meeting the three hypotheses
the harness asserts of uniseg per query (`OracleOK`, `OracleTermW … Fresh`, `PosIndep`), started in the
unknown state like the real scanner: termination, conservation, width, hard breaks (both readings), no
needless split (runs = the segmenter's own segmentation). -/
theorem plain_wrap_property {σ : Type} (o : σ → List Cell → Nat × Bool × σ) (ini : σ) (hok : OracleOK o)
    (Fresh : σ → List Cell → Prop) (hot : OracleTermW o ini Fresh) (hp : PosIndep o ini)
    (width : Nat) (hw : 0 < width) (cells : List Cell) (hf0 : Fresh ini cells)
    (hsp : ∀ c ∈ cells, c.term = true → c.sp = true) :
    ∃ ls, plainLines o width cells ini = .ok ls ∧
      conserved cells ls = true ∧
      (∀ l ∈ ls, VaxisModel.Spec.Wrap.lineWidthOK width l = true) ∧
      hardBreakOK cells ls = true ∧ noTermInLines ls = true ∧
      noNeedlessSplitRuns (segChain o (cells.length + 1) ini cells) width ls = true := by
  obtain ⟨ls, h, hc⟩ := scanAll_ok o ini width hok (cells.length + 1) cells ini (Nat.lt_succ_self _)
  refine ⟨ls, h, by simp [conserved, hc hw], scanAll_width _ ini width _ cells ini ls h,
    hard_break_end_to_end o ini hok Fresh hot width hw cells ini hf0 ls h,
    lines_no_terminator o ini hok Fresh hot width cells hsp ini hf0 ls h,
    plain_no_needless_split_end_to_end o ini hok hp width hw cells ini ls h⟩

/-! ### `PosIndep` cannot be dropped

A segmenter whose answer from the unknown state, *inside* a segment, runs past the end of that segment
(a break opportunity of the whole-text segmentation is lost for a restarted query — what uniseg does
in the LB14 / LB25 contexts the harness discards) makes the scanner split a run that fits: the
hypothesis of `plain_no_needless_split_end_to_end` is necessary, and a proof without it would have
to be about uniseg's rules themselves. -/

/-- A segmenter over states: 9 = the unknown state (`-1` of uniseg; also what the scanner stores after
splitting a long word).  From the start it cuts the 8-grapheme text `aaaa|bb|cc`; asked again with the
unknown state in front of the last `a` it answers `ab|bc|c`. -/
def shiftyOracle (st : Nat) (rest : List Cell) : Nat × Bool × Nat :=
  match st, rest.length with
  | 9, 8 => (4, false, 0)
  | 0, 4 => (2, false, 0)
  | 9, 5 => (2, false, 2)
  | 2, 3 => (2, false, 2)
  | _, n => (n, true, st)

theorem shiftyOracle_ok : OracleOK shiftyOracle := by
  intro st rest hne
  have hpos : 0 < rest.length := List.length_pos_iff.mpr hne
  unfold shiftyOracle
  split <;> simp_all <;> omega

/-- **The hypothesis `PosIndep` of `plain_no_needless_split_end_to_end` is necessary**: there are a
segmenter meeting `OracleOK`, a text and a width for which the scanner model — started, like
`text.SoftwrapScanner`, in the same unknown state it falls back to after a long-word split — emits
lines that split a run which fits on a line of its own (`aaaa bb cc` without the blanks at width 3:
lines `aaa`, `ab`, `bcc`; the run `bb` is divided). -/
theorem plain_no_needless_split_needs_pos_indep :
    ∃ (o : Nat → List Cell → Nat × Bool × Nat) (ini : Nat) (width : Nat) (cells : List Cell) (ls : List (List Cell)),
      OracleOK o ∧ 0 < width ∧ plainLines o width cells ini = .ok ls ∧
      noNeedlessSplitRuns (segChain o (cells.length + 1) ini cells) width ls = false ∧ ¬ PosIndep o ini := by
  let a : Cell := { g := 0, w := 1, style := 0, sp := false, term := false, nl := false }
  let b : Cell := { g := 1, w := 1, style := 0, sp := false, term := false, nl := false }
  let c : Cell := { g := 2, w := 1, style := 0, sp := false, term := false, nl := false }
  have hl : plainLines shiftyOracle 3 [a, a, a, a, b, b, c, c] 9 = .ok [[a, a, a], [a, b], [b, c, c]] := by decide
  have hn : noNeedlessSplitRuns (segChain shiftyOracle ([a, a, a, a, b, b, c, c].length + 1) 9 [a, a, a, a, b, b, c, c]) 3
      [[a, a, a], [a, b], [b, c, c]] = false := by decide
  refine ⟨shiftyOracle, 9, 3, [a, a, a, a, b, b, c, c], [[a, a, a], [a, b], [b, c, c]], shiftyOracle_ok, by decide, hl, hn, ?_⟩
  intro hp
  have := plain_no_needless_split_end_to_end shiftyOracle 9 shiftyOracle_ok hp 3 (by decide) [a, a, a, a, b, b, c, c] 9 _ hl
  rw [hn] at this
  exact Bool.false_ne_true this

/-- Non-vacuity for `rich_no_needless_split_end_to_end`: "ab cd" at width 3 keeps "ab" and "cd" whole
(and the oracle rejects the cutting "a" | "b cd"); "abcd" at width 3 is divided, which the oracle
accepts because the run does not fit. -/
example :
    let a : Cell := { g := 0, w := 1, style := 1, sp := false, term := false, nl := false }
    let s : Cell := { g := 1, w := 1, style := 0, sp := true, term := false, nl := false }
    let lb : Nat → Nat → Bool := fun x _ => x == 1
    richLines lb 3 [a, a, s, a, a] = .ok [[a, a, s], [a, a]] ∧
    noNeedlessSplit lb 3 [a, a, s, a, a] [[a, a, s], [a, a]] = true ∧
    noNeedlessSplit lb 3 [a, a, s, a, a] [[a], [a, s, a, a]] = false ∧
    richLines lb 3 [a, a, a, a] = .ok [[a, a, a], [a]] ∧
    noNeedlessSplit lb 3 [a, a, a, a] [[a, a, a], [a]] = true := by decide

/-- Non-vacuity: "a\nb" at width 5 gives two lines although both letters would fit on one. -/
example :
    let a : Cell := { g := 0, w := 1, style := 1, sp := false, term := false, nl := false }
    let n : Cell := { g := 1, w := 0, style := 0, sp := true, term := true, nl := true }
    richLines (fun _ _ => false) 5 [a, n, a] = .ok [[a], [a]] ∧
    hardBreakOK [a, n, a] [[a], [a]] = true ∧ hardBreakOK [a, n, a] [[a, a]] = false ∧
    noTermInLines [[a], [a]] = true ∧ (∀ c ∈ [a, n, a], c.term = true → c.sp = true) := by decide

end VaxisModel.Props.C16E2E
