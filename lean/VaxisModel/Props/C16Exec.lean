import VaxisModel.Props.C14Body
import VaxisModel.Props.C16Draw

/-! C14 × C16, round 4 — the EXECUTED source of `RichText.drawSoftwrap` / `findContainerSize` draws exactly the emitted lines.

`Props/C16Draw` proves what `Model.WrapDraw.richDraw` (= the scanner model composed with `Layout.drawText`) shows;
`Props/C14Body` proves that the regenerated bodies of `drawSoftwrap` and `findContainerSize`, run by the statement interpreter,
ARE `Layout.drawText`.  Here the two are joined: running the bodies extracted from /repo on the lines of the scanner model
returns a surface whose row `y` shows line `y`. -/
namespace VaxisModel.Props.C16Exec
open VaxisModel.Model VaxisModel.Model.WrapDraw VaxisModel.Model.SurfExec
open VaxisModel.Model.Wrap (Cell sumW richLines plainLines Lines)
open VaxisModel.Lemmas.WrapDraw VaxisModel.Lemmas.SurfExec VaxisModel.Props.C16Draw VaxisModel.Props.C14Body
open VaxisModel.Spec.WrapDraw (over)

theorem srcArith_exact : Surface.srcArith = exactA := by decide

/-- **executed_rich_draw_shows_the_lines.** For every text (each emitted line narrower than 2^16 columns), every `Max`, every
break function: the regenerated body of `RichText.drawSoftwrap`, executed with the executed `findContainerSize` on the lines of the
scanner model, returns a surface — no panic, not stuck — of `min #lines Max.Height` rows in which row `y` shows line `y` cell by cell. -/
theorem executed_rich_draw_shows_the_lines (lb : Nat → Nat → Bool) (maxW maxH : UInt16) (cells : List Cell)
    (ls : List (List Cell)) (h : richLines lb maxW.toNat cells = .ok ls) (hw : ∀ l ∈ ls, sumW l < 65536) (scr : Window.Screen) :
    ∃ s, (run (richRo maxW (ls.map (·.map toWin))) Gen.SurfaceBodies.richDrawSoftwrap Gen.SurfaceBodies.richDrawSoftwrapParams
            [.wid 0, .ctx (ctxOf maxW maxH)] scr).map (·.1) = .ok (.tup (.surf s) .nil) ∧
      s.h.toNat = min ls.length maxH.toNat ∧
      ∀ x y, x < s.w.toNat → y < s.h.toNat →
        cellAt s x y = over ((ls.getD y []).map toWin) 0 (fun _ => some default) x := by
  obtain ⟨s, h1, h2, _, _, h5⟩ := rich_draw_rows lb maxW maxH cells ls h hw
  refine ⟨s, ?_, h2, h5⟩
  have hsz := richFindContainerSize_soft_body_eq_model
    ({ noRo with fields := fun f => if f = "Softwrap" then some (.bool true) else none, soft := ls.map (·.map toWin), wrapW := maxW } : Ro)
    (ctxOf maxW maxH) (ls.map (·.map toWin)).flatten (Window.Screen.resize 0 0) (by simp) rfl
  rw [richDrawSoftwrap_is_drawText (richRo maxW (ls.map (·.map toWin))) (ctxOf maxW maxH) (ls.map (·.map toWin)).flatten scr
    (by simp [richRo]) (by simp only [richRo]; simp; exact hsz) rfl]
  simp only [richDraw, h, srcArith_exact] at h1
  cases hd : Layout.drawText exactA (Layout.richMode false) (ctxOf maxW maxH) (ls.map (·.map toWin)) with
  | error p => rw [hd] at h1; simp [WrapDraw.ofExcept] at h1
  | ok s' =>
    rw [hd] at h1; simp only [WrapDraw.ofExcept, Drawn.ok.injEq] at h1; subst h1
    have hsoft : (richRo maxW (ls.map (·.map toWin))).soft = ls.map (·.map toWin) := rfl
    rw [hsoft, hd]

theorem restyle_toWinSt (st : Nat) (l : List Cell) : (l.map (toWinSt st)).map (restyle st) = l.map (toWinSt st) := by
  induction l with
  | nil => rfl
  | cons c r ih => simp [restyle, toWinSt, ih]

/-- **executed_text_draw_shows_the_lines.** The same for `Text`: the regenerated bodies of `Text.drawSoftwrap` and
`Text.findContainerSize`, executed on the lines of the plain scanner model (any segmenter; `ctx.Characters` as `expand`), return a
surface filled with the widget's style whose row `y` shows line `y` in that style. -/
theorem executed_text_draw_shows_the_lines {σ : Type} (seg : σ → List Cell → Nat × Bool × σ) (st0 : σ)
    (expand : Cell → List Cell) (style : Nat) (maxW maxH : UInt16) (cells : List Cell)
    (ls : List (List Cell)) (h : plainLines seg maxW.toNat cells st0 = .ok ls)
    (hw : ∀ l ∈ ls, sumW (l.flatMap expand) < 65536) (scr : Window.Screen) :
    ∃ s, (run (textRo maxW style (ls.map fun l => (l.flatMap expand).map (toWinSt style)))
            Gen.SurfaceBodies.textDrawSoftwrap Gen.SurfaceBodies.textDrawSoftwrapParams
            [.wid 0, .ctx (ctxOf maxW maxH)] scr).map (·.1) = .ok (.tup (.surf s) .nil) ∧
      s.h.toNat = min ls.length maxH.toNat ∧
      ∀ x y, x < s.w.toNat → y < s.h.toNat →
        cellAt s x y = over (((ls.getD y []).flatMap expand).map (toWinSt style)) 0
          (fun _ => some { (default : Window.Cell) with st := style }) x := by
  obtain ⟨s, h1, h2, _, h5⟩ := text_draw_rows seg st0 expand style maxW maxH cells ls h hw
  refine ⟨s, ?_, h2, h5⟩
  have hL : (ls.map fun l => (l.flatMap expand).map (toWinSt style)).map (List.map (restyle style))
      = ls.map fun l => (l.flatMap expand).map (toWinSt style) := by
    simp only [List.map_map, Function.comp_def]
    exact List.map_congr_left (fun l _ => List.map_congr_left (fun c _ => by simp [restyle, toWinSt]))
  have hsz := textFindContainerSize_soft_body_eq_model
    ({ noRo with
        fields := fun f => if f = "Softwrap" then some (.bool true) else if f = "Content" then some .text
                           else if f = "Style" then some (.sty style) else none,
        soft := ls.map fun l => (l.flatMap expand).map (toWinSt style), wrapW := maxW } : Ro)
    (ctxOf maxW maxH) (Window.Screen.resize 0 0) (by simp) (by simp) rfl
  rw [textDrawSoftwrap_is_drawText (textRo maxW style (ls.map fun l => (l.flatMap expand).map (toWinSt style))) (ctxOf maxW maxH) style scr
    (by simp [textRo]) (by simp [textRo])
    (by
      have hsoft : (textRo maxW style (ls.map fun l => (l.flatMap expand).map (toWinSt style))).soft
          = ls.map fun l => (l.flatMap expand).map (toWinSt style) := rfl
      rw [hsoft, hL]
      simp only [textRo]; simp; exact hsz) rfl]
  have hsoft : (textRo maxW style (ls.map fun l => (l.flatMap expand).map (toWinSt style))).soft
      = ls.map fun l => (l.flatMap expand).map (toWinSt style) := rfl
  rw [hsoft, hL]
  simp only [textDraw, h, srcArith_exact] at h1
  cases hd : Layout.drawText exactA (Layout.textMode false style) (ctxOf maxW maxH) (ls.map fun l => (l.flatMap expand).map (toWinSt style)) with
  | error p => rw [hd] at h1; simp [WrapDraw.ofExcept] at h1
  | ok s' => rw [hd] at h1; simp only [WrapDraw.ofExcept, Drawn.ok.injEq] at h1; subst h1; rfl

end VaxisModel.Props.C16Exec
