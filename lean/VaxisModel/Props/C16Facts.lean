import VaxisModel.Gen.WrapFacts
import VaxisModel.Model.Wrap
import VaxisModel.Lemmas.WrapFacts

/-! C16 — tie of `Model/Wrap.lean` to the source through the extractor `extract/cmd/C16`
(`Gen/WrapFacts.lean`, regenerated from /repo on every check run).

The extractor reads both `SoftwrapScanner.Scan` functions (vxfw/text/text.go, vxfw/richtext/richtext.go),
`firstLineSegment`, `HardwrapScanner.Scan` and the row loops of `drawSoftwrap` / `findContainerSize`
into lists of `(guard, actions)` steps with one normalisation for both packages.  The theorems below
pin every extracted fact to the literal the model transcribes (each with the lines of
`Model/Wrap.lean` it stands for), state that the two scanners are the same algorithm
(`scanners_agree`), and — for the loop of `Scan` and the long-word loop — that the extracted steps,
parsed and executed symbolically (`Lemmas/WrapFacts.lean`), *are* `scanLoop` / `splitLong`
(`facts_loop_meaning`, `facts_long_word_meaning`). A changed operator, operand, order of guards,
accumulator type or a divergence between the two packages makes one of these fail. -/
namespace VaxisModel.Props.C16Facts
open VaxisModel.Gen.WrapFacts
open VaxisModel.Model.Wrap
open VaxisModel.Lemmas.WrapFacts

/-- The extractor recognised every shape it looks for. -/
theorem fully_recognised : extractErrors = [] := by decide

/-- text.SoftwrapScanner.Scan and richtext.SoftwrapScanner.Scan are the same algorithm: entry guard,
statements before the loop, accumulator types, `width`, the sums, the definition of `trSpace`, the
chain of guards of the loop and the long-word branch (without text.go's assignments to `s.state`,
pinned in `facts_state_reset_on_split`) are
literally equal after normalisation.  This is why the model has one `scanLoop` for both. -/
theorem scanners_agree :
    textEntry = richEntry ∧ textEntryActs = richEntryActs ∧ textInit = richInit ∧
    textWidthDef = richWidthDef ∧ textAccTypes = richAccTypes ∧
    textTrSpaceDef = richTrSpaceDef ∧ textSums = richSums ∧ textSumStmts = richSumStmts ∧
    textConversions = richConversions ∧ textSumsInInt = richSumsInInt ∧
    textLoop = richLoop ∧
    textLongPre = richLongPre ∧ textLongRange = richLongRange ∧ textLongBody = richLongBody ∧
    textLongPost = richLongPost := by
  and_intros <;> decide

/-- Entry of `Scan`.  Model (`scan`):
`if rest.isEmpty || width == 0 then .stop else scanLoop o ini width rest.length rest st [] 0`
— the guard `len(s.rest) == 0 || s.width == 0` returns false; then the token is cleared (`[]`),
`width := int(s.width)` and `w` starts at 0 (`var w int`). -/
theorem facts_entry :
    textEntry = ("||", [("len(R.rest)", "==", "0"), ("R.width", "==", "0")]) ∧
    textEntryActs = ["return false"] ∧
    textInit = ["R.token=EMPTY", "width:=int(R.width)", "var w int"] := by
  and_intros <;> decide

/-- The part of the loop body before the guards.  Model (`scanLoop`):
```
let r := o st rest                      -- the segmentation call (oracle; richtext: firstLineSegment)
let seg := rest.take r.1; let rest' := rest.drop r.1; let br := r.2.1
let word := trimRight seg               -- bytes.TrimRightFunc(seg, unicode.IsSpace) / the "TrimRight" loop
let trSpace := seg.drop word.length     -- seg[len(word):]
let wordLen := sumW word; let spaceLen := sumW trSpace
```
text.go passes and receives the uniseg state (`o st rest` with `σ` = that state); richtext computes
`rest` by slicing (`rest.drop r.1`).  text.go sums over `ctx.Characters(string(word))`
(`textAliases`; A-concat in notes/C16.md). -/
theorem facts_segmentation :
    textPrelude = ["seg,rest,br,state:=uniseg.FirstLineSegment(R.rest,R.state)",
      "word:=bytes.TrimRightFunc(seg,unicode.IsSpace)", "trSpace:=seg[len(word):]",
      "wordChars:=CTX.Characters(string(word))", "var wordLen int",
      "for _,E:=range word {", "wordLen+=E.Width", "}",
      "spaceChars:=CTX.Characters(string(trSpace))", "var spaceLen int",
      "for _,E:=range trSpace {", "spaceLen+=E.Width", "}"] ∧
    textAliases = [("wordChars", "CTX.Characters(string(word))"),
      ("spaceChars", "CTX.Characters(string(trSpace))")] ∧
    richPrelude = ["seg,br:=firstLineSegment(R.rest)", "rest:=EMPTY",
      "if (len(seg)<len(R.rest)) {", "rest=R.rest[len(seg):]", "}",
      "var word []vaxis.Cell", "var wordLen int", "var spaceLen int",
      "for i:=(len(seg)-1);(i>=0);i-=1 {", "cell:=seg[i]",
      "r,_:=utf8.DecodeLastRuneInString(cell.Grapheme)", "if unicode.IsSpace(r) {", "continue", "}",
      "word=seg[:(i+1)]", "break", "}",
      "trSpace:=seg[len(word):]",
      "for _,E:=range word {", "wordLen+=E.Width", "}",
      "for _,E:=range trSpace {", "spaceLen+=E.Width", "}"] ∧
    richAliases = [] ∧
    textTrSpaceDef = "seg[len(word):]" ∧
    textSums = [("word", "wordLen", "+=", "E.Width"), ("trSpace", "spaceLen", "+=", "E.Width")] := by
  and_intros <;> decide

/-- The chain of guards of the loop, in source order.  Model (`scanLoop`):
```
if wordLen > width then … splitLong …                                   -- step 0: LONG
else if w + wordLen > width then .line rest st token                    -- step 1: return true
else if br then .line rest' r.2.2 (token ++ stripBreak seg)             -- steps 2, 3
else
  let token := token ++ word; let w := w + wordLen                      -- steps 4, 5
  if w + spaceLen > width then .line rest' r.2.2 token                  -- step 6
  else scanLoop o ini width fuel rest' r.2.2 (token ++ trSpace) (w + spaceLen)  -- steps 7, 8, next iteration
``` -/
theorem facts_loop_guards :
    textLoop = [
      (("", [("wordLen", ">", "width")]), ["LONG"]),
      (("", [("(w+wordLen)", ">", "width")]), ["return true"]),
      (("always", []), ["R.rest=rest"]),
      (("", [("br", "", "")]), ["STRIPBREAK", "R.token=append(R.token,seg...)", "return true"]),
      (("always", []), ["R.token=append(R.token,word...)"]),
      (("always", []), ["w+=wordLen"]),
      (("", [("(w+spaceLen)", ">", "width")]), ["return true"]),
      (("always", []), ["R.token=append(R.token,trSpace...)"]),
      (("always", []), ["w+=spaceLen"])] ∧
    textLoop = dropState textLoopFull ∧ richLoop = richLoopFull := by
  and_intros <;> decide

/-- The extracted chain *is* `scanLoop`: both packages' chains parse (operators, operands, actions)
to `Lemmas.WrapFacts.loopChain`, and one iteration of `scanLoop` equals the replay of the symbolic
execution of that chain on the model's values (`replayLoop`: the exit taken, the value of `w`, which
of seg / word / trSpace were appended to the token, whether `s.rest = rest` was reached), for every
oracle, width, text, state, token and `w`. -/
theorem facts_loop_meaning :
    parseSteps textLoop = some loopChain ∧ parseSteps richLoop = some loopChain ∧
    ∀ {σ : Type} (o : σ → List Cell → Nat × Bool × σ) (ini : σ) (width fuel : Nat) (rest : List Cell) (st : σ)
      (token : List Cell) (w : Nat),
      scanLoop o ini width (fuel + 1) rest st token w = replayLoop o ini width fuel rest st token w :=
  ⟨by decide, by decide, fun o ini width fuel rest st token w => scanLoop_eq_replay o ini width fuel rest st token w⟩

/-- Executing the extracted chain takes exactly the branches of `scanLoop` (`loopOutcome` is the
`if` chain of the model over `w`, `wordLen`, `spaceLen`, `width`, `br`). -/
theorem facts_loop_branches (e : Env) (br : Bool) :
    (parseSteps textLoop).map (runSteps (fun _ => br) e []) = some (loopOutcome e br) := by
  rw [show parseSteps textLoop = some loopChain by decide]
  simp only [Option.map, run_loopChain]

/-- Non-vacuity: `w = 2`, a 3-column word with one trailing space on a 6-column line: the word is
appended, the space does not fit, `Scan` returns. A 7-column word takes the long-word branch. -/
example : loopOutcome ⟨2, 3, 2, 6, 0, 1⟩ false = ⟨5, [.restSet "rest", .tok "word"], some .ret⟩ := by decide
example : loopOutcome ⟨2, 7, 0, 6, 0, 1⟩ false = ⟨2, [], some .long⟩ := by decide

/-- The long-word branch (F44/F45 fixes included).  Model (`scanLoop`, `splitLong`):
```
let sp := splitLong width (!token.isEmpty) w word
.line (sp.2 ++ trSpace ++ rest') ini (token ++ sp.1)      -- rest = chars left ++ trSpace ++ rest; (text.go: s.state = -1;) return true

splitLong: let w := if ne && w + c.w > width then width else w   -- len(s.token) > 0 && w+char.Width > width ⇒ w = width
           if w ≥ width then (r.1, c :: r.2)                      -- w >= width ⇒ append to rest; continue
           else splitLong width true (w + c.w) cs; (c :: r.1, r.2) -- append to token; w += char.Width
``` -/
theorem facts_long_word :
    textLongPre = ["R.rest=EMPTY"] ∧ textLongRange = "word" ∧
    textLongBody = [
      (("&&", [("len(R.token)", ">", "0"), ("(w+E.Width)", ">", "width")]), ["w=width"]),
      (("", [("w", ">=", "width")]), ["R.rest=append(R.rest,E)", "continue"]),
      (("always", []), ["R.token=append(R.token,E)"]),
      (("always", []), ["w+=E.Width"])] ∧
    textLongPost = ["R.rest=append(R.rest,trSpace...)", "R.rest=append(R.rest,rest...)", "return true"] := by
  and_intros <;> decide

/-- The extracted long-word loop body *is* one step of `splitLong`: it parses to `longChain`, and
`splitLong` on `c :: cs` equals the replay of executing that chain with `E.Width = c.w`
(`ne` = `len(s.token) > 0`). -/
theorem facts_long_word_meaning :
    parseSteps textLongBody = some longChain ∧ parseSteps richLongBody = some longChain ∧
    ∀ (width : Nat) (ne : Bool) (w : Nat) (c : Cell) (cs : List Cell) (flag : String → Bool),
      let t := runSteps flag ⟨w, 0, 0, width, c.w, if ne then 1 else 0⟩ [] longChain
      splitLong width ne w (c :: cs) =
        match t.exit with
        | some _ => let r := splitLong width ne t.w cs; (r.1, c :: r.2)
        | none => let r := splitLong width true t.w cs; (c :: r.1, r.2) :=
  ⟨by decide, by decide, splitLong_eq_replay⟩

/-- Non-vacuity (F44): on a partly filled line (`w = 1`, width 2) a 2-column grapheme goes to rest. -/
example : longOutcome ⟨1, 0, 0, 2, 2, 1⟩ = ⟨2, [.restApp "E"], some .cont⟩ := by decide

/-- Widths are summed in Go `int` (F45 fix): `w`, `wordLen`, `spaceLen` are declared `int`,
`width := int(s.width)`, `Character.Width` is an `int`, and no numeric conversion occurs in any sum
or guard — so the model's `Nat` sums (`sumW`, `w + wordLen`) cannot wrap; `s.width` itself is a
`uint16` (the model's `width : Nat` ranges over more).  Model: `def sumW`, `scanLoop … (w : Nat)`. -/
theorem facts_sums_int :
    textSumsInInt = true ∧ richSumsInInt = true ∧
    textAccTypes = [("w", "int"), ("wordLen", "int"), ("spaceLen", "int")] ∧
    textWidthDef = "int(R.width)" ∧
    characterFields = [("Grapheme", "string"), ("Width", "int")] ∧
    textSumStmts = ["wordLen+=E.Width", "spaceLen+=E.Width", "w=width", "w+=E.Width", "w+=wordLen", "w+=spaceLen"] ∧
    textConversions = [] ∧ richConversions = [] := by
  and_intros <;> decide

/-- The uniseg state of text.go (`s.state`, an `int`; richtext has none) is assigned in exactly two
places: `s.state = state` right after `s.rest = rest` (step 3 of `textLoopFull`, after the long-word
branch and the does-not-fit return), and `s.state = -1` in the long-word branch (F116 fix: after a
split `rest` no longer starts where the old state belongs).  Model (`scanLoop`, `ini` = -1):
`.line (sp.2 ++ trSpace ++ rest') ini …` (long word), `.line rest st token` (does not fit: the *old*
state, nothing consumed), `.line rest' r.2.2 …` (every other exit). -/
theorem facts_state_reset_on_split :
    textStateAssigns = [("long", "R.state=-1"), ("loop:3", "R.state=state")] ∧ richStateAssigns = [] ∧
    textLoopFull.take 4 = [
      (("", [("wordLen", ">", "width")]), ["LONG"]),
      (("", [("(w+wordLen)", ">", "width")]), ["return true"]),
      (("always", []), ["R.rest=rest"]),
      (("always", []), ["R.state=state"])] ∧
    textFields = [("state", "int"), ("rest", "[]byte"), ("token", "[]byte"), ("width", "uint16")] ∧
    richFields = [("rest", "[]vaxis.Cell"), ("token", "[]vaxis.Cell"), ("width", "uint16")] := by
  and_intros <;> decide

/-- Removal of the hard break in the `br` step.  Model (`stripBreak`):
`match seg.getLast? with | some l => if l.term then seg.dropLast else seg | none => seg`.
richtext drops the last cell when it has a trailing line break; text.go drops the last rune of the
segment and, since the F416 fix, the "\r" before a "\n" — i.e. the whole terminator cluster, as the
model does ("\r\n" is one grapheme cluster). -/
theorem facts_strip :
    richStrip = ["last:=seg[(len(seg)-1)]", "if uniseg.HasTrailingLineBreakInString(last.Grapheme) {",
      "seg=seg[:(len(seg)-1)]", "}"] ∧
    textStrip = ["if uniseg.HasTrailingLineBreak(seg) {", "r,l:=utf8.DecodeLastRune(seg)",
      "seg=seg[:(len(seg)-l)]", "if ((r=='\\n')&&bytes.HasSuffix(seg,[]byte(\"\\r\"))) {",
      "seg=seg[:(len(seg)-1)]", "}", "}"] := by
  and_intros <;> decide

/-- richtext.firstLineSegment.  Model (`firstLineSegment`, `first` = `i == 0`, `c` = cell, `n` = next):
```
| _, [] => (0, false)                      -- final `return cells, false`
| _, [_] => (1, true)                      -- i == len(cells)-1 ⇒ return cells, true
| first, c :: n :: rest =>
  if first && c.term then (1, true)        -- i == 0 && HasTrailingLineBreakInString(cell) ⇒ cells[:i+1], true
  else if n.term then (2, true)            -- HasTrailingLineBreakInString(next) ⇒ cells[:i+2], true
  else if lb c.g n.g then (1, false)       -- len(rest) > 0 ⇒ cells[:i+1], false
  else (r.1 + 1, r.2)                      -- next iteration
``` -/
theorem facts_first_line_segment :
    flsPre = ["var rest string"] ∧ flsRange = "for K,E:=range cells" ∧
    flsBody = [
      (("", [("K", "==", "(len(cells)-1)")]), ["return cells,true"]),
      (("always", []), ["next:=cells[(K+1)]"]),
      (("&&", [("K", "==", "0"), ("uniseg.HasTrailingLineBreakInString(E.Grapheme)", "", "")]),
        ["return cells[:(K+1)],true"]),
      (("", [("uniseg.HasTrailingLineBreakInString(next.Grapheme)", "", "")]), ["return cells[:(K+2)],true"]),
      (("always", []), ["_,rest,_,_=uniseg.FirstLineSegmentInString((E.Grapheme+next.Grapheme),-1)"]),
      (("", [("len(rest)", ">", "0")]), ["return cells[:(K+1)],false"])] ∧
    flsPost = ["return cells,false"] := by
  and_intros <;> decide

/-- HardwrapScanner.Scan.  Model (`hardScan`, `hardLoop`):
```
if cells.isEmpty then none else some (hardLoop [] cells)      -- len(h.cells) == 0 ⇒ false; h.line = []
| line, c :: cs => if c.nl then                               -- HasTrailingLineBreakInString(cell.Grapheme)
    if cs.isEmpty then (line, [])                             -- i == len(h.cells)-1 ⇒ break ⇒ h.cells = []; true
    else (line, cs)                                           -- h.cells = h.cells[i+1:]; return true
  else hardLoop (line ++ [c]) cs                              -- h.line = append(h.line, cell)
| line, [] => (line, [])                                      -- h.cells = []; return true
``` -/
theorem facts_hardwrap :
    hardEntry = ("", [("len(R.cells)", "==", "0")]) ∧ hardEntryActs = ["return false"] ∧
    hardPre = ["R.line=EMPTY"] ∧ hardRange = "for K,E:=range R.cells" ∧
    hardBody = [
      (("", [("uniseg.HasTrailingLineBreakInString(E.Grapheme)", "", "")]),
        ["if (K==(len(R.cells)-1)) {", "break", "}", "R.cells=R.cells[(K+1):]", "return true"]),
      (("always", []), ["R.line=append(R.line,E)"])] ∧
    hardPost = ["R.cells=EMPTY", "return true"] := by
  and_intros <;> decide

/-- The row / column loops of `drawSoftwrap` (both packages).  Model:
```
drawRows: | row, l :: ls => if row ≥ maxH then [] else (row, drawRow maxW 0 l) :: drawRows maxW maxH (row + 1) ls
drawRow:  | col, c :: cs => if col ≥ maxW then [] else (col, c) :: drawRow maxW (col + c.w16) cs
```
(`var col uint16` = column 0 per row; `row >= ctx.Max.Height` ⇒ return (since /repo 39d6880; `>` before); `col >= ctx.Max.Width` ⇒ break;
`WriteCell(col,row,cell)`; `col += uint16(char.Width)` = `c.w16`; `row += 1`); the scanner is built
with `ctx.Max.Width`. -/
theorem facts_draw_rows :
    textDrawPre = ["size:=R.findContainerSize(CTX)", "s:=vxfw.NewSurface(size.Width,size.Height,R)",
      "s.Fill(R.Style)", "scanner:=NewSoftwrapScanner(R.Content,CTX.Max.Width)", "var row uint16"] ∧
    textDrawCond = "scanner.Scan(CTX)" ∧
    textDrawRows = [
      (("always", []), ["var col uint16"]),
      (("", [("row", ">=", "CTX.Max.Height")]), ["return s,nil"]),
      (("always", []), ["chars:=CTX.Characters(scanner.Text())"]),
      (("range", [("chars", "", "")]), ["COLS"]),
      (("always", []), ["row+=1"])] ∧
    textDrawCols = [
      (("", [("col", ">=", "CTX.Max.Width")]), ["break"]),
      (("always", []), ["cell:=vaxis.Cell{Character:E,Style:R.Style}"]),
      (("always", []), ["s.WriteCell(col,row,cell)"]),
      (("always", []), ["col+=uint16(E.Width)"])] ∧
    textDrawPost = ["return s,nil"] ∧
    richDrawPre = ["cells:=R.cells(CTX)", "size:=R.findContainerSize(cells,CTX)",
      "s:=vxfw.NewSurface(size.Width,size.Height,R)", "scanner:=NewSoftwrapScanner(cells,CTX.Max.Width)",
      "var row uint16"] ∧
    richDrawCond = "scanner.Scan()" ∧
    richDrawRows = [
      (("always", []), ["var col uint16"]),
      (("", [("row", ">=", "CTX.Max.Height")]), ["return s,nil"]),
      (("always", []), ["chars:=scanner.Text()"]),
      (("range", [("chars", "", "")]), ["COLS"]),
      (("always", []), ["row+=1"])] ∧
    richDrawCols = [
      (("", [("col", ">=", "CTX.Max.Width")]), ["break"]),
      (("always", []), ["s.WriteCell(col,row,E)"]),
      (("always", []), ["col+=uint16(E.Width)"])] ∧
    richDrawPost = ["return s,nil"] := by
  and_intros <;> decide

/-- `findContainerSize`, soft-wrap branch (both packages).  Model (`containerSize`, `sum16`):
```
| (sw, sh), l :: ls =>
  if sh ≥ maxH then (sw, sh)                       -- size.Height >= ctx.Max.Height ⇒ return size
  else let w := sum16 l                            -- var w uint16; w += uint16(char.Width)
       let sw := if sw < w then w else sw          -- size.Width < w ⇒ size.Width = w
       let sw := if sw > maxW then maxW else sw    -- size.Width > ctx.Max.Width ⇒ size.Width = ctx.Max.Width
       containerSize maxW maxH (sw, sh + 1) ls     -- size.Height += 1
``` -/
theorem facts_container_size :
    textSizePre = ["scanner:=NewSoftwrapScanner(R.Content,CTX.Max.Width)"] ∧
    textSizeCond = "scanner.Scan(CTX)" ∧
    textSizeRows = [
      (("", [("size.Height", ">=", "CTX.Max.Height")]), ["return size"]),
      (("always", []), ["size.Height+=1"]),
      (("always", []), ["chars:=CTX.Characters(scanner.Text())"]),
      (("always", []), ["var w uint16"]),
      (("range", [("chars", "", "")]), ["w+=uint16(E.Width)"]),
      (("", [("size.Width", "<", "w")]), ["size.Width=w"]),
      (("", [("size.Width", ">", "CTX.Max.Width")]), ["size.Width=CTX.Max.Width"])] ∧
    textSizePost = ["return size"] ∧
    richSizePre = ["scanner:=NewSoftwrapScanner(cells,CTX.Max.Width)"] ∧
    richSizeCond = "scanner.Scan()" ∧
    richSizeRows = [
      (("", [("size.Height", ">=", "CTX.Max.Height")]), ["return size"]),
      (("always", []), ["size.Height+=1"]),
      (("always", []), ["chars:=scanner.Text()"]),
      (("always", []), ["var w uint16"]),
      (("range", [("chars", "", "")]), ["w+=uint16(E.Width)"]),
      (("", [("size.Width", "<", "w")]), ["size.Width=w"]),
      (("", [("size.Width", ">", "CTX.Max.Width")]), ["size.Width=CTX.Max.Width"])] ∧
    richSizePost = ["return size"] := by
  and_intros <;> decide

/-- The column guard means what `drawRow` does: the extracted operator of `col ? ctx.Max.Width` (the
same in both packages), read as a `uint16` comparison, is the test of the model, for all inputs. -/
theorem facts_draw_cols_meaning :
    ∃ c, cmpAt textDrawCols 0 "col" "CTX.Max.Width" = some c ∧ cmpAt richDrawCols 0 "col" "CTX.Max.Width" = some c ∧
      ∀ (maxW col : UInt16) (x : Cell) (xs : List Cell),
        drawRow maxW col (x :: xs) = if c.eval16 col maxW then [] else (col, x) :: drawRow maxW (col + x.w16) xs :=
  ⟨.ge, by decide, by decide, fun maxW col x xs => by rw [drawRow]; simp [Cmp.eval16]⟩

/-- The row guard means what `drawRows` does (`row ? ctx.Max.Height`, `uint16`). -/
theorem facts_draw_rows_meaning :
    ∃ c, cmpAt textDrawRows 1 "row" "CTX.Max.Height" = some c ∧ cmpAt richDrawRows 1 "row" "CTX.Max.Height" = some c ∧
      ∀ (maxW maxH row : UInt16) (l : List Cell) (ls : List (List Cell)),
        drawRows maxW maxH row (l :: ls) =
          if c.eval16 row maxH then [] else (row, drawRow maxW 0 l) :: drawRows maxW maxH (row + 1) ls :=
  ⟨.ge, by decide, by decide, fun maxW maxH row l ls => by rw [drawRows]; simp [Cmp.eval16]⟩

/-- The three guards of the soft-wrap branch of `findContainerSize` mean what `containerSize` does:
the height guard and the two clamps, with the extracted operators, are the model's, for all inputs. -/
theorem facts_container_size_meaning :
    ∃ cH cLt cGt,
      cmpAt textSizeRows 0 "size.Height" "CTX.Max.Height" = some cH ∧ cmpAt richSizeRows 0 "size.Height" "CTX.Max.Height" = some cH ∧
      cmpAt textSizeRows 5 "size.Width" "w" = some cLt ∧ cmpAt richSizeRows 5 "size.Width" "w" = some cLt ∧
      cmpAt textSizeRows 6 "size.Width" "CTX.Max.Width" = some cGt ∧ cmpAt richSizeRows 6 "size.Width" "CTX.Max.Width" = some cGt ∧
      ∀ (maxW maxH sw sh : UInt16) (l : List Cell) (ls : List (List Cell)),
        containerSize maxW maxH (sw, sh) (l :: ls) =
          if cH.eval16 sh maxH then (sw, sh)
          else
            let w := sum16 l
            let sw := if cLt.eval16 sw w then w else sw
            let sw := if cGt.eval16 sw maxW then maxW else sw
            containerSize maxW maxH (sw, sh + 1) ls :=
  ⟨.ge, .lt, .gt, by decide, by decide, by decide, by decide, by decide, by decide,
    fun maxW maxH sw sh l ls => by rw [containerSize]; simp [Cmp.eval16]⟩

end VaxisModel.Props.C16Facts
