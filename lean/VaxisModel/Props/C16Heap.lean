import VaxisModel.Model.WrapHeap
import VaxisModel.Lemmas.WrapHeap
import VaxisModel.Lemmas.Wrap

/-! C16, aliasing (round 3).  The value-level model of the scanners (`Model.Wrap`) is heap-free: a
text is a list, a line is a list, so "the scanner does not write into the caller's cells" and "a line
already returned is not changed by a later `Scan`" cannot even be stated there — a scanner that
compacts `s.rest` into the caller's slice returns the same values.  `Model.WrapHeap` transcribes
`richtext.SoftwrapScanner.Scan` over Go slices (backing array, offset, length, capacity; `append` in
place when the capacity allows) and these theorems say, for every text, width, segmentation function,
growth policy of `append` and heap: every write of a `Scan` goes to an array allocated during that
`Scan`.  The harness checks the same on the real scanners (`alias:` results, `FAIL aliasing`), and the
driver runs `WrapHeap.runH` next to the value-level model on every small `R` case (equal lines). -/
namespace VaxisModel.Props.C16Heap
open VaxisModel.Model.Wrap VaxisModel.Model.WrapHeap VaxisModel.Lemmas.WrapHeap

/-- **One `Scan` writes only into arrays it allocates**: the heap only grows, every array that existed
before the call — the caller's cells with whatever capacity lies behind them, the arrays of the lines
returned earlier, anything else — is unchanged, and the token it returns lives in the heap. -/
theorem scan_writes_only_fresh_arrays (grow : Nat → Nat → Nat) (o : List Cell → Nat × Bool) (width : Nat)
    (h : Heap) (st : St) (h' : Heap) (st' : St) (hne : 0 < h.length)
    (e : scanH grow o width h st = .line h' st') :
    h.length ≤ h'.length ∧ (∀ i, i < h.length → arrOf h' i = arrOf h i) ∧ st'.token.arr < h'.length := by
  obtain ⟨f, g⟩ := scanH_frame grow o width h st h' st' hne e
  exact ⟨f.1, f.2, g⟩

/-- Hence every slice into an older array denotes after the `Scan` what it denoted before. -/
theorem scan_keeps_older_slices (grow : Nat → Nat → Nat) (o : List Cell → Nat × Bool) (width : Nat)
    (h : Heap) (st : St) (h' : Heap) (st' : St) (hne : 0 < h.length)
    (e : scanH grow o width h st = .line h' st') (s : Slice) (hs : s.arr < h.length) :
    read h' s = read h s :=
  read_frame ((scanH_frame grow o width h st h' st' hne e).1.2 _ hs)

/-- **The whole iteration** `for scanner.Scan() { lines = append(lines, scanner.Text()) }` with a caller
that keeps the returned slices without copying: at the end every line still denotes the cells it
denoted when it was returned, and the arrays that existed at the start are unchanged. -/
theorem returned_lines_stay_valid (grow : Nat → Nat → Nat) (o : List Cell → Nat × Bool) (width fuel : Nat)
    (h : Heap) (st : St) (hf : Heap) (ls : List (Slice × List Cell)) (hne : 0 < h.length)
    (e : linesH grow o width fuel h st [] = some (hf, ls)) :
    (∀ i, i < h.length → arrOf hf i = arrOf h i) ∧ ∀ p ∈ ls, read hf p.1 = p.2 := by
  obtain ⟨f, hl⟩ := linesH_stable grow o width fuel h st [] hf ls hne (by intro p hp; cases hp) e
  exact ⟨f.2, hl⟩

/-- **The caller's cells are untouched**, and so is the spare capacity behind them (where an `append`
into the caller's slice would land): after the whole iteration array 0 is `cells ++ spare`. -/
theorem caller_cells_untouched (grow : Nat → Nat → Nat) (o : List Cell → Nat × Bool) (width : Nat)
    (cells spare : List Cell) (ls : List (List Cell)) (arr0 : List Cell)
    (e : runH grow o width cells spare = some (ls, arr0)) : arr0 = cells ++ spare := by
  unfold runH at e
  split at e
  · cases e
  · rename_i hf l hl
    simp only [Option.some.injEq, Prod.mk.injEq] at e
    obtain ⟨f, _⟩ := linesH_stable grow o width _ _ _ [] hf l (by simp [callerHeap]) (by intro p hp; cases hp) hl
    rw [← e.2, f.2 0 (by simp [callerHeap])]
    rfl

/-- **`HardwrapScanner.Scan` writes only into the array of its own fresh line**: every array that existed
before the call (the caller's cells, the lines returned earlier) is unchanged, for every text, heap and
growth policy; the scanner's `cells` afterwards is a sub-slice of the old one or empty. -/
theorem hard_scan_writes_only_fresh_arrays (grow : Nat → Nat → Nat) (h : Heap) (st : HSt) (h' : Heap) (st' : HSt)
    (hne : 0 < h.length) (e : hardScanH grow h st = some (h', st')) :
    h.length ≤ h'.length ∧ (∀ i, i < h.length → arrOf h' i = arrOf h i) ∧ st'.line.arr < h'.length := by
  unfold hardScanH at e
  split at e
  · cases e
  · simp only [Option.some.injEq] at e
    obtain ⟨f, g⟩ := hardLoopH_frame grow st.cells h.length st.cells.len 0 h emptySlice (Nat.le_refl _) (good_empty _ h hne)
    rw [e] at f g
    exact ⟨f.1, f.2, g.2⟩

/-- **The heap-level `HardwrapScanner.Scan` refines the value-level model** (`Model.Wrap.hardScan`, the one
`hardwrap_is_split_at_newline` is about): on every heap, for every well-formed `cells` slice and every growth
policy it returns false exactly when the model does, and otherwise the slices it leaves in `line` and `cells`
denote the model's line and remaining cells.  With `hard_scan_writes_only_fresh_arrays`: same values *and* no
write outside the fresh line. -/
theorem hard_scan_refines (grow : Nat → Nat → Nat) (h : Heap) (st : HSt)
    (hc : st.cells.arr < h.length) (wc : WFS h st.cells) :
    (hardScanH grow h st).map (fun r => (read r.1 r.2.line, read r.1 r.2.cells)) = hardScan (read h st.cells) := by
  have hlen := read_length wc
  unfold hardScanH hardScan
  by_cases h0 : st.cells.len = 0
  · have : read h st.cells = [] := List.eq_nil_of_length_eq_zero (by rw [hlen]; exact h0)
    simp [h0, this]
  · have hne : read h st.cells ≠ [] := by
      intro he; apply h0; rw [← hlen, he]; rfl
    have hb : (st.cells.len == 0) = false := by simpa using h0
    have he : (read h st.cells).isEmpty = false := by
      cases hd : read h st.cells with
      | nil => exact absurd hd hne
      | cons _ _ => rfl
    simp only [hb, Bool.false_eq_true, ↓reduceIte, he, Option.map_some]
    have hpos : 0 < h.length := Nat.lt_of_le_of_lt (Nat.zero_le _) hc
    obtain ⟨r1, r2⟩ := hardLoopH_refines grow st.cells h h.length hc wc st.cells.len 0 h emptySlice (by omega)
      (Nat.le_refl _) (fun _ _ => rfl) (good_empty _ h hpos) ⟨by simp [emptySlice], by simp [emptySlice]⟩
    rw [read_empty, List.drop_zero] at r1 r2
    rw [r1, r2]

/-- **The long-word loop of `SoftwrapScanner.Scan` on the heap computes `Model.Wrap.splitLong`** — the branch
that rebuilds `s.rest` and the one a compacting rewrite would touch.  `word` lies in an array older than the
`Scan` (`n0` arrays, unchanged since `h0`); `rest` and `token` are the two slices being appended to, each full or
fresh (`Good`), inside their arrays (`WFS`) and not sharing an array unless one has no capacity (`Sep`).  Then
after the loop `s.rest` denotes what it denoted followed by the graphemes `splitLong` sends to the rest, and
`s.token` what it denoted followed by the graphemes `splitLong` keeps on the line — for every width, `w`,
start index, heap and growth policy. -/
theorem long_word_loop_refines (grow : Nat → Nat → Nat) (width : Nat) (word : Slice) (h0 : Heap) (n0 : Nat)
    (hw : word.arr < n0) (ww : WFS h0 word) (h : Heap) (rest token : Slice) (w : Nat)
    (hn : n0 ≤ h.length) (hfr : ∀ j, j < n0 → arrOf h j = arrOf h0 j)
    (gr : Good n0 h rest) (gt : Good n0 h token) (wr : WFS h rest) (wt : WFS h token) (sep : Sep rest token) :
    read (splitLongH grow width word 0 word.len h rest token w).1 (splitLongH grow width word 0 word.len h rest token w).2.1 =
      read h rest ++ (splitLong width (decide (token.len > 0)) w (read h0 word)).2 ∧
    read (splitLongH grow width word 0 word.len h rest token w).1 (splitLongH grow width word 0 word.len h rest token w).2.2 =
      read h token ++ (splitLong width (decide (token.len > 0)) w (read h0 word)).1 := by
  obtain ⟨a, b, _⟩ := splitLongH_refines grow width word h0 n0 hw ww word.len 0 h rest token w (by omega) hn hfr gr gt wr wt sep
  rw [List.drop_zero] at a b
  exact ⟨a, b⟩

/-- **The loop of `richtext.SoftwrapScanner.Scan` on the heap refines the value-level model
`Model.Wrap.scanLoop`** (the model of conservation, width, hard-break and needless-split theorems): from any
heap whose first `n0` arrays are those of `h0`, with `s.rest` a well-formed slice of one of those arrays and
`s.token` full or fresh, for every fuel, `w`, width, segmentation function and growth policy, the heap-level loop
runs out of fuel exactly when the model does, and otherwise the slices it leaves in `s.rest` / `s.token` denote the
model's remaining cells and line.  All four exits (long word, does not fit, hard break, trailing space does not
fit) and the iteration are covered.  With `scan_writes_only_fresh_arrays`: same values, and no write outside the
arrays the `Scan` allocates — a rewrite that compacts into the caller's slice cannot satisfy both. -/
theorem scan_loop_refines (grow : Nat → Nat → Nat) (o : List Cell → Nat × Bool) (width : Nat) (h0 : Heap) (n0 : Nat)
    (hn0 : 0 < n0) (fuel : Nat) (h : Heap) (st : St) (w : Nat) (hn : n0 ≤ h.length)
    (hfr : ∀ j, j < n0 → arrOf h j = arrOf h0 j) (hra : st.rest.arr < n0) (wr : WFS h0 st.rest)
    (gt : Good n0 h st.token) (wt : WFS h st.token) :
    ScanRel (scanLoopH grow o width fuel h st w)
      (scanLoop (oracleOf o) () width fuel (read h0 st.rest) () (read h st.token) w) :=
  scanLoopH_refines grow o width h0 n0 hn0 fuel h st w hn hfr hra wr gt wt

/-- `Scan()` itself (entry test, `s.token = []vaxis.Cell{}`, the loop) refines `Model.Wrap.scan`: returns false,
hangs or returns a line exactly when the model does, with `s.rest` / `s.token` denoting the model's lists. -/
theorem scan_refines (grow : Nat → Nat → Nat) (o : List Cell → Nat × Bool) (width : Nat) (h : Heap) (st : St)
    (hra : st.rest.arr < h.length) (wr : WFS h st.rest) :
    ScanRelS (scanH grow o width h st) (scan (oracleOf o) () width (read h st.rest) ()) :=
  scanH_refines grow o width h st hra wr

/-- **`richtext.SoftwrapScanner` on the heap, end to end**: for every text, every spare capacity behind the
caller's slice, every width, every pairwise break function and every growth policy of `append`, the iteration
`for scanner.Scan() { lines = append(lines, scanner.Text()) }` — with a caller that keeps the returned slices
*without copying* and reads them after the last `Scan` — yields **exactly the lines of the value-level model**
`Model.Wrap.richLines` (the model of all the C16 theorems), and leaves the caller's array, spare capacity
included, as it was.  The heap-free semantics of `Model.Wrap` is therefore sound for the code: no aliasing
effect can make the real scanner's lines differ from it. -/
theorem rich_scanner_on_the_heap (grow : Nat → Nat → Nat) (lb : Nat → Nat → Bool) (width : Nat)
    (cells spare : List Cell) :
    ∃ ls, richLines lb width cells = .ok ls ∧ runH grow (richSeg lb) width cells spare = some (ls, cells ++ spare) := by
  have he : oracleOf (richSeg lb) = richOracle lb := by
    funext u l
    cases u
    rfl
  have R := runH_refines grow (richSeg lb) width cells spare
  rw [he] at R
  obtain ⟨ls, hls, _⟩ := VaxisModel.Lemmas.Wrap.scanAll_ok (richOracle lb) () width (VaxisModel.Lemmas.Wrap.richOracle_ok lb)
    (cells.length + 1) cells () (Nat.lt_succ_self _)
  have hl : lines (richOracle lb) () width cells () = .ok ls := hls
  refine ⟨ls, hl, ?_⟩
  rw [hl] at R
  cases hr : runH grow (richSeg lb) width cells spare with
  | none => rw [hr] at R; simp at R
  | some res =>
    rw [hr] at R
    obtain ⟨a, b⟩ := res
    simp only [] at R
    rw [R.1, R.2]

/-- Non-vacuity: "a\nb" — the first `Scan` returns the line "a" in a new array, leaves `cells = "b"` as a
sub-slice of the caller's array, and the caller's array is what it was. -/
example :
    let a : Cell := { g := 0, w := 1, style := 1, sp := false, term := false, nl := false }
    let n : Cell := { g := 1, w := 0, style := 0, sp := true, term := true, nl := true }
    let b : Cell := { g := 2, w := 1, style := 2, sp := false, term := false, nl := false }
    (match hardScanH (fun c _ => 2 * c) [[a, n, b]] ⟨⟨0, 0, 3, 3⟩, emptySlice⟩ with
     | some (h', st') => read h' st'.line == [a] && read h' st'.cells == [b] && st'.cells.arr == 0 &&
         st'.line.arr == 1 && arrOf h' 0 == [a, n, b]
     | none => false) = true := by decide

/-- What the frame theorems exclude, on the model: the seeded rewrite `s.rest = s.rest[:0]` in the long-word
branch (compacting into the caller's slice instead of `[]vaxis.Cell{}`).  The long-word loop started with that
slice on "abcd" at width 3 returns the same values — token "abc", rest "d" — but has overwritten the caller's
first cell: array 0 is "dbcd".  (`Good` fails for `cells[:0]`: it is neither full nor fresh.) -/
example :
    let mk : Nat → Cell := fun g => { g := g, w := 1, style := 0, sp := false, term := false, nl := false }
    let txt := [mk 0, mk 1, mk 2, mk 3]
    let r := splitLongH (fun c _ => 2 * c) 3 (callerSlice txt []) 0 4 (callerHeap txt []) (sub (callerSlice txt []) 0 0) emptySlice 0
    read r.1 r.2.2 = [mk 0, mk 1, mk 2] ∧ read r.1 r.2.1 = [mk 3] ∧ arrOf r.1 0 = [mk 3, mk 1, mk 2, mk 3] ∧
    ¬ Good 1 (callerHeap txt []) (sub (callerSlice txt []) 0 0) := by
  refine ⟨by decide, by decide, by decide, ?_⟩
  intro g
  rcases g.1 with h | h
  · revert h; decide
  · revert h; decide

/-- Non-vacuity: "aa aaaaa a" at width 3 (a long word is split, `s.rest` is rebuilt) gives the lines of
the value-level model and leaves the caller's array as it was; and what the theorems exclude does
happen for a slice that is *not* fresh — `append(cells[:0], x)` overwrites the caller's first cell. -/
example :
    let a : Cell := { g := 0, w := 1, style := 1, sp := false, term := false, nl := false }
    let s : Cell := { g := 1, w := 1, style := 0, sp := true, term := false, nl := false }
    let z : Cell := { g := 9, w := 7, style := 0, sp := false, term := false, nl := false }
    let o : List Cell → Nat × Bool := fun l => ((richOracle (fun x _ => x == 1) () l).1, (richOracle (fun x _ => x == 1) () l).2.1)
    let txt := [a, a, s, a, a, a, a, a, s, a]
    runH (fun c _ => 2 * c) o 3 txt [z, z] = some ([[a, a, s], [a, a, a], [a, a, s], [a]], txt ++ [z, z]) ∧
    richLines (fun x _ => x == 1) 3 txt = .ok [[a, a, s], [a, a, a], [a, a, s], [a]] ∧
    (append (fun c _ => 2 * c) (callerHeap txt [z, z]) (sub (callerSlice txt [z, z]) 0 0) [z]).1 = [z :: txt.drop 1 ++ [z, z]] := by
  decide

end VaxisModel.Props.C16Heap
