/-
C16, round 4: the PLAIN scanner as an object — is the state `text.SoftwrapScanner` keeps across `Scan` calls exactly
what the value-level model (`Model.Wrap.scanLoop`, which threads `rest`/`st` as loop variables) carries?  Yes:

* `plain_scanner_object_refines`: the object model (`Model/WrapObj.lean`: fields stored where text.go stores them)
  with `s.state = state` next to `s.rest = rest` IS the value-level scanner — one `Scan`, and the whole iteration
  (`lines`), for every oracle, width and text; `src_scanner_is_value_model` says so for the placement the CURRENT
  source has (`stateEarly`, read from the regenerated facts).
* `scan_state_is_function_of_consumed_text`: at every `Scan` boundary the pair (rest, state) is the segmenter's own:
  `k` oracle calls after a point `base` at which the state was the unknown value −1 (the start of the text, or a
  long-word split), i.e. the state is determined by the text consumed since then — by `chain`, which has no width
  and no notion of Scan calls in it.  A segment that is deferred to the next line changes neither field
  (`deferred_segment_leaves_fields`).  No hypothesis on the oracle.
* `Witness.C16StateEarly`: with the store moved before the early return (seeded C16-m5) the pair leaves the chain
  and the lines change.
-/
import VaxisModel.Lemmas.WrapObj

namespace VaxisModel.Props.C16Obj
open VaxisModel.Model.Wrap VaxisModel.Model.WrapObj VaxisModel.Lemmas.WrapObj

/-- The source stores `s.state = state` together with `s.rest = rest`, not right after the segmentation call. -/
theorem facts_state_stored_with_rest : stateEarly = false := by decide

/-- One `Scan` of the object = one `scan` of the value-level model: same verdict, and the fields left behind
(rest, state, token) are the values the model returns. -/
theorem plain_scan_object_refines {σ : Type} (o : σ → List Cell → Nat × Bool × σ) (ini : σ) (width : Nat) (s : Obj σ) :
    Res.toScan (scanObj false o ini width s) = scan o ini width s.rest s.state :=
  scanObj_refines o ini width s

/-- **plain_scanner_object_refines.** The whole iteration `for scanner.Scan() { … scanner.Text() … }` on the object
yields exactly the lines of the value-level model (`Model.Wrap.lines` — what every theorem of `Props/C16*.lean` about the
plain scanner is about), or hangs when it hangs. -/
theorem plain_scanner_object_refines {σ : Type} (o : σ → List Cell → Nat × Bool × σ) (ini : σ) (width : Nat)
    (cells : List Cell) :
    (runObj false o ini width (cells.length + 1) (newObj ini cells)).map (·.1)
      = Lines.toOption (plainLines o width cells ini) :=
  runObj_refines o ini width _ _

/-- … and the scanner of the current source is that object. -/
theorem src_scanner_is_value_model {σ : Type} (o : σ → List Cell → Nat × Bool × σ) (ini : σ) (width : Nat)
    (cells : List Cell) :
    (srcLines o ini width cells).map (·.1) = Lines.toOption (plainLines o width cells ini) := by
  unfold srcLines; rw [facts_state_stored_with_rest]; exact runObj_refines o ini width _ _

/-- **scan_state_is_function_of_consumed_text.** Every object the scanner passes through (after `NewSoftwrapScanner`
and after each `Scan` that returned true) holds a pair (rest, state) that lies on the segmenter's own path:
`∃ base k, (rest, state) = chain o k base ini` — the state is what `k` successive oracle calls produce from the unknown
state at `base`, over the text between `base` and `rest`.  It does not depend on the width or on which `Scan` call
deferred a segment.  For every oracle. -/
theorem scan_state_is_function_of_consumed_text {σ : Type} (o : σ → List Cell → Nat × Bool × σ) (ini : σ) (width : Nat)
    (text : List Cell) (s : Obj σ) (h : Reach o ini width text s) :
    ∃ base k, (s.rest, s.state) = chain o k base ini :=
  reach_own o ini width text s h

/-- A segment that does not fit on the partly filled line is deferred: `Scan` returns with `rest` and `state` exactly as
the last accepted segment left them (first iteration: as they were on entry). -/
theorem deferred_segment_leaves_fields {σ : Type} (o : σ → List Cell → Nat × Bool × σ) (ini : σ) (width fuel : Nat)
    (s : Obj σ) (w : Nat)
    (hfit : ¬ sumW (trimRight (s.rest.take (o s.state s.rest).1)) > width)
    (hdefer : w + sumW (trimRight (s.rest.take (o s.state s.rest).1)) > width) :
    scanObjLoop false o ini width (fuel + 1) s w = .line s := by
  simp only [scanObjLoop, Bool.false_eq_true, if_false, hfit, hdefer, if_true]

end VaxisModel.Props.C16Obj
