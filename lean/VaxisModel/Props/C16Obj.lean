/-
C16, round 4: the PLAIN scanner as an object — is the state `text.SoftwrapScanner` keeps across `Scan` calls exactly
what the value-level model (`Model.Wrap.scanLoop`, which threads `rest`/`st` as loop variables) carries?  Yes:

* `plain_scanner_object_refines`: the object model (`Model/WrapObj.lean`: fields stored where text.go stores them)
  with `s.state = state` next to `s.rest = rest` IS the value-level scanner — one `Scan`, and the whole iteration
  (`lines`), for every oracle, width and text; `src_scanner_is_value_model` says so for the placement the CURRENT
  source has (`stateEarly`, read from the regenerated facts).
* `scan_state_is_function_of_consumed_text`: at every `Scan` boundary the pair (rest, state) is the segmenter's own:
  `k` oracle calls after a point `base` at which the state was the unknown value −1 (the start of the text, or a
  long-word split), i.e. the state is determined by the text consumed since then — by `chain`, which has no width
  and no notion of Scan calls in it.  A segment that is deferred to the next line changes neither field
  (`deferred_segment_leaves_fields`).  No hypothesis on the oracle.
* `Witness.C16StateEarly`: with the store moved before the early return (seeded C16-m5) the pair leaves the chain
  and the lines change.
-/
import VaxisModel.Lemmas.WrapObj

namespace VaxisModel.Props.C16Obj
open VaxisModel.Model.Wrap VaxisModel.Model.WrapObj VaxisModel.Lemmas.WrapObj

/-- The source stores `s.state = state` together with `s.rest = rest`, not right after the segmentation call. -/
theorem facts_state_stored_with_rest : stateEarly = false := by decide

/-- One `Scan` of the object = one `scan` of the value-level model: same verdict, and the fields left behind
(rest, state, token) are the values the model returns. -/
theorem plain_scan_object_refines {σ : Type} (o : σ → List Cell → Nat × Bool × σ) (ini : σ) (width : Nat) (s : Obj σ) :
    Res.toScan (scanObj false o ini width s) = scan o ini width s.rest s.state :=
  scanObj_refines o ini width s

/-- **plain_scanner_object_refines.** The whole iteration `for scanner.Scan() { … scanner.Text() … }` on the object
yields exactly the lines of the value-level model (`Model.Wrap.lines` — what every theorem of `Props/C16*.lean` about the
plain scanner is about), or hangs when it hangs. -/
theorem plain_scanner_object_refines {σ : Type} (o : σ → List Cell → Nat × Bool × σ) (ini : σ) (width : Nat)
    (cells : List Cell) :
    (runObj false o ini width (cells.length + 1) (newObj ini cells)).map (·.1)
      = Lines.toOption (plainLines o width cells ini) :=
  runObj_refines o ini width _ _

/-- … and the scanner of the current source is that object. -/
theorem src_scanner_is_value_model {σ : Type} (o : σ → List Cell → Nat × Bool × σ) (ini : σ) (width : Nat)
    (cells : List Cell) :
    (srcLines o ini width cells).map (·.1) = Lines.toOption (plainLines o width cells ini) := by
  unfold srcLines; rw [facts_state_stored_with_rest]; exact runObj_refines o ini width _ _

/-- **scan_state_is_function_of_consumed_text.** Every object the scanner passes through (after `NewSoftwrapScanner`
and after each `Scan` that returned true) holds a pair (rest, state) that lies on the segmenter's own path:
`∃ base k, (rest, state) = chain o k base ini` — the state is what `k` successive oracle calls produce from the unknown
state at `base`, over the text between `base` and `rest`.  It does not depend on the width or on which `Scan` call
deferred a segment.  For every oracle. -/
theorem scan_state_is_function_of_consumed_text {σ : Type} (o : σ → List Cell → Nat × Bool × σ) (ini : σ) (width : Nat)
    (text : List Cell) (s : Obj σ) (h : Reach o ini width text s) :
    ∃ base k, (s.rest, s.state) = chain o k base ini :=
  reach_own o ini width text s h

/-- A segment that does not fit on the partly filled line is deferred: `Scan` returns with `rest` and `state` exactly as
the last accepted segment left them (first iteration: as they were on entry). -/
theorem deferred_segment_leaves_fields {σ : Type} (o : σ → List Cell → Nat × Bool × σ) (ini : σ) (width fuel : Nat)
    (s : Obj σ) (w : Nat)
    (hfit : ¬ sumW (trimRight (s.rest.take (o s.state s.rest).1)) > width)
    (hdefer : w + sumW (trimRight (s.rest.take (o s.state s.rest).1)) > width) :
    scanObjLoop false o ini width (fuel + 1) s w = .line s := by
  simp only [scanObjLoop, Bool.false_eq_true, if_false, hfit, hdefer, if_true]

/-- **scan_state_independent_of_width.** Two scanners over the same text with DIFFERENT widths — so with different lines and
different `Scan` calls deferring different segments — neither of which meets a word longer than its line (`WordsFit`: the
long-word branch, the one place that resets the state to −1, is not taken): whenever they have the same non-empty text left,
they hold the same state.  The state stored across `Scan` calls is a function of the text consumed, for every segmenter with
non-empty segments (`OracleOK`). -/
theorem scan_state_independent_of_width {σ : Type} (o : σ → List Cell → Nat × Bool × σ) (hok : VaxisModel.Lemmas.Wrap.OracleOK o)
    (ini : σ) (text : List Cell) (w1 w2 : Nat) (hf1 : WordsFit o w1) (hf2 : WordsFit o w2)
    (s1 s2 : Obj σ) (h1 : Reach o ini w1 text s1) (h2 : Reach o ini w2 text s2)
    (hr : s1.rest = s2.rest) (hne : s1.rest ≠ []) : s1.state = s2.state := by
  have a1 := reach_ownFrom o ini w1 text hf1 s1 h1
  have a2 := reach_ownFrom o ini w2 text hf2 s2 h2
  rw [← hr] at a2
  exact chain_state_unique o hok ini text s1.rest s1.state s2.state a1 a2 hne

/-- One `Scan` keeps the scanner on the segmenter's path from the start of the text, or resets the state to −1 (the long-word
branch) — nothing else can happen to the pair. -/
theorem scan_keeps_path_or_resets {σ : Type} (o : σ → List Cell → Nat × Bool × σ) (ini : σ) (width : Nat) (text : List Cell)
    (fuel : Nat) (s s' : Obj σ) (w : Nat) (h : OwnFrom o ini text s.rest s.state)
    (hs : scanObjLoop false o ini width fuel s w = .line s') :
    OwnFrom o ini text s'.rest s'.state ∨ s'.state = ini :=
  scanObjLoop_ownFrom o ini width text fuel s s' w h hs

end VaxisModel.Props.C16Obj
