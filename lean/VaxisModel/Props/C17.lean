import VaxisModel.Model.TextField
import VaxisModel.Model.TextInput
import VaxisModel.Spec.Editor
import VaxisModel.Lemmas.Editor
import VaxisModel.Lemmas.TextInput
import VaxisModel.Lemmas.TextInputCells
import VaxisModel.Lemmas.EditorCl
import VaxisModel.Lemmas.TextInputCl

/-! C17 — line editors behave like an ideal grapheme line editor.

`Spec.Editor` is the ideal editor (`text : List G`, `cursor ≤ text.length`).  The widget models are
`Model.TextField` and `Model.TextInput`; `abs` maps a widget state to the ideal state, `specOf` /
`meaningOf` give the ideal operation each API call / key binding stands for. -/
namespace VaxisModel.Props.C17
open VaxisModel.Model VaxisModel.Spec.Editor VaxisModel.Lemmas.Editor VaxisModel.Lemmas.TextInput

/-- `textfield_refines` (one step): from a state meeting the invariant (`n` = grapheme count,
cursor within the text) every operation of the exported API — every key event through
`HandleEvent`, `InsertStringAtCursor`, `CursorTo`, the three delete functions, `Reset` — keeps the
invariant and is exactly the ideal operation on the abstract state. -/
theorem textfield_step_refines {G : Type} [DecidableEq G] (isWord : G → Bool)
    (tf : TextField.TF G) (op : TFOp G) (h : Inv tf) :
    Inv (tfStep tf op).1 ∧ abs (tfStep tf op).1 = apply isWord (abs tf) (specOf op) :=
  tfStep_refines isWord tf op h

/-- `textfield_refines`: for all histories from any starting content, the widget holds the text and
cursor of the ideal editor run on the corresponding ideal operations, and the cursor is within the
text. -/
theorem textfield_refines {G : Type} [DecidableEq G] (isWord : G → Bool)
    (start : List G) (ops : List (TFOp G)) :
    let tf0 := TextField.insertString TextField.new start
    let tf := tfRun tf0 ops
    abs tf = run isWord ⟨start, start.length⟩ (ops.map specOf) ∧ tf.cursor ≤ tf.value.length ∧
      tf.n = tf.value.length := by
  intro tf0 tf
  have h0 : Lemmas.Editor.Inv (TextField.new : TextField.TF G) := ⟨rfl, Nat.le_refl _⟩
  have h1 := insert_refines isWord TextField.new start h0
  have h2 := tfRun_refines isWord ops tf0 h1.1
  refine ⟨?_, h2.1.2, h2.1.1⟩
  rw [h2.2, h1.2]
  simp [abs, TextField.new, apply]

/-- `callbacks_exact` (TextField): for every key event, OnSubmit fires iff the event means Enter
(with the line), and OnChange fires iff the value changed (with the new value) — exactly the ideal
editor's callback log. -/
theorem textfield_callbacks_exact {G : Type} [DecidableEq G] (isWord : G → Bool)
    (tf : TextField.TF G) (ev : TextField.KeyEv G) (h : Inv tf) :
    (TextField.handleKey tf ev).2.map absCall = callbacks isWord (abs tf) (meaningOf ev) :=
  (handleKey_refines isWord tf ev h).2.2

/-- Non-vacuity / the F46 scenario on the fixed code: "ab", BackSpace, Ctrl+e, "x", Ctrl+b, "y"
gives "ayx". -/
example :
    let bs : TextField.KeyEv Nat := ⟨false, [], false, false, false, false, false, true, false, false⟩
    let ce : TextField.KeyEv Nat := ⟨false, [], false, true, false, false, false, false, false, false⟩
    let cb : TextField.KeyEv Nat := ⟨false, [], false, false, false, true, false, false, false, false⟩
    let ty (g : Nat) : TextField.KeyEv Nat := ⟨false, [g], false, false, false, false, false, false, false, false⟩
    (tfRun (TextField.insertString TextField.new [0, 1])
      [.key bs, .key ce, .key (ty 7), .key cb, .key (ty 8)]).value = [0, 8, 7] := by decide

/-- `cursor_column` (TextField): `Draw` puts the cursor in the column equal to the display width of the
graphemes before the cursor — the display width of a grapheme being the total width of the
characters it is drawn as (`chars`: one character, except a tab, which `vaxis.Characters` draws as 8
blanks; true of tabs since the F417 fix) —, computed in `uint16` like every vxfw column. -/
theorem textfield_cursor_column {G : Type} (chars : G → List Nat) (tf : TextField.TF G) :
    TextField.drawCursorCol chars tf = UInt16.ofNat (widthSum (cellWidth chars) (tf.value.take tf.cursor)) :=
  drawCursorCol_eq chars tf

/-- `cursor_column` (TextField) in natural numbers: while the text before the cursor is narrower
than 65536 columns (in particular while the text fits any widget) the drawn cursor column *is* the
display width of the ideal editor's text before its cursor. -/
theorem textfield_cursor_column_nat {G : Type} (chars : G → List Nat) (tf : TextField.TF G)
    (hfit : widthSum (cellWidth chars) ((abs tf).text.take (abs tf).cursor) < 65536) :
    (TextField.drawCursorCol chars tf).toNat = widthSum (cellWidth chars) ((abs tf).text.take (abs tf).cursor) := by
  rw [drawCursorCol_eq]
  exact UInt16.toNat_ofNat_of_lt' hfit

/-- Non-vacuity / the F417 scenario on the fixed code: "a", tab, "b" with the cursor behind the tab
(grapheme index 2) is drawn with the cursor in column 9 (the tab is 8 blanks). -/
example :
    (TextField.drawCursorCol (fun g : Nat => if g = 9 then [1, 1, 1, 1, 1, 1, 1, 1] else [1]) ⟨[0, 9, 1], 2, 3⟩).toNat = 9 := by
  decide

/-- `textinput_refines` (one step): from a state with the cursor within the content and a
non-negative scroll offset, every call of the textinput API (`Update` with any event, `SetContent`,
`Draw` into a window of any width with any prompt) returns — no index panic, no hang —, keeps the
invariant and is exactly the ideal operation on `(content, cursor)`. -/
theorem textinput_step_refines {G : Type} (isAlnum : G → Bool) (width : G → Int)
    (m : TextInput.TI G) (op : TIOp G) (h : TIInv m) :
    ∃ m', tiStep isAlnum width m op = some m' ∧ TIInv m' ∧
      tiAbs m' = apply isAlnum (tiAbs m) (tiOpSpec m op) :=
  tiStep_refines isAlnum width m op h

/-- `textinput_refines`: for all histories from any starting content the model never panics or
hangs and holds the text and cursor of the ideal editor run on the corresponding ideal operations;
the cursor stays within the text. -/
theorem textinput_refines {G : Type} (isAlnum : G → Bool) (width : G → Int)
    (start : List G) (ops : List (TIOp G)) :
    ∃ mf sops, tiRun isAlnum width (TextInput.setContent TextInput.new start) ops = some (mf, sops) ∧
      tiAbs mf = run isAlnum ⟨start, start.length⟩ sops ∧
      0 ≤ mf.cursor ∧ mf.cursor ≤ mf.content.length := by
  have h0 : TIInv (TextInput.setContent (TextInput.new : TextInput.TI G) start) :=
    ⟨by simp [TextInput.setContent], by simp [TextInput.setContent], by simp [TextInput.setContent, TextInput.new]⟩
  obtain ⟨mf, sops, hr, hinv, habs⟩ := tiRun_refines isAlnum width ops _ h0
  refine ⟨mf, sops, hr, ?_, hinv.1, hinv.2.1⟩
  rw [habs]
  simp [tiAbs, TextInput.setContent, TextInput.new]

/-- `draw_terminates`: the scroll loop of `textinput.Draw` terminates for every window width (since
the F47 fix), whenever the offset is non-negative and the cursor is within the content. -/
theorem draw_terminates {G : Type} (width : G → Int) (m : TextInput.TI G) (prompt : List G) (winW : Int)
    (hoff : 0 ≤ m.offset) (hcur : m.cursor ≤ m.content.length) :
    (match TextInput.draw width m prompt winW with | .hang => false | _ => true) = true :=
  draw_not_hang width m prompt winW hoff hcur

/-- `cursor_column` (textinput): while prompt + text + scrolloff fit in the window — whatever the
scroll offset left behind by earlier draws (F117 fix) — `Draw` resets the offset to 0 and shows the
cursor in column prompt width + display width of the ideal editor's text before its cursor.
(`col` is the column after the prompt.) -/
theorem textinput_cursor_column {G : Type} (width : G → Int) (hw : ∀ g, 0 ≤ width g)
    (m : TextInput.TI G) (prompt : List G) (winW col : Int) (hinv : TIInv m)
    (hp : TextInput.promptLoop width winW prompt 0 = some col) (hcol : 0 ≤ col)
    (hfit : col + widthSumI width m.content + 4 < winW) :
    TextInput.draw width m prompt winW =
      .shown { m with offset := 0 } (col + widthSumI width ((tiAbs m).text.take (tiAbs m).cursor)) :=
  draw_cursor_fit width hw m prompt winW col hinv hp hcol hfit

/-- Non-vacuity of `textinput_cursor_column`: "世a" with the cursor at the end in a 12-column window
with a 2-column prompt shows the cursor in column 5. -/
example :
    (match TextInput.draw (fun g : Nat => if g = 3 then 2 else 1) (TextInput.setContent TextInput.new [3, 0]) [0, 0] 12 with
     | .shown _ c => c | _ => -1) = 5 := by decide

/-- `drawn cells` (textinput): while prompt + text + scrolloff fit in the window — whatever the scroll
offset left behind — the `SetCell` calls of `Draw` (after the `Fill` that blanks the window) are
exactly: the prompt's characters from column 0, then the ideal editor's text (in password mode the
mask instead of each grapheme), every one at the column equal to the display width of what is before
it (`placed`, `textinput_cells_columns`); no truncator, nothing else. -/
theorem textinput_cells_fit {G : Type} (width : G → Int) (hw : ∀ g, 0 ≤ width g) (masked : Bool)
    (m : TextInput.TI G) (prompt : List G) (winW col : Int) (hinv : TIInv m)
    (hp : TextInput.promptLoop width winW prompt 0 = some col) (hcol : 0 ≤ col)
    (hfit : col + widthSumI width m.content + 4 < winW) :
    TextInput.drawCells width masked m prompt winW =
      some (TextInput.placed width .g prompt 0 ++
            TextInput.placed width (if masked then fun _ => .mask else .g) (tiAbs m).text col) ∧
    col = widthSumI width prompt := by
  refine ⟨drawCells_fit width hw masked m prompt winW col hinv hp hcol hfit, ?_⟩
  have := promptLoop_col width winW prompt 0 col hp
  omega

/-- Whatever the window width (also when the line does not fit): after `Draw` the scroll offset is
between 0 and the cursor — the view is never scrolled past the cursor (the F47 loop guard and the
"scroll toward beginning" adjustment), so the grapheme behind the cursor is never left of the view. -/
theorem textinput_draw_offset_bounds {G : Type} (width : G → Int) (m : TextInput.TI G) (prompt : List G) (winW : Int)
    (h : TIInv m) (m' : TextInput.TI G) (c : Int) (hd : TextInput.draw width m prompt winW = .shown m' c) :
    0 ≤ m'.offset ∧ m'.offset ≤ m.cursor ∧ tiAbs m' = tiAbs m :=
  ⟨(draw_offset_le_cursor width m prompt winW h m' c hd).1, (draw_offset_le_cursor width m prompt winW h m' c hd).2,
   (draw_keeps width m prompt winW h m' c (Or.inl hd)).2⟩

/-- Non-vacuity: 8 one-column graphemes, cursor at the end, 8 columns: offset 4. -/
example :
    (match TextInput.draw (fun _ : Nat => 1) (TextInput.setContent TextInput.new [0, 1, 2, 3, 4, 5, 6, 7]) [] 8 with
     | .shown m' _ => m'.offset | _ => -1) = 4 := by decide

/-- For every window width, scroll state and prompt (also when the line does not fit, also when the
prompt fills the window): every cell `Draw` writes lies inside its window, columns `0 … winW - 1`. -/
theorem textinput_cells_in_window {G : Type} (width : G → Int) (hw : ∀ g, 0 ≤ width g) (masked : Bool)
    (m : TextInput.TI G) (prompt : List G) (winW : Int) (hpos : 0 < winW) (cells : List (Int × TextInput.Glyph G))
    (hd : TextInput.drawCells width masked m prompt winW = some cells) :
    ∀ x ∈ cells, 0 ≤ x.1 ∧ x.1 < winW :=
  drawCells_in_window width hw masked m prompt winW hpos cells hd

/-- The `k`-th cell of a laid-out list sits at the start column plus the display width of the `k`
graphemes before it. -/
theorem textinput_cells_columns {G : Type} (width : G → Int) (f : G → TextInput.Glyph G) (l : List G) (c : Int) (k : Nat) :
    (TextInput.placed width f l c)[k]? = (l[k]?).map (fun g => (c + widthSumI width (l.take k), f g)) :=
  placed_getElem? width f l c k

/-- With graphemes of positive width the columns of a layout strictly increase: none of the cells of
`textinput_cells_fit` is written over another one, each grapheme stays visible (a zero-width
grapheme shares its column with the next one and is overwritten — in the model as in the widget). -/
theorem textinput_cells_no_overwrite {G : Type} (width : G → Int) (hw : ∀ g, 0 < width g)
    (f : G → TextInput.Glyph G) (l : List G) (c : Int) :
    ((TextInput.placed width f l c).map (·.1)).Pairwise (· < ·) :=
  placed_cols_increasing width hw f l c

/-- Non-vacuity of `textinput_cells_fit`: prompt "aa", text "世a" in 12 columns: a a 世 · a. -/
example :
    TextInput.drawCells (fun g : Nat => if g = 3 then 2 else 1) false (TextInput.setContent TextInput.new [3, 0]) [0, 0] 12 =
      some [(0, .g 0), (1, .g 0), (2, .g 3), (4, .g 0)] := by decide

/-! ### Texts whose graphemes can merge (combining marks, joiners, variation selectors, flags, jamo)

The theorems above treat a text as a list of graphemes that never merge (`Model.TextField`,
`Model.TextInput`).  The ones below are about the same code over a text of atoms (code points) with a
segmentation `cl` (uniseg in the widgets) that is only asked to be a `Segmentation`; the ideal editor
is `Spec.Editor.applyC`: the grapheme editor followed by re-segmentation, cursor behind the text it
was behind.  They are true since the F217 (TextField) and F317 (textinput) fixes. -/

open VaxisModel.Lemmas.EditorCl VaxisModel.Lemmas.TextInputCl

/-- The hypotheses on the segmentation are satisfiable, by the segmentation that never merges (the
setting of the theorems above) and by one that merges everything (a text of marks that all join). -/
theorem segmentation_instances {A : Type} :
    Segmentation (singletons (A := A)) ∧ Segmentation (oneCluster (A := A)) :=
  ⟨singletons_seg, oneCluster_seg⟩

/-- The ideal editor over merging graphemes with the segmentation that never merges *is* the grapheme
editor `apply` of the theorems above: on a text of single-atom graphemes, with single-atom graphemes
typed, re-segmentation changes nothing (it only clamps the cursor into the text, where the grapheme
editor's cursor already is when it started there). -/
theorem clustered_editor_merge_free_instance {A : Type} (isWord : List A → Bool) (s : Ed (List A)) (op : Op (List A))
    (hs : AllSingle s.text) (hop : OpSingle op) :
    applyC singletons isWord s op =
      ⟨(apply isWord s op).text, min (apply isWord s op).cursor (apply isWord s op).text.length⟩ ∧
    AllSingle (apply isWord s op).text :=
  ⟨applyC_singletons isWord s op hs hop, apply_allSingle isWord s op hs hop⟩

/-- Non-vacuity: "ab" with the cursor at 1, typing "c". -/
example : applyC singletons (fun _ => true) ⟨[[0], [1]], 1⟩ (.insert [[2]]) = (⟨[[0], [2], [1]], 2⟩ : Ed (List Nat)) := by decide

/-- `textfield_refines` over merging graphemes (one step): from a state with `n` = grapheme count and
the cursor within the text, every operation of the exported API keeps that and is exactly the ideal
operation followed by re-segmentation: the widget holds the same text, segmented the same way, the
cursor at the same grapheme index — also when the typed string joins the grapheme before or after
it, or a deletion brings two parts of a grapheme together. -/
theorem textfield_step_refines_clustered {A : Type} [DecidableEq A] (cl : List A → List (List A))
    (hs : Segmentation cl) (isWord : List A → Bool) (tf : TextFieldCl.TF A) (op : TFOpC A) (h : InvC cl tf) :
    InvC cl (tfStepC cl tf op).1 ∧ absC cl (tfStepC cl tf op).1 = applyC cl isWord (absC cl tf) (specOfC cl op) :=
  tfStepC_refines isWord hs tf op h

/-- `textfield_refines` over merging graphemes: all histories from any starting content. -/
theorem textfield_refines_clustered {A : Type} [DecidableEq A] (cl : List A → List (List A))
    (hs : Segmentation cl) (isWord : List A → Bool) (start : List A) (ops : List (TFOpC A)) :
    let tf := tfRunC cl (TextFieldCl.insertString cl TextFieldCl.new start) ops
    absC cl tf = runC cl isWord ⟨cl start, (cl start).length⟩ (ops.map (specOfC cl)) ∧
      tf.cursor ≤ (cl tf.value).length ∧ tf.n = (cl tf.value).length := by
  intro tf
  have h0 : InvC cl (TextFieldCl.new : TextFieldCl.TF A) := by
    simp [InvC, TextFieldCl.new, cl_nil hs]
  have h1 := insert_refinesC isWord hs TextFieldCl.new start h0
  have h2 := tfRunC_refines isWord hs ops _ h1.1
  refine ⟨?_, h2.1.2, h2.1.1⟩
  rw [h2.2, h1.2]
  congr 1
  have hnil : (cl ([] : List A)) = [] := cl_nil hs
  simp only [applyC, apply, absC, TextFieldCl.new, hnil, List.take_nil, List.drop_nil, List.nil_append,
    List.append_nil, List.length_nil, Nat.zero_add]
  have := resegment_id hs start (cl start).length (Nat.le_refl _)
  exact this

/-- `callbacks_exact` over merging graphemes: OnSubmit iff Enter (with the line), OnChange iff the
text changed (with the new text). -/
theorem textfield_callbacks_exact_clustered {A : Type} [DecidableEq A] (cl : List A → List (List A))
    (hs : Segmentation cl) (isWord : List A → Bool) (tf : TextFieldCl.TF A) (ev : TextField.KeyEv A) (h : InvC cl tf) :
    (TextFieldCl.handleKey cl tf ev).2.map (absCallC cl) = callbacksC cl isWord (absC cl tf) (meaningOfC cl ev) :=
  (handleKey_refinesC isWord hs tf ev h).2.2

/-- `cursor_column` over merging graphemes: the drawn cursor column is the display width of the
graphemes before the cursor. -/
theorem textfield_cursor_column_clustered {A : Type} (cl : List A → List (List A)) (chars : List A → List Nat)
    (tf : TextFieldCl.TF A) :
    TextFieldCl.drawCursorCol cl chars tf =
      UInt16.ofNat (widthSum (cellWidth chars) ((absC cl tf).text.take (absC cl tf).cursor)) :=
  drawCursorCol_eq chars _

/-- The F217 scenario on the fixed code, with a segmentation in which atom 9 joins whatever is
before it: "ab", cursor to 1, type the mark, type "x" gives a+mark, x, b with the cursor behind x
(before the fix: a+mark, b, x). -/
example :
    let cl : List Nat → List (List Nat) := fun x => if x = [0, 9, 1] then [[0, 9], [1]] else
      if x = [0, 9] then [[0, 9]] else if x = [0, 9, 7, 1] then [[0, 9], [7], [1]] else
      if x = [0, 9, 7] then [[0, 9], [7]] else singletons x
    let ty (g : Nat) : TextField.KeyEv Nat := ⟨false, [g], false, false, false, false, false, false, false, false⟩
    let tf := tfRunC cl (TextFieldCl.insertString cl TextFieldCl.new [0, 1]) [.cur 1, .key (ty 9), .key (ty 7)]
    (tf.value, tf.cursor, tf.n) = ([0, 9, 7, 1], 2, 3) := by decide

/-- Non-vacuity with a `Segmentation` that merges: under `oneCluster` typing two atoms one after the
other leaves one grapheme and the cursor at 1. -/
example :
    let ty (g : Nat) : TextField.KeyEv Nat := ⟨false, [g], false, false, false, false, false, false, false, false⟩
    let tf := tfRunC oneCluster (TextFieldCl.new : TextFieldCl.TF Nat) [.key (ty 0), .key (ty 9)]
    (tf.value, tf.cursor, tf.n) = ([0, 9], 1, 1) := by decide

/-- `textinput_refines` over merging graphemes (one step): from a state with the cursor within the
content, a non-negative offset and the content segmented as its text is, every call of the textinput
API returns (no panic, no hang), keeps that, and is exactly the ideal operation followed by
re-segmentation. -/
theorem textinput_step_refines_clustered {A : Type} (cl : List A → List (List A)) (hs : Segmentation cl)
    (isAlnum : List A → Bool) (width : List A → Int) (m : TextInputCl.TIC A) (op : TIOpC A) (h : TIInvC cl m) :
    ∃ m', tiStepC isAlnum cl width m op = some m' ∧ TIInvC cl m' ∧
      tiAbsC m' = applyC cl isAlnum (tiAbsC m) (tiOpSpecC cl m op) :=
  tiStepC_refines isAlnum hs width m op h

/-- `textinput_refines` over merging graphemes: all histories from any starting content. -/
theorem textinput_refines_clustered {A : Type} (cl : List A → List (List A)) (hs : Segmentation cl)
    (isAlnum : List A → Bool) (width : List A → Int) (start : List A) (ops : List (TIOpC A)) :
    ∃ mf sops, tiRunC isAlnum cl width (TextInputCl.setContent cl TextInputCl.new start) ops = some (mf, sops) ∧
      tiAbsC mf = runC cl isAlnum ⟨cl start, (cl start).length⟩ sops ∧
      0 ≤ mf.cursor ∧ mf.cursor ≤ mf.content.length ∧ mf.content = cl mf.content.flatten := by
  have h0 : TIInvC cl (TextInputCl.setContent cl (TextInputCl.new : TextInputCl.TIC A) start) :=
    ⟨⟨by simp [TextInputCl.setContent, TextInputCl.toG], by simp [TextInputCl.setContent, TextInputCl.toG],
      by simp [TextInputCl.setContent, TextInputCl.new, TextInputCl.toG]⟩,
     by simp [TextInputCl.setContent, hs.flatten]⟩
  obtain ⟨mf, sops, hr, hinv, habs⟩ := tiRunC_refines isAlnum hs width ops _ h0
  refine ⟨mf, sops, hr, ?_, hinv.1.1, hinv.1.2.1, hinv.2⟩
  rw [habs]
  simp [tiAbsC, TextInputCl.setContent, TextInputCl.new]

/-- The F317 scenario on the fixed code under `oneCluster`: type an atom, type a second one that
joins it — one character, cursor 1; BackSpace then deletes the whole grapheme (before the fix: two
characters, cursor 2, BackSpace left the first atom). -/
example :
    (tiRunC (fun _ => false) oneCluster (fun _ => 1) (TextInputCl.new : TextInputCl.TIC Nat)
      [.ev (.key "e" false false false [0]), .ev (.key "x" false false false [9])]).map
        (fun r => (r.1.content, r.1.cursor)) = some ([[0, 9]], 1) ∧
    (tiRunC (fun _ => false) oneCluster (fun _ => 1) (TextInputCl.new : TextInputCl.TIC Nat)
      [.ev (.key "e" false false false [0]), .ev (.key "x" false false false [9]),
       .ev (.key "BackSpace" false false false [])]).map
        (fun r => (r.1.content, r.1.cursor)) = some ([], 0) := by decide

/-! ### Tie to the source through the extractor: the theorems over `Gen/EditorKeys.lean` and `Gen/EditorBodies.lean`
    (regenerated every run) are in `Props/C17Facts.lean`, `C17FactsTF.lean`, `C17FactsTI.lean` (same namespace), so that a
    changed source breaks those modules and not the refinement theorems of this one. -/

/-- Every label of the table reaches the ideal operation of its arm (so `keyMeaning`, over which
`textinput_refines` is proved, implements the extracted table); the default arm inserts the text
unless Ctrl, Alt or Super is held. -/
theorem update_bindings_meaning :
    (∀ p ∈ bindingTable, ∀ k ∈ p.1, ∀ c a s, keyMeaning k c a s ([7] : List Nat) = p.2) ∧
    keyMeaning "x" false false false ([7] : List Nat) = .insert [7] ∧
    keyMeaning "Ctrl+x" true false false ([7] : List Nat) = .noop ∧
    keyMeaning "Alt+x" false true false ([7] : List Nat) = .noop ∧
    keyMeaning "Super+x" false false true ([7] : List Nat) = .noop := by decide

/-- Non-vacuity: "ab cd" + Ctrl+w deletes the last word; a 4-column window draws. -/
example :
    (tiRun (fun g : Nat => g < 2) (fun _ => 1) (TextInput.setContent TextInput.new [0, 1, 5, 0, 1])
      [.ev (.key "Ctrl+w" true false false []), .draw [] 4]).map (fun r => (r.1.content, r.1.cursor))
      = some ([0, 1, 5], 3) := by decide

end VaxisModel.Props.C17
