import VaxisModel.Model.TextField
import VaxisModel.Model.TextInput
import VaxisModel.Spec.Editor

/-! C17 — line editors behave like an ideal grapheme line editor. -/
namespace VaxisModel.Props.C17
open VaxisModel.Model VaxisModel.Spec.Editor

/-- `Reset` gives the empty ideal editor. -/
theorem reset_empty {G : Type} (tf : TextField.TF G) : (TextField.reset tf).value = [] ∧ (TextField.reset tf).cursor = 0 := by
  simp [TextField.reset]

end VaxisModel.Props.C17
