import VaxisModel.Lemmas.EdLangTFBody
import VaxisModel.Lemmas.EdLangTIBody
import VaxisModel.Props.C17

/-!
C17 — the bodies of the TextField's functions, translated from the source on every run
(`Gen/EditorLang.lean`: receiver fields, parameters, locals, every statement) and run by the
interpreter of `Model/EdLang.lean`, ARE the hand-written model `Model/TextFieldCl.lean` — the model
the refinement theorems of `Props/C17.lean` speak about.  A change of a statement in the source
changes the translated body: the driver's model follows it, and the theorem of that function fails.

`ClSane cl`: the empty string has no cluster, a non-empty one has one, the clusters concatenate to
the text — what makes "walk the string until it is empty" the same as "walk its clusters"; it
follows from `Spec.Editor.Segmentation` (`clSane_of_segmentation`).
-/
namespace VaxisModel.Props.C17Body
open VaxisModel.Model.EdLang VaxisModel.Model.EdRun VaxisModel.Gen.EditorLang VaxisModel.Lemmas.EdLangTF
open VaxisModel.Lemmas.EdLangTFBody VaxisModel.Model.EdGen
open VaxisModel.Model

variable {A : Type} [DecidableEq A]

/-- Every statement and expression of the ten TextField functions and of textinput's `SetContent`,
    `Update`, `resegment` was recognised by the translator. -/
theorem editor_bodies_fully_recognised :
    [tfHandleEvent, tfCheckChanged, tfReset, tfInsertStringAtCursor, tfCursorTo, tfDeleteCharRightOfCursor,
     tfDeleteCharLeftOfCursor, tfDeleteCursorToEndOfLine, tfInsertLoop, tfGraphemeCount, tiSetContent, tiUpdate,
     tiResegment].all Fn.fullyRecognised = true := by decide

/-- `graphemeCountInString` counts the clusters. -/
theorem tf_count_body_eq_model (cl : List A → List (List A)) (hs : ClSane cl) (s : List A) (env : Env A) :
    tfCall0 genTf cl "graphemeCountInString" [.str s] env = some (env, .num (cl s).length) :=
  count_body_eq_model cl hs s env

/-- `Reset` clears value, cursor and the cached count `n`. -/
theorem tf_reset_body_eq_model (cl : List A → List (List A)) (tf : TextFieldCl.TF A) :
    tfApi genTf cl "Reset" [] tf = some (TextFieldCl.reset tf, .opaque) :=
  tfApi_of_call cl _ _ _ _ _ (by simpa [tfCall2, tfCall1] using reset_body_eq_model cl tf)

/-- `CursorTo` -/
theorem tf_cursorTo_body_eq_model (cl : List A → List (List A)) (tf : TextFieldCl.TF A) (i : Nat) :
    tfApi genTf cl "CursorTo" [.num i] tf = some ((TextFieldCl.cursorTo tf i).1, .cmd (TextFieldCl.cursorTo tf i).2) :=
  tfApi_of_call cl _ _ _ _ _ (by simpa [tfCall2, tfCall1] using cursorTo_body_eq_model cl tf i)

/-- `InsertStringAtCursor` (with the helper `insertStringAtCursor`, its loop, the recount of `n`) -/
theorem tf_insertString_body_eq_model (cl : List A → List (List A)) (hs : ClSane cl) (tf : TextFieldCl.TF A) (s : List A) :
    tfApi genTf cl "InsertStringAtCursor" [.str s] tf = some (TextFieldCl.insertString cl tf s, .cmd true) :=
  tfApi_of_call cl _ _ _ _ _ (by simpa [tfCall2] using insertString_body_eq_model cl hs tf s)

/-- `DeleteCharRightOfCursor` -/
theorem tf_deleteRight_body_eq_model (cl : List A → List (List A)) (hs : ClSane cl) (tf : TextFieldCl.TF A) :
    tfApi genTf cl "DeleteCharRightOfCursor" [] tf =
      some ((TextFieldCl.deleteRight cl tf).1, .cmd (TextFieldCl.deleteRight cl tf).2) :=
  tfApi_of_call cl _ _ _ _ _ (by simpa [tfCall2, tfCall1] using deleteRight_body_eq_model cl hs tf)

/-- `DeleteCharLeftOfCursor` (the recount `tf.n = graphemeCountInString(tf.Value)`, `tf.cursor -= 1`) -/
theorem tf_deleteLeft_body_eq_model (cl : List A → List (List A)) (hs : ClSane cl) (tf : TextFieldCl.TF A) :
    tfApi genTf cl "DeleteCharLeftOfCursor" [] tf =
      some ((TextFieldCl.deleteLeft cl tf).1, .cmd (TextFieldCl.deleteLeft cl tf).2) :=
  tfApi_of_call cl _ _ _ _ _ (by simpa [tfCall2, tfCall1] using deleteLeft_body_eq_model cl hs tf)

/-- `DeleteCursorToEndOfLine` -/
theorem tf_killToEnd_body_eq_model (cl : List A → List (List A)) (hs : ClSane cl) (tf : TextFieldCl.TF A) :
    tfApi genTf cl "DeleteCursorToEndOfLine" [] tf =
      some ((TextFieldCl.killToEnd cl tf).1, .cmd (TextFieldCl.killToEnd cl tf).2) :=
  tfApi_of_call cl _ _ _ _ _ (by simpa [tfCall2, tfCall1] using killToEnd_body_eq_model cl hs tf)

/-- `checkChanged` with the `OnChange` callback installed: called with the new value iff it differs. -/
theorem tf_checkChanged_body_eq_model (cl : List A → List (List A)) (tf : TextFieldCl.TF A) (pre : List A) (cmd : Bool) (log : V A) :
    (callMethod (tfCx3 genTf cl) tfKeysCb tfCheckChanged [.cmd cmd, .str pre]
      (envOfTF tf ++ [("tf.OnChange", .opaque), ("tf.OnSubmit", .opaque), ("log", log)])).map (fun p => logOf (getV p.1 "log")) =
      some (logOf log ++ (TextFieldCl.checkChanged pre tf).map callName) :=
  checkChanged_body_eq_model cl tf pre cmd log

/-- `HandleEvent` for a key event with both callbacks installed — the release test, the text test,
    the chain of `Matches` tests in source order, the calls into the API functions, `checkChanged`,
    the deferred `Reset` — is the model's `handleKey`: same state, same callbacks. -/
theorem tf_handleEvent_body_eq_model (cl : List A → List (List A)) (hs : ClSane cl) (tf : TextFieldCl.TF A)
    (ev : TextField.KeyEv A) :
    tfHandleKey genTf cl tf ev = some ((TextFieldCl.handleKey cl tf ev).1, (TextFieldCl.handleKey cl tf ev).2.map callName) :=
  handleEvent_body_eq_model cl hs tf ev

/-- Every `Segmentation` is sane in the sense used above. -/
theorem clSane_of_segmentation (cl : List A → List (List A)) (h : VaxisModel.Spec.Editor.Segmentation cl) : ClSane cl :=
  clSane_of_seg cl h

/-- Non-vacuity: the segmentation that never merges is sane. -/
example : ClSane (VaxisModel.Lemmas.EditorCl.singletons (A := Nat)) :=
  clSane_of_seg _ VaxisModel.Lemmas.EditorCl.singletons_seg

open VaxisModel.Lemmas.EditorCl (TFOpC tfRunC absC specOfC) in
open VaxisModel.Spec.Editor (runC) in
/-- End to end, for EVERY segmentation meeting the three laws and every history (key events through
    `HandleEvent`, calls of the exported API) from any starting content: the TextField as translated from
    the source and run by the interpreter never gets stuck, holds the ideal editor's text with the cursor at
    the ideal editor's grapheme index, the cursor within the text, and `n` the grapheme count. -/
theorem textfield_source_refines (cl : List A → List (List A)) (hs : VaxisModel.Spec.Editor.Segmentation cl)
    (isWord : List A → Bool) (start : List A) (ops : List (TFOpC A)) :
    ∃ tf0 tf, tfStepI cl TextFieldCl.new (.ins start) = some tf0 ∧ tfRunI cl tf0 ops = some tf ∧
      absC cl tf = runC cl isWord ⟨cl start, (cl start).length⟩ (ops.map (specOfC cl)) ∧
      tf.cursor ≤ (cl tf.value).length ∧ tf.n = (cl tf.value).length := by
  have hsane := clSane_of_seg cl hs
  refine ⟨_, _, tfStepI_eq cl hsane _ _, tfRunI_eq cl hsane ops _, ?_⟩
  exact VaxisModel.Props.C17.textfield_refines_clustered cl hs isWord start ops

open VaxisModel.Lemmas.EditorCl (InvC absC absCallC meaningOfC) in
open VaxisModel.Spec.Editor (callbacksC Callback) in
/-- Callbacks of the interpreted source, for every `Segmentation`: on a state with `n = count`, `cursor ≤ count`,
    `HandleEvent` as translated from the source calls `OnSubmit` exactly on Enter (with the line) and `OnChange`
    exactly when the text changed (with the new text) — the ideal editor's callbacks, in order. -/
theorem textfield_source_callbacks_exact (cl : List A → List (List A)) (hs : VaxisModel.Spec.Editor.Segmentation cl)
    (isWord : List A → Bool) (tf : TextFieldCl.TF A) (ev : TextField.KeyEv A) (h : InvC cl tf) :
    ∃ tf' log, tfHandleKey genTf cl tf ev = some (tf', log) ∧
      log.map (fun kv => if kv.1 = "submit" then Callback.submit (cl kv.2) else Callback.change (cl kv.2)) =
        callbacksC cl isWord (absC cl tf) (meaningOfC cl ev) := by
  refine ⟨_, _, handleEvent_body_eq_model cl (clSane_of_seg cl hs) tf ev, ?_⟩
  rw [← VaxisModel.Props.C17.textfield_callbacks_exact_clustered cl hs isWord tf ev h, List.map_map]
  apply List.map_congr_left
  intro c _
  cases c <;> simp [callName, absCallC]

/-! ### textinput.Model -/

open VaxisModel.Lemmas.EdLangTIBody in
/-- `SetContent` -/
theorem ti_setContent_body_eq_model (cl : List A → List (List A)) (al : List A → Bool) (m : TextInputCl.TIC A) (s : List A) :
    tiRunSetContent genTi cl al m s = some (TextInputCl.setContent cl m s) :=
  setContent_body_eq_model cl al m s

open VaxisModel.Lemmas.EdLangTIBody in
/-- `resegment`: re-segments the text, cursor behind the text it was behind; panics exactly when the model says so. -/
theorem ti_resegment_body_eq_model (cl : List A → List (List A)) (al : List A → Bool) (m : TextInputCl.TIC A) :
    callMethod (tiCx0 cl al) tiKeys tiResegment [] (envOfTI m) =
      (TextInputCl.resegment cl m).map fun m' => (envOfTI m', .opaque) :=
  resegment_body_eq_model cl al m

open VaxisModel.Lemmas.EdLangTIBody in
/-- `Update`, for EVERY event and every state: the type switch, the paste bracket (PasteEnd inserts
    `Characters(string(m.paste))`, paste keys append to the buffer), the release test, the whole key map
    (`switch msg.String()`: the nineteen labels, the word-motion and kill-word loops with their index
    expressions, the slice expressions of the deleting arms, the default arm's modifier guards and its loop of
    `slices.Insert`), the final clamping and `m.resegment()` — translated from the source and run by the
    interpreter — is the model's `update`: result for result, panic for panic.  (`cl [] = []`: the empty
    string has no character — law 2 of `Segmentation` at `i = 0`.) -/
theorem ti_update_body_eq_model (cl : List A → List (List A)) (hnil : cl [] = []) (al : List A → Bool) (m : TextInputCl.TIC A)
    (ev : TextInputCl.Ev A) :
    tiRunUpdate genTi cl al m ev = TextInputCl.update cl al m ev :=
  update_body_eq_model cl hnil al m ev

open VaxisModel.Lemmas.EdLangTIBody VaxisModel.Lemmas.TextInputCl in
open VaxisModel.Spec.Editor (runC) in
/-- End to end for textinput, for EVERY segmentation meeting the three laws and every history of `Update`
    events (keys, paste brackets, releases), `SetContent` and `Draw` calls from any starting content: the
    widget with `Update` / `SetContent` as translated from the source and interpreted (its `Draw` as modelled) never
    panics or hangs, holds the ideal editor's text with the cursor at the ideal index within the text, and its
    content stays the segmentation of its text. -/
theorem textinput_source_refines (cl : List A → List (List A)) (hs : VaxisModel.Spec.Editor.Segmentation cl)
    (isAlnum : List A → Bool) (width : List A → Int) (start : List A) (ops : List (TIOpC A)) :
    ∃ m0 mf sops, tiStepI isAlnum cl width TextInputCl.new (.set start) = some m0 ∧
      tiRunI isAlnum cl width m0 ops = some (mf, sops) ∧
      tiAbsC mf = runC cl isAlnum ⟨cl start, (cl start).length⟩ sops ∧
      0 ≤ mf.cursor ∧ mf.cursor ≤ mf.content.length ∧ mf.content = cl mf.content.flatten := by
  have hnil := VaxisModel.Lemmas.EditorCl.cl_nil hs
  obtain ⟨mf, sops, hr, h⟩ := VaxisModel.Props.C17.textinput_refines_clustered cl hs isAlnum width start ops
  refine ⟨TextInputCl.setContent cl TextInputCl.new start, mf, sops, ?_, ?_, h⟩
  · rw [tiStepI_eq isAlnum cl hnil]; rfl
  · rw [tiRunI_eq isAlnum cl hnil]; exact hr

/-- Non-vacuity / a computed instance: Ctrl+w behind "ab cd" through the translated body. -/
example : tiRunUpdate genTi (VaxisModel.Lemmas.EditorCl.singletons (A := Nat)) (fun c => c != [0])
    ⟨[[1], [2], [0], [3], [4]], 5, 0, []⟩ (.key "Ctrl+w" false false false []) = some ⟨[[1], [2], [0]], 3, 0, []⟩ := by
  decide

end VaxisModel.Props.C17Body
