import VaxisModel.Lemmas.EdLangTFBody
import VaxisModel.Props.C17

/-!
C17 — the bodies of the TextField's functions, translated from the source on every run
(`Gen/EditorLang.lean`: receiver fields, parameters, locals, every statement) and run by the
interpreter of `Model/EdLang.lean`, ARE the hand-written model `Model/TextFieldCl.lean` — the model
the refinement theorems of `Props/C17.lean` speak about.  A change of a statement in the source
changes the translated body: the driver's model follows it, and the theorem of that function fails.

`ClSane cl`: the empty string has no cluster, a non-empty one has one, the clusters concatenate to
the text — what makes "walk the string until it is empty" the same as "walk its clusters"; it
follows from `Spec.Editor.Segmentation` (`clSane_of_segmentation`).

One module per function (`Props/C17BodyReset.lean`, `…CursorTo`, `…Insert`, `…DelRight`, `…DelLeft`, `…Kill`, `…Check`,
`…Base`, textinput in `…TI`), so that a changed function breaks its own theorem and the composite ones here, not the others.
-/
namespace VaxisModel.Props.C17Body
open VaxisModel.Model.EdLang VaxisModel.Model.EdRun VaxisModel.Gen.EditorLang VaxisModel.Lemmas.EdLangTF
open VaxisModel.Lemmas.EdLangTFBody VaxisModel.Model.EdGen
open VaxisModel.Model

variable {A : Type} [DecidableEq A]

/-- `HandleEvent` for a key event with both callbacks installed — the release test, the text test,
    the chain of `Matches` tests in source order, the calls into the API functions, `checkChanged`,
    the deferred `Reset` — is the model's `handleKey`: same state, same callbacks. -/
theorem tf_handleEvent_body_eq_model (cl : List A → List (List A)) (hs : ClSane cl) (tf : TextFieldCl.TF A)
    (ev : TextField.KeyEv A) :
    tfHandleKey genTf cl tf ev = some ((TextFieldCl.handleKey cl tf ev).1, (TextFieldCl.handleKey cl tf ev).2.map callName) :=
  handleEvent_body_eq_model cl hs tf ev

/-- `HandleEvent` when the application installed no callback (`tf.OnSubmit == nil`, `tf.OnChange == nil`: the other
    branches of `HandleEvent` / `checkChanged`): the state changes exactly as with callbacks, nothing is called. -/
theorem tf_handleEvent_nocb_body_eq_model (cl : List A → List (List A)) (hs : ClSane cl) (tf : TextFieldCl.TF A)
    (ev : TextField.KeyEv A) :
    tfHandleKeyNoCb genTf cl tf ev = some ((TextFieldCl.handleKey cl tf ev).1, []) :=
  handleEvent_nocb_body_eq_model cl hs tf ev

open VaxisModel.Lemmas.EditorCl (TFOpC tfRunC absC specOfC) in
open VaxisModel.Spec.Editor (runC) in
/-- End to end, for EVERY segmentation meeting the three laws and every history (key events through
    `HandleEvent`, calls of the exported API) from any starting content: the TextField as translated from
    the source and run by the interpreter never gets stuck, holds the ideal editor's text with the cursor at
    the ideal editor's grapheme index, the cursor within the text, and `n` the grapheme count. -/
theorem textfield_source_refines (cl : List A → List (List A)) (hs : VaxisModel.Spec.Editor.Segmentation cl)
    (isWord : List A → Bool) (start : List A) (ops : List (TFOpC A)) :
    ∃ tf0 tf, tfStepI cl TextFieldCl.new (.ins start) = some tf0 ∧ tfRunI cl tf0 ops = some tf ∧
      absC cl tf = runC cl isWord ⟨cl start, (cl start).length⟩ (ops.map (specOfC cl)) ∧
      tf.cursor ≤ (cl tf.value).length ∧ tf.n = (cl tf.value).length := by
  have hsane := clSane_of_seg cl hs
  refine ⟨_, _, tfStepI_eq cl hsane _ _, tfRunI_eq cl hsane ops _, ?_⟩
  exact VaxisModel.Props.C17.textfield_refines_clustered cl hs isWord start ops

open VaxisModel.Lemmas.EditorCl (InvC absC absCallC meaningOfC) in
open VaxisModel.Spec.Editor (callbacksC Callback) in
/-- Callbacks of the interpreted source, for every `Segmentation`: on a state with `n = count`, `cursor ≤ count`,
    `HandleEvent` as translated from the source calls `OnSubmit` exactly on Enter (with the line) and `OnChange`
    exactly when the text changed (with the new text) — the ideal editor's callbacks, in order. -/
theorem textfield_source_callbacks_exact (cl : List A → List (List A)) (hs : VaxisModel.Spec.Editor.Segmentation cl)
    (isWord : List A → Bool) (tf : TextFieldCl.TF A) (ev : TextField.KeyEv A) (h : InvC cl tf) :
    ∃ tf' log, tfHandleKey genTf cl tf ev = some (tf', log) ∧
      log.map (fun kv => if kv.1 = "submit" then Callback.submit (cl kv.2) else Callback.change (cl kv.2)) =
        callbacksC cl isWord (absC cl tf) (meaningOfC cl ev) := by
  refine ⟨_, _, handleEvent_body_eq_model cl (clSane_of_seg cl hs) tf ev, ?_⟩
  rw [← VaxisModel.Props.C17.textfield_callbacks_exact_clustered cl hs isWord tf ev h, List.map_map]
  apply List.map_congr_left
  intro c _
  cases c <;> simp [callName, absCallC]

end VaxisModel.Props.C17Body
