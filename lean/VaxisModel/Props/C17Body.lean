import VaxisModel.Lemmas.EdLangTFBody

/-!
C17 — the bodies of the TextField's functions, translated from the source on every run
(`Gen/EditorLang.lean`: receiver fields, parameters, locals, every statement) and run by the
interpreter of `Model/EdLang.lean`, ARE the hand-written model `Model/TextFieldCl.lean` — the model
the refinement theorems of `Props/C17.lean` speak about.  A change of a statement in the source
changes the translated body: the driver's model follows it, and the theorem of that function fails.

`ClSane cl`: the empty string has no cluster, a non-empty one has one, the clusters concatenate to
the text — what makes "walk the string until it is empty" the same as "walk its clusters"; it
follows from `Spec.Editor.Segmentation` (`clSane_of_segmentation`).
-/
namespace VaxisModel.Props.C17Body
open VaxisModel.Model.EdLang VaxisModel.Model.EdRun VaxisModel.Gen.EditorLang VaxisModel.Lemmas.EdLangTF
open VaxisModel.Lemmas.EdLangTFBody VaxisModel.Model.EdGen
open VaxisModel.Model

variable {A : Type} [DecidableEq A]

/-- Every statement and expression of the ten TextField functions and of textinput's `SetContent`,
    `Update`, `resegment` was recognised by the translator. -/
theorem editor_bodies_fully_recognised :
    [tfHandleEvent, tfCheckChanged, tfReset, tfInsertStringAtCursor, tfCursorTo, tfDeleteCharRightOfCursor,
     tfDeleteCharLeftOfCursor, tfDeleteCursorToEndOfLine, tfInsertLoop, tfGraphemeCount, tiSetContent, tiUpdate,
     tiResegment].all Fn.fullyRecognised = true := by decide

/-- `graphemeCountInString` counts the clusters. -/
theorem tf_count_body_eq_model (cl : List A → List (List A)) (hs : ClSane cl) (s : List A) (env : Env A) :
    tfCall0 genTf cl "graphemeCountInString" [.str s] env = some (env, .num (cl s).length) :=
  count_body_eq_model cl hs s env

/-- `Reset` clears value, cursor and the cached count `n`. -/
theorem tf_reset_body_eq_model (cl : List A → List (List A)) (tf : TextFieldCl.TF A) :
    tfApi genTf cl "Reset" [] tf = some (TextFieldCl.reset tf, .opaque) :=
  tfApi_of_call cl _ _ _ _ _ (by simpa [tfCall2, tfCall1] using reset_body_eq_model cl tf)

/-- `CursorTo` -/
theorem tf_cursorTo_body_eq_model (cl : List A → List (List A)) (tf : TextFieldCl.TF A) (i : Nat) :
    tfApi genTf cl "CursorTo" [.num i] tf = some ((TextFieldCl.cursorTo tf i).1, .cmd (TextFieldCl.cursorTo tf i).2) :=
  tfApi_of_call cl _ _ _ _ _ (by simpa [tfCall2, tfCall1] using cursorTo_body_eq_model cl tf i)

/-- `InsertStringAtCursor` (with the helper `insertStringAtCursor`, its loop, the recount of `n`) -/
theorem tf_insertString_body_eq_model (cl : List A → List (List A)) (hs : ClSane cl) (tf : TextFieldCl.TF A) (s : List A) :
    tfApi genTf cl "InsertStringAtCursor" [.str s] tf = some (TextFieldCl.insertString cl tf s, .cmd true) :=
  tfApi_of_call cl _ _ _ _ _ (by simpa [tfCall2] using insertString_body_eq_model cl hs tf s)

/-- `DeleteCharRightOfCursor` -/
theorem tf_deleteRight_body_eq_model (cl : List A → List (List A)) (hs : ClSane cl) (tf : TextFieldCl.TF A) :
    tfApi genTf cl "DeleteCharRightOfCursor" [] tf =
      some ((TextFieldCl.deleteRight cl tf).1, .cmd (TextFieldCl.deleteRight cl tf).2) :=
  tfApi_of_call cl _ _ _ _ _ (by simpa [tfCall2, tfCall1] using deleteRight_body_eq_model cl hs tf)

/-- `DeleteCharLeftOfCursor` (the recount `tf.n = graphemeCountInString(tf.Value)`, `tf.cursor -= 1`) -/
theorem tf_deleteLeft_body_eq_model (cl : List A → List (List A)) (hs : ClSane cl) (tf : TextFieldCl.TF A) :
    tfApi genTf cl "DeleteCharLeftOfCursor" [] tf =
      some ((TextFieldCl.deleteLeft cl tf).1, .cmd (TextFieldCl.deleteLeft cl tf).2) :=
  tfApi_of_call cl _ _ _ _ _ (by simpa [tfCall2, tfCall1] using deleteLeft_body_eq_model cl hs tf)

/-- `DeleteCursorToEndOfLine` -/
theorem tf_killToEnd_body_eq_model (cl : List A → List (List A)) (hs : ClSane cl) (tf : TextFieldCl.TF A) :
    tfApi genTf cl "DeleteCursorToEndOfLine" [] tf =
      some ((TextFieldCl.killToEnd cl tf).1, .cmd (TextFieldCl.killToEnd cl tf).2) :=
  tfApi_of_call cl _ _ _ _ _ (by simpa [tfCall2, tfCall1] using killToEnd_body_eq_model cl hs tf)

/-- `checkChanged` with the `OnChange` callback installed: called with the new value iff it differs. -/
theorem tf_checkChanged_body_eq_model (cl : List A → List (List A)) (tf : TextFieldCl.TF A) (pre : List A) (cmd : Bool) (log : V A) :
    (callMethod (tfCx3 genTf cl) tfKeysCb tfCheckChanged [.cmd cmd, .str pre]
      (envOfTF tf ++ [("tf.OnChange", .opaque), ("tf.OnSubmit", .opaque), ("log", log)])).map (fun p => logOf (getV p.1 "log")) =
      some (logOf log ++ (TextFieldCl.checkChanged pre tf).map callName) :=
  checkChanged_body_eq_model cl tf pre cmd log

/-- `HandleEvent` for a key event with both callbacks installed — the release test, the text test,
    the chain of `Matches` tests in source order, the calls into the API functions, `checkChanged`,
    the deferred `Reset` — is the model's `handleKey`: same state, same callbacks. -/
theorem tf_handleEvent_body_eq_model (cl : List A → List (List A)) (hs : ClSane cl) (tf : TextFieldCl.TF A)
    (ev : TextField.KeyEv A) :
    tfHandleKey genTf cl tf ev = some ((TextFieldCl.handleKey cl tf ev).1, (TextFieldCl.handleKey cl tf ev).2.map callName) :=
  handleEvent_body_eq_model cl hs tf ev

/-- Every `Segmentation` is sane in the sense used above. -/
theorem clSane_of_segmentation (cl : List A → List (List A)) (h : VaxisModel.Spec.Editor.Segmentation cl) : ClSane cl :=
  clSane_of_seg cl h

/-- Non-vacuity: the segmentation that never merges is sane. -/
example : ClSane (VaxisModel.Lemmas.EditorCl.singletons (A := Nat)) :=
  clSane_of_seg _ VaxisModel.Lemmas.EditorCl.singletons_seg

end VaxisModel.Props.C17Body
