import VaxisModel.Lemmas.EdLangTFBase

/-! C17 — translated bodies: everything recognised; `graphemeCountInString`; `ClSane` follows from `Segmentation`. See `Props/C17Body.lean` for the overview. -/
namespace VaxisModel.Props.C17Body
open VaxisModel.Model.EdLang VaxisModel.Model.EdRun VaxisModel.Gen.EditorLang VaxisModel.Lemmas.EdLangTF
open VaxisModel.Lemmas.EdLangTFBody VaxisModel.Model.EdGen
open VaxisModel.Model

variable {A : Type} [DecidableEq A]

/-- Every statement and expression of the ten TextField functions, `TextField.Draw`, and of textinput's `SetContent`,
    `Update`, `resegment` was recognised by the translator. -/
theorem editor_bodies_fully_recognised :
    [tfHandleEvent, tfCheckChanged, tfReset, tfInsertStringAtCursor, tfCursorTo, tfDeleteCharRightOfCursor,
     tfDeleteCharLeftOfCursor, tfDeleteCursorToEndOfLine, tfInsertLoop, tfGraphemeCount, tfDraw, tiSetContent, tiUpdate,
     tiResegment, tiIsAlphaNumeric, tiWidthToCursor, tiString, tiCursorPosition].all Fn.fullyRecognised = true := by decide

/-- `graphemeCountInString` counts the clusters. -/
theorem tf_count_body_eq_model (cl : List A → List (List A)) (hs : ClSane cl) (s : List A) (env : Env A) :
    tfCall0 genTf cl "graphemeCountInString" [.str s] env = some (env, .num (cl s).length) :=
  count_body_eq_model cl hs s env

/-- Every `Segmentation` is sane in the sense used above. -/
theorem clSane_of_segmentation (cl : List A → List (List A)) (h : VaxisModel.Spec.Editor.Segmentation cl) : ClSane cl :=
  clSane_of_seg cl h

/-- Non-vacuity: the segmentation that never merges is sane. -/
example : ClSane (VaxisModel.Lemmas.EditorCl.singletons (A := Nat)) :=
  clSane_of_seg _ VaxisModel.Lemmas.EditorCl.singletons_seg

end VaxisModel.Props.C17Body
