import VaxisModel.Lemmas.EdLangTFCheck

/-! C17 — `TextField.checkChanged` translated from the source = the model. -/
namespace VaxisModel.Props.C17Body
open VaxisModel.Model.EdLang VaxisModel.Model.EdRun VaxisModel.Gen.EditorLang VaxisModel.Lemmas.EdLangTF
open VaxisModel.Lemmas.EdLangTFBody VaxisModel.Model.EdGen
open VaxisModel.Model

variable {A : Type} [DecidableEq A]

/-- `checkChanged` with the `OnChange` callback installed: called with the new value iff it differs. -/
theorem tf_checkChanged_body_eq_model (cl : List A → List (List A)) (tf : TextFieldCl.TF A) (pre : List A) (cmd : Bool) (log : V A) :
    (callMethod (tfCx3 genTf cl) tfKeysCb tfCheckChanged [.cmd cmd, .str pre]
      (envOfTF tf ++ [("tf.OnChange", .opaque), ("tf.OnSubmit", .opaque), ("log", log)])).map (fun p => logOf (getV p.1 "log")) =
      some (logOf log ++ (TextFieldCl.checkChanged pre tf).map callName) :=
  checkChanged_body_eq_model cl tf pre cmd log

end VaxisModel.Props.C17Body
