import VaxisModel.Lemmas.EdLangTFCursorTo

/-! C17 — `TextField.CursorTo` translated from the source = the model. -/
namespace VaxisModel.Props.C17Body
open VaxisModel.Model.EdLang VaxisModel.Model.EdRun VaxisModel.Gen.EditorLang VaxisModel.Lemmas.EdLangTF
open VaxisModel.Lemmas.EdLangTFBody VaxisModel.Model.EdGen
open VaxisModel.Model

variable {A : Type} [DecidableEq A]

/-- `CursorTo` -/
theorem tf_cursorTo_body_eq_model (cl : List A → List (List A)) (tf : TextFieldCl.TF A) (i : Nat) :
    tfApi genTf cl "CursorTo" [.num i] tf = some ((TextFieldCl.cursorTo tf i).1, .cmd (TextFieldCl.cursorTo tf i).2) :=
  tfApi_of_call cl _ _ _ _ _ (by simpa [tfCall2, tfCall1] using cursorTo_body_eq_model cl tf i)

end VaxisModel.Props.C17Body
