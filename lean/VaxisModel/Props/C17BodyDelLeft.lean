import VaxisModel.Lemmas.EdLangTFDelLeft

/-! C17 — `TextField.DeleteCharLeftOfCursor` translated from the source = the model. -/
namespace VaxisModel.Props.C17Body
open VaxisModel.Model.EdLang VaxisModel.Model.EdRun VaxisModel.Gen.EditorLang VaxisModel.Lemmas.EdLangTF
open VaxisModel.Lemmas.EdLangTFBody VaxisModel.Model.EdGen
open VaxisModel.Model

variable {A : Type} [DecidableEq A]

/-- `DeleteCharLeftOfCursor` (the recount `tf.n = graphemeCountInString(tf.Value)`, `tf.cursor -= 1`) -/
theorem tf_deleteLeft_body_eq_model (cl : List A → List (List A)) (hs : ClSane cl) (tf : TextFieldCl.TF A) :
    tfApi genTf cl "DeleteCharLeftOfCursor" [] tf =
      some ((TextFieldCl.deleteLeft cl tf).1, .cmd (TextFieldCl.deleteLeft cl tf).2) :=
  tfApi_of_call cl _ _ _ _ _ (by simpa [tfCall2, tfCall1] using deleteLeft_body_eq_model cl hs tf)

end VaxisModel.Props.C17Body
