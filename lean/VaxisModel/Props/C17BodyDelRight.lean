import VaxisModel.Lemmas.EdLangTFDelRight

/-! C17 — `TextField.DeleteCharRightOfCursor` translated from the source = the model. -/
namespace VaxisModel.Props.C17Body
open VaxisModel.Model.EdLang VaxisModel.Model.EdRun VaxisModel.Gen.EditorLang VaxisModel.Lemmas.EdLangTF
open VaxisModel.Lemmas.EdLangTFBody VaxisModel.Model.EdGen
open VaxisModel.Model

variable {A : Type} [DecidableEq A]

/-- `DeleteCharRightOfCursor` -/
theorem tf_deleteRight_body_eq_model (cl : List A → List (List A)) (hs : ClSane cl) (tf : TextFieldCl.TF A) :
    tfApi genTf cl "DeleteCharRightOfCursor" [] tf =
      some ((TextFieldCl.deleteRight cl tf).1, .cmd (TextFieldCl.deleteRight cl tf).2) :=
  tfApi_of_call cl _ _ _ _ _ (by simpa [tfCall2, tfCall1] using deleteRight_body_eq_model cl hs tf)

end VaxisModel.Props.C17Body
