import VaxisModel.Lemmas.EdLangTFDraw

/-! C17 — `TextField.Draw` translated from the source (the walk over the grapheme clusters, the inner loop over the characters
    `ctx.Characters` draws a cluster as with `col += uint16(char.Width)`, the counter, the two places where `s.Cursor.Col` is
    set; `WriteCell` is an effect outside the editor's state) computes the model's cursor column. -/
namespace VaxisModel.Props.C17Body
open VaxisModel.Model.EdLang VaxisModel.Model.EdRun VaxisModel.Gen.EditorLang VaxisModel.Lemmas.EdLangTF
open VaxisModel.Lemmas.EdLangTFBody VaxisModel.Model.EdGen
open VaxisModel.Model

variable {A : Type} [DecidableEq A]

/-- A surface without cells: `Draw` returns before a cursor exists. -/
theorem tf_draw_zero_body_eq_model (cl : List A → List (List A)) (drawW : List A → List Int) (tf : TextFieldCl.TF A) (w h : Int)
    (hz : w = 0 ∨ h = 0) : tfDrawCol genTf cl drawW tf w h = some none :=
  draw_zero cl drawW tf w h hz

/-- Otherwise the translated body runs to its end and the cursor column it leaves in `s.Cursor.Col` is — as an
    integer whose value modulo 65536 is Go's `uint16` — the model's `drawCursorCol` (`drawW g` = the widths, none
    negative, of the characters `ctx.Characters` draws the cluster `g` as), for every `ClSane` segmentation. -/
theorem tf_draw_body_eq_model (cl : List A → List (List A)) (hs : ClSane cl) (drawW : List A → List Int)
    (hw : ∀ g, ∀ w ∈ drawW g, 0 ≤ w) (tf : TextFieldCl.TF A) (w h : Int) (hw0 : w ≠ 0) (hh0 : h ≠ 0) :
    ∃ c : Int, 0 ≤ c ∧ tfDrawCol genTf cl drawW tf w h = some (some c) ∧
      UInt16.ofNat c.toNat = TextFieldCl.drawCursorCol cl (fun g => (drawW g).map Int.toNat) tf :=
  draw_body_eq_model cl hs drawW hw tf w h hw0 hh0

/-- Non-vacuity / a computed instance: a tab drawn as eight blanks, then "b", with the cursor at the end: column 9 (F417). -/
example : tfDrawCol genTf (fun s : List Nat => s.map ([·])) (fun c => if c = [9] then [1, 1, 1, 1, 1, 1, 1, 1] else [1])
    ⟨[9, 1], 2, 2⟩ 80 1 = some (some 9) := by decide +kernel

end VaxisModel.Props.C17Body
