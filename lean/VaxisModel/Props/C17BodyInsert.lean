import VaxisModel.Lemmas.EdLangTFInsert

/-! C17 — `TextField.InsertStringAtCursor` translated from the source = the model. -/
namespace VaxisModel.Props.C17Body
open VaxisModel.Model.EdLang VaxisModel.Model.EdRun VaxisModel.Gen.EditorLang VaxisModel.Lemmas.EdLangTF
open VaxisModel.Lemmas.EdLangTFBody VaxisModel.Model.EdGen
open VaxisModel.Model

variable {A : Type} [DecidableEq A]

/-- `InsertStringAtCursor` (with the helper `insertStringAtCursor`, its loop, the recount of `n`) -/
theorem tf_insertString_body_eq_model (cl : List A → List (List A)) (hs : ClSane cl) (tf : TextFieldCl.TF A) (s : List A) :
    tfApi genTf cl "InsertStringAtCursor" [.str s] tf = some (TextFieldCl.insertString cl tf s, .cmd true) :=
  tfApi_of_call cl _ _ _ _ _ (by simpa [tfCall2] using insertString_body_eq_model cl hs tf s)

end VaxisModel.Props.C17Body
