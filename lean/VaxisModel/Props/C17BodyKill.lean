import VaxisModel.Lemmas.EdLangTFKill

/-! C17 — `TextField.DeleteCursorToEndOfLine` translated from the source = the model. -/
namespace VaxisModel.Props.C17Body
open VaxisModel.Model.EdLang VaxisModel.Model.EdRun VaxisModel.Gen.EditorLang VaxisModel.Lemmas.EdLangTF
open VaxisModel.Lemmas.EdLangTFBody VaxisModel.Model.EdGen
open VaxisModel.Model

variable {A : Type} [DecidableEq A]

/-- `DeleteCursorToEndOfLine` -/
theorem tf_killToEnd_body_eq_model (cl : List A → List (List A)) (hs : ClSane cl) (tf : TextFieldCl.TF A) :
    tfApi genTf cl "DeleteCursorToEndOfLine" [] tf =
      some ((TextFieldCl.killToEnd cl tf).1, .cmd (TextFieldCl.killToEnd cl tf).2) :=
  tfApi_of_call cl _ _ _ _ _ (by simpa [tfCall2, tfCall1] using killToEnd_body_eq_model cl hs tf)

end VaxisModel.Props.C17Body
