import VaxisModel.Lemmas.EdLangTFReset

/-! C17 — `TextField.Reset` translated from the source = the model. -/
namespace VaxisModel.Props.C17Body
open VaxisModel.Model.EdLang VaxisModel.Model.EdRun VaxisModel.Gen.EditorLang VaxisModel.Lemmas.EdLangTF
open VaxisModel.Lemmas.EdLangTFBody VaxisModel.Model.EdGen
open VaxisModel.Model

variable {A : Type} [DecidableEq A]

/-- `Reset` clears value, cursor and the cached count `n`. -/
theorem tf_reset_body_eq_model (cl : List A → List (List A)) (tf : TextFieldCl.TF A) :
    tfApi genTf cl "Reset" [] tf = some (TextFieldCl.reset tf, .opaque) :=
  tfApi_of_call cl _ _ _ _ _ (by simpa [tfCall2, tfCall1] using reset_body_eq_model cl tf)

end VaxisModel.Props.C17Body
