import VaxisModel.Lemmas.EdLangTIBody
import VaxisModel.Props.C17

/-! C17 — textinput's `SetContent`, `resegment`, `Update` translated from the source = the model; end-to-end refinement. -/
namespace VaxisModel.Props.C17Body
open VaxisModel.Model.EdLang VaxisModel.Model.EdRun VaxisModel.Gen.EditorLang VaxisModel.Lemmas.EdLangTF
open VaxisModel.Model.EdGen
open VaxisModel.Model

variable {A : Type} [DecidableEq A]

/-! ### textinput.Model -/

open VaxisModel.Lemmas.EdLangTIBody in
/-- `isAlphaNumeric` as translated from the source: a character is a word constituent iff it is ONE code point and that
    code point is a letter or a number (`unicode.IsLetter` / `IsNumber` as parameters) — every grapheme of several code
    points (decomposed é, flags, ZWJ emoji, Hangul L+V) is a separator. -/
theorem ti_isAlphaNumeric_body_eq_model (isLetter isNumber : A → Bool) (c : List A) (hc : c ≠ []) :
    tiIsAlnumI genTi isLetter isNumber c = some (match c with | [a] => isLetter a || isNumber a | _ => false) :=
  isAlphaNumeric_body_eq_model isLetter isNumber c hc

open VaxisModel.Lemmas.EdLangTIBody in
/-- `SetContent` -/
theorem ti_setContent_body_eq_model (cl : List A → List (List A)) (al : List A → Bool) (m : TextInputCl.TIC A) (s : List A) :
    tiRunSetContent genTi cl al m s = some (TextInputCl.setContent cl m s) :=
  setContent_body_eq_model cl al m s

open VaxisModel.Lemmas.EdLangTIBody in
/-- `resegment`: re-segments the text, cursor behind the text it was behind; panics exactly when the model says so. -/
theorem ti_resegment_body_eq_model (cl : List A → List (List A)) (al : List A → Bool) (m : TextInputCl.TIC A) :
    callMethod (tiCx0 cl al) tiKeys tiResegment [] (envOfTI m) =
      (TextInputCl.resegment cl m).map fun m' => (envOfTI m', .opaque) :=
  resegment_body_eq_model cl al m

open VaxisModel.Lemmas.EdLangTIBody in
/-- `Update`, for EVERY event and every state: the type switch, the paste bracket (PasteEnd inserts
    `Characters(string(m.paste))`, paste keys append to the buffer), the release test, the whole key map
    (`switch msg.String()`: the nineteen labels, the word-motion and kill-word loops with their index
    expressions, the slice expressions of the deleting arms, the default arm's modifier guards and its loop of
    `slices.Insert`), the final clamping and `m.resegment()` — translated from the source and run by the
    interpreter — is the model's `update`: result for result, panic for panic.  (`cl [] = []`: the empty
    string has no character — law 2 of `Segmentation` at `i = 0`.) -/
theorem ti_update_body_eq_model (cl : List A → List (List A)) (hnil : cl [] = []) (al : List A → Bool) (m : TextInputCl.TIC A)
    (ev : TextInputCl.Ev A) :
    tiRunUpdate genTi cl al m ev = TextInputCl.update cl al m ev :=
  update_body_eq_model cl hnil al m ev

open VaxisModel.Lemmas.EdLangTIBody VaxisModel.Lemmas.TextInputCl in
open VaxisModel.Spec.Editor (runC) in
/-- End to end for textinput, for EVERY segmentation meeting the three laws and every history of `Update`
    events (keys, paste brackets, releases), `SetContent` and `Draw` calls from any starting content: the
    widget with `Update` / `SetContent` as translated from the source and interpreted (its `Draw` as modelled) never
    panics or hangs, holds the ideal editor's text with the cursor at the ideal index within the text, and its
    content stays the segmentation of its text. -/
theorem textinput_source_refines (cl : List A → List (List A)) (hs : VaxisModel.Spec.Editor.Segmentation cl)
    (isAlnum : List A → Bool) (width : List A → Int) (start : List A) (ops : List (TIOpC A)) :
    ∃ m0 mf sops, tiStepI isAlnum cl width TextInputCl.new (.set start) = some m0 ∧
      tiRunI isAlnum cl width m0 ops = some (mf, sops) ∧
      tiAbsC mf = runC cl isAlnum ⟨cl start, (cl start).length⟩ sops ∧
      0 ≤ mf.cursor ∧ mf.cursor ≤ mf.content.length ∧ mf.content = cl mf.content.flatten := by
  have hnil := VaxisModel.Lemmas.EditorCl.cl_nil hs
  obtain ⟨mf, sops, hr, h⟩ := VaxisModel.Props.C17.textinput_refines_clustered cl hs isAlnum width start ops
  refine ⟨TextInputCl.setContent cl TextInputCl.new start, mf, sops, ?_, ?_, h⟩
  · rw [tiStepI_eq isAlnum cl hnil]; rfl
  · rw [tiRunI_eq isAlnum cl hnil]; exact hr

/-- Non-vacuity / a computed instance: Ctrl+w behind "ab cd" through the translated body. -/
example : tiRunUpdate genTi (VaxisModel.Lemmas.EditorCl.singletons (A := Nat)) (fun c => c != [0])
    ⟨[[1], [2], [0], [3], [4]], 5, 0, []⟩ (.key "Ctrl+w" false false false []) = some ⟨[[1], [2], [0]], 3, 0, []⟩ := by
  decide

end VaxisModel.Props.C17Body
