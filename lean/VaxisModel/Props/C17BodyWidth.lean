import VaxisModel.Lemmas.EdLangTIWidth

/-! C17 — textinput's `widthToCursor` (the width test of `Draw`'s scroll logic and of the "line fits" reset, F117) translated
    from the source = the model's `widthToCursor`. -/
namespace VaxisModel.Props.C17Body
open VaxisModel.Model.EdLang VaxisModel.Model.EdRun VaxisModel.Gen.EditorLang VaxisModel.Model.EdGen
open VaxisModel.Lemmas.EdLangTIWidth VaxisModel.Model

variable {A : Type} [DecidableEq A]

/-- `for i, ch := range chars { if i < offset { continue }; w += ch.Width; if i == cursor { break } }; return w` as translated and
    interpreted is the model's function, for every content, cursor, offset and width function. -/
theorem ti_widthToCursor_body_eq_model (width : List A → Int) (chars : List (List A)) (cursor offset : Int) :
    tiWidthToCursorI genTi width chars cursor offset = some (TextInput.widthToCursor width cursor offset chars 0 0) :=
  widthToCursor_body_eq_model width chars cursor offset

/-- `String()` — what the harness reads the text with — as translated: the concatenation of the content's graphemes. -/
theorem ti_string_body_eq_model (m : TextInputCl.TIC A) : tiStringI genTi m = some m.content.flatten :=
  string_body_eq_model m

/-- `CursorPosition()` as translated: the cursor field. -/
theorem ti_cursorPosition_body_eq_model (m : TextInputCl.TIC A) : tiCursorPositionI genTi m = some m.cursor :=
  cursorPosition_body_eq_model m

end VaxisModel.Props.C17Body
