/-
C17, round 3.  (1) The two models of widgets/textinput are one: `Model.TextInputCl` with the segmentation that
never merges is `Model.TextInput`.  (2) The scrolled case of `textinput.Draw` for every window width: which window
of the text is visible, the truncators at both ends, and the cursor column in closed form — and exactly when the
drawn cursor is at its grapheme.  Property theorems only.
-/
import VaxisModel.Lemmas.TextInputOne
import VaxisModel.Lemmas.TextInputScroll

namespace VaxisModel.Props.C17Ext
open VaxisModel.Model.TextInput VaxisModel.Spec.EditorView
open VaxisModel.Lemmas.TextInput (TIInv)
open VaxisModel.Lemmas.TextInputOne VaxisModel.Lemmas.TextInputScroll VaxisModel.Lemmas.EditorCl

/-! ## One model -/

/-- **`TextInputCl.update` on merge-free content = `TextInput.update`.**  For every event, every state with the
cursor in the content whose characters are single atoms: the model over merging graphemes (with `m.resegment()`),
run with the segmentation that never merges, returns exactly what the merge-free model returns on the same
characters (`gOf`: the paste buffer as the characters it will become; `cOf` back) — also panic for panic. -/
theorem textinput_models_agree {A : Type} (isAlnum : List A → Bool) (m : VaxisModel.Model.TextInputCl.TIC A)
    (h : TIInv (VaxisModel.Model.TextInputCl.toG m)) (hs : AllSingle m.content)
    (ev : VaxisModel.Model.TextInputCl.Ev A) :
    VaxisModel.Model.TextInputCl.update singletons isAlnum m ev =
      (VaxisModel.Model.TextInput.update isAlnum (gOf m) (evOf ev)).map cOf :=
  update_singletons isAlnum m h hs ev

/-- …and the hypotheses are kept by every event, so the step theorem applies along every history. -/
theorem textinput_models_agree_inv {A : Type} (isAlnum : List A → Bool) (m m' : VaxisModel.Model.TextInputCl.TIC A)
    (h : TIInv (VaxisModel.Model.TextInputCl.toG m)) (hs : AllSingle m.content)
    (ev : VaxisModel.Model.TextInputCl.Ev A)
    (hu : VaxisModel.Model.TextInputCl.update singletons isAlnum m ev = some m') :
    TIInv (VaxisModel.Model.TextInputCl.toG m') ∧ AllSingle m'.content := by
  have hinv : VaxisModel.Lemmas.TextInputCl.TIInvC singletons m :=
    ⟨h, (singletons_flatten_of_allSingle m.content hs).symm⟩
  obtain ⟨m'', hu', hi, _⟩ := VaxisModel.Lemmas.TextInputCl.update_refinesC isAlnum singletons_seg m ev hinv
  rw [hu] at hu'
  cases hu'
  refine ⟨hi.1, ?_⟩
  rw [hi.2]
  exact allSingle_singletons _

/-- **All histories**: from any state with the cursor in the content and single-atom characters, the two models run
on the same event sequence end in the same state (or both panic at the same event). -/
theorem textinput_models_agree_run {A : Type} (isAlnum : List A → Bool) (m : VaxisModel.Model.TextInputCl.TIC A)
    (h : TIInv (VaxisModel.Model.TextInputCl.toG m)) (hs : AllSingle m.content)
    (evs : List (VaxisModel.Model.TextInputCl.Ev A)) :
    runCl isAlnum m evs = (runG isAlnum (gOf m) (evs.map evOf)).map cOf :=
  runs_agree isAlnum evs m h hs

/-- `SetContent` agrees too (no hypothesis): the programmatic API of the two models is one. -/
theorem textinput_models_agree_setcontent {A : Type} (m : VaxisModel.Model.TextInputCl.TIC A) (s : List A) :
    VaxisModel.Model.TextInputCl.setContent singletons m s =
      cOf (VaxisModel.Model.TextInput.setContent (gOf m) (singletons s)) := by
  simp [VaxisModel.Model.TextInputCl.setContent, VaxisModel.Model.TextInput.setContent, cOf, gOf, singletons_flatten]

/-- Non-vacuity: "ab|" + typed "c" in both models. -/
example : VaxisModel.Model.TextInputCl.update singletons (fun _ => true) ⟨[[0], [1]], 2, 0, []⟩ (.key "c" false false false [2]) =
    some ⟨[[0], [1], [2]], 3, 0, []⟩ := by decide

/-! ## The scrolled case of `Draw`, all window widths -/

/-- **Which window of the text is visible.**  Whatever the window width, the scroll state before the call and the
prompt: when `Draw` gets as far as the text, its `SetCell` calls are the prompt's cells followed by the layout
(`Spec.EditorView.windowCells`) of the graphemes from the offset it settled on: each at the prompt's end plus the
display width of the visible graphemes before it; the first one replaced by the truncator iff the offset is positive
(text is scrolled out on the left); the one that reaches or passes the right edge replaced by the truncator and
nothing after it; the mask glyph instead of every grapheme shown in password mode. -/
theorem textinput_cells_scrolled {G : Type} (width : G → Int) (masked : Bool) (m : TI G) (prompt : List G) (winW : Int)
    (h : TIInv m) (m' : TI G) (c : Int) (hd : draw width m prompt winW = .shown m' c) :
    ∃ col, promptLoop width winW prompt 0 = some col ∧
      drawCells width masked m prompt winW =
        some (promptCells width winW prompt 0 ++
          windowCells width masked winW (decide (m'.offset > 0)) (m.content.drop m'.offset.toNat) col) := by
  obtain ⟨col, hp, _, _, _⟩ := draw_shape width m prompt winW m' c hd
  obtain ⟨ho, _⟩ := VaxisModel.Lemmas.TextInput.draw_offset_le_cursor width m prompt winW h m' c hd
  refine ⟨col, hp, ?_⟩
  unfold drawCells
  rw [hd]
  simp only [hp]
  rw [cellLoop_window width masked m'.offset winW m.content 0 col ho]
  simp

/-- **The drawn cursor column, all widths.**  With `k` = the number of graphemes between the offset `Draw` settled
on and the cursor (`0 ≤ offset ≤ cursor` always: `textinput_draw_offset_bounds`) and `vis` the graphemes from the
offset on: the cursor column is the prompt's end when `k = 0`; the prompt's end plus the display width of those `k`
graphemes when the `k-1` before the last of them end left of the right edge; and otherwise — the cell loop stopped
before it reached the grapheme before the cursor — it is left at the prompt's end. -/
theorem textinput_cursor_scrolled {G : Type} (width : G → Int) (hw : ∀ g, 0 ≤ width g) (m : TI G) (prompt : List G)
    (winW : Int) (h : TIInv m) (m' : TI G) (c : Int) (hd : draw width m prompt winW = .shown m' c) :
    ∃ col, promptLoop width winW prompt 0 = some col ∧
      let vis := m.content.drop m'.offset.toNat
      let k := (m.cursor - m'.offset).toNat
      c = if k = 0 then col
          else if k = 1 ∨ col + textWidth width (vis.take (k - 1)) < winW then cursorAtGrapheme width col vis k
          else col := by
  obtain ⟨col, hp, _, _, hc⟩ := draw_shape width m prompt winW m' c hd
  obtain ⟨ho, hoc⟩ := VaxisModel.Lemmas.TextInput.draw_offset_le_cursor width m prompt winW h m' c hd
  refine ⟨col, hp, ?_⟩
  intro vis k
  obtain ⟨h0, h1, _⟩ := h
  -- run the loop up to the offset (nothing happens), then from the offset on
  have hskip : ∀ (l : List G) (i : Int), i ≤ m'.offset →
      cursorLoop width m.cursor m'.offset winW l i col col =
        cursorLoop width m.cursor m'.offset winW (l.drop (m'.offset - i).toNat) m'.offset col col := by
    intro l
    induction l with
    | nil => intro i _; simp [cursorLoop]
    | cons g gs ih =>
      intro i hi
      by_cases hlt : i < m'.offset
      · have hk : (m'.offset - i).toNat = (m'.offset - (i + 1)).toNat + 1 := by omega
        rw [hk, List.drop_succ_cons, ← ih (i + 1) (by omega)]
        conv => lhs; unfold cursorLoop
        simp only [hlt, if_true]
      · have he : i = m'.offset := by omega
        have hk : (m'.offset - i).toNat = 0 := by omega
        rw [hk, List.drop_zero, he]
  rw [hc, hskip m.content 0 ho]
  have hk : m.cursor = m'.offset + (k : Int) := by
    show m.cursor = m'.offset + (((m.cursor - m'.offset).toNat : Nat) : Int)
    omega
  have hlen : k ≤ vis.length := by
    show (m.cursor - m'.offset).toNat ≤ (m.content.drop m'.offset.toNat).length
    rw [List.length_drop]
    omega
  have e : (m'.offset - 0).toNat = m'.offset.toNat := by simp
  rw [e, hk]
  exact cursorLoop_from width hw m'.offset winW vis m'.offset col col k (Int.le_refl _) hlen

/-- The statement "the cursor is always drawn at its grapheme" (prompt's end + display width of the visible
graphemes before the cursor).  False for narrow windows: `Witness/F517.lean`. -/
def textinput_cursor_at_grapheme_full : Prop :=
  ∀ {G : Type} (width : G → Int) (_ : ∀ g, 0 ≤ width g) (m : TI G) (prompt : List G) (winW : Int) (_ : TIInv m)
    (m' : TI G) (c col : Int), draw width m prompt winW = .shown m' c → promptLoop width winW prompt 0 = some col →
    c = cursorAtGrapheme width col (m.content.drop m'.offset.toNat) (m.cursor - m'.offset).toNat

/-- What holds: the cursor is drawn at its grapheme **iff** the visible graphemes before the one in front of the
cursor end left of the right edge (or there is at most one) — in particular whenever `Draw`'s final "scroll toward
the beginning" (`offset = cursor - 4`) did not pull more text into view than the window holds.  Otherwise the
cursor is shown at the prompt's end although `k ≥ 2` graphemes lie between it and the cursor. -/
theorem textinput_cursor_at_grapheme_partial {G : Type} (width : G → Int) (hw : ∀ g, 0 ≤ width g) (m : TI G)
    (prompt : List G) (winW : Int) (h : TIInv m) (m' : TI G) (c col : Int)
    (hd : draw width m prompt winW = .shown m' c) (hp : promptLoop width winW prompt 0 = some col) :
    let vis := m.content.drop m'.offset.toNat
    let k := (m.cursor - m'.offset).toNat
    (k ≤ 1 ∨ col + textWidth width (vis.take (k - 1)) < winW → c = cursorAtGrapheme width col vis k) ∧
    (¬ (k ≤ 1 ∨ col + textWidth width (vis.take (k - 1)) < winW) → c = col) := by
  obtain ⟨col', hp', hc⟩ := textinput_cursor_scrolled width hw m prompt winW h m' c hd
  rw [hp] at hp'
  cases hp'
  intro vis k
  have hc' : c = if k = 0 then col
      else if k = 1 ∨ col + textWidth width (vis.take (k - 1)) < winW then cursorAtGrapheme width col vis k
      else col := hc
  constructor
  · intro hk
    rw [hc']
    by_cases h0 : k = 0
    · simp [h0, cursorAtGrapheme, textWidth]
    · have : k = 1 ∨ col + textWidth width (vis.take (k - 1)) < winW := by
        rcases hk with hk | hk
        · left; omega
        · right; exact hk
      simp [h0, this]
  · intro hk
    rw [hc']
    have h0 : ¬ k = 0 := by omega
    have : ¬ (k = 1 ∨ col + textWidth width (vis.take (k - 1)) < winW) := by
      intro hh
      apply hk
      rcases hh with hh | hh
      · left; omega
      · right; exact hh
    simp [h0, this]

/-- **With room for the scroll margin the cursor is always drawn at its grapheme.**  If graphemes are at most two
columns wide (as terminal graphemes are) and the window has more than six columns after the prompt, then for every
text, cursor and scroll state the drawn cursor column is the prompt's end plus the display width of the visible
graphemes before the cursor.  (Six = the three graphemes before the one in front of the cursor that "scroll toward
the beginning" can pull into view, two columns each; `Witness.F517`: at six columns it fails.) -/
theorem textinput_cursor_at_grapheme_wide {G : Type} (width : G → Int) (hw : ∀ g, 0 ≤ width g) (hw2 : ∀ g, width g ≤ 2)
    (m : TI G) (prompt : List G) (winW : Int) (h : TIInv m) (m' : TI G) (c col : Int)
    (hd : draw width m prompt winW = .shown m' c) (hp : promptLoop width winW prompt 0 = some col)
    (hroom : col + 6 < winW) :
    c = cursorAtGrapheme width col (m.content.drop m'.offset.toNat) (m.cursor - m'.offset).toNat := by
  refine (textinput_cursor_at_grapheme_partial width hw m prompt winW h m' c col hd hp).1 ?_
  obtain ⟨col', off, off0, hp', hoff0, hs, hm'⟩ := draw_shape_offset width m prompt winW m' c hd
  rw [hp] at hp'
  cases hp'
  obtain ⟨h0, h1, ho⟩ := h
  have hle := VaxisModel.Lemmas.TextInput.scrollLoop_le width m.content m.cursor col winW _ _ off hs
  have hoff0' : 0 ≤ off0 := by rcases hoff0 with e | e <;> omega
  have hpost := scrollLoop_post width m.content m.cursor col winW _ _ off hs
  by_cases hfire : m.cursor - 4 - off < 0
  · -- scrolled back: at most four graphemes between the offset and the cursor
    have hk : (m.cursor - m'.offset).toNat ≤ 4 := by
      rw [hm']; simp only [hfire, if_true]; split <;> omega
    have hb := textWidth_take_le width hw2 (m.content.drop m'.offset.toNat) ((m.cursor - m'.offset).toNat - 1)
    right
    omega
  · -- not scrolled back: the forward loop left the text up to the cursor inside the window
    have hmo : m'.offset = off := by
      rw [hm']; simp only [hfire, if_false]; split <;> omega
    have hlt : off < m.cursor := by omega
    have hfit : widthToCursor width m.cursor off m.content 0 0 + col + 4 < winW := by
      apply Int.lt_of_not_ge
      intro hge
      exact hpost ⟨hlt, hge⟩
    have hskip := widthToCursor_skip width m.cursor off m.content 0 0 (by omega)
    have hge := widthToCursor_ge_past width hw m.cursor off (m.content.drop (off - 0).toNat) off 0 (Int.le_refl _)
    have e : (off - 0).toNat = off.toNat := by simp
    rw [e] at hskip hge
    rw [← hskip] at hge
    have hmono := textWidth_take_mono width hw (m.content.drop off.toNat) ((m.cursor - off).toNat - 1)
    have hk1 : (m.cursor - off).toNat - 1 + 1 = (m.cursor - off).toNat := by omega
    rw [hk1] at hmono
    right
    rw [hmo]
    omega

/-- Non-vacuity (and a caveat): four wide graphemes, cursor at the end, seven columns, no prompt — the hypotheses
hold and the cursor column is 8, its grapheme's column, which lies beyond the 7-column window (the graphemes at the
right edge were replaced by the truncator). -/
example : (match draw (fun _ : Nat => 2) ⟨[1, 2, 3, 4], 4, 0, []⟩ [] 7 with
     | .shown m' c => decide (m'.offset = 0 ∧ c = 8)
     | _ => false) = true := by decide

end VaxisModel.Props.C17Ext
