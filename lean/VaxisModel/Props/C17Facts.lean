import VaxisModel.Lemmas.TextInput
import VaxisModel.Gen.EditorKeys

/-! C17 — tie to the source through `Gen/EditorKeys.lean` (regenerated every run): the key map of textinput.Update, its
    default-arm guards, the scroll loop condition of textinput.Draw, the `if` chain of TextField.HandleEvent.
    (Moved out of `Props/C17.lean` in round 4, names unchanged.) -/
namespace VaxisModel.Props.C17
open VaxisModel VaxisModel.Lemmas.TextInput

/-- The case labels of `switch msg.String()` in textinput.Update, in source order, are the labels
the model dispatches on. -/
theorem update_bindings_extracted :
    Gen.EditorKeys.updateCases = bindingTable.map (·.1) := by decide

theorem update_default_guards_extracted :
    Gen.EditorKeys.updateDefaultGuards =
      ["msg.Modifiers&vaxis.ModCtrl != 0", "msg.Modifiers&vaxis.ModAlt != 0", "msg.Modifiers&vaxis.ModSuper != 0"] := by decide

/-- The scroll loop of textinput.Draw has the guard modelled in `TextInput.scrollLoop` (F47 fix) and
scrolloff is 4. -/
theorem draw_loop_extracted :
    Gen.EditorKeys.drawLoopConds =
      ["m.offset < m.cursor && widthToCursor(chars, m.cursor, m.offset)+col+scrolloff >= winW"] ∧
    Gen.EditorKeys.textinputScrolloff = 4 := by decide

/-- The `if` chain of TextField.HandleEvent (conditions in source order and the editing function
each calls first) is the one `TextField.handleKey` transcribes. -/
theorem handle_event_bindings_extracted :
    Gen.EditorKeys.handleEventBindings = handleEventTable := by decide

end VaxisModel.Props.C17
