import VaxisModel.Gen.EditorBodies
import VaxisModel.Lemmas.EditorBodies

/-! C17 — the round-2 statement-text pins of the TextField functions (`Gen/EditorBodies.lean`, regenerated every run).
    Since round 4 the editing functions are also translated and interpreted (`Props/C17Body*.lean`); this pin remains the
    only Gen tie of `TextField.Draw`. (Moved out of `Props/C17.lean`, name unchanged.) -/
namespace VaxisModel.Props.C17
open VaxisModel

/-- The state updates of every TextField function (writes to `tf.Value`, `tf.cursor`, `tf.n`, receiver calls, returns) and its loops in full, extracted from textfield.go on every run, are the ones the models transcribe (`Lemmas.EditorBodies`): e.g. the recount `tf.n = graphemeCountInString(tf.Value)` after each deletion (F46) and `tf.cursor = graphemeCountInString(next.String())` between the two writes of the insert (F217). -/
theorem facts_textfield_bodies :
    Gen.EditorBodies.tfHandleEvent = Lemmas.EditorBodies.tfHandleEvent ∧
    Gen.EditorBodies.tfCheckChanged = Lemmas.EditorBodies.tfCheckChanged ∧
    Gen.EditorBodies.tfReset = Lemmas.EditorBodies.tfReset ∧
    Gen.EditorBodies.tfInsertStringAtCursor = Lemmas.EditorBodies.tfInsertStringAtCursor ∧
    Gen.EditorBodies.tfCursorTo = Lemmas.EditorBodies.tfCursorTo ∧
    Gen.EditorBodies.tfDeleteCharRightOfCursor = Lemmas.EditorBodies.tfDeleteCharRightOfCursor ∧
    Gen.EditorBodies.tfDeleteCharLeftOfCursor = Lemmas.EditorBodies.tfDeleteCharLeftOfCursor ∧
    Gen.EditorBodies.tfDeleteCursorToEndOfLine = Lemmas.EditorBodies.tfDeleteCursorToEndOfLine ∧
    Gen.EditorBodies.tfDraw = Lemmas.EditorBodies.tfDraw ∧
    Gen.EditorBodies.tfInsertLoop = Lemmas.EditorBodies.tfInsertLoop ∧
    Gen.EditorBodies.tfGraphemeCount = Lemmas.EditorBodies.tfGraphemeCount := by
  decide +kernel

end VaxisModel.Props.C17
