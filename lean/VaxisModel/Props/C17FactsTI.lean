import VaxisModel.Gen.EditorBodies
import VaxisModel.Lemmas.EditorBodies

/-! C17 — the round-2 statement-text pins of the textinput functions (`Gen/EditorBodies.lean`, regenerated every run); the only
    Gen tie of `textinput.Draw`, `isAlphaNumeric`, `widthToCursor`. (Moved out of `Props/C17.lean`, name unchanged.) -/
namespace VaxisModel.Props.C17
open VaxisModel

/-- The same for textinput: `SetContent`, every arm of `Update` with its loops, the final clamping followed by `m.resegment()` (F317), `resegment`, `Draw` with its prompt loop, scroll loop (F47, F117) and cell loop, `isAlphaNumeric`, `widthToCursor`. -/
theorem facts_textinput_bodies :
    Gen.EditorBodies.tiSetContent = Lemmas.EditorBodies.tiSetContent ∧
    Gen.EditorBodies.tiUpdate = Lemmas.EditorBodies.tiUpdate ∧
    Gen.EditorBodies.tiResegment = Lemmas.EditorBodies.tiResegment ∧
    Gen.EditorBodies.tiDraw = Lemmas.EditorBodies.tiDraw ∧
    Gen.EditorBodies.tiIsAlphaNumeric = Lemmas.EditorBodies.tiIsAlphaNumeric ∧
    Gen.EditorBodies.tiWidthToCursor = Lemmas.EditorBodies.tiWidthToCursor := by
  decide +kernel

end VaxisModel.Props.C17
