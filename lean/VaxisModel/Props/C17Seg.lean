import VaxisModel.Lemmas.Uax29Seg
import VaxisModel.Props.C17Body
import VaxisModel.Props.C17BodyTI

/-!
C17 — which segmentations meet the three laws.

Round 2 proved the refinement theorems for every `Segmentation cl` and gave two toy instances.  Here:
every *streaming* segmentation — one that reads the text code point by code point and decides from what
it has read and the next code point whether that code point joins the current cluster (the shape of
UAX #29's rules and of uniseg's state machine: `SnocSeg`) — is a `Segmentation`; the driver's UAX #29
oracle `clUax` (GB4, GB6–8, GB9, GB11, GB12/13; compared with the real uniseg on every op) is one, for
every assignment of classes to code points.  So the refinement theorems hold for it outright.
-/
namespace VaxisModel.Props.C17Seg
open VaxisModel.Spec.Editor (Segmentation runC)
open VaxisModel.Lemmas.SnocSeg VaxisModel.Lemmas.Uax29Seg VaxisModel.Spec.Uax29

/-- Appending one atom starts a new cluster or extends the last one ⇒ the three laws. -/
theorem streaming_is_segmentation {A : Type} (f : List A → List (List A)) (h : SnocSeg f) : Segmentation f :=
  segmentation_of_snocSeg f h

/-- The driver's UAX #29 oracle is a `Segmentation`, whatever the classes of the code points. -/
theorem uax29_oracle_is_segmentation (cls : Nat → Char) : Segmentation (clUax cls) :=
  segmentation_of_snocSeg _ (clUax_snocSeg cls)

open VaxisModel.Lemmas.EditorCl (TFOpC absC specOfC) in
open VaxisModel.Lemmas.EdLangTFBody in
/-- No hypothesis left: under the UAX #29 oracle, for every class assignment, every history and starting content,
    the TextField as translated from the source holds the ideal editor's text and cursor. -/
theorem textfield_source_refines_uax29 (cls : Nat → Char) (isWord : List Nat → Bool) (start : List Nat) (ops : List (TFOpC Nat)) :
    ∃ tf0 tf, tfStepI (clUax cls) VaxisModel.Model.TextFieldCl.new (.ins start) = some tf0 ∧ tfRunI (clUax cls) tf0 ops = some tf ∧
      absC (clUax cls) tf = runC (clUax cls) isWord ⟨clUax cls start, (clUax cls start).length⟩ (ops.map (specOfC (clUax cls))) ∧
      tf.cursor ≤ (clUax cls tf.value).length ∧ tf.n = (clUax cls tf.value).length :=
  VaxisModel.Props.C17Body.textfield_source_refines (clUax cls) (uax29_oracle_is_segmentation cls) isWord start ops

open VaxisModel.Lemmas.EdLangTIBody VaxisModel.Lemmas.TextInputCl in
/-- The same for textinput. -/
theorem textinput_source_refines_uax29 (cls : Nat → Char) (isAlnum : List Nat → Bool) (width : List Nat → Int) (start : List Nat)
    (ops : List (TIOpC Nat)) :
    ∃ m0 mf sops, tiStepI isAlnum (clUax cls) width VaxisModel.Model.TextInputCl.new (.set start) = some m0 ∧
      tiRunI isAlnum (clUax cls) width m0 ops = some (mf, sops) ∧
      tiAbsC mf = runC (clUax cls) isAlnum ⟨clUax cls start, (clUax cls start).length⟩ sops ∧
      0 ≤ mf.cursor ∧ mf.cursor ≤ mf.content.length ∧ mf.content = clUax cls mf.content.flatten :=
  VaxisModel.Props.C17Body.textinput_source_refines (clUax cls) (uax29_oracle_is_segmentation cls) isAlnum width start ops

/-- The oracle at work (classes: 0 Other, 1 Extend, 2 Regional_Indicator, 3 ZWJ, 4 Extended_Pictographic): a base with a
    combining mark, a flag followed by a lone indicator, an emoji ZWJ sequence. -/
example :
    let cls : Nat → Char := fun a => if a = 1 then 'E' else if a = 2 then 'R' else if a = 3 then 'Z' else if a = 4 then 'P' else 'O'
    clUax cls [0, 1, 0] = [[0, 1], [0]] ∧ clUax cls [2, 2, 2] = [[2, 2], [2]] ∧ clUax cls [4, 3, 4, 0] = [[4, 3, 4], [0]] := by
  decide

end VaxisModel.Props.C17Seg
