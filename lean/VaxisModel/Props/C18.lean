/-
C18 — Styled-text codecs round-trip and all SGR producers and consumers agree.
Property theorems only (helper lemmas live in Lemmas/Sgr.lean).

Vocabulary: `Spec.sgr` (Spec/Sgr.lean) is the meaning of one `CSI … m` on a terminal pen `TStyle`;
`shown : Style → TStyle` is what a terminal displays for a vaxis style; `apply t l` interprets the
sequences `l` one after the other from pen `t`.
-/
import VaxisModel.Lemmas.Sgr
import VaxisModel.Lemmas.SgrAgree

namespace VaxisModel.Props.C18
open VaxisModel VaxisModel.Model.Sgr VaxisModel.Gen VaxisModel.Spec VaxisModel.Lemmas.Sgr
open VaxisModel.Model.Color (indexColor rgbColor)

/-- The seven attribute bits of style.go are the single bits 1..7 of a `uint8` (bit 0 is unused). -/
theorem attr_bits :
    [SgrCases.AttrBold, SgrCases.AttrDim, SgrCases.AttrItalic, SgrCases.AttrBlink, SgrCases.AttrReverse,
     SgrCases.AttrInvisible, SgrCases.AttrStrikethrough] = [2 ^ 1, 2 ^ 2, 2 ^ 3, 2 ^ 4, 2 ^ 5, 2 ^ 6, 2 ^ 7] := by decide

/-- **attr_delta.** For *all* attribute masks `a b` (no bound: in particular all 128 × 128 masks over the
    seven defined bits), interpreting the codes the producers write for the transition `a → b` on a pen
    whose attributes are those of `a` gives the attributes of `b` and leaves everything else alone.
    Proved per bit: each bit is set by its own code and cleared by its own reset; bold and dim share
    reset 22 and the survivor is re-asserted. -/
theorem attr_delta (a b : Nat) (t : TStyle) :
    apply (withAttrs a t) (attrDelta a b) = withAttrs b t := attrDelta_correct a b t

example : attrDelta 6 4 = [[[22]], [[2]]] := by decide          -- bold+dim → dim: 22 then dim again
example : attrDelta 2 4 = [[[2]], [[22]], [[2]]] := by decide   -- bold → dim

/-- **pen_delta_correct (EncodeCells).** For every pair of styles (next underline style one of the six),
    with or without the legacy-SGR quirk: the sequences written between two cells turn a terminal
    showing `p` into one showing `n`. -/
theorem pen_delta_correct_encodeCells (legacy : Bool) (p n : Style) (hn : n.ulStyle ≤ 5) :
    apply (shown p) (encodeDelta legacy p n) = shown n := encodeDelta_correct legacy p n hn

/-- **pen_delta_correct (StyledString.Encode).** -/
theorem pen_delta_correct_ssEncode (legacy : Bool) (p n : Style) (hn : n.ulStyle ≤ 5) :
    apply (shown p) (ssDelta legacy p n) = shown n := ssDelta_correct legacy p n hn

/-- **pen_delta_correct (render).** For every capability setting: without `rgb` the terminal shows the
    palette fallback of direct colours, without `styledUnderlines` no underline colour and a single
    underline for every underline style (`shownCaps`). -/
theorem pen_delta_correct_render (rgb su legacy : Bool) (p n : Style) (hn : n.ulStyle ≤ 5) :
    apply (shownCaps rgb su p) (renderDelta rgb su legacy p n) = shownCaps rgb su n :=
  renderDelta_correct rgb su legacy p n hn

/-- The bounds checks the two `[][]int` consumers are written with (extracted: `Gen.SgrCases.parseSGRExt` / `emuSgrExt`, which
    `Model.Sgr.extColour` reads) are enough: the legacy form is read only when ≥ 3 parameters remain, its RGB variant only when ≥ 5
    remain.  (Round 4: `sgr_total` now rests on the extracted numbers — with `len(params[i:]) < 4` in the source the model would
    panic on `38;2;1;2` and this would not be provable.) -/
theorem cfgs_nums_ok : NumsOk parseCfg ∧ NumsOk emuCfg :=
  ⟨numsOk_of_B _ (by decide), numsOk_of_B _ (by decide)⟩

/-- **sgr_total.** No SGR consumer panics on any list of non-empty parameter lists (what the ansi
    parser and `strings.Split` produce), including truncated 38/48/58 forms. -/
theorem sgr_total (s : Style) (ps : Seq) (h : ∀ p ∈ ps, p ≠ []) :
    (∃ s', parseSGR s ps = .ok s') ∧ (∃ s', emuSgr s ps = .ok s') := 
  ⟨intSgr_ok parseCfg cfgs_nums_ok.1 s ps h, intSgr_ok emuCfg cfgs_nums_ok.2 s ps h⟩

/-- **sgr_total (NewStyledString).** On every list of non-empty lists of arbitrary sub-parameter texts. -/
theorem sgr_total_ss (dflt s : Style) (ps : List (List SubTok)) (h : ∀ p ∈ ps, p ≠ []) :
    ∃ s', ssSeqTok dflt s ps = .ok s' := by
  unfold ssSeqTok
  split
  · exact ⟨_, rfl⟩
  · exact ssLoop_ok ssCfg dflt ps h s

-- truncated forms return without panic and leave the style alone
example : (match parseSGR {} [[38]] with | .ok s => s == {} | _ => false) = true := by decide
example : (match parseSGR {} [[38], [5]] with | .ok s => s == {} | _ => false) = true := by decide
example : (match emuSgr {} [[48], [2], [1], [2]] with | .ok s => s == {} | _ => false) = true := by decide
example : (match parseSGR {} [[58, 2, 1]] with | .ok s => s == {} | _ => false) = true := by decide
-- the hypothesis is needed: an empty parameter (which the parser never produces) would panic
example : (match parseSGR {} [[]] with | .error _ => true | _ => false) = true := by decide

/-! ### Producers' range, label coverage, consumers refine the spec -/

/-- **producers_range (EncodeCells).** Every sequence written for a transition into a style with one of
    the six underline styles is in the explicit, decidable set `emittableLegacy` (`emittable` without
    the quirk): solo codes, `4:n`, `38/48/58:5:n`, `38/48/58:2:r:g:b` with byte values, and the
    semicolon forms for 38/48. -/
theorem producers_range_encodeCells (legacy : Bool) (p n : Style) (hn : n.ulStyle ≤ 5) :
    ∀ x ∈ encodeDelta legacy p n, emittableLegacy x = true := encodeDelta_range legacy p n hn

/-- **label coverage** (over the regenerated `Gen.SgrCases`): every first parameter in the producers'
    range has a `case` in cell.go parseSGR, widgets/term sgr and NewStyledString, with the
    sub-parameter counts the producers use; parseSGR and the emulator also accept the legacy forms. -/
theorem label_coverage :
    covers parseCfg = true ∧ coversLegacy parseCfg = true ∧
    covers emuCfg = true ∧ coversLegacy emuCfg = true ∧
    covers ssCfg = true := by decide

theorem parseCfg_covers : Covers parseCfg := covers_iff _ (by decide)
theorem emuCfg_covers : Covers emuCfg := covers_iff _ (by decide)
theorem parseCfg_legacy : ∀ p, p = 38 ∨ p = 48 → parseCfg.accepts p 1 = true := by
  intro p hp; rcases hp with rfl | rfl <;> decide
theorem emuCfg_legacy : ∀ p, p = 38 ∨ p = 48 → emuCfg.accepts p 1 = true := by
  intro p hp; rcases hp with rfl | rfl <;> decide

/-- **consumer_refines_spec (parseSGR).** On everything a producer can write (legacy forms included)
    cell.go's parser does not panic and changes the style exactly as `Spec.sgr` changes the pen. -/
theorem consumer_refines_spec_parseSGR (s : Style) (q : Seq) (hq : emittableLegacy q = true) :
    ∃ s', parseSGR s q = .ok s' ∧ shown s' = Spec.sgr (shown s) q :=
  int_refines_legacy parseCfg parseCfg_covers parseCfg_legacy s q hq

/-- **consumer_refines_spec (embedded terminal).** -/
theorem consumer_refines_spec_emuSgr (s : Style) (q : Seq) (hq : emittableLegacy q = true) :
    ∃ s', emuSgr s q = .ok s' ∧ shown s' = Spec.sgr (shown s) q :=
  int_refines_legacy emuCfg emuCfg_covers emuCfg_legacy s q hq

/-- **producers_consumers_agree (parseSGR / embedded terminal).** Both understand every producible
    sequence identically (and as the spec does); on well-formed styles the resulting styles are equal. -/
theorem producers_consumers_agree_int (s : Style) (hs : s.wf) (q : Seq) (hq : emittableLegacy q = true) :
    ∃ s', parseSGR s q = .ok s' ∧ emuSgr s q = .ok s' ∧ shown s' = Spec.sgr (shown s) q := by
  obtain ⟨s1, h1, e1⟩ := consumer_refines_spec_parseSGR s q hq
  obtain ⟨s2, h2, e2⟩ := consumer_refines_spec_emuSgr s q hq
  have w1 := int_wf parseCfg parseCfg_covers parseCfg_legacy s hs q hq s1 h1
  have w2 := int_wf emuCfg emuCfg_covers emuCfg_legacy s hs q hq s2 h2
  have : s1 = s2 := shown_inj s1 s2 w1 w2 (e1.trans e2.symm)
  subst this
  exact ⟨s1, h1, h2, e1⟩

/-! ### Round trip -/

/-- **roundtrip_cells (EncodeCells / ParseStyledString).** For every sequence of cells with well-formed
    styles (graphemes are opaque self-delimiting tokens: A-concat), with or without the legacy quirk:
    parsing the encoded token sequence returns exactly the cells. By induction on the cell list with
    the pen as invariant. -/
theorem roundtrip_cells {γ : Type} (legacy : Bool) (cs : List (Cell γ)) (hcs : ∀ c ∈ cs, c.st.wf) :
    parseStyled (encodeCells legacy cs) = .ok cs :=
  roundtrip_generic parseSGR (encodeDelta legacy)
    (fun s n hs hn => delta_roundtrip parseCfg parseCfg_covers parseCfg_legacy legacy s n hs hn)
    (fun s => ⟨_, int_empty parseCfg s parseCfg_covers.zero⟩) cs {} wf_default hcs

/-- The same encoded string fed to the embedded terminal cell by cell gives the same cells. -/
theorem roundtrip_cells_emu {γ : Type} (legacy : Bool) (cs : List (Cell γ)) (hcs : ∀ c ∈ cs, c.st.wf) :
    parseToks emuSgr {} (encodeCells legacy cs) = .ok cs :=
  roundtrip_generic emuSgr (encodeDelta legacy)
    (fun s n hs hn => delta_roundtrip emuCfg emuCfg_covers emuCfg_legacy legacy s n hs hn)
    (fun s => ⟨_, int_empty emuCfg s emuCfg_covers.zero⟩) cs {} wf_default hcs

-- non-vacuity: a well-formed style with every field non-default, and a concrete round trip
example : Style.wf ⟨indexColor 200, rgbColor 1 2 3, indexColor 7, 3, 254⟩ :=
  ⟨Or.inr (Or.inl ⟨200, by decide, rfl⟩), Or.inr (Or.inr ⟨1, 2, 3, by decide, by decide, by decide, rfl⟩),
   Or.inr (Or.inl ⟨7, by decide, rfl⟩), by decide, by decide⟩

/-! ### StyledString.Encode / NewStyledString, the renderer, resets -/

theorem ssCfg_covers : Covers ssCfg := covers_iff _ (by decide)

/-- **producers_range (StyledString.Encode)**: colon forms only, with or without the legacy quirk. -/
theorem producers_range_ssEncode (legacy : Bool) (p n : Style) (hn : n.ulStyle ≤ 5) :
    ∀ x ∈ ssDelta legacy p n, emittable x = true := ssDelta_range legacy p n hn

/-- **producers_range (render)**, for every capability setting. -/
theorem producers_range_render (rgb su legacy : Bool) (p n : Style) (hn : n.ulStyle ≤ 5) :
    ∀ x ∈ renderDelta rgb su legacy p n, emittableLegacy x = true := renderDelta_range rgb su legacy p n hn

theorem ssCfg_legacy : ∀ p, p = 38 ∨ p = 48 → ssCfg.accepts p 1 = true := by
  intro p hp; rcases hp with rfl | rfl <;> decide

/-- **consumer_refines_spec (NewStyledString)**, default style = zero style, on the whole range: the colon
    forms (since the `fix:` for F48, case "59") and the legacy semicolon forms that `EncodeCells` / `render`
    write under `VAXIS_FORCE_LEGACY_SGR` (since the `fix:` for F118, `legacySGRColor`). -/
theorem consumer_refines_spec_ssParse (s : Style) (q : Seq) (hq : emittableLegacy q = true) :
    ∃ s', ssSeq {} s q = .ok s' ∧ shown s' = Spec.sgr (shown s) q := by
  obtain ⟨s', h, e, _⟩ := ss_refines_legacy ssCfg_covers ssCfg_legacy s q hq
  exact ⟨s', h, e⟩

/-- **producers_consumers_agree.** Every sequence any producer can write — `EncodeCells`, `StyledString.Encode`,
    `render`, colon forms and legacy semicolon forms alike — is understood identically by all three
    consumers (cell.go `parseSGR`, the embedded terminal, `NewStyledString`), and as `Spec.sgr` says; on
    well-formed styles they return the same style. Unconditional since the `fix:` for F118 (the statement
    restricted to the colon forms was all that held before: `Witness/F118.lean`). -/
theorem producers_consumers_agree (s : Style) (hs : s.wf) (q : Seq) (hq : emittableLegacy q = true) :
    ∃ s', parseSGR s q = .ok s' ∧ emuSgr s q = .ok s' ∧ ssSeq {} s q = .ok s' ∧
      shown s' = Spec.sgr (shown s) q := by
  obtain ⟨s1, h1, h2, e1⟩ := producers_consumers_agree_int s hs q hq
  obtain ⟨s3, h3, e3, w3⟩ := ss_refines_legacy ssCfg_covers ssCfg_legacy s q hq
  have w1 := int_wf parseCfg parseCfg_covers parseCfg_legacy s hs q hq s1 h1
  have : s1 = s3 := shown_inj s1 s3 w1 (w3 hs) (e1.trans e3.symm)
  subst this
  exact ⟨s1, h1, h2, h3, e1⟩

/-- The statement for the whole range, as a named proposition (it was false before the F118 repair). -/
def producers_consumers_agree_full : Prop :=
  ∀ (s : Style), s.wf → ∀ q, emittableLegacy q = true →
    ∃ s', parseSGR s q = .ok s' ∧ emuSgr s q = .ok s' ∧ ssSeq {} s q = .ok s' ∧ shown s' = Spec.sgr (shown s) q

theorem producers_consumers_agree_full_holds : producers_consumers_agree_full :=
  fun s hs q hq => producers_consumers_agree s hs q hq

/-- **All producers × all consumers × both format variants**, sequence by sequence: whatever `EncodeCells`,
    `StyledString.Encode` or `render` (any capabilities) writes for a transition `p → n`, with or without the
    legacy quirk, every consumer reads each of those sequences the same way. -/
theorem producers_consumers_agree_all (legacy rgb su : Bool) (p n : Style) (hn : n.ulStyle ≤ 5) (s : Style) (hs : s.wf)
    (q : Seq) (hq : q ∈ encodeDelta legacy p n ∨ q ∈ ssDelta legacy p n ∨ q ∈ renderDelta rgb su legacy p n) :
    ∃ s', parseSGR s q = .ok s' ∧ emuSgr s q = .ok s' ∧ ssSeq {} s q = .ok s' ∧
      shown s' = Spec.sgr (shown s) q := by
  apply producers_consumers_agree s hs q
  rcases hq with h | h | h
  · exact encodeDelta_range legacy p n hn q h
  · exact eml_of_em q (ssDelta_range legacy p n hn q h)
  · exact renderDelta_range rgb su legacy p n hn q h

/-- **Cross round trips**: `NewStyledString` reads back what `EncodeCells` wrote (with or without the legacy
    quirk), and `ParseStyledString` / the embedded terminal read back what `StyledString.Encode` wrote. -/
theorem roundtrip_cells_via_ss {γ : Type} (legacy : Bool) (cs : List (Cell γ)) (hcs : ∀ c ∈ cs, c.st.wf) :
    ssParse {} (encodeCells legacy cs) = .ok cs :=
  ss_roundtrip_generic (ssSeq {}) (encodeDelta legacy)
    (fun s n hs hn => ss_delta_roundtrip_cells ssCfg_covers ssCfg_legacy legacy s n hs hn) cs {} wf_default hcs

theorem roundtrip_ss_via_cells {γ : Type} (legacy : Bool) (cs : List (Cell γ)) (hcs : ∀ c ∈ cs, c.st.wf) :
    parseStyled (ssEncode legacy cs) = .ok cs ∧ parseToks emuSgr {} (ssEncode legacy cs) = .ok cs :=
  ⟨roundtrip_generic parseSGR (ssDelta legacy)
      (fun s n hs hn => delta_roundtrip_ss parseCfg parseCfg_covers parseCfg_legacy legacy s n hs hn)
      (fun s => ⟨_, int_empty parseCfg s parseCfg_covers.zero⟩) cs {} wf_default hcs,
   roundtrip_generic emuSgr (ssDelta legacy)
      (fun s n hs hn => delta_roundtrip_ss emuCfg emuCfg_covers emuCfg_legacy legacy s n hs hn)
      (fun s => ⟨_, int_empty emuCfg s emuCfg_covers.zero⟩) cs {} wf_default hcs⟩

/-- **roundtrip_cells (StyledString.Encode / NewStyledString).** Holds since the `fix:` for F48, and in every
    configuration (`Encode` writes private constant formats, `Gen.SgrCases.ssEncode…Mutable = false`; and since the
    F118 repair `NewStyledString` reads the legacy forms too). -/
theorem roundtrip_ss {γ : Type} (legacy : Bool) (cs : List (Cell γ)) (hcs : ∀ c ∈ cs, c.st.wf) :
    ssParse {} (ssEncode legacy cs) = .ok cs :=
  ss_roundtrip_generic (ssSeq {}) (ssDelta legacy) (fun s n hs hn => ss_delta_roundtrip ssCfg_covers legacy s n hs hn)
    cs {} wf_default hcs

/-- **ends_reset (EncodeCells).** After the whole encoded string the parser's style is the zero style. -/
theorem ends_reset_cells {γ : Type} (legacy : Bool) (cs : List (Cell γ)) (hcs : ∀ c ∈ cs, c.st.wf) :
    penAfter parseSGR {} (encodeCells legacy cs) = .ok {} ∧ penAfter emuSgr {} (encodeCells legacy cs) = .ok {} :=
  ⟨ends_reset_generic parseSGR (encodeDelta legacy)
      (fun s n hs hn => delta_roundtrip parseCfg parseCfg_covers parseCfg_legacy legacy s n hs hn)
      (fun s => by rw [← simple_zero s]; exact int_empty parseCfg s parseCfg_covers.zero) cs {} wf_default hcs,
   ends_reset_generic emuSgr (encodeDelta legacy)
      (fun s n hs hn => delta_roundtrip emuCfg emuCfg_covers emuCfg_legacy legacy s n hs hn)
      (fun s => by rw [← simple_zero s]; exact int_empty emuCfg s emuCfg_covers.zero) cs {} wf_default hcs⟩

/-- **ends_reset (StyledString.Encode)**: the style `NewStyledString` would hold after the last
    sequence (it skips a sequence with nothing after it, which is unobservable) is the zero style. -/
theorem ends_reset_ss {γ : Type} (legacy : Bool) (cs : List (Cell γ)) (hcs : ∀ c ∈ cs, c.st.wf) :
    penAfter (ssSeq {}) {} (ssEncode legacy cs) = .ok {} :=
  ends_reset_generic (ssSeq {}) (ssDelta legacy) (fun s n hs hn => ss_delta_roundtrip ssCfg_covers legacy s n hs hn)
    (fun _ => rfl) cs {} wf_default hcs

/-- **encoded_shows / ends_reset at the terminal.** A terminal interpreting the encoded string with
    `Spec.sgr` shows at every grapheme exactly the style of its cell, and its pen is reset afterwards;
    for `EncodeCells`, `StyledString.Encode`, and a rendered frame under every capability setting. -/
theorem encoded_shows_cells {γ : Type} (legacy : Bool) (cs : List (Cell γ)) (hcs : ∀ c ∈ cs, c.st.ulStyle ≤ 5) :
    specRun TStyle.reset (encodeCells legacy cs) = (cs.map (fun c => (c.g, shown c.st)), TStyle.reset) := by
  have := encoded_shows shown (encodeDelta legacy) (encodeDelta_correct legacy) shown_default cs {} hcs
  rwa [shown_default] at this

theorem encoded_shows_ss {γ : Type} (legacy : Bool) (cs : List (Cell γ)) (hcs : ∀ c ∈ cs, c.st.ulStyle ≤ 5) :
    specRun TStyle.reset (ssEncode legacy cs) = (cs.map (fun c => (c.g, shown c.st)), TStyle.reset) := by
  have := encoded_shows shown (ssDelta legacy) (ssDelta_correct legacy) shown_default cs {} hcs
  rwa [shown_default] at this

theorem render_frame_shows {γ : Type} (rgb su legacy : Bool) (cs : List (Cell γ)) (hcs : ∀ c ∈ cs, c.st.ulStyle ≤ 5) :
    specRun TStyle.reset (renderFrom rgb su legacy {} cs)
      = (cs.map (fun c => (c.g, shownCaps rgb su c.st)), TStyle.reset) := by
  have := render_shows rgb su legacy cs {} hcs
  rwa [shownCaps_default] at this

/-! ### Extracted shape of the three producers (re-checked against the source on every run) -/

/-- The three producers are the same code up to their colour format constants: in source order
    `EncodeCells`, `StyledString.Encode` and `render` reference the same 30 SGR constants (the styled
    string has its own four colour formats), then `sgrReset` (codecs) / the plain underline pair (render).
    The model's single `attrDelta` / `colourSeq` for all three rests on this. -/
theorem producers_same_shape :
    SgrCases.encodeCellsSgr.take 30 = SgrCases.renderSgr.take 30 ∧
    SgrCases.ssEncodeSgr = SgrCases.encodeCellsSgr.map (fun n =>
      if n = "fgIndexSet" then "ssFgIndexSet" else if n = "fgRGBSet" then "ssFgRGBSet"
      else if n = "bgIndexSet" then "ssBgIndexSet" else if n = "bgRGBSet" then "ssBgRGBSet" else n) ∧
    SgrCases.encodeCellsSgr.drop 30 = ["sgrReset"] ∧
    SgrCases.renderSgr.drop 30 = ["underlineReset", "underlineSet"] := by decide

/-- No other function of the root package writes SGR sequences (`disableModes` writes `sgrReset` on exit),
    and only the four colour formats can be rewritten, by `:` → `;` (the model's `legacyT`). -/
theorem sgr_writers :
    SgrCases.sgrUsers = ["Encode", "EncodeCells", "applyQuirks", "disableModes", "render"] ∧
    Sequences.mutableStrings = ["fgIndexSet", "fgRGBSet", "bgIndexSet", "bgRGBSet"] ∧
    SgrCases.quirkRewrites = [("fgIndexSet", ":", ";"), ("fgRGBSet", ":", ";"), ("bgIndexSet", ":", ";"),
      ("bgRGBSet", ":", ";")] := by decide

/-- `StyledString.Encode` writes its extended colours with formats the legacy quirk cannot rewrite (so its
    own output stays readable by `NewStyledString` in every configuration); `EncodeCells` and `render` use the
    mutable variables. -/
theorem encode_formats_mutability :
    (SgrCases.ssEncodeFgIndexMutable || SgrCases.ssEncodeFgRGBMutable || SgrCases.ssEncodeBgIndexMutable ||
      SgrCases.ssEncodeBgRGBMutable) = false ∧
    (SgrCases.encodeCellsFgIndexMutable && SgrCases.encodeCellsFgRGBMutable && SgrCases.encodeCellsBgIndexMutable &&
      SgrCases.encodeCellsBgRGBMutable && SgrCases.renderFgIndexMutable && SgrCases.renderFgRGBMutable &&
      SgrCases.renderBgIndexMutable && SgrCases.renderBgRGBMutable) = true := by decide

/-- The two `[][]int` consumers handle the same labels, arities and `4:n` sub-labels — as sets: neither the order of the
    `case` clauses nor the order of the `case <len>` clauses inside a `switch len(params[i])` matters (since the F35 fix; round 4:
    the inner order no longer matters either — a reordered clause was reported as a broken obligation). -/
theorem int_consumers_same_cases :
    VaxisModel.Lemmas.SgrAgree.sameSet SgrCases.parseSGRLabels SgrCases.emuSgrLabels = true ∧
    VaxisModel.Lemmas.SgrAgree.sameSet SgrCases.parseSGRUlSubs SgrCases.emuSgrUlSubs = true ∧
    VaxisModel.Lemmas.SgrAgree.aritiesSameB SgrCases.parseSGRArities SgrCases.emuSgrArities = true := by
  decide

end VaxisModel.Props.C18
