/-
C18 — Styled-text codecs round-trip and all SGR producers and consumers agree.
Property theorems only (helper lemmas live in Lemmas/Sgr.lean).

Vocabulary: `Spec.sgr` (Spec/Sgr.lean) is the meaning of one `CSI … m` on a terminal pen `TStyle`;
`shown : Style → TStyle` is what a terminal displays for a vaxis style; `apply t l` interprets the
sequences `l` one after the other from pen `t`.
-/
import VaxisModel.Lemmas.Sgr

namespace VaxisModel.Props.C18
open VaxisModel VaxisModel.Model.Sgr VaxisModel.Gen VaxisModel.Spec VaxisModel.Lemmas.Sgr

/-- The seven attribute bits of style.go are the single bits 1..7 of a `uint8` (bit 0 is unused). -/
theorem attr_bits :
    [SgrCases.AttrBold, SgrCases.AttrDim, SgrCases.AttrItalic, SgrCases.AttrBlink, SgrCases.AttrReverse,
     SgrCases.AttrInvisible, SgrCases.AttrStrikethrough] = [2 ^ 1, 2 ^ 2, 2 ^ 3, 2 ^ 4, 2 ^ 5, 2 ^ 6, 2 ^ 7] := by decide

/-- **attr_delta.** For *all* attribute masks `a b` (no bound: in particular all 128 × 128 masks over the
    seven defined bits), interpreting the codes the producers write for the transition `a → b` on a pen
    whose attributes are those of `a` gives the attributes of `b` and leaves everything else alone.
    Proved per bit: each bit is set by its own code and cleared by its own reset; bold and dim share
    reset 22 and the survivor is re-asserted. -/
theorem attr_delta (a b : Nat) (t : TStyle) :
    apply (withAttrs a t) (attrDelta a b) = withAttrs b t := attrDelta_correct a b t

example : attrDelta 6 4 = [[[22]], [[2]]] := by decide          -- bold+dim → dim: 22 then dim again
example : attrDelta 2 4 = [[[2]], [[22]], [[2]]] := by decide   -- bold → dim

/-- **pen_delta_correct (EncodeCells).** For every pair of styles (next underline style one of the six),
    with or without the legacy-SGR quirk: the sequences written between two cells turn a terminal
    showing `p` into one showing `n`. -/
theorem pen_delta_correct_encodeCells (legacy : Bool) (p n : Style) (hn : n.ulStyle ≤ 5) :
    apply (shown p) (encodeDelta legacy p n) = shown n := encodeDelta_correct legacy p n hn

/-- **pen_delta_correct (StyledString.Encode).** -/
theorem pen_delta_correct_ssEncode (p n : Style) (hn : n.ulStyle ≤ 5) :
    apply (shown p) (ssDelta p n) = shown n := ssDelta_correct p n hn

/-- **pen_delta_correct (render).** For every capability setting: without `rgb` the terminal shows the
    palette fallback of direct colours, without `styledUnderlines` no underline colour and a single
    underline for every underline style (`shownCaps`). -/
theorem pen_delta_correct_render (rgb su legacy : Bool) (p n : Style) (hn : n.ulStyle ≤ 5) :
    apply (shownCaps rgb su p) (renderDelta rgb su legacy p n) = shownCaps rgb su n :=
  renderDelta_correct rgb su legacy p n hn

/-- **sgr_total.** No SGR consumer panics on any list of non-empty parameter lists (what the ansi
    parser and `strings.Split` produce), including truncated 38/48/58 forms. -/
theorem sgr_total (s : Style) (ps : Seq) (h : ∀ p ∈ ps, p ≠ []) :
    (∃ s', parseSGR s ps = .ok s') ∧ (∃ s', emuSgr s ps = .ok s') := 
  ⟨intSgr_ok parseCfg s ps h, intSgr_ok emuCfg s ps h⟩

/-- **sgr_total (NewStyledString).** On every list of non-empty lists of arbitrary sub-parameter texts. -/
theorem sgr_total_ss (dflt s : Style) (ps : List (List SubTok)) (h : ∀ p ∈ ps, p ≠ []) :
    ∃ s', ssSeqTok dflt s ps = .ok s' := by
  unfold ssSeqTok
  split
  · exact ⟨_, rfl⟩
  · exact ssLoop_ok ssCfg dflt ps h s

-- truncated forms return without panic and leave the style alone
example : (match parseSGR {} [[38]] with | .ok s => s == {} | _ => false) = true := by decide
example : (match parseSGR {} [[38], [5]] with | .ok s => s == {} | _ => false) = true := by decide
example : (match emuSgr {} [[48], [2], [1], [2]] with | .ok s => s == {} | _ => false) = true := by decide
example : (match parseSGR {} [[58, 2, 1]] with | .ok s => s == {} | _ => false) = true := by decide
-- the hypothesis is needed: an empty parameter (which the parser never produces) would panic
example : (match parseSGR {} [[]] with | .error _ => true | _ => false) = true := by decide

end VaxisModel.Props.C18
