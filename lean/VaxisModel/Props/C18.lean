/-
C18 — Styled-text codecs round-trip and all SGR producers and consumers agree.
Property theorems only (helper lemmas live in Lemmas/Sgr.lean).

Vocabulary: `Spec.sgr` (Spec/Sgr.lean) is the meaning of one `CSI … m` on a terminal pen `TStyle`;
`shown : Style → TStyle` is what a terminal displays for a vaxis style; `apply t l` interprets the
sequences `l` one after the other from pen `t`.
-/
import VaxisModel.Lemmas.Sgr

namespace VaxisModel.Props.C18
open VaxisModel VaxisModel.Model.Sgr VaxisModel.Gen VaxisModel.Spec VaxisModel.Lemmas.Sgr
open VaxisModel.Model.Color (indexColor rgbColor)

/-- The seven attribute bits of style.go are the single bits 1..7 of a `uint8` (bit 0 is unused). -/
theorem attr_bits :
    [SgrCases.AttrBold, SgrCases.AttrDim, SgrCases.AttrItalic, SgrCases.AttrBlink, SgrCases.AttrReverse,
     SgrCases.AttrInvisible, SgrCases.AttrStrikethrough] = [2 ^ 1, 2 ^ 2, 2 ^ 3, 2 ^ 4, 2 ^ 5, 2 ^ 6, 2 ^ 7] := by decide

/-- **attr_delta.** For *all* attribute masks `a b` (no bound: in particular all 128 × 128 masks over the
    seven defined bits), interpreting the codes the producers write for the transition `a → b` on a pen
    whose attributes are those of `a` gives the attributes of `b` and leaves everything else alone.
    Proved per bit: each bit is set by its own code and cleared by its own reset; bold and dim share
    reset 22 and the survivor is re-asserted. -/
theorem attr_delta (a b : Nat) (t : TStyle) :
    apply (withAttrs a t) (attrDelta a b) = withAttrs b t := attrDelta_correct a b t

example : attrDelta 6 4 = [[[22]], [[2]]] := by decide          -- bold+dim → dim: 22 then dim again
example : attrDelta 2 4 = [[[2]], [[22]], [[2]]] := by decide   -- bold → dim

/-- **pen_delta_correct (EncodeCells).** For every pair of styles (next underline style one of the six),
    with or without the legacy-SGR quirk: the sequences written between two cells turn a terminal
    showing `p` into one showing `n`. -/
theorem pen_delta_correct_encodeCells (legacy : Bool) (p n : Style) (hn : n.ulStyle ≤ 5) :
    apply (shown p) (encodeDelta legacy p n) = shown n := encodeDelta_correct legacy p n hn

/-- **pen_delta_correct (StyledString.Encode).** -/
theorem pen_delta_correct_ssEncode (p n : Style) (hn : n.ulStyle ≤ 5) :
    apply (shown p) (ssDelta p n) = shown n := ssDelta_correct p n hn

/-- **pen_delta_correct (render).** For every capability setting: without `rgb` the terminal shows the
    palette fallback of direct colours, without `styledUnderlines` no underline colour and a single
    underline for every underline style (`shownCaps`). -/
theorem pen_delta_correct_render (rgb su legacy : Bool) (p n : Style) (hn : n.ulStyle ≤ 5) :
    apply (shownCaps rgb su p) (renderDelta rgb su legacy p n) = shownCaps rgb su n :=
  renderDelta_correct rgb su legacy p n hn

/-- **sgr_total.** No SGR consumer panics on any list of non-empty parameter lists (what the ansi
    parser and `strings.Split` produce), including truncated 38/48/58 forms. -/
theorem sgr_total (s : Style) (ps : Seq) (h : ∀ p ∈ ps, p ≠ []) :
    (∃ s', parseSGR s ps = .ok s') ∧ (∃ s', emuSgr s ps = .ok s') := 
  ⟨intSgr_ok parseCfg s ps h, intSgr_ok emuCfg s ps h⟩

/-- **sgr_total (NewStyledString).** On every list of non-empty lists of arbitrary sub-parameter texts. -/
theorem sgr_total_ss (dflt s : Style) (ps : List (List SubTok)) (h : ∀ p ∈ ps, p ≠ []) :
    ∃ s', ssSeqTok dflt s ps = .ok s' := by
  unfold ssSeqTok
  split
  · exact ⟨_, rfl⟩
  · exact ssLoop_ok ssCfg dflt ps h s

-- truncated forms return without panic and leave the style alone
example : (match parseSGR {} [[38]] with | .ok s => s == {} | _ => false) = true := by decide
example : (match parseSGR {} [[38], [5]] with | .ok s => s == {} | _ => false) = true := by decide
example : (match emuSgr {} [[48], [2], [1], [2]] with | .ok s => s == {} | _ => false) = true := by decide
example : (match parseSGR {} [[58, 2, 1]] with | .ok s => s == {} | _ => false) = true := by decide
-- the hypothesis is needed: an empty parameter (which the parser never produces) would panic
example : (match parseSGR {} [[]] with | .error _ => true | _ => false) = true := by decide

/-! ### Producers' range, label coverage, consumers refine the spec -/

/-- **producers_range (EncodeCells).** Every sequence written for a transition into a style with one of
    the six underline styles is in the explicit, decidable set `emittableLegacy` (`emittable` without
    the quirk): solo codes, `4:n`, `38/48/58:5:n`, `38/48/58:2:r:g:b` with byte values, and the
    semicolon forms for 38/48. -/
theorem producers_range_encodeCells (legacy : Bool) (p n : Style) (hn : n.ulStyle ≤ 5) :
    ∀ x ∈ encodeDelta legacy p n, emittableLegacy x = true := encodeDelta_range legacy p n hn

/-- **label coverage** (over the regenerated `Gen.SgrCases`): every first parameter in the producers'
    range has a `case` in cell.go parseSGR, widgets/term sgr and NewStyledString, with the
    sub-parameter counts the producers use; parseSGR and the emulator also accept the legacy forms. -/
theorem label_coverage :
    covers parseCfg = true ∧ coversLegacy parseCfg = true ∧
    covers emuCfg = true ∧ coversLegacy emuCfg = true ∧
    covers ssCfg = true := by decide

theorem parseCfg_covers : Covers parseCfg := covers_iff _ (by decide)
theorem emuCfg_covers : Covers emuCfg := covers_iff _ (by decide)
theorem parseCfg_legacy : ∀ p, p = 38 ∨ p = 48 → parseCfg.accepts p 1 = true := by
  intro p hp; rcases hp with rfl | rfl <;> decide
theorem emuCfg_legacy : ∀ p, p = 38 ∨ p = 48 → emuCfg.accepts p 1 = true := by
  intro p hp; rcases hp with rfl | rfl <;> decide

/-- **consumer_refines_spec (parseSGR).** On everything a producer can write (legacy forms included)
    cell.go's parser does not panic and changes the style exactly as `Spec.sgr` changes the pen. -/
theorem consumer_refines_spec_parseSGR (s : Style) (q : Seq) (hq : emittableLegacy q = true) :
    ∃ s', parseSGR s q = .ok s' ∧ shown s' = Spec.sgr (shown s) q :=
  int_refines_legacy parseCfg parseCfg_covers parseCfg_legacy s q hq

/-- **consumer_refines_spec (embedded terminal).** -/
theorem consumer_refines_spec_emuSgr (s : Style) (q : Seq) (hq : emittableLegacy q = true) :
    ∃ s', emuSgr s q = .ok s' ∧ shown s' = Spec.sgr (shown s) q :=
  int_refines_legacy emuCfg emuCfg_covers emuCfg_legacy s q hq

/-- **producers_consumers_agree (parseSGR / embedded terminal).** Both understand every producible
    sequence identically (and as the spec does); on well-formed styles the resulting styles are equal. -/
theorem producers_consumers_agree_int (s : Style) (hs : s.wf) (q : Seq) (hq : emittableLegacy q = true) :
    ∃ s', parseSGR s q = .ok s' ∧ emuSgr s q = .ok s' ∧ shown s' = Spec.sgr (shown s) q := by
  obtain ⟨s1, h1, e1⟩ := consumer_refines_spec_parseSGR s q hq
  obtain ⟨s2, h2, e2⟩ := consumer_refines_spec_emuSgr s q hq
  have w1 := int_wf parseCfg parseCfg_covers parseCfg_legacy s hs q hq s1 h1
  have w2 := int_wf emuCfg emuCfg_covers emuCfg_legacy s hs q hq s2 h2
  have : s1 = s2 := shown_inj s1 s2 w1 w2 (e1.trans e2.symm)
  subst this
  exact ⟨s1, h1, h2, e1⟩

/-! ### Round trip -/

/-- **roundtrip_cells (EncodeCells / ParseStyledString).** For every sequence of cells with well-formed
    styles (graphemes are opaque self-delimiting tokens: A-concat), with or without the legacy quirk:
    parsing the encoded token sequence returns exactly the cells. By induction on the cell list with
    the pen as invariant. -/
theorem roundtrip_cells {γ : Type} (legacy : Bool) (cs : List (Cell γ)) (hcs : ∀ c ∈ cs, c.st.wf) :
    parseStyled (encodeCells legacy cs) = .ok cs :=
  roundtrip_generic parseSGR (encodeDelta legacy)
    (fun s n hs hn => delta_roundtrip parseCfg parseCfg_covers parseCfg_legacy legacy s n hs hn)
    (fun s => ⟨_, int_empty parseCfg s parseCfg_covers.zero⟩) cs {} wf_default hcs

/-- The same encoded string fed to the embedded terminal cell by cell gives the same cells. -/
theorem roundtrip_cells_emu {γ : Type} (legacy : Bool) (cs : List (Cell γ)) (hcs : ∀ c ∈ cs, c.st.wf) :
    parseToks emuSgr {} (encodeCells legacy cs) = .ok cs :=
  roundtrip_generic emuSgr (encodeDelta legacy)
    (fun s n hs hn => delta_roundtrip emuCfg emuCfg_covers emuCfg_legacy legacy s n hs hn)
    (fun s => ⟨_, int_empty emuCfg s emuCfg_covers.zero⟩) cs {} wf_default hcs

-- non-vacuity: a well-formed style with every field non-default, and a concrete round trip
example : Style.wf ⟨indexColor 200, rgbColor 1 2 3, indexColor 7, 3, 254⟩ :=
  ⟨Or.inr (Or.inl ⟨200, by decide, rfl⟩), Or.inr (Or.inr ⟨1, 2, 3, by decide, by decide, by decide, rfl⟩),
   Or.inr (Or.inl ⟨7, by decide, rfl⟩), by decide, by decide⟩

end VaxisModel.Props.C18
