/-
C18 — Styled-text codecs round-trip and all SGR producers and consumers agree.
Property theorems only (helper lemmas live in Lemmas/Sgr.lean).
-/
import VaxisModel.Model.Sgr

namespace VaxisModel.Props.C18
open VaxisModel.Model.Sgr VaxisModel.Gen

/-- The seven attribute bits of style.go are distinct single bits 1..7 of a `uint8`. -/
theorem attr_bits :
    [SgrCases.AttrBold, SgrCases.AttrDim, SgrCases.AttrItalic, SgrCases.AttrBlink, SgrCases.AttrReverse,
     SgrCases.AttrInvisible, SgrCases.AttrStrikethrough] = [2 ^ 1, 2 ^ 2, 2 ^ 3, 2 ^ 4, 2 ^ 5, 2 ^ 6, 2 ^ 7] := by decide

end VaxisModel.Props.C18
