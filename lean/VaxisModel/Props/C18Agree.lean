/-
C18, round 4 (T1b): do the three SGR consumers agree on EVERY parameter list, not only on what the library produces?

* `parseSGR` (cell.go) and the embedded terminal's `sgr` (widgets/term): **yes, on every list, from every style** —
  `consumers_int_agree_all` (they are one loop over configurations that are equal as sets; panics included).
* `NewStyledString` against them: **no** (`consumers_agree_all_full_fails`).  It agrees on the decidable class `agreeClass`
  (`consumers_agree_on_class`), which contains everything the three producers write (`producers_range_in_class`) and a
  good deal more (unknown codes, ignored sub-parameter counts, complete legacy forms anywhere in a list, a bare 38 at the
  very end); outside it the two readings differ in seven ways, each with an evaluated witness (`disagreement_witnesses`):
    1. a truncated legacy form — `parseSGR` returns, `NewStyledString` reads the remaining parameters as codes of their own
       (`38;5` is blink, `1;48;2;10;20` — the seeded C18-m6 shape — is bold+dim);
    2. an unknown selector after a bare 38 (`38;7;1`): return vs. reverse+bold;
    3. a colon form with the wrong selector (`38:3:7`): return vs. index colour 7;
    4. the six-sub-parameter form with a colour-space slot (`38:2::1:2:3`): RGB vs. ignored;
    5. sub-parameters inside the look-ahead parameters (`38;5:1;7`): index 7 vs. blink+reverse;
    6. `4:k:…` with more than one sub-parameter (`4:3:9`): ignored vs. curly;
    7. anything after a malformed form (`38:3:7;1`): `parseSGR` has returned, `NewStyledString` goes on.
  None of these is in the producers' range, so none is a violation of the property text ("every sequence the library
  produces is understood identically", "an arbitrary parameter list never panics"); they are replayed on the real code as
  documentation cases (`corpus/C18/R4-*.ops`).
-/
import VaxisModel.Lemmas.SgrAgree
import VaxisModel.Props.C18

namespace VaxisModel.Props.C18Agree
open VaxisModel VaxisModel.Gen VaxisModel.Model.Sgr VaxisModel.Lemmas.Sgr VaxisModel.Lemmas.SgrAgree

/-- The two extracted configurations are the same sets of labels, `4:n` sub-labels and per-label sub-parameter counts
    (order of the `case` clauses irrelevant). -/
theorem int_cfgs_same : cfgSameB parseCfg emuCfg = true := by decide

/-- **`parseSGR` = the embedded terminal's `sgr`, on EVERY parameter list from EVERY style** (as values of `Except Panic`,
    so they also panic on the same lists — the ones with an empty parameter, which the parser never delivers). -/
theorem consumers_int_agree_all (s : Style) (q : Seq) : parseSGR s q = emuSgr s q :=
  intSgr_same parseCfg emuCfg (cfgSame_of_B _ _ int_cfgs_same) s q

/-- **On `agreeClass`, all three consumers compute the same style from every style** (default style = zero style). -/
theorem consumers_agree_on_class (s : Style) (q : Seq) (h : agreeClass q = true) :
    parseSGR s q = ssSeq {} s q ∧ emuSgr s q = ssSeq {} s q := by
  have key : parseSGR s q = ssSeq {} s q := by
    cases q with
    | nil =>
      show intSgr parseCfg s [] = _
      rw [int_empty parseCfg s C18.parseCfg_covers.zero, ss_empty, simple_zero]
    | cons c r =>
      simp only [agreeClass, List.isEmpty_cons, Bool.false_or] at h
      exact loop_agree parseCfg ssCfg (c :: r) 0 s h
  exact ⟨key, (consumers_int_agree_all s q).symm.trans key⟩

/-- **Everything the producers write is in the class** — so `producers_consumers_agree` also follows without the detour
    through `Spec.sgr`. -/
theorem producers_range_in_class (q : Seq) (hq : emittableLegacy q = true) : agreeClass q = true := by
  have solo : ∀ p ∈ soloCodes, agreeClass [[p]] = true := by decide
  have ul : ∀ n, n ≤ 5 → agreeClass [[4, n]] = true := by decide
  rcases emittableLegacy_cases q hq with h | h
  · rcases emittable_cases q h with rfl | ⟨p, hp, rfl⟩ | ⟨n, hn, rfl⟩ | ⟨p, n, hp, _, rfl⟩ | ⟨p, r, g, b, hp, _, _, _, rfl⟩
    · rfl
    · exact solo p hp
    · exact ul n hn
    · rcases hp with rfl | rfl | rfl <;> rfl
    · rcases hp with rfl | rfl | rfl <;> rfl
  · rcases h with ⟨p, n, hp, _, rfl⟩ | ⟨p, r, g, b, hp, _, _, _, rfl⟩
    · rcases hp with rfl | rfl <;> rfl
    · rcases hp with rfl | rfl <;> rfl

/-- Both return, with different styles. -/
def disagree (s : Style) (q : Seq) : Bool :=
  match parseSGR s q, ssSeq {} s q with
  | .ok a, .ok b => a != b
  | _, _ => false

/-- One witness per way of disagreeing (see the file header), from the zero style. -/
def witnessTable : List Seq :=
  [[[38], [5]], [[1], [48], [2], [10], [20]], [[1], [3], [48], [2], [10]],   -- 1
   [[38], [7], [1]],                                                          -- 2
   [[38, 3, 7]], [[58, 5, 1, 2, 3]],                                          -- 3
   [[38, 2, 0, 1, 2, 3]],                                                     -- 4
   [[38], [5, 1], [7]], [[48], [5], [7, 3]],                                  -- 5
   [[4, 3, 9]],                                                               -- 6
   [[38, 3, 7], [1]]]                                                         -- 7

/-- **Each witness is read differently** by `parseSGR` (= the emulator) and `NewStyledString`, without panic, and lies
    outside `agreeClass`. -/
theorem disagreement_witnesses : witnessTable.all (fun q => disagree {} q && !agreeClass q) = true := by decide

-- what the two readings are, for the seeded C18-m6 shape and for `38;5`
example : (match parseSGR {} [[1], [48], [2], [10], [20]], ssSeq {} {} [[1], [48], [2], [10], [20]] with
    | .ok a, .ok b => decide (a = { attr := 2 } ∧ b = { attr := 6 }) | _, _ => false) = true := by decide
example : (match parseSGR {} [[38], [5]], ssSeq {} {} [[38], [5]] with
    | .ok a, .ok b => decide (a = {} ∧ b = { attr := 16 }) | _, _ => false) = true := by decide

-- in the class although malformed or unusual: both ignore / both stop at the end of the list
example : [[[38]], [[1], [38]], [[38, 2]], [[38, 2, 1, 2]], [[38, 2, 0, 1, 2, 3, 4]], [[4, 9]], [[4, 9, 1]], [[6]], [[21]], [[0]],
    [[1], [38], [5], [200], [3]], [[48], [2], [1], [2], [3], [38], [5], [0]]].all agreeClass = true := by decide

/-- The statement "all three consumers agree on every parameter list". -/
def consumers_agree_all_full : Prop :=
  ∀ (s : Style) (q : Seq), parseSGR s q = emuSgr s q ∧ parseSGR s q = ssSeq {} s q

/-- **It is false** (the `parseSGR` / emulator half is `consumers_int_agree_all`): `38;5`. -/
theorem consumers_agree_all_full_fails : ¬ consumers_agree_all_full := by
  intro h
  have h' := (h {} [[38], [5]]).2
  have hd : disagree {} [[38], [5]] = true := by decide
  unfold disagree at hd
  rw [h'] at hd
  revert hd
  cases ssSeq {} {} [[38], [5]] <;> simp

end VaxisModel.Props.C18Agree
