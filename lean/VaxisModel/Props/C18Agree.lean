/-
C18, round 4 (T1b): do the three SGR consumers agree on EVERY parameter list, not only on what the library produces?

* `parseSGR` (cell.go) and the embedded terminal's `sgr` (widgets/term): **yes, on every list, from every style** —
  `consumers_int_agree_all` (they are one loop over configurations that are equal as sets; panics included).
* `NewStyledString` against them: **no** (`consumers_agree_all_full_fails`).  EXACTLY on the decidable set `agreeExact`
  (`consumers_agree_iff`: evaluation at two probe styles decides agreement from every style).  It agrees on the syntactic class `agreeClass`
  (`consumers_agree_on_class`), which contains everything the three producers write (`producers_range_in_class`) and a
  good deal more (unknown codes, ignored sub-parameter counts, complete legacy forms anywhere in a list, a bare 38 at the
  very end); outside it the two readings differ in seven ways at the level of parameter lists, each with an evaluated witness
  (`disagreement_witnesses`), and in two more that exist only in the text (`disagreement_noncanonical_bytes`: `ESC[01;34m`, `ESC[;1m`):
    1. a truncated legacy form — `parseSGR` returns, `NewStyledString` reads the remaining parameters as codes of their own
       (`38;5` is blink, `1;48;2;10;20` — the seeded C18-m6 shape — is bold+dim);
    2. an unknown selector after a bare 38 (`38;7;1`): return vs. reverse+bold;
    3. a colon form with the wrong selector (`38:3:7`): return vs. index colour 7;
    4. the six-sub-parameter form with a colour-space slot (`38:2::1:2:3`): RGB vs. ignored;
    5. sub-parameters inside the look-ahead parameters (`38;5:1;7`): index 7 vs. blink+reverse;
    6. `4:k:…` with more than one sub-parameter (`4:3:9`): ignored vs. curly;
    7. anything after a malformed form (`38:3:7;1`): `parseSGR` has returned, `NewStyledString` goes on.
  Over strings: `string_parsers_agree_on_class` (`ParseStyledString(s)` = `NewStyledString(s)` whenever every sequence is in the class).
  None of these is in the producers' range, so none is a violation of the property text ("every sequence the library
  produces is understood identically", "an arbitrary parameter list never panics"); they are replayed on the real code as
  documentation cases (`corpus/C18/R4-*.ops`).
-/
import VaxisModel.Lemmas.SgrAgree
import VaxisModel.Lemmas.SgrShape
import VaxisModel.Props.C18
import VaxisModel.Props.C18Bytes

namespace VaxisModel.Props.C18Agree
open VaxisModel VaxisModel.Gen VaxisModel.Model.Sgr VaxisModel.Lemmas.Sgr VaxisModel.Lemmas.SgrAgree
open VaxisModel.Model.SgrBytes VaxisModel.Lemmas.SgrBytes VaxisModel.Lemmas.SgrShape

/-- The two extracted configurations are the same sets of labels, `4:n` sub-labels and per-label sub-parameter counts
    (order of the `case` clauses irrelevant). -/
theorem int_cfgs_same : cfgSameB parseCfg emuCfg = true := by decide

/-- **`parseSGR` = the embedded terminal's `sgr`, on EVERY parameter list from EVERY style** (as values of `Except Panic`,
    so they also panic on the same lists — the ones with an empty parameter, which the parser never delivers). -/
theorem consumers_int_agree_all (s : Style) (q : Seq) : parseSGR s q = emuSgr s q :=
  intSgr_same parseCfg emuCfg (cfgSame_of_B _ _ int_cfgs_same) s q

/-- **On `agreeClass`, all three consumers compute the same style from every style** (default style = zero style). -/
theorem consumers_agree_on_class (s : Style) (q : Seq) (h : agreeClass q = true) :
    parseSGR s q = ssSeq {} s q ∧ emuSgr s q = ssSeq {} s q := by
  have key : parseSGR s q = ssSeq {} s q := by
    cases q with
    | nil =>
      show intSgr parseCfg s [] = _
      rw [int_empty parseCfg s C18.parseCfg_covers.zero, ss_empty, simple_zero]
    | cons c r =>
      simp only [agreeClass, List.isEmpty_cons, Bool.false_or] at h
      exact loop_agree parseCfg ssCfg (c :: r) 0 s h
  exact ⟨key, (consumers_int_agree_all s q).symm.trans key⟩

/-- **Everything the producers write is in the class** — so `producers_consumers_agree` also follows without the detour
    through `Spec.sgr`. -/
theorem producers_range_in_class (q : Seq) (hq : emittableLegacy q = true) : agreeClass q = true := by
  have solo : ∀ p ∈ soloCodes, agreeClass [[p]] = true := by decide
  have ul : ∀ n, n ≤ 5 → agreeClass [[4, n]] = true := by decide
  rcases emittableLegacy_cases q hq with h | h
  · rcases emittable_cases q h with rfl | ⟨p, hp, rfl⟩ | ⟨n, hn, rfl⟩ | ⟨p, n, hp, _, rfl⟩ | ⟨p, r, g, b, hp, _, _, _, rfl⟩
    · rfl
    · exact solo p hp
    · exact ul n hn
    · rcases hp with rfl | rfl | rfl <;> rfl
    · rcases hp with rfl | rfl | rfl <;> rfl
  · rcases h with ⟨p, n, hp, _, rfl⟩ | ⟨p, r, g, b, hp, _, _, _, rfl⟩
    · rcases hp with rfl | rfl <;> rfl
    · rcases hp with rfl | rfl <;> rfl

/-- Both return, with different styles. -/
def disagree (s : Style) (q : Seq) : Bool :=
  match parseSGR s q, ssSeq {} s q with
  | .ok a, .ok b => a != b
  | _, _ => false

/-- One witness per way of disagreeing (see the file header), from the zero style. -/
def witnessTable : List Seq :=
  [[[38], [5]], [[1], [48], [2], [10], [20]], [[1], [3], [48], [2], [10]],   -- 1
   [[38], [7], [1]],                                                          -- 2
   [[38, 3, 7]], [[58, 5, 1, 2, 3]],                                          -- 3
   [[38, 2, 0, 1, 2, 3]],                                                     -- 4
   [[38], [5, 1], [7]], [[48], [5], [7, 3]],                                  -- 5
   [[4, 3, 9]],                                                               -- 6
   [[38, 3, 7], [1]]]                                                         -- 7

/-- **Each witness is read differently** by `parseSGR` (= the emulator) and `NewStyledString`, without panic, and lies
    outside `agreeClass`. -/
theorem disagreement_witnesses : witnessTable.all (fun q => disagree {} q && !agreeClass q) = true := by decide

-- what the two readings are, for the seeded C18-m6 shape and for `38;5`
example : (match parseSGR {} [[1], [48], [2], [10], [20]], ssSeq {} {} [[1], [48], [2], [10], [20]] with
    | .ok a, .ok b => decide (a = { attr := 2 } ∧ b = { attr := 6 }) | _, _ => false) = true := by decide
example : (match parseSGR {} [[38], [5]], ssSeq {} {} [[38], [5]] with
    | .ok a, .ok b => decide (a = {} ∧ b = { attr := 16 }) | _, _ => false) = true := by decide

-- in the class although malformed or unusual: both ignore / both stop at the end of the list
example : [[[38]], [[1], [38]], [[38, 2]], [[38, 2, 1, 2]], [[38, 2, 0, 1, 2, 3, 4]], [[4, 9]], [[4, 9, 1]], [[6]], [[21]], [[0]],
    [[1], [38], [5], [200], [3]], [[48], [2], [1], [2], [3], [38], [5], [0]]].all agreeClass = true := by decide

/-! ### The exact characterisation

For a fixed list each consumer is a transformer of the style of a very simple shape — every colour field and the underline
style kept or set to a constant, every attribute bit kept, set or cleared — or it panics whatever the style
(`Lemmas/SgrShape.lean`: `intSgr_shaped`, `ssSeq_shaped`).  Two such transformers agree everywhere iff they agree on the two
probes `⟨0,0,0,0,0⟩` and `⟨1,1,1,7,255⟩`.  So "agree from every style" is decidable by evaluation. -/

/-- **`parseSGR` (= the emulator) and `NewStyledString` give the same result on `q` from EVERY style with an 8-bit attribute
    mask (Go's `AttributeMask` is a `uint8`) if and only if `agreeExact q`** — the exact set of lists on which all three
    consumers agree; `agreeClass` is a syntactic part of it (`agreeClass_sub_exact`), strictly smaller (`exact_not_class`). -/
theorem consumers_agree_iff (q : Seq) :
    (∀ s : Style, s.attr < 256 → parseSGR s q = ssSeq {} s q ∧ emuSgr s q = ssSeq {} s q) ↔ agreeExact q = true := by
  constructor
  · intro h
    have h0 := (h probe0 (by decide)).1
    have h1 := (h probe1 (by decide)).1
    unfold agreeExact
    rw [h0, h1]
    have refl : ∀ r : Except Panic Style, sameRes r r = true := by
      intro r; cases r <;> simp [sameRes]
    rw [refl, refl]; rfl
  · intro h s hs
    have key : parseSGR s q = ssSeq {} s q := by
      unfold agreeExact at h
      rw [Bool.and_eq_true] at h
      obtain ⟨h0, h1⟩ := h
      rcases intSgr_shaped parseCfg q with ⟨F, hF, hf⟩ | hf <;> rcases ssSeq_shaped q with ⟨G, hG, hg⟩ | hg
      · have e0 : parseSGR probe0 q = .ok (F probe0) := hf probe0
        have e1 : parseSGR probe1 q = .ok (F probe1) := hf probe1
        rw [e0, hg] at h0
        rw [e1, hg] at h1
        simp only [sameRes, beq_iff_eq] at h0 h1
        show intSgr parseCfg s q = _
        rw [hf, hg, shaped_ext F G hF hG h0 h1 s hs]
      · have e0 : parseSGR probe0 q = .ok (F probe0) := hf probe0
        rw [e0, hg] at h0
        simp [sameRes] at h0
      · have e0 : parseSGR probe0 q = .error .index := hf probe0
        rw [e0, hg] at h0
        simp [sameRes] at h0
      · show intSgr parseCfg s q = _
        rw [hf, hg]
    exact ⟨key, (consumers_int_agree_all s q).symm.trans key⟩

/-- **Whether a consumer panics on a list does not depend on the style** (control flow never reads it): it panics from some
    style iff it panics from every style iff it panics from the zero style — so `sgr_total`'s "no panic" can be tested at one style. -/
theorem sgr_panic_style_independent (q : Seq) (s : Style) :
    (parseSGR s q = .error .index ↔ parseSGR {} q = .error .index) ∧
    (emuSgr s q = .error .index ↔ emuSgr {} q = .error .index) ∧
    (ssSeq {} s q = .error .index ↔ ssSeq {} {} q = .error .index) := by
  have int : ∀ cfg, (intSgr cfg s q = .error .index ↔ intSgr cfg {} q = .error .index) := by
    intro cfg
    rcases intSgr_shaped cfg q with ⟨F, _, hf⟩ | hf
    · rw [hf s, hf {}]; constructor <;> intro h <;> cases h
    · rw [hf s, hf {}]
  refine ⟨int parseCfg, int emuCfg, ?_⟩
  rcases ssSeq_shaped q with ⟨F, _, hf⟩ | hf
  · rw [hf s, hf {}]; constructor <;> intro h <;> cases h
  · rw [hf s, hf {}]

theorem agreeClass_sub_exact (q : Seq) (h : agreeClass q = true) : agreeExact q = true :=
  (consumers_agree_iff q).mp (fun s _ => consumers_agree_on_class s q h)

/-- The class is strictly smaller: here later parameters undo the difference (`38;5:1;7;25;27;39`). -/
theorem exact_not_class : agreeExact [[38], [5, 1], [7], [25], [27], [39]] = true ∧
    agreeClass [[38], [5, 1], [7], [25], [27], [39]] = false := by decide

example : witnessTable.all (fun q => !agreeExact q) = true := by decide

/-! ### Over strings -/

/-- **The two string parsers return the same cells for every string whose SGR sequences are all in the class**
    (`ParseStyledString(s)` = `NewStyledString(s, Style{}).Cells`, as models over `List Nat`): parameters printed canonically
    and below 2^63, graphemes self-delimiting for the cluster oracle (`Good`). -/
theorem string_parsers_agree_on_class (cl : Str → Nat) (ts : List (Tok Seq Str)) (hg : Good cl ts)
    (hc : ∀ q, Tok.sgr q ∈ ts → agreeClass q = true) :
    parseStyledB cl (bytesOfToks ts) = newStyledStringB cl {} (bytesOfToks ts) := by
  obtain ⟨h1, h2⟩ := C18Bytes.consumers_bytes_eq cl {} ts hg
  rw [h1, h2]
  have hne : ∀ q, Tok.sgr q ∈ ts → ∀ p ∈ q, p ≠ [] := by
    intro q hq
    have : ∀ (l : List (Tok Seq Str)), Good cl l → Tok.sgr q ∈ l → VaxisModel.Lemmas.ParserParams.ParamsOk q := by
      intro l
      induction l with
      | nil => intro _ h; cases h
      | cons t r ih =>
        intro hgl hm
        cases t with
        | sgr q' =>
          rcases List.mem_cons.mp hm with h | h
          · cases h; exact hgl.1
          · exact ih hgl.2 h
        | text g =>
          rcases List.mem_cons.mp hm with h | h
          · cases h
          · exact ih hgl.2.2 h
    intro p hp
    exact (this ts hg hq p hp).1
  exact toks_agree parseSGR (ssSeq {}) (fun q => agreeClass q = true)
    (fun s q h => (consumers_agree_on_class s q h).1) ts {} hc
    (parseToks_no_error parseSGR (fun s q h => intSgr_ok parseCfg C18.cfgs_nums_ok.1 s q h) ts {} hne)

-- non-vacuity: a string with a complete legacy form after another parameter, an unknown code and an ignored form (evaluated)
example : Good (fun _ => 1) [.sgr [[1], [38], [5], [200]], .text [0x61], .sgr [[6], [38, 2, 1, 2]], .text [0x62]] ∧
    [[[1], [38], [5], [200]], [[6], [38, 2, 1, 2]]].all agreeClass = true :=
  ⟨⟨by intro p hp; simp at hp; rcases hp with h | h | h | h <;> subst h <;> constructor <;> simp,
    ⟨0x61, [], rfl, by decide⟩, rfl,
    by intro p hp; simp at hp; rcases hp with h | h <;> subst h <;> constructor <;> simp,
    ⟨0x62, [], rfl, by decide⟩, rfl, trivial⟩, by decide⟩
example : (match parseStyledB (fun _ => 1) (bytesOfToks [.sgr [[1], [38], [5], [200]], .text [0x61], .sgr [[6], [38, 2, 1, 2]], .text [0x62]]),
      newStyledStringB (fun _ => 1) {} (bytesOfToks [.sgr [[1], [38], [5], [200]], .text [0x61], .sgr [[6], [38, 2, 1, 2]], .text [0x62]]) with
    | .ok a, .ok b => decide (a = b ∧ a.length = 2) | _, _ => false) = true := by decide +kernel

/-! Two more ways of disagreeing that exist only at the byte level (the `[][]int` consumers never see the text):
    8. numerals that are not canonical — `ESC[01;34m`, what `ls --color` writes: bold blue for `ParseStyledString`, only blue for
       `NewStyledString` (its `case "1"` is a string comparison);
    9. empty parameter texts — `ESC[;1m` from a busy pen: reset + bold for `ParseStyledString` (the parser delivers 0 for the
       empty parameter), only bold for `NewStyledString`. -/

/-- `ESC[01;34m a`. -/
def exLsColor : Str := [0x1B, 0x5B, 0x30, 0x31, 0x3B, 0x33, 0x34, 0x6D, 0x61]
/-- `ESC[3m a ESC[;1m b`. -/
def exEmptyParam : Str := [0x1B, 0x5B, 0x33, 0x6D, 0x61, 0x1B, 0x5B, 0x3B, 0x31, 0x6D, 0x62]

theorem disagreement_noncanonical_bytes :
    (match parseStyledB (fun _ => 1) exLsColor, newStyledStringB (fun _ => 1) {} exLsColor with
     | .ok a, .ok b => a.map (·.st.attr) == [2] && b.map (·.st.attr) == [0] && a.map (·.st.fg) == b.map (·.st.fg)
     | _, _ => false) = true ∧
    (match parseStyledB (fun _ => 1) exEmptyParam, newStyledStringB (fun _ => 1) {} exEmptyParam with
     | .ok a, .ok b => a.map (·.st.attr) == [8, 2] && b.map (·.st.attr) == [8, 10]
     | _, _ => false) = true := by decide

/-- The statement "all three consumers agree on every parameter list". -/
def consumers_agree_all_full : Prop :=
  ∀ (s : Style) (q : Seq), parseSGR s q = emuSgr s q ∧ parseSGR s q = ssSeq {} s q

/-- **It is false** (the `parseSGR` / emulator half is `consumers_int_agree_all`): `38;5`. -/
theorem consumers_agree_all_full_fails : ¬ consumers_agree_all_full := by
  intro h
  have h' := (h {} [[38], [5]]).2
  have hd : disagree {} [[38], [5]] = true := by decide
  unfold disagree at hd
  rw [h'] at hd
  revert hd
  cases ssSeq {} {} [[38], [5]] <;> simp

end VaxisModel.Props.C18Agree
