/-
C18 at the byte level: the round-trip and agreement theorems of `Props/C18.lean` as statements about
strings (`List Nat` of code units), composed with C02's parser model (`Props.C02.csi_roundtrip`).

* producers: `encodeCellsB` / `ssEncodeB` / `renderDeltaB` print the *regenerated format strings*
  (`Gen.Sequences.«name» : String`) with `%d`; they are the token-level producers printed canonically
  (`*_bytes_eq`), which also removes the extractor's template parsing from the trusted base: every
  `«name»_t` the token-level model uses is proved to be what its string prints (`Lemmas.SgrBytes.b_*`);
* consumers: `parseStyledB` = C02 automaton + cluster oracle + `parseSGR`; `newStyledStringB` = its own
  `HasPrefix / Cut / Split / Atoi` + exact-string labels;
* hypotheses: well-formed styles (the property's quantifier) and `TextOK cl …` — every grapheme is non-empty,
  starts with a rune ≥ 0x20 and is one grapheme cluster of the text that follows it (A-concat for the
  uniseg oracle `cl`; the harness checks it by running the real functions on the real strings).
-/
import VaxisModel.Lemmas.SgrBytes
import VaxisModel.Props.C18
import VaxisModel.Lemmas.SgrFlowExpected

namespace VaxisModel.Props.C18Bytes
open VaxisModel VaxisModel.Gen VaxisModel.Model.Sgr VaxisModel.Model.SgrBytes VaxisModel.Lemmas.Sgr
open VaxisModel.Lemmas.SgrBytes VaxisModel.Lemmas.ParserParams VaxisModel.Spec
open VaxisModel.Model.Parser (PState run)
open VaxisModel.Model.Color (indexColor rgbColor)

/-! ### Format strings -/

/-- Every string constant of SGR shape is ASCII (so bytes and runes coincide in what the producers write). -/
theorem sgr_strings_ascii :
    (Sequences.strings.filter (fun p => Sequences.sgrTemplates.any (·.1 == p.1))).all
      (fun p => p.2.toList.all (fun c => c.toNat < 128)) = true := by decide

/-- The format strings print the templates: each of the 34 SGR constants the producers use, `WriteString`-ed
    or printed with `%d`, is `ESC [ <canonical printing of its instantiated template> m`. (Representative
    conjunction; all of them are in `Lemmas/SgrBytes.lean`, and the producer equalities below use every one.) -/
theorem format_strings_print_templates :
    bytesOf Sequences.boldDimReset = csiM boldDimResetQ ∧ bytesOf Sequences.sgrReset = csiM sgrResetQ ∧
    (∀ i, i < 8 → sprintf (bytesOf Sequences.fgBrightSet) [i] = csiM (fmt Sequences.fgBrightSet_t [i])) ∧
    (∀ n, sprintf (bytesOf Sequences.ulStyleSet) [n] = csiM (fmt Sequences.ulStyleSet_t [n])) ∧
    (∀ legacy r g b, sprintf (qB legacy (bytesOf SgrCases.encodeCellsFgRGB_s)) [r, g, b] =
      csiM (fmt (q legacy Sequences.fgRGBSet_t) [r, g, b])) ∧
    (∀ legacy n, sprintf (qB (legacy && SgrCases.ssEncodeBgIndexMutable) (bytesOf SgrCases.ssEncodeBgIndex_s)) [n] =
      csiM (fmt (ssT legacy SgrCases.ssEncodeBgIndexMutable SgrCases.ssEncodeBgIndex_t) [n])) :=
  ⟨b_boldDimReset, b_sgrReset, b_fgBrightSet, b_ulStyleSet, b_encodeCellsFgRGB, b_ssBgIndex⟩

/-! ### Producers: bytes = printed tokens -/

/-- What `EncodeCells` / `StyledString.Encode` / `render` write between two cells, byte for byte, is the
    canonical printing of the token-level model's sequences; for all styles, with or without the legacy quirk. -/
theorem delta_bytes_eq (legacy rgb su : Bool) (p n : Style) :
    encodeDeltaB legacy p n = bytesOfSeqs (encodeDelta legacy p n) ∧
    ssDeltaB legacy p n = bytesOfSeqs (ssDelta legacy p n) ∧
    renderDeltaB rgb su legacy p n = bytesOfSeqs (renderDelta rgb su legacy p n) :=
  ⟨encodeDeltaB_eq legacy p n, ssDeltaB_eq legacy p n, renderDeltaB_eq rgb su legacy p n⟩

theorem encodeCells_bytes_eq (legacy : Bool) (cs : List (Cell Str)) :
    encodeCellsB legacy cs = bytesOfToks (encodeCells legacy cs) :=
  encodeFromB_eq _ _ (encodeDeltaB_eq legacy) cs {}

theorem ssEncode_bytes_eq (legacy : Bool) (cs : List (Cell Str)) :
    ssEncodeB legacy cs = bytesOfToks (ssEncode legacy cs) :=
  encodeFromB_eq _ _ (ssDeltaB_eq legacy) cs {}

/-! ### Composition with C02: the parser reads every producible sequence back -/

/-- Everything a producer can write has printable parameters (non-empty, below 2^63). -/
theorem emitted_params_ok (q : Seq) (h : emittableLegacy q = true) : ParamsOk q := paramsOk_of_eml q h

/-- **print ∘ parse = id on the producers' range** (colon sub-parameter forms and legacy semicolon forms):
    from any parser state with no control string pending, the bytes of a producible SGR sequence deliver
    exactly one CSI item with final `m`, no intermediates and exactly that parameter list. -/
theorem sgr_bytes_parse (s : PState) (he : s.exit = none) (q : Seq) (hq : emittableLegacy q = true) :
    run s (csiM q) =
      ({ s with state := .ground, inter := [], params := encParams q, ignoreST := false },
       [.csi [] (q.map (·.map Int.ofNat)) 0x6D]) :=
  run_csiM s he q (paramsOk_of_eml q hq)

/-- `NewStyledString`'s own splitting reads the same parameter list (as canonical numerals) from those bytes. -/
theorem sgr_bytes_split (q : Seq) (hq : emittableLegacy q = true) (hne : q ≠ []) (rest : Str) :
    cutM (encParams q ++ 0x6D :: rest) = (encParams q, rest) ∧
    splitParams (encParams q) = q.map (·.map tokN) :=
  ⟨cutM_append _ _ (encParams_no_m q), splitParams_encParams q (paramsOk_of_eml q hq) hne⟩

/-- **Byte level = token level, for any token sequence** with printable parameter lists and good text:
    `ParseStyledString` and `NewStyledString` on the printed string are the token-level consumers. -/
theorem consumers_bytes_eq (cl : Str → Nat) (dflt : Style) (ts : List (Tok Seq Str)) (hg : Good cl ts) :
    parseStyledB cl (bytesOfToks ts) = parseStyled ts ∧
    newStyledStringB cl dflt (bytesOfToks ts) = ssParse dflt ts :=
  ⟨parseStyledB_toks cl ts hg, newStyledStringB_toks cl dflt ts hg⟩

/-! ### Round trips over strings -/

private theorem ul_of_wf (cs : List (Cell Str)) (hcs : ∀ c ∈ cs, c.st.wf) : ∀ c ∈ cs, c.st.ulStyle ≤ 5 :=
  fun c hc => (hcs c hc).ulStyle

/-- **roundtrip_cells over bytes**: `ParseStyledString(EncodeCells(cells)) = cells`. -/
theorem roundtrip_cells_bytes (cl : Str → Nat) (legacy : Bool) (cs : List (Cell Str)) (hcs : ∀ c ∈ cs, c.st.wf)
    (ht : TextOK cl (encodeCells legacy cs)) :
    parseStyledB cl (encodeCellsB legacy cs) = .ok cs := by
  rw [encodeCells_bytes_eq, parseStyledB_toks cl _ (good_encodeCells cl legacy cs (ul_of_wf cs hcs) ht)]
  exact C18.roundtrip_cells legacy cs hcs

/-- **roundtrip_ss over bytes**: `NewStyledString(ss.Encode(), Style{}).Cells = ss.Cells`. -/
theorem roundtrip_ss_bytes (cl : Str → Nat) (legacy : Bool) (cs : List (Cell Str)) (hcs : ∀ c ∈ cs, c.st.wf)
    (ht : TextOK cl (ssEncode legacy cs)) :
    newStyledStringB cl {} (ssEncodeB legacy cs) = .ok cs := by
  rw [ssEncode_bytes_eq, newStyledStringB_toks cl {} _ (good_ssEncode cl legacy cs (ul_of_wf cs hcs) ht)]
  exact C18.roundtrip_ss legacy cs hcs

/-- **Cross round trips over bytes** (all codecs × both format variants): `NewStyledString` reads back what
    `EncodeCells` wrote — also under `VAXIS_FORCE_LEGACY_SGR`, since the F118 repair — and `ParseStyledString`
    reads back what `StyledString.Encode` wrote. -/
theorem roundtrip_cross_bytes (cl : Str → Nat) (legacy : Bool) (cs : List (Cell Str)) (hcs : ∀ c ∈ cs, c.st.wf) :
    (TextOK cl (encodeCells legacy cs) → newStyledStringB cl {} (encodeCellsB legacy cs) = .ok cs) ∧
    (TextOK cl (ssEncode legacy cs) → parseStyledB cl (ssEncodeB legacy cs) = .ok cs) := by
  constructor
  · intro ht
    rw [encodeCells_bytes_eq, newStyledStringB_toks cl {} _ (good_encodeCells cl legacy cs (ul_of_wf cs hcs) ht)]
    exact C18.roundtrip_cells_via_ss legacy cs hcs
  · intro ht
    rw [ssEncode_bytes_eq, parseStyledB_toks cl _ (good_ssEncode cl legacy cs (ul_of_wf cs hcs) ht)]
    exact (C18.roundtrip_ss_via_cells legacy cs hcs).1

/-- **The parser's items for an encoded string are its token sequence** — so every token-level theorem of `Props/C18.lean`
    (`encoded_shows_*`: a `Spec.sgr` terminal shows each cell's style; `ends_reset_*`; the emulator round trip) is a statement
    about what the C02 parser model delivers for the bytes `EncodeCells` / `StyledString.Encode` write. -/
theorem tokenize_encoded (cl : Str → Nat) (legacy : Bool) (cs : List (Cell Str)) (hcs : ∀ c ∈ cs, c.st.ulStyle ≤ 5) :
    (TextOK cl (encodeCells legacy cs) → tokenize cl (encodeCellsB legacy cs) = (encodeCells legacy cs).map itemOf) ∧
    (TextOK cl (ssEncode legacy cs) → tokenize cl (ssEncodeB legacy cs) = (ssEncode legacy cs).map itemOf) := by
  constructor
  · intro ht; rw [encodeCells_bytes_eq]; exact tokenize_toks cl _ (good_encodeCells cl legacy cs hcs ht)
  · intro ht; rw [ssEncode_bytes_eq]; exact tokenize_toks cl _ (good_ssEncode cl legacy cs hcs ht)

/-- **ends_reset over bytes**: after the whole string `EncodeCells` writes has gone through the parser, the style held by
    `parseSGR` and the pen of the embedded terminal are the zero style. -/
theorem ends_reset_cells_bytes (cl : Str → Nat) (legacy : Bool) (cs : List (Cell Str)) (hcs : ∀ c ∈ cs, c.st.wf)
    (ht : TextOK cl (encodeCells legacy cs)) :
    penOf parseSGR {} (tokenize cl (encodeCellsB legacy cs)) = .ok {} ∧
    penOf emuSgr {} (tokenize cl (encodeCellsB legacy cs)) = .ok {} := by
  rw [(tokenize_encoded cl legacy cs (ul_of_wf cs hcs)).1 ht, penOf_items, penOf_items]
  exact C18.ends_reset_cells legacy cs hcs

/-- The same for `StyledString.Encode`'s string read by the parser-based consumers. -/
theorem ends_reset_ss_bytes (cl : Str → Nat) (legacy : Bool) (cs : List (Cell Str)) (hcs : ∀ c ∈ cs, c.st.wf)
    (ht : TextOK cl (ssEncode legacy cs)) :
    penOf parseSGR {} (tokenize cl (ssEncodeB legacy cs)) = .ok {} ∧
    penOf emuSgr {} (tokenize cl (ssEncodeB legacy cs)) = .ok {} := by
  rw [(tokenize_encoded cl legacy cs (ul_of_wf cs hcs)).2 ht, penOf_items, penOf_items]
  exact ⟨ends_reset_generic parseSGR (ssDelta legacy)
      (fun s n hs hn => delta_roundtrip_ss parseCfg C18.parseCfg_covers C18.parseCfg_legacy legacy s n hs hn)
      (fun s => by rw [← simple_zero s]; exact int_empty parseCfg s C18.parseCfg_covers.zero) cs {} wf_default hcs,
    ends_reset_generic emuSgr (ssDelta legacy)
      (fun s n hs hn => delta_roundtrip_ss emuCfg C18.emuCfg_covers C18.emuCfg_legacy legacy s n hs hn)
      (fun s => by rw [← simple_zero s]; exact int_empty emuCfg s C18.emuCfg_covers.zero) cs {} wf_default hcs⟩

/-- **producers_consumers_agree over bytes**: the string `<any producible SGR sequence><a grapheme>` is read by
    `ParseStyledString` and by `NewStyledString` as the same single cell, whose style shows what `Spec.sgr`
    says the sequence means. -/
theorem producers_consumers_agree_bytes (cl : Str → Nat) (q : Seq) (hq : emittableLegacy q = true)
    (g : Str) (hg : ∃ c g', g = c :: g' ∧ 0x20 ≤ c) (hcl : cl g = g.length) :
    ∃ s', parseStyledB cl (csiM q ++ g) = .ok [⟨g, s'⟩] ∧ newStyledStringB cl {} (csiM q ++ g) = .ok [⟨g, s'⟩] ∧
      shown s' = Spec.sgr TStyle.reset q := by
  have hgood : Good cl [Tok.sgr q, Tok.text g] :=
    ⟨paramsOk_of_eml q hq, hg, by simpa [bytesOfToks] using hcl, trivial⟩
  have hb : bytesOfToks [Tok.sgr q, Tok.text g] = csiM q ++ g := by simp [bytesOfToks, tokBytes]
  obtain ⟨s', h1, _, h3, e⟩ := C18.producers_consumers_agree {} wf_default q hq
  refine ⟨s', ?_, ?_, by rw [e, shown_default]⟩
  · rw [← hb, parseStyledB_toks cl _ hgood]
    simp [parseStyled, parseToks, h1]
  · rw [← hb, newStyledStringB_toks cl {} _ hgood]
    simp [ssParse, ssParseToks, h3]

/-! ### The string-level code the byte-level model transcribes, pinned statement by statement (regenerated every run) -/

open VaxisModel.Lemmas in
/-- `NewStyledString`: the three cases of its loop in this order (CSI, OSC 8, default), the CSI case's statements (`TrimPrefix`,
    `Cut(s, "m")`, the two early exits, `Split(seq, ";")`, the index loop), the OSC 8 case (`Cut(s, ST)`, `Cut(seq, ";")`), the
    clustering call of the default case, and `legacySGRColor` — what `SgrBytes.nssLoop`, `cutM`, `splitParams`, `cutST` and
    `Sgr.ssLegacy` transcribe. -/
theorem facts_new_styled_string :
    SgrCases.nssCases = SgrFlowExpected.nssCases ∧ SgrCases.nssCsi = SgrFlowExpected.nssCsi ∧
    SgrCases.nssOsc8 = SgrFlowExpected.nssOsc8 ∧ SgrCases.nssDefault = SgrFlowExpected.nssDefault ∧
    SgrCases.legacySGRColorBody = SgrFlowExpected.legacySGRColorBody := by decide +kernel

open VaxisModel.Lemmas in
/-- `ParseStyledString`'s loop over the parser's items (`SgrBytes.cellsOf`: Print ⇒ a cell with the current style; CSI with final
    `m`, whatever its intermediates ⇒ `parseSGR`; everything else ignored) and the tails of the two encoders (close an open
    hyperlink, `sgrReset` unless the cursor style is the zero value: `SgrLinks.encodeFromBL`). -/
theorem facts_parse_and_tails :
    SgrCases.parseStyledLoop = SgrFlowExpected.parseStyledLoop ∧
    SgrCases.encodeCellsTail = SgrFlowExpected.encodeCellsTail ∧ SgrCases.ssEncodeTail = SgrFlowExpected.ssEncodeTail := by
  decide +kernel

/-! ### Non-vacuity -/

/-- A cluster oracle for the examples: `b` followed by a combining acute accent is one cluster. -/
def exCl (s : Str) : Nat := match s with | 0x62 :: 0x301 :: _ => 2 | _ => 1

example : TextOK exCl (encodeCells true [⟨[0x61], { attr := 2 }⟩, ⟨[0x62, 0x301], {}⟩]) := by
  have : encodeCells true [⟨[0x61], { attr := 2 }⟩, ⟨[0x62, 0x301], {}⟩]
      = [.sgr [[1]], .text [0x61], .sgr [[22]], .text [0x62, 0x301]] := by decide
  rw [this]
  exact ⟨⟨0x61, [], rfl, by decide⟩, rfl, ⟨0x62, [0x301], rfl, by decide⟩, rfl, trivial⟩

end VaxisModel.Props.C18Bytes
