/-
C18, round 3: **the SGR delta of every producer is read back by every consumer** — nine ∀-theorems
`delta_<producer>_<consumer>`, producer ∈ {encodeCells, ssEncode, render}, consumer ∈ {parseSGR, emuSgr, ssParse}.

For ALL well-formed styles `p n` — hence all 128 × 128 attribute masks over the seven defined bits, all colour
classes (default, 0-7, 8-15, 16-255, RGB) for foreground, background and underline colour, all 6 × 6 underline
styles — with and without the legacy quirk, and for the renderer under every capability setting: folding the
consumer from `p` over the sequences the producer writes for the transition `p → n` does not panic and ends in
exactly `n` (for the renderer: in `capStyle rgb su n`, the style that shows what such a terminal shows for `n`,
starting from `capStyle rgb su p`; with full capabilities that is `n` itself: `delta_render_*_fullcaps`).
No sampling: each is a corollary of `pen_delta_correct_*` (producer ⊑ Spec.sgr), `producers_range_*`,
`consumer_refines_spec_*` (consumer ⊑ Spec.sgr on the range) and `shown` being injective on well-formed styles.
-/
import VaxisModel.Lemmas.SgrDelta
import VaxisModel.Props.C18

namespace VaxisModel.Props.C18Delta
open VaxisModel VaxisModel.Gen VaxisModel.Model.Sgr VaxisModel.Spec VaxisModel.Lemmas.Sgr VaxisModel.Lemmas.SgrDelta
open VaxisModel.Model.Color (indexColor rgbColor)

/-! ### EncodeCells → … -/

theorem delta_encodeCells_parseSGR (legacy : Bool) (p n : Style) (hp : p.wf) (hn : n.wf) :
    foldC parseSGR p (encodeDelta legacy p n) = .ok n :=
  delta_roundtrip parseCfg C18.parseCfg_covers C18.parseCfg_legacy legacy p n hp hn

theorem delta_encodeCells_emuSgr (legacy : Bool) (p n : Style) (hp : p.wf) (hn : n.wf) :
    foldC emuSgr p (encodeDelta legacy p n) = .ok n :=
  delta_roundtrip emuCfg C18.emuCfg_covers C18.emuCfg_legacy legacy p n hp hn

/-- `NewStyledString` (default style = zero style) on what `EncodeCells` writes, legacy semicolon forms included. -/
theorem delta_encodeCells_ssParse (legacy : Bool) (p n : Style) (hp : p.wf) (hn : n.wf) :
    foldC (ssSeq {}) p (encodeDelta legacy p n) = .ok n :=
  ss_delta_roundtrip_cells C18.ssCfg_covers C18.ssCfg_legacy legacy p n hp hn

/-! ### StyledString.Encode → … -/

theorem delta_ssEncode_parseSGR (legacy : Bool) (p n : Style) (hp : p.wf) (hn : n.wf) :
    foldC parseSGR p (ssDelta legacy p n) = .ok n :=
  delta_roundtrip_ss parseCfg C18.parseCfg_covers C18.parseCfg_legacy legacy p n hp hn

theorem delta_ssEncode_emuSgr (legacy : Bool) (p n : Style) (hp : p.wf) (hn : n.wf) :
    foldC emuSgr p (ssDelta legacy p n) = .ok n :=
  delta_roundtrip_ss emuCfg C18.emuCfg_covers C18.emuCfg_legacy legacy p n hp hn

theorem delta_ssEncode_ssParse (legacy : Bool) (p n : Style) (hp : p.wf) (hn : n.wf) :
    foldC (ssSeq {}) p (ssDelta legacy p n) = .ok n :=
  ss_delta_roundtrip C18.ssCfg_covers legacy p n hp hn

/-! ### render → … (every capability setting) -/

private theorem render_shows_cap (rgb su legacy : Bool) (p n : Style) (hn : n.wf) :
    apply (shown (capStyle rgb su p)) (renderDelta rgb su legacy p n) = shown (capStyle rgb su n) := by
  rw [shown_capStyle, shown_capStyle]
  exact renderDelta_correct rgb su legacy p n hn.ulStyle

theorem delta_render_parseSGR (rgb su legacy : Bool) (p n : Style) (hp : p.wf) (hn : n.wf) :
    foldC parseSGR (capStyle rgb su p) (renderDelta rgb su legacy p n) = .ok (capStyle rgb su n) := by
  obtain ⟨s', h, w, e⟩ := fold_refines parseCfg C18.parseCfg_covers C18.parseCfg_legacy _
    (renderDelta_range rgb su legacy p n hn.ulStyle) (capStyle rgb su p) (capStyle_wf rgb su p hp)
  rw [render_shows_cap rgb su legacy p n hn] at e
  have := shown_inj s' _ w (capStyle_wf rgb su n hn) e
  subst this
  exact h

theorem delta_render_emuSgr (rgb su legacy : Bool) (p n : Style) (hp : p.wf) (hn : n.wf) :
    foldC emuSgr (capStyle rgb su p) (renderDelta rgb su legacy p n) = .ok (capStyle rgb su n) := by
  obtain ⟨s', h, w, e⟩ := fold_refines emuCfg C18.emuCfg_covers C18.emuCfg_legacy _
    (renderDelta_range rgb su legacy p n hn.ulStyle) (capStyle rgb su p) (capStyle_wf rgb su p hp)
  rw [render_shows_cap rgb su legacy p n hn] at e
  have := shown_inj s' _ w (capStyle_wf rgb su n hn) e
  subst this
  exact h

theorem delta_render_ssParse (rgb su legacy : Bool) (p n : Style) (hp : p.wf) (hn : n.wf) :
    foldC (ssSeq {}) (capStyle rgb su p) (renderDelta rgb su legacy p n) = .ok (capStyle rgb su n) := by
  obtain ⟨s', h, w, e⟩ := ss_fold_refines_legacy C18.ssCfg_covers C18.ssCfg_legacy _
    (renderDelta_range rgb su legacy p n hn.ulStyle) (capStyle rgb su p) (capStyle_wf rgb su p hp)
  rw [render_shows_cap rgb su legacy p n hn] at e
  have := shown_inj s' _ w (capStyle_wf rgb su n hn) e
  subst this
  exact h

/-- With full capabilities the renderer's delta is read back as exactly the next style by all three consumers. -/
theorem delta_render_fullcaps (legacy : Bool) (p n : Style) (hp : p.wf) (hn : n.wf) :
    foldC parseSGR p (renderDelta true true legacy p n) = .ok n ∧
    foldC emuSgr p (renderDelta true true legacy p n) = .ok n ∧
    foldC (ssSeq {}) p (renderDelta true true legacy p n) = .ok n := by
  have h1 := delta_render_parseSGR true true legacy p n hp hn
  have h2 := delta_render_emuSgr true true legacy p n hp hn
  have h3 := delta_render_ssParse true true legacy p n hp hn
  rw [capStyle_full, capStyle_full] at h1 h2 h3
  exact ⟨h1, h2, h3⟩

/-- What the consumer holds on a limited terminal is well formed and shows exactly what `shownCaps` says
    (the palette fallback is an index colour: `asIndex_wf`, by the shape of C07's model of `Color.asIndex`). -/
theorem capStyle_spec (rgb su : Bool) (s : Style) (hs : s.wf) :
    (capStyle rgb su s).wf ∧ shown (capStyle rgb su s) = shownCaps rgb su s :=
  ⟨capStyle_wf rgb su s hs, shown_capStyle rgb su s⟩

/-- The quantifier covers every attribute mask over the seven bits: each even `a < 256` is the mask of a well-formed style
    (so the nine theorems contain all 128 × 128 attribute pairs). -/
theorem every_mask_wf (a : Nat) (ha : a < 256) (he : a % 2 = 0) (c1 c2 c3 : Nat) (h1 : c1 < 256) (h2 : c2 < 256) (h3 : c3 < 256)
    (u : Nat) (hu : u ≤ 5) :
    Style.wf ⟨indexColor c1, rgbColor c1 c2 c3, indexColor c3, u, a⟩ := by
  refine ⟨Or.inr (Or.inl ⟨c1, h1, rfl⟩), Or.inr (Or.inr ⟨c1, c2, c3, h1, h2, h3, rfl⟩), Or.inr (Or.inl ⟨c3, h3, rfl⟩), hu, ?_⟩
  show a &&& allAttrs = a
  have : allAttrs = 254 := by decide
  rw [this]
  apply Nat.eq_of_testBit_eq
  intro i
  rw [Nat.testBit_and]
  by_cases hi : i = 0
  · subst hi
    have : a.testBit 0 = false := by simp [Nat.testBit_zero, he]
    simp [this]
  · by_cases h8 : i < 8
    · have : (254 : Nat).testBit i = true := by
        have : i = 1 ∨ i = 2 ∨ i = 3 ∨ i = 4 ∨ i = 5 ∨ i = 6 ∨ i = 7 := by omega
        rcases this with rfl | rfl | rfl | rfl | rfl | rfl | rfl <;> decide
      simp [this]
    · have : a.testBit i = false := Nat.testBit_lt_two_pow (Nat.lt_of_lt_of_le ha (by
        calc 256 = 2 ^ 8 := by decide
          _ ≤ 2 ^ i := Nat.pow_le_pow_right (by decide) (by omega)))
      simp [this]

-- a concrete instance, evaluated: bold+dim+red-on-RGB → dim+index 200, through the renderer without rgb, read by the emulator
example : (match foldC emuSgr (capStyle false true ⟨indexColor 1, rgbColor 1 2 3, 0, 0, 6⟩)
      (renderDelta false true true ⟨indexColor 1, rgbColor 1 2 3, 0, 0, 6⟩ ⟨indexColor 200, 0, 0, 3, 4⟩) with
    | .ok s => decide (s = ⟨indexColor 200, 0, 0, 3, 4⟩) | .error _ => false) = true := by decide

end VaxisModel.Props.C18Delta
