/-
C18, round 3: the nine producer × consumer delta statements of `Props/C18Delta.lean` over BYTES.

The bytes a producer writes between two cells (`encodeDeltaB` / `ssDeltaB` / `renderDeltaB`: the regenerated format strings
printed with `%d`) are read
* by C02's parser model (`tokenize`) into items whose SGR sequences, folded by `parseSGR` / the embedded terminal's `sgr`
  from the previous style, end in exactly the next style (`penOf`);
* by `NewStyledString`'s own loop (`nssLoop`, started in the previous style) followed by a grapheme, as one cell with
  exactly the next style.
For all well-formed styles, both format variants, every capability setting of the renderer.
-/
import VaxisModel.Lemmas.SgrBytes
import VaxisModel.Props.C18Delta

namespace VaxisModel.Props.C18DeltaBytes
open VaxisModel VaxisModel.Gen VaxisModel.Model.Sgr VaxisModel.Model.SgrBytes VaxisModel.Lemmas.Sgr
open VaxisModel.Lemmas.SgrBytes VaxisModel.Lemmas.SgrDelta VaxisModel.Lemmas.ParserParams

private theorem good_sgrs (cl : Str → Nat) (rest : List (Tok Seq Str)) (hr : Good cl rest) :
    ∀ (l : List Seq), (∀ q ∈ l, ParamsOk q) → Good cl (l.map Tok.sgr ++ rest)
  | [], _ => hr
  | q :: l, h => ⟨h q (List.mem_cons_self ..), good_sgrs cl rest hr l (fun x hx => h x (List.mem_cons_of_mem _ hx))⟩

/-- The parser-based consumers on the bytes of a list of producible sequences = the fold over the sequences. -/
private theorem pen_bytes (cl : Str → Nat) (f : Style → Seq → Except Panic Style) (l : List Seq)
    (h : ∀ q ∈ l, emittableLegacy q = true) (s : Style) :
    penOf f s (tokenize cl (bytesOfSeqs l)) = foldC f s l := by
  have hg : Good cl (l.map Tok.sgr ++ []) := good_sgrs cl [] trivial l (fun q hq => paramsOk_of_eml q (h q hq))
  rw [List.append_nil] at hg
  rw [← bytesOfToks_sgrs, tokenize_toks cl _ hg, penOf_items]
  have := penAfter_sgrs (γ := Str) f l [] s
  rw [List.append_nil] at this
  rw [this]
  cases foldC f s l <;> rfl

/-- `NewStyledString`'s loop, in style `s`, on the bytes of a list of producible sequences followed by a grapheme. -/
private theorem nss_bytes (cl : Str → Nat) (l : List Seq) (h : ∀ q ∈ l, emittableLegacy q = true) (s n : Style)
    (hf : foldC (ssSeq {}) s l = .ok n) (g : Str) (hg : ∃ c g', g = c :: g' ∧ 0x20 ≤ c) (hcl : cl g = g.length) :
    nssLoop cl {} (bytesOfSeqs l ++ g).length s (bytesOfSeqs l ++ g) = .ok [⟨g, n⟩] := by
  have hgood : Good cl (l.map Tok.sgr ++ [Tok.text g]) :=
    good_sgrs cl [Tok.text g] ⟨hg, by simpa [bytesOfToks] using hcl, trivial⟩ l (fun q hq => paramsOk_of_eml q (h q hq))
  have hb : bytesOfToks (l.map Tok.sgr ++ [Tok.text g]) = bytesOfSeqs l ++ g := by
    rw [bytesOfToks_append, bytesOfToks_sgrs]; simp [bytesOfToks, tokBytes]
  rw [← hb, nss_toks cl {} _ s _ hgood (Nat.le_refl _), ssParseToks_sgrs _ _ _ (by simp), hf]
  simp [ssParseToks]

/-- **EncodeCells' delta over bytes**, read by all three consumers. -/
theorem delta_encodeCells_bytes (cl : Str → Nat) (legacy : Bool) (p n : Style) (hp : p.wf) (hn : n.wf)
    (g : Str) (hg : ∃ c g', g = c :: g' ∧ 0x20 ≤ c) (hcl : cl g = g.length) :
    penOf parseSGR p (tokenize cl (encodeDeltaB legacy p n)) = .ok n ∧
    penOf emuSgr p (tokenize cl (encodeDeltaB legacy p n)) = .ok n ∧
    nssLoop cl {} (encodeDeltaB legacy p n ++ g).length p (encodeDeltaB legacy p n ++ g) = .ok [⟨g, n⟩] := by
  have hr := encodeDelta_range legacy p n hn.ulStyle
  rw [encodeDeltaB_eq, pen_bytes cl _ _ hr, pen_bytes cl _ _ hr]
  exact ⟨C18Delta.delta_encodeCells_parseSGR legacy p n hp hn, C18Delta.delta_encodeCells_emuSgr legacy p n hp hn,
    nss_bytes cl _ hr p n (C18Delta.delta_encodeCells_ssParse legacy p n hp hn) g hg hcl⟩

/-- **StyledString.Encode's delta over bytes**, read by all three consumers. -/
theorem delta_ssEncode_bytes (cl : Str → Nat) (legacy : Bool) (p n : Style) (hp : p.wf) (hn : n.wf)
    (g : Str) (hg : ∃ c g', g = c :: g' ∧ 0x20 ≤ c) (hcl : cl g = g.length) :
    penOf parseSGR p (tokenize cl (ssDeltaB legacy p n)) = .ok n ∧
    penOf emuSgr p (tokenize cl (ssDeltaB legacy p n)) = .ok n ∧
    nssLoop cl {} (ssDeltaB legacy p n ++ g).length p (ssDeltaB legacy p n ++ g) = .ok [⟨g, n⟩] := by
  have hr : ∀ q ∈ ssDelta legacy p n, emittableLegacy q = true :=
    fun q hq => eml_of_em q (ssDelta_range legacy p n hn.ulStyle q hq)
  rw [ssDeltaB_eq, pen_bytes cl _ _ hr, pen_bytes cl _ _ hr]
  exact ⟨C18Delta.delta_ssEncode_parseSGR legacy p n hp hn, C18Delta.delta_ssEncode_emuSgr legacy p n hp hn,
    nss_bytes cl _ hr p n (C18Delta.delta_ssEncode_ssParse legacy p n hp hn) g hg hcl⟩

/-- **render's pen delta over bytes**, every capability setting, read by all three consumers: from the style that shows
    what the terminal shows for `p` to the one for `n` (`capStyle`; the styles themselves with full capabilities). -/
theorem delta_render_bytes (cl : Str → Nat) (rgb su legacy : Bool) (p n : Style) (hp : p.wf) (hn : n.wf)
    (g : Str) (hg : ∃ c g', g = c :: g' ∧ 0x20 ≤ c) (hcl : cl g = g.length) :
    penOf parseSGR (capStyle rgb su p) (tokenize cl (renderDeltaB rgb su legacy p n)) = .ok (capStyle rgb su n) ∧
    penOf emuSgr (capStyle rgb su p) (tokenize cl (renderDeltaB rgb su legacy p n)) = .ok (capStyle rgb su n) ∧
    nssLoop cl {} (renderDeltaB rgb su legacy p n ++ g).length (capStyle rgb su p) (renderDeltaB rgb su legacy p n ++ g)
      = .ok [⟨g, capStyle rgb su n⟩] := by
  have hr := renderDelta_range rgb su legacy p n hn.ulStyle
  rw [renderDeltaB_eq, pen_bytes cl _ _ hr, pen_bytes cl _ _ hr]
  exact ⟨C18Delta.delta_render_parseSGR rgb su legacy p n hp hn, C18Delta.delta_render_emuSgr rgb su legacy p n hp hn,
    nss_bytes cl _ hr _ _ (C18Delta.delta_render_ssParse rgb su legacy p n hp hn) g hg hcl⟩

end VaxisModel.Props.C18DeltaBytes
