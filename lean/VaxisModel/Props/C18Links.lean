/-
C18 with hyperlinks (`Model/SgrLinks.lean`): cells may carry `Hyperlink` / `HyperlinkParams`; the encoders then write
OSC 8 sequences between the SGR sequences and the graphemes.  The property text lists graphemes, colours, attributes,
underline style and underline colour — these come back unchanged in the presence of any hyperlinks, through both codecs,
over strings.  (That `NewStyledString` also restores the link itself — since the `fix:` for F119 — is outside the model's
`Style`; it is checked on the real code by the `rtl` oracle.)
-/
import VaxisModel.Lemmas.SgrLinks
import VaxisModel.Props.C18Bytes

namespace VaxisModel.Props.C18Links
open VaxisModel VaxisModel.Gen VaxisModel.Model.Sgr VaxisModel.Model.SgrBytes VaxisModel.Model.SgrLinks
open VaxisModel.Lemmas.Sgr VaxisModel.Lemmas.SgrBytes VaxisModel.Lemmas.SgrLinks VaxisModel.Lemmas.ParserParams

/-- The OSC 8 format string prints `ESC ] 8 ; params ; url ESC \` (the regenerated `Gen.Sequences.osc8`). -/
theorem osc8_format (l : Link) : osc8Bytes l = 0x1B :: 0x5D :: (osc8Payload l ++ [0x1B, 0x5C]) := osc8Bytes_eq l

/-- Byte-level encoders with hyperlinks = the token-level ones, printed. -/
theorem encode_links_bytes_eq (legacy : Bool) (cs : List LCell) :
    encodeCellsBL legacy cs = bytesOfLToks (encodeFromL (encodeDelta legacy) {} {} cs) ∧
    ssEncodeBL legacy cs = bytesOfLToks (encodeFromL (ssDelta legacy) {} {} cs) :=
  ⟨encodeFromBL_eq _ _ (encodeDeltaB_eq legacy) cs {} {}, encodeFromBL_eq _ _ (ssDeltaB_eq legacy) cs {} {}⟩

/-- The parser model reads an OSC 8 hyperlink as one OSC item (composition with `C02.osc_roundtrip_st`) and the string
    parsers skip it: byte level = token level with the links dropped (`ParseStyledString`) / passed over (`NewStyledString`). -/
theorem consumers_links_bytes_eq (cl : Str → Nat) (dflt : Style) (ts : List LTok) (hg : GoodL cl ts) :
    parseStyledB cl (bytesOfLToks ts) = parseStyled (dropLinks ts) ∧
    newStyledStringB cl dflt (bytesOfLToks ts) = ssParseLToks (ssSeq dflt) dflt ts :=
  ⟨parseStyledB_ltoks cl ts hg, newStyledStringB_ltoks cl dflt ts hg⟩

private theorem ul_of_wf (cs : List LCell) (hcs : ∀ c ∈ cs, c.cell.st.wf) : ∀ c ∈ cs, c.cell.st.ulStyle ≤ 5 :=
  fun c hc => (hcs c hc).ulStyle

/-- **Round trip with hyperlinks, EncodeCells / ParseStyledString, over bytes**: graphemes, colours, attributes,
    underline style and colour of every cell come back, whatever hyperlinks the cells carry (URLs and parameters
    without control characters), with or without the legacy quirk. -/
theorem roundtrip_cells_links_bytes (cl : Str → Nat) (legacy : Bool) (cs : List LCell) (hcs : ∀ c ∈ cs, c.cell.st.wf)
    (hl : CellLinksOK cs) (ht : TextOKL cl (encodeFromL (encodeDelta legacy) {} {} cs)) :
    parseStyledB cl (encodeCellsBL legacy cs) = .ok (cs.map (·.cell)) := by
  obtain ⟨h1, h2⟩ := encodeFromL_mem (encodeDelta legacy) ParamsOk (by rw [sgrResetQ_eq]; intro p hp; simp at hp)
    (fun p n hn q hq => paramsOk_of_eml q (encodeDelta_range legacy p n hn q hq)) cs {} {} (ul_of_wf cs hcs) hl
  rw [(encode_links_bytes_eq legacy cs).1, parseStyledB_ltoks cl _ (goodL_of cl _ ht h1 h2)]
  exact roundtrip_generic_L parseSGR (encodeDelta legacy)
    (fun s n hs hn => delta_roundtrip parseCfg C18.parseCfg_covers C18.parseCfg_legacy legacy s n hs hn)
    (fun s => ⟨_, int_empty parseCfg s C18.parseCfg_covers.zero⟩) cs {} {} wf_default hcs

/-- **Round trip with hyperlinks, StyledString.Encode / NewStyledString, over bytes.** -/
theorem roundtrip_ss_links_bytes (cl : Str → Nat) (legacy : Bool) (cs : List LCell) (hcs : ∀ c ∈ cs, c.cell.st.wf)
    (hl : CellLinksOK cs) (ht : TextOKL cl (encodeFromL (ssDelta legacy) {} {} cs)) :
    newStyledStringB cl {} (ssEncodeBL legacy cs) = .ok (cs.map (·.cell)) := by
  obtain ⟨h1, h2⟩ := encodeFromL_mem (ssDelta legacy) ParamsOk (by rw [sgrResetQ_eq]; intro p hp; simp at hp)
    (fun p n hn q hq => paramsOk_of_eml q (eml_of_em q (ssDelta_range legacy p n hn q hq))) cs {} {} (ul_of_wf cs hcs) hl
  rw [(encode_links_bytes_eq legacy cs).2, newStyledStringB_ltoks cl {} _ (goodL_of cl _ ht h1 h2)]
  exact ss_roundtrip_generic_L (ssSeq {}) (ssDelta legacy)
    (fun s n hs hn => ss_delta_roundtrip C18.ssCfg_covers legacy s n hs hn) cs {} {} wf_default hcs

/-- **ends_reset for hyperlinks** (since the `fix:` for F121): after the whole encoded string no hyperlink is open,
    whatever links the cells carry — the last OSC 8 written, if any, is the closing `ESC ] 8 ; ; ESC \`. -/
theorem ends_link_closed (legacy : Bool) (cs : List LCell) :
    linkOpen false (encodeFromL (encodeDelta legacy) {} {} cs) = false ∧
    linkOpen false (encodeFromL (ssDelta legacy) {} {} cs) = false :=
  ⟨linkOpen_encodeFromL (encodeDelta legacy) cs {} {}, linkOpen_encodeFromL (ssDelta legacy) cs {} {}⟩

/-- Without hyperlinks the encoders with links are the encoders of `Props/C18Bytes.lean`. -/
theorem no_links_same (delta : Style → Style → Str) (cs : List (Cell Str)) :
    ∀ s, encodeFromBL delta s {} (cs.map (fun c => ⟨c, {}⟩)) = encodeFromB delta s cs := by
  induction cs with
  | nil => intro s; simp [encodeFromBL, encodeFromB]
  | cons c cs ih => intro s; simp [encodeFromBL, encodeFromB, ih]

end VaxisModel.Props.C18Links
