/-
C18 with hyperlinks (`Model/SgrLinks.lean`): cells may carry `Hyperlink` / `HyperlinkParams`; the encoders then write
OSC 8 sequences between the SGR sequences and the graphemes.  The property text lists graphemes, colours, attributes,
underline style and underline colour — these come back unchanged in the presence of any hyperlinks, through both codecs,
over strings.  (That `NewStyledString` also restores the link itself — since the `fix:` for F119 — is outside the model's
`Style`; it is checked on the real code by the `rtl` oracle.)
-/
import VaxisModel.Lemmas.SgrLinks
import VaxisModel.Lemmas.SgrLinksFull
import VaxisModel.Props.C18Bytes

namespace VaxisModel.Props.C18Links
open VaxisModel VaxisModel.Gen VaxisModel.Model.Sgr VaxisModel.Model.SgrBytes VaxisModel.Model.SgrLinks
open VaxisModel.Lemmas.Sgr VaxisModel.Lemmas.SgrBytes VaxisModel.Lemmas.SgrLinks VaxisModel.Lemmas.ParserParams
open VaxisModel.Lemmas.SgrLinksFull

/-- The OSC 8 format string prints `ESC ] 8 ; params ; url ESC \` (the regenerated `Gen.Sequences.osc8`). -/
theorem osc8_format (l : Link) : osc8Bytes l = 0x1B :: 0x5D :: (osc8Payload l ++ [0x1B, 0x5C]) := osc8Bytes_eq l

/-- Byte-level encoders with hyperlinks = the token-level ones, printed. -/
theorem encode_links_bytes_eq (legacy : Bool) (cs : List LCell) :
    encodeCellsBL legacy cs = bytesOfLToks (encodeFromL (encodeDelta legacy) {} {} cs) ∧
    ssEncodeBL legacy cs = bytesOfLToks (encodeFromL (ssDelta legacy) {} {} cs) :=
  ⟨encodeFromBL_eq _ _ (encodeDeltaB_eq legacy) cs {} {}, encodeFromBL_eq _ _ (ssDeltaB_eq legacy) cs {} {}⟩

/-- The parser model reads an OSC 8 hyperlink as one OSC item (composition with `C02.osc_roundtrip_st`) and the string
    parsers skip it: byte level = token level with the links dropped (`ParseStyledString`) / passed over (`NewStyledString`). -/
theorem consumers_links_bytes_eq (cl : Str → Nat) (dflt : Style) (ts : List LTok) (hg : GoodL cl ts) :
    parseStyledB cl (bytesOfLToks ts) = parseStyled (dropLinks ts) ∧
    newStyledStringB cl dflt (bytesOfLToks ts) = ssParseLToks (ssSeq dflt) dflt ts :=
  ⟨parseStyledB_ltoks cl ts hg, newStyledStringB_ltoks cl dflt ts hg⟩

private theorem ul_of_wf (cs : List LCell) (hcs : ∀ c ∈ cs, c.cell.st.wf) : ∀ c ∈ cs, c.cell.st.ulStyle ≤ 5 :=
  fun c hc => (hcs c hc).ulStyle

/-- **Round trip with hyperlinks, EncodeCells / ParseStyledString, over bytes**: graphemes, colours, attributes,
    underline style and colour of every cell come back, whatever hyperlinks the cells carry (URLs and parameters
    without control characters), with or without the legacy quirk. -/
theorem roundtrip_cells_links_bytes (cl : Str → Nat) (legacy : Bool) (cs : List LCell) (hcs : ∀ c ∈ cs, c.cell.st.wf)
    (hl : CellLinksOK cs) (ht : TextOKL cl (encodeFromL (encodeDelta legacy) {} {} cs)) :
    parseStyledB cl (encodeCellsBL legacy cs) = .ok (cs.map (·.cell)) := by
  obtain ⟨h1, h2⟩ := encodeFromL_mem (encodeDelta legacy) ParamsOk (by rw [sgrResetQ_eq]; intro p hp; simp at hp)
    (fun p n hn q hq => paramsOk_of_eml q (encodeDelta_range legacy p n hn q hq)) cs {} {} (ul_of_wf cs hcs) hl
  rw [(encode_links_bytes_eq legacy cs).1, parseStyledB_ltoks cl _ (goodL_of cl _ ht h1 h2)]
  exact roundtrip_generic_L parseSGR (encodeDelta legacy)
    (fun s n hs hn => delta_roundtrip parseCfg C18.parseCfg_covers C18.parseCfg_legacy legacy s n hs hn)
    (fun s => ⟨_, int_empty parseCfg s C18.parseCfg_covers.zero⟩) cs {} {} wf_default hcs

/-- **Round trip with hyperlinks, StyledString.Encode / NewStyledString, over bytes.** -/
theorem roundtrip_ss_links_bytes (cl : Str → Nat) (legacy : Bool) (cs : List LCell) (hcs : ∀ c ∈ cs, c.cell.st.wf)
    (hl : CellLinksOK cs) (ht : TextOKL cl (encodeFromL (ssDelta legacy) {} {} cs)) :
    newStyledStringB cl {} (ssEncodeBL legacy cs) = .ok (cs.map (·.cell)) := by
  obtain ⟨h1, h2⟩ := encodeFromL_mem (ssDelta legacy) ParamsOk (by rw [sgrResetQ_eq]; intro p hp; simp at hp)
    (fun p n hn q hq => paramsOk_of_eml q (eml_of_em q (ssDelta_range legacy p n hn q hq))) cs {} {} (ul_of_wf cs hcs) hl
  rw [(encode_links_bytes_eq legacy cs).2, newStyledStringB_ltoks cl {} _ (goodL_of cl _ ht h1 h2)]
  exact ss_roundtrip_generic_L (ssSeq {}) (ssDelta legacy)
    (fun s n hs hn => ss_delta_roundtrip C18.ssCfg_covers legacy s n hs hn) cs {} {} wf_default hcs

/-- **ends_reset for hyperlinks** (since the `fix:` for F121): after the whole encoded string no hyperlink is open,
    whatever links the cells carry — the last OSC 8 written, if any, is the closing `ESC ] 8 ; ; ESC \`. -/
theorem ends_link_closed (legacy : Bool) (cs : List LCell) :
    linkOpen false (encodeFromL (encodeDelta legacy) {} {} cs) = false ∧
    linkOpen false (encodeFromL (ssDelta legacy) {} {} cs) = false :=
  ⟨linkOpen_encodeFromL (encodeDelta legacy) cs {} {}, linkOpen_encodeFromL (ssDelta legacy) cs {} {}⟩

/-- Without hyperlinks the encoders with links are the encoders of `Props/C18Bytes.lean`. -/
theorem no_links_same (delta : Style → Style → Str) (cs : List (Cell Str)) :
    ∀ s, encodeFromBL delta s {} (cs.map (fun c => ⟨c, {}⟩)) = encodeFromB delta s cs := by
  induction cs with
  | nil => intro s; simp [encodeFromBL, encodeFromB]
  | cons c cs ih => intro s; simp [encodeFromBL, encodeFromB, ih]

/-! ### Round 3: `NewStyledString` restores the hyperlinks themselves (since the `fix:` for F119)

`newStyledStringBL` (`Model/SgrLinks.lean`) is `NewStyledString` with the hyperlink fields: the OSC 8 case reads
`params;url` with `Cut(seq, ";")`, `ESC [ m` and `case "0"` restore the default's link.  `Encode` re-sends OSC 8 only
when the URL differs from the previous cell's and sends no parameters for the empty URL, so the cells' links can only
come back under `LinksRestorable {} cs`: parameters without `;`, none for the empty URL, and equal parameters for
neighbouring cells with equal URLs.  Without that restriction the statement is false (`…_unrestricted_fails`). -/

/-- **Round trip with hyperlinks at full strength, StyledString.Encode / NewStyledString, over bytes**: graphemes,
    colours, attributes, underline style and colour **and URL and parameters** of every cell come back. -/
theorem roundtrip_ss_links_full_bytes (cl : Str → Nat) (legacy : Bool) (cs : List LCell) (hcs : ∀ c ∈ cs, c.cell.st.wf)
    (hl : CellLinksOK cs) (hr : LinksRestorable {} cs) (ht : TextOKL cl (encodeFromL (ssDelta legacy) {} {} cs)) :
    newStyledStringBL cl {} {} (ssEncodeBL legacy cs) = .ok cs := by
  obtain ⟨h1, h2⟩ := encodeFromL_mem (ssDelta legacy) ParamsOk (by rw [sgrResetQ_eq]; intro p hp; simp at hp)
    (fun p n hn q hq => paramsOk_of_eml q (eml_of_em q (ssDelta_range legacy p n hn q hq))) cs {} {} (ul_of_wf cs hcs) hl
  rw [(encode_links_bytes_eq legacy cs).2, newStyledStringBL_ltoks cl {} {} _ (goodL_of cl _ ht h1 h2)]
  exact ss_roundtrip_links_full (ssSeqL {} {}) (ssDelta legacy)
    (fun s n l hs hn => ss_delta_roundtrip_L C18.ssCfg_covers legacy s n l hs hn) cs {} {} wf_default hcs hr

/-- **The cross direction with hyperlinks**: `NewStyledString` reads back what `EncodeCells` wrote — URL and parameters included,
    colon forms and (under `VAXIS_FORCE_LEGACY_SGR`) legacy semicolon forms, where a `0` that is a colour index (`38;5;0`) is
    passed over by the `i += n` look-ahead and does not reset the hyperlink. -/
theorem roundtrip_cells_links_via_ss_full_bytes (cl : Str → Nat) (legacy : Bool) (cs : List LCell) (hcs : ∀ c ∈ cs, c.cell.st.wf)
    (hl : CellLinksOK cs) (hr : LinksRestorable {} cs) (ht : TextOKL cl (encodeFromL (encodeDelta legacy) {} {} cs)) :
    newStyledStringBL cl {} {} (encodeCellsBL legacy cs) = .ok cs := by
  obtain ⟨h1, h2⟩ := encodeFromL_mem (encodeDelta legacy) ParamsOk (by rw [sgrResetQ_eq]; intro p hp; simp at hp)
    (fun p n hn q hq => paramsOk_of_eml q (encodeDelta_range legacy p n hn q hq)) cs {} {} (ul_of_wf cs hcs) hl
  rw [(encode_links_bytes_eq legacy cs).1, newStyledStringBL_ltoks cl {} {} _ (goodL_of cl _ ht h1 h2)]
  exact ss_roundtrip_links_full (ssSeqL {} {}) (encodeDelta legacy)
    (fun s n l hs hn => ss_delta_roundtrip_cells_L legacy s n l hs hn) cs {} {} wf_default hcs hr

/-- The restriction is decidable; `restorableB` is what the driver's `rtl` oracle evaluates before it judges the links. -/
theorem links_restorable_decidable (cs : List LCell) (l : Link) : restorableB l cs = true ↔ LinksRestorable l cs :=
  restorableB_iff cs l


-- a `0` inside a legacy colour form does not reset the link, a `0` parameter does (evaluated)
example : (match newStyledStringBL (fun _ => 1) {} {} ([0x1B, 0x5D, 0x38, 0x3B, 0x3B, 0x75, 0x1B, 0x5C] ++ [0x61] ++
      [0x1B, 0x5B, 0x33, 0x38, 0x3B, 0x35, 0x3B, 0x30, 0x6D] ++ [0x62] ++ [0x1B, 0x5B, 0x31, 0x3B, 0x30, 0x6D] ++ [0x63]) with
    | .ok r => r.map (·.link.url) | .error _ => []) = [[0x75], [0x75], []] := by decide

/-- The restriction in the form the generator uses: the parameters are a function of the URL (nothing for the empty
    URL) and contain no `;`. -/
theorem links_restorable_of_fn (pf : Str → Str) (h0 : pf [] = []) (hsemi : ∀ u, ∀ b ∈ pf u, b ≠ 0x3B) :
    ∀ (cs : List LCell) (l : Link), (∀ c ∈ cs, c.link.params = pf c.link.url) → l.params = pf l.url →
      LinksRestorable l cs := by
  intro cs
  induction cs with
  | nil => intro _ _ _; trivial
  | cons c cs ih =>
    intro l hc hl
    have h := hc c (List.mem_cons_self ..)
    refine ⟨⟨?_, ?_⟩, ?_, ih c.link (fun d hd => hc d (List.mem_cons_of_mem _ hd)) h⟩
    · rw [h]; exact hsemi _
    · intro hu; rw [h, hu, h0]
    · intro hu; rw [h, hl, hu]

/-- The link-free model is the projection of the model with links: same graphemes and styles, whatever the string. -/
theorem newStyledStringBL_cells (cl : Str → Nat) (dflt : Style) (dl : Link) (s : Str) :
    (match newStyledStringBL cl dflt dl s with | .ok cs => Except.ok (cs.map (·.cell)) | .error e => .error e)
      = newStyledStringB cl dflt s := nssLoopL_cells cl dflt dl _ _ _ _

/-- The unrestricted statement (no `LinksRestorable`). -/
def roundtrip_ss_links_unrestricted : Prop :=
  ∀ (cl : Str → Nat) (legacy : Bool) (cs : List LCell), (∀ c ∈ cs, c.cell.st.wf) → CellLinksOK cs →
    (∀ c ∈ cs, ∀ b ∈ c.link.params, b ≠ 0x3B) → TextOKL cl (encodeFromL (ssDelta legacy) {} {} cs) →
    newStyledStringBL cl {} {} (ssEncodeBL legacy cs) = .ok cs

/-- Witness: two neighbouring cells with the same URL `x` and parameters `p` / `q`. -/
def exChangedParams : List LCell := [⟨⟨[0x61], {}⟩, ⟨[0x78], [0x70]⟩⟩, ⟨⟨[0x62], {}⟩, ⟨[0x78], [0x71]⟩⟩]

/-- **It is false without the restriction**: `Encode` does not re-send OSC 8 when only the parameters change, so the
    second cell comes back with the first cell's parameters (the observation of `notes/C18.md`, as a theorem). -/
theorem roundtrip_ss_links_unrestricted_fails : ¬ roundtrip_ss_links_unrestricted := by
  intro h
  have h' := h (fun _ => 1) false exChangedParams
    (by intro c hc; simp [exChangedParams] at hc; rcases hc with rfl | rfl <;> exact wf_default)
    (by intro c hc; simp [exChangedParams] at hc; rcases hc with rfl | rfl <;> simp)
    (by intro c hc; simp [exChangedParams] at hc; rcases hc with rfl | rfl <;> simp)
    (by
      have : encodeFromL (ssDelta false) {} {} exChangedParams =
          [.link [0x38, 0x3B, 0x70, 0x3B, 0x78], .tok (.text [0x61]), .tok (.text [0x62]),
           .link [0x38, 0x3B, 0x3B], .tok (.sgr [])] := by decide
      rw [this]
      exact ⟨⟨0x61, [], rfl, by decide⟩, rfl, ⟨0x62, [], rfl, by decide⟩, rfl, trivial⟩)
  have hobs : (match newStyledStringBL (fun _ => 1) {} {} (ssEncodeBL false exChangedParams) with
      | .ok r => r.map (·.link.params) | .error _ => []) = [[0x70], [0x70]] := by decide
  rw [h'] at hobs
  revert hobs
  decide

/-! Non-vacuity: links with parameters, a URL containing `;`, a change of URL, a return to no link -/

def exLinked : List LCell :=
  [⟨⟨[0x61], { attr := 2 }⟩, ⟨[0x68, 0x3B, 0x78], [0x69, 0x64, 0x3D, 0x37]⟩⟩,
   ⟨⟨[0x62], { attr := 2 }⟩, ⟨[0x68, 0x3B, 0x78], [0x69, 0x64, 0x3D, 0x37]⟩⟩,
   ⟨⟨[0x63], {}⟩, ⟨[0x79], []⟩⟩, ⟨⟨[0x64], {}⟩, {}⟩]

example : LinksRestorable {} exLinked := by
  refine ⟨⟨?_, ?_⟩, ?_, ⟨?_, ?_⟩, ?_, ⟨?_, ?_⟩, ?_, ⟨?_, ?_⟩, ?_, trivial⟩ <;> simp [exLinked]

example : (match newStyledStringBL (fun _ => 1) {} {} (ssEncodeBL false exLinked) with
    | .ok r => decide (r = exLinked) | .error _ => false) = true := by decide

example : restorableB {} exLinked = true ∧ restorableB {} exChangedParams = false := by decide

end VaxisModel.Props.C18Links
