/-
C18 with hyperlinks, the exact condition: `NewStyledString(ss.Encode(cs)).Cells = cs` — graphemes, styles, hyperlink URL and
hyperlink parameters — holds EXACTLY when `LinksRestorable {} cs` (`Lemmas/SgrLinksFull.lean`; as the driver evaluates
it: `restorableB {} cs`): every cell's parameters are free of `;`, a cell with the empty URL has no parameters, and a cell
with the same URL as its predecessor has the predecessor's parameters.  Sufficiency is `Props/C18Links.lean`
(`roundtrip_ss_links_full_bytes`, `roundtrip_cells_links_via_ss_full_bytes`); here necessity, for every cell list, under
the standing hypotheses only (well-formed styles, URLs / parameters / graphemes without control characters).  No refinement
of `LinksRestorable` is needed: the cursor starts with the link `{}`, which is transmittable, and then every cell's link
is either re-sent (URL changed: it must survive `params;url` → `Cut(seq, ";")`) or not (URL unchanged: the parser keeps
the predecessor's link, which must therefore BE the cell's link).
-/
import VaxisModel.Props.C18Links
import VaxisModel.Lemmas.SgrLinksIff

namespace VaxisModel.Props.C18LinksIff
open VaxisModel VaxisModel.Gen VaxisModel.Model.Sgr VaxisModel.Model.SgrBytes VaxisModel.Model.SgrLinks
open VaxisModel.Lemmas.Sgr VaxisModel.Lemmas.SgrBytes VaxisModel.Lemmas.SgrLinks VaxisModel.Lemmas.ParserParams
open VaxisModel.Lemmas.SgrLinksFull VaxisModel.Lemmas.SgrLinksIff VaxisModel.Props.C18Links

/-- **One OSC 8, exactly**: `Cut(payload, ";")` on what `tparm(osc8, linkPs, link)` printed gives the link back if and
    only if the link is transmittable (parameters without `;`, none for the empty URL). -/
theorem osc8_reads_back_iff (l : Link) : linkOfSeq ((osc8Payload l).drop 2) = l ↔ LinkCanon l :=
  linkCanon_iff_payload l

/-- What comes back instead: parameters under the empty URL are dropped … -/
theorem osc8_empty_url_drops_params (l : Link) (hu : l.url = []) : linkOfSeq ((osc8Payload l).drop 2) = {} :=
  linkOfSeq_payload_empty_url l hu

/-- … and parameters containing `;` come back cut at the first `;` (the remainder is read as part of the URL). -/
theorem osc8_semicolon_cuts_params (l : Link) (hu : l.url ≠ []) (hs : 0x3B ∈ l.params) :
    (linkOfSeq ((osc8Payload l).drop 2)).params.length < l.params.length :=
  linkOfSeq_payload_semicolon l hu hs

private theorem ul_of_wf (cs : List LCell) (hcs : ∀ c ∈ cs, c.cell.st.wf) : ∀ c ∈ cs, c.cell.st.ulStyle ≤ 5 :=
  fun c hc => (hcs c hc).ulStyle

/-- **Necessity, StyledString.Encode / NewStyledString, over bytes**: a cell list that comes back unchanged — hyperlink
    URL and parameters included — is `LinksRestorable`. -/
theorem roundtrip_ss_links_needs_restorable (cl : Str → Nat) (legacy : Bool) (cs : List LCell) (hcs : ∀ c ∈ cs, c.cell.st.wf)
    (hl : CellLinksOK cs) (ht : TextOKL cl (encodeFromL (ssDelta legacy) {} {} cs))
    (h : newStyledStringBL cl {} {} (ssEncodeBL legacy cs) = .ok cs) : LinksRestorable {} cs := by
  obtain ⟨h1, h2⟩ := encodeFromL_mem (ssDelta legacy) ParamsOk (by rw [sgrResetQ_eq]; intro p hp; simp at hp)
    (fun p n hn q hq => paramsOk_of_eml q (eml_of_em q (ssDelta_range legacy p n hn q hq))) cs {} {} (ul_of_wf cs hcs) hl
  rw [(encode_links_bytes_eq legacy cs).2, newStyledStringBL_ltoks cl {} {} _ (goodL_of cl _ ht h1 h2)] at h
  exact ss_roundtrip_links_needs (ssSeqL {} {}) (ssDelta legacy)
    (fun s n l hs hn => ss_delta_roundtrip_L C18.ssCfg_covers legacy s n l hs hn) cs {} {} wf_default hcs linkCanon_default h

/-- **Necessity, the cross direction** (`EncodeCells` / `NewStyledString`, colon and legacy forms). -/
theorem roundtrip_cells_links_via_ss_needs_restorable (cl : Str → Nat) (legacy : Bool) (cs : List LCell)
    (hcs : ∀ c ∈ cs, c.cell.st.wf) (hl : CellLinksOK cs) (ht : TextOKL cl (encodeFromL (encodeDelta legacy) {} {} cs))
    (h : newStyledStringBL cl {} {} (encodeCellsBL legacy cs) = .ok cs) : LinksRestorable {} cs := by
  obtain ⟨h1, h2⟩ := encodeFromL_mem (encodeDelta legacy) ParamsOk (by rw [sgrResetQ_eq]; intro p hp; simp at hp)
    (fun p n hn q hq => paramsOk_of_eml q (encodeDelta_range legacy p n hn q hq)) cs {} {} (ul_of_wf cs hcs) hl
  rw [(encode_links_bytes_eq legacy cs).1, newStyledStringBL_ltoks cl {} {} _ (goodL_of cl _ ht h1 h2)] at h
  exact ss_roundtrip_links_needs (ssSeqL {} {}) (encodeDelta legacy)
    (fun s n l hs hn => ss_delta_roundtrip_cells_L legacy s n l hs hn) cs {} {} wf_default hcs linkCanon_default h

/-- **The exact condition, StyledString.Encode / NewStyledString, over bytes**: the cells come back — graphemes, colours,
    attributes, underline style and colour, hyperlink URL and hyperlink parameters — if and only if `LinksRestorable {} cs`. -/
theorem roundtrip_ss_links_iff (cl : Str → Nat) (legacy : Bool) (cs : List LCell) (hcs : ∀ c ∈ cs, c.cell.st.wf)
    (hl : CellLinksOK cs) (ht : TextOKL cl (encodeFromL (ssDelta legacy) {} {} cs)) :
    newStyledStringBL cl {} {} (ssEncodeBL legacy cs) = .ok cs ↔ LinksRestorable {} cs :=
  ⟨roundtrip_ss_links_needs_restorable cl legacy cs hcs hl ht,
   fun hr => roundtrip_ss_links_full_bytes cl legacy cs hcs hl hr ht⟩

/-- **The exact condition, the cross direction** (`NewStyledString` on what `EncodeCells` wrote). -/
theorem roundtrip_cells_links_via_ss_iff (cl : Str → Nat) (legacy : Bool) (cs : List LCell) (hcs : ∀ c ∈ cs, c.cell.st.wf)
    (hl : CellLinksOK cs) (ht : TextOKL cl (encodeFromL (encodeDelta legacy) {} {} cs)) :
    newStyledStringBL cl {} {} (encodeCellsBL legacy cs) = .ok cs ↔ LinksRestorable {} cs :=
  ⟨roundtrip_cells_links_via_ss_needs_restorable cl legacy cs hcs hl ht,
   fun hr => roundtrip_cells_links_via_ss_full_bytes cl legacy cs hcs hl hr ht⟩

/-- The same with the driver's decision procedure: the `rtl` oracle's precondition `restorableB {} cs` is not merely
    sufficient, it is the weakest possible. -/
theorem roundtrip_ss_links_iff_restorableB (cl : Str → Nat) (legacy : Bool) (cs : List LCell) (hcs : ∀ c ∈ cs, c.cell.st.wf)
    (hl : CellLinksOK cs) (ht : TextOKL cl (encodeFromL (ssDelta legacy) {} {} cs)) :
    newStyledStringBL cl {} {} (ssEncodeBL legacy cs) = .ok cs ↔ restorableB {} cs = true :=
  (roundtrip_ss_links_iff cl legacy cs hcs hl ht).trans (links_restorable_decidable cs {}).symm

theorem roundtrip_cells_links_via_ss_iff_restorableB (cl : Str → Nat) (legacy : Bool) (cs : List LCell)
    (hcs : ∀ c ∈ cs, c.cell.st.wf) (hl : CellLinksOK cs) (ht : TextOKL cl (encodeFromL (encodeDelta legacy) {} {} cs)) :
    newStyledStringBL cl {} {} (encodeCellsBL legacy cs) = .ok cs ↔ restorableB {} cs = true :=
  (roundtrip_cells_links_via_ss_iff cl legacy cs hcs hl ht).trans (links_restorable_decidable cs {}).symm

/-- Both codecs' outputs are read back by `NewStyledString` under exactly the same condition. -/
theorem roundtrip_ss_iff_cells_via_ss (cl : Str → Nat) (legacy legacy' : Bool) (cs : List LCell) (hcs : ∀ c ∈ cs, c.cell.st.wf)
    (hl : CellLinksOK cs) (ht : TextOKL cl (encodeFromL (ssDelta legacy) {} {} cs))
    (ht' : TextOKL cl (encodeFromL (encodeDelta legacy') {} {} cs)) :
    newStyledStringBL cl {} {} (ssEncodeBL legacy cs) = .ok cs ↔ newStyledStringBL cl {} {} (encodeCellsBL legacy' cs) = .ok cs :=
  (roundtrip_ss_links_iff cl legacy cs hcs hl ht).trans (roundtrip_cells_links_via_ss_iff cl legacy' cs hcs hl ht').symm

/-! ### the condition without recursion, and its clauses one by one -/

/-- `LinksRestorable {} cs` spelled out: every link transmittable, and neighbours with equal URLs have equal parameters
    (for the first cell, "the predecessor" is the link-free cursor: covered by "no parameters for the empty URL"). -/
theorem links_restorable_iff_clauses (cs : List LCell) :
    LinksRestorable {} cs ↔
      (∀ c ∈ cs, (∀ b ∈ c.link.params, b ≠ 0x3B) ∧ (c.link.url = [] → c.link.params = [])) ∧
      ∀ (i : Nat) (h : i + 1 < cs.length), (cs[i + 1]).link.url = (cs[i]).link.url → (cs[i + 1]).link.params = (cs[i]).link.params :=
  restorable_default_iff cs

/-- A round trip needs parameters without `;` … -/
theorem roundtrip_needs_no_semicolon (cl : Str → Nat) (legacy : Bool) (cs : List LCell) (hcs : ∀ c ∈ cs, c.cell.st.wf)
    (hl : CellLinksOK cs) (ht : TextOKL cl (encodeFromL (ssDelta legacy) {} {} cs))
    (h : newStyledStringBL cl {} {} (ssEncodeBL legacy cs) = .ok cs) : ∀ c ∈ cs, ∀ b ∈ c.link.params, b ≠ 0x3B :=
  fun c hc => (((links_restorable_iff_clauses cs).mp (roundtrip_ss_links_needs_restorable cl legacy cs hcs hl ht h)).1 c hc).1

/-- … no parameters on a cell without URL … -/
theorem roundtrip_needs_no_params_for_empty_url (cl : Str → Nat) (legacy : Bool) (cs : List LCell) (hcs : ∀ c ∈ cs, c.cell.st.wf)
    (hl : CellLinksOK cs) (ht : TextOKL cl (encodeFromL (ssDelta legacy) {} {} cs))
    (h : newStyledStringBL cl {} {} (ssEncodeBL legacy cs) = .ok cs) : ∀ c ∈ cs, c.link.url = [] → c.link.params = [] :=
  fun c hc => (((links_restorable_iff_clauses cs).mp (roundtrip_ss_links_needs_restorable cl legacy cs hcs hl ht h)).1 c hc).2

/-- … and the same parameters on neighbouring cells with the same URL. -/
theorem roundtrip_needs_same_params (cl : Str → Nat) (legacy : Bool) (cs : List LCell) (hcs : ∀ c ∈ cs, c.cell.st.wf)
    (hl : CellLinksOK cs) (ht : TextOKL cl (encodeFromL (ssDelta legacy) {} {} cs))
    (h : newStyledStringBL cl {} {} (ssEncodeBL legacy cs) = .ok cs) :
    ∀ (i : Nat) (hi : i + 1 < cs.length), (cs[i + 1]).link.url = (cs[i]).link.url → (cs[i + 1]).link.params = (cs[i]).link.params :=
  ((links_restorable_iff_clauses cs).mp (roundtrip_ss_links_needs_restorable cl legacy cs hcs hl ht h)).2

/-! ### witnesses (evaluated): each clause violated on its own, and what comes back instead -/

-- `exSemiParams` (parameters `a;b` under the URL `u`), `exEmptyUrlParams` (parameters `p` on a cell without URL after a
-- cell with the URL `u`), `exFirstParams` (parameters `p` on the very first cell, without URL): `Lemmas/SgrLinksIff.lean`

example : restorableB {} exSemiParams = false ∧ restorableB {} exEmptyUrlParams = false ∧
    restorableB {} exFirstParams = false ∧ restorableB {} exChangedParams = false := by decide

-- `a;b` / `u` comes back as parameters `a`, URL `b;u`
example : (match newStyledStringBL (fun _ => 1) {} {} (ssEncodeBL false exSemiParams) with
    | .ok r => r.map (·.link) | .error _ => []) = [⟨[0x62, 0x3B, 0x75], [0x61]⟩] := by decide

-- parameters under the empty URL come back empty
example : (match newStyledStringBL (fun _ => 1) {} {} (ssEncodeBL false exEmptyUrlParams) with
    | .ok r => r.map (·.link) | .error _ => []) = [⟨[0x75], []⟩, {}] := by decide

example : (match newStyledStringBL (fun _ => 1) {} {} (ssEncodeBL false exFirstParams) with
    | .ok r => r.map (·.link) | .error _ => []) = [{}] := by decide

-- none of them round-trips, through either encoder, with or without the legacy forms
example : ∀ legacy ∈ [false, true], ∀ cs ∈ [exSemiParams, exEmptyUrlParams, exFirstParams, exChangedParams],
    (match newStyledStringBL (fun _ => 1) {} {} (ssEncodeBL legacy cs) with
      | .ok r => decide (r = cs) | .error _ => false) = false ∧
    (match newStyledStringBL (fun _ => 1) {} {} (encodeCellsBL legacy cs) with
      | .ok r => decide (r = cs) | .error _ => false) = false := by decide

/-- The witnesses satisfy the standing hypotheses, so the `iff` speaks about them: here `exSemiParams`, through the theorem. -/
theorem exSemiParams_fails : newStyledStringBL (fun _ => 1) {} {} (ssEncodeBL false exSemiParams) ≠ .ok exSemiParams := by
  intro h
  have hr := (roundtrip_ss_links_iff_restorableB (fun _ => 1) false exSemiParams
    (by intro c hc; simp [exSemiParams] at hc; subst hc; exact wf_default)
    (by intro c hc; simp [exSemiParams] at hc; subst hc; simp)
    (by
      have : encodeFromL (ssDelta false) {} {} exSemiParams =
          [.link [0x38, 0x3B, 0x61, 0x3B, 0x62, 0x3B, 0x75], .tok (.text [0x61]),
           .link [0x38, 0x3B, 0x3B], .tok (.sgr [])] := by decide
      rw [this]
      exact ⟨⟨0x61, [], rfl, by decide⟩, rfl, trivial⟩)).mp h
  revert hr
  decide

/-! ### non-vacuity of the left side: `exLinked` (parameters, a URL containing `;`, a change of URL, a return to no link) -/

theorem exLinked_roundtrips : newStyledStringBL (fun _ => 1) {} {} (ssEncodeBL false exLinked) = .ok exLinked ∧
    LinksRestorable {} exLinked := by
  have hr : LinksRestorable {} exLinked := (links_restorable_decidable exLinked {}).mp (by decide)
  refine ⟨(roundtrip_ss_links_iff (fun _ => 1) false exLinked ?_ ?_ ?_).mpr hr, hr⟩
  · intro c hc
    simp only [exLinked, List.mem_cons, List.not_mem_nil, or_false] at hc
    rcases hc with rfl | rfl | rfl | rfl <;> exact ⟨Or.inl rfl, Or.inl rfl, Or.inl rfl, by decide, by decide⟩
  · intro c hc
    simp only [exLinked, List.mem_cons, List.not_mem_nil, or_false] at hc
    rcases hc with rfl | rfl | rfl | rfl <;> simp
  · have : encodeFromL (ssDelta false) {} {} exLinked =
        [.tok (.sgr [[1]]), .link [0x38, 0x3B, 0x69, 0x64, 0x3D, 0x37, 0x3B, 0x68, 0x3B, 0x78], .tok (.text [0x61]),
         .tok (.text [0x62]), .tok (.sgr [[22]]), .link [0x38, 0x3B, 0x3B, 0x79], .tok (.text [0x63]),
         .link [0x38, 0x3B, 0x3B], .tok (.text [0x64])] := by decide
    rw [this]
    exact ⟨⟨0x61, [], rfl, by decide⟩, rfl, ⟨0x62, [], rfl, by decide⟩, rfl, ⟨0x63, [], rfl, by decide⟩, rfl,
      ⟨0x64, [], rfl, by decide⟩, rfl, trivial⟩

-- evaluated as well
example : (match newStyledStringBL (fun _ => 1) {} {} (ssEncodeBL false exLinked) with
    | .ok r => decide (r = exLinked) | .error _ => false) = true ∧
  (match newStyledStringBL (fun _ => 1) {} {} (encodeCellsBL true exLinked) with
    | .ok r => decide (r = exLinked) | .error _ => false) = true := by decide

end VaxisModel.Props.C18LinksIff
