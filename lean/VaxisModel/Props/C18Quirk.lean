/-
C18, round 4 (T2): **the legacy-SGR quirk** (`VAXIS_FORCE_LEGACY_SGR`), all three producers × all three consumers, at the
token level and at the byte level, as explicit statements with `legacy = true`.

What quirks.go does (extracted, `quirk_is_replace_colon`): exactly the four format *variables* `fgIndexSet`, `fgRGBSet`,
`bgIndexSet`, `bgRGBSet` are rewritten, each by `strings.ReplaceAll(x, ":", ";")`; `EncodeCells` and `render` print their
extended colours with exactly these variables, `StyledString.Encode` with private constants.  `replaceColon` of the
regenerated strings are the semicolon formats, and printed with any arguments they are `38;5;n` / `38;2;r;g;b` / `48;…`
(`quirk_prints_legacy_forms`).  So `legacy = true` in the models is the quirk.

Most statements below are instances of the ∀-`legacy` theorems of Props/C18Delta, C18DeltaBytes, C18Bytes, C18Terminal; new
are: the tie to quirks.go, "no effect on `StyledString.Encode`" from the extracted mutability facts, "an effect on the other
two" (the semicolon forms really are written), and a whole rendered frame read back by the three consumers under every
capability setting (`legacy_quirk_frame_*`).
-/
import VaxisModel.Lemmas.SgrQuirk
import VaxisModel.Props.C18DeltaBytes
import VaxisModel.Props.C18Terminal

namespace VaxisModel.Props.C18Quirk
open VaxisModel VaxisModel.Gen VaxisModel.Model.Sgr VaxisModel.Model.SgrBytes VaxisModel.Lemmas.Sgr VaxisModel.Lemmas.SgrBytes
open VaxisModel.Lemmas.SgrDelta VaxisModel.Lemmas.SgrQuirk VaxisModel.Lemmas.SgrShows
open VaxisModel.Model.Color (indexColor rgbColor)

/-! ### What the quirk is -/

/-- **quirks.go rewrites exactly the four format variables, each with `ReplaceAll(x, ":", ";")`**; these four are the only
    mutable SGR strings; `EncodeCells` and `render` print their extended foreground / background colours with exactly these
    variables, `StyledString.Encode` with four other strings (its private constants). -/
theorem quirk_is_replace_colon :
    SgrCases.quirkRewrites = [("fgIndexSet", ":", ";"), ("fgRGBSet", ":", ";"), ("bgIndexSet", ":", ";"), ("bgRGBSet", ":", ";")] ∧
    Sequences.mutableStrings = ["fgIndexSet", "fgRGBSet", "bgIndexSet", "bgRGBSet"] ∧
    [SgrCases.encodeCellsFgIndex_s, SgrCases.encodeCellsFgRGB_s, SgrCases.encodeCellsBgIndex_s, SgrCases.encodeCellsBgRGB_s]
      = [Sequences.fgIndexSet, Sequences.fgRGBSet, Sequences.bgIndexSet, Sequences.bgRGBSet] ∧
    [SgrCases.renderFgIndex_s, SgrCases.renderFgRGB_s, SgrCases.renderBgIndex_s, SgrCases.renderBgRGB_s]
      = [Sequences.fgIndexSet, Sequences.fgRGBSet, Sequences.bgIndexSet, Sequences.bgRGBSet] ∧
    (SgrCases.encodeCellsFgIndexMutable && SgrCases.encodeCellsFgRGBMutable && SgrCases.encodeCellsBgIndexMutable &&
      SgrCases.encodeCellsBgRGBMutable && SgrCases.renderFgIndexMutable && SgrCases.renderFgRGBMutable &&
      SgrCases.renderBgIndexMutable && SgrCases.renderBgRGBMutable) = true ∧
    (SgrCases.ssEncodeFgIndexMutable || SgrCases.ssEncodeFgRGBMutable || SgrCases.ssEncodeBgIndexMutable ||
      SgrCases.ssEncodeBgRGBMutable) = false := by decide

/-- The rewritten strings (`replaceColon` = `ReplaceAll(":", ";")` on the regenerated values). -/
theorem quirk_strings :
    replaceColon (bytesOf Sequences.fgIndexSet) = bytesOf "\x1b[38;5;%dm" ∧
    replaceColon (bytesOf Sequences.fgRGBSet) = bytesOf "\x1b[38;2;%d;%d;%dm" ∧
    replaceColon (bytesOf Sequences.bgIndexSet) = bytesOf "\x1b[48;5;%dm" ∧
    replaceColon (bytesOf Sequences.bgRGBSet) = bytesOf "\x1b[48;2;%d;%d;%dm" := by decide

/-- **Printed with any arguments, the rewritten formats are the legacy semicolon forms** — the sequences the token-level
    models write for `legacy = true` (`legacyT` of the templates). -/
theorem quirk_prints_legacy_forms (n r g b : Nat) :
    sprintf (replaceColon (bytesOf Sequences.fgIndexSet)) [n] = csiM [[38], [5], [n]] ∧
    sprintf (replaceColon (bytesOf Sequences.bgIndexSet)) [n] = csiM [[48], [5], [n]] ∧
    sprintf (replaceColon (bytesOf Sequences.fgRGBSet)) [r, g, b] = csiM [[38], [2], [r], [g], [b]] ∧
    sprintf (replaceColon (bytesOf Sequences.bgRGBSet)) [r, g, b] = csiM [[48], [2], [r], [g], [b]] := by
  refine ⟨?_, ?_, ?_, ?_⟩
  · rw [b_fgIndexSet_legacy, fmt_fgIndexSet_legacy]
  · rw [b_bgIndexSet_legacy, fmt_bgIndexSet_legacy]
  · rw [b_fgRGBSet_legacy, fmt_fgRGBSet_legacy]
  · rw [b_bgRGBSet_legacy, fmt_bgRGBSet_legacy]

/-- **The quirk has no effect on `StyledString.Encode`**: by the extracted mutability facts its four colour slots are not
    rewritable, so its delta, its bytes and its whole output are the same with and without the quirk. -/
theorem legacy_quirk_no_effect_ssEncode :
    (∀ p n, ssDelta true p n = ssDelta false p n) ∧ (∀ p n, ssDeltaB true p n = ssDeltaB false p n) ∧
    (∀ cs, ssEncodeB true cs = ssEncodeB false cs) ∧ (∀ (cs : List (Cell Str)), ssEncode true cs = ssEncode false cs) := by
  have h1 : ∀ p n, ssDelta true p n = ssDelta false p n := by
    intro p n
    have hm : SgrCases.ssEncodeFgIndexMutable = false ∧ SgrCases.ssEncodeFgRGBMutable = false ∧
        SgrCases.ssEncodeBgIndexMutable = false ∧ SgrCases.ssEncodeBgRGBMutable = false := by decide
    simp only [ssDelta, ssT, hm.1, hm.2.1, hm.2.2.1, hm.2.2.2, Bool.and_false]
  have h2 : ∀ p n, ssDeltaB true p n = ssDeltaB false p n := by
    intro p n; rw [ssDeltaB_eq, ssDeltaB_eq, h1]
  have hf : ssDeltaB true = ssDeltaB false := funext fun p => funext fun n => h2 p n
  have hg : ssDelta true = ssDelta false := funext fun p => funext fun n => h1 p n
  exact ⟨h1, h2, fun cs => by unfold ssEncodeB; rw [hf], fun cs => by unfold ssEncode; rw [hg]⟩

-- … and it does have an effect on `EncodeCells` and `render`: the semicolon forms are what is written (evaluated)
example : encodeDelta true {} { fg := indexColor 200, bg := rgbColor 1 2 3 } = [[[38], [5], [200]], [[48], [2], [1], [2], [3]]] := by decide
example : encodeDelta false {} { fg := indexColor 200, bg := rgbColor 1 2 3 } = [[[38, 5, 200]], [[48, 2, 1, 2, 3]]] := by decide
example : renderDelta true true true {} { fg := indexColor 200, ul := indexColor 9 } = [[[38], [5], [200]], [[58, 5, 9]]] := by decide
example : ssDelta true {} { fg := indexColor 200 } = [[[38, 5, 200]]] := by decide
example : encodeDeltaB true {} { fg := indexColor 200 } = bytesOf "\x1b[38;5;200m" := by decide +kernel

/-! ### Nine producer × consumer statements under the quirk: token level ∧ byte level

`p`, `n` range over all well-formed styles (all 128 × 128 masks, all colour classes, all underline styles); `g` is any
grapheme that is one cluster for the oracle. -/

section nine
variable (cl : Str → Nat) (p n : Style) (hp : p.wf) (hn : n.wf)
include hp hn

theorem legacy_quirk_encodeCells_parseSGR :
    foldC parseSGR p (encodeDelta true p n) = .ok n ∧ penOf parseSGR p (tokenize cl (encodeDeltaB true p n)) = .ok n := by
  have h := C18Delta.delta_encodeCells_parseSGR true p n hp hn
  exact ⟨h, by rw [encodeDeltaB_eq, pen_bytes cl _ _ (encodeDelta_range true p n hn.ulStyle), h]⟩

theorem legacy_quirk_encodeCells_emuSgr :
    foldC emuSgr p (encodeDelta true p n) = .ok n ∧ penOf emuSgr p (tokenize cl (encodeDeltaB true p n)) = .ok n := by
  have h := C18Delta.delta_encodeCells_emuSgr true p n hp hn
  exact ⟨h, by rw [encodeDeltaB_eq, pen_bytes cl _ _ (encodeDelta_range true p n hn.ulStyle), h]⟩

/-- `NewStyledString` on the semicolon forms: its raw-text look-ahead (`legacySGRColor`, `i += n`) over the bytes. -/
theorem legacy_quirk_encodeCells_ssParse (g : Str) (hg : ∃ c g', g = c :: g' ∧ 0x20 ≤ c) (hcl : cl g = g.length) :
    foldC (ssSeq {}) p (encodeDelta true p n) = .ok n ∧
    nssLoop cl {} (encodeDeltaB true p n ++ g).length p (encodeDeltaB true p n ++ g) = .ok [⟨g, n⟩] :=
  ⟨C18Delta.delta_encodeCells_ssParse true p n hp hn, (C18DeltaBytes.delta_encodeCells_bytes cl true p n hp hn g hg hcl).2.2⟩

theorem legacy_quirk_ssEncode_parseSGR :
    foldC parseSGR p (ssDelta true p n) = .ok n ∧ penOf parseSGR p (tokenize cl (ssDeltaB true p n)) = .ok n := by
  have h := C18Delta.delta_ssEncode_parseSGR true p n hp hn
  exact ⟨h, by rw [ssDeltaB_eq, pen_bytes cl _ _ (fun q hq => eml_of_em q (ssDelta_range true p n hn.ulStyle q hq)), h]⟩

theorem legacy_quirk_ssEncode_emuSgr :
    foldC emuSgr p (ssDelta true p n) = .ok n ∧ penOf emuSgr p (tokenize cl (ssDeltaB true p n)) = .ok n := by
  have h := C18Delta.delta_ssEncode_emuSgr true p n hp hn
  exact ⟨h, by rw [ssDeltaB_eq, pen_bytes cl _ _ (fun q hq => eml_of_em q (ssDelta_range true p n hn.ulStyle q hq)), h]⟩

theorem legacy_quirk_ssEncode_ssParse (g : Str) (hg : ∃ c g', g = c :: g' ∧ 0x20 ≤ c) (hcl : cl g = g.length) :
    foldC (ssSeq {}) p (ssDelta true p n) = .ok n ∧
    nssLoop cl {} (ssDeltaB true p n ++ g).length p (ssDeltaB true p n ++ g) = .ok [⟨g, n⟩] :=
  ⟨C18Delta.delta_ssEncode_ssParse true p n hp hn, (C18DeltaBytes.delta_ssEncode_bytes cl true p n hp hn g hg hcl).2.2⟩

/-- The renderer under the quirk, every capability setting (`capStyle`: what such a terminal is left showing). -/
theorem legacy_quirk_render_parseSGR (rgb su : Bool) :
    foldC parseSGR (capStyle rgb su p) (renderDelta rgb su true p n) = .ok (capStyle rgb su n) ∧
    penOf parseSGR (capStyle rgb su p) (tokenize cl (renderDeltaB rgb su true p n)) = .ok (capStyle rgb su n) := by
  have h := C18Delta.delta_render_parseSGR rgb su true p n hp hn
  exact ⟨h, by rw [renderDeltaB_eq, pen_bytes cl _ _ (renderDelta_range rgb su true p n hn.ulStyle), h]⟩

theorem legacy_quirk_render_emuSgr (rgb su : Bool) :
    foldC emuSgr (capStyle rgb su p) (renderDelta rgb su true p n) = .ok (capStyle rgb su n) ∧
    penOf emuSgr (capStyle rgb su p) (tokenize cl (renderDeltaB rgb su true p n)) = .ok (capStyle rgb su n) := by
  have h := C18Delta.delta_render_emuSgr rgb su true p n hp hn
  exact ⟨h, by rw [renderDeltaB_eq, pen_bytes cl _ _ (renderDelta_range rgb su true p n hn.ulStyle), h]⟩

theorem legacy_quirk_render_ssParse (rgb su : Bool) (g : Str) (hg : ∃ c g', g = c :: g' ∧ 0x20 ≤ c) (hcl : cl g = g.length) :
    foldC (ssSeq {}) (capStyle rgb su p) (renderDelta rgb su true p n) = .ok (capStyle rgb su n) ∧
    nssLoop cl {} (renderDeltaB rgb su true p n ++ g).length (capStyle rgb su p) (renderDeltaB rgb su true p n ++ g)
      = .ok [⟨g, capStyle rgb su n⟩] :=
  ⟨C18Delta.delta_render_ssParse rgb su true p n hp hn, (C18DeltaBytes.delta_render_bytes cl rgb su true p n hp hn g hg hcl).2.2⟩

end nine

/-! ### Round trips under the quirk, over bytes (the `rtq` shape), all cell lists with well-formed styles -/

/-- `ParseStyledString(EncodeCells(cs)) = cs`, `NewStyledString(EncodeCells(cs)) = cs` and the embedded terminal fed the same
    bytes, with the semicolon forms in the string. -/
theorem legacy_quirk_roundtrip_cells (cl : Str → Nat) (cs : List (Cell Str)) (hcs : ∀ c ∈ cs, c.st.wf)
    (ht : TextOK cl (encodeCells true cs)) :
    parseStyledB cl (encodeCellsB true cs) = .ok cs ∧ newStyledStringB cl {} (encodeCellsB true cs) = .ok cs ∧
    cellsWith emuSgr {} (tokenize cl (encodeCellsB true cs)) = .ok cs :=
  ⟨C18Bytes.roundtrip_cells_bytes cl true cs hcs ht, (C18Bytes.roundtrip_cross_bytes cl true cs hcs).1 ht,
   C18Terminal.roundtrip_cells_emu_bytes cl true cs hcs ht⟩

/-- `NewStyledString(Encode(cs)) = cs`, `ParseStyledString(Encode(cs)) = cs` and the embedded terminal, with the quirk applied
    (which leaves `Encode`'s output unchanged: `legacy_quirk_no_effect_ssEncode`). -/
theorem legacy_quirk_roundtrip_ss (cl : Str → Nat) (cs : List (Cell Str)) (hcs : ∀ c ∈ cs, c.st.wf)
    (ht : TextOK cl (ssEncode true cs)) :
    newStyledStringB cl {} (ssEncodeB true cs) = .ok cs ∧ parseStyledB cl (ssEncodeB true cs) = .ok cs ∧
    cellsWith emuSgr {} (tokenize cl (ssEncodeB true cs)) = .ok cs :=
  ⟨C18Bytes.roundtrip_ss_bytes cl true cs hcs ht, (C18Bytes.roundtrip_cross_bytes cl true cs hcs).2 ht,
   C18Terminal.roundtrip_ss_emu_bytes cl true cs hcs ht⟩

/-! ### A whole rendered frame read back by the three consumers (new in round 4; stated ∀ legacy, the quirk is `legacy = true`) -/

/-- **The SGR part of a rendered frame, as bytes, read by `ParseStyledString`'s loop, by the embedded terminal and by
    `NewStyledString`** — every capability setting, both format variants, all cell lists with well-formed styles: each
    consumer returns the frame's cells with the styles such a terminal is left showing (`capCells`: palette fallback without
    `rgb`, plain underline and no underline colour without `styledUnderlines`; the cells themselves with full capabilities). -/
theorem render_frame_read_bytes (cl : Str → Nat) (rgb su legacy : Bool) (cs : List (Cell Str)) (hcs : ∀ c ∈ cs, c.st.wf)
    (ht : TextOK cl (renderFrom rgb su legacy {} cs)) :
    parseStyledB cl (renderFromB rgb su legacy {} cs) = .ok (capCells rgb su cs) ∧
    cellsWith emuSgr {} (tokenize cl (renderFromB rgb su legacy {} cs)) = .ok (capCells rgb su cs) ∧
    newStyledStringB cl {} (renderFromB rgb su legacy {} cs) = .ok (capCells rgb su cs) := by
  have hgood := good_renderFrom cl rgb su legacy cs (fun c hc => (hcs c hc).ulStyle) {} ht
  have h1 := render_read_generic (γ := Str) rgb su legacy parseSGR
    (fun p n hp hn => C18Delta.delta_render_parseSGR rgb su legacy p n hp hn)
    (fun s => ⟨_, int_empty parseCfg s C18.parseCfg_covers.zero⟩) cs {} wf_default hcs
  have h2 := render_read_generic (γ := Str) rgb su legacy emuSgr
    (fun p n hp hn => C18Delta.delta_render_emuSgr rgb su legacy p n hp hn)
    (fun s => ⟨_, int_empty emuCfg s C18.emuCfg_covers.zero⟩) cs {} wf_default hcs
  have h3 := render_read_generic_ss (γ := Str) rgb su legacy (ssSeq {})
    (fun p n hp hn => C18Delta.delta_render_ssParse rgb su legacy p n hp hn) cs {} wf_default hcs
  rw [capStyle_default] at h1 h2 h3
  refine ⟨?_, ?_, ?_⟩
  · rw [renderFromB_eq, parseStyledB_toks cl _ hgood]; exact h1
  · rw [renderFromB_eq, tokenize_toks cl _ hgood, cellsWith_items]; exact h2
  · rw [renderFromB_eq, newStyledStringB_toks cl {} _ hgood]; exact h3

/-- The frame under the quirk. -/
theorem legacy_quirk_frame (cl : Str → Nat) (rgb su : Bool) (cs : List (Cell Str)) (hcs : ∀ c ∈ cs, c.st.wf)
    (ht : TextOK cl (renderFrom rgb su true {} cs)) :
    parseStyledB cl (renderFromB rgb su true {} cs) = .ok (capCells rgb su cs) ∧
    cellsWith emuSgr {} (tokenize cl (renderFromB rgb su true {} cs)) = .ok (capCells rgb su cs) ∧
    newStyledStringB cl {} (renderFromB rgb su true {} cs) = .ok (capCells rgb su cs) ∧
    specRunItems Spec.TStyle.reset (tokenize cl (renderFromB rgb su true {} cs))
      = (cs.map (fun c => (c.g, shownCaps rgb su c.st)), Spec.TStyle.reset) := by
  obtain ⟨h1, h2, h3⟩ := render_frame_read_bytes cl rgb su true cs hcs ht
  exact ⟨h1, h2, h3, C18Terminal.render_frame_shows_bytes cl rgb su true cs (fun c hc => (hcs c hc).ulStyle) ht⟩

-- a concrete frame under the quirk, no rgb, no styled underlines, read by the emulator (evaluated): RGB falls back to the palette
example : (match cellsWith emuSgr {} (tokenize (fun _ => 1) (renderFromB false false true {}
      [⟨[0x61], { fg := rgbColor 255 0 0, ulStyle := 3, attr := 2 }⟩, ⟨[0x62], { fg := indexColor 200 }⟩])) with
    | .ok r => decide (r = capCells false false [⟨[0x61], { fg := rgbColor 255 0 0, ulStyle := 3, attr := 2 }⟩, ⟨[0x62], { fg := indexColor 200 }⟩])
    | .error _ => false) = true := by decide +kernel

end VaxisModel.Props.C18Quirk
