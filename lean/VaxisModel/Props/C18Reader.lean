/-
C18 ∘ C02, round 3: **`ParseStyledString` with its reading side**.  The byte-level theorems of `Props/C18Bytes.lean` replace
the reader (bufio, UTF-8 decoding, `Parser.print`'s look-ahead over what is buffered) by a cluster oracle on the remaining
runes.  Here the reader is C02/C08's model `ParserIO` (fill loop, `readRune` with its raw-byte fallback, `printLoop`):
for a string of Unicode scalar values handed to the parser in ONE read — what `ParseStyledString` does since the `fix:`
for F122 (a `bufio.Reader` that holds the whole string) — ParserIO delivers exactly the items of the oracle model, so every
byte-level theorem is a theorem about `parseStyledIO`.  With reads of the default buffer size (the code before the repair)
it is false: a cluster that straddles a read boundary is cut (`parse_chunked_cuts_cluster`).
Hypothesis `Agrees`: ParserIO's oracle (indexed by byte offset) and the oracle on the remaining runes are the same function.
-/
import VaxisModel.Lemmas.SgrReader
import VaxisModel.Props.C18Bytes

namespace VaxisModel.Props.C18Reader
open VaxisModel VaxisModel.Gen VaxisModel.Model.Sgr VaxisModel.Model.SgrBytes VaxisModel.Model.SgrReader
open VaxisModel.Lemmas.Sgr VaxisModel.Lemmas.SgrBytes VaxisModel.Lemmas.SgrReader
open VaxisModel.Model.ParserUtf8 (IsScalar)
open VaxisModel.Model.Parser (handTable)

/-- **ParserIO on a complete in-memory string = `scan` with the oracle.**  For every string of scalar values delivered in one
    read: the items of C02's reader model (UTF-8 decoding through bufio's fill loop, a Print extended by `print`'s look-ahead
    over the buffer) are the items of `tokenize` — one automaton step per rune, a Print swallows the oracle's cluster of
    the remaining runes — followed by what the parser emits at end of input (no Print, no CSI). -/
theorem reader_single_read (clusterAt : Nat → Nat) (cl : Str → Nat) (rs : Str) (hs : ∀ r ∈ rs, IsScalar r)
    (hag : Agrees clusterAt cl 0 rs) :
    ∃ tail, Model.ParserIO.runChunks handTable clusterAt [utf8 rs] = (tokenize cl rs).map ioItem ++ tail ∧ TailOk tail :=
  runChunks_single clusterAt cl rs hs hag

/-- **`ParseStyledString` with the reader side = the byte-level model**, for every string (any escape sequences, control
    strings, text). -/
theorem parseStyledIO_eq (clusterAt : Nat → Nat) (cl : Str → Nat) (rs : Str) (hs : ∀ r ∈ rs, IsScalar r)
    (hag : Agrees clusterAt cl 0 rs) :
    parseStyledIO clusterAt (utf8 rs) = parseStyledB cl rs := by
  obtain ⟨tail, h, hok⟩ := runChunks_single clusterAt cl rs hs hag
  unfold parseStyledIO parseStyledB
  rw [h, cellsOfIO_items tail hok]

/-- **roundtrip_cells with the reader side**: `ParseStyledString(EncodeCells(cells)) = cells`, the string read through
    bufio / UTF-8 decoding / `print`'s look-ahead (ParserIO), for all cell lists with well-formed styles and graphemes made
    of scalar values, with or without the legacy quirk. -/
theorem roundtrip_cells_io (clusterAt : Nat → Nat) (cl : Str → Nat) (legacy : Bool) (cs : List (Cell Str))
    (hcs : ∀ c ∈ cs, c.st.wf) (hg : ∀ c ∈ cs, ∀ r ∈ c.g, IsScalar r)
    (ht : TextOK cl (encodeCells legacy cs)) (hag : Agrees clusterAt cl 0 (encodeCellsB legacy cs)) :
    parseStyledIO clusterAt (utf8 (encodeCellsB legacy cs)) = .ok cs := by
  rw [parseStyledIO_eq clusterAt cl _ ?_ hag]
  · exact C18Bytes.roundtrip_cells_bytes cl legacy cs hcs ht
  · rw [C18Bytes.encodeCells_bytes_eq]
    apply bytesOfToks_scalar
    intro g hgm r hr
    obtain ⟨c, hc, e⟩ := encodeFrom_text_mem (encodeDelta legacy) cs {} g hgm
    exact hg c hc r (e ▸ hr)

/-- The same for what `StyledString.Encode` writes, read by `ParseStyledString`. -/
theorem roundtrip_ss_via_cells_io (clusterAt : Nat → Nat) (cl : Str → Nat) (legacy : Bool) (cs : List (Cell Str))
    (hcs : ∀ c ∈ cs, c.st.wf) (hg : ∀ c ∈ cs, ∀ r ∈ c.g, IsScalar r)
    (ht : TextOK cl (ssEncode legacy cs)) (hag : Agrees clusterAt cl 0 (ssEncodeB legacy cs)) :
    parseStyledIO clusterAt (utf8 (ssEncodeB legacy cs)) = .ok cs := by
  rw [parseStyledIO_eq clusterAt cl _ ?_ hag]
  · exact (C18Bytes.roundtrip_cross_bytes cl legacy cs hcs).2 ht
  · rw [C18Bytes.ssEncode_bytes_eq]
    apply bytesOfToks_scalar
    intro g hgm r hr
    obtain ⟨c, hc, e⟩ := encodeFrom_text_mem (ssDelta legacy) cs {} g hgm
    exact hg c hc r (e ▸ hr)

/-- **The hypothesis `Agrees` can always be met**: for any oracle on the remaining runes and any string of scalar values, the
    byte-offset oracle "decode what is left of the stream and ask `cl`" agrees with it — so `roundtrip_cells_io` is a statement
    about every rune-level oracle (`roundtrip_cells_io_any`). -/
theorem agrees_decoded (cl : Str → Nat) (rs : Str) (hs : ∀ r ∈ rs, IsScalar r) :
    Agrees (fun pos => cl (Model.ParserUtf8.decodeRunes ((utf8 rs).drop pos))) cl 0 rs := by
  intro k
  have h1 : utf8 rs = utf8 (rs.take k) ++ utf8 (rs.drop k) := by rw [← utf8_append, List.take_append_drop]
  simp only [Nat.zero_add]
  rw [h1, List.drop_left]
  have : Model.ParserUtf8.decodeRunes (utf8 (rs.drop k)) = rs.drop k :=
    Lemmas.ParserUtf8.decodeRunes_encodeAll (rs.drop k) (fun r hr => hs r (List.mem_of_mem_drop hr))
  rw [show utf8 (rs.drop k) = (rs.drop k).flatMap Model.ParserUtf8.encodeRune from rfl] at this ⊢
  rw [this]

theorem roundtrip_cells_io_any (cl : Str → Nat) (legacy : Bool) (cs : List (Cell Str))
    (hcs : ∀ c ∈ cs, c.st.wf) (hg : ∀ c ∈ cs, ∀ r ∈ c.g, IsScalar r) (ht : TextOK cl (encodeCells legacy cs)) :
    parseStyledIO (fun pos => cl (Model.ParserUtf8.decodeRunes ((utf8 (encodeCellsB legacy cs)).drop pos)))
      (utf8 (encodeCellsB legacy cs)) = .ok cs := by
  apply roundtrip_cells_io _ cl legacy cs hcs hg ht
  apply agrees_decoded
  rw [C18Bytes.encodeCells_bytes_eq]
  apply bytesOfToks_scalar
  intro g hgm r hr
  obtain ⟨c, hc, e⟩ := encodeFrom_text_mem (encodeDelta legacy) cs {} g hgm
  exact hg c hc r (e ▸ hr)

/-- **The reader `ParseStyledString` builds in the current source is the whole-string reader** (regenerated on this run:
    `ansi.NewParser` gets `bufio.NewReaderSize(strings.NewReader(s), len(s))`): the model that follows the source
    (`parseStyledSrc`, which the driver runs on the exact strings of the `decb` stream) is `parseStyledIO`, the function the
    theorems above are about.  With the pre-F122 shape it would be `parseStyledIOChunked 4096`, for which they are false. -/
theorem reader_recognised (clusterAt : Nat → Nat) (bs : List Nat) :
    parseStyledSrc clusterAt bs = some (parseStyledIO clusterAt bs) := by
  unfold parseStyledSrc
  rw [if_pos (by decide)]

/-! ### Before the F122 repair: reads of the buffer size -/

/-- Up to the buffer size the old reader was the new one: a string that fits the buffer arrives in one read. -/
theorem chunked_small_same (size : Nat) (clusterAt : Nat → Nat) (bs : List Nat) (h : bs.length ≤ size) :
    parseStyledIOChunked size clusterAt bs = parseStyledIO clusterAt bs := by
  unfold parseStyledIOChunked parseStyledIO
  cases bs with
  | nil => rfl
  | cons b t =>
    have hm : (b :: t).length ≤ max 1 size := by omega
    have h1 : (b :: t).take (max 1 size) = b :: t := List.take_of_length_le hm
    have h2 : (b :: t).drop (max 1 size) = [] := List.drop_of_length_le hm
    have : chunksOf size (b :: t).length (b :: t) = [b :: t] := by
      show (b :: t).take (max 1 size) :: chunksOf size t.length ((b :: t).drop (max 1 size)) = [b :: t]
      rw [h1, h2]
      cases t.length <;> rfl
    rw [this]

/-- Witness string (scaled down: reads of 4 bytes instead of 4096): `aaa`, then `e` + U+0301 with the `e` as the last byte of
    the first read. -/
def exStraddle : List Nat := [0x61, 0x61, 0x61, 0x65, 0xCC, 0x81]
/-- Its oracle: the cluster at byte offset 3 (`e` + combining acute) has two runes. -/
def exStraddleCl (pos : Nat) : Nat := if pos = 3 then 2 else 1

/-- **F122 on the model**: with reads of the buffer size the cluster that straddles the read boundary comes back as two
    cells (5 cells for 4 graphemes); with the whole string in one read (the repaired code) as one. -/
theorem parse_chunked_cuts_cluster :
    (match parseStyledIOChunked 4 exStraddleCl exStraddle with | .ok cs => cs.map (·.g) | .error _ => []) =
      [[0x61], [0x61], [0x61], [0x65], [0x301]] ∧
    (match parseStyledIO exStraddleCl exStraddle with | .ok cs => cs.map (·.g) | .error _ => []) =
      [[0x61], [0x61], [0x61], [0x65, 0x301]] := by decide

/-! ### Non-vacuity -/

example : exStraddle = utf8 [0x61, 0x61, 0x61, 0x65, 0x301] := by decide

/-- `Agrees` for the witness string and the rune-level oracle of `Props/C18Bytes.lean`'s kind. -/
example : Agrees exStraddleCl (fun s => match s with | 0x65 :: 0x301 :: _ => 2 | _ => 1) 0 [0x61, 0x61, 0x61, 0x65, 0x301] := by
  intro k
  have : k = 0 ∨ k = 1 ∨ k = 2 ∨ k = 3 ∨ k = 4 ∨ 5 ≤ k := by omega
  rcases this with rfl | rfl | rfl | rfl | rfl | h
  · decide
  · decide
  · decide
  · decide
  · decide
  · have h1 : List.take k [0x61, 0x61, 0x61, 0x65, 0x301] = [0x61, 0x61, 0x61, 0x65, 0x301] := List.take_of_length_le (by simpa using h)
    have h2 : List.drop k [0x61, 0x61, 0x61, 0x65, 0x301] = [] := List.drop_of_length_le (by simpa using h)
    rw [h1, h2]; decide

end VaxisModel.Props.C18Reader
