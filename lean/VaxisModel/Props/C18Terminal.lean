/-
C18, round 3: `encoded_shows_*`, `render_frame_shows` and the embedded-terminal round trip written out over BYTES.

The string `EncodeCells` / `StyledString.Encode` writes (`encodeCellsB` / `ssEncodeB`: the regenerated format strings
printed with `%d`) goes through C02's parser model (`tokenize`: one `pstep` per rune, a `Print` swallows its cluster);
the items it delivers are fed to
* a `Spec.sgr` terminal (`specRunItems`): it shows at every grapheme exactly the cell's style and is reset afterwards;
* the embedded terminal's `sgr` (`cellsWith emuSgr`): the cells come back.
Composition of `Props.C18.encoded_shows_*` / `roundtrip_cells_emu` / `roundtrip_ss_via_cells` with
`Props.C18Bytes.tokenize_encoded`.  Hypothesis `TextOK` (A-concat for the cluster oracle) as everywhere at the byte level.
-/
import VaxisModel.Lemmas.SgrShows
import VaxisModel.Props.C18Bytes

namespace VaxisModel.Props.C18Terminal
open VaxisModel VaxisModel.Gen VaxisModel.Model.Sgr VaxisModel.Model.SgrBytes VaxisModel.Lemmas.Sgr
open VaxisModel.Lemmas.SgrBytes VaxisModel.Lemmas.SgrShows VaxisModel.Spec

/-- **encoded_shows over bytes (EncodeCells).** A `Spec.sgr` terminal fed the items the parser model delivers for the
    bytes `EncodeCells` writes shows at every grapheme exactly the style of its cell, in order, and its pen is the reset
    pen after the last item; for every cell list (underline styles among the six), with or without the legacy quirk. -/
theorem encoded_shows_cells_bytes (cl : Str → Nat) (legacy : Bool) (cs : List (Cell Str))
    (hcs : ∀ c ∈ cs, c.st.ulStyle ≤ 5) (ht : TextOK cl (encodeCells legacy cs)) :
    specRunItems TStyle.reset (tokenize cl (encodeCellsB legacy cs))
      = (cs.map (fun c => (c.g, shown c.st)), TStyle.reset) := by
  rw [(C18Bytes.tokenize_encoded cl legacy cs hcs).1 ht, specRunItems_items]
  exact C18.encoded_shows_cells legacy cs hcs

/-- **encoded_shows over bytes (StyledString.Encode).** -/
theorem encoded_shows_ss_bytes (cl : Str → Nat) (legacy : Bool) (cs : List (Cell Str))
    (hcs : ∀ c ∈ cs, c.st.ulStyle ≤ 5) (ht : TextOK cl (ssEncode legacy cs)) :
    specRunItems TStyle.reset (tokenize cl (ssEncodeB legacy cs))
      = (cs.map (fun c => (c.g, shown c.st)), TStyle.reset) := by
  rw [(C18Bytes.tokenize_encoded cl legacy cs hcs).2 ht, specRunItems_items]
  exact C18.encoded_shows_ss legacy cs hcs

private theorem ul_of_wf (cs : List (Cell Str)) (hcs : ∀ c ∈ cs, c.st.wf) : ∀ c ∈ cs, c.st.ulStyle ≤ 5 :=
  fun c hc => (hcs c hc).ulStyle

/-- **roundtrip_cells_emu over bytes**: the bytes `EncodeCells` writes, through the parser model into the embedded
    terminal's `sgr` (one cell per `Print` with the pen at that moment), give back exactly the cells. -/
theorem roundtrip_cells_emu_bytes (cl : Str → Nat) (legacy : Bool) (cs : List (Cell Str)) (hcs : ∀ c ∈ cs, c.st.wf)
    (ht : TextOK cl (encodeCells legacy cs)) :
    cellsWith emuSgr {} (tokenize cl (encodeCellsB legacy cs)) = .ok cs := by
  rw [(C18Bytes.tokenize_encoded cl legacy cs (ul_of_wf cs hcs)).1 ht, cellsWith_items]
  exact C18.roundtrip_cells_emu legacy cs hcs

/-- The same for the bytes `StyledString.Encode` writes. -/
theorem roundtrip_ss_emu_bytes (cl : Str → Nat) (legacy : Bool) (cs : List (Cell Str)) (hcs : ∀ c ∈ cs, c.st.wf)
    (ht : TextOK cl (ssEncode legacy cs)) :
    cellsWith emuSgr {} (tokenize cl (ssEncodeB legacy cs)) = .ok cs := by
  rw [(C18Bytes.tokenize_encoded cl legacy cs (ul_of_wf cs hcs)).2 ht, cellsWith_items]
  exact (C18.roundtrip_ss_via_cells legacy cs hcs).2

/-- `cellsWith` is `ParseStyledString`'s own loop when the consumer is `parseSGR` (so the statements above and
    `roundtrip_cells_bytes` are about the same loop with two different consumers). -/
theorem cellsWith_parseSGR_eq (cl : Str → Nat) (s : Str) :
    cellsWith parseSGR {} (tokenize cl s) = parseStyledB cl s := cellsWith_parseSGR _ _

/-- **render_frame_shows over bytes**: the SGR part of a rendered frame (pen deltas as the regenerated format strings print them,
    graphemes, the final `sgrReset`), through the parser model into a `Spec.sgr` terminal: at every grapheme the terminal shows
    what a terminal with these capabilities shows for the cell's style (`shownCaps`), and it is reset afterwards. -/
theorem render_frame_shows_bytes (cl : Str → Nat) (rgb su legacy : Bool) (cs : List (Cell Str))
    (hcs : ∀ c ∈ cs, c.st.ulStyle ≤ 5) (ht : TextOK cl (renderFrom rgb su legacy {} cs)) :
    specRunItems TStyle.reset (tokenize cl (renderFromB rgb su legacy {} cs))
      = (cs.map (fun c => (c.g, shownCaps rgb su c.st)), TStyle.reset) := by
  rw [renderFromB_eq, tokenize_toks cl _ (good_renderFrom cl rgb su legacy cs hcs {} ht), specRunItems_items]
  exact C18.render_frame_shows rgb su legacy cs hcs

/-! ### Non-vacuity: a concrete string, evaluated -/

example :
    specRunItems TStyle.reset (tokenize C18Bytes.exCl (encodeCellsB true [⟨[0x61], { attr := 2 }⟩, ⟨[0x62, 0x301], {}⟩]))
      = ([([0x61], shown { attr := 2 }), ([0x62, 0x301], shown {})], TStyle.reset) := by
  decide

end VaxisModel.Props.C18Terminal
