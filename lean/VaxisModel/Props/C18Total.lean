/-
C18, round 4 (T1a): "parsing an arbitrary parameter list never panics" — **without hypothesis**, at the byte level.

`sgr_total` / `sgr_total_ss` (Props/C18.lean) need "every parameter has at least one sub-parameter" (`[[]]` does panic in the
model, as `params[i][0]` / `subs[0]` would in Go).  Here that hypothesis is discharged from the code that builds the lists:
`csiDispatch` appends the pending number to every parameter it closes (`sgr_total_parser_delivers`), and `strings.Split` never
returns an empty slice.  Hence, for EVERY string (any runes, any cluster oracle, any default style):
`ParseStyledString`, the embedded terminal's pen, `NewStyledString` (with and without the hyperlink fields) and
`ParseStyledString` with its reader (any bytes — valid UTF-8 or not —, any read boundaries) return without panic.
-/
import VaxisModel.Lemmas.SgrTotal
import VaxisModel.Lemmas.SgrLinksFull
import VaxisModel.Lemmas.Parser
import VaxisModel.Props.C18
import VaxisModel.Props.C02

namespace VaxisModel.Props.C18Total
open VaxisModel VaxisModel.Gen VaxisModel.Model.Sgr VaxisModel.Model.SgrBytes VaxisModel.Model.SgrLinks VaxisModel.Model.SgrReader
open VaxisModel.Lemmas.Sgr VaxisModel.Lemmas.SgrTotal
open VaxisModel.Model.Parser (PState decodeParams step Table handTable run)
open VaxisModel.Model.ParserTable (Inp)

/-- **What the ansi parser can deliver to an SGR consumer**: whatever parameter bytes were collected, `csiDispatch` builds
    no parameter without a sub-parameter; and every `CSI` item emitted from any state on any input under any transition
    table carries such a list (so `params[i][0]` is never out of range). `ESC[m` → nil, `ESC[;m` → `[[0],[0]]`,
    `ESC[:m` → `[[0,0]]`. -/
theorem sgr_total_parser_delivers :
    (∀ (pb : List Nat), ∀ p ∈ decodeParams pb, p ≠ []) ∧
    (∀ (T : Table) (s : PState) (i : Inp) (inter : List Nat) (ps : List (List Int)) (f : Nat),
      .csi inter ps f ∈ (step T s i).out → ∀ p ∈ ps, p ≠ []) :=
  ⟨decodeParams_nonempty, fun T s i _ _ _ h => step_good T s i _ h⟩

example : decodeParams [] = [] ∧ decodeParams [0x3B] = [[0], [0]] ∧ decodeParams [0x3A] = [[0, 0]] ∧
    decodeParams [0x34, 0x3A] = [[4, 0]] ∧ decodeParams [0x3B, 0x3B, 0x33, 0x38] = [[0], [0], [38]] := by decide

/-- **sgr_total, `ParseStyledString` over strings**: for every string and every cluster oracle, no panic. -/
theorem sgr_total_parseStyled_bytes (cl : Str → Nat) (s : Str) : ∃ cs, parseStyledB cl s = .ok cs :=
  cellsOf_total _ (scan_good cl _ _ _) {}

/-- **sgr_total, the embedded terminal over strings** (and `parseSGR` as a pen): from every pen, after every string. -/
theorem sgr_total_pen_bytes (cl : Str → Nat) (p : Style) (s : Str) :
    (∃ s', penOf emuSgr p (tokenize cl s) = .ok s') ∧ (∃ s', penOf parseSGR p (tokenize cl s) = .ok s') :=
  ⟨penOf_total emuSgr (fun s ps h => intSgr_ok emuCfg emu_nums_ok s ps h) _ (scan_good cl _ _ _) p,
   penOf_total parseSGR (fun s ps h => intSgr_ok parseCfg parse_nums_ok s ps h) _ (scan_good cl _ _ _) p⟩

/-- **sgr_total, `NewStyledString` over strings**: every string, every default style, every cluster oracle — whatever stands
    between `ESC [` and `m` (empty parameters, signs, letters, colons without digits). -/
theorem sgr_total_newStyledString_bytes (cl : Str → Nat) (dflt : Style) (s : Str) :
    ∃ cs, newStyledStringB cl dflt s = .ok cs := nssLoop_total cl dflt _ _ _

/-- The same for the model with the hyperlink fields. -/
theorem sgr_total_newStyledString_links_bytes (cl : Str → Nat) (dflt : Style) (dl : Link) (s : Str) :
    ∃ cs, newStyledStringBL cl dflt dl s = .ok cs := by
  obtain ⟨cs, h⟩ := sgr_total_newStyledString_bytes cl dflt s
  have hp := VaxisModel.Lemmas.SgrLinksFull.nssLoopL_cells cl dflt dl s.length dflt dl s
  unfold newStyledStringBL
  unfold newStyledStringB at h
  cases hl : nssLoopL cl dflt dl s.length dflt dl s with
  | ok r => exact ⟨r, rfl⟩
  | error e => rw [hl, h] at hp; cases hp

/-- **sgr_total, `ParseStyledString` with its reader** (C02's `ParserIO`: bufio fill loop, UTF-8 decoding with the raw-byte
    fallback, `print`'s look-ahead): for ANY bytes — valid UTF-8 or not — delivered in one read (the code since F122) or in
    reads of any size (the code before), and for the reader the current source builds. -/
theorem sgr_total_parseStyled_io (clusterAt : Nat → Nat) (bs : List Nat) :
    (∃ cs, parseStyledIO clusterAt bs = .ok cs) ∧
    (∀ size, ∃ cs, parseStyledIOChunked size clusterAt bs = .ok cs) ∧
    (∀ r, parseStyledSrc clusterAt bs = some r → ∃ cs, r = .ok cs) := by
  have h1 : ∃ cs, parseStyledIO clusterAt bs = .ok cs := cellsOfIO_total _ (runLoop_good _ _ _ _ _) {}
  have h2 : ∀ size, ∃ cs, parseStyledIOChunked size clusterAt bs = .ok cs :=
    fun size => cellsOfIO_total _ (runLoop_good _ _ _ _ _) {}
  refine ⟨h1, h2, ?_⟩
  intro r hr
  unfold parseStyledSrc at hr
  split at hr
  · cases hr; exact h1
  · split at hr
    · cases hr; exact h2 _
    · cases hr

/-- **The byte-level statement for one sequence**: from any parser state without a pending control string, the bytes
    `ESC [ <params> m` — ANY parameter bytes `0`–`9`, `:`, `;` in any arrangement — deliver exactly one `CSI` with the list
    `csiDispatch` builds, and neither `parseSGR` nor the embedded terminal panics on it. -/
theorem sgr_total_esc_m_bytes (s : PState) (he : s.exit = none) (pb : List Nat) (hpb : ∀ b ∈ pb, 0x30 ≤ b ∧ b ≤ 0x3B)
    (st : Style) :
    (run s (0x1B :: 0x5B :: (pb ++ [0x6D]))).2 = [.csi [] (decodeParams pb) 0x6D] ∧
    (∃ s', parseSGR st ((decodeParams pb).map (·.map Int.toNat)) = .ok s') ∧
    (∃ s', emuSgr st ((decodeParams pb).map (·.map Int.toNat)) = .ok s') := by
  refine ⟨?_, intSgr_ok parseCfg parse_nums_ok st _ (toNat_nonempty _ (decodeParams_nonempty pb)),
    intSgr_ok emuCfg emu_nums_ok st _ (toNat_nonempty _ (decodeParams_nonempty pb))⟩
  simp only [run, VaxisModel.Lemmas.Parser.pstep_esc s he]
  rw [VaxisModel.Lemmas.Parser.escape_csi _ rfl]
  have := VaxisModel.Lemmas.Parser.csi_tail
    ({ s with state := .csiEntry, inter := [], params := [], ignoreST := false } : PState) (Or.inl rfl) pb [] 0x6D hpb
    (by intro b hb; cases hb) (by decide) (by decide)
  simp only [List.nil_append] at this
  simp [this]

/-! ### The shapes, evaluated

All three consumers on: the seeded C18-m6 shapes (a truncated legacy RGB background NOT at the start of the list, total
length ≥ 5), every truncation of the legacy and colon forms of 38 / 48 / 58 after 0–3 leading parameters and before 0–1
trailing ones, sub-parameter counts 2, 4, 7, an unknown selector. -/

/-- No consumer panics on `q` (from the zero style and from a busy one). -/
def noPanic3 (q : Seq) : Bool :=
  [({} : Style), ⟨5, 6, 7, 3, 254⟩].all fun s =>
    (match parseSGR s q with | .ok _ => true | .error _ => false) &&
    (match emuSgr s q with | .ok _ => true | .error _ => false) &&
    (match ssSeq {} s q with | .ok _ => true | .error _ => false)

def truncShapes (p : Nat) : List Seq :=
  [[[p]], [[p], [5]], [[p], [2]], [[p], [2], [10]], [[p], [2], [10], [20]], [[p], [7]], [[p], [5, 1]],
   [[p, 2]], [[p, 5]], [[p, 2, 1]], [[p, 2, 1, 2]], [[p, 5, 1, 2]], [[p, 2, 0, 1, 2, 3, 4]], [[p, 9, 1]], [[p, 3, 1, 2, 3]],
   [[p, 7, 0, 1, 2, 3]], [[p, 2, 0, 1, 2]]]

def shapeTable : List Seq :=
  [38, 48, 58].flatMap fun p =>
    [[], [[1]], [[1], [3]], [[1], [3], [4, 3]]].flatMap fun pre =>
      (truncShapes p).flatMap fun t => [pre ++ t, pre ++ t ++ [[1]]]

example : shapeTable.length = 408 := by decide +kernel
example : shapeTable.all noPanic3 = true := by decide +kernel

-- the seeded C18-m6 shapes: `1;48;2;10;20` and `1;3;48;2;10` — bold (and italic) are set, the truncated colour is dropped
example : (match emuSgr {} [[1], [48], [2], [10], [20]] with | .ok s => decide (s = { attr := 2 }) | _ => false) = true := by decide
example : (match emuSgr {} [[1], [3], [48], [2], [10]] with | .ok s => decide (s = { attr := 10 }) | _ => false) = true := by decide
example : (match parseSGR {} [[1], [48], [2], [10], [20]] with | .ok s => decide (s = { attr := 2 }) | _ => false) = true := by decide
example : (match ssSeq {} {} [[1], [3], [48], [2], [10]] with | .ok s => decide (s.bg = 0) | _ => false) = true := by decide
example : [[[38], [5]], [[38], [2], [1]], [[38, 2]], [[58, 2, 0, 1, 2]], [[4, 0]], [[4, 1, 2, 3]], [[38, 1, 2, 3, 4, 5, 6]]].all noPanic3 = true := by
  decide

-- `4:` as NewStyledString sees it (`subs = ["4", ""]`: no label matches the empty text) and a body of separators only
example : (match ssLoop ssCfg {} (splitParams [0x34, 0x3A]) {} with | .ok s => decide (s = {}) | _ => false) = true := by decide
example : (match ssLoop ssCfg {} (splitParams [0x3B, 0x3A, 0x3B]) { attr := 2 } with | .ok s => decide (s = { attr := 2 }) | _ => false) = true := by
  decide

-- the hypothesis of `sgr_total` ("every parameter non-empty") is what the parser guarantees; it is sufficient, not necessary:
-- an empty parameter panics only when the loop reaches it (`params[i][0]`), not after a `return` or inside a passed-over form
example : (match parseSGR {} [[]] with | .error _ => true | _ => false) = true ∧
    (match parseSGR {} [[1], []] with | .error _ => true | _ => false) = true ∧
    (match parseSGR {} [[38], [5], []] with | .error _ => true | _ => false) = true ∧
    (match parseSGR {} [[38, 3, 7], []] with | .ok _ => true | _ => false) = true ∧
    (match ssSeq {} {} [[1], []] with | .error _ => true | _ => false) = true := by decide

/-! ### The bounds checks themselves, extracted (round 4)

`Model.Sgr.extColour` READS these numbers (`Cfg.nums`, from `Gen.SgrCases.parseSGRExt` / `emuSgrExt`): the legacy form is read only
when `len(params[i:]) ≥ legacyMin`, its RGB variant only when `len(params[i:]) ≥ rgbMin` (on the REST of the list — the seeded
C18-m6 change tested the whole list), the loop then jumps `i += idxSkip` / `i += rgbSkip`; the colon forms with 3 / 5 / 6
sub-parameters insist on the selectors `s3` / `s5` / `s6`.  `sgr_total` needs `legacyMin ≥ 3` and `rgbMin ≥ 5` (`C18.cfgs_nums_ok`,
`ext_bounds_safe`); the refinement / agreement theorems need the standard values (`Covers.nums`, `facts_ext_forms`).  The
extractor recognises exactly the shapes `len(params[i:]) < N { …; return }`, `i += K`, `params[i][1] != V { …; return }`; anything
else is listed in `…ExtUnknown` (no crash) and `facts_ext_forms` fails. -/

-- the model follows the numbers: with `len(params[i:]) < 4` for the RGB form it panics on `38;2;1;2`, with `< 2` before the
-- selector on `38;5` — as the Go code would
example : (match intSgr { parseCfg with ext := [(38, [3, 4, 2, 4, 5, 2, 2])] } {} [[38], [2], [1], [2]] with
    | .error _ => true | _ => false) = true ∧
    (match intSgr { parseCfg with ext := [(38, [2, 5, 2, 4, 5, 2, 2])] } {} [[38], [5]] with
    | .error _ => true | _ => false) = true ∧
    (match parseSGR {} [[38], [2], [1], [2]], parseSGR {} [[38], [5]] with
    | .ok a, .ok b => decide (a = {} ∧ b = {}) | _, _ => false) = true := by decide

theorem facts_ext_forms :
    SgrCases.parseSGRExt = [(38, [3, 5, 2, 4, 5, 2, 2]), (48, [3, 5, 2, 4, 5, 2, 2]), (58, [3, 5, 2, 4, 5, 2, 2])] ∧
    SgrCases.emuSgrExt = SgrCases.parseSGRExt ∧
    SgrCases.parseSGRExtUnknown = [] ∧ SgrCases.emuSgrExtUnknown = [] := by decide

/-- What never-panic needs of those numbers (weaker than `facts_ext_forms`): the selector `params[i+1][0]` and the index
    `params[i+2][0]` are read only when at least 3 parameters remain, `params[i+4][0]` only when at least 5 remain, and the jumps
    do not pass the parameters that were read. -/
theorem ext_bounds_safe :
    (SgrCases.parseSGRExt ++ SgrCases.emuSgrExt).all (fun r =>
      match r.2 with
      | [legacyMin, rgbMin, idxSkip, rgbSkip, _, _, _] => 3 ≤ legacyMin && 5 ≤ rgbMin && idxSkip + 1 ≤ legacyMin && rgbSkip + 1 ≤ rgbMin
      | _ => false) = true := by decide

/-! ### … and the parser itself does not panic on the way (composition with C02's invariant) -/

private theorem scan_no_parser_panic (cl : Str → Nat) : ∀ (fuel : Nat) (st : PState) (w : Str), VaxisModel.Props.C02.Inv st →
    Item.seq .panic ∉ scan cl fuel st w
  | 0, _, _, _ => by simp [scan]
  | _ + 1, _, [], _ => by simp [scan]
  | fuel + 1, st, r :: w, h => by
    obtain ⟨h1, h2, _⟩ := VaxisModel.Props.C02.invariant_step st h (.rune r)
    have hst := h1 rfl
    unfold scan
    simp only
    split
    · intro hm
      rcases List.mem_cons.mp hm with he | hm
      · cases he
      · exact scan_no_parser_panic cl fuel _ _ hst hm
    · intro hm
      rcases List.mem_append.mp hm with hm | hm
      · obtain ⟨y, hy, he⟩ := List.mem_map.mp hm
        cases he
        exact h2 hy
      · exact scan_no_parser_panic cl fuel _ _ hst hm

/-- **No panic anywhere on the way of `ParseStyledString`, for every string**: the parser model never emits its `panic` item
    (C02's invariant: the unguarded `p.exit()` is never a nil call) and `parseSGR` returns on every parameter list it is handed. -/
theorem sgr_total_parseStyled_bytes_parser (cl : Str → Nat) (s : Str) :
    Item.seq .panic ∉ tokenize cl s ∧ ∃ cs, parseStyledB cl s = .ok cs :=
  ⟨scan_no_parser_panic cl _ _ _ VaxisModel.Props.C02.inv_init, sgr_total_parseStyled_bytes cl s⟩

end VaxisModel.Props.C18Total
