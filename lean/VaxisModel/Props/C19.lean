import VaxisModel.Model.SimpleList
namespace VaxisModel.Props.C19
end VaxisModel.Props.C19
