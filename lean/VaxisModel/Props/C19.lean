/-
C19 — Lists and pagers: selection always valid and visible, content complete.
Property theorems only (helper lemmas live in Lemmas/).
-/
import VaxisModel.Model.ListGen
import VaxisModel.Lemmas.SimpleList
import VaxisModel.Lemmas.Pager
import VaxisModel.Lemmas.Scrollbar
import VaxisModel.Lemmas.DynList
import VaxisModel.Lemmas.DynListInv
import VaxisModel.Lemmas.DynCompose
import VaxisModel.Lemmas.DynComposeGutter
import VaxisModel.Model.Window

namespace VaxisModel.Props.C19
open VaxisModel VaxisModel.Model

/-! ## widgets/list

`SimpleList.gen` carries the `m.index = …` expressions and the empty-list guard exactly as the
extractor found them in widgets/list/list.go on this run, so the theorems below are re-checked
against the current source. -/

section SimpleList
open VaxisModel.Model.SimpleList VaxisModel.Lemmas.SimpleList

/-- **No panic, index in range** — for every item count (including 0) and every history of
    Down/Up/Home/End/PageDown/PageUp/SetItems/Draw with any window heights (including 0): no
    operation panics, the offset stays non-negative, and whenever there are items the index
    satisfies `0 ≤ index < n` (with no items it is 0). -/
theorem simple_list_safe (n : Nat) (ops : List Op) :
    ∃ s, run gen (new n) ops = .ok s ∧ 0 ≤ s.offset ∧ 0 ≤ s.index ∧
      (0 < s.n → s.index < (s.n : Int)) ∧ (s.n = 0 → s.index = 0) := by
  obtain ⟨s, he, h1, h2, h3⟩ := run_ok ops (new n) (inv_new n)
  exact ⟨s, he, h1, h2, by omega, by omega⟩

/-- **Selected row inside the viewport** — after any history, a `Draw` into a window of height
    `h > 0` does not panic and prints only rows `< h` showing existing items, a row is drawn
    selected iff it shows item `index`, and when there are items such a row exists. -/
theorem simple_list_selected_visible (n : Nat) (ops : List Op) (h : Nat) (hh : 0 < h) :
    ∃ s, run gen (new n) ops = .ok s ∧ ∃ s' rows, draw gen s h = .ok (s', rows) ∧
      s'.index = s.index ∧
      (∀ r ∈ rows, r.row < h ∧ 0 ≤ r.item ∧ r.item < (s.n : Int) ∧ (r.sel = true ↔ r.item = s.index)) ∧
      (0 < s.n → ∃ r ∈ rows, r.sel = true ∧ r.item = s.index) := by
  obtain ⟨s, he, hi⟩ := run_ok ops (new n) (inv_new n)
  obtain ⟨s', rows, hd, _, _, hidx, hrows⟩ := draw_ok s h hi
  refine ⟨s, he, s', rows, hd, hidx, ?_, ?_⟩
  · by_cases hn : 0 < s.n
    · obtain ⟨_, hr⟩ := hrows hn
      obtain ⟨f1, f2, _⟩ := follow_bounds s h hi hn
      intro r hmem
      rw [hr, mem_rows] at hmem
      obtain ⟨i, hlt, rfl⟩ := hmem
      dsimp only
      refine ⟨by omega, by omega, by omega, ?_⟩
      simp only [beq_iff_eq]
      omega
    · have h0 : s.n = 0 := by omega
      have : draw gen s h = .ok (s, []) := by
        simp [draw, gen, Gen.ListFacts.drawEmptyGuard, h0]
      rw [this] at hd
      cases hd
      intro r hr; cases hr
  · intro hn
    obtain ⟨_, hr⟩ := hrows hn
    obtain ⟨f1, f2, f3⟩ := follow_bounds s h hi hn
    obtain ⟨f4, f5⟩ := f3 hh
    obtain ⟨_, _, h3⟩ := hi
    refine ⟨{ row := (s.index - follow s h).toNat, item := follow s h + ((s.index - follow s h).toNat : Int), sel := (((s.index - follow s h).toNat : Int) == s.index - follow s h) }, ?_, ?_, ?_⟩
    · rw [hr, mem_rows]
      exact ⟨(s.index - follow s h).toNat, by omega, rfl⟩
    · simp only [beq_iff_eq]; omega
    · show follow s h + ((s.index - follow s h).toNat : Int) = s.index
      omega

/-- **Rows in order, contiguous, without overlap, complete** — after any history (including
    `SetItems` anywhere in it), `Draw` into a window of any height `h` prints row `k` for exactly the
    `k < min (n − offset) h`, in that order, and row `k` shows item `offset + k`: consecutive rows,
    consecutive items, no row printed twice, and the viewport is filled whenever enough items remain. -/
theorem simple_list_rows_in_order (n : Nat) (ops : List Op) (h : Nat) :
    ∃ s, run gen (new n) ops = .ok s ∧ ∃ s' rows, draw gen s h = .ok (s', rows) ∧
      (0 < s.n → rows.length = min (s.n - s'.offset.toNat) h) ∧ (s.n = 0 → rows = []) ∧
      ∀ (k : Nat) (r : Row), rows[k]? = some r → r.row = k ∧ r.item = s'.offset + (k : Int) := by
  obtain ⟨s, he, hi⟩ := run_ok ops (new n) (inv_new n)
  obtain ⟨s', rows, hd, _, _, _, hrows⟩ := draw_ok s h hi
  refine ⟨s, he, s', rows, hd, ?_, ?_, ?_⟩
  · intro hn
    obtain ⟨ho, hr⟩ := hrows hn
    rw [hr, ho]; simp [Model.SimpleList.rows]
  · intro h0
    have : draw gen s h = .ok (s, []) := by
      simp [draw, gen, Gen.ListFacts.drawEmptyGuard, h0]
    rw [this] at hd
    cases hd; rfl
  · intro k r hk
    by_cases hn : 0 < s.n
    · obtain ⟨ho, hr⟩ := hrows hn
      rw [hr] at hk
      have hmem := List.mem_of_getElem? hk
      simp only [Model.SimpleList.rows, List.getElem?_map] at hk
      cases hg : (List.range (min (s.n - (follow s h).toNat) h))[k]? with
      | none => rw [hg] at hk; cases hk
      | some i =>
        rw [hg] at hk
        have hik : i = k := by
          have hlt := Lemmas.DynList.getElem?_lt hg
          rw [List.getElem?_eq_getElem hlt, List.getElem_range] at hg
          exact (Option.some.inj hg).symm
        simp only [Option.map_some, Option.some.injEq] at hk
        subst hk; subst hik
        exact ⟨rfl, by rw [ho]⟩
    · have h0 : s.n = 0 := by omega
      have : draw gen s h = .ok (s, []) := by
        simp [draw, gen, Gen.ListFacts.drawEmptyGuard, h0]
      rw [this] at hd
      cases hd
      simp at hk

/-- **C19 × C11 — which `Println` calls draw.**  `List.Draw` calls `win.Println(i, …)` for EVERY item
    `i` from the offset on; the list model keeps only the rows `i < height`.  By C11's model of
    `Window.Println` (`Model/Window.lean`) this is exact: a call with a row at or beyond the window
    height draws nothing, and a call with a row inside the window writes only cells of that row. -/
theorem simple_list_println_rows (lib : Model.Window.Lib) (rm : Bool) (win : Model.Window.Win)
    (segs : List (Nat × List Model.Window.Raw)) (row : Int) :
    (row ≥ win.height → Model.Window.printlnOps lib rm win row segs = []) ∧
    (∀ op ∈ Model.Window.printlnOps lib rm win row segs, op.row = row ∧ row < win.height) := by
  constructor
  · intro h; simp [Model.Window.printlnOps, h]
  · intro op hop
    unfold Model.Window.printlnOps at hop
    split at hop
    · cases hop
    · rename_i hlt
      refine ⟨?_, by omega⟩
      have key : ∀ (l : List Model.Window.Styled) (col : Int), ∀ op ∈ Model.Window.lnGo lib rm win.width row l col, op.row = row := by
        intro l
        induction l with
        | nil => intro col op h; cases h
        | cons a rest ih =>
          intro col op h
          obtain ⟨st, ch0⟩ := a
          simp only [Model.Window.lnGo] at h
          split at h
          · cases h
          · rcases List.mem_cons.mp h with h | h
            · rw [h]
            · exact ih _ op h
      exact key _ _ op hop

/-- Non-vacuity: a concrete history on three items. -/
example : (match run gen (new 3) [.down, .down, .draw 2, .setItems 1, .draw 2, .«end»] with
    | .ok s => s.index == 0 && s.offset == 0 | .error _ => false) = true := by decide

end SimpleList

/-! ## widgets/pager

Graphemes and their widths are parameters: the theorems hold for every list of characters
`vaxis.Characters` may return (any bytes, any widths, even negative ones). -/

section Pager
open VaxisModel.Model.Pager VaxisModel.Lemmas.Pager

/-- The source appends a non-empty unterminated last line in `Layout` (regenerated fact). -/
theorem layout_flushes_last : Gen.ListFacts.layoutFlushesLast = true := by decide

/-- **Every line is presented** — for every text and every width, the laid-out lines concatenated
    are exactly the text's characters without the newline characters (nothing lost, nothing
    duplicated, order kept — this includes a last line that has no terminator), and every line
    respects the width: it has at most one character or all but its last character are narrower
    than the window (the last one, possibly a wide grapheme, is what reached the width). -/
theorem pager_complete (w : Int) (cs : List Ch) :
    (layout Gen.ListFacts.layoutFlushesLast w cs).flatten = cs.filter (fun c => !c.isNl) ∧
    ∀ l ∈ layout Gen.ListFacts.layoutFlushesLast w cs, l.length ≤ 1 ∨ widthSum l.dropLast < w := by
  rw [layout_flushes_last]
  exact ⟨layout_flatten w cs, layout_good true w cs⟩

/-- **Offset clamped** — after `Draw` into a `w × h` window from any pager state (any text, any
    offset however large or negative, any previous width) the offset satisfies
    `0 ≤ Offset ≤ max 0 (lines − h)`, and the lines are those of the text at width `w` whenever the
    width changed. -/
theorem pager_offset_clamped (s : St) (w h : Nat) :
    let s' := (draw Gen.ListFacts.layoutFlushesLast s w h).1
    0 ≤ s'.offset ∧ s'.offset ≤ max 0 ((s'.lines.length : Int) - h) ∧
      ((w : Int) ≠ s.width → s'.lines = layout Gen.ListFacts.layoutFlushesLast w s.text) := by
  simp only [draw]
  split
  · rename_i hw
    exact ⟨(clamp_bounds _ _ _).1, (clamp_bounds _ _ _).2, fun _ => rfl⟩
  · rename_i hw
    exact ⟨(clamp_bounds _ _ _).1, (clamp_bounds _ _ _).2, fun h => absurd h hw⟩

/-- **Offset clamped after every scroll sequence** — after ANY history of ScrollDown/ScrollUp/direct
    writes to `Offset`/text replacement/`Layout()`/`Draw` (any window sizes, zero included), from
    the initial pager, a `Draw` into a `w × h` window leaves `0 ≤ Offset ≤ max 0 (lines − h)`; and
    every later `Draw` into a window of the same width keeps the laid-out lines. -/
theorem pager_scroll_history (ops : List Op) (w h : Nat) :
    ∃ s', s' = (draw Gen.ListFacts.layoutFlushesLast (run Gen.ListFacts.layoutFlushesLast init ops) w h).1 ∧
      0 ≤ s'.offset ∧ s'.offset ≤ max 0 ((s'.lines.length : Int) - h) ∧ s'.width = w ∧
      (draw Gen.ListFacts.layoutFlushesLast s' w h).1 = s' := by
  obtain ⟨s, hs⟩ : ∃ x, x = run Gen.ListFacts.layoutFlushesLast init ops := ⟨_, rfl⟩
  rw [← hs]
  obtain ⟨h1, h2, _⟩ := pager_offset_clamped s w h
  have hw : (draw Gen.ListFacts.layoutFlushesLast s w h).1.width = (w : Int) := by
    simp only [draw]; split
    · rfl
    · rename_i hw; exact (Classical.not_not.mp hw).symm
  obtain ⟨s', hs'⟩ : ∃ x, x = (draw Gen.ListFacts.layoutFlushesLast s w h).1 := ⟨_, rfl⟩
  rw [← hs'] at h1 h2 hw
  refine ⟨s', hs', h1, h2, hw, ?_⟩
  have hidem : clampOffset s'.lines.length s'.offset h = s'.offset := by
    unfold clampOffset; simp only []
    split <;> split <;> omega
  simp only [draw, hw, ne_eq, not_true_eq_false, if_false, hidem]
  rw [← hw]

/-- **Draw presents the lines from the offset on** — the `h` rows drawn are the laid-out lines
    `offset, offset+1, …` (each through `drawRow`), followed by blank rows when the text ends. -/
theorem pager_draw_rows (s : St) (w h : Nat) (r : Nat) (hr : r < h) :
    (draw Gen.ListFacts.layoutFlushesLast s w h).2[r]? =
      some (match (draw Gen.ListFacts.layoutFlushesLast s w h).1.lines[(draw Gen.ListFacts.layoutFlushesLast s w h).1.offset.toNat + r]? with
        | some l => drawRow w l
        | none => List.replicate w none) := by
  simp only [draw]
  generalize (if (w : Int) ≠ s.width then { s with width := w, lines := layout Gen.ListFacts.layoutFlushesLast w s.text } else s) = s1
  generalize (clampOffset s1.lines.length s1.offset h).toNat = o
  by_cases hlt : o + r < s1.lines.length
  · have hv : r < ((s1.lines.drop o).take h).length := by simp; omega
    rw [List.getElem?_append_left (by simpa using hv)]
    simp [hr, List.getElem?_drop, hlt]
  · have hv : ((s1.lines.drop o).take h).length ≤ r := by simp; omega
    rw [List.getElem?_append_right (by simpa using hv)]
    have hnone : s1.lines[o + r]? = none := List.getElem?_eq_none (by omega)
    rw [hnone, List.getElem?_replicate]
    simp only [List.length_map, List.length_take, List.length_drop]
    split
    · rfl
    · omega

/-- **Every line can be presented** — for every pager state, every line `i` of the laid-out text
    and every window of `h ≥ 1` rows: scrolling to `Offset = i` and drawing (at the width the lines
    were laid out for) shows line `i` in one of the `h` rows — the clamping never makes a line
    unreachable, the last one included. -/
theorem pager_line_reachable (s : St) (w h : Nat) (hh : 1 ≤ h) (hw : (w : Int) = s.width)
    (i : Nat) (l : Line) (hi : s.lines[i]? = some l) :
    ∃ r, r < h ∧ (draw Gen.ListFacts.layoutFlushesLast { s with offset := (i : Int) } w h).2[r]? = some (drawRow w l) := by
  have hil : i < s.lines.length := Lemmas.DynList.getElem?_lt hi
  obtain ⟨off, hoff⟩ : ∃ o, o = clampOffset s.lines.length (i : Int) h := ⟨_, rfl⟩
  have hb : 0 ≤ off ∧ off ≤ (i : Int) ∧ (i : Int) < off + h := by
    rw [hoff]; unfold clampOffset; simp only []
    split <;> split <;> omega
  have hst : (draw Gen.ListFacts.layoutFlushesLast { s with offset := (i : Int) } w h).1 = { s with offset := off } := by
    simp only [draw, hw, ne_eq, not_true_eq_false, if_false]
    rw [hoff]
  refine ⟨i - off.toNat, by omega, ?_⟩
  have hrow := pager_draw_rows { s with offset := (i : Int) } w h (i - off.toNat) (by omega)
  rw [hrow, hst]
  have : off.toNat + (i - off.toNat) = i := by omega
  simp only [this, hi]

/-- **No character is lost on the drawn row** — a laid-out line (it respects the width, see
    `pager_complete`) whose characters are at least one column wide is drawn, in a window of width
    `w ≥ 1`, with EVERY character in its own cell: character `k` at the column that is the total width
    of the characters before it, which lies inside the window — also a wide grapheme that ends the
    line at the right edge. -/
theorem pager_row_keeps_characters (w : Nat) (hw : 1 ≤ w) (cs : List Ch) (hpos : ∀ c ∈ cs, c.isNl = false → 1 ≤ c.width)
    (l : Line) (hl : l ∈ layout Gen.ListFacts.layoutFlushesLast w cs) (k : Nat) (c : Ch) (hk : l[k]? = some c) :
    widthSum (l.take k) < w ∧ (drawRow w l)[(widthSum (l.take k)).toNat]? = some (some c) := by
  have hg : Good w l := layout_good _ w cs l hl
  have hsub : ∀ c ∈ l, 1 ≤ c.width := by
    intro c hc
    have hfl : c ∈ (layout Gen.ListFacts.layoutFlushesLast w cs).flatten := List.mem_flatten.mpr ⟨l, hl, hc⟩
    rw [(pager_complete w cs).1, List.mem_filter] at hfl
    exact hpos c hfl.1 (by simpa using hfl.2)
  have hcol := good_cols w hw l hg hsub k c hk
  refine ⟨hcol, ?_⟩
  have := (go_spec w l (List.replicate w none) 0 (Int.le_refl 0) hsub (by simp)).2.2 k c hk (by omega)
  simpa [drawRow] using this

/-- **C19 × C11 — `SetCell` outside the window.**  The pager draws a line by `win.SetCell(col, row, …)`
    for every character, the scrollbar by `win.SetCell(0, barTop+i, …)`; the models keep only the
    cells with `0 ≤ col < width`, `0 ≤ row < height`.  By C11's model of `Window.SetCell`
    (`Model/Window.lean`) this is exact: a call outside that range leaves the screen unchanged. -/
theorem setcell_outside_ignored (win : Model.Window.Win) (scr : Model.Window.Screen) (col row : Int)
    (c : Model.Window.Cell) (h : ¬ (0 ≤ col ∧ col < win.width ∧ 0 ≤ row ∧ row < win.height)) :
    win.setCell scr col row c = scr := by
  have hg : win.guard col row = false := by
    unfold Model.Window.Win.guard
    split
    · rfl
    · split
      · rfl
      · omega
  cases win with
  | root c0 r0 w hh => simp only [Model.Window.Win.setCell, Model.Window.Win.put, hg]; rfl
  | child c0 r0 w hh par => simp only [Model.Window.Win.setCell, Model.Window.Win.put, hg]; rfl

/-- Non-vacuity: a wide character at the right edge of a 3-column window: "ab" + wide → the wide one
    starts in column 2. -/
example : drawRow 3 [⟨[97], 1⟩, ⟨[98], 1⟩, ⟨[0xe4], 2⟩] = [some ⟨[97], 1⟩, some ⟨[98], 1⟩, some ⟨[0xe4], 2⟩] := by decide

/-- Non-vacuity: "ab", newline, "c" without terminator at width 2 gives the lines "ab", "", "c"
    (the empty line is the newline met right after the wrap). -/
example :
    (layout true 2 [⟨[97], 1⟩, ⟨[98], 1⟩, ⟨[10], 0⟩, ⟨[99], 1⟩]).map (·.map (·.bytes))
      = [[[97], [98]], [], [[99]]] := by decide

end Pager

/-! ## widgets/scrollbar -/

section Scrollbar
open VaxisModel.Model.Scrollbar

/-- **Bar inside the track** — for every real scroll position (`1 ≤ view < total`,
    `0 ≤ top ≤ total − view`) and every window height `h ≥ 1`, the scrollbar draws a bar of at least
    one row that lies entirely within rows `0 … h−1`. -/
theorem scrollbar_in_track (total view top h : Int)
    (hv : 1 ≤ view) (hvt : view < total) (ht0 : 0 ≤ top) (ht : top ≤ total - view) (hh : 1 ≤ h) :
    ∃ b, bar total view top h = some b ∧ 0 ≤ b.top ∧ 1 ≤ b.len ∧ b.top + b.len ≤ h :=
  Lemmas.Scrollbar.bar_in_track total view top h hv hvt ht0 ht hh

example : bar 10 3 7 5 = some ⟨3, 1⟩ := by decide

/-- **Every input, zero sizes included** — for ALL `TotalHeight`, `ViewHeight`, `Top` (any integers,
    valid or not) and every window height `h ≥ 0`: only rows inside the window receive the bar; and
    nothing at all is drawn when there is no content (`total < 1`), when the content fits the
    viewport (`view ≥ total`), or when the window has no rows.  (`TotalHeight` is the only divisor and
    is ≥ 1 wherever the code divides.) -/
theorem scrollbar_all_inputs (total view top : Int) (h : Nat) :
    (∀ r ∈ rows total view top h, r < h) ∧
    ((total < 1 ∨ view ≥ total ∨ h = 0) → rows total view top h = []) := by
  constructor
  · intro r hr
    unfold rows at hr
    split at hr
    · cases hr
    · exact List.mem_range.mp (List.mem_filter.mp hr).1
  · intro hc
    unfold rows
    rcases hc with hc | hc | hc
    · simp [bar, hc]
    · have : bar total view top h = none := by unfold bar; split <;> simp
      rw [this]
    · subst hc; split <;> simp

example : rows 10 3 7 5 = [3] := by decide

end Scrollbar

/-! ## vxfw/list `Dynamic`

The Builder is any list `hs` of widget heights (`nil` past its end); in a history the application
may replace it at any point (`HOp.items`) without telling `Dynamic`.  `DynList.genFacts` carries the
regenerated facts that six repairs are present in the source: the cursor-gutter guard (F119),
the stop condition of `insertChildren` (F119f), the walk back to an existing top widget at the
start of `Draw` (F119b), the gap counted by the upward-scroll code and the re-anchoring loop
(F119c), the wants-cursor block revealing a widget above the viewport (F119d), and the child index
compared as a `uint` (F119h).  The seventh
repair (F119g: `ensureScroll` drops a pending scroll when it moves the top to the cursor) is part
of `DynList.ensureScroll` itself, which `Props/C19Tie.lean` proves equal to the regenerated
syntax of the method, interpreted. -/

section Dyn
open VaxisModel.Model.DynList VaxisModel.Lemmas.DynList

/-- The source carries all six repairs. -/
theorem dyn_repairs_present : genFacts = Facts.fixed := by decide

/-- **Layout — every gap, every state.**  Every `Draw`, from ANY scroll state (cursor, top, offset,
    pending scroll, wants-cursor flag — reachable or not, stale after a replacement of the items or
    not), for any gap, any builder heights and any viewport, returns its children in index order,
    each directly below the previous one plus the gap, and each with the height of its builder
    widget.  (Before repair F119c this was false for gap > 0 after an upward scroll:
    `Witness.F119.dyn_layout_fails_unfixed`.) -/
theorem dyn_layout (cfg : Cfg) (hs : List Nat) (s : St) (W H : Nat) (s' : St) (cs : List Child)
    (hU : s.top < U) (he : draw genFacts cfg hs s W H = .ok (s', cs)) :
    Contig cfg.gap cs ∧ Heights hs cs := by
  rw [dyn_repairs_present] at he
  exact draw_layout _ cfg hs s W H hU rfl (Or.inl rfl) s' cs he

/-- Contiguity means: consecutive indices, no overlap and no hole (unfolding of `Contig`). -/
theorem contig_pair (gap : Int) (c d : Child) (rest : List Child) (h : Contig gap (c :: d :: rest)) :
    d.idx = c.idx + 1 ∧ d.row = c.row + (c.height : Int) + gap ∧ Contig gap (d :: rest) :=
  ⟨h.1.1, h.1.2, h.2⟩

/-- **No overlap, in order** — with a gap ≥ 0 any two children returned by a `Draw` (from any state)
    are in index order and the earlier one ends (with its gap) at or above the row where the later
    one starts. -/
theorem dyn_no_overlap (cfg : Cfg) (hgap : 0 ≤ cfg.gap) (hs : List Nat) (s : St) (W H : Nat) (s' : St) (cs : List Child)
    (hU : s.top < U) (he : draw genFacts cfg hs s W H = .ok (s', cs))
    (i j : Nat) (ci cj : Child) (hij : i < j) (hi : cs[i]? = some ci) (hj : cs[j]? = some cj) :
    ci.idx < cj.idx ∧ ci.row + (ci.height : Int) + cfg.gap ≤ cj.row :=
  contig_pairwise hgap cs (dyn_layout cfg hs s W H s' cs hU he).1 i j ci cj hij hi hj

/-- Non-vacuity of `dyn_layout`: gap 1, three items, scrolled up by two rows from the second. -/
example : (match draw Facts.fixed ⟨1, false⟩ [2, 3, 1] ⟨1, 1, 0, -2, false⟩ 4 3 with
    | .ok (_, cs) => cs.map (fun c => (c.idx, c.row, c.height)) == [(0, -1, 2), (1, 2, 3)]
    | .error _ => false) = true := by decide

/-- **No panic with 0 items** — for a Builder that has no widgets, every history of
    SetCursor/NextItem/PrevItem/wheel/SetPendingScroll/Draw (ANY cursor a `uint` can hold — e.g.
    `SetCursor(uint(len(items)-1))` = 2^64−1 on the empty list —, bounded draw contexts, ANY gap
    even negative, with or without the cursor gutter) runs without panic. -/
theorem dyn_no_panic_empty (cfg : Cfg) (ops : List Op) (ho : ∀ op ∈ ops, OpOk op) :
    ∃ s, run genFacts cfg [] init ops = .ok s :=
  let ⟨s, he, _⟩ := run_empty _ (by rw [dyn_repairs_present]; rfl) cfg ops init ⟨rfl, by unfold U; decide⟩ ho
  ⟨s, he⟩

/-- **No panic — all histories, all gaps ≥ 0, items replaced at will.**  For every initial builder
    and every history of SetCursor/NextItem/PrevItem/wheel/SetPendingScroll/Draw interleaved with
    replacements of the Builder's items by any other list (more, fewer, other heights, none), with
    or without the cursor gutter, any viewport sizes including 0 rows (ANY `uint` cursor passed to
    SetCursor, bounded draw contexts, fewer than 2^63 items): nothing panics, the top index stays
    below 2^63, and a pending wants-cursor request has `top ≤ cursor`. -/
theorem dyn_no_panic (cfg : Cfg) (hgap : 0 ≤ cfg.gap) (hs : List Nat) (hlen : hs.length < 2 ^ 63)
    (ops : List HOp) (ho : ∀ op ∈ ops, HOpOk op) :
    ∃ hs' s, runH genFacts cfg hs init ops = .ok (hs', s) ∧ s.top < 2 ^ 63 ∧ s.cursor < U ∧
      (s.wantsCursor = true → s.top ≤ s.cursor) := by
  rw [dyn_repairs_present]
  obtain ⟨hs', s, he, hi, _⟩ := runH_inv cfg hgap ops hs init hlen init_inv ho
  exact ⟨hs', s, he, hi.top_ok, hi.cur_ok, hi.wants_ok⟩

/-- **The top index refers to an existing item** — after every `Draw` (from any state satisfying the
    history invariant, any builder, gap ≥ 0) the top index is 0 or the index of an item the Builder
    has now; and over histories with a fixed builder it is so at every point. -/
theorem dyn_top_valid (cfg : Cfg) (hgap : 0 ≤ cfg.gap) (hs : List Nat) (hlen : hs.length < 2 ^ 63)
    (ops : List Op) (ho : ∀ op ∈ ops, OpOk op) :
    ∃ s, run genFacts cfg hs init ops = .ok s ∧ (s.top = 0 ∨ s.top < hs.length) ∧ s.cursor < U := by
  rw [dyn_repairs_present]
  obtain ⟨s, he, hi, ht⟩ := run_inv_top cfg hgap hs hlen ops init init_inv (Or.inl rfl) ho
  exact ⟨s, he, ht, hi.cur_ok⟩

/-- **The scroll state describes what was drawn** — after any history (gap ≥ 0, items replaced at
    will), every `Draw` leaves `scroll.top`/`scroll.offset` anchored on the child that covers row 0
    (together with the gap below it): that child is item `top` and starts `offset` rows above row 0.
    And the first child never starts below row 0 (no blank rows above the first drawn item). -/
theorem dyn_anchor (cfg : Cfg) (hgap : 0 ≤ cfg.gap) (hs0 : List Nat) (hlen0 : hs0.length < 2 ^ 63)
    (ops : List HOp) (ho : ∀ op ∈ ops, HOpOk op) (hs : List Nat) (s : St)
    (hrun : runH genFacts cfg hs0 init ops = .ok (hs, s))
    (W H : Nat) (hW : W ≠ 65535) (hH : H ≠ 65535) :
    ∃ s' cs, draw genFacts cfg hs s W H = .ok (s', cs) ∧
      (∀ (k : Nat) (c : Child), cs[k]? = some c → c.row ≤ 0 → 0 < c.row + (c.height : Int) + cfg.gap →
        s'.top = c.idx ∧ s'.offset = - c.row) ∧
      (∀ f, cs.head? = some f → f.row ≤ 0) := by
  rw [dyn_repairs_present] at hrun ⊢
  obtain ⟨hs', s1, he, hi, hl⟩ := runH_inv cfg hgap ops hs0 init hlen0 init_inv ho
  rw [hrun] at he; cases he
  obtain ⟨s', cs, hd, _⟩ := draw_inv cfg hgap hs hl s W H hW hH hi
  exact ⟨s', cs, hd, fun k c hk h1 h2 => draw_anchor cfg hgap hs hl s W H hW hH hi s' cs hd k c hk ⟨h1, h2⟩,
    fun f hf => draw_first_row cfg hgap hs hl s W H hW hH hi s' cs hd f hf⟩

/-- **NextItem / PrevItem keep the selection on an existing item** — whenever they move the cursor
    (return a command) the new cursor is the index of an item the Builder has. -/
theorem dyn_next_prev_in_range (hs : List Nat) (s s1 : St) (hcu : s.cursor < U)
    (hmove : (nextItem hs s = (s1, true)) ∨ (prevItem hs s = (s1, true))) : s1.cursor < hs.length := by
  obtain ⟨c, hc, _, e2⟩ := next_prev_cases hs s s1 hcu hmove
  rw [e2]; exact hc

/-- **Selected item visible — from ANY scroll state.**  For every builder, every gap, every viewport
    of ≥ 1 row: from any state with a sane top index (whatever top, offset, the pending scroll and
    the wants-cursor flag are — e.g. stale after the items were replaced, or a wheel scroll
    requested before the cursor moves), `SetCursor(c)` to an
    existing item of height ≥ 1 followed by `Draw` does not panic and returns a child for item `c`
    whose rows intersect the viewport and which lies fully inside the viewport when it fits. -/
theorem dyn_cursor_visible_any_state (cfg : Cfg) (hs : List Nat) (hlen : hs.length < 2 ^ 63) (s : St) (c W H hc : Nat)
    (hW : W ≠ 65535) (hH : H ≠ 65535) (hH1 : 1 ≤ H)
    (ht : s.top < 2 ^ 63) (hcur : hs[c]? = some hc) (hc1 : 1 ≤ hc) :
    ∃ s' cs, draw genFacts cfg hs (setCursor s c) W H = .ok (s', cs) ∧
      ∃ ch ∈ cs, ch.idx = c ∧ ch.height = hc ∧ Visible H ch := by
  rw [dyn_repairs_present]
  exact ensureScroll_draw_visible cfg hs hlen s c W H hc hW hH hH1 ht hcur hc1

/-- **Selected item visible — all histories, all gaps ≥ 0, items replaced at will.**  After ANY
    history from the initial state (SetCursor/NextItem/PrevItem/wheel/SetPendingScroll/Draw with any
    viewports, interleaved with replacements of the Builder's items) — also one that leaves a scroll
    pending: `SetCursor(c)` to an item the Builder has now (height ≥ 1) followed by `Draw` into a viewport of
    ≥ 1 row does not panic and shows item `c`: its rows intersect the viewport, and it is fully
    inside when it fits. -/
theorem dyn_cursor_visible (cfg : Cfg) (hgap : 0 ≤ cfg.gap) (hs0 : List Nat) (hlen0 : hs0.length < 2 ^ 63)
    (ops : List HOp) (ho : ∀ op ∈ ops, HOpOk op) (hs : List Nat) (s : St)
    (hrun : runH genFacts cfg hs0 init ops = .ok (hs, s))
    (c W H hc : Nat) (hW : W ≠ 65535) (hH : H ≠ 65535) (hH1 : 1 ≤ H)
    (hcur : hs[c]? = some hc) (hc1 : 1 ≤ hc) :
    ∃ s' cs, draw genFacts cfg hs (setCursor s c) W H = .ok (s', cs) ∧
      ∃ ch ∈ cs, ch.idx = c ∧ ch.height = hc ∧ Visible H ch := by
  have hrun' := hrun
  rw [dyn_repairs_present] at hrun'
  obtain ⟨hs', s1, he, hi, hl⟩ := runH_inv cfg hgap ops hs0 init hlen0 init_inv ho
  rw [hrun'] at he; cases he
  exact dyn_cursor_visible_any_state cfg hs hl s c W H hc hW hH hH1 hi.top_ok hcur hc1

/-- **C19 × C14 — the selected item is what the painter's algorithm shows.**  After any history (gap
    ≥ 0, items replaced at will), `SetCursor(c)` + `Draw` into a `W × H` viewport: take the returned
    children as the surface tree `dynTree` (the list's surface of size `W × H` with own buffer
    `pbuf`, child `j` a leaf at column `col` — the gutter offset — and its row, `lf j` = what widget
    `j` drew, a buffer of its width × its height).  Then at EVERY position of the selected child's
    rectangle that lies inside the viewport and a `sw × sh` screen, the top layer of C14's painter's
    algorithm (`Spec.Surface.layers`/`topAt`, which `Props.C14.run_frame_paints` proves to be the
    screen content after a frame of `App.Run`) is the selected widget's own cell — it is not covered
    by a sibling or by the list; and the selected child is visible (`Visible`), so such rows exist. -/
theorem dyn_selected_on_top (cfg : Cfg) (hgap : 0 ≤ cfg.gap) (hs0 : List Nat) (hlen0 : hs0.length < 2 ^ 63)
    (ops : List HOp) (ho : ∀ op ∈ ops, HOpOk op) (hs : List Nat) (s : St)
    (hrun : runH genFacts cfg hs0 init ops = .ok (hs, s))
    (c W H hc : Nat) (hW : W ≠ 65535) (hH : H ≠ 65535) (hH1 : 1 ≤ H)
    (hcur : hs[c]? = some hc) (hc1 : 1 ≤ hc)
    (sw sh : Nat) (pbuf : List Model.Window.Cell) (col : Int) (lf : Nat → Lemmas.DynCompose.Leaf)
    (hbuf : (lf c).buf.length = (lf c).w * hc) :
    ∃ s' cs, draw genFacts cfg hs (setCursor s c) W H = .ok (s', cs) ∧
      ∃ ch ∈ cs, ch.idx = c ∧ ch.height = hc ∧ Visible H ch ∧
        ∀ (x y : Int), 0 ≤ x → x < sw → x < W → col ≤ x → x < col + (lf c).w →
          0 ≤ y → y < sh → y < H → ch.row ≤ y → y < ch.row + (hc : Int) →
          ∃ cell, (lf c).buf[(y - ch.row).toNat * (lf c).w + (x - col).toNat]? = some cell ∧
            Spec.Surface.topAt (Spec.Surface.layers true (Lemmas.DynCompose.dynTree W H pbuf col lf cs) 0 0
              { x0 := 0, y0 := 0, x1 := sw, y1 := sh }) x y = some cell := by
  obtain ⟨s', cs, hd, ch, hmem, hidx, hh, hvis⟩ :=
    dyn_cursor_visible cfg hgap hs0 hlen0 ops ho hs s hrun c W H hc hW hH hH1 hcur hc1
  have hU : (setCursor s c).top < U := by
    have hrun' := hrun
    rw [dyn_repairs_present] at hrun'
    obtain ⟨_, s1, he, hi, _⟩ := runH_inv cfg hgap ops hs0 init hlen0 init_inv ho
    rw [hrun'] at he; cases he
    have hcn : c < hs.length := getElem?_lt hcur
    have := (ensureScroll_inv s c hi.top_ok (by unfold U; omega)).top_ok
    unfold U; unfold setCursor; omega
  have hlay := (dyn_layout cfg hs (setCursor s c) W H s' cs hU hd).1
  obtain ⟨k, hk⟩ := List.getElem?_of_mem hmem
  refine ⟨s', cs, hd, ch, hmem, hidx, hh, hvis, ?_⟩
  intro x y hx0 hxs hxW hxc hxw hy0 hys hyH hyr hyb
  have := Lemmas.DynCompose.child_on_top W H sw sh pbuf col lf cfg.gap hgap cs hlay k ch hk
    (by rw [hidx, hh]; exact hbuf) x y hx0 hxs hxW hxc (by rw [hidx]; exact hxw) hy0 hys hyH hyr (by rw [hh]; exact hyb)
  rw [hidx] at this
  exact this

/-- Non-vacuity of `dyn_selected_on_top`: two items of height 1 with gap 1 in a 4 × 3 viewport,
    the second selected: its cell (grapheme 7) is on top at (0, 2). -/
example : Spec.Surface.topAt (Spec.Surface.layers true
      (Lemmas.DynCompose.dynTree 4 3 [] 0 (fun j => ⟨1, [⟨5 + 2 * j, 1, 0⟩]⟩) [⟨0, 0, 1⟩, ⟨1, 2, 1⟩]) 0 0
      { x0 := 0, y0 := 0, x1 := 10, y1 := 10 }) 0 2 = some ⟨7, 1, 0⟩ := by decide

/-- **… and with the cursor gutter (`DrawCursor`)**: `Draw` replaces the selected child by the cursor
    surface `cur` — full width, at column 0 and the child's row, its own buffer `curbuf` holding the `▐`
    column — whose only child is the widget's surface at column `col` (= 2): the two-level tree
    `dynTreeG`.  After any history, `SetCursor(c)` + `Draw`: the children split as `pre ++ ch :: post`
    around the selected one, and at every position of the widget's rectangle inside the viewport and the
    screen the top layer of the painter's algorithm is still the selected widget's own cell — the glyph
    surface lies UNDER its child, no sibling overlaps. -/
theorem dyn_selected_on_top_gutter (cfg : Cfg) (hgap : 0 ≤ cfg.gap) (hs0 : List Nat) (hlen0 : hs0.length < 2 ^ 63)
    (ops : List HOp) (ho : ∀ op ∈ ops, HOpOk op) (hs : List Nat) (s : St)
    (hrun : runH genFacts cfg hs0 init ops = .ok (hs, s))
    (c W H hc : Nat) (hW : W ≠ 65535) (hH : H ≠ 65535) (hH1 : 1 ≤ H)
    (hcur : hs[c]? = some hc) (hc1 : 1 ≤ hc)
    (sw sh : Nat) (pbuf curbuf : List Model.Window.Cell) (col : Int) (lf : Nat → Lemmas.DynCompose.Leaf)
    (hbuf : (lf c).buf.length = (lf c).w * hc) :
    ∃ s' pre ch post, draw genFacts cfg hs (setCursor s c) W H = .ok (s', pre ++ ch :: post) ∧
      ch.idx = c ∧ ch.height = hc ∧ Visible H ch ∧
        ∀ (x y : Int), 0 ≤ x → x < sw → x < W → col ≤ x → x < col + (lf c).w →
          0 ≤ y → y < sh → y < H → ch.row ≤ y → y < ch.row + (hc : Int) →
          ∃ cell, (lf c).buf[(y - ch.row).toNat * (lf c).w + (x - col).toNat]? = some cell ∧
            Spec.Surface.topAt (Spec.Surface.layers true (Lemmas.DynCompose.dynTreeG W H pbuf curbuf col lf pre ch post) 0 0
              { x0 := 0, y0 := 0, x1 := sw, y1 := sh }) x y = some cell := by
  obtain ⟨s', cs, hd, ch, hmem, hidx, hh, hvis⟩ :=
    dyn_cursor_visible cfg hgap hs0 hlen0 ops ho hs s hrun c W H hc hW hH hH1 hcur hc1
  have hU : (setCursor s c).top < U := by
    have hrun' := hrun
    rw [dyn_repairs_present] at hrun'
    obtain ⟨_, s1, he, hi, _⟩ := runH_inv cfg hgap ops hs0 init hlen0 init_inv ho
    rw [hrun'] at he; cases he
    have hcn : c < hs.length := getElem?_lt hcur
    have := (ensureScroll_inv s c hi.top_ok (by unfold U; omega)).top_ok
    unfold U; unfold setCursor; omega
  have hlay := (dyn_layout cfg hs (setCursor s c) W H s' cs hU hd).1
  obtain ⟨pre, post, hsplit⟩ := List.append_of_mem hmem
  subst hsplit
  refine ⟨s', pre, ch, post, hd, hidx, hh, hvis, ?_⟩
  intro x y hx0 hxs hxW hxc hxw hy0 hys hyH hyr hyb
  have := Lemmas.DynCompose.child_on_top_gutter W H sw sh pbuf curbuf col lf cfg.gap hgap pre ch post hlay
    (by rw [hidx, hh]; exact hbuf) x y hx0 hxs hxW hxc (by rw [hidx]; exact hxw) hy0 hys hyH hyr (by rw [hh]; exact hyb)
  rw [hidx] at this
  exact this

/-- Non-vacuity of `dyn_selected_on_top_gutter`: two items of height 1, the second selected and wrapped
    in the cursor surface (glyph 9 in column 0): the widget's cell (grapheme 7) is on top at (2, 1), the
    glyph at (0, 1). -/
example :
    let t := Lemmas.DynCompose.dynTreeG 4 3 [] [⟨9, 1, 0⟩, ⟨0, 1, 0⟩, ⟨0, 1, 0⟩, ⟨0, 1, 0⟩] 2 (fun j => ⟨1, [⟨5 + 2 * j, 1, 0⟩]⟩)
      [⟨0, 0, 1⟩] ⟨1, 1, 1⟩ []
    Spec.Surface.topAt (Spec.Surface.layers true t 0 0 { x0 := 0, y0 := 0, x1 := 10, y1 := 10 }) 2 1 = some ⟨7, 1, 0⟩ ∧
    Spec.Surface.topAt (Spec.Surface.layers true t 0 0 { x0 := 0, y0 := 0, x1 := 10, y1 := 10 }) 0 1 = some ⟨9, 1, 0⟩ := by decide

/-- The same for `NextItem` / `PrevItem` from any state (when they move the cursor, i.e. return a
    command; the newly selected item has height ≥ 1). -/
theorem dyn_next_prev_visible_any_state (cfg : Cfg) (hs : List Nat) (hlen : hs.length < 2 ^ 63) (s : St) (W H : Nat)
    (hW : W ≠ 65535) (hH : H ≠ 65535) (hH1 : 1 ≤ H)
    (ht : s.top < 2 ^ 63) (hcu : s.cursor < U)
    (s1 : St) (hmove : (nextItem hs s = (s1, true)) ∨ (prevItem hs s = (s1, true)))
    (hpos : ∀ h, hs[s1.cursor]? = some h → 1 ≤ h) :
    ∃ s' cs, draw genFacts cfg hs s1 W H = .ok (s', cs) ∧
      ∃ ch ∈ cs, ch.idx = s1.cursor ∧ Visible H ch := by
  rw [dyn_repairs_present]
  obtain ⟨c, hc, e1, e2⟩ := next_prev_cases hs s s1 hcu hmove
  have hget : hs[c]? = some (hs[c]'hc) := List.getElem?_eq_getElem hc
  obtain ⟨s', cs, hd, ch, hm, hi, _, hv⟩ :=
    ensureScroll_draw_visible cfg hs hlen s c W H (hs[c]'hc) hW hH hH1 ht hget (hpos _ (by rw [e2]; exact hget))
  exact ⟨s', cs, by rw [e1]; exact hd, ch, hm, by rw [e2]; exact hi, hv⟩

/-- **NextItem / PrevItem show the selection — all histories, all gaps ≥ 0, items replaced at will**
    (the newly selected item has height ≥ 1; the other items may have any height, 0 included). -/
theorem dyn_next_prev_visible (cfg : Cfg) (hgap : 0 ≤ cfg.gap) (hs0 : List Nat) (hlen0 : hs0.length < 2 ^ 63)
    (ops : List HOp) (ho : ∀ op ∈ ops, HOpOk op) (hs : List Nat) (s : St)
    (hrun : runH genFacts cfg hs0 init ops = .ok (hs, s))
    (W H : Nat) (hW : W ≠ 65535) (hH : H ≠ 65535) (hH1 : 1 ≤ H)
    (s1 : St) (hmove : (nextItem hs s = (s1, true)) ∨ (prevItem hs s = (s1, true)))
    (hpos : ∀ h, hs[s1.cursor]? = some h → 1 ≤ h) :
    ∃ s' cs, draw genFacts cfg hs s1 W H = .ok (s', cs) ∧
      ∃ ch ∈ cs, ch.idx = s1.cursor ∧ Visible H ch := by
  have hrun' := hrun
  rw [dyn_repairs_present] at hrun'
  obtain ⟨hs', s0, he, hi, hl⟩ := runH_inv cfg hgap ops hs0 init hlen0 init_inv ho
  rw [hrun'] at he; cases he
  exact dyn_next_prev_visible_any_state cfg hs hl s W H hW hH hH1 hi.top_ok hi.cur_ok s1 hmove hpos

/-- Non-vacuity of the history theorems: a concrete history with gap 1 in which the items are
    replaced by fewer than the top index. -/
example : (match runH Facts.fixed ⟨1, true⟩ [1, 1, 5, 2] init
      [.op (.setCursor 3), .op (.draw 4 2), .op (.pending (-2)), .items [2], .op (.draw 4 5), .op .wheelDown,
       .op (.draw 4 5), .items [1, 1, 1], .op .next] with
    | .ok (hs, s) => s.pending == 0 && hs.length == 3 | .error _ => false) = true := by decide

/-- Non-vacuity: a stale state (top item 1, offset 7 — more than all the content) with gap 2; the
    cursor moved to item 3 is shown at the bottom of the 3-row viewport. -/
example : (match draw Facts.fixed ⟨2, false⟩ [2, 3, 1, 2] (setCursor ⟨1, 1, 30, 0, false⟩ 3) 4 3 with
    | .ok (_, cs) => cs.map (fun c => (c.idx, c.row, c.height)) == [(1, -8, 3), (2, -3, 1), (3, 0, 2)]
    | .error _ => false) = true := by decide

end Dyn

end VaxisModel.Props.C19
