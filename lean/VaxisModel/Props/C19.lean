/-
C19 — Lists and pagers: selection always valid and visible, content complete.
Property theorems only (helper lemmas live in Lemmas/).
-/
import VaxisModel.Model.ListGen
import VaxisModel.Lemmas.SimpleList
import VaxisModel.Lemmas.Pager
import VaxisModel.Lemmas.Scrollbar
import VaxisModel.Lemmas.DynList
import VaxisModel.Lemmas.DynListInv

namespace VaxisModel.Props.C19
open VaxisModel VaxisModel.Model

/-! ## widgets/list

`SimpleList.gen` carries the `m.index = …` expressions and the empty-list guard exactly as the
extractor found them in widgets/list/list.go on this run, so the theorems below are re-checked
against the current source. -/

section SimpleList
open VaxisModel.Model.SimpleList VaxisModel.Lemmas.SimpleList

/-- **No panic, index in range** — for every item count (including 0) and every history of
    Down/Up/Home/End/PageDown/PageUp/SetItems/Draw with any window heights (including 0): no
    operation panics, the offset stays non-negative, and whenever there are items the index
    satisfies `0 ≤ index < n` (with no items it is 0). -/
theorem simple_list_safe (n : Nat) (ops : List Op) :
    ∃ s, run gen (new n) ops = .ok s ∧ 0 ≤ s.offset ∧ 0 ≤ s.index ∧
      (0 < s.n → s.index < (s.n : Int)) ∧ (s.n = 0 → s.index = 0) := by
  obtain ⟨s, he, h1, h2, h3⟩ := run_ok ops (new n) (inv_new n)
  exact ⟨s, he, h1, h2, by omega, by omega⟩

/-- **Selected row inside the viewport** — after any history, a `Draw` into a window of height
    `h > 0` does not panic and prints only rows `< h` showing existing items, a row is drawn
    selected iff it shows item `index`, and when there are items such a row exists. -/
theorem simple_list_selected_visible (n : Nat) (ops : List Op) (h : Nat) (hh : 0 < h) :
    ∃ s, run gen (new n) ops = .ok s ∧ ∃ s' rows, draw gen s h = .ok (s', rows) ∧
      s'.index = s.index ∧
      (∀ r ∈ rows, r.row < h ∧ 0 ≤ r.item ∧ r.item < (s.n : Int) ∧ (r.sel = true ↔ r.item = s.index)) ∧
      (0 < s.n → ∃ r ∈ rows, r.sel = true ∧ r.item = s.index) := by
  obtain ⟨s, he, hi⟩ := run_ok ops (new n) (inv_new n)
  obtain ⟨s', rows, hd, _, _, hidx, hrows⟩ := draw_ok s h hi
  refine ⟨s, he, s', rows, hd, hidx, ?_, ?_⟩
  · by_cases hn : 0 < s.n
    · obtain ⟨_, hr⟩ := hrows hn
      obtain ⟨f1, f2, _⟩ := follow_bounds s h hi hn
      intro r hmem
      rw [hr, mem_rows] at hmem
      obtain ⟨i, hlt, rfl⟩ := hmem
      dsimp only
      refine ⟨by omega, by omega, by omega, ?_⟩
      simp only [beq_iff_eq]
      omega
    · have h0 : s.n = 0 := by omega
      have : draw gen s h = .ok (s, []) := by
        simp [draw, gen, Gen.ListFacts.drawEmptyGuard, h0]
      rw [this] at hd
      cases hd
      intro r hr; cases hr
  · intro hn
    obtain ⟨_, hr⟩ := hrows hn
    obtain ⟨f1, f2, f3⟩ := follow_bounds s h hi hn
    obtain ⟨f4, f5⟩ := f3 hh
    obtain ⟨_, _, h3⟩ := hi
    refine ⟨{ row := (s.index - follow s h).toNat, item := follow s h + ((s.index - follow s h).toNat : Int), sel := (((s.index - follow s h).toNat : Int) == s.index - follow s h) }, ?_, ?_, ?_⟩
    · rw [hr, mem_rows]
      exact ⟨(s.index - follow s h).toNat, by omega, rfl⟩
    · simp only [beq_iff_eq]; omega
    · show follow s h + ((s.index - follow s h).toNat : Int) = s.index
      omega

/-- Non-vacuity: a concrete history on three items. -/
example : (match run gen (new 3) [.down, .down, .draw 2, .setItems 1, .draw 2, .«end»] with
    | .ok s => s.index == 0 && s.offset == 0 | .error _ => false) = true := by decide

end SimpleList

/-! ## widgets/pager

Graphemes and their widths are parameters: the theorems hold for every list of characters
`vaxis.Characters` may return (any bytes, any widths, even negative ones). -/

section Pager
open VaxisModel.Model.Pager VaxisModel.Lemmas.Pager

/-- The source appends a non-empty unterminated last line in `Layout` (regenerated fact). -/
theorem layout_flushes_last : Gen.ListFacts.layoutFlushesLast = true := by decide

/-- **Every line is presented** — for every text and every width, the laid-out lines concatenated
    are exactly the text's characters without the newline characters (nothing lost, nothing
    duplicated, order kept — this includes a last line that has no terminator), and every line
    respects the width: it has at most one character or all but its last character are narrower
    than the window (the last one, possibly a wide grapheme, is what reached the width). -/
theorem pager_complete (w : Int) (cs : List Ch) :
    (layout Gen.ListFacts.layoutFlushesLast w cs).flatten = cs.filter (fun c => !c.isNl) ∧
    ∀ l ∈ layout Gen.ListFacts.layoutFlushesLast w cs, l.length ≤ 1 ∨ widthSum l.dropLast < w := by
  rw [layout_flushes_last]
  exact ⟨layout_flatten w cs, layout_good true w cs⟩

/-- **Offset clamped** — after `Draw` into a `w × h` window from any pager state (any text, any
    offset however large or negative, any previous width) the offset satisfies
    `0 ≤ Offset ≤ max 0 (lines − h)`, and the lines are those of the text at width `w` whenever the
    width changed. -/
theorem pager_offset_clamped (s : St) (w h : Nat) :
    let s' := (draw Gen.ListFacts.layoutFlushesLast s w h).1
    0 ≤ s'.offset ∧ s'.offset ≤ max 0 ((s'.lines.length : Int) - h) ∧
      ((w : Int) ≠ s.width → s'.lines = layout Gen.ListFacts.layoutFlushesLast w s.text) := by
  simp only [draw]
  split
  · rename_i hw
    exact ⟨(clamp_bounds _ _ _).1, (clamp_bounds _ _ _).2, fun _ => rfl⟩
  · rename_i hw
    exact ⟨(clamp_bounds _ _ _).1, (clamp_bounds _ _ _).2, fun h => absurd h hw⟩

/-- Non-vacuity: "ab", newline, "c" without terminator at width 2 gives the lines "ab", "", "c"
    (the empty line is the newline met right after the wrap). -/
example :
    (layout true 2 [⟨[97], 1⟩, ⟨[98], 1⟩, ⟨[10], 0⟩, ⟨[99], 1⟩]).map (·.map (·.bytes))
      = [[[97], [98]], [], [[99]]] := by decide

end Pager

/-! ## widgets/scrollbar -/

section Scrollbar
open VaxisModel.Model.Scrollbar

/-- **Bar inside the track** — for every real scroll position (`1 ≤ view < total`,
    `0 ≤ top ≤ total − view`) and every window height `h ≥ 1`, the scrollbar draws a bar of at least
    one row that lies entirely within rows `0 … h−1`. -/
theorem scrollbar_in_track (total view top h : Int)
    (hv : 1 ≤ view) (hvt : view < total) (ht0 : 0 ≤ top) (ht : top ≤ total - view) (hh : 1 ≤ h) :
    ∃ b, bar total view top h = some b ∧ 0 ≤ b.top ∧ 1 ≤ b.len ∧ b.top + b.len ≤ h :=
  Lemmas.Scrollbar.bar_in_track total view top h hv hvt ht0 ht hh

example : bar 10 3 7 5 = some ⟨3, 1⟩ := by decide

end Scrollbar

/-! ## vxfw/list `Dynamic`

The Builder is any list `hs` of widget heights (`nil` past its end).  `DynList.genFacts` carries the
regenerated facts that the cursor-gutter block checks `d.cursor >= d.scroll.top` (F119) and that
`insertChildren` stops once the height is used up (F119f). -/

section Dyn
open VaxisModel.Model.DynList VaxisModel.Lemmas.DynList

/-- The source carries the F119 guard and the F119f stop condition. -/
theorem dyn_repairs_present : genFacts = ⟨true, true⟩ := by decide

/-- The full layout statement: every `Draw`, from any state, for any gap, returns its children in
    index order, contiguous (each directly below the previous one plus the gap — hence without
    overlap for gap ≥ 0) and with the builder's heights.  It is FALSE of the code for gap > 0 after an
    upward scroll (finding F119c, `Witness/F119.lean`); the proved theorem is `dyn_layout_partial`. -/
def dyn_layout_full : Prop :=
  ∀ (cfg : Cfg) (hs : List Nat) (s : St) (W H : Nat) (s' : St) (cs : List Child), s.top < U →
    draw genFacts cfg hs s W H = .ok (s', cs) → Contig cfg.gap cs ∧ Heights hs cs

/-- **Layout (partial: gap = 0, or no upward scroll in this draw)** — from ANY scroll state (cursor,
    top, offset, pending scroll, wants-cursor flag — reachable or not), any builder heights, any
    viewport: the children returned by `Draw` are in index order, each directly below the previous
    one plus the gap, and each has the height of its builder widget.  Missing for the full
    statement: children inserted above the top by `insertChildren` ignore a non-zero gap. -/
theorem dyn_layout_partial (cfg : Cfg) (hs : List Nat) (s : St) (W H : Nat) (s' : St) (cs : List Child)
    (hU : s.top < U)
    (hg : cfg.gap = 0 ∨ ¬ (0 < - (s.offset + s.pending) ∧ s.top ≠ 0))
    (he : draw genFacts cfg hs s W H = .ok (s', cs)) :
    Contig cfg.gap cs ∧ Heights hs cs :=
  draw_layout _ cfg hs s W H hU hg s' cs he

/-- Contiguity means: consecutive indices, no overlap and no hole (unfolding of `Contig`). -/
theorem contig_pair (gap : Int) (c d : Child) (rest : List Child) (h : Contig gap (c :: d :: rest)) :
    d.idx = c.idx + 1 ∧ d.row = c.row + (c.height : Int) + gap ∧ Contig gap (d :: rest) :=
  ⟨h.1.1, h.1.2, h.2⟩

/-- Non-vacuity of `dyn_layout_partial`: three items, scrolled up by one row from the second. -/
example : (match draw ⟨true, true⟩ ⟨0, false⟩ [2, 3, 1] ⟨1, 1, 0, -1, false⟩ 4 3 with
    | .ok (_, cs) => cs.map (fun c => (c.idx, c.row, c.height)) == [(0, -1, 2), (1, 1, 3)]
    | .error _ => false) = true := by decide

/-- **No panic with 0 items** — for a Builder that has no widgets, every history of
    SetCursor/NextItem/PrevItem/wheel/SetPendingScroll/Draw (cursors below 2^63, bounded draw
    contexts, any gap, with or without the cursor gutter) runs without panic. -/
theorem dyn_no_panic_empty (cfg : Cfg) (ops : List Op) (ho : ∀ op ∈ ops, OpOk op) :
    ∃ s, run genFacts cfg [] init ops = .ok s :=
  let ⟨s, he, _⟩ := run_empty _ cfg ops init ⟨rfl, by decide⟩ ho
  ⟨s, he⟩


/-- **No panic over whole histories (gap 0)** — for every fixed builder (any number of items, any
    heights including 0), gap 0, with or without the cursor gutter: every history of
    SetCursor/NextItem/PrevItem/wheel/SetPendingScroll/Draw (cursors below 2^63, bounded draw
    contexts, any viewport sizes) runs without panic, the top index always refers to an existing
    item (or is 0), and the cursor stays a sane index. -/
theorem dyn_no_panic (cfg : Cfg) (hgap : cfg.gap = 0) (hs : List Nat) (hlen : hs.length < 2 ^ 63)
    (ops : List Op) (ho : ∀ op ∈ ops, OpOk op) :
    ∃ s, run genFacts cfg hs init ops = .ok s ∧ (s.top = 0 ∨ s.top < hs.length) ∧ s.cursor < 2 ^ 63 := by
  obtain ⟨s, he, hi⟩ := run_inv3 genFacts (by rw [dyn_repairs_present]) cfg hgap hs hlen ops init (init_inv3 hs) ho
  exact ⟨s, he, hi.top_ok, hi.cur_ok⟩

/-- The full visibility statement (any gap ≥ 0): after ANY history from the initial state with a
    fixed builder that leaves no pending scroll, a selection change to an existing item of height ≥ 1
    followed by a `Draw` into a viewport of height ≥ 1 shows the selected item: its rows intersect
    the viewport, and it is fully inside when it fits.  It is proved for gap = 0
    (`dyn_cursor_visible`); for gap > 0 it is FALSE of the code (finding F119e, replayed from
    corpus/C19/F119e-gap-row0.ops: row 0 can fall into a gap, then no child re-anchors top/offset). -/
def dyn_cursor_visible_full : Prop :=
  ∀ (cfg : Cfg) (hs : List Nat) (ops : List Op) (s : St) (c W H hc : Nat),
    0 ≤ cfg.gap → hs.length < 2 ^ 63 → W ≠ 65535 → H ≠ 65535 → 1 ≤ H → (∀ op ∈ ops, OpOk1 op) →
    run genFacts cfg hs init ops = .ok s → s.pending = 0 →
    hs[c]? = some hc → 1 ≤ hc →
    ∃ s' cs, draw genFacts cfg hs (setCursor s c) W H = .ok (s', cs) ∧
      ∃ ch ∈ cs, ch.idx = c ∧ ch.height = hc ∧ Visible H ch

/-- **Selected item visible (partial: from a settled scroll state)** — for every builder, every
    gap ≥ 0, every viewport height ≥ 1: from any state that has no pending scroll and whose line
    offset lies within its top item (`Settled`), `SetCursor(c)` to an existing item of height ≥ 1
    followed by `Draw` does not panic and returns a child for item `c` whose rows intersect the
    viewport and which lies fully inside the viewport when it fits.  Extra hypothesis compared with
    `dyn_cursor_visible_full`: `Settled hs s` is assumed instead of derived from the history. -/
theorem dyn_cursor_visible_partial (cfg : Cfg) (hs : List Nat) (s : St) (c W H hc : Nat)
    (hgap : 0 ≤ cfg.gap) (hW : W ≠ 65535) (hH : H ≠ 65535) (hH1 : 1 ≤ H)
    (hs0 : Settled hs s) (hcur : hs[c]? = some hc) (hc1 : 1 ≤ hc) (hc63 : c < 2 ^ 63) :
    ∃ s' cs, draw genFacts cfg hs (setCursor s c) W H = .ok (s', cs) ∧
      ∃ ch ∈ cs, ch.idx = c ∧ ch.height = hc ∧ Visible H ch := by
  rw [dyn_repairs_present]
  exact ensureScroll_draw_visible true cfg hs s c W H hc hgap hW hH hH1 hs0 hcur hc1 hc63

/-- The same for `NextItem` and `PrevItem` (when they move the cursor, i.e. return a command). -/
theorem dyn_next_prev_visible_partial (cfg : Cfg) (hs : List Nat) (s : St) (W H : Nat)
    (hgap : 0 ≤ cfg.gap) (hW : W ≠ 65535) (hH : H ≠ 65535) (hH1 : 1 ≤ H)
    (hs0 : Settled hs s) (hpos : ∀ h ∈ hs, 1 ≤ h) (hlen : hs.length < 2 ^ 63) (hcu : s.cursor < 2 ^ 63)
    (s1 : St) (hmove : (nextItem hs s = (s1, true)) ∨ (prevItem hs s = (s1, true))) :
    ∃ s' cs, draw genFacts cfg hs s1 W H = .ok (s', cs) ∧
      ∃ ch ∈ cs, ch.idx = s1.cursor ∧ Visible H ch := by
  rw [dyn_repairs_present]
  have key : ∀ c hc, hs[c]? = some hc → s1 = ensureScroll { s with cursor := c } → s1.cursor = c →
      ∃ s' cs, draw ⟨true, true⟩ cfg hs s1 W H = .ok (s', cs) ∧ ∃ ch ∈ cs, ch.idx = s1.cursor ∧ Visible H ch := by
    intro c hc hcur e1 e2
    have hc1 : 1 ≤ hc := hpos hc (List.mem_of_getElem? hcur)
    have hc63 : c < 2 ^ 63 := Nat.lt_trans (getElem?_lt hcur) hlen
    obtain ⟨s', cs, hd, ch, hm, hi, _, hv⟩ := ensureScroll_draw_visible true cfg hs s c W H hc hgap hW hH hH1 hs0 hcur hc1 hc63
    exact ⟨s', cs, by rw [e1]; exact hd, ch, hm, by rw [e2]; exact hi, hv⟩
  have cur_es : ∀ c, (ensureScroll { s with cursor := c }).cursor = c := by
    intro c; unfold ensureScroll; simp only []; split <;> rfl
  rcases hmove with h | h
  · have hu : uadd s.cursor 1 = s.cursor + 1 := by unfold uadd U; omega
    unfold nextItem at h
    rw [hu] at h
    cases hb : builder hs (s.cursor + 1) with
    | none => rw [hb] at h; cases h
    | some hc =>
      rw [hb] at h
      have e : s1 = ensureScroll { s with cursor := s.cursor + 1 } := (Prod.mk.inj h).1.symm
      exact key _ hc hb e (by rw [e]; exact cur_es _)
  · unfold prevItem at h
    by_cases h0 : s.cursor = 0
    · rw [if_pos h0] at h; cases h
    · rw [if_neg h0] at h
      have hu : usub s.cursor 1 = s.cursor - 1 := usub_le (by omega) hcu
      rw [hu] at h
      cases hb : builder hs (s.cursor - 1) with
      | none => rw [hb] at h; cases h
      | some hc =>
        rw [hb] at h
        have e : s1 = ensureScroll { s with cursor := s.cursor - 1 } := (Prod.mk.inj h).1.symm
        exact key _ hc hb e (by rw [e]; exact cur_es _)

/-- **Selected item visible — all histories, gap 0.**  For every fixed builder (any heights), gap 0,
    with or without the cursor gutter, and every history of SetCursor/NextItem/PrevItem/wheel/
    SetPendingScroll/Draw from the initial state (cursors below 2^63, draw contexts bounded and at
    least one row high) that leaves no pending scroll: `SetCursor(c)` to an existing item of height
    ≥ 1 followed by `Draw` into a viewport of height ≥ 1 does not panic and returns a child for item
    `c` whose rows intersect the viewport and which is fully inside the viewport when it fits.
    (Proof: `Inv4` — top index valid, wants-cursor implies top ≤ cursor, `0 ≤ offset < height(top)` —
    is an invariant of every operation; it needs both repairs F119 and F119f.) -/
theorem dyn_cursor_visible (cfg : Cfg) (hgap : cfg.gap = 0) (hs : List Nat) (hlen : hs.length < 2 ^ 63)
    (ops : List Op) (ho : ∀ op ∈ ops, OpOk1 op) (s : St)
    (hrun : run genFacts cfg hs init ops = .ok s) (hp : s.pending = 0)
    (c W H hc : Nat) (hW : W ≠ 65535) (hH : H ≠ 65535) (hH1 : 1 ≤ H)
    (hcur : hs[c]? = some hc) (hc1 : 1 ≤ hc) :
    ∃ s' cs, draw genFacts cfg hs (setCursor s c) W H = .ok (s', cs) ∧
      ∃ ch ∈ cs, ch.idx = c ∧ ch.height = hc ∧ Visible H ch := by
  obtain ⟨s1, he, hi⟩ := run_inv4 genFacts (by rw [dyn_repairs_present]) (by rw [dyn_repairs_present])
    cfg hgap hs hlen ops init (init_inv4 hs) ho
  rw [hrun] at he; cases he
  have hcn : c < hs.length := getElem?_lt hcur
  exact dyn_cursor_visible_partial cfg hs s c W H hc (by rw [hgap]; exact Int.le_refl 0) hW hH hH1
    (inv4_settled hs s hi hp (by omega)) hcur hc1 (by omega)

/-- The same for `NextItem` / `PrevItem` after any history (gap 0, all heights ≥ 1). -/
theorem dyn_next_prev_visible (cfg : Cfg) (hgap : cfg.gap = 0) (hs : List Nat) (hlen : hs.length < 2 ^ 63)
    (hpos : ∀ h ∈ hs, 1 ≤ h)
    (ops : List Op) (ho : ∀ op ∈ ops, OpOk1 op) (s : St)
    (hrun : run genFacts cfg hs init ops = .ok s) (hp : s.pending = 0)
    (W H : Nat) (hW : W ≠ 65535) (hH : H ≠ 65535) (hH1 : 1 ≤ H)
    (s1 : St) (hmove : (nextItem hs s = (s1, true)) ∨ (prevItem hs s = (s1, true))) :
    ∃ s' cs, draw genFacts cfg hs s1 W H = .ok (s', cs) ∧
      ∃ ch ∈ cs, ch.idx = s1.cursor ∧ Visible H ch := by
  obtain ⟨s0, he, hi⟩ := run_inv4 genFacts (by rw [dyn_repairs_present]) (by rw [dyn_repairs_present])
    cfg hgap hs hlen ops init (init_inv4 hs) ho
  rw [hrun] at he; cases he
  have hn : 0 < hs.length := by
    rcases hmove with h | h
    · unfold nextItem at h
      cases hb : builder hs (uadd s.cursor 1) with
      | none => rw [hb] at h; cases h
      | some x => have := getElem?_lt hb; omega
    · unfold prevItem at h
      split at h
      · cases h
      · cases hb : builder hs (usub s.cursor 1) with
        | none => rw [hb] at h; cases h
        | some x => have := getElem?_lt hb; omega
  exact dyn_next_prev_visible_partial cfg hs s W H (by rw [hgap]; exact Int.le_refl 0) hW hH hH1
    (inv4_settled hs s hi hp hn) hpos hlen hi.inv3.cur_ok s1 hmove

/-- Non-vacuity of the history theorems: a concrete history ending with nothing pending. -/
example : (match run ⟨true, true⟩ ⟨0, true⟩ [1, 1, 5, 2] init
      [.setCursor 3, .draw 4 2, .pending (-2), .draw 4 5, .wheelDown, .draw 4 5, .next] with
    | .ok s => s.pending == 0 | .error _ => false) = true := by decide

/-- Non-vacuity: a settled state (top item 1 scrolled by one row), cursor moved to item 3. -/
example : (match draw ⟨true, true⟩ ⟨0, false⟩ [2, 3, 1, 2] (setCursor ⟨1, 1, 1, 0, false⟩ 3) 4 3 with
    | .ok (_, cs) => cs.map (fun c => (c.idx, c.row, c.height)) == [(1, -3, 3), (2, 0, 1), (3, 1, 2)]
    | .error _ => false) = true := by decide

end Dyn

end VaxisModel.Props.C19
