/-
C19 for vxfw/list `Dynamic`, all clauses in one statement over the EXECUTED bodies (`Model/DynExec.lean` run on the
regenerated `Gen/DynSkel.lean`): a corollary of `Props/C19Exec.lean` (executed body = model, histories) and `Props/C19.lean`
(the clauses over the model).  The counterparts for the widgets are `Props/C19Wid.lean` `list_selected_visible_body`,
`pager_presents_every_character_body`, `pager_offset_clamped_body`, `scrollbar_in_track_body`.
-/
import VaxisModel.Props.C19Exec
import VaxisModel.Props.C19

namespace VaxisModel.Props.C19All
open VaxisModel.Model VaxisModel.Model.DynExec VaxisModel.Model.DynList
open VaxisModel.Lemmas.DynList
open VaxisModel.Props.C19Exec

/-- **All clauses of C19 for `Dynamic` in one statement over the EXECUTED bodies.**  Any gap ≥ 0, gutter on or off, any
    initial items, ANY history of SetCursor / NextItem / PrevItem / wheel / SetPendingScroll / Draw interleaved with
    replacements of the items, every operation run from the regenerated body of its method — then `SetCursor(c)` to an item
    the Builder has now (height ≥ 1) and `Draw` into a bounded viewport of ≥ 1 row, both executed from their bodies:
    * nothing panics, gets stuck or runs out of fuel (the history reaches a state, and so do the two final calls);
    * the children `Draw` returns are in index order, each directly below the previous one plus the gap, each with the height
      of its builder widget, no two overlapping;
    * the selected item `c` is among them and visible: its rows meet the viewport, and it lies fully inside when it fits. -/
theorem dynamic_over_executed_bodies (cfg : Cfg) (hgap : 0 ≤ cfg.gap) (hs0 : List Nat) (hlen0 : hs0.length < 2 ^ 63)
    (ops : List HOp) (ho : ∀ op ∈ ops, HOpOk op)
    (c W H hc : Nat) (hW : W ≠ 65535) (hH : H ≠ 65535) (hH1 : 1 ≤ H) (hcU : c < 2 ^ 64) :
    ∃ hs s, runBodyH cfg hs0 init ops = some (hs, s) ∧
      (hs[c]? = some hc → 1 ≤ hc →
        ∃ s1 s' cs, stepBody cfg hs s (.setCursor c) = some s1 ∧
          runDraw genBodies (builder hs) cfg s1 W H (drawFuel hs s1 H) = .ok (s', cs) ∧
          Contig cfg.gap cs ∧ Heights hs cs ∧
          (∀ (i j : Nat) (ci cj : Child), i < j → cs[i]? = some ci → cs[j]? = some cj → ci.idx < cj.idx ∧ ci.row + (ci.height : Int) + cfg.gap ≤ cj.row) ∧
          ∃ ch ∈ cs, ch.idx = c ∧ ch.height = hc ∧ Visible H ch) := by
  obtain ⟨hb, _⟩ := history_body_eq_model cfg hgap ops hs0 init hlen0 Lemmas.DynList.init_inv ho
  obtain ⟨hs, s, hrun, hinv, hlen⟩ := Lemmas.DynList.runH_inv cfg hgap ops hs0 init hlen0 Lemmas.DynList.init_inv ho
  refine ⟨hs, s, by rw [hb, hrun]; rfl, ?_⟩
  intro hcur hc1
  have hrunG : runH genFacts cfg hs0 init ops = .ok (hs, s) := by rw [C19.dyn_repairs_present]; exact hrun
  obtain ⟨s', cs, hd, ch, hmem, h1, h2, h3⟩ := C19.dyn_cursor_visible cfg hgap hs0 hlen0 ops ho hs s hrunG c W H hc hW hH hH1 hcur hc1
  have hsc := step_body_eq_model cfg hs s (.setCursor c) (by have := hinv.cur_ok; unfold U at this; exact this)
    (by have := hinv.top_ok; omega) (by omega) hcU
  have htop : (setCursor s c).top < 2 ^ 64 := by
    have := hinv.top_ok
    unfold setCursor ensureScroll
    split <;> simp only [] <;> omega
  have hdF : draw Facts.fixed cfg hs (setCursor s c) W H = .ok (s', cs) := by rw [← C19.dyn_repairs_present]; exact hd
  have hdb := draw_body_eq_model hs cfg (setCursor s c) W H (drawFuel hs (setCursor s c) H) htop (by omega) (Nat.le_refl _)
  rw [hdF] at hdb
  have hU : (setCursor s c).top < U := by unfold U; exact htop
  obtain ⟨hcont, hheights⟩ := C19.dyn_layout cfg hs (setCursor s c) W H s' cs hU hd
  refine ⟨setCursor s c, s', cs, by rw [hsc]; rfl, hdb, hcont, hheights, ?_, ch, hmem, h1, h2, h3⟩
  intro i j ci cj hij hi hj
  exact C19.dyn_no_overlap cfg hgap hs (setCursor s c) W H s' cs hU hd i j ci cj hij hi hj

/-- Non-vacuity: items of heights 1, 2, 1, a wheel-down and a draw, then `SetCursor(2)` + `Draw` into 4 × 2, all executed:
    the third item is drawn, inside the viewport. -/
example :
    (match runBodyH ⟨0, false⟩ [1, 2, 1] init [.op .wheelDown, .op (.draw 4 2)] with
     | some (hs, s) =>
       (match stepBody ⟨0, false⟩ hs s (.setCursor 2) with
        | some s1 =>
          (match runDraw genBodies (builder hs) ⟨0, false⟩ s1 4 2 (drawFuel hs s1 2) with
           | .ok (_, cs) => cs.any (fun ch => ch.idx == 2 && decide (0 ≤ ch.row) && decide (ch.row + (ch.height : Int) ≤ 2))
           | .error _ => false)
        | none => false)
     | none => false) = true := by
  decide +kernel

end VaxisModel.Props.C19All
