/-
C19 × C15: a `Dynamic` list inside a vxfw application.  C19 says what the list's `CaptureEvent` does with a key (executed
from its regenerated body: `j`/Down = `NextItem`, a command iff the selection moved); C15 says what the framework does with
the answer (capture phase root → focused, stop at the first consumed offer, each command once).  Together: a `j` pressed
while a descendant of the list has the focus moves the selection by one item and NOBODY ELSE sees the key — neither the
capturing widgets below the list, nor the focused widget, nor any ancestor on the way back; redraw and consume take effect
exactly once.  When the selection cannot move (last item) the list returns nil and the key goes on along the route.
-/
import VaxisModel.Lemmas.Vxfw
import VaxisModel.Spec.Routing
import VaxisModel.Props.C19Exec

namespace VaxisModel.Props.C19C15
open VaxisModel.Model VaxisModel.Model.Vxfw VaxisModel.Spec.Routing VaxisModel.Lemmas.Vxfw

/-- `vxfw.ConsumeAndRedraw()` = `BatchCmd{RedrawCmd{}, ConsumeEventCmd{}}`. -/
def consumeAndRedraw : Cmd := .batch [.redraw, .consume]

/-- The `return` statements of a body. -/
def returnsOf (body : List GoSyn.Line) : List GoSyn.Expr :=
  (body.filter fun l => l.kind == .returnS).map (·.e1)

/-- **Every command `Dynamic`'s event handlers return is `nil` or `vxfw.ConsumeAndRedraw()`** (read off the regenerated
    bodies of `CaptureEvent` and `HandleEvent`). -/
theorem dynamic_returns_nil_or_consume_and_redraw :
    (returnsOf Gen.DynSkel.captureEvent ++ returnsOf Gen.DynSkel.handleEvent).all (fun e =>
      e == .pair (.var "nil") (.var "nil") || e == .pair (.call (.var "vxfw.ConsumeAndRedraw")) (.var "nil")) = true := by
  decide +kernel

/-- What the list answers to an event offered in the capture phase, and its new state: its regenerated `CaptureEvent`
    body, executed. -/
def listCapture (hs : List Nat) (st : DynList.St) (ev : DynExec.Ev) : Cmd × DynList.St :=
  match DynExec.runCaptureEvent DynExec.genBodies (DynList.builder hs) false ev st with
  | .ok (st', true) => (consumeAndRedraw, st')
  | .ok (st', false) => (.nil, st')
  | .error _ => (.nil, st)

/-- The route of a key below the list `L`: the capturing widgets between the list and the focused widget, the focused
    widget, then every widget of the path but the last, nearest first. -/
def routeBelow (o : Oracle) (s : Vxfw.St) (post : List Id) : List (Id × Phase) :=
  (post.filter o.captures).map (·, .capture) ++ [(s.focused, .target)] ++ s.path.dropLast.reverse.map (·, .bubble)

/-- What `CaptureEvent` does with a key event according to the model (`ev.keys` = the arguments `ev.Matches` accepts). -/
def captureModel (hs : List Nat) (st : DynList.St) (ev : DynExec.Ev) : DynList.St × Bool :=
  if "'j'" ∈ ev.keys ∨ "vaxis.KeyDown" ∈ ev.keys then DynList.nextItem hs st
  else if "'k'" ∈ ev.keys ∨ "vaxis.KeyUp" ∈ ev.keys then DynList.prevItem hs st else (st, false)

/-- **A key reaches the list first and stops there when the selection moves.**  Any application state whose focus path
    runs through the list `L` (`path = pre ++ L :: post`, no capturing widget above the list), any behaviour of all the other
    widgets (no focus commands in answers), ANY key event, the list answering with what its executed `CaptureEvent` returns:
    * the list's new state is the model's (`j`/Down: `NextItem`, `k`/Up: `PrevItem`, any other key: unchanged);
    * if the selection moved, the whole dispatch is: the list's capture call, then `redraw` and `consume` taking effect, once
      each — no other handler is called (the focused widget never sees the key);
    * if it did not move (no such item, or another key), the list's call has no effect and the key goes on: capturing
      widgets below the list, the focused widget, then the bubble phase. -/
theorem list_key (o : Oracle) (hnf : FocusFree o) (fuel : Nat) (s : Vxfw.St) (k : Nat) (pre post : List Id) (L : Id)
    (hpath : s.path = pre ++ L :: post) (hpre : ∀ w ∈ pre, o.captures w = false) (hL : o.captures L = true)
    (hs : List Nat) (st : DynList.St) (hc : st.cursor < 2 ^ 64) (ev : DynExec.Ev) (hev : ev.typ = "vaxis.Key")
    (hans : o.h L (.key k) .capture s.calls = (listCapture hs st ev).1) :
    (listCapture hs st ev).2 = (captureModel hs st ev).1 ∧
    ((captureModel hs st ev).2 = true →
      (handleEvent o (fuel + 1) s (.key k)).trace =
        s.trace ++ [.call L (.key k) .capture, .eff .redraw, .eff .consume]) ∧
    ((captureModel hs st ev).2 = false →
      (handleEvent o (fuel + 1) s (.key k)).trace =
        s.trace ++ .call L (.key k) .capture :: specRun o.h (.key k) (s.calls + 1) (routeBelow o s post)) := by
  have hcap := C19Exec.capture_event_body_eq_model hs st false ev hc
  simp only [hev, Bool.false_eq_true, if_false, if_true] at hcap
  have hlc : listCapture hs st ev =
      (if (captureModel hs st ev).2 then consumeAndRedraw else .nil, (captureModel hs st ev).1) := by
    unfold listCapture captureModel
    rw [hcap]
    generalize (if "'j'" ∈ ev.keys ∨ "vaxis.KeyDown" ∈ ev.keys then DynList.nextItem hs st
      else if "'k'" ∈ ev.keys ∨ "vaxis.KeyUp" ∈ ev.keys then DynList.prevItem hs st else (st, false)) = r
    obtain ⟨st', b⟩ := r
    cases b <;> rfl
  have hroute : route o.captures s.path s.focused = (L, .capture) :: routeBelow o s post := by
    have hf : pre.filter o.captures = [] := by
      rw [List.filter_eq_nil_iff]; intro w hw; simp [hpre w hw]
    simp [route, routeBelow, hpath, List.filter_append, hf, hL]
  have ht := handleEvent_plain o hnf fuel s (.key k)
  rw [hroute] at ht
  rw [hlc] at hans
  refine ⟨by rw [hlc], ?_, ?_⟩
  · intro hm
    simp only [hm, if_true] at hans
    rw [ht]
    simp [specRun, hans, consumeAndRedraw, Cmd.flatten, Cmd.flattenL, effOfAtom]
  · intro hm
    simp only [hm] at hans
    rw [ht]
    simp [specRun, hans, Cmd.flatten]

/-- The `j` key: the selection moves to the next item, if there is one, and then nobody else sees the key. -/
theorem list_key_j (o : Oracle) (hnf : FocusFree o) (fuel : Nat) (s : Vxfw.St) (k : Nat) (pre post : List Id) (L : Id)
    (hpath : s.path = pre ++ L :: post) (hpre : ∀ w ∈ pre, o.captures w = false) (hL : o.captures L = true)
    (hs : List Nat) (st : DynList.St) (hc : st.cursor < 2 ^ 64)
    (hans : o.h L (.key k) .capture s.calls = (listCapture hs st (DynExec.keyEv ["'j'"])).1) :
    (listCapture hs st (DynExec.keyEv ["'j'"])).2 = (DynList.nextItem hs st).1 ∧
    ((DynList.nextItem hs st).2 = true →
      (handleEvent o (fuel + 1) s (.key k)).trace =
        s.trace ++ [.call L (.key k) .capture, .eff .redraw, .eff .consume]) := by
  have h := list_key o hnf fuel s k pre post L hpath hpre hL hs st hc (DynExec.keyEv ["'j'"]) rfl hans
  have hm : captureModel hs st (DynExec.keyEv ["'j'"]) = DynList.nextItem hs st := by
    simp [captureModel, DynExec.keyEv]
  rw [hm] at h
  exact ⟨h.1, h.2.1⟩

/-- Non-vacuity: three items, cursor on the first: the executed `CaptureEvent` answers `ConsumeAndRedraw()` and the cursor
    is on the second item. -/
example : (match listCapture [1, 1, 1] DynList.init (DynExec.keyEv ["'j'"]) with
    | (.batch [.redraw, .consume], st') => st'.cursor == 1
    | _ => false) = true := by
  decide +kernel

/-- … and in the application (root 0, the list 1 capturing, the focused item widget 2, every other widget answering
    `redraw`): the dispatch of the key is the list's capture call and the two effects; widget 2 is never called. -/
example :
    (handleEvent ⟨fun w _ ph _ => if w = 1 ∧ ph = .capture then consumeAndRedraw else .redraw, fun w => w == 1⟩ 1
      { focused := 2, root := 0, path := [0, 1, 2] } (.key 106)).trace =
      [.call 1 (.key 106) .capture, .eff .redraw, .eff .consume] := by
  decide +kernel

end VaxisModel.Props.C19C15
