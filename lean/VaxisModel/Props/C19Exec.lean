/-
C19 — the regenerated bodies of vxfw/list `Dynamic`, EXECUTED, are the model.

`Gen/DynSkel.lean` (regenerated from /repo on every run) holds every method body of `Dynamic` as
syntax.  `Model/DynExec.lean` is an interpreter for that syntax (assignments with `uint`
wrap-around, `if`/`else`, `for` loops with `break`/`continue`, `range` loops, `switch` / type switch,
the children slice with checked index expressions, calls between the methods).  The theorems here
say that running the regenerated body gives exactly the function of `Model/DynList.lean` that all
the property theorems (`Props/C19.lean`) are about — for ALL states, builders and events, not on
samples: a change of the source changes `Gen/DynSkel.lean`, hence the interpreted function, and
these theorems (or `C19Tie.skeleton_*`, through which they go) fail.
-/
import VaxisModel.Model.DynGenBodies
import VaxisModel.Lemmas.DynExec
import VaxisModel.Lemmas.DynExecDraw
import VaxisModel.Props.C19Tie
import VaxisModel.Lemmas.DynListInv

namespace VaxisModel.Props.C19Exec
open VaxisModel.Model VaxisModel.Model.DynExec VaxisModel.Model.DynList
open VaxisModel.Lemmas.DynExec (expBodies)
open VaxisModel.Lemmas.DynList

/-- The regenerated bodies parse to the statement trees the execution lemmas are about. -/
theorem gen_bodies_parsed : genBodies = expBodies := by
  unfold genBodies expBodies Bodies.ofLines
  rw [C19Tie.skeleton_draw, C19Tie.skeleton_insertChildren, C19Tie.skeleton_nextItem, C19Tie.skeleton_prevItem,
    C19Tie.skeleton_ensureScroll, C19Tie.skeleton_events.1, C19Tie.skeleton_events.2,
    Lemmas.DynTrees.parse_draw, Lemmas.DynTrees.parse_ins, Lemmas.DynTrees.parse_next, Lemmas.DynTrees.parse_prev,
    Lemmas.DynTrees.parse_ens, Lemmas.DynTrees.parse_hev, Lemmas.DynTrees.parse_cev]

/-- **`HandleEvent`, executed from the regenerated body, for EVERY event**: nothing when the handlers
    are disabled; a mouse event whose button is the wheel scrolls (`DynList.wheelDown` / `wheelUp`,
    the latter only when `offset > 0 && top > 0`); every other event (other buttons, keys, anything
    else) changes nothing and returns no command. -/
theorem handle_event_body_eq_model (b : Nat → Option Nat) (s : St) (dis : Bool) (ev : Ev) :
    runHandleEvent genBodies b dis ev s = .ok
      (if dis then (s, false)
       else if ev.typ = "vaxis.Mouse" then
         (if ev.button = "vaxis.MouseWheelDown" then wheelDown s
          else if ev.button = "vaxis.MouseWheelUp" then wheelUp s else (s, false))
       else (s, false)) := by
  rw [gen_bodies_parsed]; exact Lemmas.DynExec.hev_all b s dis ev

/-- **`CaptureEvent`, executed from the regenerated body, for EVERY event** (`ev.keys` = the arguments
    `ev.Matches` accepts): nothing when the handlers are disabled or the event is not a key; `j`/Down
    is `NextItem` (itself executed from its regenerated body, calling `ensureScroll`'s), else `k`/Up
    is `PrevItem`; a command is returned iff the item changed. -/
theorem capture_event_body_eq_model (hs : List Nat) (s : St) (dis : Bool) (ev : Ev) (hc : s.cursor < 2 ^ 64) :
    runCaptureEvent genBodies (builder hs) dis ev s = .ok
      (if dis then (s, false)
       else if ev.typ = "vaxis.Key" then
         (if "'j'" ∈ ev.keys ∨ "vaxis.KeyDown" ∈ ev.keys then nextItem hs s
          else if "'k'" ∈ ev.keys ∨ "vaxis.KeyUp" ∈ ev.keys then prevItem hs s else (s, false))
       else (s, false)) := by
  rw [gen_bodies_parsed]; exact Lemmas.DynExec.cev_all hs s dis ev hc

/-- **`insertChildren(ctx, &s, ah)`, executed from the regenerated body** (the upward loop with its two
    `break`s, `slices.Insert(p.Children, 0, …)`, the restacking `range` loop with the checked store
    `p.Children[i] = ch`): for every builder, gap, `ah` and every state with `1 ≤ top < 2^64` (how
    `Draw` calls it) the new `top`, `offset` and children are `DynList.insertChildren`; `top + 1` units
    of fuel suffice (the loop runs at most once per widget above the top). -/
theorem insert_children_body_eq_model (hs : List Nat) (cfg : Cfg) (s : St) (ah : Int) (fuel : Nat)
    (h1 : 1 ≤ s.top) (hlt : s.top < 2 ^ 64) (hF : s.top + 1 ≤ fuel) :
    runInsert genBodies (builder hs) cfg s [] ah fuel =
      .ok ({ s with top := (insertChildren true cfg.gap hs s.top ah).1, offset := (insertChildren true cfg.gap hs s.top ah).2.1 },
           (insertChildren true cfg.gap hs s.top ah).2.2) := by
  rw [gen_bodies_parsed]
  have h := Lemmas.DynExec.ins_exec (roBase (builder hs) cfg 0 0) hs rfl s "" fuel ah h1 hlt hF
  unfold runInsert insertCallee mkM
  show (match exec (roBase (builder hs) cfg 0 0) (Lemmas.DynTrees.seqOf Lemmas.DynTrees.insParts) fuel ⟨s, [], [("v2", ah)], [], ""⟩ with
    | .error e => (Except.error e : Except Err (St × List Child))
    | .ok (m, _) => Except.ok (m.st, m.cs)) = _
  cases hr : exec (roBase (builder hs) cfg 0 0) (Lemmas.DynTrees.seqOf Lemmas.DynTrees.insParts) fuel ⟨s, [], [("v2", ah)], [], ""⟩ with
  | error e => rw [hr] at h; simp [Lemmas.DynExec.proj] at h
  | ok r =>
    rw [hr] at h
    simp only [Lemmas.DynExec.proj, Option.some.injEq, Prod.mk.injEq] at h
    simp only [h.1, h.2.1]
    rfl

/-- Non-vacuity: three widgets above the top, an upward scroll by seven rows (gap 1, cursor gutter). -/
example : (runInsert genBodies (builder [2, 1, 3, 1]) ⟨1, true⟩ { init with top := 3, cursor := 3 } [] 7 4).toOption.map
    (fun r => (r.1.top, r.1.offset, r.2.map (fun c => (c.idx, c.row)))) = some (0, -2, [(0, -2), (1, 1), (2, 3)]) := by decide +kernel

theorem le_foldl_max (l : List Nat) : ∀ a : Nat, a ≤ l.foldl max a ∧ ∀ h ∈ l, h ≤ l.foldl max a := by
  induction l with
  | nil => intro a; exact ⟨Nat.le_refl _, fun _ h => by cases h⟩
  | cons x r ih =>
    intro a
    obtain ⟨h1, h2⟩ := ih (max a x)
    refine ⟨by simp only [List.foldl_cons]; omega, fun h hm => ?_⟩
    simp only [List.foldl_cons]
    rcases List.mem_cons.mp hm with rfl | hm
    · omega
    · exact h2 h hm

/-- **`Draw`, executed from the regenerated bodies of `Draw` and `insertChildren`** — the walk back to an
    existing top widget, the prologue, the upward scroll through the call `d.insertChildren(ctx, &s, ah)`
    and the checked `s.Children[len(s.Children)-1]`, the downward loop with its `break`s and `continue`,
    `totalHeight`, the cursor gutter (both cell loops, the checked `s.Children[idx]`, the replacement
    `s.Children[idx] = ss`), the wants-cursor block (both `range` loops that move every child), the
    final re-anchoring `range` loop, `return s, nil` — IS `DynList.draw Facts.fixed`: for EVERY finite
    builder (fewer than 2^64 items), gap (any `Int`), cursor-gutter setting, state with `top < 2^64`
    (any cursor, offset, pending scroll, flag), every constraint `W × H`, and every fuel from
    `drawFuel` on: the same new state and the same children, and a panic exactly when the model panics.
    So every theorem of `Props/C19.lean` about `DynList.draw` (no panic, layout, anchoring, visibility)
    is a theorem about the regenerated body of `Draw`, interpreted. -/
theorem draw_body_eq_model (hs : List Nat) (cfg : Cfg) (s : St) (W H F : Nat)
    (ht : s.top < 2 ^ 64) (hlen : hs.length < 2 ^ 64) (hF : drawFuel hs s H ≤ F) :
    runDraw genBodies (builder hs) cfg s W H F =
      (match draw Facts.fixed cfg hs s W H with
       | .ok r => .ok r
       | .error _ => .error .panic) := by
  rw [gen_bodies_parsed]
  unfold drawFuel at hF
  have hm := le_foldl_max hs 0
  exact Lemmas.DynExec.draw_exec hs cfg s W H F ht hlen (by omega) (by omega)
    (fun h hh => by have := hm.2 h hh; omega)

/-- With `dyn_repairs_present` (`genFacts = Facts.fixed`): the model function the driver runs and the
    theorems of `Props/C19.lean` quantify over (`DynList.draw DynList.genFacts`) is that function. -/
theorem draw_body_eq_model_gen (hs : List Nat) (cfg : Cfg) (s : St) (W H : Nat)
    (ht : s.top < 2 ^ 64) (hlen : hs.length < 2 ^ 64) :
    runDraw genBodies (builder hs) cfg s W H (drawFuel hs s H) =
      (match draw DynList.genFacts cfg hs s W H with
       | .ok r => .ok r
       | .error _ => .error .panic) := by
  have : DynList.genFacts = Facts.fixed := by decide
  rw [this]
  exact draw_body_eq_model hs cfg s W H _ ht hlen (Nat.le_refl _)

/-- Non-vacuity: a draw with an upward scroll pending, gap 1, the cursor gutter and the wants-cursor
    block, run from the regenerated bodies. -/
example : (runDraw genBodies (builder [3, 1, 2, 4, 1]) ⟨1, true⟩ { cursor := 3, top := 1, offset := 1, pending := -3, wantsCursor := true } 10 4 20).toOption.map
    (fun r => (r.1.top, r.1.offset, r.1.wantsCursor, r.2.map (fun c => (c.idx, c.row)))) =
    some (3, 0, false, [(0, -9), (1, -5), (2, -3), (3, 0)]) := by decide +kernel

/-- Non-vacuity: `k` on the second of three items, run from the regenerated body. -/
example : (runCaptureEvent genBodies (builder [1, 2, 3]) false (keyEv ["'k'"]) { init with cursor := 1, top := 1 }).toOption.map
    (fun r => (r.1.cursor, r.1.top, r.2)) = some (0, 0, true) := by decide +kernel

/-! ### whole histories -/

theorem runHandler_of_proj (body : Stmt) (R : Ro) (s st' : St) (cs' : List Child) (v : Int)
    (h : Lemmas.DynExec.proj (exec R body 1 (mkM s [] [])) = some (st', cs', .ret [v])) :
    runHandler body R s = .ok (st', v != 0) := by
  unfold runHandler
  cases hr : exec R body 1 (mkM s [] []) with
  | error e => rw [hr] at h; simp [Lemmas.DynExec.proj] at h
  | ok r =>
    obtain ⟨m, c⟩ := r
    rw [hr] at h
    simp only [Lemmas.DynExec.proj, Option.some.injEq, Prod.mk.injEq] at h
    obtain ⟨h1, _, h3⟩ := h
    subst h3
    simp [h1]

theorem next_item_body_eq_model (hs : List Nat) (s : St) (hc : s.cursor < 2 ^ 64) :
    runNextItem genBodies (builder hs) s = .ok (nextItem hs s) := by
  rw [gen_bodies_parsed]
  have h := Lemmas.DynExec.next_exec hs false noEv "" (mkM s [] []) 1 hc
  have := runHandler_of_proj expBodies.nextItem (roSmall expBodies (builder hs) false noEv "") s _ _ _ h
  have hm : (mkM s [] []).st = s := rfl
  rw [hm] at this
  unfold runNextItem
  rw [this]
  generalize nextItem hs s = r
  obtain ⟨a, b⟩ := r
  cases b <;> simp [bi]

theorem prev_item_body_eq_model (hs : List Nat) (s : St) (hc : s.cursor < 2 ^ 64) :
    runPrevItem genBodies (builder hs) s = .ok (prevItem hs s) := by
  rw [gen_bodies_parsed]
  have h := Lemmas.DynExec.prev_exec hs false noEv "" (mkM s [] []) 1 hc
  have := runHandler_of_proj expBodies.prevItem (roSmall expBodies (builder hs) false noEv "") s _ _ _ h
  have hm : (mkM s [] []).st = s := rfl
  rw [hm] at this
  unfold runPrevItem
  rw [this]
  generalize prevItem hs s = r
  obtain ⟨a, b⟩ := r
  cases b <;> simp [bi]

/-- One operation of a history, EXECUTED from the regenerated bodies (`SetCursor` / `SetPendingScroll` through
    `Model/DynInterp.lean`, everything else through `Model/DynExec.lean`); `none` = panic, stuck or out of fuel. -/
def stepBody (cfg : Cfg) (hs : List Nat) (s : St) : Op → Option St
  | .setCursor c => (DynInterp.runMethod hs Gen.DynSkel.ensureScroll Gen.DynSkel.setCursor s c).map (·.st)
  | .next => (runNextItem genBodies (builder hs) s).toOption.map (·.1)
  | .prev => (runPrevItem genBodies (builder hs) s).toOption.map (·.1)
  | .wheelDown => (runHandleEvent genBodies (builder hs) false wheelDownEv s).toOption.map (·.1)
  | .wheelUp => (runHandleEvent genBodies (builder hs) false wheelUpEv s).toOption.map (·.1)
  | .pending k => (DynInterp.runMethod hs Gen.DynSkel.ensureScroll Gen.DynSkel.setPendingScroll s k).map (·.st)
  | .draw W H => (runDraw genBodies (builder hs) cfg s W H (drawFuel hs s H)).toOption.map (·.1)

/-- A history with item replacement, executed from the regenerated bodies. -/
def runBodyH (cfg : Cfg) : List Nat → St → List HOp → Option (List Nat × St)
  | hs, s, [] => some (hs, s)
  | _, s, .items hs' :: ops => runBodyH cfg hs' s ops
  | hs, s, .op o :: ops =>
    match stepBody cfg hs s o with
    | some s' => runBodyH cfg hs s' ops
    | none => none

theorem step_body_eq_model (cfg : Cfg) (hs : List Nat) (s : St) (op : Op) (hc : s.cursor < 2 ^ 64) (ht : s.top < 2 ^ 64)
    (hlen : hs.length < 2 ^ 64) (ho : OpOk op) :
    stepBody cfg hs s op = (step Facts.fixed cfg hs s op).toOption := by
  cases op with
  | setCursor c => exact (C19Tie.interp_setters hs s c ho 0).1
  | next => simp only [stepBody, next_item_body_eq_model hs s hc]; rfl
  | prev => simp only [stepBody, prev_item_body_eq_model hs s hc]; rfl
  | wheelDown => simp only [stepBody, handle_event_body_eq_model]; rfl
  | wheelUp => simp only [stepBody, handle_event_body_eq_model]; rfl
  | pending k => exact (C19Tie.interp_setters hs s 0 (by decide) k).2
  | draw W H =>
    simp only [stepBody, step, draw_body_eq_model hs cfg s W H _ ht hlen (Nat.le_refl _)]
    cases draw Facts.fixed cfg hs s W H <;> rfl

/-- **Every history, executed from the regenerated bodies, is the model's history and never fails**: for
    every gap ≥ 0, every initial builder and every finite history of SetCursor / NextItem / PrevItem / wheel /
    SetPendingScroll / Draw interleaved with replacements of the Builder's items, running each operation from
    the regenerated body of its method gives exactly the states of `DynList.runH` — so no operation panics, gets
    stuck in the interpreter or runs out of fuel (`dyn_no_panic` for the EXECUTED code), and every theorem of
    `Props/C19.lean` about histories speaks about the executed bodies. -/
theorem history_body_eq_model (cfg : Cfg) (hgap : 0 ≤ cfg.gap) : ∀ (ops : List HOp) (hs : List Nat) (s : St),
    hs.length < 2 ^ 63 → Lemmas.DynList.Inv s → (∀ op ∈ ops, HOpOk op) →
    runBodyH cfg hs s ops = (runH Facts.fixed cfg hs s ops).toOption ∧ (runBodyH cfg hs s ops).isSome = true
  | [], hs, s, _, _, _ => ⟨rfl, rfl⟩
  | .items hs' :: ops, hs, s, _, hi, ho => by
    have h1 : HOpOk (.items hs') := ho _ List.mem_cons_self
    exact history_body_eq_model cfg hgap ops hs' s h1 hi (fun o h => ho o (List.mem_cons_of_mem _ h))
  | .op o :: ops, hs, s, hl, hi, ho => by
    have hok : OpOk o := ho _ List.mem_cons_self
    obtain ⟨s1, he, hi1⟩ := step_inv cfg hgap hs hl s o hi hok
    have hsb := step_body_eq_model cfg hs s o (by have := hi.cur_ok; unfold U at this; exact this)
      (by have := hi.top_ok; omega) (by omega) hok
    rw [he] at hsb
    have ih := history_body_eq_model cfg hgap ops hs s1 hl hi1 (fun o h => ho o (List.mem_cons_of_mem _ h))
    simp only [runBodyH, runH, hsb, he]
    exact ih

/-- Non-vacuity: a history with the cursor gutter, a gap, an upward scroll and an item replacement, executed
    from the regenerated bodies. -/
example : (runBodyH ⟨1, true⟩ [3, 1, 2, 4] init
      [.op (.setCursor 3), .op (.draw 10 4), .op .wheelUp, .op (.pending (-2)), .op (.draw 10 4), .items [1, 1], .op .prev, .op (.draw 10 4)]).map
    (fun r => (r.2.cursor, r.2.top, r.2.offset)) = some (3, 1, 0) := by decide +kernel

end VaxisModel.Props.C19Exec
