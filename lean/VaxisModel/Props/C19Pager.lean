/-
C19 — the pager's "content complete" clause as theorems over scroll HISTORIES: every laid-out line
of every text, at every width, is reachable by scrolling line by line from the first draw, a
screenful shows consecutive lines each exactly once, and paging through the text meets every line.
(With `Props.C19.pager_complete` — the lines concatenated are the text without its newline
characters, every character on exactly one line — and `pager_row_keeps_characters` — every character
of a line in its own cell — this is the end-to-end statement "no character is lost or shown twice on
a screen, and every character is on some reachable screen".)
-/
import VaxisModel.Props.C19

namespace VaxisModel.Props.C19Pager
open VaxisModel VaxisModel.Model VaxisModel.Model.Pager

local notation "fl" => Gen.ListFacts.layoutFlushesLast

/-- **A screenful shows the lines `off, off+1, …` each exactly once**: for every pager state and window,
    after `Draw` with the (clamped) offset `off`: row `r < h` shows line `off + r` (blank below the last
    line), and every line index `i` with `off ≤ i < off + h` is shown by exactly one row. -/
theorem pager_screen_lines_once (s : St) (w h : Nat) :
    let s' := (draw fl s w h).1
    (∀ r, r < h → (draw fl s w h).2[r]? = some (match s'.lines[s'.offset.toNat + r]? with
        | some l => drawRow w l
        | none => List.replicate w none)) ∧
    (∀ i, s'.offset.toNat ≤ i → i < s'.offset.toNat + h → ∃ r, r < h ∧ s'.offset.toNat + r = i ∧
        ∀ r', r' < h → s'.offset.toNat + r' = i → r' = r) := by
  refine ⟨fun r hr => C19.pager_draw_rows s w h r hr, fun i h1 h2 => ?_⟩
  exact ⟨i - (draw fl s w h).1.offset.toNat, by omega, by omega, fun r' _ h' => by omega⟩

/-- A line inside the clamped window of a `Draw` is shown in its row. -/
theorem pager_line_on_screen (s : St) (w h : Nat) (hw : (w : Int) = s.width) (i : Nat) (l : Line)
    (hi : s.lines[i]? = some l)
    (h1 : clampOffset s.lines.length s.offset h ≤ i) (h2 : (i : Int) < clampOffset s.lines.length s.offset h + h) :
    ∃ r, r < h ∧ (draw fl s w h).2[r]? = some (drawRow w l) := by
  obtain ⟨off, hoff⟩ : ∃ o, o = clampOffset s.lines.length s.offset h := ⟨_, rfl⟩
  rw [← hoff] at h1 h2
  have hb : 0 ≤ off := by rw [hoff]; unfold clampOffset; simp only []; split <;> omega
  have hst : (draw fl s w h).1 = { s with offset := off } := by
    simp only [draw, hw, ne_eq, not_true_eq_false, if_false]
    rw [hoff]
  refine ⟨i - off.toNat, by omega, ?_⟩
  have hrow := C19.pager_draw_rows s w h (i - off.toNat) (by omega)
  rw [hrow, hst]
  have : off.toNat + (i - off.toNat) = i := by omega
  simp only [this, hi]

theorem run_scrolls (s : St) (k : Nat) :
    run fl s (List.replicate k .scrollDown) = { s with offset := s.offset + k } := by
  induction k generalizing s with
  | zero => simp [run]
  | succ k ih =>
    rw [List.replicate_succ, run, List.foldl_cons]
    have := ih (step fl s .scrollDown)
    unfold run at this
    rw [this]
    simp only [step, scrollDown]
    congr 1
    omega

/-- The state after `Segments = text; Draw(w × h)` from a new pager (`w ≥ 1`): the lines are the layout
    of the text at `w`, the offset is 0. -/
theorem first_draw (cs : List Ch) (w h : Nat) (hw : 1 ≤ w) :
    run fl init [.setText cs, .draw w h] =
      { text := cs, lines := layout fl w cs, offset := 0, width := w } := by
  have hne : (w : Int) ≠ 0 := by omega
  simp only [run, List.foldl_cons, List.foldl_nil, step, setText, init, draw, ne_eq, hne, not_false_eq_true, ↓reduceIte]
  congr 1
  unfold clampOffset
  simp only []
  split <;> split <;> omega

/-- **Every line is reachable by scrolling** — for every text, every width `w ≥ 1` (the layout wraps at
    `w`), every window height `h ≥ 1` and every laid-out line `i`: the history
    `Segments = text; Draw; ScrollDown × k; Draw` shows line `i` in one of the `h` rows, for `k = i`
    (line by line) — no direct write of `Offset` is needed, and the clamping of `Draw` makes no line
    unreachable (the last one included). -/
theorem pager_line_reachable_by_scrolling (cs : List Ch) (w h : Nat) (hw : 1 ≤ w) (hh : 1 ≤ h)
    (i : Nat) (l : Line) (hi : (layout fl w cs)[i]? = some l) :
    ∃ r, r < h ∧
      (draw fl (run fl init ([.setText cs, .draw w h] ++ List.replicate i .scrollDown)) w h).2[r]? = some (drawRow w l) := by
  have hrun : run fl init ([.setText cs, .draw w h] ++ List.replicate i .scrollDown) =
      { text := cs, lines := layout fl w cs, offset := (i : Int), width := w } := by
    unfold run
    rw [List.foldl_append]
    have h1 := first_draw cs w h hw
    unfold run at h1
    rw [h1]
    have h2 := run_scrolls { text := cs, lines := layout fl w cs, offset := 0, width := w } i
    unfold run at h2
    rw [h2]
    simp
  rw [hrun]
  have hil : i < (layout fl w cs).length := Lemmas.DynList.getElem?_lt hi
  apply pager_line_on_screen _ w h rfl i l hi
  · simp only []; unfold clampOffset; simp only []; split <;> split <;> omega
  · simp only []; unfold clampOffset; simp only []; split <;> split <;> omega

/-- **Paging through the text meets every line** — scrolling a whole window at a time
    (`ScrollDown × (p·h)`, `p = i / h`) shows line `i` on page `p`: either at row `i mod h`, or — on the
    last page, where `Draw` clamps the offset so that the window stays full — further down. With
    `pager_screen_lines_once` each page shows its lines once; consecutive pages `p·h` cover
    `0 … lines−1` without a gap. -/
theorem pager_pages_cover_text (cs : List Ch) (w h : Nat) (hw : 1 ≤ w) (hh : 1 ≤ h)
    (i : Nat) (l : Line) (hi : (layout fl w cs)[i]? = some l) :
    ∃ r, r < h ∧
      (draw fl (run fl init ([.setText cs, .draw w h] ++ List.replicate (i / h * h) .scrollDown)) w h).2[r]? =
        some (drawRow w l) := by
  have hrun : run fl init ([.setText cs, .draw w h] ++ List.replicate (i / h * h) .scrollDown) =
      { text := cs, lines := layout fl w cs, offset := ((i / h * h : Nat) : Int), width := w } := by
    unfold run
    rw [List.foldl_append]
    have h1 := first_draw cs w h hw
    unfold run at h1
    rw [h1]
    have h2 := run_scrolls { text := cs, lines := layout fl w cs, offset := 0, width := w } (i / h * h)
    unfold run at h2
    rw [h2]
    simp
  rw [hrun]
  have hil : i < (layout fl w cs).length := Lemmas.DynList.getElem?_lt hi
  have hdiv : i / h * h ≤ i := Nat.div_mul_le_self i h
  have hmod : i < i / h * h + h := by
    have := Nat.lt_div_mul_add (a := i) (b := h) (by omega)
    omega
  apply pager_line_on_screen _ w h rfl i l hi
  · simp only []; unfold clampOffset; simp only []; split <;> split <;> omega
  · simp only []; unfold clampOffset; simp only []; split <;> split <;> omega

/-- Non-vacuity: "ab\ncd" … five one-column characters at width 2, window of 1 row: three lines, the last
    (unterminated) one reached by two `ScrollDown`s. -/
example :
    let c (b : Nat) : Ch := ⟨[b], 1⟩
    (layout fl 2 [c 97, c 98, c 99, c 100, c 101]).length = 3 ∧
    (draw fl (run fl init ([.setText [c 97, c 98, c 99, c 100, c 101], .draw 2 1] ++ List.replicate 2 .scrollDown)) 2 1).2 =
      [[some (c 101), none]] := by decide

end VaxisModel.Props.C19Pager
