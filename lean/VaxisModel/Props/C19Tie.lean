/-
C19 — the structural tie between vxfw/list/list.go `Dynamic` and `Model/DynList.lean`.

`Gen/DynSkel.lean` is regenerated from the source on every run: every method body of `Dynamic`
translated statement by statement into the tiny syntax of `Model/GoSyn.lean`.  The theorems here
pin (a) that the translation recognised everything, (b) the statement skeleton of each method —
loop structure, guards, the order of the top/offset updates — against the skeleton the model
transcribes, and (c) that the arithmetic and boolean expressions of the source, EVALUATED, are the
expressions the model computes with (for all values of the variables).
-/
import VaxisModel.Model.ListGen
import VaxisModel.Lemmas.DynSkelExpected
import VaxisModel.Lemmas.DynInterp

namespace VaxisModel.Props.C19Tie
open VaxisModel.Model VaxisModel.Model.GoSyn
open VaxisModel.Gen.DynSkel

/-- The translator recognised every statement and expression of the eleven methods. -/
theorem fully_recognised :
    (fullyRecognised draw && fullyRecognised insertChildren && fullyRecognised nextItem && fullyRecognised prevItem &&
     fullyRecognised ensureScroll && fullyRecognised setCursor && fullyRecognised setPendingScroll &&
     fullyRecognised handleEvent && fullyRecognised captureEvent && fullyRecognised cursor && fullyRecognised offset) = true := by
  decide

/-! ### statement skeletons -/

theorem skeleton_draw : draw = Lemmas.DynSkelExpected.draw := by decide +kernel
theorem skeleton_insertChildren : insertChildren = Lemmas.DynSkelExpected.insertChildren := by decide +kernel
theorem skeleton_nextItem : nextItem = Lemmas.DynSkelExpected.nextItem := by decide
theorem skeleton_prevItem : prevItem = Lemmas.DynSkelExpected.prevItem := by decide
theorem skeleton_ensureScroll : ensureScroll = Lemmas.DynSkelExpected.ensureScroll := by decide
theorem skeleton_setters : setCursor = Lemmas.DynSkelExpected.setCursor ∧
    setPendingScroll = Lemmas.DynSkelExpected.setPendingScroll ∧ cursor = Lemmas.DynSkelExpected.cursor ∧
    offset = Lemmas.DynSkelExpected.offset := by decide
theorem skeleton_events : handleEvent = Lemmas.DynSkelExpected.handleEvent ∧
    captureEvent = Lemmas.DynSkelExpected.captureEvent := by decide

/-! ### the expressions, evaluated

Names: in `Draw`, `v0` = ctx, `v1` = the surface `s`, `v2` = `ah`, `v3` = `i`; in `insertChildren`
`v2` = `ah`.  `len` stands for `len(s.Children)`. -/

/-- The state variables of `Dynamic` as an environment. -/
def envOf (s : DynList.St) : List (String × Int) :=
  [("d.scroll.offset", s.offset), ("d.scroll.pending", s.pending), ("d.scroll.top", (s.top : Int)),
   ("d.cursor", (s.cursor : Int)), ("d.scroll.wantsCursor", if s.wantsCursor then 1 else 0)]

/-- **Draw returns the surface it created with the size `ctx.Max`** (vxfw/list Dynamic sizes): the
    surface is `vxfw.NewSurface(ctx.Max.Width, ctx.Max.Height, d)`, it is never reassigned, and every
    `return` returns it — so the size returned equals (hence is within) the maximum constraint for
    every constraint. -/
theorem facts_surface_is_max :
    rhsOf draw .define (.var "v1")
      = .arg (.arg (.arg (.call (.var "vxfw.NewSurface")) (.var "v0.Max.Width")) (.var "v0.Max.Height")) (.var "d") ∧
    (linesWith draw .define (.var "v1")).length = 1 ∧ (linesWith draw .assign (.var "v1")).length = 0 ∧
    (draw.filter (fun l => l.kind == .returnS)).all (fun l => match l.e1 with | .pair (.var "v1") _ => true | _ => false) = true := by
  decide

/-- The start of `Draw`: `ah := -(offset + pending)`; the guard `ah > 0 && top == 0`; then
    `if ah > 0 { insertChildren … }` — exactly `DynList.prologue` and the test of `DynList.scrollUp`. -/
theorem facts_prologue (s : DynList.St) :
    evalI (envOf s) (rhsOf draw .define (.var "v2")) = some (- (s.offset + s.pending)) ∧
    (∀ ah : Int, (condsOf draw .ifS)[1]?.bind (evalB (("v2", ah) :: envOf s)) = some (decide (ah > 0) && decide ((s.top : Int) = 0))) ∧
    (∀ ah : Int, (condsOf draw .ifS)[2]?.bind (evalB [("v2", ah)]) = some (decide (ah > 0))) ∧
    (DynList.prologue s).1 = (if (- (s.offset + s.pending) > 0 ∧ s.top = 0) then 0 else - (s.offset + s.pending)) := by
  refine ⟨rfl, fun _ => rfl, fun _ => rfl, ?_⟩
  unfold DynList.prologue; simp only []; split <;> rfl

/-- After `insertChildren`: `ah = last.Origin.Row + int(last.Surface.Size.Height) + d.Gap` (`DynList.scrollUp`). -/
theorem facts_after_insert (row h gap : Int) :
    evalI [("v5.Origin.Row", row), ("v5.Surface.Size.Height", h), ("d.Gap", gap)] (rhsOf draw .assign (.var "v2") 1)
      = some (row + h + gap) := rfl

/-- The downward loop (`DynList.drawDown`): `ah += int(height) + d.Gap`; `continue` iff
    `wantsCursor && i <= cursor`; `break` iff `ah >= int(ctx.Max.Height)`. -/
theorem facts_draw_down (ah h gap i cursor H : Int) (wants : Bool) :
    evalI [("v9.Size.Height", h), ("d.Gap", gap)] (rhsOf draw .addAssign (.var "v2")) = some (h + gap) ∧
    (condsOf draw .ifS)[7]?.bind (evalB [("d.scroll.wantsCursor", if wants then 1 else 0), ("v3", i), ("d.cursor", cursor)])
      = some (wants && decide (i ≤ cursor)) ∧
    (condsOf draw .ifS)[8]?.bind (evalB [("v2", ah), ("v0.Max.Height", H)]) = some (decide (ah ≥ H)) := by
  refine ⟨rfl, ?_, rfl⟩
  cases wants <;> rfl

/-- The cursor gutter and the wants-cursor block index the children with `d.cursor - d.scroll.top`
    (a `uint` subtraction: `DynList.usub`), guarded by `d.cursor >= d.scroll.top && idx < uint(len)`
    resp. `idx < uint(len)` — both compared as `uint` (repair F119h; `DynList.cursorChild`, `gutter`). -/
theorem facts_cursor_index (cursor top idx len : Int) :
    evalI [("d.cursor", cursor), ("d.scroll.top", top)] (rhsOf draw .define (.var "v14")) = some (cursor - top) ∧
    evalI [("d.cursor", cursor), ("d.scroll.top", top)] (rhsOf draw .define (.var "v19")) = some (cursor - top) ∧
    (condsOf draw .ifS)[11]?.bind (evalB [("d.cursor", cursor), ("d.scroll.top", top), ("v14", idx), ("len", len)])
      = some (decide (cursor ≥ top) && decide (idx < len)) ∧
    (condsOf draw .ifS)[11]? = some (.bin "&&" (.bin ">=" (.var "d.cursor") (.var "d.scroll.top"))
        (.bin "<" (.var "v14") (.arg (.call (.var "uint")) (.arg (.call (.var "len")) (.var "v1.Children"))))) ∧
    (condsOf draw .ifS)[13]? = some (.bin "<" (.var "v19") (.arg (.call (.var "uint")) (.arg (.call (.var "len")) (.var "v1.Children")))) ∧
    (condsOf draw .ifS)[13]?.bind (evalB [("v19", idx), ("len", len)]) = some (decide (idx < len)) ∧
    rhsOf draw .define (.var "v15") = .index (.var "v1.Children") (.var "v14") ∧
    rhsOf draw .define (.var "v20") = .index (.var "v1.Children") (.var "v19") :=
  ⟨rfl, rfl, rfl, rfl, rfl, rfl, rfl, rfl⟩

/-- The wants-cursor block (`DynList.reveal`): `bRow := row + int(height)`; if `bRow > H` every child
    moves by `H - bRow`; else if `row < 0` every child moves by `-row`; then the flag is cleared. -/
theorem facts_reveal (row h H bRow : Int) :
    evalI [("v20.Origin.Row", row), ("v20.Surface.Size.Height", h)] (rhsOf draw .define (.var "v21")) = some (row + h) ∧
    (condsOf draw .ifS)[14]?.bind (evalB [("v21", bRow), ("v0.Max.Height", H)]) = some (decide (bRow > H)) ∧
    evalI [("v21", bRow), ("v0.Max.Height", H)] (rhsOf draw .define (.var "v22")) = some (H - bRow) ∧
    (condsOf draw .ifS)[15]?.bind (evalB [("v20.Origin.Row", row)]) = some (decide (row < 0)) ∧
    evalI [("v20.Origin.Row", row)] (rhsOf draw .define (.var "v25")) = some (- row) ∧
    rhsOf draw .addAssign (.var "v24.Origin.Row") = .var "v22" ∧ rhsOf draw .addAssign (.var "v27.Origin.Row") = .var "v25" ∧
    rhsOf draw .assign (.var "d.scroll.wantsCursor") = .var "false" :=
  ⟨rfl, rfl, rfl, rfl, rfl, rfl, rfl, rfl⟩

/-- The final loop (`DynList.retop`): for child `i` at `row` with `height`: if
    `row <= 0 && row + int(height) + d.Gap > 0` then `top += uint(i)` and `offset = -row` — top first. -/
theorem facts_retop (row h gap i : Int) :
    (condsOf draw .ifS)[16]?.bind (evalB [("v29.Origin.Row", row), ("v29.Surface.Size.Height", h), ("d.Gap", gap)])
      = some (decide (row ≤ 0) && decide (row + h + gap > 0)) ∧
    evalI [("v28", i)] (rhsOf draw .addAssign (.var "d.scroll.top")) = some i ∧
    evalI [("v29.Origin.Row", row)] (rhsOf draw .assign (.var "d.scroll.offset") 2) = some (- row) ∧
    draw.getLast? = some ⟨0, .returnS, .pair (.var "v1") (.var "nil"), .none⟩ :=
  ⟨rfl, rfl, rfl, rfl⟩

/-- `insertChildren` (`DynList.insertChildren` / `insertLoop` / `restack`): `top -= 1` first; loop while
    `ah > 0`; `ah -= int(height) + d.Gap`; the child is placed at `ah`; stop when
    `top == 0 || ah <= 0`, else `top -= 1`; afterwards `offset = ah`; if `top == 0 && ah > 0` the offset
    is 0 and the rows are reassigned from 0 with `row += int(height) + d.Gap`. -/
theorem facts_insert_children (ah h gap top : Int) :
    insertChildren.head? = some ⟨0, .subAssign, .var "d.scroll.top", .int 1⟩ ∧
    (condsOf insertChildren .forS)[0]?.bind (evalB [("v2", ah)]) = some (decide (ah > 0)) ∧
    evalI [("v6.Size.Height", h), ("d.Gap", gap)] (rhsOf insertChildren .subAssign (.var "v2")) = some (h + gap) ∧
    rhsOf insertChildren .define (.var "v8")
      = .arg (.arg (.arg (.call (.var "vxfw.NewSubSurface")) (.var "v3")) (.var "v2")) (.var "v6") ∧
    (condsOf insertChildren .ifS)[3]?.bind (evalB [("d.scroll.top", top), ("v2", ah)]) = some (decide (top = 0) || decide (ah ≤ 0)) ∧
    rhsOf insertChildren .assign (.var "d.scroll.offset") 0 = .var "v2" ∧
    (condsOf insertChildren .ifS)[4]?.bind (evalB [("d.scroll.top", top), ("v2", ah)]) = some (decide (top = 0) && decide (ah > 0)) ∧
    rhsOf insertChildren .assign (.var "d.scroll.offset") 1 = .int 0 ∧
    evalI [("v11.Surface.Size.Height", h), ("d.Gap", gap)] (rhsOf insertChildren .addAssign (.var "v9")) = some (h + gap) :=
  ⟨rfl, rfl, rfl, rfl, rfl, rfl, rfl, rfl, rfl⟩

/-- `ensureScroll` IS `DynList.ensureScroll`: the guard `cursor > top` evaluated on the state decides
    between setting the flag and `top = cursor; offset = 0; pending = 0` (repair F119g). -/
theorem facts_ensure_scroll (s : DynList.St) :
    (condsOf ensureScroll .ifS)[0]?.bind (evalB (envOf s)) = some (decide (s.cursor > s.top)) ∧
    DynList.ensureScroll s = (if s.cursor > s.top then { s with wantsCursor := true } else { s with top := s.cursor, offset := 0, pending := 0 }) := by
  refine ⟨?_, rfl⟩
  show some (decide ((s.cursor : Int) > (s.top : Int))) = some (decide (s.cursor > s.top))
  congr 1
  exact decide_eq_decide.mpr (by omega)

/-- `NextItem` asks the Builder for `cursor + 1`, `PrevItem` returns early iff `cursor == 0` and asks
    for `cursor - 1`; both then move the cursor by one and call `ensureScroll`. -/
theorem facts_next_prev (cursor : Int) :
    rhsOf nextItem .define (.var "v0")
      = .arg (.arg (.call (.var "d.Builder")) (.bin "+" (.var "d.cursor") (.int 1))) (.var "d.cursor") ∧
    rhsOf nextItem .addAssign (.var "d.cursor") = .int 1 ∧
    (condsOf prevItem .ifS)[0]?.bind (evalB [("d.cursor", cursor)]) = some (decide (cursor = 0)) ∧
    rhsOf prevItem .define (.var "v0")
      = .arg (.arg (.call (.var "d.Builder")) (.bin "-" (.var "d.cursor") (.int 1))) (.var "d.cursor") ∧
    rhsOf prevItem .subAssign (.var "d.cursor") = .int 1 :=
  ⟨rfl, rfl, rfl, rfl, rfl⟩

/-- The wheel (`DynList.wheelDown` / `wheelUp`): `pending += 3`; `pending -= 3` iff
    `offset > 0 && top > 0`. -/
theorem facts_wheel (s : DynList.St) :
    rhsOf handleEvent .addAssign (.var "d.scroll.pending") = .int 3 ∧
    rhsOf handleEvent .subAssign (.var "d.scroll.pending") = .int 3 ∧
    (condsOf handleEvent .ifS)[1]?.bind (evalB (envOf s)) = some (decide (s.offset > 0) && decide ((s.top : Int) > 0)) ∧
    (DynList.wheelUp s).2 = (decide (s.offset > 0) && decide (s.top > 0)) := by
  refine ⟨rfl, rfl, rfl, ?_⟩
  unfold DynList.wheelUp
  by_cases h1 : s.offset > 0 <;> by_cases h2 : s.top > 0 <;> simp [h1, h2]

/-! ### the small methods: the model IS the regenerated syntax, interpreted

`Model/DynInterp.lean` runs a regenerated method body directly (assignments to the scroll state with
`uint` wrap-around, `if` blocks, `return`, the Builder call, the call of `ensureScroll`).  For every
state (every `uint` cursor, wrap-around at 2^64 included) and every builder the result is the function `Model/DynList.lean` defines. -/

open VaxisModel.Model.DynInterp in
/-- `ensureScroll`, interpreted = `DynList.ensureScroll`. -/
theorem interp_ensureScroll (hs : List Nat) (s : DynList.St) (hc : s.cursor < 2 ^ 64) :
    (runMethod hs ensureScroll ensureScroll s 0).map (·.st) = some (DynList.ensureScroll s) := by
  rw [skeleton_ensureScroll]
  exact Lemmas.DynInterp.ensureScroll_run hs s hc 0

open VaxisModel.Model.DynInterp in
/-- `SetCursor(c)`, interpreted = `DynList.setCursor`; `SetPendingScroll(k)` = `DynList.setPending`. -/
theorem interp_setters (hs : List Nat) (s : DynList.St) (c : Nat) (hc : c < 2 ^ 64) (k : Int) :
    (runMethod hs ensureScroll setCursor s c).map (·.st) = some (DynList.setCursor s c) ∧
    (runMethod hs ensureScroll setPendingScroll s k).map (·.st) = some (DynList.setPending s k) := by
  rw [skeleton_ensureScroll, skeleton_setters.1, skeleton_setters.2.1]
  exact ⟨Lemmas.DynInterp.setCursor_interp hs s c hc, Lemmas.DynInterp.setPendingScroll_interp hs s k⟩

open VaxisModel.Model.DynInterp in
/-- `NextItem` / `PrevItem`, interpreted on any builder = `DynList.nextItem` / `prevItem` (new state and
    whether a command is returned). -/
theorem interp_next_prev (hs : List Nat) (s : DynList.St) (hc : s.cursor < 2 ^ 64) :
    (runMethod hs ensureScroll nextItem s 0).map (fun r => (r.st, r.ret)) =
      some ((DynList.nextItem hs s).1, some (DynList.nextItem hs s).2) ∧
    (runMethod hs ensureScroll prevItem s 0).map (fun r => (r.st, r.ret)) =
      some ((DynList.prevItem hs s).1, some (DynList.prevItem hs s).2) := by
  rw [skeleton_ensureScroll, skeleton_nextItem, skeleton_prevItem]
  exact ⟨Lemmas.DynInterp.nextItem_interp hs s hc, Lemmas.DynInterp.prevItem_interp hs s hc⟩

/-- Non-vacuity: `NextItem` interpreted on three items from the initial state. -/
example : ((DynInterp.runMethod [1, 2, 3] ensureScroll nextItem DynList.init 0).map (fun r => (r.st.cursor, r.st.wantsCursor, r.ret)))
    = some (1, true, some true) := by decide

end VaxisModel.Props.C19Tie
