/-
C19, widgets/list `List`, widgets/pager `Model`, widgets/scrollbar `Model`: the method bodies are no longer pinned
textually — they are regenerated as syntax (`Gen/WidSkel.lean`), EXECUTED by the interpreter `Model/WidExec.lean`
(`Model/WidGenBodies.genB`), and the executed bodies are proved equal to the models the theorems of `Props/C19.lean`
are about.  So `simple_list_*`, `pager_*`, `scrollbar_*` are theorems about the interpreted source.
-/
import VaxisModel.Model.WidGenBodies
import VaxisModel.Lemmas.WidExecList
import VaxisModel.Props.C19
import VaxisModel.Props.C19Pager

namespace VaxisModel.Props.C19Wid
open VaxisModel.Model VaxisModel.Model.WidExec
open VaxisModel.Model.DynExec (parseBody)
open VaxisModel.Lemmas.WidExec (expB rhsFixed obs)
open VaxisModel.Lemmas VaxisModel.Gen

/-- The translator recognised every statement and expression of the eighteen functions. -/
theorem wid_fully_recognised : allBodies.all GoSyn.fullyRecognised = true := by decide +kernel

/-- The regenerated skeletons are the ones the execution lemmas are about (fails, naming the function, when list.go /
    pager.go / scrollbar.go change there). -/
theorem wid_bodies_as_expected :
    WidSkel.listMin = WidSkelExpected.listMin ∧ WidSkel.listMax = WidSkelExpected.listMax ∧
    WidSkel.listNew = WidSkelExpected.listNew ∧ WidSkel.listIndex = WidSkelExpected.listIndex ∧
    WidSkel.listDraw = WidSkelExpected.listDraw ∧ WidSkel.listDown = WidSkelExpected.listDown ∧
    WidSkel.listUp = WidSkelExpected.listUp ∧ WidSkel.listHome = WidSkelExpected.listHome ∧
    WidSkel.listEnd = WidSkelExpected.listEnd ∧ WidSkel.listPageDown = WidSkelExpected.listPageDown ∧
    WidSkel.listPageUp = WidSkelExpected.listPageUp ∧ WidSkel.listSetItems = WidSkelExpected.listSetItems ∧
    WidSkel.pagerDraw = WidSkelExpected.pagerDraw ∧ WidSkel.pagerLayout = WidSkelExpected.pagerLayout ∧
    WidSkel.pagerScrollDown = WidSkelExpected.pagerScrollDown ∧ WidSkel.pagerScrollUp = WidSkelExpected.pagerScrollUp ∧
    WidSkel.lineAppend = WidSkelExpected.lineAppend ∧ WidSkel.barDraw = WidSkelExpected.barDraw := by
  decide +kernel

/-- The regenerated bodies parse to the statement trees the execution lemmas are about. -/
theorem gen_bodies_parsed : genB = expB := by
  obtain ⟨h1, h2, h3, h4, h5, h6, h7, h8, h9, h10, h11, h12, h13, h14, h15, h16, h17, h18⟩ := wid_bodies_as_expected
  unfold genB expB
  rw [h1, h2, h3, h4, h5, h6, h7, h8, h9, h10, h11, h12, h13, h14, h15, h16, h17, h18,
    WidTrees.parse_lmin, WidTrees.parse_lmax, WidTrees.parse_lnew, WidTrees.parse_lindex, WidTrees.parse_ldraw, WidTrees.parse_ldown,
    WidTrees.parse_lup, WidTrees.parse_lhome, WidTrees.parse_lend, WidTrees.parse_lpgdn, WidTrees.parse_lpgup,
    WidTrees.parse_lset, WidTrees.parse_pdraw, WidTrees.parse_play, WidTrees.parse_pdown, WidTrees.parse_pup,
    WidTrees.parse_lapp, WidTrees.parse_bdraw]

/-- The index expressions the extractor translates (`Gen/ListFacts.lean`, used by `SimpleList.gen`) are the ones the
    interpreted bodies compute. -/
theorem list_rhs_is_gen : SimpleList.gen = rhsFixed := by
  unfold SimpleList.gen rhsFixed
  congr

/-! ### widgets/list -/

/-- list.go's own `min` / `max`, executed from their bodies, are `min` / `max` (a call `max(a, b)` inside an index
    expression is a call into these bodies: `WidExec.listFns`). -/
theorem minmax_body_eq_model (a b : Int) :
    runFun2 genB.listMin a b = .ok (some (min a b)) ∧ runFun2 genB.listMax a b = .ok (some (max a b)) := by
  rw [gen_bodies_parsed]; exact ⟨WidExec.lmin_run a b, WidExec.lmax_run a b⟩

/-- `New(items)`, executed from its body (`return List{items: items}`), is the model's initial state: index 0, offset 0. -/
theorem list_new_body_eq_model (k : Nat) : runListNew genB.listNew k = some (SimpleList.new k) := by
  rw [gen_bodies_parsed]; exact WidExec.lnew_run k

/-- `Index()` returns the index. -/
theorem list_index_body_eq_model (s : SimpleList.St) : runListIndex genB.listIndex s = some s.index := by
  rw [gen_bodies_parsed]; exact WidExec.lindex_run s

/-- One operation of `List`, executed from the regenerated body (window height `h` where the method reads it). -/
def listStepBody (s : SimpleList.St) : SimpleList.Op → Option (Except Unit (SimpleList.St × List SimpleList.Row))
  | .down => runList genB genB.listDown s 0 0
  | .up => runList genB genB.listUp s 0 0
  | .home => runList genB genB.listHome s 0 0
  | .«end» => runList genB genB.listEnd s 0 0
  | .pageDown h => runList genB genB.listPageDown s h 0
  | .pageUp h => runList genB genB.listPageUp s h 0
  | .setItems k => runList genB genB.listSetItems s 0 k
  | .draw h => runList genB genB.listDraw s h 0

/-- **Every method of `List`, executed from its regenerated body, is the model's step** (`SimpleList.step` over the
    regenerated index expressions): same new state, same printed rows, and a panic (the slice expression
    `m.items[m.offset:]` out of range) exactly when the model panics — for every state (reachable or not), every window
    height, every new item count. -/
theorem list_step_body_eq_model (s : SimpleList.St) (op : SimpleList.Op) :
    listStepBody s op = some (obs (SimpleList.step SimpleList.gen s op)) := by
  rw [list_rhs_is_gen]
  unfold listStepBody
  rw [gen_bodies_parsed]
  cases op with
  | down => exact (WidExec.lnav_run s 0 0).1
  | up => exact (WidExec.lnav_run s 0 0).2.1
  | home => exact (WidExec.lnav_run s 0 0).2.2.1
  | «end» => exact (WidExec.lnav_run s 0 0).2.2.2.1
  | pageDown h => exact (WidExec.lnav_run s h 0).2.2.2.2.1
  | pageUp h => exact (WidExec.lnav_run s h 0).2.2.2.2.2.1
  | setItems k => exact (WidExec.lnav_run s 0 k).2.2.2.2.2.2
  | draw h => exact WidExec.ldraw_run s h

/-- A history executed from the bodies: the final state, `error ()` at the first panic, `none` if the interpreter got
    stuck. -/
def listRunBody (s : SimpleList.St) : List SimpleList.Op → Option (Except Unit SimpleList.St)
  | [] => some (.ok s)
  | op :: ops =>
    match listStepBody s op with
    | some (.ok (s', _)) => listRunBody s' ops
    | some (.error _) => some (.error ())
    | none => none

/-- **Whole histories of `List`, executed from the regenerated bodies, never panic and never get stuck**, and end in the
    state of the model's history — so `simple_list_safe` / `simple_list_selected_visible` / `simple_list_rows_in_order`
    are statements about the executed code. -/
theorem list_history_body_eq_model (n : Nat) (ops : List SimpleList.Op) :
    ∃ s, listRunBody (SimpleList.new n) ops = some (.ok s) ∧ SimpleList.run SimpleList.gen (SimpleList.new n) ops = .ok s := by
  have key : ∀ (ops : List SimpleList.Op) (s : SimpleList.St),
      listRunBody s ops = some (match SimpleList.run SimpleList.gen s ops with | .ok s' => .ok s' | .error _ => .error ()) := by
    intro ops
    induction ops with
    | nil => intro s; rfl
    | cons op ops ih =>
      intro s
      simp only [listRunBody, list_step_body_eq_model, SimpleList.run]
      cases hstep : SimpleList.step SimpleList.gen s op with
      | error e => simp [obs]
      | ok r => obtain ⟨s', rows⟩ := r; simp only [obs]; exact ih s'
  obtain ⟨s, hs, _⟩ := C19.simple_list_safe n ops
  exact ⟨s, by rw [key, hs], hs⟩

example : (match listRunBody (SimpleList.new 3) [.down, .down, .draw 2, .setItems 1, .draw 2] with
    | some (.ok s) => s == ⟨0, 0, 1⟩
    | _ => false) = true := by
  decide +kernel

/-- **Selection valid and visible — for the EXECUTED `List`.**  `New(items)` with any item count, then ANY history of
    Down/Up/Home/End/PageDown/PageUp/SetItems/Draw, then a `Draw` into a window of height `h > 0`, every step executed from
    the regenerated bodies: nothing panics or gets stuck, every printed row lies inside the window and shows an existing
    item, a row is drawn selected (reverse video) iff it shows item `Index()`, and when there are items such a row exists. -/
theorem list_selected_visible_body (n : Nat) (ops : List SimpleList.Op) (h : Nat) (hh : 0 < h) :
    ∃ s0 s s' rows, runListNew genB.listNew n = some s0 ∧ listRunBody s0 ops = some (.ok s) ∧
      listStepBody s (.draw h) = some (.ok (s', rows)) ∧ runListIndex genB.listIndex s' = some s.index ∧
      (∀ r ∈ rows, r.row < h ∧ 0 ≤ r.item ∧ r.item < (s.n : Int) ∧ (r.sel = true ↔ r.item = s.index)) ∧
      (0 < s.n → ∃ r ∈ rows, r.sel = true ∧ r.item = s.index) := by
  obtain ⟨s, hrun, s', rows, hd, hidx, h1, h2⟩ := C19.simple_list_selected_visible n ops h hh
  obtain ⟨s2, hb, hm⟩ := list_history_body_eq_model n ops
  have hss : s2 = s := by rw [hrun] at hm; injection hm with hm; exact hm.symm
  subst hss
  refine ⟨SimpleList.new n, s2, s', rows, list_new_body_eq_model n, hb, ?_, ?_, h1, h2⟩
  · rw [list_step_body_eq_model]
    simp [SimpleList.step, hd, obs]
  · rw [list_index_body_eq_model, hidx]

/-! ### widgets/pager -/

/-- **`Layout()`, executed from its regenerated body** (the two nested `range` loops over the segments and their
    characters, the newline test, `l.append`, the width test, the final flush), **is `Pager.layout`** at the recorded width,
    for every text, every segmentation of it, every state. -/
theorem pager_layout_body_eq_model (segs : List (List Pager.Ch)) (s : Pager.St) (w h : Nat) (fe : Bool)
    (ht : segs.flatten = s.text) :
    runPager genB genB.pagerLayout segs s w h fe = some (Pager.relayout true s, blank w h) := by
  rw [gen_bodies_parsed]; exact WidExec.play_run segs s w h fe ht

/-- **`Draw`, executed from its regenerated body** (the re-layout on a width change through the CALL of `Layout`'s body,
    the two offset clamps, the fill, the loop over the lines with `continue` above the offset and `return` below the
    window, the cell loop with the running column) **is `Pager.draw`**: the same new state (lines, offset, width) and the
    same window, cell by cell — for every state (any offset, any stale lines), every window size, zero included. -/
theorem pager_draw_body_eq_model (segs : List (List Pager.Ch)) (s : Pager.St) (w h : Nat) (fe : Bool)
    (ht : segs.flatten = s.text) :
    runPager genB genB.pagerDraw segs s w h fe = some (Pager.draw true s w h) := by
  rw [gen_bodies_parsed]; exact WidExec.pdraw_run segs s w h fe ht

theorem pager_scroll_body_eq_model (segs : List (List Pager.Ch)) (s : Pager.St) (w h : Nat) (fe : Bool)
    (ht : segs.flatten = s.text) :
    runPager genB genB.pagerScrollDown segs s w h fe = some (Pager.scrollDown s, blank w h) ∧
    runPager genB genB.pagerScrollUp segs s w h fe = some (Pager.scrollUp s, blank w h) := by
  rw [gen_bodies_parsed]; exact WidExec.pscroll_run segs s w h fe ht

/-- The interpreter's pointer semantics is the real one (not a value copy): a variant of `Layout` that appends every
    character to the line and the line to `m.lines` WITHOUT replacing `l` by a fresh `&line{}` leaves the SAME line object
    in `m.lines` twice — both entries show both characters, as in Go. -/
example :
    (match exec ⟨0, 0, [[⟨[97], 1⟩, ⟨[98], 1⟩]], lineCalls genB, noFn⟩
      (parseBody [
        ⟨0, .assign, (.var "d.lines"), (.lit "[]*line{}")⟩,
        ⟨0, .define, (.var "v0"), (.un "&" (.lit "line{}"))⟩,
        ⟨0, .rangeS, (.pair (.var "_") (.var "v2")), (.var "d.Segments")⟩,
        ⟨1, .rangeS, (.pair (.var "_") (.var "v3")), (.arg (.call (.var "vaxis.Characters")) (.var "v2.Text"))⟩,
        ⟨2, .define, (.var "v4"), (.arg (.arg (.call (.lit "vaxis.Cell{}")) (.pair (.var "Character") (.var "v3"))) (.pair (.var "Style") (.var "v2.Style")))⟩,
        ⟨2, .exprS, (.arg (.call (.var "v0.append")) (.var "v4")), .none⟩,
        ⟨2, .assign, (.var "d.lines"), (.arg (.arg (.call (.var "append")) (.var "d.lines")) (.var "v0"))⟩]) 0 m0 with
     | .ok (m, _) => m.lines == [[⟨[97], 1⟩, ⟨[98], 1⟩], [⟨[97], 1⟩, ⟨[98], 1⟩]]
     | .error _ => false) = true := by
  decide +kernel

/-- One operation of an application on a pager, executed from the regenerated bodies; the text is handed to the widget
    as the segments `seg text` (any segmentation). -/
def pagerStepBody (seg : List Pager.Ch → List (List Pager.Ch)) (s : Pager.St) : Pager.Op → Option Pager.St
  | .scrollDown => (runPager genB genB.pagerScrollDown (seg s.text) s 0 0 true).map (·.1)
  | .scrollUp => (runPager genB genB.pagerScrollUp (seg s.text) s 0 0 true).map (·.1)
  | .setOffset k => some { s with offset := k }
  | .setText cs => some { s with text := cs }
  | .relayout => (runPager genB genB.pagerLayout (seg s.text) s 0 0 true).map (·.1)
  | .draw w h => (runPager genB genB.pagerDraw (seg s.text) s w h true).map (·.1)

def pagerRunBody (seg : List Pager.Ch → List (List Pager.Ch)) (s : Pager.St) : List Pager.Op → Option Pager.St
  | [] => some s
  | op :: ops =>
    match pagerStepBody seg s op with
    | some s' => pagerRunBody seg s' ops
    | none => none

/-- **Whole histories of a pager, executed from the regenerated bodies** (scrolling, direct `Offset` writes, text
    replacement with and without `Layout()`, draws into windows of CHANGING width and height), never get stuck and end in
    the state of the model's history, for every segmentation of the text. -/
theorem pager_history_body_eq_model (seg : List Pager.Ch → List (List Pager.Ch)) (hseg : ∀ t, (seg t).flatten = t)
    (ops : List Pager.Op) (s : Pager.St) :
    pagerRunBody seg s ops = some (Pager.run true s ops) := by
  induction ops generalizing s with
  | nil => rfl
  | cons op ops ih =>
    have hstep : pagerStepBody seg s op = some (Pager.step true s op) := by
      cases op with
      | scrollDown => simp [pagerStepBody, (pager_scroll_body_eq_model (seg s.text) s 0 0 true (hseg _)).1, Pager.step]
      | scrollUp => simp [pagerStepBody, (pager_scroll_body_eq_model (seg s.text) s 0 0 true (hseg _)).2, Pager.step]
      | setOffset k => rfl
      | setText cs => rfl
      | relayout => simp [pagerStepBody, pager_layout_body_eq_model (seg s.text) s 0 0 true (hseg _), Pager.step]
      | draw w h => simp [pagerStepBody, pager_draw_body_eq_model (seg s.text) s w h true (hseg _), Pager.step]
    simp only [pagerRunBody, hstep, Pager.run, List.foldl_cons]
    exact ih _

/-- **Offset clamped to the content — for the EXECUTED `Draw`, over histories with width changes.**  After ANY history
    (scrolls, `Offset` set to any value — also before the first `Draw` —, text replaced, `Layout()` called or not, draws
    into windows of any other width and height) a `Draw` into a `w × h` window, executed from the regenerated bodies of
    `Draw` and `Layout`, leaves `0 ≤ Offset ≤ max 0 (lines − h)` where `lines` are the lines laid out FOR THE WIDTH `w` of
    that window (the re-wrap happens before the clamp), the recorded width is `w`, and a second `Draw` of the same size
    changes nothing.  (Seeded change C19-m6 — re-layout moved below the clamps — makes `wid_bodies_as_expected` fail.) -/
theorem pager_offset_clamped_body (seg : List Pager.Ch → List (List Pager.Ch)) (hseg : ∀ t, (seg t).flatten = t)
    (ops : List Pager.Op) (w h : Nat) :
    ∃ s0 s', pagerRunBody seg Pager.init ops = some s0 ∧ pagerStepBody seg s0 (.draw w h) = some s' ∧
      ((w : Int) ≠ s0.width → s'.lines = Pager.layout true w s0.text) ∧
      0 ≤ s'.offset ∧ s'.offset ≤ max 0 ((s'.lines.length : Int) - h) ∧ s'.width = w ∧
      pagerStepBody seg s' (.draw w h) = some s' := by
  have hf := C19.layout_flushes_last
  obtain ⟨s', hs', h1, h2, h3, h4⟩ := C19.pager_scroll_history ops w h
  have h5 := (C19.pager_offset_clamped (Pager.run true Pager.init ops) w h).2.2
  rw [hf] at hs' h4 h5
  have hd0 := pager_draw_body_eq_model (seg (Pager.run true Pager.init ops).text) (Pager.run true Pager.init ops) w h true (hseg _)
  refine ⟨Pager.run true Pager.init ops, s', pager_history_body_eq_model seg hseg ops _, ?_, ?_, h1, h2, h3, ?_⟩
  · simp [pagerStepBody, hd0, hs']
  · rw [hs']; exact h5
  · have := pager_draw_body_eq_model (seg s'.text) s' w h true (hseg _)
    simp [pagerStepBody, this, h4]

/-- The offset set before the very first `Draw` (the second manifestation of seeded change C19-m6): `Offset := 5` on the
    fresh pager with text "ab\ncd\nef" (three lines at width 3), then the first `Draw` into 3 × 1, executed from the
    bodies: the text is laid out first, so the offset is clamped against the three lines to 2 — not against the still
    empty line list to 0. -/
example : ((pagerRunBody (fun t => [t]) Pager.init
      [.setText [⟨[97], 1⟩, ⟨[98], 1⟩, ⟨[10], 0⟩, ⟨[99], 1⟩, ⟨[100], 1⟩, ⟨[10], 0⟩, ⟨[101], 1⟩, ⟨[102], 1⟩], .setOffset 5, .draw 3 1]).map
        (fun s => (s.offset, s.lines.length))) = some (2, 3) := by
  decide +kernel

/-- **The pager presents every character of its text — for the EXECUTED code.**  Every text whose characters are at
    least one column wide, every segmentation of it, every window of at least one column and one row, every laid-out line
    `i` and every character `k` of it: hand the text to the pager, `Draw`, press `ScrollDown` `i` times, `Draw` again — all
    executed from the regenerated bodies of `Draw`, `Layout` and `ScrollDown` — and some row of the window shows that
    character in its own cell, at the column = the total width of the characters before it on its line (inside the window).
    With `pager_complete` (the lines are the text without its newline characters, the unterminated last line included) this
    is the clause "presents every line …, wraps at the window width without losing characters" for the interpreted source. -/
theorem pager_presents_every_character_body (seg : List Pager.Ch → List (List Pager.Ch)) (hseg : ∀ t, (seg t).flatten = t)
    (cs : List Pager.Ch) (hpos : ∀ c ∈ cs, c.isNl = false → 1 ≤ c.width) (w h : Nat) (hw : 1 ≤ w) (hh : 1 ≤ h)
    (i : Nat) (l : Pager.Line) (hi : (Pager.layout true w cs)[i]? = some l) (k : Nat) (c : Pager.Ch) (hk : l[k]? = some c) :
    ∃ s s' win r, pagerRunBody seg Pager.init ([.setText cs, .draw w h] ++ List.replicate i .scrollDown) = some s ∧
      runPager genB genB.pagerDraw (seg s.text) s w h true = some (s', win) ∧ r < h ∧
      Pager.widthSum (l.take k) < w ∧
      (win[r]?).bind (fun row => row[(Pager.widthSum (l.take k)).toNat]?) = some (some c) := by
  have hf := C19.layout_flushes_last
  have hi' : (Pager.layout Gen.ListFacts.layoutFlushesLast w cs)[i]? = some l := by rw [hf]; exact hi
  obtain ⟨r, hr, hrow⟩ := C19Pager.pager_line_reachable_by_scrolling cs w h hw hh i l hi'
  rw [hf] at hrow
  have hl : l ∈ Pager.layout Gen.ListFacts.layoutFlushesLast w cs := List.mem_of_getElem? hi'
  obtain ⟨hcol, hcell⟩ := C19.pager_row_keeps_characters w hw cs hpos l hl k c hk
  obtain ⟨s, hs⟩ : ∃ s, s = Pager.run true Pager.init ([.setText cs, .draw w h] ++ List.replicate i .scrollDown) := ⟨_, rfl⟩
  rw [← hs] at hrow
  obtain ⟨d, hd⟩ : ∃ d, d = Pager.draw true s w h := ⟨_, rfl⟩
  rw [← hd] at hrow
  refine ⟨s, d.1, d.2, r, ?_, ?_, hr, hcol, ?_⟩
  · rw [hs]; exact pager_history_body_eq_model seg hseg _ _
  · rw [hd]; exact pager_draw_body_eq_model (seg _) _ w h true (hseg _)
  · rw [hrow]
    simpa using hcell

/-- The hypothesis "characters at least one column wide" of `pager_presents_every_character_body` cannot be dropped: a
    zero-width grapheme (`vaxis.Characters` yields them for a lone `\r`, ESC, NUL, U+200B, U+00AD, a leading combining mark) does
    not advance the column, so the next character is written into the same cell — the executed `Draw` of "a", ZWSP, "b" in a
    3-column window shows `a b` in columns 0 and 1 and the zero-width character in no cell.  (It has no cell of its own by
    definition, nothing visible is lost; recorded as the reason for the hypothesis, not as a finding.) -/
theorem pager_zero_width_shares_cell :
    (runPager genB genB.pagerDraw [[⟨[97], 1⟩, ⟨[226, 128, 139], 0⟩, ⟨[98], 1⟩]]
      ⟨[⟨[97], 1⟩, ⟨[226, 128, 139], 0⟩, ⟨[98], 1⟩], [], 0, 0⟩ 3 1 true).map (·.2) =
      some [[some ⟨[97], 1⟩, some ⟨[98], 1⟩, none]] := by
  decide +kernel

/-- Non-vacuity of the hypotheses of `pager_presents_every_character_body`: the one-segment segmentation; the text
    "ab\ncd" at width 3 has the second line "cd" whose character 1 is `d`. -/
example : ∀ t : List Pager.Ch, ((fun t => [t]) t).flatten = t := by intro t; simp

example : (Pager.layout true 3 [⟨[97], 1⟩, ⟨[98], 1⟩, ⟨[10], 0⟩, ⟨[99], 1⟩, ⟨[100], 1⟩])[1]? = some [⟨[99], 1⟩, ⟨[100], 1⟩] ∧
    ([⟨[99], 1⟩, ⟨[100], 1⟩] : Pager.Line)[1]? = some ⟨[100], 1⟩ := by decide

/-! ### widgets/scrollbar -/

/-- **The scrollbar's `Draw`, executed from its regenerated body** (both early returns, the two truncating divisions,
    the `barH < 1` clamp, the default character, the `for i := 0; i < barH; i += 1` loop with `SetCell(0, barTop+i, …)`)
    **marks exactly the rows of `Scrollbar.rows`**, for ALL integers total / view / top, every window of at least one
    column, every fuel ≥ h + 2 (the loop makes at most `max 1 h` iterations: it terminates). -/
theorem scrollbar_draw_body_eq_model (total view top : Int) (w h fuel : Nat) (ce : Bool) (hw : 1 ≤ w) (hf : h + 2 ≤ fuel) :
    runBar genB.barDraw total view top w h fuel ce = some (Scrollbar.rows total view top h) := by
  rw [gen_bodies_parsed]; exact WidExec.bdraw_run total view top w h fuel ce hw hf

example : runBar genB.barDraw 10 4 3 1 5 7 true = some [1, 2] := by decide +kernel

/-- **Bar inside the track — for the EXECUTED `Draw`.**  Every real scroll position (`1 ≤ view < total`,
    `0 ≤ top ≤ total − view`), every window of at least one column and one row: the regenerated body, executed, marks
    exactly the rows `barTop … barTop + barH − 1`, a non-empty contiguous stretch that lies inside the window. -/
theorem scrollbar_in_track_body (total view top : Int) (w h fuel : Nat) (ce : Bool) (hw : 1 ≤ w) (hf : h + 2 ≤ fuel)
    (hv : 1 ≤ view) (hvt : view < total) (ht0 : 0 ≤ top) (ht : top ≤ total - view) (hh : 1 ≤ h) :
    ∃ (t len : Nat) , 1 ≤ len ∧ t + len ≤ h ∧
      runBar genB.barDraw total view top w h fuel ce = some ((List.range h).filter fun r => decide (t ≤ r ∧ r < t + len)) := by
  obtain ⟨b, hb, h0, h1, h2⟩ := C19.scrollbar_in_track total view top h hv hvt ht0 ht (by omega)
  refine ⟨b.top.toNat, b.len.toNat, by omega, by omega, ?_⟩
  rw [scrollbar_draw_body_eq_model total view top w h fuel ce hw hf]
  simp only [Scrollbar.rows, hb]
  congr 1
  apply List.filter_congr
  intro r _
  simp only [decide_eq_decide]
  omega

/-- Non-vacuity: 10 lines of which 4 are visible from line 3 on, a track of 5 rows, a window 1 column wide. -/
example : (1 : Int) ≤ 4 ∧ (4 : Int) < 10 ∧ (0 : Int) ≤ 3 ∧ (3 : Int) ≤ 10 - 4 ∧ 1 ≤ 5 ∧ 5 + 2 ≤ 7 := by decide

end VaxisModel.Props.C19Wid
