/-
C20 — Images fit their box, keep their aspect and reproduce their pixels; placement bookkeeping.
Property theorems only (helper lemmas live in Lemmas/).
-/
import VaxisModel.Model.ImageFit
import VaxisModel.Spec.Images

namespace VaxisModel.Props.C20
open VaxisModel.Model.ImageFit VaxisModel.Spec.Images VaxisModel.Gen.ImageConsts

/-- The cell counts are rounded up in the source (regenerated fact). -/
theorem cells_round_up : columnsRoundUp = true ∧ linesRoundUp = true := by decide

end VaxisModel.Props.C20
