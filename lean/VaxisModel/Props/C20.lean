/-
C20 — Images fit their box, keep their aspect and reproduce their pixels; placement bookkeeping.
Property theorems only (helper lemmas live in Lemmas/).
-/
import VaxisModel.Model.ImageFit
import VaxisModel.Spec.Images
import VaxisModel.Lemmas.ImageFit
import VaxisModel.Model.Placements
import VaxisModel.Lemmas.Placements

namespace VaxisModel.Props.C20
open VaxisModel.Model.ImageFit VaxisModel.Spec.Images VaxisModel.Gen.ImageConsts VaxisModel.Lemmas.ImageFit

/-! ## resizeImage -/

/-- The configuration regenerated from image.go (cell counts rounded up, early return on
    `columns <= w && lines <= h`, arms `sfX <= sfY ⇒ sfX`, `sfX > sfY ⇒ sfY`) — re-checked against the
    source on every run; everything below is proved for this configuration. -/
theorem source_shape : genCfg = stdCfg := by decide

/-- **Fit.** For every image of positive size, every box, every positive cell geometry and every
    float step meeting the error hypothesis, the resized image occupies at most `w × h` cells. -/
theorem fit : FitStatement genCfg := by
  rw [source_shape]
  intro F hF wPix hPix w h cellW cellH pw ph hw hh hcw hch hr
  obtain ⟨hc, hl, hcols, hlines, hcase⟩ := std_cases F hF wPix hPix w h cellW cellH pw ph hw hh hcw hch hr
  unfold FitsBox
  rw [ceilDiv_le_iff _ _ _ hcw, ceilDiv_le_iff _ _ _ hch]
  rcases hcase with ⟨h1, h2, rfl, rfl⟩ | ⟨_, hlt, hpw, _, hph, _⟩ | ⟨_, hle, hpw, _, hph, _⟩
  · exact ⟨Nat.le_trans hcols (Nat.mul_le_mul_right _ h1), Nat.le_trans hlines (Nat.mul_le_mul_right _ h2)⟩
  · constructor
    · -- width via the cross inequality h·columns < w·lines
      exact scaled_cross_le pw h _ wPix cellW _ w hl hpw hcols (Nat.le_of_lt hlt)
    · exact scaled_le ph h _ hPix cellH h hl hph hlines (Nat.le_refl _)
  · constructor
    · exact scaled_le pw w _ wPix cellW w hc hpw hcols (Nat.le_refl _)
    · exact scaled_cross_le ph w _ hPix cellH _ h hc hph hlines hle

example : resizeDims exactOps 64 128 4 4 8 16 = .ok (32, 64) := by rfl
example : FitsBox 32 64 4 4 8 16 := by decide

/-- **No upscaling.** The result is never larger than the source in either pixel dimension. -/
theorem no_upscale : NoUpscaleStatement genCfg := by
  rw [source_shape]
  intro F hF wPix hPix w h cellW cellH pw ph hw hh hcw hch hr
  obtain ⟨hc, hl, hcols, hlines, hcase⟩ := std_cases F hF wPix hPix w h cellW cellH pw ph hw hh hcw hch hr
  unfold NoUpscale
  rcases hcase with ⟨_, _, rfl, rfl⟩ | ⟨hnf, hlt, hpw, _, hph, _⟩ | ⟨hnf, hle, hpw, _, hph, _⟩
  · exact ⟨Nat.le_refl _, Nat.le_refl _⟩
  · -- sfY < sfX: then lines > h (otherwise columns ≤ w too), so the factor h/lines is < 1
    have hlh : h ≤ upDiv hPix cellH := by
      rcases Nat.lt_or_ge (upDiv hPix cellH) h with hlt' | hge
      · exfalso
        apply hnf
        refine ⟨?_, Nat.le_of_lt hlt'⟩
        -- h·columns < w·lines ≤ w·h  ⇒ columns < w
        have h1 : h * upDiv wPix cellW < w * h :=
          Nat.lt_of_lt_of_le hlt (Nat.mul_le_mul_left w (Nat.le_of_lt hlt'))
        rw [Nat.mul_comm w h] at h1
        exact Nat.le_of_lt (Nat.lt_of_mul_lt_mul_left h1)
      · exact hge
    constructor
    · apply Nat.le_of_mul_le_mul_right _ hl
      exact Nat.le_trans hpw (by rw [Nat.mul_comm wPix]; exact Nat.mul_le_mul_right _ hlh)
    · apply Nat.le_of_mul_le_mul_right _ hl
      exact Nat.le_trans hph (by rw [Nat.mul_comm hPix]; exact Nat.mul_le_mul_right _ hlh)
  · have hwc : w ≤ upDiv wPix cellW := by
      rcases Nat.lt_or_ge (upDiv wPix cellW) w with hlt' | hge
      · exfalso
        apply hnf
        refine ⟨Nat.le_of_lt hlt', ?_⟩
        -- w·lines ≤ h·columns < h·w ⇒ lines < h … (columns < w)
        have h1 : w * upDiv hPix cellH < h * w :=
          Nat.lt_of_le_of_lt hle (Nat.mul_lt_mul_of_pos_left hlt' (by
            rcases Nat.eq_zero_or_pos h with h0 | hp
            · subst h0
              have h0' : w * upDiv hPix cellH = 0 := by simpa using hle
              rcases Nat.mul_eq_zero.mp h0' with h1 | h1 <;> omega
            · exact hp))
        rw [Nat.mul_comm h w] at h1
        exact Nat.le_of_lt (Nat.lt_of_mul_lt_mul_left h1)
      · exact hge
    constructor
    · apply Nat.le_of_mul_le_mul_right _ hc
      exact Nat.le_trans hpw (by rw [Nat.mul_comm wPix]; exact Nat.mul_le_mul_right _ hwc)
    · apply Nat.le_of_mul_le_mul_right _ hc
      exact Nat.le_trans hph (by rw [Nat.mul_comm hPix]; exact Nat.mul_le_mul_right _ hwc)

example : NoUpscale 32 64 64 128 := by decide

/-- **Aspect.** `|pw·hPix − ph·wPix| ≤ max wPix hPix`: both dimensions are scaled by the same factor
    and each is within one pixel of the exact value, so the aspect ratio is kept to within one pixel
    (hence within one cell). -/
theorem aspect : AspectStatement genCfg := by
  rw [source_shape]
  intro F hF wPix hPix w h cellW cellH pw ph hw hh hcw hch hr
  obtain ⟨hc, hl, _, _, hcase⟩ := std_cases F hF wPix hPix w h cellW cellH pw ph hw hh hcw hch hr
  unfold AspectKept
  rcases hcase with ⟨_, _, rfl, rfl⟩ | ⟨_, _, hpw, hpw', hph, hph'⟩ | ⟨_, _, hpw, hpw', hph, hph'⟩
  · constructor <;> rw [Nat.mul_comm] <;> exact Nat.le_add_right _ _
  · have h1 := aspect_core pw ph h _ wPix hPix hl hpw hph'
    have h2 := aspect_core ph pw h _ hPix wPix hl hph hpw'
    have := Nat.le_max_left wPix hPix
    have := Nat.le_max_right wPix hPix
    constructor <;> omega
  · have h1 := aspect_core pw ph w _ wPix hPix hc hpw hph'
    have h2 := aspect_core ph pw w _ hPix wPix hc hph hpw'
    have := Nat.le_max_left wPix hPix
    have := Nat.le_max_right wPix hPix
    constructor <;> omega

example : AspectKept 32 64 64 128 := by decide
/-- a case where rounding makes the two products differ: 10×7 px into 3×3 cells of 1×2 px. -/
example : resizeDims exactOps 10 7 3 3 1 2 = .ok (3, 2) := by rfl
example : AspectKept 3 2 10 7 := by decide

/-- **No panic** for positive cell geometry (division by zero is the only panic of the model; the
    excluded point is F52). -/
theorem no_panic : NoPanicStatement genCfg := by
  rw [source_shape]
  intro F wPix hPix w h cellW cellH hcw hch
  exact ⟨_, resizeDimsWith_std F wPix hPix w h cellW cellH hcw hch⟩

/-! ## Cell sizes reported by the four image kinds -/

/-- **Kitty / sixel `CellSize()` after `Resize(w, h)`** never exceeds the box. -/
theorem cell_size_fits_proto (F : FloatOps) (hF : Sound F) (wPix hPix w h cellW cellH cw ch : Nat)
    (hw : 0 < wPix) (hh : 0 < hPix) (hcw : 0 < cellW) (hch : 0 < cellH)
    (hr : protoCellSize F wPix hPix w h cellW cellH = .ok (cw, ch)) : cw ≤ w ∧ ch ≤ h := by
  obtain ⟨⟨pw, ph⟩, hd⟩ := no_panic F wPix hPix w h cellW cellH hcw hch
  have hfit := fit F hF wPix hPix w h cellW cellH pw ph hw hh hcw hch hd
  unfold protoCellSize at hr
  rw [show resizeDims F wPix hPix w h cellW cellH = .ok (pw, ph) from hd] at hr
  simp only [cellsUp, cells_true _ _ hcw, cells_true _ _ hch, bind, Except.bind, pure, Except.pure] at hr
  have hr' := Prod.mk.inj (Except.ok.inj hr)
  rw [← hr'.1, ← hr'.2, upDiv_eq_ceilDiv _ _ hcw, upDiv_eq_ceilDiv _ _ hch]
  exact hfit

/-- The block renderers pass the cell geometry 1×2 (regenerated fact). -/
theorem block_geometry : halfBlockGeom = (1, 2) ∧ fullBlockGeom = (1, 2) := by decide

/-- **Half-block `CellSize()` after `Resize(w, h)`** never exceeds the box. -/
theorem cell_size_fits_half (F : FloatOps) (hF : Sound F) (wPix hPix w h cw ch : Nat)
    (hw : 0 < wPix) (hh : 0 < hPix)
    (hr : halfCellSize F wPix hPix w h = .ok (cw, ch)) : cw ≤ w ∧ ch ≤ h := by
  unfold halfCellSize at hr
  rw [block_geometry.1] at hr
  obtain ⟨⟨pw, ph⟩, hd⟩ := no_panic F wPix hPix w h 1 2 (by decide) (by decide)
  have hfit := fit F hF wPix hPix w h 1 2 pw ph hw hh (by decide) (by decide) hd
  rw [show resizeDims F wPix hPix w h 1 2 = .ok (pw, ph) from hd] at hr
  simp only [bind, Except.bind, pure, Except.pure] at hr
  have hr' := Prod.mk.inj (Except.ok.inj hr)
  rw [← hr'.1, ← hr'.2, blockHeight_eq]
  have : ceilDiv pw 1 = pw := by simp [ceilDiv]
  rw [← this]
  exact hfit

/-- **Full-block `CellSize()` after `Resize(w, h)`** never exceeds the box. -/
theorem cell_size_fits_full (F : FloatOps) (hF : Sound F) (wPix hPix w h cw ch : Nat)
    (hw : 0 < wPix) (hh : 0 < hPix)
    (hr : fullCellSize F wPix hPix w h = .ok (cw, ch)) : cw ≤ w ∧ ch ≤ h := by
  unfold fullCellSize at hr
  rw [block_geometry.2] at hr
  obtain ⟨⟨pw, ph⟩, hd⟩ := no_panic F wPix hPix w h 1 2 (by decide) (by decide)
  have hfit := fit F hF wPix hPix w h 1 2 pw ph hw hh (by decide) (by decide) hd
  rw [show resizeDims F wPix hPix w h 1 2 = .ok (pw, ph) from hd] at hr
  simp only [bind, Except.bind, pure, Except.pure] at hr
  have hr' := Prod.mk.inj (Except.ok.inj hr)
  rw [← hr'.1, ← hr'.2, blockHeight_eq]
  have : ceilDiv pw 1 = pw := by simp [ceilDiv]
  rw [← this]
  exact hfit

example : protoCellSize exactOps 64 128 4 4 8 16 = .ok (4, 4) := by rfl
example : halfCellSize exactOps 10 7 3 3 = .ok (3, 1) := by rfl

/-! ## Pixels of block-rendered images -/

section pixels
open VaxisModel.Model.Blocks

/-- The alpha thresholds of the source: `transparentEnough = 50`, compared with `<` in every arm of
    the half-block switch, and `a < 50` in the full-block renderer (regenerated facts). -/
theorem thresholds : transparentEnough = 50 ∧ fullBlockCmp = (.lt, 50) := by decide

/-- The four arms of the half-block switch as extracted: glyphs U+0020, U+2584 (lower half), U+2580
    (upper half) twice, and where the colours come from. -/
theorem half_block_table : halfBlockArms =
    [⟨some .lt, some .lt, 0x20, .none, .none⟩, ⟨some .lt, none, 0x2584, .bot, .none⟩,
     ⟨none, some .lt, 0x2580, .top, .none⟩, ⟨none, none, 0x2580, .top, .bot⟩] := by decide

/-- **Opaque pixels are exact** (straight-alpha source, `color.NRGBA`): `toRGB` returns the 8-bit
    channels unchanged and alpha 255. -/
theorem opaque_exact_nrgba (r g b : Nat) (hr : r < 256) (hg : g < 256) (hb : b < 256) :
    toRGB (.ofQuad (nrgbaRGBA r g b 255)) = ⟨r, g, b, 255⟩ := by
  rw [toRGB_of_ne _ (by simp [nrgbaRGBA, C16.ofQuad])]
  simp only [nrgbaRGBA, C16.ofQuad, Nat.reduceMul, unpremul_opaque _ hr, unpremul_opaque _ hg, unpremul_opaque _ hb]
  rfl

/-- The same for an alpha-premultiplied source (`color.RGBA` with alpha 255). -/
theorem opaque_exact_rgba (r g b : Nat) (hr : r < 256) (hg : g < 256) (hb : b < 256) :
    toRGB (.ofQuad (rgbaRGBA r g b 255)) = ⟨r, g, b, 255⟩ := by
  rw [toRGB_of_ne _ (by simp [rgbaRGBA, C16.ofQuad])]
  simp only [rgbaRGBA, C16.ofQuad, Nat.reduceMul, unpremul_opaque' _ hr, unpremul_opaque' _ hg, unpremul_opaque' _ hb]
  rfl

/-- The 8-bit alpha the renderers test is the source's alpha, at every level. -/
theorem alpha_kept (r g b a : Nat) (ha : a < 256) :
    (toRGB (.ofQuad (nrgbaRGBA r g b a))).a = a := by
  by_cases h0 : a = 0
  · subst h0; rw [toRGB_of_zero _ (by simp [nrgbaRGBA, C16.ofQuad])]
  · rw [toRGB_of_ne _ (by simp [nrgbaRGBA, C16.ofQuad]; omega)]
    show a * 257 / 256 % 256 = a
    have e : a * 257 / 256 = a := by
      have : a * 257 = a + 256 * a := by omega
      rw [this, Nat.add_mul_div_left _ _ (by decide : 0 < 256), Nat.div_eq_of_lt ha, Nat.zero_add]
    rw [e]; exact Nat.mod_eq_of_lt ha

/-- **Translucent pixels are within one**: for every alpha ≥ 1 each channel comes back as `c` or
    `c - 1` (premultiplication by `color.NRGBA.RGBA` and un-premultiplication by `toRGB` both
    truncate).  Checked by kernel evaluation of all 255·256 (alpha, channel) pairs. -/
theorem translucent_within_one (c a : Nat) (hc : c < 256) (ha : a < 256) (ha0 : 0 < a) :
    (toRGB ⟨c * 257 * a / 255, 0, 0, a * 257⟩).r ≤ c ∧
    c ≤ (toRGB ⟨c * 257 * a / 255, 0, 0, a * 257⟩).r + 1 :=
  toRGB_within_one c a hc ha ha0

/-- The same for all three channels of a straight-alpha `color.NRGBA` pixel as `toRGB` sees it. -/
theorem translucent_within_one_nrgba (r g b a : Nat) (hr : r < 256) (hg : g < 256) (hb : b < 256)
    (ha : a < 256) (ha0 : 0 < a) :
    let c := toRGB (.ofQuad (nrgbaRGBA r g b a))
    (c.r ≤ r ∧ r ≤ c.r + 1) ∧ (c.g ≤ g ∧ g ≤ c.g + 1) ∧ (c.b ≤ b ∧ b ≤ c.b + 1) := by
  have hne : a * 257 ≠ 0 := by omega
  have key (x : Nat) : (toRGB ⟨x, 0, 0, a * 257⟩).r = u8 (u32 (x * 255) / (a * 257)) := by
    rw [toRGB_of_ne _ hne]
  have h1 := toRGB_within_one r a hr ha ha0
  have h2 := toRGB_within_one g a hg ha ha0
  have h3 := toRGB_within_one b a hb ha ha0
  rw [key] at h1 h2 h3
  have e : toRGB (.ofQuad (nrgbaRGBA r g b a)) =
      ⟨u8 (u32 (r * 257 * a / 255 * 255) / (a * 257)), u8 (u32 (g * 257 * a / 255 * 255) / (a * 257)),
       u8 (u32 (b * 257 * a / 255 * 255) / (a * 257)), u8 (a * 257 / 256)⟩ :=
    toRGB_of_ne (.ofQuad (nrgbaRGBA r g b a)) hne
  intro c
  have hc : c = toRGB (.ofQuad (nrgbaRGBA r g b a)) := rfl
  rw [hc, e]
  exact ⟨h1, h2, h3⟩

example : toRGB (.ofQuad (nrgbaRGBA 200 100 50 128)) = ⟨199, 99, 49, 128⟩ := by decide

/-- **Half-block cell of two opaque pixels**: upper half block, foreground exactly the top pixel's
    colour, background exactly the bottom pixel's colour (as direct colours `0x02RRGGBB`). -/
theorem opaque_exact_half (tr tg tb br bg bb : Nat)
    (h1 : tr < 256) (h2 : tg < 256) (h3 : tb < 256) (h4 : br < 256) (h5 : bg < 256) (h6 : bb < 256) :
    halfCell (.ofQuad (nrgbaRGBA tr tg tb 255)) (.ofQuad (nrgbaRGBA br bg bb 255)) =
      ⟨0x2580, directColor tr tg tb, directColor br bg bb⟩ := by
  rw [halfCell, opaque_exact_nrgba _ _ _ h1 h2 h3, opaque_exact_nrgba _ _ _ h4 h5 h6, half_block_table]
  simp [halfArms, condHolds, evalCmp, thresholds.1, pxColor, rgbColor_eq, h1, h2, h3, h4, h5, h6]

/-- **Full-block cell of two opaque pixels**: a space whose background is exactly the channel-wise
    mean; for two pixels of the same colour that is exactly the colour. -/
theorem opaque_exact_full (tr tg tb br bg bb : Nat)
    (h1 : tr < 256) (h2 : tg < 256) (h3 : tb < 256) (h4 : br < 256) (h5 : bg < 256) (h6 : bb < 256) :
    fullCell (.ofQuad (nrgbaRGBA tr tg tb 255)) (.ofQuad (nrgbaRGBA br bg bb 255)) =
      ⟨0x20, 0, directColor ((br + tr) / 2) ((bg + tg) / 2) ((bb + tb) / 2)⟩ := by
  have e1 : (br + tr) / 2 % 256 = (br + tr) / 2 := by omega
  have e2 : (bg + tg) / 2 % 256 = (bg + tg) / 2 := by omega
  have e3 : (bb + tb) / 2 % 256 = (bb + tb) / 2 := by omega
  simp only [fullCell, fullColor, averageColor, List.cons_append, List.nil_append, List.map_cons, List.map_nil,
    opaque_exact_nrgba _ _ _ h1 h2 h3, opaque_exact_nrgba _ _ _ h4 h5 h6, List.sum_cons, List.sum_nil,
    List.length_cons, List.length_nil, thresholds.2, evalCmp, u8, Nat.add_zero, e1, e2, e3]
  rw [if_neg (by decide)]
  rw [rgbColor_eq _ _ _ (by omega) (by omega) (by omega)]

theorem opaque_exact_full_same (r g b : Nat) (h1 : r < 256) (h2 : g < 256) (h3 : b < 256) :
    fullCell (.ofQuad (nrgbaRGBA r g b 255)) (.ofQuad (nrgbaRGBA r g b 255)) = ⟨0x20, 0, directColor r g b⟩ := by
  rw [opaque_exact_full r g b r g b h1 h2 h3 h1 h2 h3]
  have e (x : Nat) : (x + x) / 2 = x := by omega
  rw [e, e, e]

/-- **Transparent enough ⇒ default colour; the four-way glyph table** (on the 8-bit values `toRGB`
    returned for the top and bottom pixel): both below 50 → a space with default colours; only the
    top → lower half block coloured by the bottom pixel; only the bottom → upper half block coloured
    by the top pixel; neither → upper half block, top as foreground, bottom as background. -/
theorem transparent_default (t b : C8) :
    halfArms halfBlockArms t b =
      if t.a < 50 ∧ b.a < 50 then ⟨0x20, 0, 0⟩
      else if t.a < 50 then ⟨0x2584, rgbColor b.r b.g b.b, 0⟩
      else if b.a < 50 then ⟨0x2580, rgbColor t.r t.g t.b, 0⟩
      else ⟨0x2580, rgbColor t.r t.g t.b, rgbColor b.r b.g b.b⟩ := by
  rw [half_block_table]
  by_cases ht : t.a < 50 <;> by_cases hb : b.a < 50 <;>
    simp [halfArms, condHolds, evalCmp, thresholds.1, pxColor, ht, hb]

/-- Full block: mean alpha below 50 ⇒ the cell keeps the default colour, otherwise it gets the mean
    colour. -/
theorem transparent_default_full (top bot : C16) :
    fullColor top bot =
      if (averageColor top [bot]).a < 50 then 0
      else rgbColor (averageColor top [bot]).r (averageColor top [bot]).g (averageColor top [bot]).b := by
  simp [fullColor, thresholds.2, evalCmp]

/-- Non-vacuity: a pixel pair with alphas 49 / 50 takes the "top transparent" arm. -/
example : halfCell (.ofQuad (nrgbaRGBA 200 100 50 49)) (.ofQuad (nrgbaRGBA 10 20 30 255)) =
    ⟨0x2584, directColor 10 20 30, 0⟩ := by decide
example : (halfCell (.ofQuad (nrgbaRGBA 200 100 50 49)) (.ofQuad (nrgbaRGBA 10 20 30 50))).glyph = 0x2584 := by decide
example : (halfCell (.ofQuad (nrgbaRGBA 200 100 50 50)) (.ofQuad (nrgbaRGBA 10 20 30 50))).glyph = 0x2580 := by decide
example : (toRGB (.ofQuad (nrgbaRGBA 100 0 0 1))).r = 99 := by decide

end pixels

/-! ## Placement bookkeeping -/

section placements
open VaxisModel.Model.Placements VaxisModel.Lemmas.Placements

/-- `samePlacement` compares all five of (id, col, row, w, h) (regenerated fact) … -/
theorem samePlacement_fields : samePlacementFields = [.id, .col, .row, .w, .h] := by decide

/-- … hence it is equality of placements. -/
theorem samePlacement_iff (a b : Placement) : samePlacement a b = true ↔ a = b := by
  rw [samePlacement, samePlacement_fields, samePlacementWith_all_eq]; simp

/-- **Placement diff, for all histories.**  Starting from the state after `vaxis.New` and for every
    sequence of draw / clear / render / refresh operations, the deletions and transmissions emitted
    by each render are exactly what the specification demands for the frame history the operations
    describe: a placement is transmitted iff the frame is a refresh or no identical placement was in
    the previous frame's list, and a placement of the previous list is deleted iff the frame is a
    refresh or it is absent now (`Spec.Images.expected`, `mustWrite`, `mustDelete`). -/
theorem placement_diff (ops : List Op) :
    outputs init ops = expected [] (framesOf true [] ops) := by
  have hs : samePlacement = fun a b => a == b := by
    funext a b; rw [samePlacement, samePlacement_fields, samePlacementWith_all_eq]
  rw [outputs, hs]
  exact outputsWith_eq_expected ops init

/-- The same from any reachable state: the invariant is that `last` holds the previous frame. -/
theorem placement_diff_from (s : State) (ops : List Op) :
    outputs s ops = expected s.last (framesOf s.refresh s.next ops) := by
  have hs : samePlacement = fun a b => a == b := by
    funext a b; rw [samePlacement, samePlacement_fields, samePlacementWith_all_eq]
  rw [outputs, hs]
  exact outputsWith_eq_expected ops s

/-- Reading of the spec: what is transmitted in a frame. -/
theorem written_iff (prev : List Placement) (f : Frame) (p : Placement) :
    p ∈ mustWrite prev f ↔ p ∈ f.placements ∧ (f.refresh = true ∨ p ∉ prev) := by
  simp [mustWrite]

/-- Reading of the spec: what is deleted in a frame. -/
theorem deleted_iff (prev : List Placement) (f : Frame) (p : Placement) :
    p ∈ mustDelete prev f ↔ p ∈ prev ∧ (f.refresh = true ∨ p ∉ f.placements) := by
  simp [mustDelete]

/-- Non-vacuity: keep, move, drop, then refresh (the first frame after start-up is a refresh). -/
example :
    let a : Placement := ⟨1, 0, 0, 2, 2⟩
    let a' : Placement := ⟨1, 3, 0, 2, 2⟩
    let b : Placement := ⟨2, 5, 5, 1, 1⟩
    outputs init [.draw a, .draw b, .render,            -- first frame: both transmitted
                  .clear, .draw a, .draw b, .render,    -- unchanged: nothing
                  .clear, .draw a', .render,            -- a moved, b dropped
                  .refresh]                             -- everything again
      = [([], [a, b]), ([], []), ([a, b], [a']), ([a'], [a'])] := by decide

end placements

end VaxisModel.Props.C20
