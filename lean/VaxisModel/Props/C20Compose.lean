/-
C20, round 3: composition of the placement bookkeeping (frame histories, `Props.C20.placement_diff`) with the
`Draw` gates and C11's window geometry (`Props.C20Ext.placement_inside_window`): over every application history,
whatever a render transmits or deletes is a placement some earlier `Draw` recorded at the origin of a window that
contains all of it.  Property theorems only.
-/
import VaxisModel.Props.C20Ext
import VaxisModel.Lemmas.Placements
import VaxisModel.Props.C20Term

namespace VaxisModel.Props.C20Compose
open VaxisModel.Model.ImageDraw VaxisModel.Model.Placements VaxisModel.Spec.Images VaxisModel.Gen.ImageConsts
open VaxisModel.Model.Window VaxisModel.Spec.Window VaxisModel.Props.C20Ext

/-- **Every placement a frame transmits (or deletes) lies inside the window it was drawn into** — for all histories
    of `Draw`s into arbitrary windows (each image with either protocol's gates — any gate list that has the size
    test —, any size, with or without data, encoder running or not), `Clear`s, `Render`s and `Refresh`es from
    start-up: a placement `q` in the output of any render was recorded by a `Draw` of that history, at the origin of
    its window `win`; it is at most as large as `win`, and every screen cell it covers is in `win`'s own rectangle. -/
theorem transmitted_placements_inside (aops : List AOp)
    (hg : ∀ gates hd enc id iw ih win, AOp.drawImg gates hd enc id iw ih win ∈ aops → sizeTest ∈ gates) :
    ∀ o ∈ outputs init (aops.flatMap lower), ∀ q, q ∈ o.1 ∨ q ∈ o.2 →
      ∃ gates hd enc win, AOp.drawImg gates hd enc q.id q.w q.h win ∈ aops ∧
        q.col = (win.origin).1 ∧ q.row = (win.origin).2 ∧ placementInside q.w q.h win ∧
        ∀ x y, placementCovers q.w q.h (x - q.col) (y - q.row) → inOwnRect win x y := by
  let Good : Placement → Prop := fun q =>
    ∃ gates hd enc win, AOp.drawImg gates hd enc q.id q.w q.h win ∈ aops ∧
      q.col = (win.origin).1 ∧ q.row = (win.origin).2 ∧ placementInside q.w q.h win ∧
      ∀ x y, placementCovers q.w q.h (x - q.col) (y - q.row) → inOwnRect win x y
  have hdraw : ∀ p, Op.draw p ∈ aops.flatMap lower → Good p := by
    intro p hp
    obtain ⟨a, ha, hpa⟩ := List.mem_flatMap.mp hp
    cases a with
    | drawImg gates hd enc id iw ih win =>
      simp only [lower] at hpa
      by_cases hdr : drawnWith gates hd enc iw ih win = true
      · rw [if_pos hdr] at hpa
        have : p = ⟨id, (win.origin).1, (win.origin).2, iw, ih⟩ := by simpa using hpa
        subst this
        have hm := hg gates hd enc id iw ih win ha
        obtain ⟨hin, hcells⟩ := size_gate_inside gates hm hd enc iw ih win hdr
        refine ⟨gates, hd, enc, win, ha, rfl, rfl, hin, ?_⟩
        intro x y hc
        obtain ⟨h1, h2, h3, h4⟩ := hc
        obtain ⟨hw, hh⟩ := hin
        unfold inOwnRect
        rw [← VaxisModel.Lemmas.Window.origin_eq_absOrigin]
        simp only at h1 h2 h3 h4
        refine ⟨by omega, by omega, by omega, by omega⟩
      · rw [if_neg hdr] at hpa
        cases hpa
    | clear => simp [lower] at hpa
    | render => simp [lower] at hpa
    | refresh => simp [lower] at hpa
  intro o ho q hq
  have := VaxisModel.Lemmas.Placements.outputsWith_good samePlacement Good (aops.flatMap lower) init
    (by intro p hp; cases hp) (by intro p hp; cases hp) hdraw o ho
  rcases hq with hq | hq
  · exact this.1 q hq
  · exact this.2 q hq

/-- Both protocols' regenerated gate lists have the size test, so the theorem applies to every history of kitty and
    sixel images. -/
theorem both_protocols_gated : sizeTest ∈ kittyGates ∧ sizeTest ∈ sixelGates := by decide

/-- Non-vacuity: a 2×1 kitty image drawn into a 2×2 window at (5,5), rendered: the placement is transmitted. -/
example : outputs init ([AOp.drawImg kittyGates true false 1 2 1 (Win.new (.root 0 0 10 10) 5 5 2 2), AOp.render].flatMap lower) =
    [([], [⟨1, 5, 5, 2, 1⟩])] := by decide

/-- …and a 4×4 image into the same window is not: nothing is transmitted (F120 repaired). -/
example : outputs init ([AOp.drawImg kittyGates true false 1 4 4 (Win.new (.root 0 0 10 10) 5 5 2 2), AOp.render].flatMap lower) =
    [([], [])] := by decide

/-! ## Round 4: down to the terminal -/

open VaxisModel.Model.KittyTerm VaxisModel.Lemmas.KittyTerm in
/-- **What the terminal shows lies inside the windows it was drawn into** (composition of the terminal refinement
    `C20Term.terminal_table_is_last_frame` with the `Draw` gates and C11's window geometry): for every history of
    `Draw`s of kitty images into arbitrary windows (any gate list with the size test, any size, any state), `Clear`s,
    `Render`s and `Refresh`es from start-up whose frames are key-functional, at every point every placement in the
    TERMINAL's table — after all deletes and placements applied in the order emitted — was recorded by a `Draw` of the
    history at the origin of a window that is at least as large, and every screen cell it covers is in that window's
    own rectangle. -/
theorem terminal_placements_inside (aops : List AOp)
    (hg : ∀ gates hd enc id iw ih win, AOp.drawImg gates hd enc id iw ih win ∈ aops → sizeTest ∈ gates)
    (hk : FramesKeyFun [] (aops.flatMap lowerW)) :
    ∀ k q, (World.init.run (aops.flatMap lowerW)).term.places k = some q →
      ∃ gates hd enc win, AOp.drawImg gates hd enc q.id q.w q.h win ∈ aops ∧
        q.col = (win.origin).1 ∧ q.row = (win.origin).2 ∧ placementInside q.w q.h win ∧
        ∀ x y, placementCovers q.w q.h (x - q.col) (y - q.row) → inOwnRect win x y := by
  let Good : Placement → Prop := fun q =>
    ∃ gates hd enc win, AOp.drawImg gates hd enc q.id q.w q.h win ∈ aops ∧
      q.col = (win.origin).1 ∧ q.row = (win.origin).2 ∧ placementInside q.w q.h win ∧
      ∀ x y, placementCovers q.w q.h (x - q.col) (y - q.row) → inOwnRect win x y
  have hdraw : ∀ p, WOp.draw p ∈ aops.flatMap lowerW → Good p := by
    intro p hp
    obtain ⟨a, ha, hpa⟩ := List.mem_flatMap.mp hp
    cases a with
    | drawImg gates hd enc id iw ih win =>
      simp only [lowerW] at hpa
      by_cases hdr : drawnWith gates hd enc iw ih win = true
      · rw [if_pos hdr] at hpa
        have : p = ⟨id, (win.origin).1, (win.origin).2, iw, ih⟩ := by simpa using hpa
        subst this
        have hm := hg gates hd enc id iw ih win ha
        obtain ⟨hin, hcells⟩ := size_gate_inside gates hm hd enc iw ih win hdr
        refine ⟨gates, hd, enc, win, ha, rfl, rfl, hin, ?_⟩
        intro x y hc
        obtain ⟨h1, h2, h3, h4⟩ := hc
        obtain ⟨hw, hh⟩ := hin
        unfold inOwnRect
        rw [← VaxisModel.Lemmas.Window.origin_eq_absOrigin]
        simp only at h1 h2 h3 h4
        refine ⟨by omega, by omega, by omega, by omega⟩
      · rw [if_neg hdr] at hpa
        cases hpa
    | clear => simp [lowerW] at hpa
    | render => simp [lowerW] at hpa
    | refresh => simp [lowerW] at hpa
  intro k q hq
  rw [VaxisModel.Props.C20Term.terminal_table_is_last_frame _ hk k] at hq
  have hmem := (tableOf_some_mem hq).1
  exact (lists_good Good (aops.flatMap lowerW) World.init (by intro p hp; cases hp) (by intro p hp; cases hp) hdraw).2 q hmem

open VaxisModel.Model.KittyTerm in
/-- Non-vacuity: a 2×1 kitty image drawn into a 2×2 window at (5,5) and rendered is on the terminal; a 4×4 one is not. -/
example :
    (World.init.run ([AOp.drawImg kittyGates true false 1 2 1 (Win.new (.root 0 0 10 10) 5 5 2 2), AOp.render].flatMap lowerW)).term.places (1, 5, 5) = some ⟨1, 5, 5, 2, 1⟩ ∧
    (World.init.run ([AOp.drawImg kittyGates true false 1 4 4 (Win.new (.root 0 0 10 10) 5 5 2 2), AOp.render].flatMap lowerW)).term.places (1, 5, 5) = none := by
  constructor <;> decide

end VaxisModel.Props.C20Compose
