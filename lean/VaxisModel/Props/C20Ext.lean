/-
C20, round 2: terminal cell size (F52 repaired), exact cell sizes, signed boxes, the cell↔pixel mapping of
the block renderers for every image, drawing stays inside the window (composed with C11), upload
bookkeeping of kitty images.  Property theorems only.
-/
import VaxisModel.Props.C20
import VaxisModel.Props.C11
import VaxisModel.Lemmas.ImageTerm
import VaxisModel.Model.ImageDraw
import VaxisModel.Gen.ImageFlow
import VaxisModel.Lemmas.ImageFlowExpected
import VaxisModel.Lemmas.Window
import VaxisModel.Lemmas.Placements

namespace VaxisModel.Props.C20Ext
open VaxisModel.Model.ImageFit VaxisModel.Model.ImageTerm VaxisModel.Spec.Images VaxisModel.Gen.ImageConsts
open VaxisModel.Lemmas.ImageFit VaxisModel.Lemmas.ImageTerm VaxisModel.Model.Blocks VaxisModel.Model.ImageDraw

/-! ## Terminal cell size: no division by zero (F52 repaired) -/

/-- `cellPixelSize` is at least 1 in each direction, whatever the terminal reports (no pixels, fewer pixels than
    cells, zero or negative counts). -/
theorem term_cell_pos (pix cells : Int) : 0 < termCell pix cells := termCell_pos pix cells

/-- It is the reported quotient whenever that is positive. -/
theorem term_cell_exact (pix cells : Nat) (h : cells ≤ pix) (hc : 0 < cells) :
    termCell pix cells = pix / cells := by
  unfold termCell
  have hq : 0 < pix / cells := Nat.div_pos h hc
  have e : Int.tdiv (pix : Int) (cells : Int) = ((pix / cells : Nat) : Int) := by
    rw [Int.tdiv_eq_ediv_of_nonneg (by omega)]; rfl
  have hq' : (0 : Int) < ((pix / cells : Nat) : Int) := by omega
  have hc' : (0 : Int) < (cells : Int) := by omega
  rw [e, if_pos ⟨hc', hq'⟩]
  exact Int.toNat_natCast _

/-- **no_panic, unconditionally**: `KittyImage.Resize` / `Sixel.Resize` never divide by zero, for every image,
    box, terminal report and float step. -/
theorem no_panic_term (F : FloatOps) (wPix hPix w h : Nat) (xpix cols ypix rows : Int) :
    ∃ r, protoCellSizeTerm F wPix hPix w h xpix cols ypix rows = .ok r := by
  unfold protoCellSizeTerm protoCellSize
  rw [termCellW_eq, termCellH_eq]
  have hcw := termCell_pos xpix cols
  have hch := termCell_pos ypix rows
  obtain ⟨⟨pw, ph⟩, hd⟩ := C20.no_panic F wPix hPix w h _ _ hcw hch
  rw [show resizeDims F wPix hPix w h (termCell xpix cols) (termCell ypix rows) = .ok (pw, ph) from hd]
  simp only [cellsUp, cells_true _ _ hcw, cells_true _ _ hch, bind, Except.bind, pure, Except.pure]
  exact ⟨_, rfl⟩

/-- **fit on every terminal**: the cell size never exceeds the box, at the cell geometry the terminal reports. -/
theorem fit_term (F : FloatOps) (hF : Sound F) (wPix hPix w h : Nat) (xpix cols ypix rows : Int) (cw ch : Nat)
    (hw : 0 < wPix) (hh : 0 < hPix)
    (hr : protoCellSizeTerm F wPix hPix w h xpix cols ypix rows = .ok (cw, ch)) : cw ≤ w ∧ ch ≤ h := by
  unfold protoCellSizeTerm at hr
  rw [termCellW_eq, termCellH_eq] at hr
  exact C20.cell_size_fits_proto F hF wPix hPix w h _ _ cw ch hw hh (termCell_pos xpix cols) (termCell_pos ypix rows) hr

/-! ## `CellSize()` is exactly the number of cells the resized pixels occupy -/

/-- **cell_size_exact (kitty / sixel)**: not only `≤ box` but exactly `⌈pixels / cell pixels⌉` of the resized image —
    a `CellSize()` that is too *small* (a dropped `+= 1`) is excluded as well. -/
theorem cell_size_exact_proto (F : FloatOps) (wPix hPix w h cellW cellH cw ch : Nat) (hcw : 0 < cellW) (hch : 0 < cellH)
    (hr : protoCellSize F wPix hPix w h cellW cellH = .ok (cw, ch)) :
    ∃ pw ph, resizeDims F wPix hPix w h cellW cellH = .ok (pw, ph) ∧ cw = ceilDiv pw cellW ∧ ch = ceilDiv ph cellH := by
  obtain ⟨⟨pw, ph⟩, hd⟩ := C20.no_panic F wPix hPix w h cellW cellH hcw hch
  refine ⟨pw, ph, hd, ?_⟩
  unfold protoCellSize at hr
  rw [show resizeDims F wPix hPix w h cellW cellH = .ok (pw, ph) from hd] at hr
  simp only [cellsUp, cells_true _ _ hcw, cells_true _ _ hch, bind, Except.bind, pure, Except.pure] at hr
  have hr' := Prod.mk.inj (Except.ok.inj hr)
  rw [← hr'.1, ← hr'.2, upDiv_eq_ceilDiv _ _ hcw, upDiv_eq_ceilDiv _ _ hch]
  exact ⟨rfl, rfl⟩

/-- **cell_size_exact (half / full block)**: width = pixel width, height = `⌈pixel height / 2⌉`. -/
theorem cell_size_exact_block (F : FloatOps) (wPix hPix w h cw ch : Nat)
    (hr : halfCellSize F wPix hPix w h = .ok (cw, ch)) :
    ∃ pw ph, resizeDims F wPix hPix w h 1 2 = .ok (pw, ph) ∧ cw = pw ∧ ch = ceilDiv ph 2 ∧
      fullCellSize F wPix hPix w h = .ok (cw, ch) := by
  obtain ⟨⟨pw, ph⟩, hd⟩ := C20.no_panic F wPix hPix w h 1 2 (by decide) (by decide)
  unfold halfCellSize at hr
  rw [C20.block_geometry.1] at hr
  rw [show resizeDims F wPix hPix w h 1 2 = .ok (pw, ph) from hd] at hr
  simp only [bind, Except.bind, pure, Except.pure] at hr
  have hr' := Prod.mk.inj (Except.ok.inj hr)
  refine ⟨pw, ph, hd, hr'.1.symm, by rw [← hr'.2, blockHeight_eq], ?_⟩
  unfold fullCellSize
  rw [C20.block_geometry.2, show resizeDims F wPix hPix w h 1 2 = .ok (pw, ph) from hd]
  simp only [bind, Except.bind, pure, Except.pure, hr'.1, hr'.2]

/-! ## Signed box dimensions -/

/-- For `w, h ≥ 0` the signed model is the model of `Props.C20` (so `fit`, `no_upscale`, `aspect` apply verbatim). -/
theorem box_nonneg (F : FloatOps) (wPix hPix w h cellW cellH : Nat) :
    resizeDimsBox F wPix hPix (w : Int) (h : Int) cellW cellH = resizeDims F wPix hPix w h cellW cellH :=
  resizeDimsBoxWith_nonneg genCfg F wPix hPix w h cellW cellH

/-- **negative boxes**: a negative width or height never panics and yields the empty image (`Bounds().Max = (0,0)`),
    hence `CellSize() = (0, 0)` and nothing is drawn — for every image, cell geometry and float step. -/
theorem box_negative_empty (F : FloatOps) (wPix hPix : Nat) (w h : Int) (cellW cellH : Nat)
    (hcw : 0 < cellW) (hch : 0 < cellH) (hneg : w < 0 ∨ h < 0) :
    resizeDimsBox F wPix hPix w h cellW cellH = .ok (0, 0) := by
  unfold resizeDimsBox
  rw [C20.source_shape]
  exact resizeDimsBoxWith_std_negative F wPix hPix w h cellW cellH hcw hch hneg

/-- **fit for all integer boxes**: the result occupies at most `max 0 w × max 0 h` cells. -/
theorem fit_box (F : FloatOps) (hF : Sound F) (wPix hPix : Nat) (w h : Int) (cellW cellH pw ph : Nat)
    (hw : 0 < wPix) (hh : 0 < hPix) (hcw : 0 < cellW) (hch : 0 < cellH)
    (hr : resizeDimsBox F wPix hPix w h cellW cellH = .ok (pw, ph)) :
    FitsBox pw ph w.toNat h.toNat cellW cellH := by
  by_cases hneg : w < 0 ∨ h < 0
  · rw [box_negative_empty F wPix hPix w h cellW cellH hcw hch hneg] at hr
    have := Prod.mk.inj (Except.ok.inj hr)
    rw [← this.1, ← this.2]
    unfold FitsBox ceilDiv
    constructor <;> (rw [Nat.div_eq_of_lt (by omega)]; omega)
  · have hw0 : 0 ≤ w := by omega
    have hh0 : 0 ≤ h := by omega
    have e1 : w = (w.toNat : Int) := by omega
    have e2 : h = (h.toNat : Int) := by omega
    rw [e1, e2, box_nonneg] at hr
    exact C20.fit F hF wPix hPix w.toNat h.toNat cellW cellH pw ph hw hh hcw hch hr

example : resizeDimsBox exactOps 16 16 (-3) 5 8 16 = .ok (0, 0) := by rfl
example : resizeDimsBox exactOps 64 128 4 4 8 16 = .ok (32, 64) := by rfl

/-! ## Block renderers: the pixels each cell covers, for every image -/

/-- **cell ↔ pixel mapping.** For every image (after the resize step, whatever it produced) the cell list has
    exactly `width × ⌈height/2⌉` entries; the entry at index `y·width + x` is the cell for column `x`, row `y`,
    computed from exactly the two pixels `(x, 2y)` (upper half) and `(x, 2y+1)` (lower half); every entry is of
    that form with `x < width`, `y < ⌈height/2⌉` (so each cell occurs exactly once). -/
theorem block_cell_pixels (cell : C16 → C16 → BCell) (img : Img) :
    (blockCells cell img).length = ceilDiv img.h 2 * img.w ∧
    (∀ x y, x < img.w → y < ceilDiv img.h 2 →
      (blockCells cell img)[y * img.w + x]? = some (x, y, cell (img.at x (2 * y)) (img.at x (2 * y + 1)))) ∧
    (∀ e ∈ blockCells cell img, e.1 < img.w ∧ e.2.1 < ceilDiv img.h 2 ∧
      e.2.2 = cell (img.at e.1 (2 * e.2.1)) (img.at e.1 (2 * e.2.1 + 1)) ∧
      (blockCells cell img)[e.2.1 * img.w + e.1]? = some e) := by
  rw [← blockHeight_eq]
  exact ⟨blockCells_length cell img, blockCells_get cell img, blockCells_mem cell img⟩

/-- The upper pixel of every cell is inside the image; the lower one too, except in the last cell row of an
    image of odd height, where `At` is out of bounds and yields the zero (fully transparent) colour. -/
theorem block_pixel_rows (img : Img) (x y : Nat) (hy : y < ceilDiv img.h 2) :
    2 * y < img.h ∧ (2 * y + 1 < img.h ∨ (img.h % 2 = 1 ∧ y + 1 = ceilDiv img.h 2 ∧ img.at x (2 * y + 1) = ⟨0, 0, 0, 0⟩)) := by
  rw [← blockHeight_eq] at hy ⊢
  obtain ⟨h1, h2⟩ := blockHeight_rows img.h y hy
  refine ⟨h1, ?_⟩
  rcases h2 with h2 | ⟨h2, h3⟩
  · exact Or.inl h2
  · refine Or.inr ⟨h2, h3, ?_⟩
    have : ¬ (2 * y + 1 < img.h) := by
      unfold blockHeight at h3 hy
      have h' : (img.h % 2 != 0) = true := by simp [h2]
      simp only [h', if_true] at h3 hy
      omega
    simp [Img.at, this]

/-- Half-block and full-block images use this mapping with the cell functions of `Props.C20`
    (`opaque_exact_*`, `transparent_default*`, `half_block_table` say what a cell is for its two pixels). -/
theorem block_cells_are : halfCells = blockCells halfCell ∧ fullCells = blockCellsWith .topIfMissing fullCell := ⟨rfl, rfl⟩

/-! ## Resized images: the scaler as a parameter with a stated hypothesis -/

/-- An opaque source pixel `color.NRGBA{r, g, b, 255}` as `At(x, y).RGBA()` returns it. -/
def OpaquePx (p : C16) : Prop := ∃ r g b, r < 256 ∧ g < 256 ∧ b < 256 ∧ p = .ofQuad (nrgbaRGBA r g b 255)

/-- The hypothesis on `draw.NearestNeighbor.Scale(dst, dst.Rect, img, img.Bounds(), draw.Over, nil)` (a library, not
    modelled): `dst` has the requested size and each of its pixels is a pixel of the source.  (Nearest neighbour copies source
    pixels; for opaque pixels compositing `Over` a fresh transparent `image.RGBA` and its 8-bit premultiplied storage change
    nothing.  For translucent pixels the storage quantises, which is why the statement is about opaque images.) -/
structure ScalerPicks (src dst : Img) (pw ph : Nat) : Prop where
  w : dst.w = pw
  h : dst.h = ph
  picks : ∀ x y, x < pw → y < ph → ∃ sx sy, sx < src.w ∧ sy < src.h ∧ dst.at x y = src.at sx sy

/-- **Pixels of a resized opaque image.** Under `ScalerPicks`, every cell of the half-block rendering of the resized image is
    the upper half block `▀` whose foreground is *exactly* the colour of a source pixel (the one the scaler put at `(x, 2y)`)
    and whose background is exactly the colour of a source pixel (the one at `(x, 2y+1)`) — or the default colour in the last
    row of an odd pixel height, where there is no lower pixel. -/
theorem resized_opaque_half (src dst : Img) (pw ph : Nat) (hs : ScalerPicks src dst pw ph)
    (hop : ∀ x y, x < src.w → y < src.h → OpaquePx (src.at x y)) :
    ∀ e ∈ halfCells dst, e.1 < pw ∧ e.2.1 < ceilDiv ph 2 ∧
      ∃ sx sy tr tg tb, sx < src.w ∧ sy < src.h ∧ src.at sx sy = .ofQuad (nrgbaRGBA tr tg tb 255) ∧
        e.2.2.glyph = 0x2580 ∧ e.2.2.fg = directColor tr tg tb ∧
        ((2 * e.2.1 + 1 < ph ∧ ∃ sx' sy' br bg bb, sx' < src.w ∧ sy' < src.h ∧
            src.at sx' sy' = .ofQuad (nrgbaRGBA br bg bb 255) ∧ e.2.2.bg = directColor br bg bb) ∨
         (¬ 2 * e.2.1 + 1 < ph ∧ e.2.2.bg = 0)) := by
  intro e he
  obtain ⟨h1, h2, h3, _⟩ := (block_cell_pixels halfCell dst).2.2 e he
  rw [hs.w] at h1
  rw [hs.h] at h2
  refine ⟨h1, h2, ?_⟩
  obtain ⟨hrow, _⟩ := block_pixel_rows dst e.1 e.2.1 (by rw [hs.h]; exact h2)
  rw [hs.h] at hrow
  obtain ⟨sx, sy, hsx, hsy, htop⟩ := hs.picks e.1 (2 * e.2.1) h1 hrow
  obtain ⟨tr, tg, tb, htr, htg, htb, hpx⟩ := hop sx sy hsx hsy
  refine ⟨sx, sy, tr, tg, tb, hsx, hsy, hpx, ?_⟩
  by_cases hbot : 2 * e.2.1 + 1 < ph
  · obtain ⟨sx', sy', hsx', hsy', hb⟩ := hs.picks e.1 (2 * e.2.1 + 1) h1 hbot
    obtain ⟨br, bg, bb, hbr, hbg, hbb, hpx'⟩ := hop sx' sy' hsx' hsy'
    have hc : e.2.2 = ⟨0x2580, directColor tr tg tb, directColor br bg bb⟩ := by
      rw [h3, htop, hb, hpx, hpx']
      exact C20.opaque_exact_half tr tg tb br bg bb htr htg htb hbr hbg hbb
    rw [hc]
    exact ⟨rfl, rfl, Or.inl ⟨hbot, sx', sy', br, bg, bb, hsx', hsy', hpx', rfl⟩⟩
  · have hz : dst.at e.1 (2 * e.2.1 + 1) = ⟨0, 0, 0, 0⟩ := by
      have : ¬ (2 * e.2.1 + 1 < dst.h) := by rw [hs.h]; exact hbot
      simp [Img.at, this]
    have hc : e.2.2 = ⟨0x2580, directColor tr tg tb, 0⟩ := by
      rw [h3, htop, hz, hpx]
      rw [halfCell, C20.opaque_exact_nrgba _ _ _ htr htg htb, C20.transparent_default]
      have hz' : toRGB ⟨0, 0, 0, 0⟩ = ⟨0, 0, 0, 0⟩ := by decide
      rw [hz']
      simp [rgbColor_eq, htr, htg, htb]
    rw [hc]
    exact ⟨rfl, rfl, Or.inr ⟨hbot, rfl⟩⟩

/-- Non-vacuity: the identity "scaler" (an image that already fits is returned as it is) meets the hypothesis. -/
example (img : Img) : ScalerPicks img img img.w img.h :=
  ⟨rfl, rfl, fun x y hx hy => ⟨x, y, hx, hy, rfl⟩⟩

/-! ## Drawing touches only cells inside the target window (composition with C11) -/

open VaxisModel.Model.Window VaxisModel.Spec.Window in
/-- **draw_clipped (half / full block).** `Draw` is one `SetCell` per cell-list entry; whatever the window chain
    and screen, a screen cell that changes lies inside the window, every ancestor and the screen, and is the
    window's origin plus the `(x, y)` of a cell-list entry — which by `block_cell_pixels` carries the colours of
    the pixels `(x, 2y)`, `(x, 2y+1)`. -/
theorem block_draw_clipped (toCell : BCell → Cell) (cell : C16 → C16 → BCell) (img : Img) (win : Win) (s : Screen)
    (x y : Int) (h : (applyOps win s (blockOps toCell (blockCells cell img))).get x y ≠ s.get x y) :
    covers win x y ∧ inScreen s x y ∧
    ∃ e ∈ blockCells cell img, x = (win.origin).1 + e.1 ∧ y = (win.origin).2 + e.2.1 ∧ e.1 < img.w ∧ e.2.1 < ceilDiv img.h 2 := by
  obtain ⟨hc, hs, o, ho, hx, hy⟩ := C11.drawops_clip win s _ x y h
  simp only [blockOps, List.mem_map] at ho
  obtain ⟨e, he, rfl⟩ := ho
  obtain ⟨h1, h2, _, _⟩ := (block_cell_pixels cell img).2.2 e he
  exact ⟨hc, hs, e, he, hx, hy, h1, h2⟩

open VaxisModel.Model.Window VaxisModel.Spec.Window in
/-- **draw_clipped (sixel).** The cells `Sixel.Draw` marks are clipped like every `SetCell`; and when the image is
    drawn at all (size gate), its whole `w × h` placement lies inside the window's own rectangle. -/
theorem sixel_draw_clipped (sw sh : Int) (mark : Cell) (win : Win) (s : Screen) (x y : Int)
    (h : (applyOps win s (sixelOps sw sh mark)).get x y ≠ s.get x y) : covers win x y ∧ inScreen s x y :=
  let ⟨hc, hs, _⟩ := C11.drawops_clip win s _ x y h
  ⟨hc, hs⟩

/-- The size test as written in both `Draw` methods. -/
abbrev sizeTest : Gate := .size .gt .or .gt

/-- **The size gate, for every gate list.**  Whatever else a `Draw` method tests, if one of its leading
    `if … { return }` statements is `X.w > w || X.h > h` (with `w, h := win.Size()`), then an image that is drawn is at
    most as large as the window, and every cell `(dx, dy)` the `iw × ih` placement covers passes the window's own
    `SetCell` guard — for all sizes (also negative ones), all windows, all data / encoding states. -/
theorem size_gate_inside (gates : List Gate) (hm : sizeTest ∈ gates) (hasData encoding : Bool) (iw ih : Int)
    (win : VaxisModel.Model.Window.Win) (hd : drawnWith gates hasData encoding iw ih win = true) :
    placementInside iw ih win ∧ ∀ dx dy : Int, placementCovers iw ih dx dy → win.guard dx dy = true := by
  have h := (List.all_eq_true.mp hd) _ hm
  simp only [gateFires, connBool, cmpInt, Bool.not_eq_true', Bool.or_eq_false_iff, decide_eq_false_iff_not] at h
  refine ⟨⟨by omega, by omega⟩, ?_⟩
  intro dx dy ⟨h1, h2, h3, h4⟩
  unfold VaxisModel.Model.Window.Win.guard
  have a : ¬ (dy ≥ win.height ∨ dx ≥ win.width) := by omega
  have b : ¬ (dy < 0 ∨ dx < 0) := by omega
  simp [a, b]

/-- **The gates of the source** (regenerated, structured; order-independent): every leading `if … { return }` of
    `KittyImage.Draw` and of `Sixel.Draw` is one the extractor knows — "no data", "still encoding" or the size test
    exactly as `X.w > w || X.h > h`, or (round 4, F520) "the image has no cells" —, both methods have the size test, only
    `Sixel.Draw` tests for data, and `KittyImage.Draw` refuses an image without cells. -/
theorem draw_gates_shape :
    (∀ g ∈ kittyGates ++ sixelGates, g = .noData ∨ g = .encoding ∨ g = sizeTest ∨ g = .zeroSize) ∧
    sizeTest ∈ kittyGates ∧ sizeTest ∈ sixelGates ∧ Gate.encoding ∈ kittyGates ∧ Gate.encoding ∈ sixelGates ∧
    Gate.noData ∈ sixelGates ∧ Gate.noData ∉ kittyGates ∧ Gate.zeroSize ∈ kittyGates := by decide

/-- **The placement both `Draw` methods record** (regenerated): its column and row are the window's origin
    (`col, row := win.Origin()`), its id and size the image's own `id`, `w`, `h` — not, say, the window's size — which
    is what `ImageDraw.lower` / `KittyTerm.lowerW` build. -/
theorem draw_placement_fields :
    kittyPlacement = [(.col, "col"), (.h, "X.h"), (.id, "X.id"), (.row, "row"), (.w, "X.w")] ∧
    sixelPlacement = kittyPlacement := by decide

theorem sixel_placement_inside (sw sh : Int) (win : VaxisModel.Model.Window.Win) (hd : sixelDrawn sw sh win = true) :
    placementInside sw sh win ∧
    ∀ dx dy : Int, 0 ≤ dx → dx < sw → 0 ≤ dy → dy < sh → win.guard dx dy = true := by
  obtain ⟨h1, h2⟩ := size_gate_inside sixelGates (by decide) true false sw sh win hd
  exact ⟨h1, fun dx dy a b c d => h2 dx dy ⟨a, b, c, d⟩⟩

/-- The statement "a drawn placement lies inside its window" for kitty images.  False before the F120 repair
    (`Witness/F120.lean`: with the old gate list `[.encoding]` a 4×4 image is placed in a 2×2 window). -/
def kitty_placement_inside_full : Prop :=
  ∀ (kw kh : Int) (win : VaxisModel.Model.Window.Win), kittyDrawn kw kh win = true → placementInside kw kh win

/-- **F120 repaired**: the full statement holds of the current source. -/
theorem kitty_placement_inside : kitty_placement_inside_full :=
  fun kw kh win hd => (size_gate_inside kittyGates (by decide) true false kw kh win hd).1

/-- What held for kitty images before the repair, and still does: a placement at most as large as the window lies
    inside it — i.e. after `Resize(w, h)` with the window's own size (`fit_term`). -/
theorem kitty_placement_inside_partial (F : FloatOps) (hF : Sound F) (wPix hPix : Nat) (xpix cols ypix rows : Int)
    (win : VaxisModel.Model.Window.Win) (cw ch : Nat) (hw : 0 < wPix) (hh : 0 < hPix)
    (hr : protoCellSizeTerm F wPix hPix win.width.toNat win.height.toNat xpix cols ypix rows = .ok (cw, ch))
    (hpos : 0 ≤ win.width ∧ 0 ≤ win.height) :
    placementInside cw ch win := by
  obtain ⟨h1, h2⟩ := fit_term F hF wPix hPix _ _ xpix cols ypix rows cw ch hw hh hr
  unfold placementInside
  omega

/-- The two graphics protocols that place an image as a whole (the block renderers draw cell by cell:
    `block_draw_clipped`). -/
inductive Proto | kitty | sixel
  deriving DecidableEq, Repr

def Proto.gates : Proto → List Gate
  | .kitty => kittyGates
  | .sixel => sixelGates

open VaxisModel.Model.Window VaxisModel.Spec.Window in
/-- **A placement never covers a cell outside its window** — both protocols, every image size, every window
    (whatever its parent chain), every state of the image (data present or not, encoder running or not): if `Draw`
    records a placement of `iw × ih` cells at `win.Origin()`, then every screen cell `(x, y)` that placement covers
    lies in the window's own rectangle (absolute coordinates), and relative to the window it is a cell that
    `win.SetCell` itself would accept. -/
theorem placement_inside_window (p : Proto) (hasData encoding : Bool) (iw ih : Int) (win : Win)
    (hd : drawnWith p.gates hasData encoding iw ih win = true) (x y : Int)
    (hc : placementCovers iw ih (x - (win.origin).1) (y - (win.origin).2)) :
    inOwnRect win x y ∧ win.guard (x - (win.origin).1) (y - (win.origin).2) = true := by
  have hm : sizeTest ∈ p.gates := by cases p <;> decide
  obtain ⟨⟨hw, hh⟩, hg⟩ := size_gate_inside p.gates hm hasData encoding iw ih win hd
  refine ⟨?_, hg _ _ hc⟩
  obtain ⟨h1, h2, h3, h4⟩ := hc
  unfold inOwnRect
  rw [← VaxisModel.Lemmas.Window.origin_eq_absOrigin]
  refine ⟨by omega, by omega, by omega, by omega⟩

/-- Non-vacuity: a 2×1 image is drawn into a 2×2 window at (5,5) by both protocols, and covers (6,5). -/
example : drawnWith Proto.kitty.gates true false 2 1 (VaxisModel.Model.Window.Win.new (.root 0 0 10 10) 5 5 2 2) = true ∧
    drawnWith Proto.sixel.gates true false 2 1 (VaxisModel.Model.Window.Win.new (.root 0 0 10 10) 5 5 2 2) = true ∧
    placementCovers 2 1 (6 - 5) (5 - 5) := by
  refine ⟨by decide, by decide, ?_⟩
  unfold placementCovers
  decide

/-- An image that does not fit is not drawn at all (both protocols): nothing is placed, so nothing is covered. -/
theorem too_large_not_drawn (p : Proto) (hasData encoding : Bool) (iw ih : Int) (win : VaxisModel.Model.Window.Win)
    (h : iw > win.width ∨ ih > win.height) : drawnWith p.gates hasData encoding iw ih win = false := by
  have hm : sizeTest ∈ p.gates := by cases p <;> decide
  cases hd : drawnWith p.gates hasData encoding iw ih win with
  | false => rfl
  | true =>
    have := (size_gate_inside p.gates hm hasData encoding iw ih win hd).1
    unfold placementInside at this
    omega

/-- …and an image with data that is not being encoded, has cells and fits *is* drawn: the gates refuse nothing else. -/
theorem fitting_drawn (p : Proto) (iw ih : Int) (win : VaxisModel.Model.Window.Win)
    (h : placementInside iw ih win) (hz : iw ≠ 0 ∧ ih ≠ 0) : drawnWith p.gates true false iw ih win = true := by
  obtain ⟨hw, hh⟩ := h
  obtain ⟨hz1, hz2⟩ := hz
  have a : ¬ (iw > win.width) := by omega
  have b : ¬ (ih > win.height) := by omega
  have hk : ∀ g ∈ p.gates, g = .noData ∨ g = .encoding ∨ g = sizeTest ∨ g = .zeroSize := by
    intro g hg
    apply draw_gates_shape.1 g
    cases p
    · exact List.mem_append_left _ hg
    · exact List.mem_append_right _ hg
  unfold drawnWith
  rw [List.all_eq_true]
  intro g hg
  rcases hk g hg with rfl | rfl | rfl | rfl <;> simp [gateFires, connBool, cmpInt, a, b, hz1, hz2]

/-! ## Upload bookkeeping of kitty images -/

/-- **Every encoding is transmitted exactly once**: over any history of completed `Resize`s and placement
    transmissions, what was sent plus what is still waiting in `k.buf` equals what was there plus the encodings
    produced. -/
theorem upload_conservation (k : KImg) (evs : List KEv) :
    (uploads k evs).sum + (finalK k evs).encs = k.encs + okResizes evs := uploads_conserve evs k

/-- **Not retransmitted while unchanged**: once the image data has been sent, further transmissions of its
    placements (moves, refreshes, new windows) carry no image data until the next successful `Resize`. -/
theorem no_reupload_while_unchanged (k : KImg) (evs : List KEv) (h : ∀ e ∈ evs, e ≠ KEv.resize true) :
    ∀ n ∈ uploads (k.write).1 evs, n = 0 :=
  uploads_quiet evs (k.write).1 (by unfold KImg.write; split <;> simp_all) h

/-- **Transmitted when it first appears or changes**: the first placement transmission after a successful
    `Resize` carries the new encoding (together with any older encodings never sent: the buffer accumulates). -/
theorem upload_after_resize (k : KImg) : ((k.resize true).write).2 = k.encs + 1 := by
  simp [KImg.resize, KImg.write]

example : uploads {} [.resize true, .write, .write, .resize true, .resize true, .write, .resize false, .write] = [1, 0, 2, 0] := by
  decide

/-! ## The code the model transcribes by hand, pinned statement by statement (regenerated every run)

`Gen.ImageFlow` holds the normalised source text of the statements in question; a change to any of them breaks the
corresponding theorem (and the check then looks for a failing input). -/

/-- **`cellPixelSize` as regenerated** (structured, interpreted by `termCellWith`): both axes start at 1 and take the
    truncating quotient `pix / cells` when `cells > 0 && pix/cells > 0`; so the interpreted model is the closed form
    `termCell` about which `term_cell_pos` / `term_cell_exact` speak. -/
theorem cell_pixel_size_shape :
    cellPixelSizeW = some ⟨1, .gt, 0, .gt, 0⟩ ∧ cellPixelSizeH = some ⟨1, .gt, 0, .gt, 0⟩ ∧
    (∀ pix cells, termCellW pix cells = termCell pix cells) ∧ (∀ pix cells, termCellH pix cells = termCell pix cells) :=
  ⟨cellPixelSize_shape.1, cellPixelSize_shape.2, termCellW_eq, termCellH_eq⟩

/-- **The cell-size arithmetic of both `Resize` methods as regenerated** (structured, interpreted by
    `protoCellSizeWith`): the geometry is `cellPixelSize`'s and is what `resizeImage` gets, the cell size is the quotient
    plus one on a remainder in both directions — for `KittyImage.Resize` and, separately, for the copy of that code in
    `Sixel.Resize`'s goroutine.  So the interpreted models of both are `protoCellSizeTerm`, about which `no_panic_term`,
    `fit_term` and `cell_size_exact_proto` speak: a dropped `+= 1` in either copy breaks this. -/
theorem resize_shape :
    kittyResize = ⟨true, true, true, true, true⟩ ∧ sixelResize = ⟨true, true, true, true, true⟩ ∧
    (∀ F wPix hPix w h xpix cols ypix rows,
      kittyCellSizeTerm F wPix hPix w h xpix cols ypix rows = protoCellSizeTerm F wPix hPix w h xpix cols ypix rows) ∧
    (∀ F wPix hPix w h xpix cols ypix rows,
      sixelCellSizeTerm F wPix hPix w h xpix cols ypix rows = protoCellSizeTerm F wPix hPix w h xpix cols ypix rows) :=
  ⟨resizeShape_std.1, resizeShape_std.2, kittyCellSizeTerm_eq, sixelCellSizeTerm_eq⟩

open VaxisModel.Gen VaxisModel.Lemmas in
/-- The format strings of the kitty graphics commands (`a=p` placement with image and placement id, `a=d,d=i` delete of
    one placement, `f=100` PNG transmission in chunks, `a=d,d=I` image delete) are the ones the harness's parser
    recognises — data, pinned as text.  (Round 4: the upload closure, the upload side of `Resize` and the block `Draw`
    loops are no longer text pins: structured, interpreted — `Props.C20Term.kitty_*_body_eq_model`,
    `block_draw_body_eq_model`.) -/
theorem facts_kitty_formats : ImageFlow.kittyFormats = ImageFlowExpected.kittyFormats := by decide +kernel

/-- **The placement loops of `render` as regenerated** (statement skeleton, interpreted by `Model.Placements.renderShaped`):
    every statement is there and nothing else is — delete-and-continue on refresh, skip when a same placement follows,
    delete; empty the last list on refresh; skip when a same placement was there, move the cursor and write;
    `last = next` — and `Window.Clear` assigns a fresh empty next-frame list (round 4: `Gen.clearPlacements`, from
    window.go) — so the interpreted step the driver runs is the `step` about which `placement_diff` speaks. -/
theorem render_shape :
    renderShape = ⟨true, true, true, true, true, true, true, []⟩ ∧ clearPlacements = .fresh ∧
    ∀ s op, VaxisModel.Model.Placements.stepGen s op = VaxisModel.Model.Placements.step s op := by
  have h : renderShape = ⟨true, true, true, true, true, true, true, []⟩ := by decide
  have hc : clearPlacements = .fresh := by decide
  refine ⟨h, hc, ?_⟩
  intro s op
  unfold VaxisModel.Model.Placements.stepGen VaxisModel.Model.Placements.step
  cases op with
  | clear => simp only [hc, VaxisModel.Model.Placements.clearWith, VaxisModel.Model.Placements.stepWith]
  | draw p => simp only [h]; exact VaxisModel.Lemmas.Placements.stepShaped_std _ s _
  | render => simp only [h]; exact VaxisModel.Lemmas.Placements.stepShaped_std _ s _
  | refresh => simp only [h]; exact VaxisModel.Lemmas.Placements.stepShaped_std _ s _

end VaxisModel.Props.C20Ext
