/-
C20, round 3: fit / no-upscale / aspect without the hypothesis `Sound`, for every image and box below 2²⁶ in each
dimension — from the standard model of floating-point arithmetic (`Lemmas.FloatStd.StdModel`: each float operation
within relative error 2⁻⁵³ of its exact result, a function of that result; integers below 2⁵³ convert exactly), by
exact integer reasoning.  Outside that range the hypothesis `Sound` of `Props.C20` remains.  Property theorems only.
-/
import VaxisModel.Props.C20
import VaxisModel.Lemmas.FloatStd

namespace VaxisModel.Props.C20Float
open VaxisModel.Model.ImageFit VaxisModel.Spec.Images VaxisModel.Lemmas.FloatStd

/-- **The error hypothesis derived, in range.**  For every float step meeting the standard model: while
    `2·a·x < 2⁵³` the truncated product `int((a/b)·x)` is `⌊a·x/b⌋` or — only possible when `a·x/b` is an integer —
    one less (`Sound`'s two inequalities), and while `2·a·d, 2·c·b < 2⁵³ − 1` comparing `a/b` with `c/d` in floating
    point gives the exact answer. -/
theorem sound_in_range (F : FloatOps) (hS : StdModel F) :
    (∀ a b x, 0 < b → 2 * (a * x) < Em + 1 → F.scale a b x * b ≤ a * x ∧ a * x ≤ (F.scale a b x + 1) * b) ∧
    (∀ a b c d, 0 < b → 0 < d → 2 * (a * d) < Em → 2 * (c * b) < Em → F.cmp a b c d = ratCmp a b c d) :=
  ⟨scale_in_range F hS, cmp_in_range F hS⟩

/-- …so the float step clamped to the exact operations outside the range meets `Sound` outright, and the exact
    operations themselves meet the standard model (non-vacuity). -/
theorem sound_of_std_model (F : FloatOps) (hS : StdModel F) : Sound (clampOps F) ∧ StdModel exactOps :=
  ⟨clamp_sound F hS, exactOps_std⟩

/-- **Fit, no upscale, aspect — no float hypothesis below 2²⁶.**  For every float step meeting the standard model,
    every image `1 ≤ wPix, hPix < 2²⁶`, every box `w, h < 2²⁶`, every positive cell geometry: the result of
    `resizeImage` occupies at most `w × h` cells, is not larger than the source, and keeps the aspect ratio to within
    one pixel. -/
theorem fit_no_upscale_aspect_std (F : FloatOps) (hS : StdModel F) (wPix hPix w h cellW cellH pw ph : Nat)
    (hw : 0 < wPix) (hh : 0 < hPix) (hcw : 0 < cellW) (hch : 0 < cellH)
    (h1 : wPix < dimBound) (h2 : hPix < dimBound) (h3 : w < dimBound) (h4 : h < dimBound)
    (hr : resizeDims F wPix hPix w h cellW cellH = .ok (pw, ph)) :
    FitsBox pw ph w h cellW cellH ∧ NoUpscale pw ph wPix hPix ∧ AspectKept pw ph wPix hPix := by
  have hr' : resizeDimsWith genCfg (clampOps F) wPix hPix w h cellW cellH = .ok (pw, ph) := by
    rw [resizeDims_clamp genCfg F wPix hPix w h cellW cellH hw hh h1 h2 h3 h4]; exact hr
  have hs := clamp_sound F hS
  exact ⟨C20.fit _ hs wPix hPix w h cellW cellH pw ph hw hh hcw hch hr',
         C20.no_upscale _ hs wPix hPix w h cellW cellH pw ph hw hh hcw hch hr',
         C20.aspect _ hs wPix hPix w h cellW cellH pw ph hw hh hcw hch hr'⟩

/-- Non-vacuity: the F51 case with the exact operations (which meet the standard model). -/
example : resizeDims exactOps 64 128 4 4 8 16 = .ok (32, 64) ∧ StdModel exactOps := ⟨rfl, exactOps_std⟩

end VaxisModel.Props.C20Float
