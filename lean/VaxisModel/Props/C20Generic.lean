/-
C20, round 4: (1) source images of other concrete types through the scaler — the generic slow path
`scale_RGBA_Image_{Over,Src}` and the Gray fast path of golang.org/x/image/draw — and (2) the transparency decision
composed with the per-channel bound into ONE statement about the colours of every cell of a (possibly rescaled,
possibly translucent) half-block image.  Only theorems and examples.
-/
import VaxisModel.Props.C20Pixels
import VaxisModel.Lemmas.ScalerGeneric

namespace VaxisModel.Props.C20Generic
open VaxisModel.Model.Blocks VaxisModel.Model.Scaler VaxisModel.Model.ImageFit VaxisModel.Spec.Images
open VaxisModel.Gen.ImageConsts VaxisModel.Lemmas.Scaler VaxisModel.Props.C20Pixels

/-! ## Other source types -/

/-- **The type-specific fast paths read what `At(x, y).RGBA()` returns**: the 16-bit premultiplied pixel the
    `scale_RGBA_NRGBA_*` / `scale_RGBA_RGBA_*` paths compute from the `Pix` bytes (`load`) is exactly the colour
    type's own conversion (`conv` = `color.NRGBA.RGBA()` / `color.RGBA.RGBA()`): they are the generic path
    `scale_RGBA_Image_*` specialised, not a different computation. -/
theorem fast_path_reads_rgba (k : Kind) (p : P8) : load k p = conv k p := by
  cases k
  · simp only [load, conv, C16.ofQuad, nrgbaRGBA, C16.mk.injEq]
    refine ⟨?_, ?_, ?_, trivial⟩ <;> rw [Nat.mul_comm p.a 257, Nat.mul_assoc]
  · rfl

/-- The hypothesis under which a source of ANOTHER concrete type is covered by the pipeline theorems: seen through
    `At(x, y).RGBA()` (`px`) it is pixel for pixel the stored image `img` (an `*image.NRGBA` / `*image.RGBA`).
    True of `*image.Gray` with `img` = the pixels `(Y, Y, Y, 255)` (`gray_same_as_nrgba`) and of `*image.Paletted`
    with 8-bit `color.NRGBA` / `color.RGBA` palette entries with `img` = the looked-up entries; checked on the real
    code by the streams `halfg | fullg | halfq | fullq`. -/
def SameAs (px : Nat → Nat → C16) (img : Img8) : Prop :=
  ∀ x y, x < img.w → y < img.h → px x y = conv img.kind (img.pix x y)

/-- **The generic path on such a source stores the bytes the fast path stores for `img`**, for either operator: every
    pixel of the scaled image is the same, so every statement of `Props.C20Pixels` about `resizeImg img` — index under
    the cell, opaque exact, alpha kept, the transparency table — is a statement about the rescaled source. -/
theorem generic_path_eq_fast_path (over : Bool) (px : Nat → Nat → C16) (img : Img8) (h : SameAs px img)
    (hw : 0 < img.w) (hh : 0 < img.h) (dw dh dx dy : Nat) (hx : dx < dw) (hy : dy < dh) :
    scaledPxGeneric over px img.w img.h dw dh dx dy = scaledPx over img dw dh dx dy := by
  unfold scaledPxGeneric scaledPx
  rw [h _ _ (nnIndex_lt dx img.w dw hx hw) (nnIndex_lt dy img.h dh hy hh), fast_path_reads_rgba]

/-- `color.Gray{Y}.RGBA()` is `color.NRGBA{Y, Y, Y, 255}.RGBA()`: an `*image.Gray` meets `SameAs` with that image. -/
theorem gray_same_as_nrgba (y : Nat) : C16.ofQuad (grayRGBA y) = conv .nrgba ⟨y, y, y, 255⟩ := by
  simp only [grayRGBA, conv, C16.ofQuad, nrgbaRGBA, C16.mk.injEq]
  refine ⟨?_, ?_, ?_, by decide⟩ <;> omega

/-- The Gray fast path `scale_RGBA_Gray_Src` stores what the generic `Src` path stores for that colour — the grey level
    itself in all three channels, alpha `0xff`. -/
theorem gray_fast_path (y : Nat) (hy : y < 256) :
    grayStore y = storeSrc (.ofQuad (grayRGBA y)) ∧ grayStore y = ⟨y, y, y, 255⟩ := by
  have h1 : y * 257 / 256 = y := by omega
  simp only [grayStore, storeSrc, C16.ofQuad, grayRGBA, u8, P8.mk.injEq, h1]
  have h2 : y % 256 = y := Nat.mod_eq_of_lt hy
  simp [h2]

/-- **The YCbCr fast paths are the generic path too**: per channel, the inlined conversion of `scale_RGBA_YCbCr4xx_Src`
    (shift, clamp to 16 bits, keep the high byte) stores what the generic `Src` path stores for `color.YCbCr.RGBA()`'s
    channel — for every 24-bit fixed-point value, negative and overflowing ones included. -/
theorem ycbcr_fast_path (v : Int) : ycbcrStoreChan v = u8 (ycbcrClamp v / 256) := by
  unfold ycbcrStoreChan ycbcrClamp
  simp only
  by_cases h1 : v < 0
  · have : v / 256 < 0 := by omega
    simp [h1, this]
  · by_cases h2 : v < 16777216
    · have a1 : ¬ v / 256 < 0 := by omega
      have a2 : ¬ v / 256 > 0xffff := by omega
      simp only [h1, h2, a1, a2, if_false, if_true]
      congr 1
      omega
    · have a1 : ¬ v / 256 < 0 := by omega
      have a2 : v / 256 > 0xffff := by omega
      simp only [h1, h2, a1, a2, if_false, if_true]
      rfl

/-- The whole pixel: what `scale_RGBA_YCbCr4xx_Src` stores for `(Y, Cb, Cr)` is what the generic `Src` path stores for
    `color.YCbCr{Y, Cb, Cr}.RGBA()` (`Spec.Images.ycbcrRGBA`) — the chroma sample is whichever the subsampling ratio
    selects, in both. -/
theorem ycbcr_pixel_fast_path (y cb cr : Nat) :
    (⟨ycbcrStoreChan ((y : Int) * 65793 + 91881 * ((cr : Int) - 128)),
      ycbcrStoreChan ((y : Int) * 65793 - 22554 * ((cb : Int) - 128) - 46802 * ((cr : Int) - 128)),
      ycbcrStoreChan ((y : Int) * 65793 + 116130 * ((cb : Int) - 128)), 0xff⟩ : P8) =
      storeSrc (.ofQuad (ycbcrRGBA y cb cr)) := by
  simp only [storeSrc, C16.ofQuad, ycbcrRGBA, ycbcr_fast_path]
  rfl

/-- An opaque pixel of any source type through the scaler and back to the renderer: `toRGB` of the stored bytes is
    exactly the high byte of each 16-bit channel `At(x, y).RGBA()` returned, alpha 255 — either operator. -/
theorem generic_scaled_opaque_pixel (c : C16) (ha : c.a = 0xffff) (hr : c.r < 65536) (hg : c.g < 65536) (hb : c.b < 65536) (over : Bool) :
    toRGB (conv .rgba (if over then storeOver ⟨0, 0, 0, 0⟩ c else storeSrc c)) = ⟨c.r / 256, c.g / 256, c.b / 256, 255⟩ := by
  have hs : (if over then storeOver ⟨0, 0, 0, 0⟩ c else storeSrc c) = storeSrc c := by
    cases over
    · rfl
    · simp only [if_true, storeOver_zero]
  rw [hs]
  have e : storeSrc c = ⟨c.r / 256, c.g / 256, c.b / 256, 255⟩ := by
    simp only [storeSrc, u8, ha, P8.mk.injEq]
    refine ⟨?_, ?_, ?_, by decide⟩ <;> omega
  rw [e]
  have h1 : c.r / 256 < 256 := by omega
  have h2 : c.g / 256 < 256 := by omega
  have h3 : c.b / 256 < 256 := by omega
  exact VaxisModel.Props.C20.opaque_exact_rgba (c.r / 256) (c.g / 256) (c.b / 256) h1 h2 h3

theorem generic_pix (src : Img8) (x y : Nat) : src.generic.pix x y = load src.kind (src.pix x y) := by
  rw [fast_path_reads_rgba]
  exact getD_map_zero src.px (conv src.kind) _ (conv_zero src.kind)

theorem scaleG_generic (over : Bool) (src : Img8) (dw dh : Nat) :
    scaleG over ⟨src.w, src.h, src.px.map (conv src.kind)⟩ dw dh = scale over src dw dh := by
  show scaleG over src.generic dw dh = scale over src dw dh
  unfold scaleG scale scaledPxGeneric scaledPx
  simp only [generic_pix]
  rfl

/-- **The generic pipeline contains the verified one**: `resizeImage` modelled for a source of any type
    (`resizeImgG`: what `At().RGBA()` returns per pixel, the scaler's generic path), applied to a stored NRGBA / RGBA
    image seen that way, gives exactly what the block renderers read from the fast-path model `resizeImg` — so the
    driver's model for `*image.YCbCr` sources is the model of the pipeline theorems, instantiated at another conversion. -/
theorem generic_model_contains_fast_model (F : FloatOps) (src : Img8) (w h cellW cellH : Nat) :
    resizeImgG F src.generic src.opaque w h cellW cellH = (resizeImg F src w h cellW cellH).map Img8.view := by
  unfold resizeImgG resizeImg resizeImgGWith resizeImgWith
  simp only [Img8.generic]
  cases h1 : cells genCfg.colsUp src.w cellW with
  | error e => rfl
  | ok columns =>
    cases h2 : cells genCfg.linesUp src.h cellH with
    | error e => rfl
    | ok lines =>
      simp only [bind, Except.bind, pure, Except.pure, Except.map]
      by_cases hf : evalFit genCfg.fit columns w lines h = true
      · simp only [hf, if_true]; rfl
      · simp only [hf, scaleG_generic]
        rfl

/-- `fullCell` on two pixels, in terms of what `toRGB` returns for them: a space with default foreground; background
    default when the mean alpha is below 50, else the channel-wise mean. -/
theorem fullCell_eq (top bot : C16) :
    fullCell top bot =
      ⟨0x20, 0, if ((toRGB bot).a + (toRGB top).a) / 2 % 256 < 50 then 0
                else rgbColor (((toRGB bot).r + (toRGB top).r) / 2 % 256) (((toRGB bot).g + (toRGB top).g) / 2 % 256)
                              (((toRGB bot).b + (toRGB top).b) / 2 % 256)⟩ := by
  have hc : fullBlockCmp = (.lt, 50) := by decide
  simp only [fullCell, fullColor, averageColor, hc, evalCmp, List.cons_append, List.nil_append, List.map_cons,
    List.map_nil, List.sum_cons, List.sum_nil, List.length_cons, List.length_nil, Nat.add_zero, u8, decide_eq_true_eq]

/-! ## The whole pipeline for a source of any concrete type -/

open VaxisModel.Lemmas.ScalerGeneric in
/-- **`HalfBlockImage.Resize` on a source of ANY concrete type** (given by what its `At(x, y).RGBA()` returns — an
    `*image.YCbCr` from a JPEG, `*image.Gray`, `*image.Paletted`, 16-bit types — any alpha, any float step): there is
    one way `seen` every source pixel is seen — as it is (the image fitted) or through the scaler's 8-bit storage and
    back (`RGBA()` of the stored high bytes) — and the cell at column `x`, row `y` is decided by `T`, `B` = `toRGB` of
    the seen source pixels `(nnIndex x, nnIndex 2y)`, `(nnIndex x, nnIndex (2y+1))` under it (lower half transparent in
    a last odd row) by the property's table: both alphas below 50 ⇒ default cell; only the top ⇒ `▄` in the bottom
    colour; only the bottom ⇒ `▀` in the top colour; neither ⇒ `▀` top on bottom. -/
theorem half_pipeline_any_source (F : FloatOps) (src : ImgG) (o : Bool) (w h : Nat) (hw : 0 < src.w) (hh : 0 < src.h)
    (v : Img) (hr : resizeImgG F src o w h halfBlockGeom.1 halfBlockGeom.2 = .ok v) :
    resizeDims F src.w src.h w h halfBlockGeom.1 halfBlockGeom.2 = .ok (v.w, v.h) ∧
    ∃ seen : C16 → C16, (seen = id ∨ seen = fun c => conv .rgba (storeSrc c)) ∧
      ∀ e ∈ halfCellsGen v, e.1 < v.w ∧ e.2.1 < ceilDiv v.h 2 ∧
        let T := toRGB (seen (src.pix (nnIndex e.1 src.w v.w) (nnIndex (2 * e.2.1) src.h v.h)))
        let B := if 2 * e.2.1 + 1 < v.h then toRGB (seen (src.pix (nnIndex e.1 src.w v.w) (nnIndex (2 * e.2.1 + 1) src.h v.h)))
                 else (⟨0, 0, 0, 0⟩ : C8)
        e.2.2 = (if T.a < 50 ∧ B.a < 50 then ⟨0x20, 0, 0⟩
                 else if T.a < 50 then ⟨0x2584, rgbColor B.r B.g B.b, 0⟩
                 else if B.a < 50 then ⟨0x2580, rgbColor T.r T.g T.b, 0⟩
                 else ⟨0x2580, rgbColor T.r T.g T.b, rgbColor B.r B.g B.b⟩) := by
  obtain ⟨hd, hcase⟩ := resizeImgG_cases genCfg F src o w h _ _ v hr
  refine ⟨hd, ?_⟩
  -- what the renderers read at an in-bounds position of the result
  have key : ∃ seen : C16 → C16, (seen = id ∨ seen = fun c => conv .rgba (storeSrc c)) ∧
      ∀ x y, x < v.w → y < v.h → v.at x y = seen (src.pix (nnIndex x src.w v.w) (nnIndex y src.h v.h)) := by
    rcases hcase with he | he
    · refine ⟨id, Or.inl rfl, fun x y hx hy => ?_⟩
      have hvw : v.w = src.w := by rw [he]; rfl
      have hvh : v.h = src.h := by rw [he]; rfl
      rw [hvw, hvh, nnIndex_same x src.w hw, nnIndex_same y src.h hh]
      rw [he]
      exact asImg_at src x y (hvw ▸ hx) (hvh ▸ hy)
    · refine ⟨fun c => conv .rgba (storeSrc c), Or.inr rfl, fun x y hx hy => ?_⟩
      have := scaleG_view_at (!o) src v.w v.h x y hx hy
      rw [← he] at this
      exact this
  obtain ⟨seen, hseen, hat⟩ := key
  refine ⟨seen, hseen, ?_⟩
  intro e he
  rw [half_block_bottom_shape.2] at he
  obtain ⟨h1, h2, h3, _⟩ := VaxisModel.Lemmas.ImageTerm.blockCells_mem halfCell v e he
  obtain ⟨hrow, _⟩ := VaxisModel.Lemmas.ImageTerm.blockHeight_rows v.h e.2.1 h2
  rw [VaxisModel.Lemmas.ImageFit.blockHeight_eq] at h2
  refine ⟨h1, h2, ?_⟩
  intro T B
  rw [h3, halfCell, VaxisModel.Props.C20.transparent_default]
  have hT : toRGB (v.at e.1 (2 * e.2.1)) = T := by rw [hat _ _ h1 hrow]
  have hB : toRGB (v.at e.1 (2 * e.2.1 + 1)) = B := by
    show _ = if 2 * e.2.1 + 1 < v.h then _ else _
    by_cases hbot : 2 * e.2.1 + 1 < v.h
    · rw [if_pos hbot, hat _ _ h1 hbot]
    · rw [if_neg hbot]
      have hz : v.at e.1 (2 * e.2.1 + 1) = ⟨0, 0, 0, 0⟩ := by simp [Img.at, hbot]
      rw [hz]; decide
  rw [hT, hB]

/-- For an opaque source of any type — every decoded JPEG — this is exact: every cell is `▀` whose foreground /
    background are exactly the 8-bit colours the two source pixels under it have where they are read: `toRGB` of the
    16-bit colour when the image fitted, its high bytes after scaling (lower half default in a last odd row). -/
theorem half_pipeline_any_opaque_source (F : FloatOps) (src : ImgG) (o : Bool) (w h : Nat) (hw : 0 < src.w) (hh : 0 < src.h)
    (hop : ∀ x y, x < src.w → y < src.h → (src.pix x y).a = 0xffff ∧ (src.pix x y).r < 65536 ∧ (src.pix x y).g < 65536 ∧ (src.pix x y).b < 65536)
    (v : Img) (hr : resizeImgG F src o w h halfBlockGeom.1 halfBlockGeom.2 = .ok v) :
    ∃ shown : C16 → C8, (shown = toRGB ∨ shown = fun c => ⟨c.r / 256, c.g / 256, c.b / 256, 255⟩) ∧
      ∀ e ∈ halfCellsGen v,
        let t := shown (src.pix (nnIndex e.1 src.w v.w) (nnIndex (2 * e.2.1) src.h v.h))
        let b := shown (src.pix (nnIndex e.1 src.w v.w) (nnIndex (2 * e.2.1 + 1) src.h v.h))
        e.2.2 = ⟨0x2580, rgbColor t.r t.g t.b, if 2 * e.2.1 + 1 < v.h then rgbColor b.r b.g b.b else 0⟩ := by
  obtain ⟨_, seen, hseen, hall⟩ := half_pipeline_any_source F src o w h hw hh v hr
  have h255 : ∀ c : C16, c.a = 0xffff → c.r < 65536 → c.g < 65536 → c.b < 65536 → (toRGB c).a = 255 := by
    intro c ha _ _ _
    have : c.a = 255 * 257 := by rw [ha]
    exact toRGB_alpha c 255 this (by decide)
  -- how an opaque source pixel is shown, and that it is shown opaque
  have key : ∃ shown : C16 → C8, (shown = toRGB ∨ shown = fun c => ⟨c.r / 256, c.g / 256, c.b / 256, 255⟩) ∧
      ∀ c : C16, c.a = 0xffff → c.r < 65536 → c.g < 65536 → c.b < 65536 → toRGB (seen c) = shown c ∧ (shown c).a = 255 := by
    rcases hseen with hs | hs
    · refine ⟨toRGB, Or.inl rfl, fun c ha hr hg hb => ?_⟩
      rw [hs]; exact ⟨rfl, h255 c ha hr hg hb⟩
    · refine ⟨fun c => ⟨c.r / 256, c.g / 256, c.b / 256, 255⟩, Or.inr rfl, fun c ha hr hg hb => ?_⟩
      rw [hs]
      have := generic_scaled_opaque_pixel c ha hr hg hb false
      simp only [Bool.false_eq_true, if_false] at this
      exact ⟨this, rfl⟩
  obtain ⟨shown, hshown, hsh⟩ := key
  refine ⟨shown, hshown, ?_⟩
  intro e he
  obtain ⟨h1, h2, h3⟩ := hall e he
  have hrow : 2 * e.2.1 < v.h := by
    unfold ceilDiv at h2; omega
  have hx := nnIndex_lt e.1 src.w v.w h1 hw
  have hy := nnIndex_lt (2 * e.2.1) src.h v.h hrow hh
  obtain ⟨a1, a2, a3, a4⟩ := hop _ _ hx hy
  obtain ⟨eT, aT⟩ := hsh _ a1 a2 a3 a4
  intro t b
  rw [h3]
  simp only [eT]
  by_cases hbot : 2 * e.2.1 + 1 < v.h
  · have hy' := nnIndex_lt (2 * e.2.1 + 1) src.h v.h hbot hh
    obtain ⟨b1, b2, b3, b4⟩ := hop _ _ hx hy'
    obtain ⟨eB, aB⟩ := hsh _ b1 b2 b3 b4
    simp only [if_pos hbot, eB]
    have n1 : ¬ (shown (src.pix (nnIndex e.1 src.w v.w) (nnIndex (2 * e.2.1) src.h v.h))).a < 50 := by rw [aT]; decide
    have n2 : ¬ (shown (src.pix (nnIndex e.1 src.w v.w) (nnIndex (2 * e.2.1 + 1) src.h v.h))).a < 50 := by rw [aB]; decide
    simp only [n1, n2, false_and, if_false]
    rfl
  · simp only [if_neg hbot]
    have n1 : ¬ (shown (src.pix (nnIndex e.1 src.w v.w) (nnIndex (2 * e.2.1) src.h v.h))).a < 50 := by rw [aT]; decide
    simp [n1]
    rfl

open VaxisModel.Lemmas.ScalerGeneric in
/-- **`FullBlockImage.Resize` on a source of any concrete type**: every cell is a space with default foreground whose
    background is the default colour exactly when the mean of the two alphas `toRGB` returns for the seen source pixels
    under it is below 50, and otherwise their channel-wise mean; in a last odd row the upper pixel alone (F220). -/
theorem full_pipeline_any_source (F : FloatOps) (src : ImgG) (o : Bool) (w h : Nat) (hw : 0 < src.w) (hh : 0 < src.h)
    (v : Img) (hr : resizeImgG F src o w h fullBlockGeom.1 fullBlockGeom.2 = .ok v) :
    resizeDims F src.w src.h w h fullBlockGeom.1 fullBlockGeom.2 = .ok (v.w, v.h) ∧
    ∃ seen : C16 → C16, (seen = id ∨ seen = fun c => conv .rgba (storeSrc c)) ∧
      ∀ e ∈ fullCells v, e.1 < v.w ∧ e.2.1 < ceilDiv v.h 2 ∧
        let T := toRGB (seen (src.pix (nnIndex e.1 src.w v.w) (nnIndex (2 * e.2.1) src.h v.h)))
        let B := if 2 * e.2.1 + 1 < v.h then toRGB (seen (src.pix (nnIndex e.1 src.w v.w) (nnIndex (2 * e.2.1 + 1) src.h v.h)))
                 else T
        e.2.2 = ⟨0x20, 0, if (B.a + T.a) / 2 % 256 < 50 then 0
                          else rgbColor ((B.r + T.r) / 2 % 256) ((B.g + T.g) / 2 % 256) ((B.b + T.b) / 2 % 256)⟩ := by
  obtain ⟨hd, hcase⟩ := resizeImgG_cases genCfg F src o w h _ _ v hr
  refine ⟨hd, ?_⟩
  have key : ∃ seen : C16 → C16, (seen = id ∨ seen = fun c => conv .rgba (storeSrc c)) ∧
      ∀ x y, x < v.w → y < v.h → v.at x y = seen (src.pix (nnIndex x src.w v.w) (nnIndex y src.h v.h)) := by
    rcases hcase with he | he
    · refine ⟨id, Or.inl rfl, fun x y hx hy => ?_⟩
      have hvw : v.w = src.w := by rw [he]; rfl
      have hvh : v.h = src.h := by rw [he]; rfl
      rw [hvw, hvh, nnIndex_same x src.w hw, nnIndex_same y src.h hh]
      rw [he]
      exact asImg_at src x y (hvw ▸ hx) (hvh ▸ hy)
    · refine ⟨fun c => conv .rgba (storeSrc c), Or.inr rfl, fun x y hx hy => ?_⟩
      have := scaleG_view_at (!o) src v.w v.h x y hx hy
      rw [← he] at this
      exact this
  obtain ⟨seen, hseen, hat⟩ := key
  refine ⟨seen, hseen, ?_⟩
  intro e he
  obtain ⟨h1, h2, h3, _⟩ := VaxisModel.Lemmas.ImageTerm.blockCellsWith_mem _ fullCell v e he
  obtain ⟨hrow, _⟩ := VaxisModel.Lemmas.ImageTerm.blockHeight_rows v.h e.2.1 h2
  rw [VaxisModel.Lemmas.ImageFit.blockHeight_eq] at h2
  rw [full_block_bottom_shape] at h3
  refine ⟨h1, h2, ?_⟩
  intro T B
  have hT : toRGB (v.at e.1 (2 * e.2.1)) = T := by rw [hat _ _ h1 hrow]
  by_cases hbot : 2 * e.2.1 + 1 < v.h
  · have hl : lowerPx .topIfMissing v e.1 (2 * e.2.1) = v.at e.1 (2 * e.2.1 + 1) := by simp [lowerPx, hbot]
    have hB : toRGB (v.at e.1 (2 * e.2.1 + 1)) = B := by
      show _ = if 2 * e.2.1 + 1 < v.h then _ else _
      rw [if_pos hbot, hat _ _ h1 hbot]
    rw [h3, hl, fullCell_eq, hT, hB]
  · have hl : lowerPx .topIfMissing v e.1 (2 * e.2.1) = v.at e.1 (2 * e.2.1) := by simp [lowerPx, hbot]
    have hB : T = B := by
      show _ = if 2 * e.2.1 + 1 < v.h then _ else _
      rw [if_neg hbot]
    rw [h3, hl, fullCell_eq, hT, ← hB]

/-- For an opaque source of any type the full-block cell is exact too: a space whose background is the channel-wise
    mean of the 8-bit colours the two source pixels under it have where they are read (the upper one alone in a last
    odd row). -/
theorem full_pipeline_any_opaque_source (F : FloatOps) (src : ImgG) (o : Bool) (w h : Nat) (hw : 0 < src.w) (hh : 0 < src.h)
    (hop : ∀ x y, x < src.w → y < src.h → (src.pix x y).a = 0xffff ∧ (src.pix x y).r < 65536 ∧ (src.pix x y).g < 65536 ∧ (src.pix x y).b < 65536)
    (v : Img) (hr : resizeImgG F src o w h fullBlockGeom.1 fullBlockGeom.2 = .ok v) :
    ∃ shown : C16 → C8, (shown = toRGB ∨ shown = fun c => ⟨c.r / 256, c.g / 256, c.b / 256, 255⟩) ∧
      ∀ e ∈ fullCells v,
        let t := shown (src.pix (nnIndex e.1 src.w v.w) (nnIndex (2 * e.2.1) src.h v.h))
        let b := if 2 * e.2.1 + 1 < v.h then shown (src.pix (nnIndex e.1 src.w v.w) (nnIndex (2 * e.2.1 + 1) src.h v.h)) else t
        e.2.2 = ⟨0x20, 0, rgbColor ((b.r + t.r) / 2 % 256) ((b.g + t.g) / 2 % 256) ((b.b + t.b) / 2 % 256)⟩ := by
  obtain ⟨_, seen, hseen, hall⟩ := full_pipeline_any_source F src o w h hw hh v hr
  have h255 : ∀ c : C16, c.a = 0xffff → (toRGB c).a = 255 := by
    intro c ha
    have : c.a = 255 * 257 := by rw [ha]
    exact toRGB_alpha c 255 this (by decide)
  have key : ∃ shown : C16 → C8, (shown = toRGB ∨ shown = fun c => ⟨c.r / 256, c.g / 256, c.b / 256, 255⟩) ∧
      ∀ c : C16, c.a = 0xffff → c.r < 65536 → c.g < 65536 → c.b < 65536 → toRGB (seen c) = shown c ∧ (shown c).a = 255 := by
    rcases hseen with hs | hs
    · refine ⟨toRGB, Or.inl rfl, fun c ha _ _ _ => ?_⟩
      rw [hs]; exact ⟨rfl, h255 c ha⟩
    · refine ⟨fun c => ⟨c.r / 256, c.g / 256, c.b / 256, 255⟩, Or.inr rfl, fun c ha hr hg hb => ?_⟩
      rw [hs]
      have := generic_scaled_opaque_pixel c ha hr hg hb false
      simp only [Bool.false_eq_true, if_false] at this
      exact ⟨this, rfl⟩
  obtain ⟨shown, hshown, hsh⟩ := key
  refine ⟨shown, hshown, ?_⟩
  intro e he
  obtain ⟨h1, h2, h3⟩ := hall e he
  have hrow : 2 * e.2.1 < v.h := by
    unfold ceilDiv at h2; omega
  have hx := nnIndex_lt e.1 src.w v.w h1 hw
  have hy := nnIndex_lt (2 * e.2.1) src.h v.h hrow hh
  obtain ⟨a1, a2, a3, a4⟩ := hop _ _ hx hy
  obtain ⟨eT, aT⟩ := hsh _ a1 a2 a3 a4
  intro t b
  rw [h3]
  simp only [eT]
  by_cases hbot : 2 * e.2.1 + 1 < v.h
  · have hy' := nnIndex_lt (2 * e.2.1 + 1) src.h v.h hbot hh
    obtain ⟨b1, b2, b3, b4⟩ := hop _ _ hx hy'
    obtain ⟨eB, aB⟩ := hsh _ b1 b2 b3 b4
    simp only [if_pos hbot, eB]
    have n : ¬ ((shown (src.pix (nnIndex e.1 src.w v.w) (nnIndex (2 * e.2.1 + 1) src.h v.h))).a +
        (shown (src.pix (nnIndex e.1 src.w v.w) (nnIndex (2 * e.2.1) src.h v.h))).a) / 2 % 256 < 50 := by
      rw [aT, aB]; decide
    simp only [n, if_false]
    show _ = (⟨0x20, 0, rgbColor ((b.r + t.r) / 2 % 256) ((b.g + t.g) / 2 % 256) ((b.b + t.b) / 2 % 256)⟩ : BCell)
    have hb' : b = shown (src.pix (nnIndex e.1 src.w v.w) (nnIndex (2 * e.2.1 + 1) src.h v.h)) := by
      show (if 2 * e.2.1 + 1 < v.h then _ else _) = _
      rw [if_pos hbot]
    rw [hb']
  · simp only [if_neg hbot]
    have n : ¬ ((shown (src.pix (nnIndex e.1 src.w v.w) (nnIndex (2 * e.2.1) src.h v.h))).a +
        (shown (src.pix (nnIndex e.1 src.w v.w) (nnIndex (2 * e.2.1) src.h v.h))).a) / 2 % 256 < 50 := by
      rw [aT]; decide
    simp only [n, if_false]
    show _ = (⟨0x20, 0, rgbColor ((b.r + t.r) / 2 % 256) ((b.g + t.g) / 2 % 256) ((b.b + t.b) / 2 % 256)⟩ : BCell)
    have hb' : b = t := by
      show (if 2 * e.2.1 + 1 < v.h then _ else _) = _
      rw [if_neg hbot]
    rw [hb']

/-- Non-vacuity: `color.YCbCr` pixels (mid grey, saturated extremes that clamp) meet the opacity hypothesis. -/
example :
    let px := [C16.ofQuad (ycbcrRGBA 200 128 128), .ofQuad (ycbcrRGBA 255 255 255), .ofQuad (ycbcrRGBA 0 0 0), .ofQuad (ycbcrRGBA 16 255 0)]
    px.all (fun c => c.a == 0xffff && decide (c.r < 65536) && decide (c.g < 65536) && decide (c.b < 65536)) = true ∧
    C16.ofQuad (ycbcrRGBA 200 128 128) = ⟨51400, 51400, 51400, 0xffff⟩ := by decide

/-! ## One statement for the colours of a translucent cell -/

/-- A colour `T` the renderer computed stands for the stored pixel `p`: the alpha is the pixel's alpha byte, and — when
    the pixel is not fully transparent — each channel is at most the pixel's and short of it by at most `255/a + 1`
    levels (`(c − t)·a ≤ 255 + a`): at most 5 of 255 for a visible pixel (`a ≥ 50`), exact for an opaque one up to 2. -/
def StandsFor (p : P8) (T : C8) : Prop :=
  T.a = p.a ∧ (0 < p.a →
    (T.r ≤ p.r ∧ (p.r - T.r) * p.a ≤ 255 + p.a) ∧ (T.g ≤ p.g ∧ (p.g - T.g) * p.a ≤ 255 + p.a) ∧
    (T.b ≤ p.b ∧ (p.b - T.b) * p.a ≤ 255 + p.a))

/-- Every stored byte is a byte. -/
def Bytes (src : Img8) : Prop :=
  ∀ x y, x < src.w → y < src.h →
    (src.pix x y).r < 256 ∧ (src.pix x y).g < 256 ∧ (src.pix x y).b < 256 ∧ (src.pix x y).a < 256

/-- One channel of a scaled-and-read-back NRGBA pixel depends on that channel and the alpha only. -/
theorem scaled_channels (p : P8) :
    let q := toRGB (conv .rgba (storeSrc (load .nrgba p)))
    q.r = (scaledBack p.r p.a).1 ∧ q.g = (scaledBack p.g p.a).1 ∧ q.b = (scaledBack p.b p.a).1 ∧
    q.a = (scaledBack p.r p.a).2 := by
  simp only [scaledBack, storeSrc, load, conv, C16.ofQuad, rgbaRGBA, toRGB]
  by_cases h0 : u8 (p.a * 257 / 256) * 257 = 0
  · simp only [h0, if_true, and_self]
  · simp only [h0, if_false, and_self]

/-- Pixel `(x, y)` of what `resizeImage` returns for a straight-alpha source, as the renderer reads it, stands for the
    source pixel `(nnIndex x, nnIndex y)` — scaled (8-bit premultiplied storage: `translucent_scaled`) or not (`c` or
    `c − 1`: `translucent_within_one`). -/
theorem resized_stands_for (F : FloatOps) (src img : Img8) (w h cellW cellH : Nat)
    (hr : resizeImg F src w h cellW cellH = .ok img) (hk : src.kind = .nrgba) (hb : Bytes src)
    (hw : 0 < src.w) (hh : 0 < src.h) (x y : Nat) (hx : x < img.w) (hy : y < img.h) :
    StandsFor (src.pix (nnIndex x src.w img.w) (nnIndex y src.h img.h)) (toRGB (img.view.at x y)) := by
  have h1 := nnIndex_lt x src.w img.w hx hw
  have h2 := nnIndex_lt y src.h img.h hy hh
  obtain ⟨br, bg, bb, ba⟩ := hb _ _ h1 h2
  have hab : AlphaBytes src := fun x y hx hy => (hb x y hx hy).2.2.2
  refine ⟨resized_alpha F src img w h cellW cellH hr hab hw hh x y hx hy, fun ha0 => ?_⟩
  rcases (resizeImg_cases genCfg F src w h cellW cellH img hr).2 with he | he
  · -- not scaled: the pixel itself through `color.NRGBA.RGBA()` and `toRGB`
    have e1 : nnIndex x src.w img.w = x := by rw [he, nnIndex_same x src.w hw]
    have e2 : nnIndex y src.h img.h = y := by rw [he, nnIndex_same y src.h hh]
    rw [e1, e2] at br bg bb ba ha0 ⊢
    rw [he, view_at src x y (by rw [← he]; exact hx) (by rw [← he]; exact hy), hk]
    have := VaxisModel.Props.C20.translucent_within_one_nrgba _ _ _ _ br bg bb ba ha0
    simp only [conv] at this ⊢
    obtain ⟨⟨r1, r2⟩, ⟨g1, g2⟩, ⟨b1, b2⟩⟩ := this
    have hm : ∀ c t a : Nat, t ≤ c → c ≤ t + 1 → a < 256 → (c - t) * a ≤ 255 + a := by
      intro c t a h1 h2 _
      have : c - t ≤ 1 := by omega
      calc (c - t) * a ≤ 1 * a := Nat.mul_le_mul_right a this
        _ ≤ 255 + a := by omega
    exact ⟨⟨r1, hm _ _ _ r1 r2 ba⟩, ⟨g1, hm _ _ _ g1 g2 ba⟩, ⟨b1, hm _ _ _ b1 b2 ba⟩⟩
  · -- scaled: 8-bit premultiplied storage and back
    have hpix : img.pix x y = scaledPx (!src.opaque) src img.w img.h x y := by
      rw [he]; exact scale_pix _ src img.w img.h x y hx hy
    have hst : scaledPx (!src.opaque) src img.w img.h x y =
        storeSrc (load .nrgba (src.pix (nnIndex x src.w img.w) (nnIndex y src.h img.h))) := by
      unfold scaledPx
      rw [hk]
      cases (!src.opaque)
      · rfl
      · simp only [if_true, storeOver_zero]
    have hkind : img.kind = .rgba := by rw [he]; rfl
    rw [view_at img x y hx hy, hkind, hpix, hst]
    obtain ⟨cr, cg, cb, _⟩ := scaled_channels (src.pix (nnIndex x src.w img.w) (nnIndex y src.h img.h))
    rw [cr, cg, cb]
    have tr := translucent_scaled _ _ br ba ha0
    have tg := translucent_scaled _ _ bg ba ha0
    have tb := translucent_scaled _ _ bb ba ha0
    exact ⟨⟨tr.2.1, tr.2.2⟩, ⟨tg.2.1, tg.2.2⟩, ⟨tb.2.1, tb.2.2⟩⟩

/-- **The colours of every half-block cell, translucent pixels included, through the whole pipeline** (any stored
    `*image.NRGBA`, any float step, scaled or not): the cell at column `x`, row `y` is decided by the alpha bytes of the
    two source pixels `pt = (nnIndex x, nnIndex 2y)`, `pb = (nnIndex x, nnIndex (2y+1))` under it against 50 exactly as
    the property says, AND the colours it shows stand for those pixels: same alpha, each channel at most the pixel's and
    short of it by at most `255/a + 1` levels (`StandsFor`); in a last odd row the lower half is transparent (`B.a = 0`).
    This composes `half_pipeline_transparency` (decision) with `translucent_scaled` / `translucent_within_one` (channels). -/
theorem half_pipeline_translucent (F : FloatOps) (src : Img8) (w h : Nat) (hw : 0 < src.w) (hh : 0 < src.h)
    (hk : src.kind = .nrgba) (hb : Bytes src) (cs : List (Nat × Nat × BCell)) (hr : halfResize F src w h = .ok cs) :
    ∃ pw ph, resizeDims F src.w src.h w h halfBlockGeom.1 halfBlockGeom.2 = .ok (pw, ph) ∧
      ∀ e ∈ cs, e.1 < pw ∧ e.2.1 < ceilDiv ph 2 ∧
        ∃ T B : C8,
          StandsFor (src.pix (nnIndex e.1 src.w pw) (nnIndex (2 * e.2.1) src.h ph)) T ∧
          (if 2 * e.2.1 + 1 < ph then StandsFor (src.pix (nnIndex e.1 src.w pw) (nnIndex (2 * e.2.1 + 1) src.h ph)) B
           else B.a = 0) ∧
          e.2.2 = (if T.a < 50 ∧ B.a < 50 then ⟨0x20, 0, 0⟩
                   else if T.a < 50 then ⟨0x2584, rgbColor B.r B.g B.b, 0⟩
                   else if B.a < 50 then ⟨0x2580, rgbColor T.r T.g T.b, 0⟩
                   else ⟨0x2580, rgbColor T.r T.g T.b, rgbColor B.r B.g B.b⟩) := by
  unfold halfResize at hr
  cases hi : resizeImg F src w h halfBlockGeom.1 halfBlockGeom.2 with
  | error e => rw [hi] at hr; cases hr
  | ok img =>
    rw [hi] at hr
    simp only [bind, Except.bind, pure, Except.pure] at hr
    cases hr
    refine ⟨img.w, img.h, (resizeImg_cases genCfg F src w h _ _ img hi).1, ?_⟩
    intro e he
    obtain ⟨h1, h2, h3, _⟩ := VaxisModel.Lemmas.ImageTerm.blockCells_mem halfCell img.view e he
    rw [view_w] at h1
    rw [view_h] at h2
    obtain ⟨hrow, _⟩ := VaxisModel.Lemmas.ImageTerm.blockHeight_rows img.h e.2.1 h2
    rw [VaxisModel.Lemmas.ImageFit.blockHeight_eq] at h2
    refine ⟨h1, h2, toRGB (img.view.at e.1 (2 * e.2.1)), toRGB (img.view.at e.1 (2 * e.2.1 + 1)), ?_, ?_, ?_⟩
    · exact resized_stands_for F src img w h _ _ hi hk hb hw hh e.1 (2 * e.2.1) h1 hrow
    · by_cases hbot : 2 * e.2.1 + 1 < img.h
      · rw [if_pos hbot]
        exact resized_stands_for F src img w h _ _ hi hk hb hw hh e.1 (2 * e.2.1 + 1) h1 hbot
      · rw [if_neg hbot]
        have hz : img.view.at e.1 (2 * e.2.1 + 1) = ⟨0, 0, 0, 0⟩ := by
          have : ¬ (2 * e.2.1 + 1 < img.view.h) := hbot
          simp [Img.at, this]
        rw [hz]; decide
    · rw [h3, halfCell]
      exact VaxisModel.Props.C20.transparent_default _ _

/-- **The colours of every full-block cell, translucent pixels included, through the whole pipeline** (any stored
    `*image.NRGBA`, any float step, scaled or not): a space with default foreground whose background is the default
    colour exactly when the mean of the two alpha bytes is below 50 and otherwise the channel-wise mean of two colours
    `T`, `B` that stand for the two source pixels `(nnIndex x, nnIndex 2y)`, `(nnIndex x, nnIndex (2y+1))` under the
    cell (`StandsFor`: same alpha, each channel short by at most `255/a + 1` levels); in a last odd row `B = T`, the
    upper pixel alone (F220). -/
theorem full_pipeline_translucent (F : FloatOps) (src : Img8) (w h : Nat) (hw : 0 < src.w) (hh : 0 < src.h)
    (hk : src.kind = .nrgba) (hb : Bytes src) (cs : List (Nat × Nat × BCell)) (hr : fullResize F src w h = .ok cs) :
    ∃ pw ph, resizeDims F src.w src.h w h fullBlockGeom.1 fullBlockGeom.2 = .ok (pw, ph) ∧
      ∀ e ∈ cs, e.1 < pw ∧ e.2.1 < ceilDiv ph 2 ∧
        ∃ T B : C8,
          StandsFor (src.pix (nnIndex e.1 src.w pw) (nnIndex (2 * e.2.1) src.h ph)) T ∧
          (if 2 * e.2.1 + 1 < ph then StandsFor (src.pix (nnIndex e.1 src.w pw) (nnIndex (2 * e.2.1 + 1) src.h ph)) B
           else B = T) ∧
          e.2.2 = ⟨0x20, 0, if (B.a + T.a) / 2 % 256 < 50 then 0
                            else rgbColor ((B.r + T.r) / 2 % 256) ((B.g + T.g) / 2 % 256) ((B.b + T.b) / 2 % 256)⟩ := by
  unfold fullResize at hr
  cases hi : resizeImg F src w h fullBlockGeom.1 fullBlockGeom.2 with
  | error e => rw [hi] at hr; cases hr
  | ok img =>
    rw [hi] at hr
    simp only [bind, Except.bind, pure, Except.pure] at hr
    cases hr
    refine ⟨img.w, img.h, (resizeImg_cases genCfg F src w h _ _ img hi).1, ?_⟩
    intro e he
    obtain ⟨h1, h2, h3, _⟩ := VaxisModel.Lemmas.ImageTerm.blockCellsWith_mem _ fullCell img.view e he
    rw [view_w] at h1
    rw [view_h] at h2
    obtain ⟨hrow, _⟩ := VaxisModel.Lemmas.ImageTerm.blockHeight_rows img.h e.2.1 h2
    rw [VaxisModel.Lemmas.ImageFit.blockHeight_eq] at h2
    rw [full_block_bottom_shape] at h3
    refine ⟨h1, h2, ?_⟩
    by_cases hbot : 2 * e.2.1 + 1 < img.h
    · have hl : lowerPx .topIfMissing img.view e.1 (2 * e.2.1) = img.view.at e.1 (2 * e.2.1 + 1) := by
        have : 2 * e.2.1 + 1 < img.view.h := hbot
        simp [lowerPx, this]
      refine ⟨toRGB (img.view.at e.1 (2 * e.2.1)), toRGB (img.view.at e.1 (2 * e.2.1 + 1)),
        resized_stands_for F src img w h _ _ hi hk hb hw hh e.1 (2 * e.2.1) h1 hrow, ?_, ?_⟩
      · rw [if_pos hbot]
        exact resized_stands_for F src img w h _ _ hi hk hb hw hh e.1 (2 * e.2.1 + 1) h1 hbot
      · rw [h3, hl, fullCell_eq]
    · have hl : lowerPx .topIfMissing img.view e.1 (2 * e.2.1) = img.view.at e.1 (2 * e.2.1) := by
        have : ¬ 2 * e.2.1 + 1 < img.view.h := hbot
        simp [lowerPx, this]
      refine ⟨toRGB (img.view.at e.1 (2 * e.2.1)), toRGB (img.view.at e.1 (2 * e.2.1)),
        resized_stands_for F src img w h _ _ hi hk hb hw hh e.1 (2 * e.2.1) h1 hrow, ?_, ?_⟩
      · rw [if_neg hbot]
      · rw [h3, hl, fullCell_eq]

/-- Non-vacuity: a 2×4 translucent image squeezed into one cell. -/
example :
    let src : Img8 := ⟨.nrgba, 2, 4, #[⟨200, 100, 50, 128⟩, ⟨1, 2, 3, 60⟩, ⟨9, 9, 9, 10⟩, ⟨0, 0, 0, 0⟩,
                                       ⟨255, 255, 255, 255⟩, ⟨7, 7, 7, 49⟩, ⟨8, 8, 8, 50⟩, ⟨3, 3, 3, 200⟩]⟩
    Bytes src ∧ src.kind = .nrgba := by
  refine ⟨?_, rfl⟩
  intro x y hx hy
  have hx' : x < 2 := hx
  have hy' : y < 4 := hy
  have : x = 0 ∨ x = 1 := by omega
  have : y = 0 ∨ y = 1 ∨ y = 2 ∨ y = 3 := by omega
  rcases ‹x = 0 ∨ x = 1› with rfl | rfl <;> rcases ‹y = 0 ∨ y = 1 ∨ y = 2 ∨ y = 3› with rfl | rfl | rfl | rfl <;> decide

end VaxisModel.Props.C20Generic
