/-
C20, round 3: the nearest-neighbour scaler inside the model.  `Model/Scaler.lean` transcribes the index choice and
the pixel arithmetic of `draw.NearestNeighbor.Scale`'s fast paths for `*image.NRGBA` / `*image.RGBA` sources; here:
the index is always a source pixel that overlaps the destination pixel's area (no out-of-range read), `Over` onto the
fresh destination equals `Src`, opaque pixels survive bit-exactly — so the round-2 hypothesis `ScalerPicks` is a
theorem — and the whole path stored image → `resizeImage` → cell list is characterised for opaque images: every
half-block cell shows exactly the colours of two named source pixels that lie under it, every full-block cell their
channel-wise mean (the pixel's own colour in the last row of an odd height: F220 repaired).  Translucent pixels:
alpha exactly kept, channels within `255/a + 1` (kernel evaluation of all 255·256 pairs).
Property theorems only.
-/
import VaxisModel.Props.C20Ext
import VaxisModel.Lemmas.Scaler
import VaxisModel.Lemmas.ScalerBytes

namespace VaxisModel.Props.C20Pixels
open VaxisModel.Model.ImageFit VaxisModel.Model.Blocks VaxisModel.Model.Scaler VaxisModel.Spec.Images
open VaxisModel.Gen.ImageConsts VaxisModel.Lemmas.Scaler VaxisModel.Lemmas.ImageFit VaxisModel.Lemmas.ImageTerm
open VaxisModel.Props.C20Ext VaxisModel.Lemmas.ScalerBytes

/-! ## The index choice -/

/-- Source pixel `q` (one of `s`) overlaps the part of the source that destination pixel `d` (one of `dn`) covers:
    the intervals `[q, q+1)` and `(d·s/dn, (d+1)·s/dn)` intersect (cross-multiplied). -/
def Overlaps (d s dn q : Nat) : Prop := q * dn < (d + 1) * s ∧ d * s < (q + 1) * dn

/-- **The scaler reads inside the source, under the destination pixel.**  For every destination index `d < dn` and
    every source extent `s > 0`: the index `(2d+1)·s / (2·dn)` is `< s` (the fast paths index `Pix` without a bounds
    check: no out-of-range read, no panic) and the pixel it names overlaps the area `d` covers. -/
theorem nn_index_in_source (d s dn : Nat) (hd : d < dn) (hs : 0 < s) :
    nnIndex d s dn < s ∧ Overlaps d s dn (nnIndex d s dn) := by
  refine ⟨nnIndex_lt d s dn hd hs, ?_⟩
  have h := nnIndex_overlaps d s dn (by omega)
  have hs' : s ≠ 0 := by omega
  simp only [hs', if_false, Nat.add_zero] at h
  exact h

/-- Unscaled (`s` pixels to `s` pixels) the choice is the identity, and it is monotone: rows and columns are never
    reordered. -/
theorem nn_index_identity_monotone (s : Nat) (hs : 0 < s) :
    (∀ d, nnIndex d s s = d) ∧ ∀ d d' dn, d ≤ d' → nnIndex d s dn ≤ nnIndex d' s dn :=
  ⟨fun d => nnIndex_same d s hs, fun d d' dn h => nnIndex_mono d d' s dn h⟩

/-- `Scale` switches `draw.Over` to `draw.Src` when `opaque(src)`; on the all-zero destination `resizeImage`
    allocates the two paths store the same bytes for every source pixel, so the switch does not matter. -/
theorem over_on_fresh_is_src (src : Img8) (dw dh dx dy : Nat) :
    scaledPx true src dw dh dx dy = scaledPx false src dw dh dx dy := by
  simp only [scaledPx, if_true, Bool.false_eq_true, if_false]
  exact storeOver_zero _

/-! ## Opaque images: bit-exact -/

/-- Every stored pixel is opaque (`a = 0xff`; the channels are bytes). -/
def OpaqueSrc (src : Img8) : Prop := ∀ x y, x < src.w → y < src.h →
  (src.pix x y).a = 255 ∧ (src.pix x y).r < 256 ∧ (src.pix x y).g < 256 ∧ (src.pix x y).b < 256

/-- The direct colour `0x02RRGGBB` of a stored opaque pixel. -/
def shown (p : P8) : Nat := directColor p.r p.g p.b

/-- **Scaled opaque image, pixel by pixel**: destination pixel `(x, y)` holds exactly the bytes of source pixel
    `(nnIndex x, nnIndex y)` — for both source types, both compositing operators, every destination size. -/
theorem scaled_opaque_pixel (over : Bool) (src : Img8) (hop : OpaqueSrc src) (hw : 0 < src.w) (hh : 0 < src.h)
    (dw dh x y : Nat) (hx : x < dw) (hy : y < dh) :
    (scale over src dw dh).pix x y = src.pix (nnIndex x src.w dw) (nnIndex y src.h dh) := by
  rw [scale_pix over src dw dh x y hx hy]
  obtain ⟨ha, hr, hg, hb⟩ := hop _ _ (nnIndex_lt x src.w dw hx hw) (nnIndex_lt y src.h dh hy hh)
  cases over
  · simp only [scaledPx, Bool.false_eq_true, if_false]
    exact roundtrip_opaque _ _ ha hr hg hb
  · simp only [scaledPx, if_true, storeOver_zero]
    exact roundtrip_opaque _ _ ha hr hg hb

/-- What the block renderers read from an opaque stored pixel. -/
theorem view_opaque (img : Img8) (x y : Nat) (hx : x < img.w) (hy : y < img.h) (ha : (img.pix x y).a = 255) :
    img.view.at x y = .ofQuad (nrgbaRGBA (img.pix x y).r (img.pix x y).g (img.pix x y).b 255) := by
  rw [view_at img x y hx hy, conv_opaque _ _ ha]

/-- **`ScalerPicks` is a theorem** for opaque sources: the round-2 hypothesis on the scaler holds of the model of
    the scaler (so `C20Ext.resized_opaque_half` applies without hypothesis). -/
theorem scaler_picks_opaque (over : Bool) (src : Img8) (hop : OpaqueSrc src) (hw : 0 < src.w) (hh : 0 < src.h)
    (pw ph : Nat) : ScalerPicks src.view (scale over src pw ph).view pw ph := by
  refine ⟨rfl, rfl, ?_⟩
  intro x y hx hy
  have h1 := nnIndex_lt x src.w pw hx hw
  have h2 := nnIndex_lt y src.h ph hy hh
  refine ⟨nnIndex x src.w pw, nnIndex y src.h ph, h1, h2, ?_⟩
  have hp := scaled_opaque_pixel over src hop hw hh pw ph x y hx hy
  have ha := (hop _ _ h1 h2).1
  rw [view_opaque (scale over src pw ph) x y hx hy (by rw [hp]; exact ha), hp, view_opaque src _ _ h1 h2 ha]

/-- The pixel of the image `resizeImage` returns, whichever branch it took. -/
theorem resized_opaque_at (F : FloatOps) (src img : Img8) (w h cellW cellH : Nat)
    (hr : resizeImg F src w h cellW cellH = .ok img) (hop : OpaqueSrc src) (hw : 0 < src.w) (hh : 0 < src.h)
    (x y : Nat) (hx : x < img.w) (hy : y < img.h) :
    let p := src.pix (nnIndex x src.w img.w) (nnIndex y src.h img.h)
    img.view.at x y = .ofQuad (nrgbaRGBA p.r p.g p.b 255) ∧ p.r < 256 ∧ p.g < 256 ∧ p.b < 256 := by
  intro p
  have h1 := nnIndex_lt x src.w img.w hx hw
  have h2 := nnIndex_lt y src.h img.h hy hh
  obtain ⟨ha, hpr, hpg, hpb⟩ := hop _ _ h1 h2
  refine ⟨?_, hpr, hpg, hpb⟩
  rcases (resizeImg_cases genCfg F src w h cellW cellH img hr).2 with he | he
  · have hp : p = src.pix x y := by
      show src.pix (nnIndex x src.w img.w) (nnIndex y src.h img.h) = _
      rw [he, nnIndex_same x src.w hw, nnIndex_same y src.h hh]
    have ha' : (src.pix x y).a = 255 := by rw [← hp]; exact ha
    rw [hp, he]
    exact view_opaque src x y (by rw [← he]; exact hx) (by rw [← he]; exact hy) ha'
  · have hp := scaled_opaque_pixel (!src.opaque) src hop hw hh img.w img.h x y hx hy
    rw [he]
    rw [view_opaque (scale (!src.opaque) src img.w img.h) x y hx hy (by rw [hp]; exact ha), hp]

/-- **Half-block rendering of an opaque image, the whole pipeline** (`HalfBlockImage.Resize(w, h)` on the stored
    image: fit test, float steps `F` — any —, nearest-neighbour scaling, pixel pairs → cells).  The pixel size is what
    `resizeDims` says; there are `pw·⌈ph/2⌉` cells; the cell at column `x`, row `y` is the upper half block `▀` whose
    foreground is *exactly* the colour of the source pixel `(nnIndex x, nnIndex (2y))` and whose background is
    exactly the colour of `(nnIndex x, nnIndex (2y+1))` — both inside the source and under the cell's area — or the
    default colour in the last row of an odd pixel height, where the cell covers no lower pixel. -/
theorem half_pipeline_opaque (F : FloatOps) (src : Img8) (w h : Nat) (hw : 0 < src.w) (hh : 0 < src.h)
    (hop : OpaqueSrc src) (cs : List (Nat × Nat × BCell)) (hr : halfResize F src w h = .ok cs) :
    ∃ pw ph, resizeDims F src.w src.h w h halfBlockGeom.1 halfBlockGeom.2 = .ok (pw, ph) ∧
      cs.length = ceilDiv ph 2 * pw ∧
      ∀ e ∈ cs, e.1 < pw ∧ e.2.1 < ceilDiv ph 2 ∧
        let sx := nnIndex e.1 src.w pw
        let st := nnIndex (2 * e.2.1) src.h ph
        let sb := nnIndex (2 * e.2.1 + 1) src.h ph
        sx < src.w ∧ Overlaps e.1 src.w pw sx ∧ st < src.h ∧ Overlaps (2 * e.2.1) src.h ph st ∧
        e.2.2.glyph = 0x2580 ∧ e.2.2.fg = shown (src.pix sx st) ∧
        ((2 * e.2.1 + 1 < ph ∧ sb < src.h ∧ Overlaps (2 * e.2.1 + 1) src.h ph sb ∧ e.2.2.bg = shown (src.pix sx sb)) ∨
         (¬ 2 * e.2.1 + 1 < ph ∧ e.2.2.bg = 0)) := by
  unfold halfResize at hr
  cases hi : resizeImg F src w h halfBlockGeom.1 halfBlockGeom.2 with
  | error e => rw [hi] at hr; cases hr
  | ok img =>
    rw [hi] at hr
    simp only [bind, Except.bind, pure, Except.pure] at hr
    cases hr
    refine ⟨img.w, img.h, (resizeImg_cases genCfg F src w h _ _ img hi).1, ?_, ?_⟩
    · rw [← blockHeight_eq]; exact blockCells_length halfCell img.view
    intro e he
    obtain ⟨h1, h2, h3, _⟩ := blockCells_mem halfCell img.view e he
    rw [view_w] at h1
    rw [view_h] at h2
    obtain ⟨hrow, hlow⟩ := blockHeight_rows img.h e.2.1 h2
    rw [blockHeight_eq] at h2
    refine ⟨h1, h2, ?_⟩
    intro sx st sb
    obtain ⟨hsx, hox⟩ := nn_index_in_source e.1 src.w img.w h1 hw
    obtain ⟨hst, hot⟩ := nn_index_in_source (2 * e.2.1) src.h img.h hrow hh
    obtain ⟨htop, tr, tg, tb⟩ := resized_opaque_at F src img w h _ _ hi hop hw hh e.1 (2 * e.2.1) h1 hrow
    refine ⟨hsx, hox, hst, hot, ?_⟩
    by_cases hbot : 2 * e.2.1 + 1 < img.h
    · obtain ⟨hsb, hob⟩ := nn_index_in_source (2 * e.2.1 + 1) src.h img.h hbot hh
      obtain ⟨hb, br, bg, bb⟩ := resized_opaque_at F src img w h _ _ hi hop hw hh e.1 (2 * e.2.1 + 1) h1 hbot
      have hc : e.2.2 = ⟨0x2580, shown (src.pix sx st), shown (src.pix sx sb)⟩ := by
        rw [h3, htop, hb]
        exact C20.opaque_exact_half _ _ _ _ _ _ tr tg tb br bg bb
      rw [hc]
      exact ⟨rfl, rfl, Or.inl ⟨hbot, hsb, hob, rfl⟩⟩
    · have hz : img.view.at e.1 (2 * e.2.1 + 1) = ⟨0, 0, 0, 0⟩ := by
        have : ¬ (2 * e.2.1 + 1 < img.view.h) := hbot
        simp [Img.at, this]
      have hc : e.2.2 = ⟨0x2580, shown (src.pix sx st), 0⟩ := by
        rw [h3, htop, hz]
        rw [halfCell, C20.opaque_exact_nrgba _ _ _ tr tg tb, C20.transparent_default]
        have hz' : toRGB ⟨0, 0, 0, 0⟩ = ⟨0, 0, 0, 0⟩ := by decide
        rw [hz']
        simp [rgbColor_eq, tr, tg, tb, shown]
        rfl
      rw [hc]
      exact ⟨rfl, rfl, Or.inr ⟨hbot, rfl⟩⟩

/-- The source regenerated says: the lower pixel of a full-block cell is the upper one again when the image has no
    such row (F220 repaired). -/
theorem full_block_bottom_shape : fullBlockBottom = .topIfMissing := by decide

/-- **F320 repaired**: `HalfBlockImage.Resize` as regenerated reads the lower pixel only when the image has that row and
    leaves it transparent otherwise — so the renderer never calls `At` outside the image's bounds (where `image.Gray`
    answers opaque black, `image.Paletted` its first palette entry, `image.YCbCr` a dark green) — and on this model's
    images, whose `at` is the zero colour outside, the cell list is the `halfCells` of the theorems above and below. -/
theorem half_block_bottom_shape :
    halfBlockBottom = .zeroIfMissing ∧ ∀ img, halfCellsGen img = halfCells img := by
  have h : halfBlockBottom = .zeroIfMissing := by decide
  refine ⟨h, fun img => ?_⟩
  unfold halfCellsGen halfCells blockCells blockCellsWith
  rw [h]
  apply List.map_congr_left
  intro i _
  have : lowerPx .zeroIfMissing img (i - i / img.w * img.w) (2 * (i / img.w)) = lowerPx .read img (i - i / img.w * img.w) (2 * (i / img.w)) := by
    show (if 2 * (i / img.w) + 1 < img.h then img.at (i - i / img.w * img.w) (2 * (i / img.w) + 1) else (⟨0, 0, 0, 0⟩ : C16)) =
      img.at (i - i / img.w * img.w) (2 * (i / img.w) + 1)
    split
    · rfl
    · rename_i hlt
      unfold Img.at
      rw [if_neg (fun hh => hlt hh.2)]
  simp only [this]

/-- **Full-block rendering of an opaque image, the whole pipeline**: the cell at column `x`, row `y` is a space whose
    background is exactly the channel-wise mean of the two source pixels `(nnIndex x, nnIndex (2y))` and
    `(nnIndex x, nnIndex (2y+1))`; in the last row of an odd pixel height, where the cell covers one pixel, exactly
    that pixel's colour. -/
theorem full_pipeline_opaque (F : FloatOps) (src : Img8) (w h : Nat) (hw : 0 < src.w) (hh : 0 < src.h)
    (hop : OpaqueSrc src) (cs : List (Nat × Nat × BCell)) (hr : fullResize F src w h = .ok cs) :
    ∃ pw ph, resizeDims F src.w src.h w h fullBlockGeom.1 fullBlockGeom.2 = .ok (pw, ph) ∧
      cs.length = ceilDiv ph 2 * pw ∧
      ∀ e ∈ cs, e.1 < pw ∧ e.2.1 < ceilDiv ph 2 ∧
        let t := src.pix (nnIndex e.1 src.w pw) (nnIndex (2 * e.2.1) src.h ph)
        let b := src.pix (nnIndex e.1 src.w pw) (nnIndex (2 * e.2.1 + 1) src.h ph)
        e.2.2.glyph = 0x20 ∧ e.2.2.fg = 0 ∧
        ((2 * e.2.1 + 1 < ph ∧ e.2.2.bg = directColor ((b.r + t.r) / 2) ((b.g + t.g) / 2) ((b.b + t.b) / 2)) ∨
         (¬ 2 * e.2.1 + 1 < ph ∧ e.2.2.bg = shown t)) := by
  unfold fullResize at hr
  cases hi : resizeImg F src w h fullBlockGeom.1 fullBlockGeom.2 with
  | error e => rw [hi] at hr; cases hr
  | ok img =>
    rw [hi] at hr
    simp only [bind, Except.bind, pure, Except.pure] at hr
    cases hr
    refine ⟨img.w, img.h, (resizeImg_cases genCfg F src w h _ _ img hi).1, ?_, ?_⟩
    · rw [← blockHeight_eq]; exact blockCellsWith_length _ fullCell img.view
    intro e he
    obtain ⟨h1, h2, h3, _⟩ := blockCellsWith_mem _ fullCell img.view e he
    rw [view_w] at h1
    rw [view_h] at h2
    obtain ⟨hrow, _⟩ := blockHeight_rows img.h e.2.1 h2
    rw [blockHeight_eq] at h2
    refine ⟨h1, h2, ?_⟩
    intro t b
    obtain ⟨htop, tr, tg, tb⟩ := resized_opaque_at F src img w h _ _ hi hop hw hh e.1 (2 * e.2.1) h1 hrow
    rw [full_block_bottom_shape] at h3
    by_cases hbot : 2 * e.2.1 + 1 < img.h
    · obtain ⟨hb, br, bg, bb⟩ := resized_opaque_at F src img w h _ _ hi hop hw hh e.1 (2 * e.2.1 + 1) h1 hbot
      have hl : lowerPx .topIfMissing img.view e.1 (2 * e.2.1) = img.view.at e.1 (2 * e.2.1 + 1) := by
        have : 2 * e.2.1 + 1 < img.view.h := hbot
        simp [lowerPx, this]
      rw [hl, htop, hb, C20.opaque_exact_full _ _ _ _ _ _ tr tg tb br bg bb] at h3
      rw [h3]
      exact ⟨rfl, rfl, Or.inl ⟨hbot, rfl⟩⟩
    · have hl : lowerPx .topIfMissing img.view e.1 (2 * e.2.1) = img.view.at e.1 (2 * e.2.1) := by
        have : ¬ 2 * e.2.1 + 1 < img.view.h := hbot
        simp [lowerPx, this]
      rw [hl, htop, C20.opaque_exact_full_same _ _ _ tr tg tb] at h3
      rw [h3]
      exact ⟨rfl, rfl, Or.inr ⟨hbot, rfl⟩⟩

/-- Non-vacuity: a 2×4 opaque `*image.NRGBA` squeezed into 1×1 cells (exact float steps) becomes 0×… no: 1×2 px,
    one cell `▀` with the colours of source pixels (1,1) and (1,3). -/
example :
    (match halfResize exactOps ⟨.nrgba, 2, 4, #[⟨1,1,1,255⟩, ⟨2,2,2,255⟩, ⟨3,3,3,255⟩, ⟨4,4,4,255⟩, ⟨5,5,5,255⟩, ⟨6,6,6,255⟩,
      ⟨7,7,7,255⟩, ⟨8,8,8,255⟩]⟩ 1 1 with
     | .ok cs => decide (cs = [(0, 0, ⟨0x2580, directColor 4 4 4, directColor 8 8 8⟩)])
     | .error _ => false) = true := by decide +kernel

/-! ## Every image: the alpha tested by the renderer is the source pixel's, through the whole pipeline -/

/-- The alpha bytes of the stored image are bytes. -/
def AlphaBytes (src : Img8) : Prop := ∀ x y, x < src.w → y < src.h → (src.pix x y).a < 256

/-- The 8-bit alpha `toRGB` returns for pixel `(x, y)` of the image `resizeImage` returns is exactly the alpha byte
    of the source pixel `(nnIndex x, nnIndex y)` — both source types, scaled or not, every alpha level. -/
theorem resized_alpha (F : FloatOps) (src img : Img8) (w h cellW cellH : Nat)
    (hr : resizeImg F src w h cellW cellH = .ok img) (hb : AlphaBytes src) (hw : 0 < src.w) (hh : 0 < src.h)
    (x y : Nat) (hx : x < img.w) (hy : y < img.h) :
    (toRGB (img.view.at x y)).a = (src.pix (nnIndex x src.w img.w) (nnIndex y src.h img.h)).a := by
  have h1 := nnIndex_lt x src.w img.w hx hw
  have h2 := nnIndex_lt y src.h img.h hy hh
  have ha := hb _ _ h1 h2
  rcases (resizeImg_cases genCfg F src w h cellW cellH img hr).2 with he | he
  · have e1 : nnIndex x src.w img.w = x := by rw [he, nnIndex_same x src.w hw]
    have e2 : nnIndex y src.h img.h = y := by rw [he, nnIndex_same y src.h hh]
    rw [e1, e2] at ha ⊢
    rw [he, view_at src x y (by rw [← he]; exact hx) (by rw [← he]; exact hy)]
    exact toRGB_alpha _ _ (conv_alpha _ _) ha
  · have hsa := scaledPx_alpha (!src.opaque) src img.w img.h x y ha
    have hpix : img.pix x y = scaledPx (!src.opaque) src img.w img.h x y := by
      have hp := scale_pix (!src.opaque) src img.w img.h x y hx hy
      rw [← he] at hp
      exact hp
    rw [view_at img x y hx hy, hpix, ← hsa]
    rw [← hsa] at ha
    exact toRGB_alpha _ _ (conv_alpha _ _) ha

/-- **Transparency through the whole pipeline, every image** (`HalfBlockImage.Resize` on any stored `*image.NRGBA` /
    `*image.RGBA`, any float step, scaled or not): the cell at column `x`, row `y` is decided by the alpha bytes `ta`,
    `ba` of the two source pixels `(nnIndex x, nnIndex (2y))`, `(nnIndex x, nnIndex (2y+1))` (`ba = 0` in a last odd row)
    against the threshold 50, exactly as the property says: both below ⇒ the default cell (space, default colours);
    only the top below ⇒ `▄` coloured by the bottom pixel on the default background; only the bottom below ⇒ `▀`
    coloured by the top pixel on the default background; neither ⇒ `▀` with both colours (`T`, `B` = what `toRGB`
    returns for the two pixels; for opaque pixels exactly their colours: `half_pipeline_opaque`; for translucent ones
    within `translucent_scaled`). -/
theorem half_pipeline_transparency (F : FloatOps) (src : Img8) (w h : Nat) (hw : 0 < src.w) (hh : 0 < src.h)
    (hb : AlphaBytes src) (cs : List (Nat × Nat × BCell)) (hr : halfResize F src w h = .ok cs) :
    ∃ pw ph, resizeDims F src.w src.h w h halfBlockGeom.1 halfBlockGeom.2 = .ok (pw, ph) ∧
      ∀ e ∈ cs, e.1 < pw ∧ e.2.1 < ceilDiv ph 2 ∧
        ∃ T B : C8,
          T.a = (src.pix (nnIndex e.1 src.w pw) (nnIndex (2 * e.2.1) src.h ph)).a ∧
          B.a = (if 2 * e.2.1 + 1 < ph then (src.pix (nnIndex e.1 src.w pw) (nnIndex (2 * e.2.1 + 1) src.h ph)).a else 0) ∧
          e.2.2 = (if T.a < 50 ∧ B.a < 50 then ⟨0x20, 0, 0⟩
                   else if T.a < 50 then ⟨0x2584, rgbColor B.r B.g B.b, 0⟩
                   else if B.a < 50 then ⟨0x2580, rgbColor T.r T.g T.b, 0⟩
                   else ⟨0x2580, rgbColor T.r T.g T.b, rgbColor B.r B.g B.b⟩) := by
  unfold halfResize at hr
  cases hi : resizeImg F src w h halfBlockGeom.1 halfBlockGeom.2 with
  | error e => rw [hi] at hr; cases hr
  | ok img =>
    rw [hi] at hr
    simp only [bind, Except.bind, pure, Except.pure] at hr
    cases hr
    refine ⟨img.w, img.h, (resizeImg_cases genCfg F src w h _ _ img hi).1, ?_⟩
    intro e he
    obtain ⟨h1, h2, h3, _⟩ := blockCells_mem halfCell img.view e he
    rw [view_w] at h1
    rw [view_h] at h2
    obtain ⟨hrow, _⟩ := blockHeight_rows img.h e.2.1 h2
    rw [blockHeight_eq] at h2
    refine ⟨h1, h2, toRGB (img.view.at e.1 (2 * e.2.1)), toRGB (img.view.at e.1 (2 * e.2.1 + 1)), ?_, ?_, ?_⟩
    · exact resized_alpha F src img w h _ _ hi hb hw hh e.1 (2 * e.2.1) h1 hrow
    · by_cases hbot : 2 * e.2.1 + 1 < img.h
      · rw [if_pos hbot]
        exact resized_alpha F src img w h _ _ hi hb hw hh e.1 (2 * e.2.1 + 1) h1 hbot
      · rw [if_neg hbot]
        have hz : img.view.at e.1 (2 * e.2.1 + 1) = ⟨0, 0, 0, 0⟩ := by
          have : ¬ (2 * e.2.1 + 1 < img.view.h) := hbot
          simp [Img.at, this]
        rw [hz]; decide
    · rw [h3, halfCell]
      exact C20.transparent_default _ _

/-- `averageColor top [bot]`'s alpha is the mean of the two 8-bit alphas. -/
theorem average_alpha (top bot : C16) (ht : (toRGB top).a < 256) (hb : (toRGB bot).a < 256) :
    (averageColor top [bot]).a = ((toRGB bot).a + (toRGB top).a) / 2 := by
  simp only [averageColor, List.cons_append, List.nil_append, List.map_cons, List.map_nil, List.sum_cons, List.sum_nil,
    List.length_cons, List.length_nil, Nat.add_zero, u8]
  omega

/-- **Transparency through the whole pipeline, full blocks, every image**: the cell at column `x`, row `y` is a space
    with default foreground whose background is the default colour exactly when the mean of the alpha bytes of the two
    source pixels `(nnIndex x, nnIndex (2y))`, `(nnIndex x, nnIndex (2y+1))` is below 50 — in a last odd row the upper
    pixel's alpha alone (F220) — and otherwise the mean colour `averageColor` computes for the two pixels. -/
theorem full_pipeline_transparency (F : FloatOps) (src : Img8) (w h : Nat) (hw : 0 < src.w) (hh : 0 < src.h)
    (hb : AlphaBytes src) (cs : List (Nat × Nat × BCell)) (hr : fullResize F src w h = .ok cs) :
    ∃ pw ph, resizeDims F src.w src.h w h fullBlockGeom.1 fullBlockGeom.2 = .ok (pw, ph) ∧
      ∀ e ∈ cs, e.1 < pw ∧ e.2.1 < ceilDiv ph 2 ∧ e.2.2.glyph = 0x20 ∧ e.2.2.fg = 0 ∧
        let ta := (src.pix (nnIndex e.1 src.w pw) (nnIndex (2 * e.2.1) src.h ph)).a
        let ba := if 2 * e.2.1 + 1 < ph then (src.pix (nnIndex e.1 src.w pw) (nnIndex (2 * e.2.1 + 1) src.h ph)).a else ta
        ((ba + ta) / 2 < 50 → e.2.2.bg = 0) ∧
        (¬ (ba + ta) / 2 < 50 → ∃ c : C8, e.2.2.bg = rgbColor c.r c.g c.b) := by
  unfold fullResize at hr
  cases hi : resizeImg F src w h fullBlockGeom.1 fullBlockGeom.2 with
  | error e => rw [hi] at hr; cases hr
  | ok img =>
    rw [hi] at hr
    simp only [bind, Except.bind, pure, Except.pure] at hr
    cases hr
    refine ⟨img.w, img.h, (resizeImg_cases genCfg F src w h _ _ img hi).1, ?_⟩
    intro e he
    obtain ⟨h1, h2, h3, _⟩ := blockCellsWith_mem _ fullCell img.view e he
    rw [view_w] at h1
    rw [view_h] at h2
    obtain ⟨hrow, _⟩ := blockHeight_rows img.h e.2.1 h2
    rw [blockHeight_eq] at h2
    rw [full_block_bottom_shape] at h3
    have hta := resized_alpha F src img w h _ _ hi hb hw hh e.1 (2 * e.2.1) h1 hrow
    have htb : (src.pix (nnIndex e.1 src.w img.w) (nnIndex (2 * e.2.1) src.h img.h)).a < 256 :=
      hb _ _ (nnIndex_lt e.1 src.w img.w h1 hw) (nnIndex_lt (2 * e.2.1) src.h img.h hrow hh)
    refine ⟨h1, h2, by rw [h3]; rfl, by rw [h3]; rfl, ?_⟩
    intro ta ba
    -- the lower pixel the cell reads, and its alpha
    have key : ∃ low : C16, lowerPx .topIfMissing img.view e.1 (2 * e.2.1) = low ∧ (toRGB low).a = ba ∧ ba < 256 := by
      by_cases hbot : 2 * e.2.1 + 1 < img.h
      · have hl : lowerPx .topIfMissing img.view e.1 (2 * e.2.1) = img.view.at e.1 (2 * e.2.1 + 1) := by
          have : 2 * e.2.1 + 1 < img.view.h := hbot
          simp [lowerPx, this]
        refine ⟨_, hl, ?_, ?_⟩
        · show _ = if 2 * e.2.1 + 1 < img.h then _ else _
          rw [if_pos hbot]
          exact resized_alpha F src img w h _ _ hi hb hw hh e.1 (2 * e.2.1 + 1) h1 hbot
        · show (if 2 * e.2.1 + 1 < img.h then _ else _) < 256
          rw [if_pos hbot]
          exact hb _ _ (nnIndex_lt e.1 src.w img.w h1 hw) (nnIndex_lt (2 * e.2.1 + 1) src.h img.h hbot hh)
      · have hl : lowerPx .topIfMissing img.view e.1 (2 * e.2.1) = img.view.at e.1 (2 * e.2.1) := by
          have : ¬ 2 * e.2.1 + 1 < img.view.h := hbot
          simp [lowerPx, this]
        refine ⟨_, hl, ?_, ?_⟩
        · show _ = if 2 * e.2.1 + 1 < img.h then _ else _
          rw [if_neg hbot]; exact hta
        · show (if 2 * e.2.1 + 1 < img.h then _ else _) < 256
          rw [if_neg hbot]; exact htb
    obtain ⟨low, hlow, hla, hlb⟩ := key
    rw [hlow] at h3
    have hmean := average_alpha (img.view.at e.1 (2 * e.2.1)) low (by rw [hta]; exact htb) (by rw [hla]; exact hlb)
    rw [hla, hta] at hmean
    have hfc := C20.transparent_default_full (img.view.at e.1 (2 * e.2.1)) low
    rw [hmean] at hfc
    constructor
    · intro hlt
      rw [h3]
      show fullColor _ _ = 0
      rw [hfc, if_pos hlt]
    · intro hge
      refine ⟨averageColor (img.view.at e.1 (2 * e.2.1)) [low], ?_⟩
      rw [h3]
      show fullColor _ _ = _
      rw [hfc, if_neg hge]

/-! ## The `Copy` shortcut of `Scale` is unreachable from `resizeImage` -/

/-- `Scale` delegates to `Copy` when source and destination have the same size (not modelled).  `resizeImage` scales
    only after the fit test failed, and then — for every float step meeting `Sound` — **both** pixel dimensions
    shrink strictly, so the sizes differ and the modelled fast paths are the ones that run. -/
theorem scale_shrinks (F : FloatOps) (hF : Sound F) (wPix hPix w h cellW cellH pw ph : Nat)
    (hw : 0 < wPix) (hh : 0 < hPix) (hcw : 0 < cellW) (hch : 0 < cellH)
    (hr : resizeDims F wPix hPix w h cellW cellH = .ok (pw, ph)) :
    (ceilDiv wPix cellW ≤ w ∧ ceilDiv hPix cellH ≤ h ∧ pw = wPix ∧ ph = hPix) ∨
    (¬ (ceilDiv wPix cellW ≤ w ∧ ceilDiv hPix cellH ≤ h) ∧ pw < wPix ∧ ph < hPix) := by
  unfold resizeDims at hr
  rw [C20.source_shape] at hr
  obtain ⟨hc, hl, _, _, hcase⟩ := std_cases F hF wPix hPix w h cellW cellH pw ph hw hh hcw hch hr
  rw [← upDiv_eq_ceilDiv _ _ hcw, ← upDiv_eq_ceilDiv _ _ hch]
  rcases hcase with ⟨h1, h2, e1, e2⟩ | ⟨hn, hlt, hpw, _, hph, _⟩ | ⟨hn, hle, hpw, _, hph, _⟩
  · exact Or.inl ⟨h1, h2, e1, e2⟩
  · -- scaled by h/lines: h < lines
    have hhl : h < upDiv hPix cellH := by
      apply Nat.lt_of_not_le
      intro hle
      have hcw' : w < upDiv wPix cellW := by
        apply Nat.lt_of_not_le
        intro h'
        exact hn ⟨h', hle⟩
      have a1 : upDiv hPix cellH * upDiv wPix cellW ≤ h * upDiv wPix cellW := Nat.mul_le_mul_right _ hle
      have a2 : w * upDiv hPix cellH < upDiv wPix cellW * upDiv hPix cellH := Nat.mul_lt_mul_of_pos_right hcw' hl
      rw [Nat.mul_comm (upDiv wPix cellW)] at a2
      omega
    refine Or.inr ⟨hn, ?_, ?_⟩
    · have : pw * upDiv hPix cellH < wPix * upDiv hPix cellH :=
        Nat.lt_of_le_of_lt hpw (by rw [Nat.mul_comm wPix]; exact Nat.mul_lt_mul_of_pos_right hhl hw)
      exact Nat.lt_of_mul_lt_mul_right this
    · have : ph * upDiv hPix cellH < hPix * upDiv hPix cellH :=
        Nat.lt_of_le_of_lt hph (by rw [Nat.mul_comm hPix]; exact Nat.mul_lt_mul_of_pos_right hhl hh)
      exact Nat.lt_of_mul_lt_mul_right this
  · have hwc : w < upDiv wPix cellW := by
      apply Nat.lt_of_not_le
      intro hle'
      have hlh : h < upDiv hPix cellH := by
        apply Nat.lt_of_not_le
        intro h'
        exact hn ⟨hle', h'⟩
      have a1 : upDiv wPix cellW * upDiv hPix cellH ≤ w * upDiv hPix cellH := Nat.mul_le_mul_right _ hle'
      have a2 : h * upDiv wPix cellW < upDiv hPix cellH * upDiv wPix cellW := Nat.mul_lt_mul_of_pos_right hlh hc
      rw [Nat.mul_comm (upDiv hPix cellH)] at a2
      omega
    refine Or.inr ⟨hn, ?_, ?_⟩
    · have : pw * upDiv wPix cellW < wPix * upDiv wPix cellW :=
        Nat.lt_of_le_of_lt hpw (by rw [Nat.mul_comm wPix]; exact Nat.mul_lt_mul_of_pos_right hwc hw)
      exact Nat.lt_of_mul_lt_mul_right this
    · have : ph * upDiv wPix cellW < hPix * upDiv wPix cellW :=
        Nat.lt_of_le_of_lt hph (by rw [Nat.mul_comm hPix]; exact Nat.mul_lt_mul_of_pos_right hwc hh)
      exact Nat.lt_of_mul_lt_mul_right this

/-! ## Translucent pixels -/

/-- **Translucent pixels through the scaler**: the alpha level is kept exactly (so the transparency threshold sees
    the source alpha), a channel never grows and loses at most `255/a + 1` — for alpha ≥ 50 (a visible pixel) at most
    5 of 255; for every 8-bit (channel, alpha) pair, by kernel evaluation. -/
theorem translucent_scaled (c a : Nat) (hc : c < 256) (ha : a < 256) (ha0 : 0 < a) :
    (scaledBack c a).2 = a ∧ (scaledBack c a).1 ≤ c ∧ (c - (scaledBack c a).1) * a ≤ 255 + a := by
  have h : translucentScaledAll = true := translucentScaledAll_true
  have h1 := (List.all_eq_true.mp h) a (List.mem_range.mpr ha)
  have h2 := (List.all_eq_true.mp h1) c (List.mem_range.mpr hc)
  have ha' : (a == 0) = false := by simp; omega
  rw [scaledBack_eq]
  simp only [ha', Bool.false_or, okPair, Bool.and_eq_true, beq_iff_eq, decide_eq_true_eq] at h2
  exact ⟨h2.1.1, h2.1.2, h2.2⟩

end VaxisModel.Props.C20Pixels
