/-
C20, round 4: the kitty upload code and the block `Draw` loops interpreted from the regenerated statement forms
(`*_body_eq_model`), the placement stretch of `render` interpreted in SOURCE ORDER, and the refinement

    for every application history: the terminal's placement table = what the last frame drew

against an order-sensitive model of the terminal's side of the kitty graphics protocol (`Model/KittyTerm.lean`).
Only theorems and examples.
-/
import VaxisModel.Lemmas.KittyTerm
import VaxisModel.Lemmas.KittyData
import VaxisModel.Lemmas.KittyStrict
import VaxisModel.Lemmas.KittyMixed
import VaxisModel.Model.ImageTerm
import VaxisModel.Model.ImageDraw

namespace VaxisModel.Props.C20Term
open VaxisModel.Model.KittyTerm VaxisModel.Model.Placements VaxisModel.Spec.Images VaxisModel.Gen.ImageConsts
open VaxisModel.Lemmas.KittyTerm VaxisModel.Lemmas.KittyData

/-! ## The regenerated bodies are the closed forms -/

/-- Every statement of the two kitty upload bodies was recognised (an unknown one would be `KAct.other`, write
    `KOut.unknown` in the model and make the theorems below fail). -/
theorem kitty_bodies_recognised : kittyResizeBody.all stmtKnown = true ∧ kittyWriteBody.all stmtKnown = true := by decide

/-- **The upload side of `KittyImage.Resize`, interpreted from the regenerated body, is the model**: after a successful
    encode the new encoding is appended to `k.buf` (the buffer is not reset) and `k.uploaded` is cleared; on the
    counting abstraction (`encs` = number of encodings in the buffer) this is `ImageTerm.KImg.resize`, about which
    `Props.C20Ext.upload_conservation`, `no_reupload_while_unchanged`, `upload_after_resize` speak. -/
theorem kitty_resize_body_eq_model (k : KBuf) (e : Nat) :
    resizeGen k e = ⟨k.buf ++ [e], false⟩ ∧
    absK (resizeGen k e) = (absK k).resize true := by
  unfold resizeGen
  rw [resizeGen_std, resizeWith_std]
  exact ⟨rfl, by simp [absK, VaxisModel.Model.ImageTerm.KImg.resize]⟩

/-- **The placement's `writeTo` closure, interpreted from the regenerated body, is the model**: when `k.uploaded` is
    clear it sends the whole buffer, sets `k.uploaded`, empties the buffer, and then places; when set it only places.
    On the counting abstraction this is `ImageTerm.KImg.write` (state and number of encodings sent).  (Both theorems
    are semantic — the regenerated statements are evaluated on a symbolic state — not a comparison of statement
    lists: a reordering that computes the same passes.) -/
theorem kitty_write_body_eq_model (k : KBuf) :
    writeGen k = (if k.uploaded then (k, [.place]) else (⟨[], true⟩, [.send k.buf, .place])) ∧
    absK (writeGen k).1 = ((absK k).write).1 ∧ sentCount (writeGen k).2 = ((absK k).write).2 := by
  unfold writeGen
  rw [writeGen_std, writeWith_std]
  cases k with
  | mk buf up => cases up <;> simp [absK, sentCount, VaxisModel.Model.ImageTerm.KImg.write]

/-- Re-upload after a second `Resize` (what seeded change C20-m5 breaks), on the interpreted bodies: whatever the state
    of the image (in particular: already uploaded), after a successful `Resize` producing `e` the next `writeTo` sends
    a buffer that ends with `e`, before the placement command. -/
theorem reupload_after_resize (k : KBuf) (e : Nat) :
    ∃ pre, (writeGen (resizeGen k e)).2 = [.send (pre ++ [e]), .place] := by
  rw [(kitty_resize_body_eq_model k e).1, (kitty_write_body_eq_model _).1]
  exact ⟨k.buf, rfl⟩

/-- The loops of `HalfBlockImage.Draw` / `FullBlockImage.Draw` as regenerated: `for i, cell := range cells`,
    `y := i / width`, `x := i - (y * width)`, `SetCell(x, y, …)` with the stored cell / a space on the stored colour,
    nothing else. -/
theorem block_draw_loop_shape :
    halfDrawLoop = ⟨true, .div .i .width, .sub .i (.mul .y .width), .x, .y, .stored, []⟩ ∧
    fullDrawLoop = ⟨true, .div .i .width, .sub .i (.mul .y .width), .x, .y, .spaceOnStoredBg, []⟩ := by decide

/-- **The block `Draw` loops, interpreted from the regenerated loop, are the model**: run on the cell list `Resize`
    built (`Blocks.blockCellsWith`, any image, any way of reading the lower pixel, any cell function) the interpreted
    loop makes exactly the `SetCell` calls of `ImageDraw.blockOps` — about which `block_draw_clipped`,
    `block_cell_pixels`, `half_pipeline_*` / `full_pipeline_*` speak — for both image kinds. -/
theorem block_draw_body_eq_model (toCell : VaxisModel.Model.Blocks.BCell → VaxisModel.Model.Window.Cell)
    (mode : Bottom) (cell : VaxisModel.Model.Blocks.C16 → VaxisModel.Model.Blocks.C16 → VaxisModel.Model.Blocks.BCell)
    (img : VaxisModel.Model.Blocks.Img) :
    drawLoopOps halfDrawLoop toCell img.w ((VaxisModel.Model.Blocks.blockCellsWith mode cell img).map (·.2.2)) =
      some (VaxisModel.Model.ImageDraw.blockOps toCell (VaxisModel.Model.Blocks.blockCellsWith mode cell img)) ∧
    drawLoopOps fullDrawLoop toCell img.w ((VaxisModel.Model.Blocks.blockCellsWith mode cell img).map (·.2.2)) =
      some (VaxisModel.Model.ImageDraw.blockOps toCell (VaxisModel.Model.Blocks.blockCellsWith mode cell img)) := by
  rw [block_draw_loop_shape.1, block_draw_loop_shape.2]
  exact ⟨drawLoopOps_std _ toCell mode cell img, drawLoopOps_std _ toCell mode cell img⟩

/-! ## `render` in source order -/

/-- **The placement stretch of `render` as regenerated, with its order**: delete loop, `last` emptied on refresh, write
    loop, `last = next` — and interpreted stage by stage in that order it is `renderWith` (the render of
    `placement_diff`) emitting all deletes before all writes. -/
theorem render_order_shape :
    renderOrder = [.deleteLoop, .clearLast, .writeLoop, .saveLast] ∧
    ∀ s, renderGen s =
      ((renderWith samePlacement s).1,
       (renderWith samePlacement s).2.deletes.map .del ++ (renderWith samePlacement s).2.writes.map .wr) := by
  have h1 : renderOrder = stdOrder := by decide
  have h2 : renderShape = stdShape := by decide
  refine ⟨h1, fun s => ?_⟩
  unfold renderGen
  rw [h1, h2]
  exact renderStaged_std _ s

/-! ## The terminal's placement table = what the last frame drew -/

/-- **Refinement to the terminal** (for ALL histories of `Resize` / `Draw` / `Clear` / `Render` / `Refresh` on kitty
    images, starting after `vaxis.New`): run the commands every render emits — in the order the regenerated source
    emits them — on a terminal that keeps a table (image id, placement id) ↦ placement, where a delete removes whatever
    is under its key and a placement replaces it.  Provided no frame holds two different placements with the same
    (image, origin), at every point of the history the terminal's table is exactly the table of the last rendered
    frame (`ps.last`, the list `render` saved): every placement of that frame is there with its size, nothing else is.
    With the two loops in the other order this is false (`order_matters`). -/
theorem terminal_table_is_last_frame (ops : List WOp) (h : FramesKeyFun [] ops) :
    ∀ k, (World.init.run ops).term.places k = tableOf (World.init.run ops).ps.last k :=
  (run_inv ops World.init ⟨fun _ => rfl, keyFun_nil⟩ h).1

/-- The terminal of the theorems here is nothing but the emitted command sequence folded in order: `World.trace` is the
    concatenation of what the renders of the history wrote (the list the driver compares with the implementation's
    console output, `Q=`), and running it from the empty terminal gives the terminal of `World.run`. -/
theorem terminal_is_fold_of_commands (ops : List WOp) :
    (World.init.run ops).term = Term.empty.run (World.trace World.init ops) := trace_run ops World.init

/-- After a render the saved list is the frame just drawn, so right after any `Render` / `Refresh` the terminal shows
    exactly the placements the application drew since the last `Clear`. -/
theorem terminal_table_after_render (ops : List WOp) (op : WOp) (hop : op = .render ∨ op = .refresh)
    (h : FramesKeyFun [] (ops ++ [op])) :
    ∀ k, (World.init.run (ops ++ [op])).term.places k = tableOf (World.init.run ops).ps.next k := by
  intro k
  rw [terminal_table_is_last_frame _ h k]
  rw [World.run, List.foldl_append]
  rcases hop with rfl | rfl <;> rfl

/-- The same in terms of the op list alone: right after a `Render` / `Refresh` the terminal's placement table is the
    table of what the application drew since the last `Clear`. -/
theorem terminal_shows_what_was_drawn (ops : List WOp) (op : WOp) (hop : op = .render ∨ op = .refresh)
    (h : FramesKeyFun [] (ops ++ [op])) :
    ∀ k, (World.init.run (ops ++ [op])).term.places k = tableOf (drawnSinceClear [] ops) k := by
  intro k
  rw [terminal_table_after_render ops op hop h k, next_is_drawn]
  rfl

/-- **The placement id addresses (column, row)**: the regenerated expression is `uint(col)<<16 | uint(row)`, and for
    origins within 0..65535 in both coordinates two origins get the same id only when they are the same — so the
    model's key (image id, col, row) is what a kitty delete / placement command is addressed by. -/
theorem placement_id_injective :
    kittyPidShift = some 16 ∧
    ∀ c r c' r' : Nat, c < 65536 → r < 65536 → c' < 65536 → r' < 65536 → pidOf c r = pidOf c' r' → c = c' ∧ r = r' := by
  have h : kittyPidShift = some 16 := by decide
  refine ⟨h, ?_⟩
  intro c r c' r' _ hr _ hr' he
  unfold pidOf at he
  rw [h] at he
  simp only [Option.map_some, Option.some.injEq] at he
  rw [← Nat.shiftLeft_add_eq_or_of_lt (by omega : r < 2 ^ 16), ← Nat.shiftLeft_add_eq_or_of_lt (by omega : r' < 2 ^ 16),
    Nat.shiftLeft_eq, Nat.shiftLeft_eq] at he
  omega

open VaxisModel.Lemmas.KittyMixed in
/-- **Histories that mix kitty and sixel images** (`kitty id`: image `id` was made with `NewKittyGraphic`; a sixel
    placement's `deleteFn` writes nothing and its `writeTo` writes data the kitty tables ignore — this is what the
    driver runs against the implementation): for ALL histories in which the kitty placements of every frame are
    key-functional, the terminal's kitty placement table is at every point exactly the table of the kitty placements of
    the last rendered frame, whatever sixel images are drawn, moved, dropped or refreshed in between. -/
theorem terminal_table_mixed (kitty : Nat → Bool) (ops : List WOp) (h : FramesKeyFunK kitty [] ops) :
    ∀ k, (World.init.runK kitty ops).term.places k = tableOf (kittyOf kitty (World.init.runK kitty ops).ps.last) k :=
  (runK_inv kitty ops World.init ⟨fun _ => rfl, keyFun_nil⟩ h).1

/-- Non-vacuity: image 1 kitty, image 2 sixel; the sixel placement moves and is dropped, the kitty one is resized in
    place: the table holds the kitty placement alone, in its new size. -/
example :
    let kitty : Nat → Bool := fun id => id == 1
    let a : Placement := ⟨1, 2, 3, 4, 4⟩
    let a' : Placement := ⟨1, 2, 3, 2, 2⟩
    let s : Placement := ⟨2, 9, 9, 3, 3⟩
    let s' : Placement := ⟨2, 8, 8, 3, 3⟩
    let w := World.init.runK kitty [.resize 1 true, .draw a, .draw s, .render, .clear, .draw a, .draw s', .render,
                                    .clear, .resize 1 true, .draw a', .render]
    w.term.places (key a') = some a' ∧ w.term.places (key s') = none ∧ w.ps.last = [a'] := by decide

/-- **The order of the two loops matters** (what seeded change C20-m6 does): with the write loop before the delete loop
    — same statements, same sets of commands per frame — an image resized in place (drawn again at the same origin with
    another cell size) is placed and then removed by the delete of the old placement, which has the same placement id:
    the terminal shows nothing at that key although the frame holds the placement. -/
theorem order_matters :
    let a : Placement := ⟨1, 2, 3, 4, 4⟩
    let a' : Placement := ⟨1, 2, 3, 2, 2⟩
    let ops : List WOp := [.resize 1 true, .draw a, .render, .clear, .resize 1 true, .draw a', .render]
    let step := World.stepWith [.writeLoop, .deleteLoop, .clearLast, .saveLast] stdShape samePlacement stdResizeBody stdWriteBody
    FramesKeyFun [] ops ∧
    (ops.foldl step World.init).ps.last = [a'] ∧
    (ops.foldl step World.init).term.places (key a') = none ∧
    (World.init.run ops).term.places (key a') = some a' := by
  refine ⟨?_, by decide, by decide, by decide⟩
  simp only [FramesKeyFun, List.nil_append, and_true]
  constructor <;> intro p hp q hq _ <;> simp_all

/-- **The hypothesis is needed** (an observation about the unchanged code, O1 in the notes): a frame that holds an image
    twice at the same origin with two sizes (`Draw`, `Resize`, `Draw` again without `Clear`) lets the next frame delete
    the old size's placement — the same placement id as the one kept — and the terminal loses an image the bookkeeping
    believes is shown. -/
theorem keyfun_needed :
    let a : Placement := ⟨1, 2, 3, 4, 4⟩
    let a' : Placement := ⟨1, 2, 3, 2, 2⟩
    let ops : List WOp := [.draw a, .render, .draw a', .render, .clear, .draw a', .render]
    (World.init.run ops).ps.last = [a'] ∧ (World.init.run ops).term.places (key a') = none := by
  constructor <;> decide

/-- **A limit of the terminal model** (observation O2 of the notes): kitty itself removes an image's placements when
    data is transmitted again under its id.  `render` never re-places the kept placements of an image whose data it
    retransmits; that is harmless when a `Resize` changes the cell size (every placement of the image then differs and
    is rewritten), but a `Resize` to another pixel size with the SAME cell size leaves the placements "the same", the
    new data goes out with the next placement of the image that changes — and on such a terminal the image's other
    placements vanish although the bookkeeping (and the lenient terminal model of the theorems above) keeps them. -/
theorem retransmission_drops_kept_placements :
    let a1 : Placement := ⟨1, 1, 1, 2, 2⟩
    let a2 : Placement := ⟨1, 5, 5, 2, 2⟩
    let a3 : Placement := ⟨1, 6, 6, 2, 2⟩
    let ops : List WOp := [.resize 1 true, .draw a1, .draw a2, .render,
                           .resize 1 true, .clear, .draw a1, .draw a3, .render]
    (World.init.run ops).ps.last = [a1, a3] ∧
    (World.init.run ops).term.places (key a1) = some a1 ∧
    ((World.trace World.init ops).foldl Term.applyDrop Term.empty).places (key a1) = none ∧
    ((World.trace World.init ops).foldl Term.applyDrop Term.empty).places (key a3) = some a3 := by
  refine ⟨by decide, by decide, by decide, by decide⟩

open VaxisModel.Lemmas.KittyStrict in
/-- **The refinement holds on the strict terminal too** (kitty's own behaviour: retransmitting an image drops its
    placements), for ALL histories in which every frame is key-functional and no placement is kept across a frame while
    its image has new data waiting (`StrictFrames`: at each render, every placement of the frame that was in the last
    one belongs to an image whose `uploaded` flag is set — true whenever a `Resize` changes the image's cell size, since
    all its placements then differ): the emitted command sequence, folded in order on the strict terminal, leaves
    exactly the table of the last rendered frame — and the same terminal as the lenient model.
    `retransmission_drops_kept_placements` shows the hypothesis is needed. -/
theorem strict_terminal_table_is_last_frame (ops : List WOp) (h : StrictFrames World.init ops) :
    runDrop Term.empty (World.trace World.init ops) = (World.init.run ops).term ∧
    ∀ k, (runDrop Term.empty (World.trace World.init ops)).places k = tableOf (World.init.run ops).ps.last k := by
  obtain ⟨h1, h2⟩ := strict_run ops World.init ⟨fun _ => rfl, keyFun_nil⟩ h
  refine ⟨h1, fun k => ?_⟩
  rw [show runDrop Term.empty (World.trace World.init ops) = runDrop World.init.term (World.trace World.init ops) from rfl, h1]
  exact h2.1 k

open VaxisModel.Lemmas.KittyStrict in
/-- Non-vacuity: an image resized to another cell size between frames and drawn again in place, next to a kept
    placement of another image, meets `StrictFrames`; the history of `retransmission_drops_kept_placements` does not. -/
example :
    let a : Placement := ⟨1, 2, 3, 4, 4⟩
    let a' : Placement := ⟨1, 2, 3, 2, 2⟩
    let b : Placement := ⟨2, 7, 7, 1, 1⟩
    StrictFrames World.init [.resize 1 true, .resize 2 true, .draw a, .draw b, .render, .clear, .resize 1 true, .draw a', .draw b, .render] := by
  simp only [StrictFrames, OKFrame, KeyFun]
  decide

open VaxisModel.Lemmas.KittyStrict in
/-- …and the history of `retransmission_drops_kept_placements` (a `Resize` that keeps the cell size, one placement kept,
    one moved) is exactly one that does not meet it. -/
example :
    let a1 : Placement := ⟨1, 1, 1, 2, 2⟩
    let a2 : Placement := ⟨1, 5, 5, 2, 2⟩
    let a3 : Placement := ⟨1, 6, 6, 2, 2⟩
    ¬ StrictFrames World.init [.resize 1 true, .draw a1, .draw a2, .render, .resize 1 true, .clear, .draw a1, .draw a3, .render] := by
  simp only [StrictFrames, OKFrame, KeyFun]
  decide

/-! ## Image data -/

/-- **The terminal holds the data of the last successful `Resize`** (all histories, no hypothesis on the frames): for
    every image, at every point of the history, either its `uploaded` flag is set and the terminal's data for it is
    the encoding of its last successful `Resize` (nothing when there was none, and then nothing is waiting either), or
    the flag is clear and that encoding is the last one waiting in `k.buf`. -/
theorem data_is_latest (ops : List WOp) (id : Nat) :
    let w := World.init.run ops
    ((w.imgs id).uploaded = true ∧ (w.imgs id).buf = [] ∧ w.term.data id = w.latest id) ∨
    ((w.imgs id).uploaded = false ∧ (w.imgs id).buf.getLast? = w.latest id ∧ ((w.imgs id).buf = [] → w.term.data id = none)) :=
  run_data ops World.init init_data id

open VaxisModel.Lemmas.KittyMixed in
/-- The same in histories that mix kitty and sixel images. -/
theorem data_is_latest_mixed (kitty : Nat → Bool) (ops : List WOp) (id : Nat) :
    let w := World.init.runK kitty ops
    ((w.imgs id).uploaded = true ∧ (w.imgs id).buf = [] ∧ w.term.data id = w.latest id) ∨
    ((w.imgs id).uploaded = false ∧ (w.imgs id).buf.getLast? = w.latest id ∧ ((w.imgs id).buf = [] → w.term.data id = none)) :=
  runK_data kitty ops World.init init_data id

/-- Hence: right after a render that wrote a placement of an image, the terminal has that image's latest encoding
    (the one of the last successful `Resize` before the frame) — placed with fresh data, whatever happened before
    (a second `Resize`, refused encodes, several placements of the image).  What seeded change C20-m5 breaks. -/
theorem written_with_latest_data (ops : List WOp) (refresh : Bool) (p : Placement) :
    let w := World.init.run ops
    REv.wr p ∈ (renderGen { w.ps with refresh := w.ps.refresh || refresh }).2 →
    (w.step (if refresh then .refresh else .render)).term.data p.id = w.latest p.id :=
  fun hp => written_data _ (run_data ops World.init init_data) refresh p hp

example :
    let a : Placement := ⟨1, 2, 3, 4, 4⟩
    let a' : Placement := ⟨1, 2, 3, 2, 2⟩
    let w := World.init.run [.resize 1 true, .draw a, .render, .clear, .resize 1 true, .draw a', .render]
    w.term.data 1 = some 1 ∧ w.term.places (key a') = some a' := by decide

end VaxisModel.Props.C20Term
