/-
Spec.Display — a small standards-conforming display terminal for the *renderer's* vocabulary
(C01, C04, C07, C11 observe Vaxis through it).  Written from ECMA-48 / xterm ctlseqs, not from
the Go code.

* Grid cells: `glyph g w style link` (left cell of a glyph of width `w`), `cont` (a further column
  of the wide glyph to its left), `poison` (what remains of a half-overwritten wide glyph — its
  appearance is terminal specific, nothing may rely on it).
* A blank cell is the glyph " " (hex "20"): erased / never written cells and cells holding a space
  are visually identical.
* Anything whose effect is terminal specific sets `bad` (with the reason): printing in the
  pending-wrap state, a glyph that does not fit in the rest of the row, a zero-width glyph printed
  raw, cursor addressing outside the screen.  The property "never relies on terminal-specific
  behaviour" is `bad = none`.
* `tw : String → Nat` is the width the terminal gives a raw-printed grapheme. OSC 66 (explicit
  width) overrides it.
-/
import VaxisModel.Spec.Sgr
import VaxisModel.Model.Render

namespace VaxisModel.Spec.Display
open VaxisModel.Spec
open VaxisModel.Model.Render (Tok)

inductive DCell where
  | glyph (g : String) (w : Nat) (st : TStyle) (linkParams link : String)
  | cont
  | poison
  deriving DecidableEq, Repr, Inhabited

def DCell.blank : DCell := .glyph "20" 1 {} "" ""

structure Term where
  rows : Nat
  cols : Nat
  grid : List (List DCell)
  row : Nat := 0
  col : Nat := 0
  pw : Bool := false                -- pending wrap
  pen : TStyle := {}
  linkParams : String := ""
  link : String := ""
  cursorVisible : Bool := true
  cursorShape : Nat := 0
  sync : Int := 0                   -- depth of synchronized-update mode
  pointer : String := ""
  modes : List (Nat × Bool) := []   -- last value written for each other DEC private mode
  bad : Option String := none
  deriving Repr, Inhabited

def Term.init (cols rows : Nat) : Term :=
  { rows := rows, cols := cols, grid := List.replicate rows (List.replicate cols DCell.blank) }

def setMode (ms : List (Nat × Bool)) (n : Nat) (v : Bool) : List (Nat × Bool) :=
  (n, v) :: ms.filter (·.1 ≠ n)

def markBad (t : Term) (why : String) : Term :=
  match t.bad with
  | some _ => t
  | none => { t with bad := some why }

/-- Width of the glyph whose left cell is at index `i` of the row (0 if not a glyph). -/
def glyphWidthAt (r : List DCell) (i : Nat) : Nat :=
  match r[i]? with
  | some (.glyph _ w _ _ _) => w
  | _ => 0

/-- Start column of the glyph covering column `i` (walk left over `cont` cells). -/
def ownerOf (r : List DCell) : Nat → Nat
  | 0 => 0
  | i + 1 =>
    match r[i + 1]? with
    | some .cont => ownerOf r i
    | _ => i + 1

/-- Poison every cell of the glyph that covers column `i`, if that glyph is wider than one cell
    and is not completely inside `[lo, hi)`. -/
def poisonPartial (r : List DCell) (lo hi : Nat) (i : Nat) : List DCell :=
  let o := ownerOf r i
  let w := glyphWidthAt r o
  if w ≤ 1 then r
  else if lo ≤ o ∧ o + w ≤ hi then r
  else (List.range r.length).zipWith (fun j c => if o ≤ j ∧ j < o + w then DCell.poison else c) r

/-- Write a glyph of width `w` at column `c` of a row: the glyphs partly covered at either end are
    poisoned, then the cells `[c, c+w)` are replaced. -/
def writeRow (r : List DCell) (c w : Nat) (cell : DCell) : List DCell :=
  let r1 := poisonPartial r c (c + w) c
  let r2 := poisonPartial r1 c (c + w) (c + w - 1)
  (List.range r2.length).zipWith
    (fun j old => if j = c then cell else if c < j ∧ j < c + w then DCell.cont else old) r2

/-- Print one glyph of width `w` (≥ 1). -/
def putGlyph (t : Term) (g : String) (w : Nat) : Term :=
  if w = 0 then markBad t "zero-width grapheme printed raw"
  else if t.pw then markBad t "print in pending-wrap state"
  else if t.col + w > t.cols then markBad t "glyph does not fit in the rest of the row"
  else
    let cell := DCell.glyph g w t.pen t.linkParams t.link
    let grid := match t.grid[t.row]? with
      | some r => t.grid.set t.row (writeRow r t.col w cell)
      | none => t.grid
    if t.col + w = t.cols then { t with grid := grid, col := t.cols - 1, pw := true }
    else { t with grid := grid, col := t.col + w }

def step (tw : String → Nat) (t : Term) : Tok → Term
  | .cup r c =>
      if r < 1 ∨ c < 1 ∨ r > t.rows ∨ c > t.cols then markBad t s!"CUP {r};{c} outside the screen"
      else { t with row := (r - 1).toNat, col := (c - 1).toNat, pw := false }
  | .sgr ps => { t with pen := sgr t.pen ps }
  | .osc8 p u => if u = "" then { t with link := "", linkParams := "" } else { t with link := u, linkParams := p }
  | .text g => putGlyph t g (tw g)
  | .textW w g => if w < 1 then markBad t "explicit width < 1" else putGlyph t g w.toNat
  | .decset n =>
      if n = 25 then { t with cursorVisible := true }
      else if n = 2026 then { t with sync := t.sync + 1 }
      else { t with modes := setMode t.modes n true }
  | .decrst n =>
      if n = 25 then { t with cursorVisible := false }
      else if n = 2026 then { t with sync := t.sync - 1 }
      else { t with modes := setMode t.modes n false }
  | .cursorStyle n => { t with cursorShape := n }
  | .pointer s => { t with pointer := s }
  | .other _ => t

def run (tw : String → Nat) (t : Term) (toks : List Tok) : Term := toks.foldl (step tw) t

end VaxisModel.Spec.Display
