/-
Spec.DisplayCluster — the reference terminal of `Spec.Display` with grapheme clustering at the
parser (what every terminal that implements mode 2027 does, and what the embedded emulator of
widgets/term does): printable bytes that arrive back to back are segmented into grapheme clusters
*by the terminal*.  In the token vocabulary: a `.text b` token that directly follows a `.text a`
token — no control sequence between them — is not a new grapheme when `joins a b` (= the
concatenation `a ++ b` is ONE cluster: regional indicator + regional indicator, Hangul L + V,
emoji + ZWJ + emoji, base + combining mark …); it extends the grapheme already on the screen.
What the screen then shows (width of the merged cluster, where the cursor ends up) is terminal
specific: the model marks the terminal `bad` and does not draw the second half.

`joins` is a parameter (uniseg / the terminal's Unicode tables are not modelled).
Core Lean only.
-/
import VaxisModel.Spec.Display

namespace VaxisModel.Spec.Display
open VaxisModel.Model.Render (Tok)

/-- One token on a clustering terminal; the second component is the grapheme printed by the
    directly preceding token, if that was a raw text write. -/
def stepC (joins : String → String → Bool) (tw : String → Nat) (s : Term × Option String) (k : Tok) :
    Term × Option String :=
  match k with
  | .text b =>
      match s.2 with
      | some a =>
          if joins a b then (markBad s.1 "grapheme joined the previous cell's grapheme", some (a ++ b))
          else (step tw s.1 (.text b), some b)
      | none => (step tw s.1 (.text b), some b)
  | k => (step tw s.1 k, none)

def runC' (joins : String → String → Bool) (tw : String → Nat) (s : Term × Option String) (toks : List Tok) :
    Term × Option String := toks.foldl (stepC joins tw) s

/-- The clustering terminal fed a token list, starting with no pending grapheme. -/
def runC (joins : String → String → Bool) (tw : String → Nat) (t : Term) (toks : List Tok) : Term :=
  (runC' joins tw (t, none) toks).1

/-- No raw text write directly follows a raw text write it would join (`p` = the grapheme of the
    directly preceding text token, if any). -/
def adjOk (joins : String → String → Bool) : Option String → List Tok → Bool
  | _, [] => true
  | p, .text b :: rest =>
      (match p with | some a => !joins a b | none => true) && adjOk joins (some b) rest
  | _, _ :: rest => adjOk joins none rest

/-- The graphemes written raw, in order. -/
def texts : List Tok → List String
  | [] => []
  | .text g :: rest => g :: texts rest
  | _ :: rest => texts rest

/-- Empty, or beginning with a control sequence. -/
def startsQuiet : List Tok → Bool
  | .text _ :: _ => false
  | _ => true

end VaxisModel.Spec.Display
