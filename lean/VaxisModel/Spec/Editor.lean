/-
Ideal grapheme line editor (C17 oracle).  Written from the property text, independent of both
widgets: a text is a list of grapheme clusters, the cursor is an index `0 … text.length`.
Core Lean only.
-/
namespace VaxisModel.Spec.Editor

structure Ed (G : Type) where
  text : List G
  cursor : Nat
  deriving Repr, DecidableEq

/-- Callback log entries. -/
inductive Callback (G : Type) where
  | change (text : List G)
  | submit (text : List G)
  deriving Repr, DecidableEq

inductive Op (G : Type) where
  /-- type or paste graphemes at the cursor -/
  | insert (gs : List G)
  | deleteLeft
  | deleteRight
  | killToEnd
  | killToStart
  | deleteWordLeft
  | left
  | right
  | home
  | toEnd
  | wordLeft
  | wordRight
  /-- move to an absolute position (clamped to the text) -/
  | moveTo (i : Nat)
  | reset
  | setContent (gs : List G)
  /-- Enter: report the line, then clear it -/
  | submit
  /-- an event the editor does not react to -/
  | noop
  deriving Repr, DecidableEq

def Ed.WF {G : Type} (s : Ed G) : Prop := s.cursor ≤ s.text.length

/-- Number of leading elements satisfying `p`. -/
def lead {G : Type} (p : G → Bool) (l : List G) : Nat := (l.takeWhile p).length

/-- Position after skipping non-word graphemes, then word graphemes, to the right of `c`. -/
def wordRightPos {G : Type} (isWord : G → Bool) (t : List G) (c : Nat) : Nat :=
  let c1 := c + lead (fun g => !isWord g) (t.drop c)
  c1 + lead isWord (t.drop c1)

/-- Position after skipping non-word graphemes, then word graphemes, to the left of `c`. -/
def wordLeftPos {G : Type} (isWord : G → Bool) (t : List G) (c : Nat) : Nat :=
  let c1 := c - lead (fun g => !isWord g) (t.take c).reverse
  c1 - lead isWord (t.take c1).reverse

/-- One editing step: new state. -/
def apply {G : Type} (isWord : G → Bool) (s : Ed G) : Op G → Ed G
  | .insert gs => ⟨s.text.take s.cursor ++ gs ++ s.text.drop s.cursor, s.cursor + gs.length⟩
  | .deleteLeft => if s.cursor = 0 then s else ⟨s.text.eraseIdx (s.cursor - 1), s.cursor - 1⟩
  | .deleteRight => ⟨s.text.eraseIdx s.cursor, s.cursor⟩
  | .killToEnd => ⟨s.text.take s.cursor, s.cursor⟩
  | .killToStart => ⟨s.text.drop s.cursor, 0⟩
  | .deleteWordLeft =>
      let p := wordLeftPos isWord s.text s.cursor
      ⟨s.text.take p ++ s.text.drop s.cursor, p⟩
  | .left => ⟨s.text, s.cursor - 1⟩
  | .right => ⟨s.text, min (s.cursor + 1) s.text.length⟩
  | .home => ⟨s.text, 0⟩
  | .toEnd => ⟨s.text, s.text.length⟩
  | .wordLeft => ⟨s.text, wordLeftPos isWord s.text s.cursor⟩
  | .wordRight => ⟨s.text, wordRightPos isWord s.text s.cursor⟩
  | .moveTo i => ⟨s.text, min i s.text.length⟩
  | .reset => ⟨[], 0⟩
  | .setContent gs => ⟨gs, gs.length⟩
  | .submit => ⟨[], 0⟩
  | .noop => s

/-- Callbacks of a step issued by a key event: `submit` on Enter, `change` iff the text changed. -/
def callbacks {G : Type} [DecidableEq G] (isWord : G → Bool) (s : Ed G) (op : Op G) : List (Callback G) :=
  match op with
  | .submit => [.submit s.text]
  | _ => if (apply isWord s op).text = s.text then [] else [.change (apply isWord s op).text]

def run {G : Type} (isWord : G → Bool) (s : Ed G) : List (Op G) → Ed G
  | [] => s
  | op :: ops => run isWord (apply isWord s op) ops

end VaxisModel.Spec.Editor
