/-
Ideal grapheme line editor (C17 oracle).  Written from the property text, independent of both
widgets: a text is a list of grapheme clusters, the cursor is an index `0 … text.length`.
Core Lean only.
-/
namespace VaxisModel.Spec.Editor

structure Ed (G : Type) where
  text : List G
  cursor : Nat
  deriving Repr, DecidableEq

/-- Callback log entries. -/
inductive Callback (G : Type) where
  | change (text : List G)
  | submit (text : List G)
  deriving Repr, DecidableEq

inductive Op (G : Type) where
  /-- type or paste graphemes at the cursor -/
  | insert (gs : List G)
  | deleteLeft
  | deleteRight
  | killToEnd
  | killToStart
  | deleteWordLeft
  | left
  | right
  | home
  | toEnd
  | wordLeft
  | wordRight
  /-- move to an absolute position (clamped to the text) -/
  | moveTo (i : Nat)
  | reset
  | setContent (gs : List G)
  /-- Enter: report the line, then clear it -/
  | submit
  /-- an event the editor does not react to -/
  | noop
  deriving Repr, DecidableEq

def Ed.WF {G : Type} (s : Ed G) : Prop := s.cursor ≤ s.text.length

/-! ### Words

The property says motions "move by whole graphemes or words and stop at the ends".  A *word* is a
maximal run of graphemes for which `isWord` holds; every other grapheme is a separator (blanks of
any kind, punctuation, and whatever else the widget does not count as a word constituent — which
graphemes are word constituents is the widget's classification and a parameter here; textinput:
a single code point that is a letter or a number).  Moving right by a word skips the separators
after the cursor, then the word; moving (or deleting) left mirrors it; at the ends of the text the
motion stops (`lead` of an exhausted list is 0, positions never leave `0 … length`). -/

/-- Number of leading elements satisfying `p`. -/
def lead {G : Type} (p : G → Bool) (l : List G) : Nat := (l.takeWhile p).length

/-- Position after skipping non-word graphemes, then word graphemes, to the right of `c`. -/
def wordRightPos {G : Type} (isWord : G → Bool) (t : List G) (c : Nat) : Nat :=
  let c1 := c + lead (fun g => !isWord g) (t.drop c)
  c1 + lead isWord (t.drop c1)

/-- Position after skipping non-word graphemes, then word graphemes, to the left of `c`. -/
def wordLeftPos {G : Type} (isWord : G → Bool) (t : List G) (c : Nat) : Nat :=
  let c1 := c - lead (fun g => !isWord g) (t.take c).reverse
  c1 - lead isWord (t.take c1).reverse

/-- One editing step: new state. -/
def apply {G : Type} (isWord : G → Bool) (s : Ed G) : Op G → Ed G
  | .insert gs => ⟨s.text.take s.cursor ++ gs ++ s.text.drop s.cursor, s.cursor + gs.length⟩
  | .deleteLeft => if s.cursor = 0 then s else ⟨s.text.eraseIdx (s.cursor - 1), s.cursor - 1⟩
  | .deleteRight => ⟨s.text.eraseIdx s.cursor, s.cursor⟩
  | .killToEnd => ⟨s.text.take s.cursor, s.cursor⟩
  | .killToStart => ⟨s.text.drop s.cursor, 0⟩
  | .deleteWordLeft =>
      let p := wordLeftPos isWord s.text s.cursor
      ⟨s.text.take p ++ s.text.drop s.cursor, p⟩
  | .left => ⟨s.text, s.cursor - 1⟩
  | .right => ⟨s.text, min (s.cursor + 1) s.text.length⟩
  | .home => ⟨s.text, 0⟩
  | .toEnd => ⟨s.text, s.text.length⟩
  | .wordLeft => ⟨s.text, wordLeftPos isWord s.text s.cursor⟩
  | .wordRight => ⟨s.text, wordRightPos isWord s.text s.cursor⟩
  | .moveTo i => ⟨s.text, min i s.text.length⟩
  | .reset => ⟨[], 0⟩
  | .setContent gs => ⟨gs, gs.length⟩
  | .submit => ⟨[], 0⟩
  | .noop => s

/-- Callbacks of a step issued by a key event: `submit` on Enter, `change` iff the text changed. -/
def callbacks {G : Type} [DecidableEq G] (isWord : G → Bool) (s : Ed G) (op : Op G) : List (Callback G) :=
  match op with
  | .submit => [.submit s.text]
  | _ => if (apply isWord s op).text = s.text then [] else [.change (apply isWord s op).text]

def run {G : Type} (isWord : G → Bool) (s : Ed G) : List (Op G) → Ed G
  | [] => s
  | op :: ops => run isWord (apply isWord s op) ops

/-! ### Texts whose graphemes can merge (combining marks, joiners, flags, Hangul jamo)

A text is a list of atoms `A` (code points); `cl : List A → List (List A)` is the segmentation into
grapheme clusters (UAX #29 in the widgets; a parameter here).  The ideal editor still works on
graphemes: its state is `Ed (List A)` — the text as its list of clusters, the cursor a grapheme
index — and a step is the step of the grapheme editor above followed by *re-segmentation*: the text
is the same atoms, segmented anew (an inserted mark joins the grapheme before it, a deletion can
bring two parts of a grapheme together), and the cursor stays behind the atoms it was behind
(`cl` of the atoms before it), within the text.  Typing or pasting the string `s` is
`.insert (cl s)`.  With a segmentation that never merges (`cl = map singleton`) re-segmentation is
the identity and this is the editor above. -/

/-- Re-segment an editor state. -/
def resegment {A : Type} (cl : List A → List (List A)) (s : Ed (List A)) : Ed (List A) :=
  let t := cl s.text.flatten
  ⟨t, min (cl (s.text.take s.cursor).flatten).length t.length⟩

/-- One step of the ideal editor over a text whose graphemes are given by `cl`. -/
def applyC {A : Type} (cl : List A → List (List A)) (isWord : List A → Bool) (s : Ed (List A))
    (op : Op (List A)) : Ed (List A) :=
  resegment cl (apply isWord s op)

/-- Callbacks of a step: `submit` on Enter (with the line), `change` iff the text changed. -/
def callbacksC {A : Type} [DecidableEq A] (cl : List A → List (List A)) (isWord : List A → Bool)
    (s : Ed (List A)) (op : Op (List A)) : List (Callback (List A)) :=
  match op with
  | .submit => [.submit s.text]
  | _ => if (applyC cl isWord s op).text = s.text then [] else [.change (applyC cl isWord s op).text]

def runC {A : Type} (cl : List A → List (List A)) (isWord : List A → Bool) (s : Ed (List A)) :
    List (Op (List A)) → Ed (List A)
  | [] => s
  | op :: ops => runC cl isWord (applyC cl isWord s op) ops

/-- What is asked of a segmentation (all three hold of UAX #29, where a boundary depends only on the
text before it and the next code point): the clusters concatenate to the text; re-segmenting the
first `i` clusters gives `i` clusters; appending text never lowers the number of clusters. -/
structure Segmentation {A : Type} (cl : List A → List (List A)) : Prop where
  flatten : ∀ x, (cl x).flatten = x
  prefixLen : ∀ x i, i ≤ (cl x).length → (cl ((cl x).take i).flatten).length = i
  mono : ∀ x y, (cl x).length ≤ (cl (x ++ y)).length

end VaxisModel.Spec.Editor
