/-
C17, round 3: what a scrolled one-line text input shows, written without indices into the content: the visible
part of the text is the graphemes from the scroll offset on, laid out from the prompt's end; the first of them is
replaced by the truncator `…` when something is scrolled out on the left; the grapheme that reaches (or passes) the
right edge is replaced by the truncator and is the last one shown.  Core Lean only.
-/
import VaxisModel.Model.TextInputCells

namespace VaxisModel.Spec.EditorView
open VaxisModel.Model.TextInput (Glyph)

/-- The cells of the visible part `vis` (the graphemes from the offset on), laid out from column `col` in a window
    of `winW` columns; `first` = this is the first visible grapheme and text is scrolled out before it. -/
def windowCells {G : Type} (width : G → Int) (masked : Bool) (winW : Int) : Bool → List G → Int → List (Int × Glyph G)
  | _, [], _ => []
  | first, g :: gs, col =>
    let shown : Glyph G := if col + width g ≥ winW then .trunc else if first then .trunc else if masked then .mask else .g g
    (col, shown) :: (if col + width g ≥ winW then [] else windowCells width masked winW false gs (col + width g))

/-- Display width of a list of graphemes. -/
def textWidth {G : Type} (width : G → Int) : List G → Int
  | [] => 0
  | g :: gs => width g + textWidth width gs

/-- The cursor column a scrolled input should show: the prompt's end plus the display width of the visible
    graphemes before the cursor (`k` of them). -/
def cursorAtGrapheme {G : Type} (width : G → Int) (col : Int) (vis : List G) (k : Nat) : Int :=
  col + textWidth width (vis.take k)

end VaxisModel.Spec.EditorView
