/-
What the application's screen *means* for a terminal: `shown` maps a vaxis Style to the displayed
style under a capability set (the C07 fallbacks: palette index when the terminal has no RGB,
plain underline / no underline colour when it has no styled underlines), `expected` reads the
application's grid left to right with wide glyphs shadowing the cells they cover.
-/
import VaxisModel.Spec.Display

namespace VaxisModel.Spec.Expected
open VaxisModel.Spec VaxisModel.Spec.Display
open VaxisModel.Model.Render (Cell Style Caps Grid hasBit)
open VaxisModel.Model

def colOf (caps : Caps) (c : Nat) : Col :=
  match Color.params (if caps.rgb then c else Color.asIndex c) with
  | [i] => .idx i
  | [r, g, b] => .rgb r g b
  | _ => .default

def shown (caps : Caps) (s : Style) : TStyle :=
  { fg := colOf caps s.fg
    bg := colOf caps s.bg
    ul := if caps.styledUnderlines then colOf caps s.ul else .default
    ulStyle := if caps.styledUnderlines then (if s.ulStyle ≤ 5 then s.ulStyle else 1)
               else (if s.ulStyle = 0 then 0 else 1)
    bold := hasBit s.attr Render.attrBold
    dim := hasBit s.attr Render.attrDim
    italic := hasBit s.attr Render.attrItalic
    blink := hasBit s.attr Render.attrBlink
    reverse := hasBit s.attr Render.attrReverse
    hidden := hasBit s.attr Render.attrInvisible
    strike := hasBit s.attr Render.attrStrikethrough }

/-- OSC 8 is `OSC 8 ; params ; URI ST` (params: `key=value` pairs separated by `:`), so a parameter
    field cannot contain `;`: what a terminal can be told of an application's parameter string is
    the part before its first `;` (byte 0x3b).  Strings are hex, two characters per byte. -/
def paramFieldL : List Char → List Char
  | [] => []
  | [a] => [a]
  | a :: b :: r => if (a, b) = ('3', 'b') then [] else a :: b :: paramFieldL r

def paramField (s : String) : String := String.ofList (paramFieldL s.toList)

/-- Resolved display width of a cell (Go `int`). -/
def cellWidth (cw : String → Nat) (c : Cell) : Int := if c.w = 0 then (cw c.g : Int) else c.w

def expectedCell (cw : String → Nat) (caps : Caps) (c : Cell) : DCell :=
  let w := cellWidth cw c
  let lp := paramField (if c.style.link = "" then "" else c.style.linkParams)
  if w ≤ 0 then .glyph "20" 1 (shown caps c.style) lp c.style.link
  else .glyph c.g w.toNat (shown caps c.style) lp c.style.link

def expectedRow (cw : String → Nat) (caps : Caps) : Nat → List Cell → List DCell
  | _, [] => []
  | skip + 1, _ :: cs => .cont :: expectedRow cw caps skip cs
  | 0, c :: cs => expectedCell cw caps c :: expectedRow cw caps ((cellWidth cw c).toNat - 1) cs

def expected (cw : String → Nat) (caps : Caps) (g : Grid) : List (List DCell) :=
  g.map (expectedRow cw caps 0)

end VaxisModel.Spec.Expected
