/-
What the application's screen means for a terminal when a glyph does not fit (written from the
property text: "never relies on terminal-specific behaviour" — a glyph that is wider than the rest
of its row cannot be shown, so the cell shows a blank in the style the application set there, the
way a terminal with deterministic clipping shows it; everything else is `Spec.Expected`).
Independent of the renderer model: no use of `clipCell`/`clipRow`.
-/
import VaxisModel.Spec.Expected

namespace VaxisModel.Spec.Expected
open VaxisModel.Spec VaxisModel.Spec.Display
open VaxisModel.Model.Render (Cell Style Caps Grid)

/-- A blank of width 1 in the cell's style (and hyperlink). -/
def blankOf (caps : Caps) (c : Cell) : DCell :=
  .glyph "20" 1 (shown caps c.style) (paramField (if c.style.link = "" then "" else c.style.linkParams)) c.style.link

/-- `expectedRow`, with a glyph that does not fit in the rest of its row shown as a blank. -/
def expectedRowC (cw : String → Nat) (caps : Caps) : Nat → List Cell → List DCell
  | _, [] => []
  | skip + 1, _ :: cs => .cont :: expectedRowC cw caps skip cs
  | 0, c :: cs =>
      if (cellWidth cw c).toNat ≤ cs.length + 1 then
        expectedCell cw caps c :: expectedRowC cw caps ((cellWidth cw c).toNat - 1) cs
      else blankOf caps c :: expectedRowC cw caps 0 cs

def expectedC (cw : String → Nat) (caps : Caps) (g : Grid) : List (List DCell) :=
  g.map (expectedRowC cw caps 0)

end VaxisModel.Spec.Expected
