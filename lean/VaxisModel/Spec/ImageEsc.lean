/-!
# Image escapes on the wire: lexer and gating oracle (C07, round 4)

Written from the protocols (ECMA-48 string controls; kitty graphics protocol; DEC sixel), independent
of image.go.  The lexer splits a byte stream into

* `APC`  = `ESC _ … ESC \`  (kitty graphics when the payload starts with `G`: control data
  `key=value,…` up to the first `;`, then the base64 payload),
* `DCS`  = `ESC P … ESC \`  (sixel when the payload is `digits/;`* followed by `q`),
* `CSI`  = `ESC [ params intermediates final`,
* `OSC`  = `ESC ] … (BEL | ESC \)`,
* everything else (text, C0 controls, two-byte escapes).

The oracle is the clause of C07 for images: a kitty graphics command is written only if the terminal
answered the kitty graphics query at start-up; sixel data only if it advertised sixel (DA1 attribute 4
or an XTSMGRAPHICS reply); with neither, no APC and no DCS at all (the fallback is the block image:
ordinary cells); and, for the cells of that fallback, no direct-colour SGR unless RGB was advertised
and no synchronized-update bracket unless mode 2026 was.  Core Lean only.
-/
namespace VaxisModel.Spec.ImageEsc

inductive Tok where
  | apc (payload : List Nat) (terminated : Bool)
  | dcs (payload : List Nat) (terminated : Bool)
  | osc (payload : List Nat)
  | csi (body : List Nat)          -- parameters, intermediates and the final byte
  | esc (b : Nat)                  -- any other two-byte escape
  | other (n : Nat)                -- a run of n other bytes
  deriving Repr, DecidableEq

/-- Bytes up to `ESC \` (not included); `none` if the string is not terminated. -/
def untilST : List Nat → List Nat → Option (List Nat × List Nat)
  | [], _ => none
  | 0x1b :: 0x5c :: rest, acc => some (acc.reverse, rest)
  | b :: rest, acc => untilST rest (b :: acc)

/-- Bytes up to BEL or `ESC \`. -/
def untilSTorBEL : List Nat → List Nat → Option (List Nat × List Nat)
  | [], _ => none
  | 0x07 :: rest, acc => some (acc.reverse, rest)
  | 0x1b :: 0x5c :: rest, acc => some (acc.reverse, rest)
  | b :: rest, acc => untilSTorBEL rest (b :: acc)

/-- A CSI body: bytes 0x20..0x3f then one final byte 0x40..0x7e. -/
def csiBody : List Nat → List Nat → List Nat × List Nat
  | [], acc => (acc.reverse, [])
  | b :: rest, acc =>
    if 0x40 ≤ b ∧ b ≤ 0x7e then ((b :: acc).reverse, rest)
    else if 0x20 ≤ b ∧ b ≤ 0x3f then csiBody rest (b :: acc)
    else (acc.reverse, b :: rest)

def pushOther : List Tok → List Tok
  | .other n :: r => .other (n + 1) :: r
  | r => .other 1 :: r

/-- The lexer (fuel = number of bytes; every step consumes at least one). -/
def lexAux : Nat → List Nat → List Tok → List Tok
  | 0, _, acc => acc.reverse
  | _, [], acc => acc.reverse
  | fuel + 1, 0x1b :: 0x5f :: rest, acc =>
    match untilST rest [] with
    | some (p, rest') => lexAux fuel rest' (.apc p true :: acc)
    | none => (.apc rest false :: acc).reverse
  | fuel + 1, 0x1b :: 0x50 :: rest, acc =>
    match untilST rest [] with
    | some (p, rest') => lexAux fuel rest' (.dcs p true :: acc)
    | none => (.dcs rest false :: acc).reverse
  | fuel + 1, 0x1b :: 0x5d :: rest, acc =>
    match untilSTorBEL rest [] with
    | some (p, rest') => lexAux fuel rest' (.osc p :: acc)
    | none => (.osc rest :: acc).reverse
  | fuel + 1, 0x1b :: 0x5b :: rest, acc =>
    let (b, rest') := csiBody rest []
    lexAux fuel rest' (.csi b :: acc)
  | fuel + 1, 0x1b :: b :: rest, acc => lexAux fuel rest (.esc b :: acc)
  | fuel + 1, _ :: rest, acc => lexAux fuel rest (pushOther acc)

def lex (bs : List Nat) : List Tok := lexAux (bs.length + 1) bs []

/-! ### kitty graphics control data -/

def splitOnByte (sep : Nat) : List Nat → List Nat → List (List Nat)
  | [], cur => [cur.reverse]
  | b :: r, cur => if b = sep then cur.reverse :: splitOnByte sep r [] else splitOnByte sep r (b :: cur)

def strOf (bs : List Nat) : String := String.ofList (bs.map Char.ofNat)

/-- `key=value` pairs of a kitty graphics APC payload (`G` already removed), and the length of the data part. -/
def kittyControl (p : List Nat) : List (String × String) × Nat :=
  let ctl := p.takeWhile (· ≠ 0x3b)
  let data := (p.dropWhile (· ≠ 0x3b)).drop 1
  ((splitOnByte 0x2c ctl []).filterMap fun kv =>
    match splitOnByte 0x3d kv [] with
    | [k, v] => some (strOf k, strOf v)
    | _ => none, data.length)

def key (kv : List (String × String)) (k : String) : Option String := kv.lookup k

/-- What a kitty graphics command does: `a=` if present, else a transmission (`t`, the protocol's default action). -/
def kittyAction (kv : List (String × String)) : String := (key kv "a").getD "t"

def isKittyAPC : Tok → Bool
  | .apc (0x47 :: _) _ => true
  | _ => false

/-- A sixel DCS: `P1;P2;P3 q …` — only digits and `;` before the final `q` (no intermediates, which
distinguishes it from DECRQSS `$q` and XTGETTCAP `+q`). -/
def isSixelDCS : Tok → Bool
  | .dcs p _ => ((p.dropWhile fun b => (0x30 ≤ b ∧ b ≤ 0x39) ∨ b = 0x3b).head?) == some 0x71
  | _ => false

def isAPC : Tok → Bool | .apc _ _ => true | _ => false
def isDCS : Tok → Bool | .dcs _ _ => true | _ => false

/-- An SGR with a direct colour (`38:2`, `48:2`, `58:2`, also the legacy `;2;` forms). -/
def hasSub (needle : List Nat) : List Nat → Bool
  | [] => needle.isEmpty
  | b :: r => needle.isPrefixOf (b :: r) || hasSub needle r

def isDirectColourSGR : Tok → Bool
  | .csi b => b.getLast? == some 0x6d &&
      (let s := 0x3b :: b   -- so that a leading parameter is preceded by a separator as well
       [[0x3b, 0x33, 0x38, 0x3a, 0x32], [0x3b, 0x34, 0x38, 0x3a, 0x32], [0x3b, 0x35, 0x38, 0x3a, 0x32],
        [0x3b, 0x33, 0x38, 0x3b, 0x32, 0x3b], [0x3b, 0x34, 0x38, 0x3b, 0x32, 0x3b], [0x3b, 0x35, 0x38, 0x3b, 0x32, 0x3b]].any fun n => hasSub n s)
  | _ => false

/-- `CSI ? 2026 h` / `CSI ? 2026 l`. -/
def isSyncBracket : Tok → Bool
  | .csi b => b == [0x3f, 0x32, 0x30, 0x32, 0x36, 0x68] || b == [0x3f, 0x32, 0x30, 0x32, 0x36, 0x6c]
  | _ => false

/-- What the terminal advertised at start-up, as far as this oracle needs it. -/
structure Adv where
  kitty : Bool      -- answered the kitty graphics query
  sixel : Bool      -- DA1 attribute 4 or an XTSMGRAPHICS reply
  rgb : Bool        -- XTGETTCAP RGB (COLORTERM is unset in the harness)
  sync : Bool       -- DECRPM 2026

def describeKitty : Tok → String
  | .apc (0x47 :: p) term =>
    let (kv, n) := kittyControl p
    s!"a={kittyAction kv} i={(key kv "i").getD "-"}" ++ (match key kv "m" with | some m => s!" m={m}" | none => "") ++
      (match key kv "f" with | some f => s!" f={f}" | none => "") ++ s!" payload={n}" ++ (if term then "" else " unterminated")
  | _ => "?"

/-- The oracle on the bytes of one phase: `none` = nothing forbidden. -/
def judge (a : Adv) (phase : String) (toks : List Tok) : Option String :=
  let checks : List (Option String) := [
    (match toks.find? isKittyAPC with
     | some t => if a.kitty then none else
        some s!"kitty graphics command ({describeKitty t}) written in {phase} although the terminal did not answer the kitty graphics query"
     | none => none),
    (if toks.any isSixelDCS && !a.sixel then
      some s!"sixel data (DCS … q) written in {phase} although the terminal advertised no sixel support" else none),
    (if !a.kitty && !a.sixel && toks.any (fun t => isAPC t || isDCS t) then
      some s!"an APC / DCS string written in {phase} although no graphics protocol was advertised (the fallback is the block image: ordinary cells)" else none),
    (if !a.rgb && toks.any isDirectColourSGR then
      some s!"direct-colour SGR written in {phase} although RGB was not advertised" else none),
    (if !a.sync && toks.any isSyncBracket then
      some s!"synchronized-update bracket (2026) written in {phase} although it was not advertised" else none)]
  checks.findSome? id

/-- Summary of the image escapes of a token list: kitty actions seen (`t` transmit, `p` place, `d` delete, others), sixel. -/
structure Seen where
  t : Bool := false
  p : Bool := false
  d : Bool := false
  otherKitty : Bool := false
  sixel : Bool := false
  otherString : Bool := false
  deriving Repr, DecidableEq

def see (s : Seen) : Tok → Seen
  | .apc (0x47 :: p) _ =>
    match kittyAction (kittyControl p).1 with
    | "t" => { s with t := true }
    | "T" => { s with t := true, p := true }
    | "p" => { s with p := true }
    | "d" => { s with d := true }
    | _ => { s with otherKitty := true }
  | .apc _ _ => { s with otherString := true }
  | tk@(.dcs _ _) => if isSixelDCS tk then { s with sixel := true } else { s with otherString := true }
  | _ => s

def Seen.canon (s : Seen) : String :=
  let ks := (if s.t then "t" else "") ++ (if s.p then "p" else "") ++ (if s.d then "d" else "") ++ (if s.otherKitty then "?" else "")
  let parts := (if ks == "" then [] else [s!"kitty:{ks}"]) ++ (if s.sixel then ["sixel"] else []) ++ (if s.otherString then ["string"] else [])
  if parts.isEmpty then "none" else ",".intercalate parts

/-- Kitty transmissions are chunked: every chunk but the last of an image carries `m=1`; the image may
be placed only after a chunk with `m=0` (or without `m`) has closed the transmission.  Returns the
first offence.  (Shape of the protocol, reported as a note of the driver, not part of C07's verdict.) -/
def chunkingOK : List Tok → Bool → Bool
  | [], _ => true
  | .apc (0x47 :: p) _ :: r, open_ =>
    let kv := (kittyControl p).1
    match kittyAction kv with
    | "t" => chunkingOK r ((key kv "m") == some "1")
    | "p" => !open_ && chunkingOK r open_
    | _ => chunkingOK r open_
  | _ :: r, open_ => chunkingOK r open_

end VaxisModel.Spec.ImageEsc
