/-
Independent statement of what C20 demands of an image resize and of placement bookkeeping,
written from the property text, not from the code.  Core Lean only (used by the driver as oracle).
-/
namespace VaxisModel.Spec.Images

/-- Number of cells of `c` pixels needed to cover `x` pixels. -/
def ceilDiv (x c : Nat) : Nat := (x + c - 1) / c

/-- A `pw × ph` pixel image occupies at most `w × h` cells of `cw × ch` pixels. -/
def FitsBox (pw ph w h cw ch : Nat) : Prop := ceilDiv pw cw ≤ w ∧ ceilDiv ph ch ≤ h

/-- Never upscaled. -/
def NoUpscale (pw ph wPix hPix : Nat) : Prop := pw ≤ wPix ∧ ph ≤ hPix

/-- Aspect ratio kept to within one pixel (hence within one cell): `|pw·hPix − ph·wPix| ≤ max wPix hPix`,
    i.e. `pw/ph` and `wPix/hPix` differ by less than one pixel in either dimension. -/
def AspectKept (pw ph wPix hPix : Nat) : Prop :=
  pw * hPix ≤ ph * wPix + max wPix hPix ∧ ph * wPix ≤ pw * hPix + max wPix hPix

instance (pw ph w h cw ch : Nat) : Decidable (FitsBox pw ph w h cw ch) := by unfold FitsBox; infer_instance
instance (pw ph wPix hPix : Nat) : Decidable (NoUpscale pw ph wPix hPix) := by unfold NoUpscale; infer_instance
instance (pw ph wPix hPix : Nat) : Decidable (AspectKept pw ph wPix hPix) := by unfold AspectKept; infer_instance

/-! ### Pixels

Go's `image/color` conversions to the 16-bit alpha-premultiplied form returned by `RGBA()`. -/

/-- `color.NRGBA{r,g,b,a}.RGBA()`: `c |= c<<8; c *= a; c /= 0xff`, alpha `a |= a<<8` (8-bit inputs). -/
def nrgbaRGBA (r g b a : Nat) : Nat × Nat × Nat × Nat :=
  (r * 257 * a / 255, g * 257 * a / 255, b * 257 * a / 255, a * 257)

/-- `color.RGBA{r,g,b,a}.RGBA()` (already premultiplied): `c |= c<<8`. -/
def rgbaRGBA (r g b a : Nat) : Nat × Nat × Nat × Nat := (r * 257, g * 257, b * 257, a * 257)

/-- `color.Gray{y}.RGBA()`: `y |= y<<8` for the three channels, alpha `0xffff`. -/
def grayRGBA (y : Nat) : Nat × Nat × Nat × Nat := (y * 257, y * 257, y * 257, 0xffff)

/-- One channel of `color.YCbCr.RGBA()`: the 24-bit fixed-point value `v` shifted down to 16 bits and clamped
    (`if uint32(v)&0xff000000 == 0 { v >>= 8 } else { v = ^(v >> 31) & 0xffff }`: below zero ⇒ 0, 2²⁴ and above ⇒ 0xffff). -/
def ycbcrClamp (v : Int) : Nat := if v < 0 then 0 else if v < 16777216 then (v / 256).toNat else 0xffff

/-- `color.YCbCr{y, cb, cr}.RGBA()` (JFIF conversion in 16-bit precision, alpha `0xffff`):
    `yy1 := y * 0x10101; cb1 := cb - 128; cr1 := cr - 128; r := yy1 + 91881*cr1; g := yy1 - 22554*cb1 - 46802*cr1;
    b := yy1 + 116130*cb1`, each shifted and clamped. -/
def ycbcrRGBA (y cb cr : Nat) : Nat × Nat × Nat × Nat :=
  let yy1 : Int := (y : Int) * 65793
  let cb1 : Int := (cb : Int) - 128
  let cr1 : Int := (cr : Int) - 128
  (ycbcrClamp (yy1 + 91881 * cr1), ycbcrClamp (yy1 - 22554 * cb1 - 46802 * cr1), ycbcrClamp (yy1 + 116130 * cb1), 0xffff)

/-- A direct colour value `0x02RRGGBB` (flag bit 25 = RGB), by arithmetic. -/
def directColor (r g b : Nat) : Nat := 2 ^ 25 + r * 65536 + g * 256 + b

/-! ### Placement bookkeeping

A placement is identified by (id, col, row, w, h).  A history is a list of frames; a frame is the
list of placements drawn in it and whether it is a full refresh. -/

structure Placement where
  id : Nat
  col : Int
  row : Int
  w : Int
  h : Int
  deriving DecidableEq, Repr, Inhabited

structure Frame where
  placements : List Placement
  refresh : Bool
  deriving DecidableEq, Repr

/-- What must be transmitted in a frame given the previous frame's placements: every placement of
    the frame on refresh, otherwise exactly those with no identical placement in the previous frame. -/
def mustWrite (prev : List Placement) (f : Frame) : List Placement :=
  f.placements.filter fun p => f.refresh || !prev.contains p

/-- What must be deleted: every previous placement on refresh, otherwise those absent now. -/
def mustDelete (prev : List Placement) (f : Frame) : List Placement :=
  prev.filter fun p => f.refresh || !f.placements.contains p

/-- Expected (deletes, writes) of every frame of a history, starting with nothing on screen. -/
def expected : List Placement → List Frame → List (List Placement × List Placement)
  | _, [] => []
  | prev, f :: rest => (mustDelete prev f, mustWrite prev f) :: expected f.placements rest

/-- What an application does with image placements between and at frames: draw an image at a place
    (`Image.Draw`), clear the screen (`Window.Clear`), render, or force a full refresh. -/
inductive Op
  | draw (p : Placement)
  | clear
  | render
  | refresh
  deriving DecidableEq, Repr

/-- The frame history an op history asks for: the placements drawn since the last clear at each
    render, and whether the frame is a full refresh (`pending` = a refresh is already pending, as it
    is after start-up). -/
def framesOf (pending : Bool) (cur : List Placement) : List Op → List Frame
  | [] => []
  | .draw p :: r => framesOf pending (cur ++ [p]) r
  | .clear :: r => framesOf pending [] r
  | .render :: r => ⟨cur, pending⟩ :: framesOf false cur r
  | .refresh :: r => ⟨cur, true⟩ :: framesOf false cur r

end VaxisModel.Spec.Images
