/-!
# Spec: which events the application must see for a stream of well-formed terminal reports

Written from the property text and the protocols (xterm ctlseqs "SGR mouse mode 1006",
bracketed paste 2004, focus 1004), independently of `handleSequence`.

A *report* is what the terminal sends for one user action or one answer to a query.  Key
identity is opaque here (property C09 owns key decoding): a key report carries a token of an
arbitrary type `κ` (a string in the driver, the parsed sequence itself in the theorems).
-/
namespace VaxisModel.Spec.InputEvents

inductive Report (κ : Type)
  /-- a key press in some encoding; `et` is the kitty event type it carries (0 press …) -/
  | key (tok : κ) (et : Int)
  /-- `CSI < b ; x ; y M` (press/motion) or `… m` (release) -/
  | mouseSGR (b x y : Nat) (release : Bool)
  | focus (gained : Bool)
  | pasteStart | pasteEnd
  /-- an answer to one of Vaxis's queries, complete; consumed internally. `announces` = the
  capability notifications the reply stands for by the protocol (`none` = not pinned down) -/
  | reply (name : String) (announces : Option (List String) := some [])
  /-- in-band resize report (mode 2048): the application is told to redraw -/
  | replyInband (announces : Option (List String) := some [])
  /-- colour-theme report `CSI ? 997 ; m n`: delivered as a colour-theme update -/
  | replyTheme (mode : Nat)
  /-- a reply cut short (followed in the stream by a cancelling control) -/
  | truncated (name : String)
  deriving DecidableEq, Repr

/-- Application-visible events. -/
inductive UEvent (κ : Type)
  | key (tok : κ) (et : Int)
  | mouse (button : Nat) (col row : Int) (et : Nat) (mods : Nat)
  | focusIn | focusOut | pasteStart | pasteEnd
  | colorTheme (mode : Nat)
  | redraw
  deriving DecidableEq, Repr

def etPress : Nat := 0
def etRelease : Nat := 2
def etMotion : Nat := 3
def etPaste : Nat := 4

/-- SGR mouse decoding by arithmetic on the button value `b`:
bits 0–1 and 6–7 give the button number (0–2 buttons, 3 none, 64… wheel, 128… extra),
bit 2 shift, bit 3 alt (meta), bit 4 ctrl, bit 5 motion; coordinates are 1-based. -/
def mouseEvent {κ : Type} (b x y : Nat) (release : Bool) : UEvent κ :=
  let button := b % 4 + (b / 64 % 4) * 64
  let et := if b / 32 % 2 == 1 then etMotion else if release then etRelease else etPress
  let mods := (b / 4 % 2) * 1 + (b / 8 % 2) * 2 + (b / 16 % 2) * 4
  .mouse button ((x : Int) - 1) ((y : Int) - 1) et mods

/-- One event per report, in stream order; keys between the paste brackets are marked pasted;
replies produce nothing the application can see, except the two notifications. -/
def specEvents {κ : Type} : Bool → List (Report κ) → List (UEvent κ)
  | _, [] => []
  | inPaste, r :: rs =>
    match r with
    | .key tok et => .key tok (if inPaste then (etPaste : Int) else et) :: specEvents inPaste rs
    | .mouseSGR b x y rel => mouseEvent b x y rel :: specEvents inPaste rs
    | .focus true => .focusIn :: specEvents inPaste rs
    | .focus false => .focusOut :: specEvents inPaste rs
    | .pasteStart => .pasteStart :: specEvents true rs
    | .pasteEnd => .pasteEnd :: specEvents false rs
    | .reply _ _ => specEvents inPaste rs
    | .replyInband _ => .redraw :: specEvents inPaste rs
    | .replyTheme m => .colorTheme m :: specEvents inPaste rs
    | .truncated _ => specEvents inPaste rs

/-- The internal capability notifications the stream must produce, in order (`none` when some
report leaves them unspecified): a failure reply announces nothing, a positive one exactly the
capability it names. -/
def specInternal {κ : Type} : List (Report κ) → Option (List String)
  | [] => some []
  | .reply _ ann :: rs | .replyInband ann :: rs => do
      let a ← ann
      let r ← specInternal rs
      pure (a ++ r)
  | .truncated _ :: _ => none
  | _ :: rs => specInternal rs

def UEvent.canon : UEvent String → String
  | .key tok et => s!"K/{tok}/{et}"
  | .mouse b c r et m => s!"M/{b}/{r}/{c}/{et}/{m}"
  | .focusIn => "FI" | .focusOut => "FO" | .pasteStart => "PS" | .pasteEnd => "PE"
  | .colorTheme m => s!"CT/{m}"
  | .redraw => "RD"

end VaxisModel.Spec.InputEvents
