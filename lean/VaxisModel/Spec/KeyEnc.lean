/-
Independent specification for C09 / C13, written from the protocol documents (xterm ctlseqs "PC-Style
Function Keys", "VT220-Style Function Keys", "Alt and Meta Keys"; the kitty keyboard protocol
"Functional key definitions", "Key codes", "Modifiers", "Event types", "Text as code points") and
from the doc comment of `Key.Matches` — not from the bodies of the Go functions.

* `functional`   : which (number, final byte) reports which key (both legacy and kitty forms).
* `kittySeq`     : CSI `number[:shifted[:base]] ; mods+1[:event+1] ; text… final` for every
                   combination of optional fields; `kittyExpected` the key it denotes.
* `legacy*`      : the legacy byte / C0 / ESC-prefix / SS3 encodings and the key each denotes.
* `matchSpec`    : the documented six-rule disjunction of `Key.Matches`.
* `xtermLegacy`  : the xterm legacy *encoder* used as the C13 reference.
Core Lean only.
-/
import VaxisModel.Model.Key

namespace VaxisModel.Spec.KeyEnc
open VaxisModel.Model.Key
open VaxisModel.Gen.Keys

/-! ## Modifier bits (kitty keyboard protocol: shift 1, alt 2, ctrl 4, super 8, hyper 16, meta 32,
caps_lock 64, num_lock 128) -/
def shiftBit : Nat := 1
def altBit : Nat := 2
def ctrlBit : Nat := 4
def superBit : Nat := 8
def hyperBit : Nat := 16
def metaBit : Nat := 32
def capsBit : Nat := 64
def numBit : Nat := 128

/-- The modifiers that must be identical for a binding to fire. -/
def strongMask : Nat := ctrlBit ||| altBit ||| superBit ||| hyperBit ||| metaBit
def strong (m : Nat) : Nat := m &&& strongMask
def stripLocks (m : Nat) : Nat := andNot m (capsBit ||| numBit)
def unshift (m : Nat) : Nat := andNot m shiftBit

/-! ## Which report denotes which key -/

/-- (number, final byte) ↦ key.  Rows 1–3: kitty "functional key definitions" (legacy-compatible
    forms and the Private-Use-Area numbers); row 4: xterm / VT220 / rxvt / linux-console forms. -/
def functional : List ((Int × Int) × Int) := [
  ((27, 117), KeyEsc), ((13, 117), KeyEnter), ((9, 117), KeyTab), ((127, 117), KeyBackspace),
  ((2, 126), KeyInsert), ((3, 126), KeyDelete),
  ((1, 68), KeyLeft), ((1, 67), KeyRight), ((1, 65), KeyUp), ((1, 66), KeyDown),
  ((5, 126), KeyPgUp), ((6, 126), KeyPgDown),
  ((1, 72), KeyHome), ((7, 126), KeyHome), ((1, 70), KeyEnd), ((8, 126), KeyEnd),
  ((57358, 117), KeyCapsLock), ((57359, 117), KeyScrollLock), ((57360, 117), KeyNumlock),
  ((57361, 117), KeyPrintScreen), ((57362, 117), KeyPause), ((57363, 117), KeyMenu),
  ((1, 80), KeyF01), ((11, 126), KeyF01), ((1, 81), KeyF02), ((12, 126), KeyF02),
  ((13, 126), KeyF03), ((1, 83), KeyF04), ((14, 126), KeyF04),
  ((15, 126), KeyF05), ((17, 126), KeyF06), ((18, 126), KeyF07), ((19, 126), KeyF08),
  ((20, 126), KeyF09), ((21, 126), KeyF10), ((23, 126), KeyF11), ((24, 126), KeyF12),
  ((57376, 117), KeyF13), ((57377, 117), KeyF14), ((57378, 117), KeyF15), ((57379, 117), KeyF16),
  ((57380, 117), KeyF17), ((57381, 117), KeyF18), ((57382, 117), KeyF19), ((57383, 117), KeyF20),
  ((57384, 117), KeyF21), ((57385, 117), KeyF22), ((57386, 117), KeyF23), ((57387, 117), KeyF24),
  ((57388, 117), KeyF25), ((57389, 117), KeyF26), ((57390, 117), KeyF27), ((57391, 117), KeyF28),
  ((57392, 117), KeyF29), ((57393, 117), KeyF30), ((57394, 117), KeyF31), ((57395, 117), KeyF32),
  ((57396, 117), KeyF33), ((57397, 117), KeyF34), ((57398, 117), KeyF35),
  ((57399, 117), KeyKeyPad0), ((57400, 117), KeyKeyPad1), ((57401, 117), KeyKeyPad2),
  ((57402, 117), KeyKeyPad3), ((57403, 117), KeyKeyPad4), ((57404, 117), KeyKeyPad5),
  ((57405, 117), KeyKeyPad6), ((57406, 117), KeyKeyPad7), ((57407, 117), KeyKeyPad8),
  ((57408, 117), KeyKeyPad9), ((57409, 117), KeyKeyPadDecimal), ((57410, 117), KeyKeyPadDivide),
  ((57411, 117), KeyKeyPadMultiply), ((57412, 117), KeyKeyPadSubtract), ((57413, 117), KeyKeyPadAdd),
  ((57414, 117), KeyKeyPadEnter), ((57415, 117), KeyKeyPadEqual), ((57416, 117), KeyKeyPadSeparator),
  ((57417, 117), KeyKeyPadLeft), ((57418, 117), KeyKeyPadRight), ((57419, 117), KeyKeyPadUp),
  ((57420, 117), KeyKeyPadDown), ((57421, 117), KeyKeyPadPageUp), ((57422, 117), KeyKeyPadPageDown),
  ((57423, 117), KeyKeyPadHome), ((57424, 117), KeyKeyPadEnd), ((57425, 117), KeyKeyPadInsert),
  ((57426, 117), KeyKeyPadDelete), ((1, 69), KeyKeyPadBegin), ((57427, 126), KeyKeyPadBegin),
  ((57428, 117), KeyMediaPlay), ((57429, 117), KeyMediaPause), ((57430, 117), KeyMediaPlayPause),
  ((57431, 117), KeyMediaRev), ((57432, 117), KeyMediaStop), ((57433, 117), KeyMediaFF),
  ((57434, 117), KeyMediaRewind), ((57435, 117), KeyMediaNext), ((57436, 117), KeyMediaPrev),
  ((57437, 117), KeyMediaRecord), ((57438, 117), KeyMediaVolDown), ((57439, 117), KeyMediaVolUp),
  ((57440, 117), KeyMediaMute),
  ((57441, 117), KeyLeftShift), ((57442, 117), KeyLeftControl), ((57443, 117), KeyLeftAlt),
  ((57444, 117), KeyLeftSuper), ((57445, 117), KeyLeftHyper), ((57446, 117), KeyLeftMeta),
  ((57447, 117), KeyRightShift), ((57448, 117), KeyRightControl), ((57449, 117), KeyRightAlt),
  ((57450, 117), KeyRightSuper), ((57451, 117), KeyRightHyper), ((57452, 117), KeyRightMeta),
  ((57453, 117), KeyL3Shift), ((57454, 117), KeyL5Shift),
  -- xterm (F3 = CSI 1 R / SS3 R), VT220 Find/Select and linux console Home/End, VT220 F13–F20
  ((1, 82), KeyF03), ((1, 126), KeyHome), ((4, 126), KeyEnd),
  ((25, 126), KeyF13), ((26, 126), KeyF14), ((28, 126), KeyF15), ((29, 126), KeyF16),
  ((31, 126), KeyF17), ((32, 126), KeyF18), ((33, 126), KeyF19), ((34, 126), KeyF20)]

/-- SS3 finals (xterm application cursor keys — Up Down Right Left, Begin (`SS3 E`, xterm's `curfinal` table; terminfo
    `kb2=\EOE`), End, Home — and the PF keys). -/
def ss3Table : List (Int × Int) := [
  (65, KeyUp), (66, KeyDown), (67, KeyRight), (68, KeyLeft), (69, KeyKeyPadBegin), (70, KeyEnd), (72, KeyHome),
  (80, KeyF01), (81, KeyF02), (82, KeyF03), (83, KeyF04)]

/-! ## Chords and the kitty report -/

structure Chord where
  /-- the key: a Unicode code point (un-shifted key) or one of the `Key*` constants -/
  key : Int
  mods : Nat := 0
  /-- 0 press, 1 repeat, 2 release -/
  event : Int := 0
  shifted : Int := 0
  base : Int := 0
  text : Str := []
deriving DecidableEq, Repr

/-- Which optional fields a kitty report carries. -/
structure Form where
  withShifted : Bool := false
  withBase : Bool := false     -- implies the shifted slot is present (possibly empty = 0)
  withMods : Bool := false
  withEvent : Bool := false    -- sub-field of the modifier field
  withText : Bool := false     -- needs the modifier field (possibly empty = 0)
deriving DecidableEq, Repr

def Form.hasMods (f : Form) : Bool := f.withMods || f.withEvent

/-- `CSI number[:shifted[:base]] [; mods+1[:event+1] [; text…]] final` as a parsed sequence.
    An omitted field that must be present as a place-holder is empty, which parses as 0. -/
def kittySeq (number final : Int) (c : Chord) (f : Form) : Seq :=
  let p0 := if f.withBase then [number, if f.withShifted then c.shifted else 0, c.base]
            else if f.withShifted then [number, c.shifted] else [number]
  let p1 := if f.withEvent then [(c.mods : Int) + 1, c.event + 1]
            else if f.withMods then [(c.mods : Int) + 1] else [0]
  let params := if f.withText then [p0, p1, c.text]
                else if f.hasMods then [p0, p1] else [p0]
  .csi params final

/-- The Shift work-around vaxis documents: a report with no text whose modifiers (locks aside) are
    exactly Shift and whose key is printable gets as text the character Shift produces: the shifted
    code the report carries if it carries a printable one, else the upper-cased key. -/
def shiftFix (u : Uni) (k : Key) : Key :=
  if k.text = [] ∧ stripLocks k.mods = shiftBit ∧ u.isPrint k.keycode = true then
    { k with text := strOfRune (if u.isPrint k.shifted = true then k.shifted else u.toUpper k.keycode) } else k

def kittyExpected (u : Uni) (c : Chord) (f : Form) : Key :=
  shiftFix u {
    keycode := c.key
    shifted := if f.withShifted then c.shifted else 0
    base := if f.withBase then c.base else 0
    mods := if f.hasMods then c.mods else 0
    event := if f.withEvent then c.event else 0
    text := if f.withText then c.text else [] }

/-! ## Legacy reports -/

/-- A printable character `ch` (first code point of the grapheme `g`). Upper-case letters are
    reported as Shift + the lower-case letter; DEL is BackSpace and carries no text. -/
def printExpected (u : Uni) (g : Str) : Key :=
  let ch := g.headD 0
  if u.isUpper ch then { keycode := u.toLower ch, shifted := ch, mods := shiftBit, text := g }
  else if ch = 0x7F then { keycode := KeyBackspace }
  else { keycode := ch, text := g }

/-- C0 bytes: BS, HT, CR, ESC are the keys BackSpace, Tab, Enter, Escape; the others are
    Ctrl + the character xterm derives them from (`@`, `a`–`z`, `\ ] ^ _`). -/
def c0Expected (b : Int) : Key :=
  if b = 8 then { keycode := KeyBackspace }
  else if b = 9 then { keycode := KeyTab }
  else if b = 13 then { keycode := KeyEnter }
  else if b = 27 then { keycode := KeyEsc }
  else { keycode := (if 1 ≤ b ∧ b ≤ 26 then 96 + b else 64 + b), mods := ctrlBit }

/-- ESC-prefixed character: Alt + that character; an upper-case letter is Alt + Shift + its
    lower-case, exactly as the unprefixed letter is Shift + its lower-case. -/
def escExpected (u : Uni) (final : Int) : Key :=
  if u.isUpper final then { keycode := u.toLower final, shifted := final, mods := altBit ||| shiftBit }
  else { keycode := final, mods := altBit }

/-- Keys a user can press: a character key (code point ≥ 32; 127 is BackSpace), Tab / Enter / Escape,
    or one of the named function-key constants. -/
def realKey (kc : Int) : Bool :=
  (decide (32 ≤ kc) && validRune kc) || decide (kc = KeyTab) || decide (kc = KeyEnter) || decide (kc = KeyEsc) ||
  (decide (KeyUp ≤ kc) && decide (kc ≤ KeyKeyPadBegin))

/-- A chord "the user pressed": a press or repeat of a real key with an 8-bit modifier mask. -/
def pressedChord (k : Key) : Bool :=
  realKey k.keycode && (decide (k.event = EventPress) || decide (k.event = EventRepeat)) && decide (k.mods < 256)

/-! ## The documented matching rules -/

/-- `Key.Matches` as its doc comment states it (rules 1–6, lock modifiers removed first). -/
def matchSpec (u : Uni) (k : Key) (key : Int) (m : Nat) : Prop :=
  let M := stripLocks m
  let K := stripLocks k.mods
  (k.keycode = key ∧ M = K) ∨
  (k.text = strOfRune key ∧ M = K) ∨
  (k.shifted = key ∧ M = unshift K) ∨
  (k.base = key ∧ M = K) ∨
  (u.isLetter key = false ∧ u.isGraphic key = true ∧ (k.keycode = key ∨ k.shifted = key) ∧ unshift M = unshift K) ∨
  (M &&& shiftBit ≠ 0 ∧ u.isLower key = true ∧ u.toUpper key ≠ key ∧ k.text = strOfRune (u.toUpper key) ∧ unshift M = unshift K)

instance (u : Uni) (k : Key) (key : Int) (m : Nat) : Decidable (matchSpec u k key m) := by
  unfold matchSpec; exact inferInstance

/-! ## The xterm legacy encoder (reference for C13 and for the cross-protocol statement) -/

/-- Keys xterm reports as `CSI 1 ; m <letter>` (modified) / `CSI <letter>` or `SS3 <letter>` (plain). -/
def xtermLetterKeys : List (Int × Int) := [
  (KeyUp, 65), (KeyDown, 66), (KeyRight, 67), (KeyLeft, 68), (KeyEnd, 70), (KeyHome, 72),
  (KeyF01, 80), (KeyF02, 81), (KeyF03, 82), (KeyF04, 83),
  -- the Begin key (keypad 5 without Num Lock): `CSI E`, `SS3 E` in application cursor key mode, `CSI 1 ; m E`
  (KeyKeyPadBegin, 69)]

/-- Keys xterm reports as `CSI n ~` / `CSI n ; m ~`. -/
def xtermTildeKeys : List (Int × Int) := [
  (KeyInsert, 2), (KeyDelete, 3), (KeyPgUp, 5), (KeyPgDown, 6),
  (KeyF05, 15), (KeyF06, 17), (KeyF07, 18), (KeyF08, 19), (KeyF09, 20), (KeyF10, 21),
  (KeyF11, 23), (KeyF12, 24)]

def isCursorFinal (f : Int) : Bool := f = 65 ∨ f = 66 ∨ f = 67 ∨ f = 68 ∨ f = 69 ∨ f = 70 ∨ f = 72

/-- Ctrl + character ↦ C0 byte, for the characters xterm maps (`@ a–z [ \ ] ^ _`). -/
def ctrlByte (ch : Int) : Option Int :=
  if 97 ≤ ch ∧ ch ≤ 122 then some (ch - 96)
  else if ch = 64 ∨ (91 ≤ ch ∧ ch ≤ 95) then some (ch - 64)
  else none

/-- The single parsed sequence by which xterm's legacy protocol reports the chord `key` + `mods`
    (`mods ⊆ Shift|Alt|Ctrl`; `shifted` = the character Shift produces on that key, for character
    keys), or `none` if the legacy protocol has no single unambiguous report for it.
    `decckm` = application cursor keys. -/
def xtermLegacy (key : Int) (mods : Nat) (shifted : Int) (decckm : Bool) : Option Seq :=
  let shift := mods &&& shiftBit ≠ 0
  let alt := mods &&& altBit ≠ 0
  let ctrl := mods &&& ctrlBit ≠ 0
  if mods ≥ 8 then none
  else match lookup key (xtermLetterKeys.map fun (k, f) => (k, f)) with
  | some f =>
    if mods = 0 then (if isCursorFinal f then (if decckm then some (.ss3 f) else some (.csi [] f)) else some (.ss3 f))
    else some (.csi [[1], [(mods : Int) + 1]] f)
  | none =>
  match lookup key xtermTildeKeys with
  | some n => if mods = 0 then some (.csi [[n]] 126) else some (.csi [[n], [(mods : Int) + 1]] 126)
  | none =>
  if key = KeyTab then (if mods = 0 then some (.c0 9) else if mods = shiftBit then some (.csi [] 90) else none)
  else if key = KeyEnter then (if mods = 0 then some (.c0 13) else none)
  else if key = KeyEsc then (if mods = 0 then some (.c0 27) else none)
  else if key = KeyBackspace then (if mods = 0 then some (.print [127]) else if mods = altBit then some (.esc 127) else none)
  else if 32 ≤ key ∧ key < 127 then
    -- Shift on a non-letter key is not a chord the legacy protocol reports: it sends the other
    -- character of the key (`!` for Shift+1) and nothing says which key produced it
    if shift ∧ ¬(97 ≤ key ∧ key ≤ 122) then none
    else if ctrl then
      if shift ∨ alt then none
      else match ctrlByte key with
        | some b => if b = 8 ∨ b = 9 ∨ b = 13 ∨ b = 27 then none else some (.c0 b)
        | none => none
    else
      let ch := if shift then shifted else key
      if ch < 32 ∨ ch ≥ 127 then none
      else if alt then
        -- ESC + 0x20–0x2F is an escape sequence with an intermediate byte; ESC O, ESC P, ESC [, ESC \,
        -- ESC ], ESC X, ESC ^, ESC _ introduce SS3 / DCS / CSI / ST / OSC / SOS / PM / APC
        (if ch < 48 ∨ ch = 79 ∨ ch = 80 ∨ ch = 91 ∨ ch = 93 ∨ ch = 88 ∨ ch = 94 ∨ ch = 95 ∨ ch = 92 then none else some (.esc ch))
      else some (.print [ch])
  else none

/-! ## Go's `unicode` tables restricted to ASCII (what the functions return on runes < 128) -/

def asciiUni : Uni where
  isUpper r := decide (65 ≤ r ∧ r ≤ 90)
  isLower r := decide (97 ≤ r ∧ r ≤ 122)
  isLetter r := decide ((65 ≤ r ∧ r ≤ 90) ∨ (97 ≤ r ∧ r ≤ 122))
  isGraphic r := decide (32 ≤ r ∧ r ≤ 126)
  isPrint r := decide (32 ≤ r ∧ r ≤ 126)
  toUpper r := if 97 ≤ r ∧ r ≤ 122 then r - 32 else r
  toLower r := if 65 ≤ r ∧ r ≤ 90 then r + 32 else r
  foldEq a b := decide (65 ≤ a ∧ a ≤ 90 ∧ b = a + 32) || decide (65 ≤ b ∧ b ≤ 90 ∧ a = b + 32)

/-! ## Chords both protocols express (domain of `cross_protocol`) -/

def xpSpecial : List Int :=
  xtermLetterKeys.map (·.1) ++ xtermTildeKeys.map (·.1) ++ [KeyTab, KeyEnter, KeyEsc, KeyBackspace]

/-- Chords both protocols can express: (key, mods ⊆ Shift|Alt|Ctrl, character Shift produces). -/
def xpChords : List (Int × Nat × Int) :=
  (xpSpecial.flatMap fun k => (List.range 8).map fun m => (k, m, (0 : Int))) ++
  ((List.range 95).flatMap fun (i : Nat) =>
    let c : Int := 32 + Int.ofNat i
    if 65 ≤ c ∧ c ≤ 90 then [] else (List.range 8).map fun m => (c, m, asciiUni.toUpper c))

/-- The kitty reports (number, final) that denote `key`. -/
def kittyCodes (key : Int) : List (Int × Int) :=
  let fs := functional.filterMap fun e => if e.2 = key then some e.1 else none
  if fs = [] then [(key, 117)] else fs

/-- The kitty field combinations considered for a chord: the modifier field is present when there are
    modifiers, the shifted code when Shift is held on a character key; with/without event type; with
    the produced text for unmodified / shifted character keys. -/
def xpForms (key : Int) (mods : Nat) : List (Form × Bool) :=
  let char := decide (32 ≤ key ∧ key < 127)
  let sh := char && decide (mods &&& 1 ≠ 0)
  let base : List (Form × Bool) :=
    [({ withMods := true, withShifted := sh }, false), ({ withMods := true, withEvent := true, withShifted := sh }, false)]
  let bare : List (Form × Bool) := if mods = 0 then [({}, false)] else []
  let text : List (Form × Bool) := if char ∧ mods &&& 6 = 0 then [({ withMods := true, withShifted := sh, withText := true }, true)] else []
  bare ++ base ++ text


end VaxisModel.Spec.KeyEnc
