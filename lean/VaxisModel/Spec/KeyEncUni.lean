/-
Independent specification, round 2 (C09):

* `wrap32`      : Go's `rune(x)` for an `int` x (two's-complement truncation to 32 bits), written with
                  the Euclidean remainder (independently of `Model.Key.toRune`).
* `csiDenotes`  : closed form of "which key does `CSI params final` denote" for EVERY parameter list
                  (any number of parameters / sub-parameters, any integer values), read off the kitty
                  keyboard protocol's `CSI number:shifted:base ; mods:event ; text u` layout and xterm's
                  `CSI 27 ; mods ; code ~`.
* `legacyChar`  : the legacy (xterm, 8-bit-clean / UTF-8) report of a character key of any script:
                  the character itself, the shifted character under Shift, ESC-prefixed under Alt.
* `CharHyp*`    : Bool evaluators of the hypotheses of `Props.C09Uni.cross_protocol_char_*` on a
                  concrete table (used by the driver to check them at run time on Go's values).
Core Lean only.
-/
import VaxisModel.Model.Key
import VaxisModel.Spec.KeyEnc

namespace VaxisModel.Spec.KeyEncUni
open VaxisModel.Model.Key VaxisModel.Spec.KeyEnc
open VaxisModel.Gen.Keys

/-- `rune(x)` / `int32(x)`: the representative of `x` modulo 2^32 in [-2^31, 2^31). -/
def wrap32 (x : Int) : Int :=
  let y := x % 4294967296      -- Euclidean remainder: 0 ≤ y < 2^32
  if y < 2147483648 then y else y - 4294967296

/-- A code point given as a CSI parameter and appended to the text: `string(rune(p))`. -/
def textRune (p : Int) : Int := if validRune (wrap32 p) then wrap32 p else 0xFFFD

/-- `CSI 1 Z` (and `CSI Z`) is Shift+Tab. -/
def isShiftTab (p0 : List Int) (fin : Int) : Bool :=
  match p0[0]? with
  | some n => decide (wrap32 n = 1 ∧ fin = 90)
  | none => false

/-- The key the first field denotes: Shift+Tab's Tab, a functional key of the protocol table, or
    the number itself (as a 32-bit rune). -/
def csiKeyOf (p0 : List Int) (fin : Int) : Int :=
  match p0[0]? with
  | none => 0
  | some n =>
    if isShiftTab p0 fin = true then KeyTab
    else match lookup2 (wrap32 n, fin) functional with
      | some k => k
      | none => wrap32 n

/-- xterm modifyOtherKeys `CSI 27 ; mods ; code ~`: the third parameter is the key, not text. -/
def isModifyOther (p0 : List Int) (fin : Int) : Bool :=
  decide (csiKeyOf p0 fin = 27 ∧ fin = 126)

/-- The key denoted by `CSI params final`, before the Shift-text work-around.
    Field `i` of parameter `k` is `params[k][i]`; an absent field (or parameter) has no effect.
    Parameters after the third, key-code sub-fields after the third and modifier sub-fields after the
    second are ignored.  No parameters at all is `CSI 1 final`. -/
def csiFieldsNE (ps : List (List Int)) (fin : Int) : Key :=
  let p0 := ps[0]?.getD []
  let p1 := ps[1]?.getD []
  let p2 := ps[2]?.getD []
  { keycode := match p2[0]? with
      | some c => if isModifyOther p0 fin = true then wrap32 c else csiKeyOf p0 fin
      | none => csiKeyOf p0 fin
    shifted := match p0[1]? with | some s => wrap32 s | none => 0
    base := match p0[2]? with | some b => wrap32 b | none => 0
    mods := match p1[0]? with
      | some m => (m - 1).toNat          -- mask + 1; anything ≤ 1 is "no modifiers"
      | none => if isShiftTab p0 fin = true then shiftBit else 0
    event := match p1[1]? with
      | some e => e - 1
      | none => 0
    text := if isModifyOther p0 fin = true then [] else p2.map textRune }

def csiFields (params : List (List Int)) (fin : Int) : Key :=
  csiFieldsNE (if params = [] then [[1]] else params) fin

/-- The key `decodeKey` must return for `CSI params final`, for every parameter list over ℤ. -/
def csiDenotes (u : Uni) (params : List (List Int)) (fin : Int) : Key :=
  shiftFix u (csiFields params fin)

/-- What `CSI params final` is read through: the first three parameters, the rune-typed fields (key
    codes and text code points) modulo 2^32. -/
def csiNormal : List (List Int) → List (List Int)
  | [] => []
  | [p0] => [p0.map wrap32]
  | [p0, p1] => [p0.map wrap32, p1]
  | p0 :: p1 :: p2 :: _ => [p0.map wrap32, p1, p2.map wrap32]

/-! ## Character keys of any script under the legacy protocol -/

/-- The legacy report of the character key `c` (un-shifted character; `C` = the character Shift
    produces on it) with modifiers `mods ⊆ Shift|Alt`; Ctrl has no legacy report outside ASCII. -/
def legacyChar (c C : Int) (mods : Nat) : Option Seq :=
  if mods = 0 then some (.print [c])
  else if mods = shiftBit then some (.print [C])
  else if mods = altBit then some (.esc c)
  else if mods = altBit ||| shiftBit then some (.esc C)
  else none

/-- A finite view of a `Uni`: the runes a run-time table lists (`dom`), used to evaluate the
    ∀-hypothesis "no lower-case rune with an upper case of its own upper-cases to `c`" on the rows the harness supplies (the harness
    lists every such rune of Go's tables; runes outside the table are not lower-case in the driver's
    `Uni`). -/
def noLowerMapsTo (u : Uni) (dom : List Int) (c : Int) : Bool :=
  dom.all fun r => !(u.isLower r && decide (u.toUpper r ≠ r) && decide (u.toUpper r = c))

/-- Hypotheses of `cross_protocol_char_plain` (textless forms need the last three). -/
def hypPlain (u : Uni) (dom : List Int) (c : Int) (withText : Bool) : List (String × Bool) :=
  [("validRune", validRune c), ("notDEL", decide (c ≠ 127)), ("notUpper", !u.isUpper c),
   ("notFunctional", decide (lookup2 (c, 117) functional = none))] ++
  (if withText then [] else [("notFFFD", decide (c ≠ 0xFFFD)), ("noLowerMapsTo", noLowerMapsTo u dom c)])

/-- Hypotheses of `cross_protocol_char_shift`. -/
def hypShift (u : Uni) (c C : Int) (withText : Bool) : List (String × Bool) :=
  [("validRune", validRune c && validRune C), ("upperC", u.isUpper C), ("toLowerC", decide (u.toLower C = c)),
   ("notDEL", decide (c ≠ 127)), ("notFunctional", decide (lookup2 (c, 117) functional = none))] ++
  (if withText then [] else [("isPrint", u.isPrint c), ("isPrintC", u.isPrint C)])

/-- Hypotheses of `cross_protocol_char_alt`. -/
def hypAlt (u : Uni) (c : Int) : List (String × Bool) :=
  [("validRune", validRune c), ("notUpper", !u.isUpper c),
   ("notFunctional", decide (lookup2 (c, 117) functional = none))]

/-- Hypotheses of `cross_protocol_char_alt_shift`. -/
def hypAltShift (u : Uni) (c C : Int) : List (String × Bool) :=
  [("validRune", validRune c && validRune C), ("upperC", u.isUpper C), ("toLowerC", decide (u.toLower C = c)),
   ("notFunctional", decide (lookup2 (c, 117) functional = none))]

def violated (h : List (String × Bool)) : List String := (h.filter fun e => !e.2).map (·.1)

/-! ## A hand-made `Uni`: Go's values on ASCII plus é / É (U+00E9 / U+00C9) and ß (U+00DF) -/

def latinUni : Uni where
  isUpper r := asciiUni.isUpper r || decide (r = 201)
  isLower r := asciiUni.isLower r || decide (r = 233) || decide (r = 223)
  isLetter r := asciiUni.isLetter r || decide (r = 201) || decide (r = 233) || decide (r = 223)
  isGraphic r := asciiUni.isGraphic r || decide (r = 201) || decide (r = 233) || decide (r = 223)
  isPrint r := asciiUni.isPrint r || decide (r = 201) || decide (r = 233) || decide (r = 223)
  toUpper r := if r = 233 then 201 else asciiUni.toUpper r      -- ToUpper('ß') = 'ß'
  toLower r := if r = 201 then 233 else asciiUni.toLower r
  foldEq a b := asciiUni.foldEq a b || decide (a = 201 ∧ b = 233) || decide (a = 233 ∧ b = 201)

end VaxisModel.Spec.KeyEncUni
