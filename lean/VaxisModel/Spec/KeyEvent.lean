/-
C09 — which key events a binding can be looked up for (extends `Spec.KeyEnc.pressedChord` to every event type
other than a release).  Core Lean only.
-/
import VaxisModel.Spec.KeyEnc

namespace VaxisModel.Spec.KeyEnc
open VaxisModel.Model.Key VaxisModel.Gen.Keys

/-- An event a binding can be looked up for: any event type except a release (press, repeat, and the paste /
    motion types `handleSequence` assigns — `String()` omits the modifier prefix only for releases), a real key, an
    8-bit modifier mask.  Every `pressedChord` is one. -/
def bindableEvent (k : Key) : Bool :=
  realKey k.keycode && decide (k.event ≠ EventRelease) && decide (k.mods < 256)

end VaxisModel.Spec.KeyEnc
