/-
C09 — which key events a binding can be looked up for (extends `Spec.KeyEnc.pressedChord` to every event type
other than a release).  Core Lean only.
-/
import VaxisModel.Spec.KeyEnc

namespace VaxisModel.Spec.KeyEnc
open VaxisModel.Model.Key VaxisModel.Gen.Keys

/-- An event a binding can be looked up for: any event type except a release (press, repeat, and the paste /
    motion types `handleSequence` assigns — `String()` omits the modifier prefix only for releases), a real key, an
    8-bit modifier mask.  Every `pressedChord` is one. -/
def bindableEvent (k : Key) : Bool :=
  realKey k.keycode && decide (k.event ≠ EventRelease) && decide (k.mods < 256)

/-- A law of the `unicode` tables: the upper case of a lower-case letter (when it has one of its own) has a lower
    case of its own — `ToLower(ToUpper r) ≠ ToUpper r`.  (It need not be `r`: ToLower(ToUpper 'ı') = 'i'.)  Checked on
    Go's tables over all of Unicode by the `hypl` op of the C09 driver. -/
def UpperHasLower (u : Uni) : Prop :=
  ∀ r, u.isLower r = true → u.toUpper r ≠ r → u.toLower (u.toUpper r) ≠ u.toUpper r

/-- Runes the kernel-evaluated table theorems mention: ASCII (0 included: "no code") and the key codes above the
    Unicode range. -/
def inKeyDom (r : Int) : Bool := (decide (0 ≤ r) && decide (r < 128)) || decide (maxRune < r)

end VaxisModel.Spec.KeyEnc
