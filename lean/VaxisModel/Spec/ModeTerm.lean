/-
Spec.ModeTerm — the part of a terminal that C04 observes: DEC private modes, cursor visibility and
shape, alternate screen, kitty keyboard stack depth, keypad mode, application id, pointer shape,
whether the pen is reset / a hyperlink is open, synchronized-update depth.  Interprets the same
token type as Spec.Display.  A terminal ignores private modes it does not implement
(`supported`), which is what "did not advertise" means for the queried modes.
Written from xterm ctlseqs / kitty keyboard protocol / the mode specifications, not from the Go code.
-/
import VaxisModel.Model.Render

namespace VaxisModel.Spec.ModeTerm
open VaxisModel.Model.Render (Tok)

structure MTerm where
  supported : List Nat := []            -- private modes implemented besides the always-present ones
  modes : List (Nat × Bool) := []       -- current value of every mode ever written (true = set)
  cursorVisible : Bool := true
  alt : Bool := false
  kittySupported : Bool := false
  kitty : Nat := 0                      -- kitty keyboard stack depth
  keypadApp : Bool := false
  cursorShape : Nat := 0
  appIdSupported : Bool := false
  appId : String := ""
  pointer : String := "74657874"        -- "text"
  penClean : Bool := true
  linkOpen : Bool := false
  sync : Bool := false                  -- synchronized-update mode (a flag: resetting it twice is harmless)
  deriving DecidableEq, Repr, Inhabited

/-- Modes every xterm-compatible terminal is assumed to implement (baseline vocabulary). -/
def baseline : List Nat := [1, 25, 1002, 1003, 1004, 1006, 1049, 2004]

def setMode (ms : List (Nat × Bool)) (n : Nat) (v : Bool) : List (Nat × Bool) :=
  (n, v) :: ms.filter (·.1 ≠ n)

def modeVal (t : MTerm) (n : Nat) : Bool :=
  match t.modes.find? (·.1 == n) with
  | some (_, v) => v
  | none => false

def decMode (t : MTerm) (n : Nat) (v : Bool) : MTerm :=
  if n = 25 then { t with cursorVisible := v }
  else if n = 1049 then { t with alt := v }
  else if n = 2026 then
    (if t.supported.contains 2026 then { t with sync := v } else t)
  else if baseline.contains n ∨ t.supported.contains n then { t with modes := setMode t.modes n v }
  else t

def startsWith (s p : String) : Bool := p.toList.isPrefixOf s.toList
def endsWith (s p : String) : Bool := p.toList.isSuffixOf s.toList

/-- Sequences outside the renderer's token vocabulary, by their hex form (the comparisons are on character
    lists so that they can be reasoned about for every payload). -/
def other (t : MTerm) (raw : String) : MTerm :=
  if raw.toList = "1b3d".toList then { t with keypadApp := true }
  else if raw.toList = "1b3e".toList then { t with keypadApp := false }
  else if raw.toList = "1b5b3c75".toList then (if t.kittySupported then { t with kitty := t.kitty - 1 } else t)      -- CSI < u
  else if startsWith raw "1b5b3e" ∧ endsWith raw "75" then                                             -- CSI > flags u
    (if t.kittySupported then { t with kitty := t.kitty + 1 } else t)
  else if startsWith raw "1b5d3137363b" then                                                            -- OSC 176 ;
    (if t.appIdSupported ∧ raw.toList ≠ "1b5d3137363b3f".toList then { t with appId := String.ofList (raw.toList.drop 12) } else t)
  else t

def step (t : MTerm) : Tok → MTerm
  | .decset n => decMode t n true
  | .decrst n => decMode t n false
  | .cursorStyle n => { t with cursorShape := n }
  | .pointer s => { t with pointer := s }
  | .sgr ps => { t with penClean := ps.isEmpty ∨ ps = [[0]] }
  | .osc8 _ u => { t with linkOpen := u ≠ "" }
  | .other raw => other t raw
  | _ => t

def run (t : MTerm) (toks : List Tok) : MTerm := toks.foldl step t

/-- Everything C04 lists is back at its prior value (`t0` = the terminal before Vaxis started). -/
def restored (t0 t : MTerm) : Bool :=
  (t.modes.all fun (_, v) => v == false) && t.cursorVisible && !t.alt && t.kitty == t0.kitty && !t.keypadApp &&
  t.cursorShape == t0.cursorShape && t.appId == t0.appId && t.pointer == t0.pointer && t.penClean && !t.linkOpen && !t.sync

end VaxisModel.Spec.ModeTerm
