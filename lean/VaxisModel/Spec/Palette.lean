/-
The xterm 256-colour palette, entries 16..255, *by formula* (independent of the Go table):
6×6×6 cube with levels 0,95,135,175,215,255 followed by 24 greys 8+10k.
-/
namespace VaxisModel.Spec.Palette

def cubeLevel (i : Nat) : Nat := if i = 0 then 0 else 55 + 40 * i

def cubeEntry (n : Nat) : Nat :=
  cubeLevel (n / 36) * 65536 + cubeLevel (n / 6 % 6) * 256 + cubeLevel (n % 6)

def greyEntry (k : Nat) : Nat :=
  let v := 8 + 10 * k
  v * 65536 + v * 256 + v

/-- Entry for palette index `16 + n`, `n < 240`. -/
def entry (n : Nat) : Nat := if n < 216 then cubeEntry n else greyEntry (n - 216)

def xtermPalette : List Nat := (List.range 240).map entry

end VaxisModel.Spec.Palette
