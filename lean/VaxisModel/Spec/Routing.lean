import VaxisModel.Model.Vxfw

/-!
# Specification of vxfw event routing (property C15), written from the property text

Uses only the *types* of `Model.Vxfw` (identifiers, events, phases, trace entries, surface
trees); none of its functions.

* `route` : capture (root → focused), target, bubble (parent → root);
* `conforms` : a trace follows a plan, stopping after the first offer during whose command
  processing the event was consumed;
* `chain` / `expectedPath` : the root-to-focused chain of a drawn tree;
* `under` : the surfaces under the pointer, in absolute coordinates;
* `focusOk` : focus notifications come in pairs FocusOut(old) … FocusIn(new);
* `hoverOk` : MouseEnter / MouseLeave alternate per widget.
-/
namespace VaxisModel.Spec.Routing
open VaxisModel.Model.Vxfw

/-- Who is offered an event, in order. `focusTgt` is "the focused widget" at that moment. -/
inductive PlanItem where
  | cap (w : Id) | focusTgt | tgt (w : Id) | bub (w : Id)
  deriving DecidableEq, Repr

/-- capture: capturing widgets of the chain, root first (the chain's last element included);
target; bubble: the chain without its last element, nearest first. -/
def planOf (captures : Id → Bool) (chain : List Id) (target : PlanItem) : List PlanItem :=
  (chain.filter captures).map .cap ++ [target] ++ chain.dropLast.reverse.map .bub

/-- The same with the target known: list of (widget, phase). -/
def route (captures : Id → Bool) (chain : List Id) (target : Id) : List (Id × Phase) :=
  (chain.filter captures).map (·, .capture) ++ [(target, .target)] ++
    chain.dropLast.reverse.map (·, .bubble)

/-- Is this entry an offer of `ev`? -/
def isRouted (ev : Ev) : Entry → Bool
  | .call _ e _ => e == ev
  | _ => false

/-- Focused widget after a stretch of trace. -/
def focusAfter (f : Id) : List Entry → Id
  | [] => f
  | .eff (.focusSet w) :: r => focusAfter w r
  | _ :: r => focusAfter f r

/-- The call a plan item stands for when `f` is focused. -/
def PlanItem.want (ev : Ev) (f : Id) : PlanItem → Entry
  | .cap w => .call w ev .capture
  | .focusTgt => .call f ev .target
  | .tgt w => .call w ev .target
  | .bub w => .call w ev .bubble

/-- `conforms ev f plan tr`: `tr` consists of the offers of `plan` in order, each followed by
entries that are not offers of `ev` (effects of the returned command, nested focus
notifications); it ends after the first offer whose followers contain `consume`, or when the
plan is exhausted. `f` is the focused widget at the start. -/
def conforms (ev : Ev) : Id → List PlanItem → List Entry → Bool
  | _, [], tr => tr.isEmpty
  | f, item :: plan, tr =>
    match tr with
    | [] => false
    | e :: rest =>
      let body := rest.takeWhile (fun x => !isRouted ev x)
      let rest' := rest.dropWhile (fun x => !isRouted ev x)
      e == item.want ev f &&
        (if body.contains (.eff .consume) then rest'.isEmpty
         else conforms ev (focusAfter f body) plan rest')

/-- Prefix up to and including the first element satisfying `p`. -/
def takeThrough {α : Type} (p : α → Bool) : List α → List α
  | [] => []
  | a :: r => if p a then [a] else a :: takeThrough p r

/-! ### chain of a drawn tree -/

mutual
/-- Root-to-`f` chain of the first (pre-order) surface of widget `f`. -/
def chain (f : Id) : STree → Option (List Id)
  | .node i _ _ ch => if i = f then some [i] else (chainL f ch).map (i :: ·)
def chainL (f : Id) : List Kid → Option (List Id)
  | [] => none
  | (_, _, _, t) :: r =>
    match chain f t with
    | some p => some p
    | none => chainL f r
end

/-- What `path` has to be after a frame that drew `t` with root widget `root`, focus `f`:
the chain (prefixed by the root widget if the root surface belongs to another widget), or
`[root]` if `f` is not drawn. -/
def expectedPath (root : Id) (t : STree) (f : Id) : List Id :=
  match chain f t with
  | some p => if root ≠ t.id then root :: p else p
  | none => [root]

/-- What `path` has to be at any time: `expectedPath` over the last frame the focus handler was
given; before the first frame, the root widget alone. -/
def drawnPath (s : St) : List Id :=
  match s.fhFrame with
  | none => [s.root]
  | some t => expectedPath s.root t s.focused

/-! ### surfaces under the pointer -/

def inRect (x y : Int) (w h : Nat) (px py : Int) : Bool :=
  decide (x ≤ px) && decide (px < x + w) && decide (y ≤ py) && decide (py < y + h)

mutual
/-- Pre-order list of the surfaces that contain the absolute point `(px,py)` and all of whose
ancestors contain it; `(x,y)` is the absolute origin of `t`. Coordinates reported are local. -/
def under (x y : Int) : STree → Int → Int → List Hit
  | .node i _ _ ch, px, py => ⟨px - x, py - y, i⟩ :: underL x y ch px py
def underL (x y : Int) : List Kid → Int → Int → List Hit
  | [], _, _ => []
  | (oc, or_, _, t) :: rest, px, py =>
    (if inRect (x + oc) (y + or_) t.w t.h px py then under (x + oc) (y + or_) t px py else []) ++
      underL x y rest px py
end

def underRoot (t : STree) (px py : Int) : List Hit :=
  if inRect 0 0 t.w t.h px py then under 0 0 t px py else []

mutual
/-- The chain obtained by always descending into the first child containing the point. -/
def descend (x y : Int) : STree → Int → Int → List Hit
  | .node i _ _ ch, px, py => ⟨px - x, py - y, i⟩ :: descendL x y ch px py
def descendL (x y : Int) : List Kid → Int → Int → List Hit
  | [], _, _ => []
  | (oc, or_, _, t) :: rest, px, py =>
    if inRect (x + oc) (y + or_) t.w t.h px py then descend (x + oc) (y + or_) t px py
    else descendL x y rest px py
end

mutual
/-- At every surface on the way down, at most one child contains the point. -/
def noOverlapAt (x y : Int) : STree → Int → Int → Bool
  | .node _ _ _ ch, px, py => noOverlapAtL x y ch px py
def noOverlapAtL (x y : Int) : List Kid → Int → Int → Bool
  | [], _, _ => true
  | (oc, or_, _, t) :: rest, px, py =>
    if inRect (x + oc) (y + or_) t.w t.h px py then
      noOverlapAt (x + oc) (y + or_) t px py &&
        rest.all (fun k => !inRect (x + k.1) (y + k.2.1) k.2.2.2.w k.2.2.2.h px py)
    else noOverlapAtL x y rest px py
end

mutual
/-- All sizes fit `uint16`. -/
def sizesOk : STree → Bool
  | .node _ w h ch => decide (w < 65536) && decide (h < 65536) && sizesOkL ch
def sizesOkL : List Kid → Bool
  | [] => true
  | (_, _, _, t) :: rest => sizesOk t && sizesOkL rest
end

/-! ### focus notifications -/

/-- The focus notifications of a trace come in pairs `FocusOut` to the currently focused widget
followed (after any non-focus entries) by `FocusIn` to the new one. `pend = true` after an
unmatched `FocusOut`. Returns the final focus. -/
def focusRun : Id → Bool → List Entry → Option Id
  | f, pend, [] => if pend then none else some f
  | f, pend, .call w .focusOut _ :: r => if !pend && w = f then focusRun f true r else none
  | _, pend, .call w .focusIn _ :: r => if pend then focusRun w false r else none
  | f, pend, _ :: r => focusRun f pend r

def focusOk (f : Id) (tr : List Entry) : Bool := (focusRun f false tr).isSome

/-! ### hover notifications -/

/-- Process a trace, keeping the list of widgets whose last hover notification was MouseEnter.
`none` if a widget gets Enter while entered or Leave while not entered. -/
def hoverRun : List Id → List Entry → Option (List Id)
  | hs, [] => some hs
  | hs, .call w .mouseEnter _ :: r => if hs.contains w then none else hoverRun (w :: hs) r
  | hs, .call w .mouseLeave _ :: r => if hs.contains w then hoverRun (hs.erase w) r else none
  | hs, _ :: r => hoverRun hs r

/-! ### commands -/

/-- Effects a list of non-focus atoms must have, each once, in order. -/
def effOfAtom : Atom → Option Eff
  | .redraw => some .redraw
  | .refresh => some .refresh
  | .quit => some .quit
  | .consume => some .consume
  | .debug => some .debug
  | .other k => some (.other k)
  | .focus _ => none


/-- The explicit trace of a dispatch when no answer contains a focus command: walk the route;
the `k`-th handler call overall answers `h w ev ph k`; its non-batch commands take effect once, in
order; stop after the first answer that contains `consume`. -/
def specRun (h : Id → Ev → Phase → Nat → Cmd) (ev : Ev) : Nat → List (Id × Phase) → List Entry
  | _, [] => []
  | k, (w, ph) :: r =>
    .call w ev ph :: (((h w ev ph k).flatten.filterMap effOfAtom).map Entry.eff ++
      (if (h w ev ph k).flatten.contains .consume then [] else specRun h ev (k + 1) r))

/-- The calls of a trace. -/
def callsOf (tr : List Entry) : List (Id × Ev × Phase) :=
  tr.filterMap fun | .call w ev ph => some (w, ev, ph) | _ => none


/-! ### every returned command takes effect exactly once -/

/-- The non-focus effects of the non-batch commands of a flattened command value. -/
def nfEffs (l : List Atom) : List Eff := l.filterMap effOfAtom

/-- The command effects recorded in a trace (`focused := w` assignments are not command effects:
a focus command may be a no-op, and `updatePath` refocuses without a command). -/
def effectsIn : List Entry → List Eff
  | [] => []
  | .eff e :: r => (match e with | .focusSet _ => effectsIn r | e => e :: effectsIn r)
  | _ :: r => effectsIn r

/-- Number of handler calls in a trace. -/
def nCalls : List Entry → Nat
  | [] => 0
  | .call _ _ _ :: r => nCalls r + 1
  | _ :: r => nCalls r

/-- The effects the handler calls of a trace asked for: the `k`-th call overall answered
`h w ev phase k`. `k0` = number of calls before this stretch of trace. -/
def owed (h : Id → Ev → Phase → Nat → Cmd) : Nat → List Entry → List Eff
  | _, [] => []
  | k, .call w ev ph :: r => nfEffs (h w ev ph k).flatten ++ owed h (k + 1) r
  | k, _ :: r => owed h k r

end VaxisModel.Spec.Routing
