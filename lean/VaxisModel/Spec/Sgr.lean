/-
Spec.sgr — interpretation of one SGR control sequence (CSI … m) on a terminal pen, written from
ECMA-48 §8.3.117 and xterm ctlseqs ("Character Attributes (SGR)"), with
* colon sub-parameter forms   38:5:n   38:2:r:g:b   38:2:cs:r:g:b  (ITU T.416, colour-space slot skipped)
* legacy semicolon forms      38;5;n   38;2;r;g;b
* 4:n underline styles (kitty/VTE extension), 58/59 underline colour, 21 = double underline (ECMA-48 / xterm).
A parameter is a non-empty list of sub-parameters; an omitted parameter is `[0]`.
A malformed / truncated extended-colour form ends processing of the sequence (the rest is ignored):
the behaviour there is terminal specific and nothing in the properties relies on it.
-/
import VaxisModel.Spec.Style

namespace VaxisModel.Spec

/-- Extended colour from colon sub-parameters *after* the leading 38/48/58. -/
def extColon : List Nat → Option Col
  | [5, n] => some (.idx n)
  | [2, r, g, b] => some (.rgb r g b)
  | [2, _cs, r, g, b] => some (.rgb r g b)
  | _ => none

/-- One SGR parameter that needs no look-ahead. `none` = not handled here. -/
def sgrSimple (s : TStyle) (p : Nat) : TStyle :=
  if p = 0 then TStyle.reset
  else if p = 1 then { s with bold := true }
  else if p = 2 then { s with dim := true }
  else if p = 3 then { s with italic := true }
  else if p = 4 then { s with ulStyle := 1 }
  else if p = 5 ∨ p = 6 then { s with blink := true }
  else if p = 7 then { s with reverse := true }
  else if p = 8 then { s with hidden := true }
  else if p = 9 then { s with strike := true }
  else if p = 21 then { s with ulStyle := 2 }
  else if p = 22 then { s with bold := false, dim := false }
  else if p = 23 then { s with italic := false }
  else if p = 24 then { s with ulStyle := 0 }
  else if p = 25 then { s with blink := false }
  else if p = 27 then { s with reverse := false }
  else if p = 28 then { s with hidden := false }
  else if p = 29 then { s with strike := false }
  else if 30 ≤ p ∧ p ≤ 37 then { s with fg := .idx (p - 30) }
  else if p = 39 then { s with fg := .default }
  else if 40 ≤ p ∧ p ≤ 47 then { s with bg := .idx (p - 40) }
  else if p = 49 then { s with bg := .default }
  else if p = 59 then { s with ul := .default }
  else if 90 ≤ p ∧ p ≤ 97 then { s with fg := .idx (p - 90 + 8) }
  else if 100 ≤ p ∧ p ≤ 107 then { s with bg := .idx (p - 100 + 8) }
  else s

def setExt (s : TStyle) (which : Nat) (c : Col) : TStyle :=
  if which = 38 then { s with fg := c }
  else if which = 48 then { s with bg := c }
  else { s with ul := c }

/-- Look-ahead state for the legacy semicolon forms `38;5;n` and `38;2;r;g;b`. -/
inductive Pend where
  | none
  | kind (which : Nat)                    -- saw 38/48/58, expect 5 or 2
  | idx (which : Nat)                     -- saw 38;5, expect n
  | rgb (which : Nat) (acc : List Nat)    -- saw 38;2, collecting r g b
  | dead                                  -- malformed form: ignore the rest of the sequence
  deriving DecidableEq, Repr, Inhabited

/-- One parameter (with its colon sub-parameters) in look-ahead state `q`. -/
def sgrStep (st : TStyle × Pend) (param : List Nat) : TStyle × Pend :=
  let (s, q) := st
  match q with
  | .dead => (s, .dead)
  | .kind w =>
    match param with
    | [5] => (s, .idx w)
    | [2] => (s, .rgb w [])
    | _ => (s, .dead)
  | .idx w =>
    match param with
    | [n] => (setExt s w (.idx n), .none)
    | _ => (s, .dead)
  | .rgb w acc =>
    match param, acc with
    | [v], [r, g] => (setExt s w (.rgb r g v), .none)
    | [v], _ => (s, .rgb w (acc ++ [v]))
    | _, _ => (s, .dead)
  | .none =>
    match param with
    | [] => (sgrSimple s 0, .none)                        -- cannot occur (parameters are non-empty)
    | p :: sub =>
      if p = 38 ∨ p = 48 ∨ p = 58 then
        match sub with
        | [] => (s, .kind p)
        | _ :: _ =>
          match extColon sub with
          | some c => (setExt s p c, .none)
          | none => (s, .dead)
      else if p = 4 then
        match sub with
        | [] => ({ s with ulStyle := 1 }, .none)
        | n :: _ => ({ s with ulStyle := if n ≤ 5 then n else 1 }, .none)
      else (sgrSimple s p, .none)

/-- `CSI params m` applied to pen `s`. No parameters at all means reset. A form left incomplete at
    the end of the sequence has no effect. -/
def sgr (s : TStyle) (params : List (List Nat)) : TStyle :=
  if params.isEmpty then TStyle.reset else (params.foldl sgrStep (s, .none)).1

end VaxisModel.Spec

section tests
open VaxisModel.Spec
example : sgr {} [[1],[38,2,1,2,3]] = { bold := true, fg := .rgb 1 2 3 } := by decide
example : sgr {} [[48],[2],[9],[8],[7],[4,3]] = { bg := .rgb 9 8 7, ulStyle := 3 } := by decide
example : sgr { bold := true, dim := true } [[22],[2]] = { dim := true } := by decide
example : sgr { bold := true } [] = {} := by decide
example : sgr {} [[38],[5]] = {} := by decide
end tests
